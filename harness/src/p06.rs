//! C06 — vertex removal: interior / hull / degree-(D+1) / last vertices / unknown, interleaved
//! with insertions; every resulting state judged (K3).
use crate::common::{Out, Rng};
use crate::gens;
use crate::hist::{self, World};
use crate::Cfg;
use delaunay::core::delaunay_triangulation::DelaunayRepairPolicy;

fn history<const D: usize>(hid: usize, rng: &mut Rng, out: &mut Out, steps: usize) {
    let np = D + 2 + rng.below(7) as usize;
    let ps = gens::point_set(rng, D, np);
    let g = [1usize, 1, 0][rng.below(3) as usize];
    let Some(mut w): Option<World<D>> = hist::start_built::<D>(&ps.pts, g, rng) else { return };
    if rng.chance(1, 4) {
        w.dt.set_delaunay_repair_policy(DelaunayRepairPolicy::Never);
        w.repair_on = false;
    }
    for s in 0..steps {
        let choice = rng.below(10);
        if choice < 6 {
            let keys = w.live_keys();
            let vk = if keys.is_empty() || choice == 0 { None } else { Some(*rng.pick(&keys)) };
            // a just-inserted interior vertex has a degree-(D+1)-ish star: prefer it sometimes
            let obs = w.do_remove(vk, rng);
            let ok_removed = obs.iter().any(|(k, v)| k == "outcome" && v.starts_with("removed") && vk.is_some());
            let due = ok_removed && w.repair_on && w.dt.number_of_cells() > 0;
            let hull = obs.iter().any(|(k, v)| k == "ctx_hull" && v == "1");
            let args = format!("{} known={} hull={}", w.expect_args(due), vk.is_some() as u8, hull as u8);
            w.emit_state(&format!("r{D}_{hid}_{s}"), "remove", &args, &obs, out, false);
        } else {
            let (p, class) = w.pick_point(rng, 8);
            let (obs, _) = w.do_insert(p, false, rng);
            let args = format!("{} class={class}", w.expect_args(false));
            w.emit_state(&format!("r{D}_{hid}_{s}"), "insert", &args, &obs, out, false);
        }
        if (w.dt.number_of_cells() > 0 && w.dt.as_triangulation().is_valid().is_err())
            || (w.dt.number_of_cells() == 0 && w.dt.number_of_vertices() > D)
        {
            break; // the violation has been reported for this state; later states would only repeat it
        }
    }
}

/// removals under `DelaunayRepairPolicy::EveryN(n)`: the repair after a removal must run whatever
/// the phase of the insertion counter.  k preparatory insertions set the phase, an explicit global
/// repair makes the pre-state Delaunay again, then vertices are removed one after the other; with
/// repair enabled every Ok result is judged by the exact empty-sphere oracle.
fn everyn_history<const D: usize>(hid: usize, k: usize, n: usize, rng: &mut Rng, out: &mut Out, removals: usize) {
    let np = D + 4 + rng.below(6) as usize;
    let ps = gens::point_set(rng, D, np);
    let Some(mut w): Option<World<D>> = hist::start_built::<D>(&ps.pts, 1, rng) else { return };
    let nn = std::num::NonZeroUsize::new(n).unwrap();
    w.dt.set_delaunay_repair_policy(DelaunayRepairPolicy::EveryN(nn));
    w.repair_on = true;
    for _ in 0..k { let (p, _) = w.pick_point_class(rng, 8, 0); let _ = w.do_insert(p, false, rng); }
    if crate::common::catch(|| w.dt.repair_delaunay_with_flips().is_ok()) != Ok(true) { return; }
    if w.dt.number_of_cells() == 0 || w.dt.validate().is_err() { return; }
    for s in 0..removals {
        let keys = w.live_keys();
        if keys.len() <= D + 2 { break; }
        let vk = *rng.pick(&keys);
        let obs = w.do_remove(Some(vk), rng);
        let ok_removed = obs.iter().any(|(k, v)| k == "outcome" && v.starts_with("removed"));
        let due = ok_removed && w.dt.number_of_cells() > 0;
        let hull = obs.iter().any(|(k, v)| k == "ctx_hull" && v == "1");
        let args = format!("{} known=1 hull={} pol=EveryN{n}_phase{k}", w.expect_args(due), hull as u8);
        w.emit_state(&format!("rn{D}_{hid}_{k}_{n}_{s}"), "remove", &args, &obs, out, false);
        if w.dt.number_of_cells() > 0 && w.dt.as_triangulation().is_valid().is_err() { break; }
    }
}

pub fn run(cfg: &Cfg, rng: &mut Rng, out: &mut Out) {
    for h in 0..(if cfg.tier == "thorough" { 6 } else { 2 }) {
        for (k, n) in [(0usize, 2usize), (1, 2), (2, 3), (1, 3)] {
            everyn_history::<2>(h, k, n, rng, out, 6);
            everyn_history::<3>(h, k, n, rng, out, 5);
            if h == 0 { everyn_history::<4>(h, k, n, rng, out, 3); }
        }
    }
    let thorough = cfg.tier == "thorough";
    let nh = if thorough { 40 } else { 10 };
    for h in 0..nh {
        history::<2>(h, rng, out, if thorough { 24 } else { 12 });
        history::<3>(h, rng, out, if thorough { 20 } else { 10 });
        if h % 2 == 0 || thorough {
            history::<4>(h, rng, out, if thorough { 12 } else { 8 });
            history::<5>(h, rng, out, if thorough { 10 } else { 7 });
        }
    }
}
