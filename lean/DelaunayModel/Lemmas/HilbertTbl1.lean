/-
Lemmas/HilbertTbl1.lean — Hilbert curve tables (`curveOk D b = true` by kernel evaluation); split over
several files only so that `lake` checks them in parallel.
-/
import DelaunayModel.Lemmas.HilbertAux
namespace DM.HilbertAux

theorem curveOk_1_1 : curveOk 1 1 = true := by decide +kernel
theorem curveOk_1_2 : curveOk 1 2 = true := by decide +kernel
theorem curveOk_1_3 : curveOk 1 3 = true := by decide +kernel
theorem curveOk_1_4 : curveOk 1 4 = true := by decide +kernel
theorem curveOk_1_5 : curveOk 1 5 = true := by decide +kernel
theorem curveOk_1_6 : curveOk 1 6 = true := by decide +kernel
theorem curveOk_1_7 : curveOk 1 7 = true := by decide +kernel
theorem curveOk_1_8 : curveOk 1 8 = true := by decide +kernel
theorem curveOk_1_9 : curveOk 1 9 = true := by decide +kernel

end DM.HilbertAux
