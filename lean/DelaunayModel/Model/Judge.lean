/-
Model/Judge.lean — the exact oracle applied to an exported complex, with the predicates'
documented tolerance band taken into account: a geometric violation is *strict* only when the
exact determinant lies beyond `tolerance + rounding allowance` (Model/Pred `expectedQ`), so library
verdicts inside the band are never second-guessed.
-/
import DelaunayModel.Model.Certify
import DelaunayModel.Model.Pred
namespace DM

def cellDPts (K : Cx) (c : Cell) : Option (List DPt) :=
  c.vs.mapM (fun v => (K.vtxById v).bind (·.pt))

/-- is `vid` the apex of a facet-neighbour of `c` (the k=2 configuration)? -/
def isNbrApex (K : Cx) (c : Cell) (vid : Nat) : Bool :=
  (List.range c.vs.length).any (fun i => match nbSlot c i with
    | none => false
    | some k => match K.cellById k with
      | none => false
      | some n => n.vs.contains vid)

structure SphereViol where
  cell : Nat
  vert : Nat
  strict : Bool      -- beyond the tolerance band
  nbrApex : Bool
  deriving Repr

def sphereViols (K : Cx) : List SphereViol :=
  (sphereViolations K).filterMap (fun (cid, vid) =>
    match K.cellById cid, (K.vtxById vid).bind (·.pt) with
    | some c, some q =>
      match cellDPts K c with
      | some s =>
        let e := predExpect K.D s q
        some { cell := cid, vert := vid, strict := e.insphere == some (some 1), nbrApex := isNbrApex K c vid }
      | none => none
    | _, _ => none)

/-- strict convexity violations: vertex decidably beyond a boundary facet -/
def strictConvexViols (K : Cx) : List (Nat × Nat × Nat) :=
  (convexityViolations K).filter (fun (cid, i, vid) =>
    match K.cellById cid, (K.vtxById vid).bind (·.pt) with
    | some c, some q =>
      match cellDPts K c with
      | some s => (predExpect K.D (s.set i q) q).orient.isSome && (predExpect K.D s q).orient.isSome
      | none => false
    | _, _ => false)

/-- cells whose exact orientation is not positive, with whether that is decidable beyond the band -/
def orientIssues (K : Cx) : List (Nat × Int × Bool) :=
  K.cells.filterMap (fun c =>
    match cellDPts K c with
    | none => some (c.id, 0, true)
    | some s =>
      let q := s.headD []
      let e := predExpect K.D s q
      if e.exactOr == 1 then none else some (c.id, e.exactOr, e.orient.isSome))

structure Judgement where
  l1 : Bool
  l2 : Bool
  l3 : Bool            -- at the case's guarantee, without completion-time vertex links
  l3c : Bool           -- with completion-time vertex links
  l3parts : List (String × Bool)
  viols : List SphereViol
  convex : List (Nat × Nat × Nat)
  orientBand : Bool    -- some non-positive cell orientation lies inside the band (undecidable)

def judge (K : Cx) (g : Guarantee) : Judgement :=
  let parts : List (String × Bool) := [
    ("connected", connected K), ("facetDeg", facetDegOk K), ("closedBoundary", closedBoundary K),
    ("ridgeLinks", if g ≥ 1 then ridgeLinksOk K else true),
    ("vertexLinksStrict", if g ≥ 2 then vertexLinksOk K else true),
    ("noIsolated", noIsolated K), ("euler", eulerOk K), ("geomOrient", geomOrientOk K)]
  let l3 := parts.all (·.2)
  let l3c := l3 && (if g ≥ 1 then vertexLinksOk K else true)
  { l1 := checkL1 K, l2 := checkL2 K, l3 := l3, l3c := l3c, l3parts := parts,
    viols := sphereViols K, convex := strictConvexViols K,
    orientBand := K.cells.any (fun c => match cellDPts K c with
      | none => false
      | some s => (predExpect K.D s (s.headD [])).orient.isNone) }

end DM

namespace DM

/-- ASSUMPTION for exact-zero determinants only (DESIGN §6): the LU determinant of an exactly
singular `[p | 1]` matrix whose coordinates are multiples of 1/8 with magnitude ≤ M evaluates to
|fl(det)| ≤ 32·u·M^D, which is below the dead band `1e-12·M` as soon as `M^(D-1) ≤ 281`
(D=2: M ≤ 281, D=3: M ≤ 16, D=4: M ≤ 6, D=5: M ≤ 4).  Larger or finer coordinates: not decidable.
The C12 check measures the class separately (`pred.orient.zero.loose`). -/
def smallHalfInts (pts : List DPt) : Bool :=
  let d := (pts.headD []).length
  let allEighths := pts.all (fun p => p.all (fun x => x.m == 0 || x.e ≥ -3))
  -- M = max |coordinate| rounded up to an integer ≥ 1
  let m8 := pts.foldl (fun acc p => p.foldl (fun a x => let v := iabs (x.scaled (-3)); if v > a then v else a) acc) 8
  let M := (m8 + 7) / 8
  allEighths && M ^ (d - 1) ≤ 281

/-- decidable orientation class of a simplex: strict signs by the conservative rounding bound,
exact zero additionally when the points are small half-integers -/
def orientClass (D : Nat) (s : List DPt) : Option Int :=
  let (e, exact) := orientExpect D s
  match e with
  | some o => some o
  | none => if exact == 0 && smallHalfInts s then some 0 else none

/-- side of query `q` relative to facet `i` of the cell with points `s` (slot order):
`some true` strictly outside, `some false` inside or on the plane, `none` not exactly decidable -/
def sideClass (D : Nat) (s : List DPt) (i : Nat) (q : DPt) : Option Bool :=
  let facet := s.eraseIdx i
  match orientClass D (facet ++ [s.getD i []]), orientClass D (facet ++ [q]) with
  | some co, some qo => some (co * qo < 0)
  | _, _ => none

end DM
