/-
Model/Wrap.lean — wrapping a coordinate into the half-open fundamental interval `[0, L)`
(src/topology/spaces/toroidal.rs `wrap_coord` :90, `canonicalize_point`;
src/topology/traits/global_topology_model.rs `ToroidalModel::canonicalize_point_in_place` :235),
over exact rationals: `wrap L x = x - L * ⌊x / L⌋`.
Rationals are `(num : Int, den : Nat)` pairs with `den > 0`.
-/
import DelaunayModel.Model.Basic
namespace DM.Wrap

open DM

/-- floor of `x / L` for `L > 0`: cross-multiplied integer floor division -/
def floorDiv (x L : Q) : Int := (x.num * (L.den : Int)) / ((x.den : Int) * L.num)

/-- `x - L * ⌊x/L⌋` -/
def wrap (L x : Q) : Q := x - (Q.ofInt (floorDiv x L)) * L

def inBox (L y : Q) : Bool := Q.le (Q.ofInt 0) y && Q.lt y L

/-- `x - y` is an integer multiple of `L` -/
def congruent (L x y : Q) : Bool :=
  let d := x - y
  -- d / L integer  ⇔  (d.num * L.den) divisible by (d.den * L.num)
  let n := d.num * (L.den : Int)
  let m := (d.den : Int) * L.num
  m != 0 && n % m == 0

end DM.Wrap
