/-
Model/Pred.lean — decision logic of the predicates (src/geometry/predicates.rs,
robust_predicates.rs, matrix.rs) with the floating determinant replaced by the exact one plus an
explicit rounding-error allowance:

  classify τ d̃ = +1 if d̃ > τ, −1 if d̃ < −τ, 0 otherwise           (the Rust dead band)
  expected τ ε d = some (sign d)  if |d| > τ + ε
                 = some 0         if d = 0 ∧ ε ≤ τ
                 = none           otherwise (not well-conditioned: no claim)

`Props/C12.lean` proves: |d̃ − d| ≤ ε → expected τ ε d = some s → classify τ d̃ = s.
-/
import DelaunayModel.Model.Det
namespace DM

/-- the dead-band classifier the Rust code applies to the floating determinant -/
def classify (tol dt : Int) : Int := if dt > tol then 1 else if dt < -tol then -1 else 0

/-- expected verdict from the exact determinant `d`, tolerance `tol`, error allowance `eps`
(all three scaled to a common integer denominator) -/
def expected (tol eps d : Int) : Option Int :=
  if iabs d > tol + eps then some (sgn d)
  else if d == 0 && eps ≤ tol then some 0
  else none

/-! Rational wrappers used by the driver (the band is `1e-15 + 1e-12 · ‖A‖∞`). -/

def qTen (k : Nat) : Q := ⟨1, 10 ^ k⟩

/-- exact value of a dyadic matrix entry list: ∞-norm (max absolute row sum) -/
def maxRowSum (rows : List (List Q)) : Q :=
  rows.foldl (fun acc r =>
    let s := r.foldl (fun a x => a + Q.abs x) (Q.ofInt 0)
    if Q.lt acc s then s else acc) (Q.ofInt 0)

def prodRowSum (rows : List (List Q)) : Q :=
  rows.foldl (fun acc r => acc * r.foldl (fun a x => a + Q.abs x) (Q.ofInt 0)) (Q.ofInt 1)

/-- `adaptive_tolerance(matrix, 1e-15)`: the all-ones last column is excluded from the norm.
`dropLast` says whether the last column is the constant-one column. -/
def adaptiveTol (rows : List (List Q)) (dropLast : Bool) : Q :=
  let rs := if dropLast then rows.map List.dropLast else rows
  qTen 15 + qTen 12 * maxRowSum rs

/-- conservative a-priori bound for |fl(det) − det| of LU with partial pivoting on an n×n matrix
whose entries may themselves carry a relative rounding error (squared norms):
`n³ · 2^(n+1) · 2⁻⁵³ · ∏ ‖row‖₁`.  Assumed, not proved (see DESIGN §6); evidence reports how close
observed verdict flips come to it. -/
def luBound (rows : List (List Q)) : Q :=
  let n := rows.length
  (⟨(n * n * n * 2 ^ (n + 1) : Nat), 2 ^ 53⟩ : Q) * prodRowSum rows

def qRows (rows : List (List Dy)) : List (List Q) := rows.map (·.map Q.ofDy)

def dySqNorm (p : DPt) : Q := p.foldl (fun a x => a + Q.ofDy x * Q.ofDy x) (Q.ofInt 0)

/-- three-way expected verdict over rationals -/
def expectedQ (tol eps d : Q) : Option Int :=
  if Q.lt (tol + eps) (Q.abs d) then some (sgn d.num)
  else if d.num == 0 && Q.le eps tol then some 0
  else none

/-- orientation only: (expected verdict if decidable, exact sign) -/
def orientExpect (d : Nat) (s : List DPt) : Option Int × Int :=
  let emin := minExp s
  let od := orientDet (scalePts s emin)
  let oRows := qRows (s.map (fun p => p ++ [⟨1, 0⟩]))
  let oTol := adaptiveTol oRows true
  let oEps := luBound oRows
  let oReal := Q.scale2 (Q.ofInt od) (emin * d)
  (expectedQ oTol oEps oReal, sgn od)

structure PredExpect where
  orient : Option Int            -- expected `orientation` result
  insphere : Option (Option Int) -- `some none` = expected Err (degenerate simplex); `none` = no claim
  lifted : Option Int            -- expected `insphere_lifted` when decidable under its own band
  exactIn : Int                  -- exact in-sphere sign (for the "never opposite" checks)
  exactOr : Int

def relRows (s : List DPt) (q : DPt) : List (List Q) :=
  match s with
  | [] => []
  | p0 :: rest =>
    let rel := fun (p : DPt) =>
      let r := (p.zip p0).map (fun (a, b) => Q.ofDy a - Q.ofDy b)
      r ++ [r.foldl (fun a x => a + x * x) (Q.ofInt 0)]
    (rest ++ [q]).map rel

/-- everything the C12 check expects of one (simplex, query) pair -/
def predExpect (d : Nat) (s : List DPt) (q : DPt) : PredExpect :=
  let emin := minExp (q :: s)
  let si := scalePts s emin
  let qi := q.map (·.scaled emin)
  let od := orientDet si
  let idt := insphereDet si qi
  let oRows := qRows (s.map (fun p => p ++ [⟨1, 0⟩]))
  let oTol := adaptiveTol oRows true
  let oEps := luBound oRows
  let oReal := Q.scale2 (Q.ofInt od) (emin * d)
  let eo := expectedQ oTol oEps oReal
  let iRowsQ : List (List Q) := (s ++ [q]).map (fun p => p.map Q.ofDy ++ [dySqNorm p, Q.ofInt 1])
  let iTol := adaptiveTol iRowsQ true
  let iEps := luBound iRowsQ
  let iReal := Q.scale2 (Q.ofInt idt) (emin * (d + 2))
  let ei := expectedQ iTol iEps iReal
  let qInS := s.any (fun p => p == q)
  let ins : Option (Option Int) :=
    if qInS then some (some 0) else
    match eo with
    | none => none
    | some 0 => some none
    | some o => ei.map (fun i => some (i * o))
  -- lifted formulation: relative coordinates, all columns count for the norm
  let lRows := relRows s q
  let lTol := adaptiveTol lRows false
  let lEps := luBound lRows
  let lDet := liftedDet si qi
  let lReal := Q.scale2 (Q.ofInt lDet) (emin * (d + 2))
  let el := expectedQ lTol lEps lReal
  let parity : Int := liftedParity d
  let lifted : Option Int :=
    match eo, el with
    | some 0, _ => none
    | some o, some i => some (i * parity * o)
    | _, _ => none
  { orient := eo, insphere := ins, lifted := lifted,
    exactIn := sgn idt * sgn od, exactOr := sgn od }

end DM
