//! C13 — serialisation round trip (K1) and single-field corruptions of the JSON (malformed stream).
use crate::common::{catch, fingerprint, hx, Ids, Out, Rng};
use crate::gens;
use crate::hist::{self, World};
use crate::tri;
use crate::Cfg;
use delaunay::core::triangulation_data_structure::Tds;
use delaunay::geometry::kernel::FastKernel;
use delaunay::prelude::DelaunayTriangulation;
use serde_json::Value;

type T<const D: usize> = Tds<f64, tri::VData, tri::CData, D>;

fn roundtrip<const D: usize>(id: &str, w: &mut World<D>, gp_int: bool, rng: &mut Rng, out: &mut Out) {
    let before = fingerprint(w.dt.tds());
    let js = match catch(|| serde_json::to_string(w.dt.tds())) { Ok(Ok(s)) => s, _ => { return; } };
    let back = catch(|| serde_json::from_str::<T<D>>(&js).map_err(|e| e.to_string()));
    let mut obs: Vec<(String, String)> = Vec::new();
    match back {
        Ok(Ok(tds2)) => {
            let after = fingerprint(&tds2);
            if after != before && std::env::var_os("VH_DEBUG").is_some() {
                eprintln!("ROUNDTRIP DIFF {id}\nBEFORE {before}\nAFTER  {after}");
            }
            obs.push(("roundtrip_equal".into(), if after == before { "1".into() } else { "0 deserialised triangulation differs (vertices/cells/neighbour relation/data)".into() }));
            obs.push(("same_vertices".into(), if &tds2 == w.dt.tds() { "1".into() } else { "0 deserialised Tds does not compare equal (==) to the original".into() }));
            let v1 = (w.dt.tds().is_valid().is_ok(), w.dt.tds().validate().is_ok());
            let v2 = (tds2.is_valid().is_ok(), tds2.validate().is_ok());
            let mut dt2: DelaunayTriangulation<FastKernel<f64>, tri::VData, tri::CData, D> =
                DelaunayTriangulation::from_tds_with_topology_guarantee(tds2, FastKernel::new(), tri::guarantee(w.g));
            let l3a = w.dt.as_triangulation().validate().is_ok();
            let l3b = dt2.as_triangulation().validate().is_ok();
            let l4a = w.dt.is_valid().is_ok();
            let l4b = dt2.is_valid().is_ok();
            // Levels 1-3 are functions of the document's content and must agree.  The Level-4 verdict
            // of the flip-predicate verifier is recorded separately: on a state that is not a
            // certified Delaunay triangulation (after removals / flips) it can depend on the STORAGE
            // order of the cells (which facet handle survives the queue de-duplication, from which
            // side a near-degenerate facet is evaluated), and storage order is not part of the document
            obs.push(("unchanged".into(), if v1 == v2 && l3a == l3b { "1".into() } else { format!("0 validation levels differ after round trip: {v1:?}/{l3a} vs {v2:?}/{l3b}") }));
            obs.push(("l4_pair".into(), format!("{}{}", l4a as u8, l4b as u8)));
            if l4a && !l4b { obs.push(("l4_lost".into(), "1".into())); }
            // further insertions on both copies give the same result for points in general position
            // (integer general-position families only; new points are rejection-sampled to keep
            // exact general position, so the Delaunay triangulation is unique)
            let mut same_suffix = String::from("1");
            if gp_int && !w.had_removal {
                for _ in 0..3 {
                    let cur: Vec<Vec<i64>> = w.live_coords().iter().map(|c| c.iter().map(|x| *x as i64).collect()).collect();
                    let mut cand = None;
                    for _ in 0..200 {
                        let p: Vec<i64> = (0..D).map(|_| rng.range(-9, 9)).collect();
                        if gens::keeps_general_position(&cur, &p, D) { cand = Some(p); break; }
                    }
                    let Some(pi) = cand else { break };
                    let mut p = [0.0f64; D];
                    for i in 0..D { p[i] = pi[i] as f64; }
                    let v = w.vertex(p, rng);
                    if std::env::var_os("VH_DEBUG").is_some() {
                        let mut c1 = w.dt.clone();
                        let mut c2 = dt2.clone();
                        eprintln!("DBG {id} p={pi:?} clone-of-orig: {:?}  clone-of-copy: {:?}", c1.insert(v).map(|_| ()), c2.insert(v).map(|_| ()));
                    }
                    let r1 = catch(|| w.dt.insert(v).is_ok());
                    let r2 = catch(|| dt2.insert(v).is_ok());
                    let f1 = crate::common::fingerprint_opt(w.dt.tds(), false);
                    let f2 = crate::common::fingerprint_opt(dt2.tds(), false);
                    if r1 != r2 { same_suffix = format!("0 insert of a general-position point: original {r1:?}, deserialised copy {r2:?}"); break; }
                    else if f1 != f2 && !(w.dt.is_valid().is_ok() && dt2.is_valid().is_ok()) {
                        // one of the two insertions left a result that the library's own Level-4
                        // check does not certify (observation O2): uniqueness carries no claim then
                        break;
                    }
                    else if f1 != f2 {
                        if std::env::var_os("VH_DEBUG").is_some() {
                            let v1 = delaunay::core::util::find_delaunay_violations(w.dt.tds(), None).map(|v| v.len());
                            let v2 = delaunay::core::util::find_delaunay_violations(dt2.tds(), None).map(|v| v.len());
                            eprintln!("SUFFIX DIFF {id} r={r1:?} p={pi:?} violations orig={v1:?} copy={v2:?} valid orig={:?} copy={:?} cells {} vs {}\nORIG {f1}\nCOPY {f2}", w.dt.is_valid().is_ok(), dt2.is_valid().is_ok(), w.dt.number_of_cells(), dt2.number_of_cells());
                        }
                        same_suffix = "0 after the same general-position insertion the two copies differ".into();
                        break;
                    }
                }
            }
            obs.push(("key_resolves".into(), same_suffix));
        }
        Ok(Err(e)) => obs.push(("roundtrip_equal".into(), format!("0 deserialisation of library output failed: {}", e.replace(' ', "_")))),
        Err(m) => obs.push(("roundtrip_equal".into(), format!("0 panic {m}"))),
    }
    w.emit_state(id, "serde_roundtrip", "expect=none", &obs, out, false);
}

/// single-field corruptions of the JSON document
fn corrupt(doc: &Value, kind: usize, rng: &mut Rng) -> Option<(Value, &'static str)> {
    let mut d = doc.clone();
    let cv_keys: Vec<String> = d.get("cell_vertices")?.as_object()?.keys().cloned().collect();
    if cv_keys.is_empty() { return None; }
    let k = rng.pick(&cv_keys).clone();
    let all_vertex_uuids: Vec<String> = d.get("vertices")?.as_array()?.iter().filter_map(|s| s.get("value")?.get("uuid")?.as_str().map(|x| x.to_string())).collect();
    let name: &'static str;
    match kind {
        0 => { let l = d["cell_vertices"][&k].as_array_mut()?; l.pop(); name = "cell_missing_vertex"; }
        1 => {
            let list: Vec<String> = d["cell_vertices"][&k].as_array()?.iter().filter_map(|x| x.as_str().map(|s| s.to_string())).collect();
            let extra = all_vertex_uuids.iter().find(|u| !list.contains(u))?.clone();
            d["cell_vertices"][&k].as_array_mut()?.push(Value::String(extra)); name = "cell_extra_vertex";
        }
        2 => { let l = d["cell_vertices"][&k].as_array_mut()?; let f = l[0].clone(); let n = l.len(); l[n - 1] = f; name = "cell_repeated_vertex"; }
        3 => { let l = d["cell_vertices"][&k].as_array_mut()?; l[0] = Value::String("00000000-0000-4000-8000-000000000001".into()); name = "unknown_vertex_uuid"; }
        4 => { if cv_keys.len() < 2 { return None; } let other = cv_keys.iter().find(|x| **x != k)?.clone(); let v = d["cell_vertices"][&other].clone(); d["cell_vertices"][&k] = v; name = "duplicate_cell"; }
        5 => { d["cell_vertices"].as_object_mut()?.remove(&k); name = "missing_cell_entry"; }
        13 => {
            if cv_keys.len() < 2 { return None; }
            let other = cv_keys.iter().find(|x| **x != k)?.clone();
            let mut v = d["cell_vertices"][&other].clone();
            v.as_array_mut()?.swap(0, 1);
            d["cell_vertices"][&k] = v; name = "duplicate_cell_permuted";
        }
        6 => {
            let vs = d["vertices"].as_array_mut()?;
            let live: Vec<usize> = vs.iter().enumerate().filter(|(_, s)| !s["value"].is_null()).map(|(i, _)| i).collect();
            if live.len() < 2 { return None; }
            let u = vs[live[0]]["value"]["uuid"].clone(); vs[live[1]]["value"]["uuid"] = u; name = "duplicate_vertex_uuid";
        }
        7 => {
            let vs = d["vertices"].as_array_mut()?;
            let i = vs.iter().position(|s| !s["value"].is_null())?;
            vs[i]["value"]["point"][0] = Value::Null; name = "null_coordinate";
        }
        8 => {
            let vs = d["vertices"].as_array_mut()?;
            let i = vs.iter().position(|s| !s["value"].is_null())?;
            vs[i]["value"] = Value::Null; name = "deleted_vertex";
        }
        9 => { let l = d["cell_vertices"][&k].as_array_mut()?; l.swap(0, 1); name = "swapped_vertex_order"; }
        10 => {
            let cs = d["cells"].as_array_mut()?;
            let i = cs.iter().position(|s| !s["value"].is_null())?;
            cs[i]["value"] = Value::Null; name = "deleted_cell";
        }
        11 => { let l = d["cell_vertices"][&k].as_array_mut()?; l.clear(); name = "cell_no_vertices"; }
        _ => {
            let vs = d["vertices"].as_array_mut()?;
            let i = vs.iter().position(|s| !s["value"].is_null())?;
            let p = vs[i]["value"]["point"].as_array_mut()?; p.pop(); name = "short_point";
        }
    }
    Some((d, name))
}


/// abstract content of a JSON document for the decode model (kind `sdoc`); `None` when the document
/// is not expressible (wrong JSON types)
fn emit_sdoc<const D: usize>(id: &str, name: &str, doc: &Value, loaded: Option<&T<D>>, verdict: &str, out: &mut Out) {
    let mut ids = Ids::default();
    let mut lines: Vec<String> = Vec::new();
    let pid = |s: &str, ids: &mut Ids| -> Option<usize> { uuid::Uuid::parse_str(s).ok().map(|u| ids.id(u)) };
    let Some(vs) = doc.get("vertices").and_then(|v| v.as_array()) else { return };
    for slot in vs {
        let val = &slot["value"];
        if val.is_null() { continue; }
        let Some(u) = val.get("uuid").and_then(|u| u.as_str()) else { return };
        let Some(vid) = pid(u, &mut ids) else { return };
        let Some(pt) = val.get("point").and_then(|p| p.as_array()) else { return };
        let coords: Vec<String> = pt.iter().map(|x| x.as_f64().map_or("null".to_string(), hx)).collect();
        lines.push(format!("dv {vid} {}", coords.join(" ")));
    }
    let Some(cs) = doc.get("cells").and_then(|v| v.as_array()) else { return };
    for slot in cs {
        let val = &slot["value"];
        if val.is_null() { continue; }
        let Some(u) = val.get("uuid").and_then(|u| u.as_str()) else { return };
        let Some(cid) = pid(u, &mut ids) else { return };
        lines.push(format!("dc {cid}"));
    }
    let Some(tab) = doc.get("cell_vertices").and_then(|v| v.as_object()) else { return };
    for (k, l) in tab {
        let Some(cid) = pid(k, &mut ids) else { return };
        let Some(l) = l.as_array() else { return };
        let mut row = format!("dt {cid}");
        for x in l {
            let Some(v) = x.as_str().and_then(|x| pid(x, &mut ids)) else { return };
            row.push_str(&format!(" {v}"));
        }
        lines.push(row);
    }
    out.case(&format!("{id}_{name}_doc"), "sdoc", &format!("D={D} corruption={name}"));
    for l in lines { out.line(&l); }
    out.obs("impl", verdict);
    if let Some(tds) = loaded {
        crate::common::export_tds(tds, &mut ids, "", out);
    }
    out.end();
}

fn malformed<const D: usize>(id: &str, w: &mut World<D>, rng: &mut Rng, out: &mut Out) {
    let Ok(Ok(doc)) = catch(|| serde_json::to_value(w.dt.tds())) else { return };
    {
        let text = doc.to_string();
        match catch(|| serde_json::from_str::<T<D>>(&text).map_err(|e| e.to_string())) {
            Ok(Ok(tds)) => emit_sdoc::<D>(id, "intact", &doc, Some(&tds), "loaded", out),
            Ok(Err(_)) => emit_sdoc::<D>(id, "intact", &doc, None, "rejected", out),
            Err(_) => emit_sdoc::<D>(id, "intact", &doc, None, "panic", out),
        }
    }
    for kind in 0..14 {
        let Some((bad, name)) = corrupt(&doc, kind, rng) else { continue };
        let text = bad.to_string();
        let r = catch(|| serde_json::from_str::<T<D>>(&text).map_err(|e| e.to_string()));
        if matches!(kind, 0 | 1 | 2 | 3 | 4 | 5 | 6 | 7 | 9 | 11 | 13) {
            match &r {
                Ok(Ok(tds)) => emit_sdoc::<D>(id, name, &bad, Some(tds), "loaded", out),
                Ok(Err(_)) => emit_sdoc::<D>(id, name, &bad, None, "rejected", out),
                Err(_) => emit_sdoc::<D>(id, name, &bad, None, "panic", out),
            }
        }
        match r {
            Ok(Ok(tds)) => {
                // loaded: it must then be a structurally consistent complex (Levels 1 and 2)
                let dt: DelaunayTriangulation<FastKernel<f64>, tri::VData, tri::CData, D> =
                    DelaunayTriangulation::from_tds_with_topology_guarantee(tds, FastKernel::new(), tri::guarantee(w.g));
                let mut ids = Ids::default();
                out.case(&format!("{id}_{name}"), "cx", &format!("D={D} g={} expect=valid12 corruption={name}", w.g));
                out.obs("loaded", "1");
                tri::export(&dt, &mut ids, out);
                tri::observe_validators(&dt, out, false);
                out.end();
            }
            Ok(Err(_)) => {
                out.case(&format!("{id}_{name}"), "note", &format!("D={D} corruption={name}"));
                out.obs("rejected", "1");
                out.end();
            }
            Err(m) => {
                out.case(&format!("{id}_{name}"), "note", &format!("D={D} corruption={name}"));
                out.obs("panic", &m);
                out.end();
            }
        }
    }
}

/// every "slot i of a cell := the UUID of another vertex" corruption of a SMALL document (two or
/// three cells): the corrupted cell may become a copy of another cell in a different vertex order,
/// a cell with a repeated vertex, or a different valid-looking cell; the decode model and the
/// loader must agree on every one, and whatever loads must be structurally consistent
fn exhaustive_replace<const D: usize>(id: &str, w: &mut World<D>, out: &mut Out) {
    let Ok(Ok(doc)) = catch(|| serde_json::to_value(w.dt.tds())) else { return };
    let Some(cv) = doc.get("cell_vertices").and_then(|m| m.as_object()) else { return };
    if cv.len() > 3 { return; }
    let uuids: Vec<String> = doc.get("vertices").and_then(|v| v.as_array()).map(|a| a.iter().filter_map(|s| s.get("value")?.get("uuid")?.as_str().map(|x| x.to_string())).collect()).unwrap_or_default();
    let keys: Vec<String> = cv.keys().cloned().collect();
    let mut n = 0usize;
    for k in &keys {
        let len = cv[k].as_array().map_or(0, |l| l.len());
        for i in 0..len {
            for u in &uuids {
                if cv[k][i].as_str() == Some(u.as_str()) { continue; }
                let mut bad = doc.clone();
                bad["cell_vertices"][k][i] = Value::String(u.clone());
                n += 1;
                let name = "replaced_vertex_uuid";
                let cid = format!("{id}_{n}");
                let text = bad.to_string();
                let r = catch(|| serde_json::from_str::<T<D>>(&text).map_err(|e| e.to_string()));
                match &r {
                    Ok(Ok(tds)) => emit_sdoc::<D>(&cid, name, &bad, Some(tds), "loaded", out),
                    Ok(Err(_)) => emit_sdoc::<D>(&cid, name, &bad, None, "rejected", out),
                    Err(_) => emit_sdoc::<D>(&cid, name, &bad, None, "panic", out),
                }
                if let Ok(Ok(tds)) = r {
                    let dt: DelaunayTriangulation<FastKernel<f64>, tri::VData, tri::CData, D> =
                        DelaunayTriangulation::from_tds_with_topology_guarantee(tds, FastKernel::new(), tri::guarantee(w.g));
                    let mut ids = Ids::default();
                    out.case(&format!("{cid}_{name}"), "cx", &format!("D={D} g={} expect=valid12 corruption={name}", w.g));
                    out.obs("loaded", "1");
                    tri::export(&dt, &mut ids, out);
                    tri::observe_validators(&dt, out, false);
                    out.end();
                }
            }
        }
    }
}

fn small_docs<const D: usize>(hid: usize, rng: &mut Rng, out: &mut Out) {
    // D+2 points in general position: two (or three) cells
    let pts = gens::to_f(&gens::general_position(rng, D, D + 2, 6), 1.0, 0.0);
    let Some(mut w): Option<World<D>> = hist::start_built::<D>(&pts, 1, rng) else { return };
    if w.dt.number_of_cells() == 0 { return; }
    exhaustive_replace::<D>(&format!("x{D}_{hid}"), &mut w, out);
}

fn one<const D: usize>(hid: usize, rng: &mut Rng, out: &mut Out) {
    let np = D + 2 + rng.below(match D { 2 => 8, 3 => 6, 4 => 3, _ => 2 }) as usize;
    let ps = gens::point_set(rng, D, np);
    let Some(mut w): Option<World<D>> = hist::start_built::<D>(&ps.pts, 1, rng) else { return };
    // cell data + removals leaving key gaps
    let cks: Vec<_> = w.dt.cells().map(|(k, _)| k).collect();
    for (i, ck) in cks.iter().enumerate() {
        if let Some(c) = w.dt.verif_tds_mut().get_cell_by_key_mut(*ck) { c.data = Some(7000 + i as i32); }
    }
    for _ in 0..rng.below(3) {
        let keys = w.live_keys();
        if keys.len() > D + 3 { let vk = *rng.pick(&keys); let _ = w.do_remove(Some(vk), rng); }
        let (p, _) = w.pick_point(rng, 8);
        let _ = w.do_insert(p, false, rng);
    }
    if w.dt.number_of_cells() == 0 { return; }
    let perturbed = w.live_coords().iter().any(|c| c.iter().any(|x| x.fract() != 0.0));
    malformed(&format!("m{D}_{hid}"), &mut w, rng, out);
    roundtrip(&format!("s{D}_{hid}"), &mut w, ps.gp && ps.family == "general" && !perturbed, rng, out);
}

/// round trips of cell-less triangulations: bootstrap phase (1..=D vertices) and emptied by removal
fn cellless<const D: usize>(hid: usize, rng: &mut Rng, out: &mut Out) {
    let pts = gens::to_f(&gens::general_position(rng, D, D + 1, 7), 1.0, 0.0);
    let k = 1 + rng.below(D as u64) as usize;
    let mut w: World<D> = hist::start_empty::<D>(1);
    for p in pts.iter().take(k) { let _ = w.do_insert(gens::arr::<D>(p), false, rng); }
    if w.dt.number_of_cells() == 0 && w.dt.number_of_vertices() > 0 {
        roundtrip(&format!("sb{D}_{hid}"), &mut w, true, rng, out);
    }
    // full simplex, then one vertex removed again: vertices but no cells
    let mut w2: World<D> = hist::start_empty::<D>(1);
    for p in pts.iter().take(D + 1) { let _ = w2.do_insert(gens::arr::<D>(p), false, rng); }
    if w2.dt.number_of_cells() > 0 {
        let keys = w2.live_keys();
        let vk = *rng.pick(&keys);
        let _ = w2.do_remove(Some(vk), rng);
        if w2.dt.number_of_cells() == 0 && w2.dt.number_of_vertices() > 0 {
            w2.had_removal = false; // the follow-up insertions are the point of this case
            roundtrip(&format!("se{D}_{hid}"), &mut w2, true, rng, out);
        }
    }
}

pub fn run(cfg: &Cfg, rng: &mut Rng, out: &mut Out) {
    let thorough = cfg.tier == "thorough";
    let n = if thorough { 60 } else { 16 };
    for h in 0..n {
        one::<2>(h, rng, out);
        one::<3>(h, rng, out);
        one::<4>(h, rng, out);
        one::<5>(h, rng, out);
    }
    for h in 0..(if thorough { 6 } else { 2 }) {
        small_docs::<2>(h, rng, out);
        small_docs::<3>(h, rng, out);
        if h == 0 || thorough { small_docs::<4>(h, rng, out); }
    }
    for h in 0..(if thorough { 12 } else { 3 }) {
        cellless::<2>(h, rng, out);
        cellless::<3>(h, rng, out);
        cellless::<4>(h, rng, out);
        cellless::<5>(h, rng, out);
    }
}
