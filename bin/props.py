"""Per-property configuration for bin/check."""
HOOK_COMMITS = []
NOT_APPLICABLE = {}

_TB = "Trusted: Lean 4.33 kernel; axioms propext/Classical.choice/Quot.sound only; Lean compiler+runtime for the compiled driver; the Rust harness, canonical export and bin/check. "

PROPS = {
    "C01": {
        "lean_modules": ["DelaunayModel.Props.C01", "DelaunayModel.Props.C04"],
        "required_theorems": ["DM.C01.build_ok_gated", "DM.C01.certify_sound", "DM.C01.bruteDT_mem",
                              "DM.C04.emptySphere_iff", "DM.C04.k2_both_positive"],
        "level_text": "Theorem build_ok_gated (Lean kernel): for EVERY insertion behaviour, retry policy, attempt count, build profile and vertex order, the construction pipeline returns Ok only for a candidate that passed the completion validation its guarantee demands and a Level-4 check; certify_sound / emptySphere_iff / bruteDT_mem give the per-run certificate a proved meaning. Correspondence (K3): every Ok returned by the real constructors (4 APIs, both kernels, 3 guarantees, all option combinations sampled, D=2..5, degenerate families) is exported through the public API and judged by the exact-integer oracle: L1-L3 recomputed, no vertex strictly inside any circumsphere beyond the tolerance band, convex boundary, vertex provenance/bit-identity (or documented perturbation), inserted count, and in general position equality with the brute-force Delaunay cell set.",
        "level_note": _TB + "Modelled not verified: cavity insertion / hull extension / local repair are a parameter of the pipeline model (their outputs are judged per run); the local-to-global Delaunay lemma and 'L1-L3 + positive orientation => cells tile the hull' are not proved; IEEE arithmetic is outside the model (violations inside tolerance+rounding band are not counted).",
        "technique": "Lean 4 proof of the construction gate structure over an arbitrary insertion function + exact-arithmetic certificate (Lean, proved meaning) applied to every real constructor output",
    },
    "C02": {
        "lean_modules": ["DelaunayModel.Props.C02"],
        "required_theorems": ["DM.C02.selectCheck_table", "DM.C02.selectCheck_pl_never_none", "DM.C02.safetyNet_ok_checked",
                              "DM.C02.insert_commit_or_restore", "DM.C02.compatible_table"],
        "level_text": "Theorems (Lean kernel): the validation selected after an insertion equals the documented table for every (ValidationPolicy, TopologyGuarantee, suspicion, build profile); under PL guarantees a state with cells is never committed unchecked; for EVERY behaviour of the geometric insertion step (a parameter) the safety net returns only bootstrap states or states that passed the selected check (star-split fallback included) and insert_transactional either commits such a state or leaves the snapshot (any number of perturbation retries). Correspondence (K3): histories of insert / insert_with_statistics from empty and constructed triangulations, D=2..5, all point classes (interior, exterior, on-facet, duplicate, near-duplicate, collinear prefixes), policies changed mid-history; after EVERY call the state is exported and Levels 1-3 are recomputed in Lean at the configured guarantee (or bootstrap), reported insertions must add exactly the caller's vertex, and with the per-insertion Delaunay check on the exact empty-sphere oracle must hold.",
        "level_note": _TB + "Modelled not verified: cavity insertion, hull extension, star split (Env.impl). Under ValidationPolicy::Never + Pseudomanifold no check runs at all (theorem selectCheck_never_pseudo); there only the K3 tie speaks.",
        "technique": "Lean 4 proof of the post-insertion validation table and commit-or-restore over an arbitrary insertion function + independent L1-L3 recomputation after every real insert call",
    },
    "C05": {
        "lean_modules": ["DelaunayModel.Props.C05"],
        "required_theorems": ["DM.C05.checkL1_iff", "DM.C05.checkL2_iff", "DM.C05.nbrOk_iff", "DM.C05.coherent_iff", "DM.C05.checkL3_iff",
                              "DM.C05.tdsValidate_iff", "DM.C05.triValidate_iff", "DM.C05.facetKey_eq_iff",
                              "DM.C05.reject_repeated_vertex", "DM.C05.reject_nonfinite_coordinate", "DM.C05.reject_stale_incident",
                              "DM.C05.reject_duplicate_cell", "DM.C05.reject_dangling_neighbor", "DM.C05.reject_one_way_neighbor",
                              "DM.C05.reject_isolated_vertex", "DM.C05.reject_facet_overshared"],
        "level_text": "Theorems (Lean kernel, 60 in Props/C05): every executable validator of the model equals a declarative specification (Level 1; each of the seven Level-2 components incl. neighbour pointers = facet-sharing relation and coherent orientation; Level-3 facet degree, closed boundary, no isolated vertex, Euler), cumulative validators are conjunctions of their levels, facet keys identify vertex sets, and nine single-fault classes are rejected by the owning level for ANY complex. Correspondence (K1): 18 fault classes (plus pairs) are injected into real Tds values through guarded raw mutators and the verdict of every real validator (element validators, Tds::is_valid/validate, Triangulation::is_valid/validate, report emptiness) is compared with the Lean recomputation from the exported raw cells; uncorrupted library output must be accepted by both.",
        "level_note": _TB + "Outside the model: 64-bit facet-hash collisions; UUID<->key map corruption (not reachable through the exported view); ridge/vertex-link and connectivity validators have executable models compared by K1 but no declarative spec theorem; PL sphere recognition for D>=4 is not claimed (matches the code comment).",
        "technique": "Lean 4 proof that executable validators = declarative specs + single-fault rejection theorems; differential fault-injection check of the real validators",
    },
    "C07": {
        "lean_modules": ["DelaunayModel.Props.C07"],
        "required_theorems": ["DM.C07.flip_count", "DM.C07.flip_info_exact", "DM.C07.flip_nodup", "DM.C07.flip_inverse", "DM.C07.flip_inverse_perm",
                              "DM.C07.flip_vertex_set", "DM.C07.flip_facet_balance", "DM.C07.flip_facet_degree_outer", "DM.C07.flip_facet_inner_counts"],
        "level_text": "Theorems (Lean kernel): for every legal bistellar move (R, I) on any duplicate-free cell set: the cell count changes by |R|-|I|, the removed/created cells are exactly the sets the move prescribes, the result is duplicate-free, the move with R and I exchanged is legal and restores the identical cell set, the vertex set is unchanged for 2<=k<=D, and facet multiplicities outside the move are unchanged while inside they follow the (II: 2->0, RR: 0->2, RI: 1->1) law (hence facet degrees stay in {1,2} and the boundary facet set is preserved for k>=2). Correspondence (K1): every facet/ridge/edge/triangle/cell handle class incl. stale and out-of-range handles is driven through the public Edit API; on success the post-state cell set must equal the Lean move applied to the pre-state with FlipInfo's R and I, the cell-count delta and FlipInfo must be exact, L1/L2 + combinatorial manifold invariants are recomputed, inverse moves must restore the fingerprint exactly, failures must leave the state unchanged.",
        "level_note": _TB + "Modelled through their result only: neighbour wiring and orientation normalisation (re-checked by the L2 recomputation), geometric degeneracy guard. Connectedness and Euler characteristic preservation are checked per state, not proved.",
        "technique": "Lean 4 proof of the set algebra of bistellar moves + model-vs-implementation comparison of every successful flip",
    },
    "C06": {
        "lean_modules": ["DelaunayModel.Props.C06"],
        "required_theorems": ["DM.C06.remove_unknown_noop", "DM.C06.remove_err_unchanged", "DM.C06.remove_ok_valid_or_empty",
                              "DM.C06.removeUuid_mem", "DM.C06.removeUuid_length"],
        "level_text": "Theorems (Lean kernel): removing an unknown vertex is Ok(0) and a no-op; any Err leaves the state untouched; an Ok result has no cells or passed Level 3, for every behaviour of fan retriangulation and flip repair (parameters); the vertex table loses exactly the entries with that UUID and keeps all others bit-for-bit. Correspondence (K3): removal histories (interior, hull, unknown, repeated, down to the last vertices, interleaved with insertions, repair on/off), D=2..5; after every call the state is exported, L1-L3 recomputed in Lean, other vertices compared bit-for-bit, and with repair on the exact empty-sphere oracle applied.",
        "level_note": _TB + "Modelled not verified: inverse k=1 path, fan fill and post-removal flip repair (Env.unguarded). Two genuine defects are recorded as known findings F8a/F8b (known_findings.json) and reported as KNOWN-FINDING, any other violation is reported.",
        "technique": "Lean 4 proof of the transactional removal wrapper and vertex bookkeeping + independent recomputation of every state after remove_vertex",
    },
    "C08": {
        "lean_modules": ["DelaunayModel.Props.C08", "DelaunayModel.Props.C07"],
        "required_theorems": ["DM.C08.repair_ok_gated", "DM.C08.repair_err_unchanged", "DM.C08.advanced_ok_gated", "DM.C08.advanced_err_unchanged",
                              "DM.C08.repair_inadmissible_untouched", "DM.C08.admissible_table", "DM.C08.repair_decision_table",
                              "DM.C08.shouldRunRepair_iff", "DM.C08.rebuild_bounded", "DM.C07.flip_vertex_set"],
        "level_text": "Theorems (Lean kernel), for EVERY flip scheduler and rebuild behaviour (parameters): both repair entry points return Ok only for a state the postcondition verifier accepted, every Err leaves the pre-repair state, the admissibility gate returns InvalidTopology without touching the state, automatic repair proceeds iff the policy is due and the operation admissible (never with Never, D<2, or no cells), the heuristic rebuild makes at most its budgeted number of attempts and accepts a candidate only after a successful final repair; flips with 2<=k<=D keep the vertex set (C07). Correspondence (K3): valid triangulations pushed away from Delaunay by 1..50 random legal flips are repaired through both entry points (all guarantees, D=2..5); on Ok the vertex identities must be unchanged (coordinates bit-identical or within the documented perturbation after a heuristic rebuild), L1-L3 recomputed, exact empty-sphere oracle, convexity, and in general position equality with the brute-force Delaunay set.",
        "level_note": _TB + "Modelled not verified: the flip scheduler (queues, budgets, cycle detection) and the rebuild insertion. Convergence is not a theorem. Facet flips are admissible under Pseudomanifold per the code and its unit tests (docs/workflows.md says the opposite: recorded as a documentation discrepancy, not a violation).",
        "technique": "Lean 4 proof of the repair control structure (gate, rollback, admissibility, budget) over an arbitrary flip scheduler + exact-oracle judgement of every real repair result",
    },
    "C09": {
        "lean_modules": ["DelaunayModel.Props.C09"],
        "required_theorems": ["DM.C09.grid_complete", "DM.C09.consistent_query_eq_scan", "DM.C09.never_refused_for_removed",
                              "DM.C09.reachable_consistent", "DM.C09.reachable_query_eq_scan", "DM.C09.reachable_pairSep",
                              "DM.C09.insert_refuses_duplicates", "DM.C09.buggy_witness", "DM.C09.fixed_witness"],
        "level_text": "Theorems (Lean kernel), by induction over ARBITRARY operation histories (seed, insert, remove, Edit-API vertex insert/remove, index drop, clone): the grid cache stays consistent with the live vertex set, so the grid query (3^D neighbourhood, stale keys ignored) answers exactly like the linear scan (grid_complete: within tolerance => neighbouring bucket, over exact integers); a point is only ever refused because of a LIVE vertex; checked insertions keep all live vertices pairwise at least the tolerance apart. buggy_witness / fixed_witness: the pre-fix Edit-API behaviour breaks the invariant with a 2-operation history, the repaired one does not. Correspondence (K2): histories interleaving batch build, insert, remove_vertex, flip_k1_insert/flip_k1_remove, clone, serde round trip, as_triangulation_mut; after every step probes insert(p), insert(p+0.5 tol), insert(p+2 tol) at current and former vertex positions and a UUID-reuse probe are run on a clone and the outcome class is compared with the model's exact scan answer.",
        "level_note": _TB + "Outside the model: f64 floor(p/1e-10) at bucket edges (probes keep a 1e-6 relative collar around the tolerance), hash collisions of grid keys, slotmap key versioning (stale keys are modelled as never resolving). Batch-construction dedup policies are covered by C17.",
        "technique": "Lean 4 invariant proof over all operation histories of the duplicate cache + probe-based refinement check of the real insert against the model",
    },
    "C04": {
        "lean_modules": ["DelaunayModel.Props.C04"],
        "required_theorems": ["DM.C04.emptySphere_iff", "DM.C04.k2_symmetric", "DM.C04.k2_both_positive",
                              "DM.C04.filtered_k2_never_fires", "DM.C04.unfiltered_k2_iff", "DM.C04.f1_witness"],
        "level_text": "Theorems (Lean kernel): the brute-force empty-sphere check equals its declarative statement; for two cells sharing a facet the two normalised in-sphere signs are equal (via the determinant bridge to Mathlib), hence a genuine violation shows both signs positive, the pinned 'both-positive' filter makes the k=2 predicate vacuous (filtered_k2_never_fires, f1_witness) and the repaired predicate is exact (unfiltered_k2_iff). Correspondence (K1/K3): is_valid / validate / validation_report / is_delaunay_via_flips / find_delaunay_violations of the real code are compared with the exact empty-sphere oracle on constructed triangulations, triangulations pushed away from Delaunay by random legal flips, and after removals, D=2..5, both kernels; accepting a strict violation or rejecting an exactly-Delaunay general-position triangulation is a failure.",
        "level_note": _TB + "Not proved: all local flip predicates pass => globally Delaunay (Delaunay lemma; tied by correspondence only). Violations inside the predicates' tolerance band + LU rounding allowance are not judged.",
        "technique": "Lean 4 proof (determinant algebra, exact brute-force spec) + exact-oracle differential check of every Delaunay verdict of the real code",
    },
    "C12": {
        "lean_modules": ["DelaunayModel.Props.C12"],
        "level_text": "Theorems (Lean kernel): the dead-band classifier returns the exact sign whenever the exact determinant is separated from the band by more than the rounding allowance, returns 0 on exact zero when the allowance is inside the band, and two evaluations never disagree there; the exact signs' permutation laws come from the determinant bridge to Mathlib. Correspondence (K1): both kernels and all three in-sphere formulations are run on exhaustive tiny grids and random well-conditioned tuples and compared with the exact integer determinant sign computed by the Lean model.",
        "level_note": "Trusted: Lean kernel, axioms propext/Classical.choice/Quot.sound only, the Lean compiler for the driver, harness + bin/check. Assumed not proved: the LU rounding bound luBound for la-stack; IEEE arithmetic itself is outside the model (cases where the exact determinant is inside tolerance+bound are skipped and counted).",
        "technique": "Lean 4 proof of the sign-classification logic + exact-integer-determinant differential check of the real predicates",
        "required_theorems": ["DM.C12.classify_separated", "DM.C12.classify_zero", "DM.C12.expected_sound",
                              "DM.C12.no_opposite", "DM.C12.expected_is_sign"],
        "trusted": ["assumed, not proved: |fl(det) - det| <= luBound (n^3 2^(n+1) 2^-53 prod ||row||_1) for la-stack's LU"],
        "assumptions": ["IEEE evaluation is outside the kernel's reach: exact model + measured tie (K1)"],
    },
}
