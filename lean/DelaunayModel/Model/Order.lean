/-
Model/Order.lean — insertion orderings and dedup policies over exact coordinates
(src/core/delaunay_triangulation.rs: `order_vertices_lexicographic` :616, `order_vertices_morton`
:672, `order_vertices_hilbert` :1187, the five batch dedup variants :783-1030;
src/core/util/deduplication.rs `dedup_vertices_exact` :50, `dedup_vertices_epsilon` :118).

Every ordering is "sort by (key, coordinates, input index)", i.e. a stable sort by (key,
coordinates).  Quantisation is modelled over exact rationals; it coincides with the f64 evaluation
on inputs whose normalised coordinates are dyadic with few bits (power-of-two extents), which is
where the K1 tie compares whole sequences.
-/
import DelaunayModel.Model.Basic
import DelaunayModel.Model.Hilbert
namespace DM.Order

open DM

/-- a vertex as the orderings see it: input index + exact coordinates -/
structure OV where
  idx : Nat
  pt : DPt
  deriving Repr, Inhabited

def cmpQ (a b : Q) : Ordering := if Q.lt a b then .lt else if Q.lt b a then .gt else .eq

def cmpPt : DPt → DPt → Ordering
  | [], _ => .eq
  | _, [] => .eq
  | a :: as, b :: bs => match cmpQ (Q.ofDy a) (Q.ofDy b) with
    | .eq => cmpPt as bs
    | o => o

def cmpNat (a b : Nat) : Ordering := if a < b then .lt else if b < a then .gt else .eq

/-- (key, coordinates, input index) comparison -/
def cmpKeyed (a b : Nat × OV) : Ordering :=
  match cmpNat a.1 b.1 with
  | .eq => (match cmpPt a.2.pt b.2.pt with
    | .eq => cmpNat a.2.idx b.2.idx
    | o => o)
  | o => o

def insertKeyed (x : Nat × OV) : List (Nat × OV) → List (Nat × OV)
  | [] => [x]
  | y :: ys => if cmpKeyed x y == .gt then y :: insertKeyed x ys else x :: y :: ys

/-- insertion sort by `cmpKeyed` (total order with the index tie-break, so any correct sort agrees) -/
def sortKeyed : List (Nat × OV) → List (Nat × OV)
  | [] => []
  | x :: xs => insertKeyed x (sortKeyed xs)

def orderByKey (key : OV → Nat) (vs : List OV) : List OV := (sortKeyed (vs.map (fun v => (key v, v)))).map (·.2)

def orderLex (vs : List OV) : List OV := orderByKey (fun _ => 0) vs

/-- exact floor / round-half-away-from-zero of a non-negative rational -/
def qFloor (x : Q) : Nat := (x.num / (x.den : Int)).toNat
def qRound (x : Q) : Nat := qFloor (x + ⟨1, 2⟩)

def qMin (l : List Q) : Q := l.foldl (fun a x => if Q.lt x a then x else a) (l.headD (Q.ofInt 0))
def qMax (l : List Q) : Q := l.foldl (fun a x => if Q.lt a x then x else a) (l.headD (Q.ofInt 0))
def qClamp01 (x : Q) : Q := if Q.lt x (Q.ofInt 0) then Q.ofInt 0 else if Q.lt (Q.ofInt 1) x then Q.ofInt 1 else x
def qDiv (a b : Q) : Q := if b.num == 0 then Q.ofInt 0 else
  if b.num > 0 then ⟨a.num * b.den, a.den * b.num.toNat⟩ else ⟨-(a.num * b.den), a.den * (-b.num).toNat⟩

/-- Morton quantisation: per-axis bounding box, `floor(clamp((c-min)/range) * (2^bits - 1))` -/
def mortonKey (D : Nat) (vs : List OV) : OV → Nat :=
  match Hilbert.mortonBits D with
  | none => fun _ => 0
  | some bits =>
    let cols := (List.range D).map (fun a => vs.map (fun v => Q.ofDy (v.pt.getD a Dy.zero)))
    let mins := cols.map qMin
    let maxs := cols.map qMax
    let scale := Q.ofInt ((2 ^ bits - 1 : Nat) : Int)
    fun v =>
      let q := (List.range D).map (fun a =>
        let c := Q.ofDy (v.pt.getD a Dy.zero)
        let mn := mins.getD a (Q.ofInt 0)
        let range := maxs.getD a (Q.ofInt 0) - mn
        if !(Q.lt (Q.ofInt 0) range) then 0 else qFloor (qClamp01 (qDiv (c - mn) range) * scale))
      Hilbert.mortonCode bits q

/-- Hilbert quantisation: one global [min,max] over all axes, `round(clamp((c-min)/extent)*(2^bits-1))` -/
def hilbertQuant (D : Nat) (vs : List OV) : OV → List Nat :=
  let bits := (Hilbert.hilbertBits D).getD 1
  let all := vs.flatMap (fun v => v.pt.map Q.ofDy)
  let mn := qMin all
  let extent := qMax all - mn
  let maxVal : Nat := 2 ^ bits - 1
  fun v => v.pt.map (fun c =>
    if !(Q.lt (Q.ofInt 0) extent) then 0
    else min (qRound (qClamp01 (qDiv (Q.ofDy c - mn) extent) * Q.ofInt (maxVal : Int))) maxVal)

def hilbertKey (D : Nat) (vs : List OV) : OV → Nat :=
  let bits := (Hilbert.hilbertBits D).getD 1
  let qf := hilbertQuant D vs
  fun v => Hilbert.hilbertIndex bits (qf v)

def orderMorton (D : Nat) (vs : List OV) : List OV :=
  match Hilbert.mortonBits D with
  | none => orderLex vs
  | some _ => orderByKey (mortonKey D vs) vs

def orderHilbert (D : Nat) (vs : List OV) : List OV :=
  if vs.isEmpty || D == 0 then vs else orderByKey (hilbertKey D vs) vs

/-- strategy ids: 0 Input, 1 Lexicographic, 2 Morton, 3 Hilbert -/
def orderByStrategy (D : Nat) (strategy : Nat) (vs : List OV) : List OV :=
  match strategy with
  | 0 => vs
  | 1 => orderLex vs
  | 2 => orderMorton D vs
  | _ => orderHilbert D vs

/-! ### dedup: greedy, first occurrence wins -/

def sameCoords (a b : DPt) : Bool := cmpPt a b == .eq && a.length == b.length

def dist2Q (a b : DPt) : Q := (a.zip b).foldl (fun acc (x, y) => let d := Q.ofDy x - Q.ofDy y; acc + d * d) (Q.ofInt 0)

/-- strict `<` as in `coords_within_epsilon` -/
def withinEps (eps2 : Q) (a b : DPt) : Bool := Q.lt (dist2Q a b) eps2

def dedupGreedy (near : DPt → DPt → Bool) : List OV → List OV → List OV
  | kept, [] => kept.reverse
  | kept, v :: rest => if kept.any (fun u => near v.pt u.pt) then dedupGreedy near kept rest
                       else dedupGreedy near (v :: kept) rest

def dedupExact (vs : List OV) : List OV := dedupGreedy sameCoords [] vs
def dedupEps (eps2 : Q) (vs : List OV) : List OV := dedupGreedy (withinEps eps2) [] vs

/-- `dedup_vertices_exact_sorted`: lexicographic order, then drop a vertex equal to its predecessor -/
def dedupExactSorted (vs : List OV) : List OV := dedupGreedy sameCoords [] (orderLex vs)

end DM.Order
