/-
Props/C09.lean — property theorems for C09 (the duplicate-coordinate cache never changes the
answer of the duplicate check).

Model: `Model/DupCache.lean` (state machine over integer coordinates, cell size = tolerance).

 * `floor_close`, `grid_complete`: a point within tolerance of `p` lies in the 3^D neighbourhood of
   `p`'s bucket (so a grid that only inspects that neighbourhood misses nothing);
 * `consistent_query_eq_scan`: in a consistent state with unique keys the grid query and the linear
   scan agree on every query of the right dimension;
 * `never_refused_for_removed`: `isDup` answers `true` only because of a LIVE vertex within
   tolerance (stale grid entries of removed vertices are never reported), in every state;
 * `step_consistent` / `step_keysUnique` / `run_*` / `reachable_consistent`: the invariants are
   preserved by every operation (the Edit-API operations drop the grid: that is the fix);
 * `reachable_query_eq_scan`: in every reachable state the cache is transparent;
 * `insert_refuses_duplicates`, `step_*_pairSep`, `reachable_pairSep`: the checked insertion keeps
   the live vertices pairwise separated (the Edit API `editInsert` deliberately does not check);
 * `buggy_witness`: with the pre-fix behaviour (Edit-API operations keep the grid) the cache
   misses a duplicate; `fixed_witness`: the same history under the real `step` does not;
 * `Op.rebuild` (the Tds is replaced, every live vertex gets a fresh key, the grid is re-keyed —
   fix F22): `step_rebuild_pairSep`, `scanDup_rebuild`, `rebuild_idx_eq_verts` (after a rebuild the
   grid holds exactly the live vertices, no stale entry survives); `stale_rekey_witness`: if the
   rebuild renumbers the vertices but leaves the grid entries as they are, every entry is stale and
   the cache misses a duplicate, while the real `step` reports it.
-/
import DelaunayModel.Lemmas.DupAux
namespace DM.C09

open DM.DupCache DM.DupAux

/-! ### 1–2. geometry of the grid -/

/-- 1-D: two coordinates closer than the cell size lie in the same or in adjacent cells -/
theorem floor_close {x y c : Int} (hc : 0 < c) (h : (x - y) * (x - y) < c * c) :
    x / c - y / c ≤ 1 ∧ y / c - x / c ≤ 1 :=
  DM.DupAux.floor_close hc h

/-- a point within tolerance of `p` lies in the 3^D bucket neighbourhood of `p` -/
theorem grid_complete {c : Int} (hc : 0 < c) (p q : Pt) (hlen : p.length = q.length)
    (h : dist2 p q < c * c) : nearBucket (bucket c q) (bucket c p) = true :=
  DM.DupAux.grid_complete hc p q hlen h

theorem dist2_comm (p q : Pt) : dist2 p q = dist2 q p := DM.DupAux.dist2_comm p q

/-! ### 3–4. the grid query against the scan -/

/-- all live vertices have dimension `d` -/
def VertsDim (d : Nat) (s : St) : Prop := ∀ v ∈ s.verts, v.2.length = d

theorem consistent_query_eq_scan (s : St) (d : Nat) (q : Pt) (hc : 0 < s.c) (hku : KeysUnique s)
    (hcons : Consistent s) (hdim : ∀ v ∈ s.verts, v.2.length = d) (hq : q.length = d) :
    isDup s q = scanDup s q := by
  obtain ⟨c, verts, idx⟩ := s
  cases idx with
  | none => rfl
  | some es =>
    simp only [Consistent] at hcons
    simp only [KeysUnique] at hku
    simp only at hc hdim
    apply Bool.eq_iff_iff.2
    simp only [isDup, gridDup, scanDup, List.any_eq_true, Bool.and_eq_true, decide_eq_true_eq]
    constructor
    · rintro ⟨e, _, _, hm⟩
      cases hl : verts.lookup e.1 with
      | none => rw [hl] at hm; simp at hm
      | some p =>
        rw [hl] at hm
        exact ⟨(e.1, p), mem_of_lookup_eq_some hl, by simpa using hm⟩
    · rintro ⟨v, hv, hd⟩
      refine ⟨v, hcons v hv, DM.DupAux.grid_complete hc v.2 q (by rw [hdim v hv, hq]) hd, ?_⟩
      have hl : verts.lookup v.1 = some v.2 := lookup_eq_some_of_mem hku (by simpa using hv)
      rw [hl]
      simpa using hd

/-- a point is never reported as a duplicate because of a vertex that is gone -/
theorem never_refused_for_removed (s : St) (q : Pt) (h : isDup s q = true) :
    ∃ v ∈ s.verts, dist2 v.2 q < s.c * s.c := by
  obtain ⟨c, verts, idx⟩ := s
  cases idx with
  | none =>
    simp only [isDup, scanDup, List.any_eq_true, decide_eq_true_eq] at h
    exact h
  | some es =>
    simp only [isDup, gridDup, List.any_eq_true, Bool.and_eq_true] at h
    obtain ⟨e, _, _, hm⟩ := h
    cases hl : verts.lookup e.1 with
    | none => rw [hl] at hm; simp at hm
    | some p =>
      rw [hl] at hm
      exact ⟨(e.1, p), mem_of_lookup_eq_some hl, by simpa using hm⟩

/-! ### 5. invariant preservation -/

theorem step_c (s : St) (op : Op) : (step s op).c = s.c := by
  cases op <;> simp only [step] <;> (try split) <;> rfl

theorem run_c (s : St) (ops : List Op) : (run s ops).c = s.c := by
  induction ops generalizing s with
  | nil => rfl
  | cons op ops ih => simp only [run, List.foldl_cons] at ih ⊢; rw [ih, step_c]

theorem step_consistent (s : St) (op : Op) (h : Consistent s) : Consistent (step s op) := by
  obtain ⟨c, verts, idx⟩ := s
  cases op with
  | seed =>
    cases idx with
    | none => simp [step, Consistent]
    | some es => exact h
  | insert k p =>
    simp only [step]
    split
    · exact h
    · cases idx with
      | none => simp [Consistent]
      | some es =>
        simp only [Consistent, Option.map_some, List.mem_cons] at h ⊢
        rintro v (rfl | hv)
        · exact Or.inl rfl
        · exact Or.inr (h v hv)
  | remove k =>
    cases idx with
    | none => simp [step, Consistent]
    | some es =>
      simp only [step, Consistent, List.mem_filter] at h ⊢
      exact fun v hv => h v hv.1
  | editInsert k p =>
    simp only [step]
    split
    · exact h
    · simp [Consistent]
  | editRemove k => simp [step, Consistent]
  | dropIndex => simp [step, Consistent]
  | clone => exact h
  | rebuild b =>
    -- the grid (if any) is re-keyed from the rebuilt vertex set: it holds exactly the new `verts`
    cases idx with
    | none => simp [step, Consistent]
    | some es =>
      simp only [step, Consistent, Option.map_some]
      exact fun v hv => hv

theorem not_mem_keys_of_any_eq_false {verts : List (Nat × Pt)} {k : Nat}
    (h : ¬ verts.any (·.1 == k) = true) : k ∉ verts.map (·.1) := by
  intro hk
  apply h
  obtain ⟨v, hv, rfl⟩ := List.mem_map.1 hk
  exact List.any_eq_true.2 ⟨v, hv, by simp⟩

theorem nodup_keys_filter {verts : List (Nat × Pt)} (f : Nat × Pt → Bool)
    (h : (verts.map (·.1)).Nodup) : ((verts.filter f).map (·.1)).Nodup := by
  induction verts with
  | nil => simp
  | cons v vs ih =>
    simp only [List.map_cons, List.nodup_cons] at h
    rw [List.filter_cons]
    split
    · simp only [List.map_cons, List.nodup_cons]
      refine ⟨?_, ih h.2⟩
      intro hm
      apply h.1
      obtain ⟨w, hw, hw'⟩ := List.mem_map.1 hm
      exact List.mem_map.2 ⟨w, (List.mem_filter.1 hw).1, hw'⟩
    · exact ih h.2

theorem step_keysUnique (s : St) (op : Op) (h : KeysUnique s) : KeysUnique (step s op) := by
  obtain ⟨c, verts, idx⟩ := s
  simp only [KeysUnique] at h
  cases op with
  | seed => cases idx <;> exact h
  | insert k p =>
    simp only [step]
    split
    · exact h
    · rename_i hn
      simp only [Bool.or_eq_true, not_or] at hn
      simp only [KeysUnique, List.map_cons, List.nodup_cons]
      exact ⟨not_mem_keys_of_any_eq_false hn.2, h⟩
  | remove k => exact nodup_keys_filter _ h
  | editInsert k p =>
    simp only [step]
    split
    · exact h
    · rename_i hn
      simp only [KeysUnique, List.map_cons, List.nodup_cons]
      exact ⟨not_mem_keys_of_any_eq_false hn, h⟩
  | editRemove k => exact nodup_keys_filter _ h
  | dropIndex => exact h
  | clone => exact h
  | rebuild b => exact rekey_keys_nodup b verts

theorem run_consistent (s : St) (ops : List Op) (h : Consistent s) : Consistent (run s ops) := by
  induction ops generalizing s with
  | nil => exact h
  | cons op ops ih => exact ih (step s op) (step_consistent s op h)

theorem run_keysUnique (s : St) (ops : List Op) (h : KeysUnique s) : KeysUnique (run s ops) := by
  induction ops generalizing s with
  | nil => exact h
  | cons op ops ih => exact ih (step s op) (step_keysUnique s op h)

/-- every history that starts without a grid is consistent -/
theorem reachable_consistent (s0 : St) (ops : List Op) (h0 : s0.idx = none) :
    Consistent (run s0 ops) := by
  apply run_consistent
  simp [Consistent, h0]

/-! ### 6. the cache is transparent in every reachable state -/

/-- the points carried by an operation have dimension `d` -/
def OpDim (d : Nat) : Op → Prop
  | .insert _ p => p.length = d
  | .editInsert _ p => p.length = d
  | _ => True

theorem step_vertsDim (d : Nat) (s : St) (op : Op) (hop : OpDim d op) (h : VertsDim d s) :
    VertsDim d (step s op) := by
  obtain ⟨c, verts, idx⟩ := s
  simp only [VertsDim] at h
  cases op with
  | seed => cases idx <;> exact h
  | insert k p =>
    simp only [step]
    split
    · exact h
    · simp only [VertsDim, List.mem_cons]
      rintro v (rfl | hv)
      · exact hop
      · exact h v hv
  | remove k =>
    simp only [step, VertsDim, List.mem_filter]
    exact fun v hv => h v hv.1
  | editInsert k p =>
    simp only [step]
    split
    · exact h
    · simp only [VertsDim, List.mem_cons]
      rintro v (rfl | hv)
      · exact hop
      · exact h v hv
  | editRemove k =>
    simp only [step, VertsDim, List.mem_filter]
    exact fun v hv => h v hv.1
  | dropIndex => exact h
  | clone => exact h
  | rebuild b =>
    simp only [step, VertsDim]
    intro v hv
    obtain ⟨w, hw, hw'⟩ := exists_of_mem_rekey hv
    rw [← hw']
    exact h w hw

theorem run_vertsDim (d : Nat) (s : St) (ops : List Op) (hops : ∀ op ∈ ops, OpDim d op)
    (h : VertsDim d s) : VertsDim d (run s ops) := by
  induction ops generalizing s with
  | nil => exact h
  | cons op ops ih =>
    exact ih (step s op) (fun o ho => hops o (by simp [ho]))
      (step_vertsDim d s op (hops op (by simp)) h)

theorem reachable_query_eq_scan (s0 : St) (ops : List Op) (d : Nat) (q : Pt)
    (h0 : s0.idx = none) (hc : 0 < s0.c) (hku : KeysUnique s0) (hdim : VertsDim d s0)
    (hops : ∀ op ∈ ops, OpDim d op) (hq : q.length = d) :
    isDup (run s0 ops) q = scanDup (run s0 ops) q :=
  consistent_query_eq_scan (run s0 ops) d q (by rw [run_c]; exact hc) (run_keysUnique s0 ops hku)
    (reachable_consistent s0 ops h0) (run_vertsDim d s0 ops hops hdim) hq

/-! ### 7. checked insertion refuses duplicates; live vertices stay pairwise separated -/

theorem insert_refuses_duplicates (s : St) (k : Nat) (p : Pt) (hscan : scanDup s p = true)
    (heq : isDup s p = scanDup s p) : (step s (.insert k p)).verts = s.verts := by
  simp [step, heq, hscan]

/-- live vertices are pairwise at least the tolerance apart -/
def PairSep (s : St) : Prop :=
  ∀ a ∈ s.verts, ∀ b ∈ s.verts, a ≠ b → ¬ (dist2 a.2 b.2 < s.c * s.c)

theorem step_insert_pairSep (s : St) (k : Nat) (p : Pt) (heq : isDup s p = scanDup s p)
    (h : PairSep s) : PairSep (step s (.insert k p)) := by
  obtain ⟨c, verts, idx⟩ := s
  simp only [step]
  split
  · exact h
  · rename_i hn
    simp only [Bool.or_eq_true, not_or] at hn
    have hscan : ∀ v ∈ verts, ¬ (dist2 v.2 p < c * c) := by
      have h1 := hn.1
      rw [heq] at h1
      simpa [scanDup] using h1
    simp only [PairSep, List.mem_cons] at h ⊢
    rintro a (rfl | ha) b (rfl | hb) hab
    · exact absurd rfl hab
    · rw [DM.DupAux.dist2_comm]; exact hscan b hb
    · exact hscan a ha
    · exact h a ha b hb hab

theorem pairSep_filter (c : Int) (verts : List (Nat × Pt)) (idx idx' : Option (List (Nat × Pt)))
    (f : Nat × Pt → Bool) (h : PairSep ⟨c, verts, idx⟩) : PairSep ⟨c, verts.filter f, idx'⟩ := by
  simp only [PairSep, List.mem_filter] at h ⊢
  exact fun a ha b hb hab => h a ha.1 b hb.1 hab

theorem step_remove_pairSep (s : St) (k : Nat) (h : PairSep s) : PairSep (step s (.remove k)) :=
  pairSep_filter s.c s.verts s.idx s.idx _ h

theorem step_editRemove_pairSep (s : St) (k : Nat) (h : PairSep s) :
    PairSep (step s (.editRemove k)) :=
  pairSep_filter s.c s.verts s.idx none _ h

theorem step_seed_pairSep (s : St) (h : PairSep s) : PairSep (step s .seed) := by
  obtain ⟨c, verts, idx⟩ := s
  cases idx <;> exact h

theorem step_dropIndex_pairSep (s : St) (h : PairSep s) : PairSep (step s .dropIndex) := h

theorem step_clone_pairSep (s : St) (h : PairSep s) : PairSep (step s .clone) := h

/-- renumbering the live vertices keeps them pairwise separated (the coordinates are unchanged);
distinct old keys are needed so that "two different entries" means the same before and after -/
theorem step_rebuild_pairSep (s : St) (b : Nat) (hku : KeysUnique s) (h : PairSep s) :
    PairSep (step s (.rebuild b)) := by
  obtain ⟨c, verts, idx⟩ := s
  simp only [KeysUnique] at hku
  simp only [PairSep] at h
  simp only [step, PairSep]
  apply forall_ne_of_pairwise (R := fun p q => ¬ (dist2 p q < c * c))
  · intro p q hpq
    rw [DM.DupAux.dist2_comm]
    exact hpq
  · rw [rekey_map_snd]
    exact pairwise_of_forall_ne hku h

/-- the linear scan only sees coordinates, so renumbering does not change its answer -/
theorem scanDup_rebuild (s : St) (b : Nat) (q : Pt) :
    scanDup (step s (.rebuild b)) q = scanDup s q := by
  obtain ⟨c, verts, idx⟩ := s
  show (rekey b verts).any (fun v => decide (dist2 v.2 q < c * c))
    = verts.any (fun v => decide (dist2 v.2 q < c * c))
  apply Bool.eq_iff_iff.2
  simp only [List.any_eq_true, decide_eq_true_eq]
  constructor
  · rintro ⟨v, hv, hd⟩
    obtain ⟨w, hw, hw'⟩ := exists_of_mem_rekey hv
    exact ⟨w, hw, by rw [hw']; exact hd⟩
  · rintro ⟨w, hw, hd⟩
    obtain ⟨v, hv, hv'⟩ := exists_mem_rekey_of_mem b hw
    exact ⟨v, hv, by rw [hv']; exact hd⟩

/-- after a rebuild the grid (if any) holds exactly the live vertices: no stale entry survives -/
theorem rebuild_idx_eq_verts (s : St) (b : Nat) (es : List (Nat × Pt))
    (h : (step s (.rebuild b)).idx = some es) : es = (step s (.rebuild b)).verts := by
  obtain ⟨c, verts, idx⟩ := s
  cases idx with
  | none => simp [step] at h
  | some es' =>
    simp only [step, Option.map_some, Option.some.injEq] at h ⊢
    exact h.symm

/-- the operation is not the unchecked Edit-API insertion -/
def Checked : Op → Prop
  | .editInsert _ _ => False
  | _ => True

/-- all operations except `editInsert` keep the live vertices pairwise separated, provided the
duplicate check of a checked insertion is transparent (which `reachable_query_eq_scan` gives) -/
theorem step_pairSep (s : St) (op : Op) (hop : Checked op)
    (heq : ∀ k p, op = .insert k p → isDup s p = scanDup s p)
    (hrb : ∀ b, op = .rebuild b → KeysUnique s) (h : PairSep s) :
    PairSep (step s op) := by
  cases op with
  | seed => exact step_seed_pairSep s h
  | insert k p => exact step_insert_pairSep s k p (heq k p rfl) h
  | remove k => exact step_remove_pairSep s k h
  | editInsert k p => exact absurd hop (by simp [Checked])
  | editRemove k => exact step_editRemove_pairSep s k h
  | dropIndex => exact h
  | clone => exact h
  | rebuild b => exact step_rebuild_pairSep s b (hrb b rfl) h

/-- from a grid-less, pairwise separated start, every history of checked operations (no
`editInsert`) keeps the live vertices pairwise separated -/
theorem reachable_pairSep (s0 : St) (ops : List Op) (d : Nat)
    (h0 : s0.idx = none) (hc : 0 < s0.c) (hku : KeysUnique s0) (hdim : VertsDim d s0)
    (hops : ∀ op ∈ ops, OpDim d op) (hchk : ∀ op ∈ ops, Checked op) (hsep : PairSep s0) :
    PairSep (run s0 ops) := by
  have hcons0 : Consistent s0 := by simp [Consistent, h0]
  clear h0
  induction ops generalizing s0 with
  | nil => exact hsep
  | cons op ops ih =>
    have hop : OpDim d op := hops op (by simp)
    refine ih (step s0 op) (by rw [step_c]; exact hc) (step_keysUnique s0 op hku)
      (step_vertsDim d s0 op hop hdim) (fun o ho => hops o (by simp [ho]))
      (fun o ho => hchk o (by simp [ho])) ?_ (step_consistent s0 op hcons0)
    apply step_pairSep s0 op (hchk op (by simp)) _ (fun _ _ => hku) hsep
    rintro k p rfl
    exact consistent_query_eq_scan s0 d p hc hku hcons0 hdim hop

/-- `editInsert` does NOT preserve `PairSep` (the Edit API does not check duplicates) -/
theorem editInsert_breaks_pairSep :
    PairSep ⟨10, [(0, [0])], none⟩ ∧ ¬ PairSep (step ⟨10, [(0, [0])], none⟩ (.editInsert 1 [5])) := by
  constructor
  · simp [PairSep]
  · intro h
    exact h (1, [5]) (by simp [step]) (0, [0]) (by simp [step]) (by decide) (by decide)

/-! ### 8. the pre-fix behaviour (negative result) -/

/-- `step` before the fix: the Edit-API operations keep the grid -/
def stepBuggy (s : St) : Op → St
  | .seed => match s.idx with
    | some _ => s
    | none => { s with idx := some s.verts }
  | .insert k p =>
    if isDup s p || s.verts.any (·.1 == k) then s
    else { s with verts := (k, p) :: s.verts, idx := s.idx.map ((k, p) :: ·) }
  | .remove k => { s with verts := s.verts.filter (·.1 != k) }
  | .editInsert k p =>
    if s.verts.any (·.1 == k) then s else { s with verts := (k, p) :: s.verts, idx := s.idx }
  | .editRemove k => { s with verts := s.verts.filter (·.1 != k), idx := s.idx }
  | .dropIndex => { s with idx := none }
  | .clone => s
  | .rebuild b => let vs := rekey b s.verts; { s with verts := vs, idx := s.idx.map (fun _ => vs) }

def w0 : St := { c := 10, verts := [(0, [0])], idx := none }

/-- pre-fix: after an Edit-API insertion the grid misses the new vertex, so a point within
tolerance of it is a duplicate by scan but is NOT reported by the cache -/
theorem buggy_witness :
    let s := [Op.seed, Op.editInsert 1 [100]].foldl stepBuggy w0
    scanDup s [105] = true ∧ isDup s [105] = false := by decide

/-- pre-fix: the invariant `Consistent` is what the Edit-API insertion broke -/
theorem buggy_breaks_consistent :
    ¬ Consistent ([Op.seed, Op.editInsert 1 [100]].foldl stepBuggy w0) := by
  intro h
  have h' : ∀ v ∈ [((1 : Nat), ([100] : Pt)), (0, [0])], v ∈ [((0 : Nat), ([0] : Pt))] := h
  exact absurd (h' (1, [100]) (by simp)) (by decide)

/-- pre-fix: the missed duplicate is then inserted, breaking pairwise separation -/
theorem buggy_witness_inserts_duplicate :
    let s := [Op.seed, Op.editInsert 1 [100], Op.insert 2 [105]].foldl stepBuggy w0
    s.verts = [(2, [105]), (1, [100]), (0, [0])] := by decide

/-- with the real `step` the same history reports the duplicate -/
theorem fixed_witness :
    let s := run w0 [Op.seed, Op.editInsert 1 [100]]
    scanDup s [105] = true ∧ isDup s [105] = true := by decide

theorem fixed_witness_refuses :
    (run w0 [Op.seed, Op.editInsert 1 [100], Op.insert 2 [105]]).verts
      = [(1, [100]), (0, [0])] := by decide

/-! ### 8b. the pre-fix behaviour of `rebuild` (negative result, F22) -/

/-- `step` before the fix F22: `rebuild` renumbers the live vertices but leaves the grid entries as
they are (the old keys no longer resolve, so every entry is stale); all other operations as in
`step` -/
def stepStaleRekey (s : St) : Op → St
  | .rebuild b => { s with verts := rekey b s.verts, idx := s.idx }
  | op => step s op

def r0 : St := { c := 10, verts := [], idx := none }

/-- seed a grid, insert two vertices, remove the first, rebuild with fresh keys `2, 3, …` -/
def rekeyHist : List Op := [.seed, .insert 0 [0], .insert 1 [100], .remove 0, .rebuild 2]

/-- pre-fix: after the rebuild the surviving vertex has key 2 but its grid entry still carries
key 1, so a point within tolerance of it is a duplicate by scan and is NOT reported by the cache;
with the real `step` (grid re-keyed) the cache reports it -/
theorem stale_rekey_witness :
    let sb := rekeyHist.foldl stepStaleRekey r0
    let sf := run r0 rekeyHist
    (scanDup sb [105] = true ∧ isDup sb [105] = false) ∧
    (scanDup sf [105] = true ∧ isDup sf [105] = true) := by decide

/-- the two final states: same live vertices, stale vs re-keyed grid -/
theorem stale_rekey_states :
    (rekeyHist.foldl stepStaleRekey r0).verts = [(2, [100])] ∧
    (rekeyHist.foldl stepStaleRekey r0).idx = some [(1, [100]), (0, [0])] ∧
    (run r0 rekeyHist).verts = [(2, [100])] ∧
    (run r0 rekeyHist).idx = some [(2, [100])] := by decide

/-- pre-fix: the invariant `Consistent` is what the un-re-keyed rebuild broke -/
theorem stale_rekey_breaks_consistent : ¬ Consistent (rekeyHist.foldl stepStaleRekey r0) := by
  intro h
  have h' : ∀ v ∈ [((2 : Nat), ([100] : Pt))], v ∈ [((1 : Nat), ([100] : Pt)), (0, [0])] := h
  exact absurd (h' (2, [100]) (by simp)) (by decide)

/-- pre-fix: the missed duplicate is then inserted; the real `step` refuses it -/
theorem stale_rekey_inserts_duplicate :
    ((rekeyHist ++ [Op.insert 3 [105]]).foldl stepStaleRekey r0).verts = [(3, [105]), (2, [100])] ∧
    (run r0 (rekeyHist ++ [.insert 3 [105]])).verts = [(2, [100])] := by decide

/-! ### 9. non-vacuity: a small 2-D history -/

def e0 : St := { c := 10, verts := [], idx := none }

/-- seed, two inserts, a remove -/
def hist : List Op := [.seed, .insert 0 [0, 0], .insert 1 [50, 50], .remove 1]

/-- the grid is present and still holds the stale entry of the removed vertex -/
example : (run e0 hist).idx = some [(1, [50, 50]), (0, [0, 0])] := by decide
example : (run e0 hist).verts = [(0, [0, 0])] := by decide

/-- an insert at the removed position is ACCEPTED (the stale entry does not refuse it) -/
example : isDup (run e0 hist) [50, 50] = false := by decide
example : (run e0 (hist ++ [.insert 2 [50, 50]])).verts = [(2, [50, 50]), (0, [0, 0])] := by decide

/-- an insert within tolerance of a live vertex is REFUSED -/
example : isDup (run e0 (hist ++ [.insert 2 [50, 50]])) [53, 46] = true := by decide
example : (run e0 (hist ++ [.insert 2 [50, 50], .insert 3 [53, 46]])).verts
    = [(2, [50, 50]), (0, [0, 0])] := by decide

/-- within tolerance across a cell boundary (negative coordinates, floor division) -/
example : isDup (run e0 hist) [-3, -4] = true := by decide
example : nearBucket (bucket 10 [-3, -4]) (bucket 10 [0, 0]) = true := by decide

/-- just outside the tolerance: accepted -/
example : isDup (run e0 hist) [6, 8] = false := by decide

/-- a rebuild renumbers the live vertices and re-keys the grid: the stale entry is gone, the
duplicate check answers as before -/
example : (run e0 (hist ++ [.rebuild 7])).verts = [(7, [0, 0])] := by decide
example : (run e0 (hist ++ [.rebuild 7])).idx = some [(7, [0, 0])] := by decide
example : isDup (run e0 (hist ++ [.rebuild 7])) [-3, -4] = true := by decide
example : isDup (run e0 (hist ++ [.rebuild 7])) [50, 50] = false := by decide
example : ∀ op ∈ hist ++ [.rebuild 7], OpDim 2 op ∧ Checked op := by simp [hist, OpDim, Checked]

/-- the hypotheses of `reachable_query_eq_scan` / `reachable_pairSep` hold for this history -/
example : ∀ op ∈ hist ++ [.insert 2 [50, 50], .insert 3 [53, 46]], OpDim 2 op := by
  simp [hist, OpDim]
example : KeysUnique e0 ∧ VertsDim 2 e0 ∧ PairSep e0 ∧ e0.idx = none ∧ 0 < e0.c := by
  simp [KeysUnique, VertsDim, PairSep, e0]

end DM.C09

/-! ## 10. the extended machine: coordinates that cannot be keyed (`DM.DupCache.Keyed`)

Everything below holds for EVERY predicate `keyable : Pt → Bool`.

 * `stepK_consistent` / `stepK_keysUnique` / `runK_*` / `reachableK_consistent`: the invariant
   `ConsistentK` (no grid, or every live vertex is in the grid and keyable) and `KeysUnique` are
   preserved by every operation;
 * `consistentK_query_eq_scan`, `reachableK_query_eq_scan`: the duplicate check with the two
   conservative fallbacks is transparent in every reachable state, for every query;
 * `stepK_pairSep`, `reachableK_pairSep`: checked insertions keep the live vertices separated;
 * `stepK_all_keyable` / `isDupK_all_keyable`: with `keyable = fun _ => true` the extended machine
   IS the original one;
 * the two-site defect (`stepW`, `isDupSkip`): `skip_witness`, `skip_inserts_duplicate`,
   `skip_insert_alone_ok`, `skip_query_alone_ok`, and the boundary witnesses showing that each site
   alone is not correct in general either;
 * non-vacuity examples at the end.
-/
namespace DM.C09

open DM.DupCache DM.DupAux DM.DupCache.Keyed

/-! ### 10.1 invariants -/

theorem consistentK_consistent {keyable : Pt → Bool} {s : St} (h : ConsistentK keyable s) :
    Consistent s := by
  obtain ⟨c, verts, idx⟩ := s
  cases idx with
  | none => simp [Consistent]
  | some es => exact h.1

theorem stepK_c (keyable : Pt → Bool) (s : St) (op : Op) : (stepK keyable s op).c = s.c := by
  cases op <;> simp only [stepK] <;> (repeat' split) <;> rfl

theorem runK_c (keyable : Pt → Bool) (s : St) (ops : List Op) : (runK keyable s ops).c = s.c := by
  induction ops generalizing s with
  | nil => rfl
  | cons op ops ih => simp only [runK, List.foldl_cons] at ih ⊢; rw [ih, stepK_c]

theorem stepK_consistent (keyable : Pt → Bool) (s : St) (op : Op) (h : ConsistentK keyable s) :
    ConsistentK keyable (stepK keyable s op) := by
  obtain ⟨c, verts, idx⟩ := s
  cases op with
  | seed =>
    cases idx with
    | none =>
      simp only [stepK]
      split
      · rename_i hall
        simp only [ConsistentK]
        exact ⟨fun v hv => hv, fun v hv => List.all_eq_true.1 hall v hv⟩
      · simp [ConsistentK]
    | some es => exact h
  | insert k p =>
    simp only [stepK]
    split
    · exact h
    · split
      · rename_i hk
        cases idx with
        | none => simp [ConsistentK]
        | some es =>
          simp only [ConsistentK, Option.map_some, List.mem_cons] at h ⊢
          refine ⟨?_, ?_⟩
          · rintro v (rfl | hv)
            · exact Or.inl rfl
            · exact Or.inr (h.1 v hv)
          · rintro v (rfl | hv)
            · exact hk
            · exact h.2 v hv
      · simp [ConsistentK]
  | remove k =>
    cases idx with
    | none => simp [stepK, ConsistentK]
    | some es =>
      simp only [stepK, ConsistentK, List.mem_filter] at h ⊢
      exact ⟨fun v hv => h.1 v hv.1, fun v hv => h.2 v hv.1⟩
  | editInsert k p =>
    simp only [stepK]
    split
    · exact h
    · simp [ConsistentK]
  | editRemove k => simp [stepK, ConsistentK]
  | dropIndex => simp [stepK, ConsistentK]
  | clone => exact h
  | rebuild b =>
    -- the grid (if any) is re-keyed from the rebuilt vertex set; the coordinates are unchanged, so
    -- every renumbered vertex is still keyable
    cases idx with
    | none => simp [stepK, ConsistentK]
    | some es =>
      simp only [stepK, ConsistentK, Option.map_some] at h ⊢
      refine ⟨fun v hv => hv, ?_⟩
      intro v hv
      obtain ⟨w, hw, hw'⟩ := exists_of_mem_rekey hv
      rw [← hw']
      exact h.2 w hw

theorem stepK_keysUnique (keyable : Pt → Bool) (s : St) (op : Op) (h : KeysUnique s) :
    KeysUnique (stepK keyable s op) := by
  obtain ⟨c, verts, idx⟩ := s
  simp only [KeysUnique] at h
  cases op with
  | seed =>
    cases idx with
    | none => simp only [stepK]; split <;> exact h
    | some es => exact h
  | insert k p =>
    simp only [stepK]
    split
    · exact h
    · rename_i hn
      simp only [Bool.or_eq_true, not_or] at hn
      split <;>
      · simp only [KeysUnique, List.map_cons, List.nodup_cons]
        exact ⟨not_mem_keys_of_any_eq_false hn.2, h⟩
  | remove k => exact nodup_keys_filter _ h
  | editInsert k p =>
    simp only [stepK]
    split
    · exact h
    · rename_i hn
      simp only [KeysUnique, List.map_cons, List.nodup_cons]
      exact ⟨not_mem_keys_of_any_eq_false hn, h⟩
  | editRemove k => exact nodup_keys_filter _ h
  | dropIndex => exact h
  | clone => exact h
  | rebuild b => exact rekey_keys_nodup b verts

theorem runK_consistent (keyable : Pt → Bool) (s : St) (ops : List Op)
    (h : ConsistentK keyable s) : ConsistentK keyable (runK keyable s ops) := by
  induction ops generalizing s with
  | nil => exact h
  | cons op ops ih => exact ih (stepK keyable s op) (stepK_consistent keyable s op h)

theorem runK_keysUnique (keyable : Pt → Bool) (s : St) (ops : List Op) (h : KeysUnique s) :
    KeysUnique (runK keyable s ops) := by
  induction ops generalizing s with
  | nil => exact h
  | cons op ops ih => exact ih (stepK keyable s op) (stepK_keysUnique keyable s op h)

/-- every history of the extended machine that starts without a grid is consistent -/
theorem reachableK_consistent (keyable : Pt → Bool) (s0 : St) (ops : List Op)
    (h0 : s0.idx = none) : ConsistentK keyable (runK keyable s0 ops) := by
  apply runK_consistent
  simp [ConsistentK, h0]

theorem stepK_vertsDim (keyable : Pt → Bool) (d : Nat) (s : St) (op : Op) (hop : OpDim d op)
    (h : VertsDim d s) : VertsDim d (stepK keyable s op) := by
  obtain ⟨c, verts, idx⟩ := s
  simp only [VertsDim] at h
  cases op with
  | seed =>
    cases idx with
    | none => simp only [stepK]; split <;> exact h
    | some es => exact h
  | insert k p =>
    simp only [stepK]
    split
    · exact h
    · split <;>
      · simp only [VertsDim, List.mem_cons]
        rintro v (rfl | hv)
        · exact hop
        · exact h v hv
  | remove k =>
    simp only [stepK, VertsDim, List.mem_filter]
    exact fun v hv => h v hv.1
  | editInsert k p =>
    simp only [stepK]
    split
    · exact h
    · simp only [VertsDim, List.mem_cons]
      rintro v (rfl | hv)
      · exact hop
      · exact h v hv
  | editRemove k =>
    simp only [stepK, VertsDim, List.mem_filter]
    exact fun v hv => h v hv.1
  | dropIndex => exact h
  | clone => exact h
  | rebuild b =>
    simp only [stepK, VertsDim]
    intro v hv
    obtain ⟨w, hw, hw'⟩ := exists_of_mem_rekey hv
    rw [← hw']
    exact h w hw

theorem runK_vertsDim (keyable : Pt → Bool) (d : Nat) (s : St) (ops : List Op)
    (hops : ∀ op ∈ ops, OpDim d op) (h : VertsDim d s) : VertsDim d (runK keyable s ops) := by
  induction ops generalizing s with
  | nil => exact h
  | cons op ops ih =>
    exact ih (stepK keyable s op) (fun o ho => hops o (by simp [ho]))
      (stepK_vertsDim keyable d s op (hops op (by simp)) h)

/-! ### 10.2 the fallbacks make un-keyable coordinates invisible -/

/-- in a consistent state with unique keys the duplicate check of the extended machine and the
linear scan agree on every query of the right dimension, keyable or not -/
theorem consistentK_query_eq_scan (keyable : Pt → Bool) (s : St) (d : Nat) (q : Pt) (hc : 0 < s.c)
    (hku : KeysUnique s) (hcons : ConsistentK keyable s) (hdim : ∀ v ∈ s.verts, v.2.length = d)
    (hq : q.length = d) : isDupK keyable s q = scanDup s q := by
  have h := consistent_query_eq_scan s d q hc hku (consistentK_consistent hcons) hdim hq
  obtain ⟨c, verts, idx⟩ := s
  cases idx with
  | none => rfl
  | some es =>
    simp only [isDupK]
    split
    · exact h
    · rfl

theorem reachableK_query_eq_scan (keyable : Pt → Bool) (s0 : St) (ops : List Op) (d : Nat) (q : Pt)
    (h0 : s0.idx = none) (hc : 0 < s0.c) (hku : KeysUnique s0) (hdim : VertsDim d s0)
    (hops : ∀ op ∈ ops, OpDim d op) (hq : q.length = d) :
    isDupK keyable (runK keyable s0 ops) q = scanDup (runK keyable s0 ops) q :=
  consistentK_query_eq_scan keyable (runK keyable s0 ops) d q (by rw [runK_c]; exact hc)
    (runK_keysUnique keyable s0 ops hku) (reachableK_consistent keyable s0 ops h0)
    (runK_vertsDim keyable d s0 ops hops hdim) hq

/-- in every reachable state that HAS a grid, every live vertex is keyable and has its entry -/
theorem reachableK_grid_all_keyable (keyable : Pt → Bool) (s0 : St) (ops : List Op)
    (h0 : s0.idx = none) (es : List (Nat × Pt)) (hes : (runK keyable s0 ops).idx = some es) :
    ∀ v ∈ (runK keyable s0 ops).verts, v ∈ es ∧ keyable v.2 = true := by
  have h := reachableK_consistent keyable s0 ops h0
  generalize runK keyable s0 ops = s at h hes
  obtain ⟨c, verts, idx⟩ := s
  simp only at hes
  subst hes
  exact fun v hv => ⟨h.1 v hv, h.2 v hv⟩

/-- a refused point is refused because of a LIVE vertex within tolerance, in every state -/
theorem never_refused_for_removedK (keyable : Pt → Bool) (s : St) (q : Pt)
    (h : isDupK keyable s q = true) : ∃ v ∈ s.verts, dist2 v.2 q < s.c * s.c := by
  obtain ⟨c, verts, idx⟩ := s
  cases idx with
  | none => exact never_refused_for_removed ⟨c, verts, none⟩ q h
  | some es =>
    simp only [isDupK] at h
    split at h
    · exact never_refused_for_removed ⟨c, verts, some es⟩ q h
    · exact never_refused_for_removed ⟨c, verts, none⟩ q h

/-! ### 10.3 the extended machine is the original one when every point is keyable -/

theorem isDupK_all_keyable (s : St) (q : Pt) : isDupK (fun _ => true) s q = isDup s q := by
  obtain ⟨c, verts, idx⟩ := s
  cases idx <;> rfl

theorem stepK_all_keyable (s : St) (op : Op) : stepK (fun _ => true) s op = step s op := by
  obtain ⟨c, verts, idx⟩ := s
  cases op with
  | seed => cases idx <;> simp [stepK, step]
  | insert k p => simp only [stepK, step, isDupK_all_keyable, if_true]
  | _ => rfl

theorem runK_all_keyable (s : St) (ops : List Op) : runK (fun _ => true) s ops = run s ops := by
  induction ops generalizing s with
  | nil => rfl
  | cons op ops ih => simp only [runK, run, List.foldl_cons] at ih ⊢; rw [stepK_all_keyable, ih]

/-! ### 10.4 checked insertion keeps the live vertices pairwise separated -/

theorem stepK_insert_pairSep (keyable : Pt → Bool) (s : St) (k : Nat) (p : Pt)
    (heq : isDupK keyable s p = scanDup s p) (h : PairSep s) :
    PairSep (stepK keyable s (.insert k p)) := by
  obtain ⟨c, verts, idx⟩ := s
  simp only [stepK]
  split
  · exact h
  · rename_i hn
    simp only [Bool.or_eq_true, not_or] at hn
    have hscan : ∀ v ∈ verts, ¬ (dist2 v.2 p < c * c) := by
      have h1 := hn.1
      rw [heq] at h1
      simpa [scanDup] using h1
    split <;>
    · simp only [PairSep, List.mem_cons] at h ⊢
      rintro a (rfl | ha) b (rfl | hb) hab
      · exact absurd rfl hab
      · rw [DM.DupAux.dist2_comm]; exact hscan b hb
      · exact hscan a ha
      · exact h a ha b hb hab

theorem stepK_seed_pairSep (keyable : Pt → Bool) (s : St) (h : PairSep s) :
    PairSep (stepK keyable s .seed) := by
  obtain ⟨c, verts, idx⟩ := s
  cases idx with
  | none => simp only [stepK]; split <;> exact h
  | some es => exact h

theorem stepK_pairSep (keyable : Pt → Bool) (s : St) (op : Op) (hop : Checked op)
    (heq : ∀ k p, op = .insert k p → isDupK keyable s p = scanDup s p)
    (hrb : ∀ b, op = .rebuild b → KeysUnique s) (h : PairSep s) :
    PairSep (stepK keyable s op) := by
  cases op with
  | seed => exact stepK_seed_pairSep keyable s h
  | insert k p => exact stepK_insert_pairSep keyable s k p (heq k p rfl) h
  | remove k => exact step_remove_pairSep s k h
  | editInsert k p => exact absurd hop (by simp [Checked])
  | editRemove k => exact step_editRemove_pairSep s k h
  | dropIndex => exact h
  | clone => exact h
  | rebuild b => exact step_rebuild_pairSep s b (hrb b rfl) h

/-- from a grid-less, pairwise separated start, every history of checked operations (no
`editInsert`) of the extended machine keeps the live vertices pairwise separated — whatever the
predicate `keyable` is -/
theorem reachableK_pairSep (keyable : Pt → Bool) (s0 : St) (ops : List Op) (d : Nat)
    (h0 : s0.idx = none) (hc : 0 < s0.c) (hku : KeysUnique s0) (hdim : VertsDim d s0)
    (hops : ∀ op ∈ ops, OpDim d op) (hchk : ∀ op ∈ ops, Checked op) (hsep : PairSep s0) :
    PairSep (runK keyable s0 ops) := by
  have hcons0 : ConsistentK keyable s0 := by simp [ConsistentK, h0]
  clear h0
  induction ops generalizing s0 with
  | nil => exact hsep
  | cons op ops ih =>
    have hop : OpDim d op := hops op (by simp)
    refine ih (stepK keyable s0 op) (by rw [stepK_c]; exact hc) (stepK_keysUnique keyable s0 op hku)
      (stepK_vertsDim keyable d s0 op hop hdim) (fun o ho => hops o (by simp [ho]))
      (fun o ho => hchk o (by simp [ho])) ?_ (stepK_consistent keyable s0 op hcons0)
    apply stepK_pairSep keyable s0 op (hchk op (by simp)) _ (fun _ _ => hku) hsep
    rintro k p rfl
    exact consistentK_query_eq_scan keyable s0 d p hc hku hcons0 hdim hop

end DM.C09

/-! ## 11. the two-site defect of the un-keyable handling (negative results) and non-vacuity -/
namespace DM.C09

open DM.DupCache DM.DupAux DM.DupCache.Keyed

/-! ### 11.1 the defective machines -/

/-- defect at the QUERY site: a query at an un-keyable point is answered from the grid like any
other query (no fallback to the scan); `keyable` is not consulted at all -/
def isDupSkip (s : St) (q : Pt) : Bool :=
  match s.idx with
  | some es => gridDup s es q
  | none => scanDup s q

/-- the defective query is the query of the ORIGINAL machine, which knows nothing of keyability -/
theorem isDupSkip_eq_isDup (s : St) (q : Pt) : isDupSkip s q = isDup s q := rfl

/-- the more literal reading of the query-site defect: an un-keyable query point has no bucket, so
a grid that is consulted for it inspects NO candidate and answers "not a duplicate" -/
def isDupSkipNone (keyable : Pt → Bool) (s : St) (q : Pt) : Bool :=
  match s.idx with
  | some es => if keyable q then gridDup s es q else false
  | none => scanDup s q

/-- the machine with both sites as parameters. `skipIns = true` is the defect at the INSERTION
site: an accepted un-keyable point leaves the grid in place WITHOUT an entry for it (and `seed`,
which builds the grid by the same insertions, silently omits the un-keyable live vertices);
`dup` is the duplicate check used for the refusal test. All other operations as in `stepK`. -/
def stepW (skipIns : Bool) (dup : St → Pt → Bool) (keyable : Pt → Bool) (s : St) : Op → St
  | .seed =>
    if skipIns then
      match s.idx with
      | some _ => s
      | none => { s with idx := some (s.verts.filter (fun v => keyable v.2)) }
    else stepK keyable s .seed
  | .insert k p =>
    if dup s p || s.verts.any (·.1 == k) then s
    else if keyable p then { s with verts := (k, p) :: s.verts, idx := s.idx.map ((k, p) :: ·) }
    else if skipIns then { s with verts := (k, p) :: s.verts }       -- grid kept, no entry
    else { s with verts := (k, p) :: s.verts, idx := none }
  | op => stepK keyable s op

/-- both defects: un-keyable insertions are skipped by the grid, un-keyable queries use the grid -/
def stepSkip (keyable : Pt → Bool) (s : St) (op : Op) : St := stepW true isDupSkip keyable s op

/-- with both sites faithful, `stepW` is `stepK` -/
theorem stepW_faithful (keyable : Pt → Bool) (s : St) (op : Op) :
    stepW false (isDupK keyable) keyable s op = stepK keyable s op := by
  cases op <;> simp [stepW, stepK]

/-! ### 11.2 a concrete history -/

/-- keyable: every coordinate has absolute value below 1000 -/
def keyW : Pt → Bool := fun p => p.all (fun x => decide (-1000 < x ∧ x < 1000))

def k0 : St := { c := 10, verts := [], idx := none }

/-- seed a grid, insert a keyable vertex, insert an un-keyable vertex `P = [5000]` -/
def skipHist : List Op := [.seed, .insert 0 [0], .insert 1 [5000]]

example : keyW [0] = true ∧ keyW [5000] = false := by decide

/-- both defects: after inserting the un-keyable `P` the grid is still there and has no entry for
`P`; the defective query says "not a duplicate" for `P` itself while the scan says "duplicate" -/
theorem skip_witness :
    let s := skipHist.foldl (stepSkip keyW) k0
    s.verts = [(1, [5000]), (0, [0])] ∧ s.idx = some [(0, [0])] ∧
    scanDup s [5000] = true ∧ isDupSkip s [5000] = false ∧ isDupSkipNone keyW s [5000] = false := by
  decide

/-- both defects: the invariant `ConsistentK` is what the skipped insertion broke -/
theorem skip_breaks_consistentK : ¬ ConsistentK keyW (skipHist.foldl (stepSkip keyW) k0) := by
  intro h
  have h' : ∀ v ∈ [((1 : Nat), ([5000] : Pt)), (0, [0])], v ∈ [((0 : Nat), ([0] : Pt))] := h.1
  exact absurd (h' (1, [5000]) (by simp)) (by decide)

/-- both defects: `P` is inserted a second time — two live vertices at the same coordinates, the
pairwise separation is broken; the faithful machine refuses the second insertion -/
theorem skip_inserts_duplicate :
    let s := (skipHist ++ [Op.insert 2 [5000]]).foldl (stepSkip keyW) k0
    s.verts = [(2, [5000]), (1, [5000]), (0, [0])] ∧ ¬ PairSep s ∧
    (runK keyW k0 (skipHist ++ [.insert 2 [5000]])).verts = [(1, [5000]), (0, [0])] := by
  refine ⟨by decide, ?_, by decide⟩
  intro h
  exact h (2, [5000]) (by decide) (1, [5000]) (by decide) (by decide) (by decide)

/-- only the INSERTION site is defective (the query is the faithful `isDupK`): the grid is kept
without an entry for `P`, but the query at `P` is un-keyable and falls back to the scan, which
finds `P`; the second insertion is refused -/
theorem skip_insert_alone_ok :
    let s := skipHist.foldl (stepW true (isDupK keyW) keyW) k0
    s.idx = some [(0, [0])] ∧ scanDup s [5000] = true ∧ isDupK keyW s [5000] = true ∧
    ((skipHist ++ [Op.insert 2 [5000]]).foldl (stepW true (isDupK keyW) keyW) k0).verts
      = [(1, [5000]), (0, [0])] := by decide

/-- only the QUERY site is defective (the step is the faithful one apart from its refusal test):
inserting `P` dropped the grid, so the defective query has no grid to consult and the scan
answers; the second insertion is refused. The same holds for the literal reading of the defect. -/
theorem skip_query_alone_ok :
    let s := skipHist.foldl (stepW false isDupSkip keyW) k0
    s.idx = none ∧ scanDup s [5000] = true ∧ isDupSkip s [5000] = true ∧
    ((skipHist ++ [Op.insert 2 [5000]]).foldl (stepW false isDupSkip keyW) k0).verts
      = [(1, [5000]), (0, [0])] ∧
    ((skipHist ++ [Op.insert 2 [5000]]).foldl (stepW false (isDupSkipNone keyW) keyW) k0).verts
      = [(1, [5000]), (0, [0])] := by decide

/-- the faithful machine on the same history: the grid is dropped, the duplicate is reported -/
theorem skip_fixed_witness :
    let s := runK keyW k0 skipHist
    s.idx = none ∧ scanDup s [5000] = true ∧ isDupK keyW s [5000] = true := by decide

/-- the insertion-site defect also reaches `seed`: an un-keyable vertex that entered through the
Edit API is omitted by the seeded grid, and the defective query then misses it; the faithful `seed`
builds no grid -/
theorem skip_seed_witness :
    let h : List Op := [.editInsert 0 [5000], .seed]
    let s := h.foldl (stepSkip keyW) k0
    s.idx = some [] ∧ scanDup s [5000] = true ∧ isDupSkip s [5000] = false ∧
    (runK keyW k0 h).idx = none ∧ isDupK keyW (runK keyW k0 h) [5000] = true := by decide

/-! ### 11.3 each site alone is NOT correct in general (the boundary of keyability)

`skip_insert_alone_ok` / `skip_query_alone_ok` are statements about ONE history. At the boundary
between keyable and un-keyable coordinates a single defective site is already visible. -/

/-- insertion site alone: the un-keyable vertex `[1000]` has no grid entry; the KEYABLE query
`[995]` (within tolerance of it) is answered by the grid, which misses it -/
theorem skip_insert_alone_boundary_witness :
    let h : List Op := [.seed, .insert 0 [0], .insert 1 [1000]]
    let s := h.foldl (stepW true (isDupK keyW) keyW) k0
    keyW [995] = true ∧ scanDup s [995] = true ∧ isDupK keyW s [995] = false ∧
    ((h ++ [Op.insert 2 [995]]).foldl (stepW true (isDupK keyW) keyW) k0).verts
      = [(2, [995]), (1, [1000]), (0, [0])] ∧
    (runK keyW k0 (h ++ [.insert 2 [995]])).verts = [(1, [1000]), (0, [0])] := by decide

/-- query site alone, literal reading (an un-keyable query inspects no candidate): the grid holds
the keyable vertex `[995]`; the un-keyable query `[1000]` within tolerance of it is answered "not a
duplicate" and is inserted. (With `isDupSkip`, whose grid query computes the bucket of the
un-keyable point exactly, the model cannot show this: see `query_alone_gridDup_transparent`.) -/
theorem skip_query_alone_boundary_witness :
    let h : List Op := [.seed, .insert 0 [995]]
    let s := h.foldl (stepW false (isDupSkipNone keyW) keyW) k0
    s.idx = some [(0, [995])] ∧ scanDup s [1000] = true ∧ isDupSkipNone keyW s [1000] = false ∧
    ((h ++ [Op.insert 1 [1000]]).foldl (stepW false (isDupSkipNone keyW) keyW) k0).verts
      = [(1, [1000]), (0, [995])] ∧
    (runK keyW k0 (h ++ [.insert 1 [1000]])).verts = [(0, [995])] := by decide

/-- in a `ConsistentK` state the query `isDupSkip` (exact integer buckets also for un-keyable
points) agrees with the scan: in THIS model the query-site defect is invisible as long as the
insertion site is faithful. The real grid cannot compute the bucket of an un-keyable point exactly,
which is what `isDupSkipNone` stands for. -/
theorem query_alone_gridDup_transparent (keyable : Pt → Bool) (s : St) (d : Nat) (q : Pt)
    (hc : 0 < s.c) (hku : KeysUnique s) (hcons : ConsistentK keyable s)
    (hdim : ∀ v ∈ s.verts, v.2.length = d) (hq : q.length = d) : isDupSkip s q = scanDup s q :=
  consistent_query_eq_scan s d q hc hku (consistentK_consistent hcons) hdim hq

/-! ### 11.4 non-vacuity: a 2-D history with a grid, un-keyable insertions and re-seeding -/

/-- seed, two inserts, a remove, an UN-KEYABLE insert (drops the grid), a seed that must not build
a grid (an un-keyable vertex is live), its removal, a seed that builds the grid again, an insert -/
def kHist : List Op :=
  [.seed, .insert 0 [0, 0], .insert 1 [50, 50], .remove 1, .insert 2 [5000, 0], .seed, .remove 2,
   .seed, .insert 3 [53, 46]]

/-- the un-keyable insertion is accepted and drops the grid; `seed` does not bring it back while
the un-keyable vertex is live -/
example : (runK keyW k0 (kHist.take 5)).verts = [(2, [5000, 0]), (0, [0, 0])] := by decide
example : (runK keyW k0 (kHist.take 4)).idx = some [(1, [50, 50]), (0, [0, 0])] := by decide
example : (runK keyW k0 (kHist.take 5)).idx = none := by decide
example : (runK keyW k0 (kHist.take 6)).idx = none := by decide
/-- an un-keyable duplicate of the un-keyable vertex is refused (scan fallback) -/
example : isDupK keyW (runK keyW k0 (kHist.take 6)) [5003, -4] = true := by decide
example : (runK keyW k0 (kHist.take 6 ++ [.insert 9 [5003, -4]])).verts
    = [(2, [5000, 0]), (0, [0, 0])] := by decide

/-- the final state HAS a grid, holding exactly the live vertices (all keyable) -/
example : (runK keyW k0 kHist).idx = some [(3, [53, 46]), (0, [0, 0])] := by decide
example : (runK keyW k0 kHist).verts = [(3, [53, 46]), (0, [0, 0])] := by decide
/-- keyable queries are answered by the grid, un-keyable ones by the scan; both agree with it -/
example : isDupK keyW (runK keyW k0 kHist) [50, 50] = true ∧
    scanDup (runK keyW k0 kHist) [50, 50] = true := by decide
example : keyW [1002, 46] = false ∧ isDupK keyW (runK keyW k0 kHist) [1002, 46] = false ∧
    scanDup (runK keyW k0 kHist) [1002, 46] = false := by decide
/-- an un-keyable insertion into the state WITH a grid: accepted, grid dropped, then refused -/
example : (runK keyW k0 (kHist ++ [.insert 4 [0, -7000]])).idx = none := by decide
example : (runK keyW k0 (kHist ++ [.insert 4 [0, -7000], .insert 5 [1, -7001]])).verts
    = [(4, [0, -7000]), (3, [53, 46]), (0, [0, 0])] := by decide

/-- the hypotheses of `reachableK_query_eq_scan` / `reachableK_pairSep` hold for this history -/
example : ∀ op ∈ kHist ++ [.insert 4 [0, -7000], .insert 5 [1, -7001]], OpDim 2 op ∧ Checked op := by
  simp [kHist, OpDim, Checked]
example : KeysUnique k0 ∧ VertsDim 2 k0 ∧ PairSep k0 ∧ k0.idx = none ∧ 0 < k0.c := by
  simp [KeysUnique, VertsDim, PairSep, k0]

/-- the theorems instantiated at this history -/
example (q : Pt) (hq : q.length = 2) :
    isDupK keyW (runK keyW k0 kHist) q = scanDup (runK keyW k0 kHist) q :=
  reachableK_query_eq_scan keyW k0 kHist 2 q rfl (by decide) (by simp [KeysUnique, k0])
    (by simp [VertsDim, k0]) (by simp [kHist, OpDim]) hq
example : PairSep (runK keyW k0 kHist) :=
  reachableK_pairSep keyW k0 kHist 2 rfl (by decide) (by simp [KeysUnique, k0])
    (by simp [VertsDim, k0]) (by simp [kHist, OpDim]) (by simp [kHist, Checked])
    (by simp [PairSep, k0])

end DM.C09
