/-
Model/Gen.lean — the generation counter of the Tds and the hull's staleness guard
(src/core/triangulation_data_structure.rs `bump_generation` :1576 and its call sites;
src/geometry/algorithms/convex_hull.rs `from_triangulation` :730 stores `creation_generation`,
the four guarded queries :578/:869/:1247/:1488 compare it with `tds.generation()`).

One observation per public mutating call: did the observable structure change, and the counter
before/after.  Snapshot restores keep the counter (the snapshot `clone()` shares the
`Arc<AtomicU64>`), so a rolled-back call has `changed = false` and `g1 ≥ g0`.
-/
namespace DM.Gen

structure Obs where
  changed : Bool
  g0 : Nat
  g1 : Nat
  deriving Repr, DecidableEq

/-- what every call must satisfy: the counter never goes back, and moves if the structure changed -/
def stepOk (o : Obs) : Bool := decide (o.g0 ≤ o.g1) && (!o.changed || decide (o.g0 < o.g1))

/-- consecutive observations of one triangulation object: each starts where the previous ended -/
def chained : Nat → List Obs → Bool
  | _, [] => true
  | g, o :: rest => o.g0 == g && chained o.g1 rest

def finalGen : Nat → List Obs → Nat
  | g, [] => g
  | _, o :: rest => finalGen o.g1 rest

/-- a guarded hull query: stale unless the creation generation equals the current one -/
inductive Answer (α : Type) where
  | stale
  | answer (a : α)
  deriving Repr

def guardedQuery {α : Type} (creation now : Nat) (compute : Unit → α) : Answer α :=
  if creation != now then .stale else .answer (compute ())

end DM.Gen

namespace DM.Hull

/-- `find_nearest_visible_facet` (convex_hull.rs): among the visible facets, the one with the least
key (squared distance from the query to the facet centroid), the first such one in hull order;
`none` when nothing is visible.  Facets are (index, key) pairs, keys in any linearly ordered carrier
(here `Int`: the exact integer key `|D·q − Σ v|²`). -/
def nearest : List (Nat × Int) → Option (Nat × Int)
  | [] => none
  | f :: rest =>
    match nearest rest with
    | none => some f
    | some g => if f.2 ≤ g.2 then some f else some g

end DM.Hull
