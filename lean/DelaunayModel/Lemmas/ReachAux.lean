/-
Lemmas/ReachAux.lean — helper lemmas for the Level-3 connectivity validator (`reachStep`,
`reachFuel`, `connected` in Model/Cx.lean) used by Props/C05.lean §7:
 * the declarative relations `PointsTo` (a stored cell lists an id among its neighbour pointers)
   and `Reach` (reflexive-transitive closure through stored cells),
 * one BFS round `reachStep` = "add the stored ids some seen cell points to" (`mem_reachStep`),
   it only prepends (`reachStep_suffix`), keeps the list duplicate-free (`reachStep_nodup`),
 * a duplicate-free list inside another is no longer, and if equally long has the same elements
   (`nodup_subset_length_le`, `subset_of_nodup_subset_length_eq`),
 * with enough fuel `reachFuel` stops at a fixpoint of `reachStep` (`reachFuel_fixpoint`).
Core only (no Mathlib).
-/
import DelaunayModel.Lemmas.CxAux
namespace DM

/-- a stored cell with id `a` has `b` among its neighbour pointers -/
def PointsTo (K : Cx) (a b : Nat) : Prop :=
  ∃ s ∈ K.cells, s.id = a ∧ ∃ l, s.nb = some l ∧ some b ∈ l

/-- `b` is reachable from `a` by following neighbour pointers through stored cells -/
inductive Reach (K : Cx) (a : Nat) : Nat → Prop
  | refl : Reach K a a
  | step {b c : Nat} : Reach K a b → PointsTo K b c → (∃ t ∈ K.cells, t.id = c) → Reach K a c

/-- the stored cell ids -/
def cellIds (K : Cx) : List Nat := K.cells.map (·.id)

theorem mem_cellIds {K : Cx} {x : Nat} : x ∈ cellIds K ↔ ∃ t ∈ K.cells, t.id = x := by
  simp [cellIds, List.mem_map]

theorem cellIds_length (K : Cx) : (cellIds K).length = K.cells.length := by
  simp [cellIds]

/-! ### generic list facts -/

/-- a duplicate-free list whose elements all lie in `l₂` is at most as long as `l₂` -/
theorem nodup_subset_length_le {l₁ l₂ : List Nat} (hnd : l₁.Nodup) (hs : ∀ x ∈ l₁, x ∈ l₂) :
    l₁.length ≤ l₂.length := by
  induction l₁ generalizing l₂ with
  | nil => exact Nat.zero_le _
  | cons x t ih =>
    rw [List.nodup_cons] at hnd
    have hx : x ∈ l₂ := hs x (by simp)
    have ht : ∀ y ∈ t, y ∈ l₂.erase x := fun y hy =>
      (List.mem_erase_of_ne (fun (h : y = x) => hnd.1 (h ▸ hy))).2 (hs y (List.mem_cons_of_mem _ hy))
    have h1 := ih hnd.2 ht
    have h2 := List.length_erase_of_mem hx
    have h3 := List.length_pos_of_mem hx
    simp only [List.length_cons]
    omega

/-- … and if it is as long as `l₂`, every element of `l₂` occurs in it -/
theorem subset_of_nodup_subset_length_eq {l₁ l₂ : List Nat} (hnd : l₁.Nodup)
    (hs : ∀ x ∈ l₁, x ∈ l₂) (hl : l₂.length ≤ l₁.length) : ∀ y ∈ l₂, y ∈ l₁ := by
  induction l₁ generalizing l₂ with
  | nil =>
    intro y hy
    have := List.length_pos_of_mem hy
    simp only [List.length_nil] at hl
    omega
  | cons x t ih =>
    rw [List.nodup_cons] at hnd
    have hx : x ∈ l₂ := hs x (by simp)
    have ht : ∀ y ∈ t, y ∈ l₂.erase x := fun y hy =>
      (List.mem_erase_of_ne (fun (h : y = x) => hnd.1 (h ▸ hy))).2 (hs y (List.mem_cons_of_mem _ hy))
    have h2 := List.length_erase_of_mem hx
    have h3 := List.length_pos_of_mem hx
    have hl' : (l₂.erase x).length ≤ t.length := by
      simp only [List.length_cons] at hl
      omega
    intro y hy
    by_cases hyx : y = x
    · rw [hyx]; simp
    · exact List.mem_cons_of_mem _ (ih hnd.2 ht hl' y ((List.mem_erase_of_ne hyx).2 hy))

/-- … and then `l₂` is duplicate-free too -/
theorem nodup_of_nodup_subset_length_eq {l₁ l₂ : List Nat} (hnd : l₁.Nodup)
    (hs : ∀ x ∈ l₁, x ∈ l₂) (hl : l₂.length ≤ l₁.length) : l₂.Nodup := by
  induction l₁ generalizing l₂ with
  | nil =>
    cases l₂ with
    | nil => exact List.nodup_nil
    | cons y ys => simp at hl
  | cons x t ih =>
    rw [List.nodup_cons] at hnd
    have hx : x ∈ l₂ := hs x (by simp)
    have ht : ∀ y ∈ t, y ∈ l₂.erase x := fun y hy =>
      (List.mem_erase_of_ne (fun (h : y = x) => hnd.1 (h ▸ hy))).2
        (hs y (List.mem_cons_of_mem _ hy))
    have h2 := List.length_erase_of_mem hx
    have h3 := List.length_pos_of_mem hx
    have hl' : (l₂.erase x).length ≤ t.length := by
      simp only [List.length_cons] at hl
      omega
    have hnd' := ih hnd.2 ht hl'
    have hback := subset_of_nodup_subset_length_eq hnd.2 ht hl'
    exact (List.perm_cons_erase hx).nodup_iff.2
      (List.nodup_cons.2 ⟨fun hm => hnd.1 (hback x hm), hnd'⟩)

/-! ### one BFS round -/

/-- the fold of `reachStep` with the (fold-independent) joining test abstracted -/
def addIds (P : Cell → Bool) (cells : List Cell) (init : List Nat) : List Nat :=
  cells.foldl (fun acc c =>
    if acc.contains c.id then acc else if P c then c.id :: acc else acc) init

/-- the joining test of `reachStep`: some already-seen cell points to `c` -/
def joins (K : Cx) (seen : List Nat) (c : Cell) : Bool :=
  K.cells.any (fun s => seen.contains s.id &&
    (match s.nb with | none => false | some l => l.contains (some c.id)))

theorem reachStep_eq (K : Cx) (seen : List Nat) :
    reachStep K seen = addIds (joins K seen) K.cells seen := rfl

theorem addIds_cons (P : Cell → Bool) (c : Cell) (cells : List Cell) (init : List Nat) :
    addIds P (c :: cells) init =
      addIds P cells (if init.contains c.id then init else if P c then c.id :: init else init) := rfl

theorem addIds_suffix (P : Cell → Bool) (cells : List Cell) (init : List Nat) :
    init <:+ addIds P cells init := by
  induction cells generalizing init with
  | nil => exact List.suffix_refl _
  | cons c cs ih =>
    rw [addIds_cons]
    refine List.IsSuffix.trans ?_ (ih _)
    split
    · exact List.suffix_refl _
    · split
      · exact List.suffix_cons _ _
      · exact List.suffix_refl _

theorem mem_addIds (P : Cell → Bool) (cells : List Cell) (init : List Nat) (x : Nat) :
    x ∈ addIds P cells init ↔ x ∈ init ∨ ∃ c ∈ cells, c.id = x ∧ P c = true := by
  induction cells generalizing init with
  | nil => simp [addIds]
  | cons c cs ih =>
    rw [addIds_cons, ih]
    by_cases h1 : init.contains c.id = true
    · rw [if_pos h1]
      constructor
      · rintro (h | ⟨c', hc', hx, hp⟩)
        · exact Or.inl h
        · exact Or.inr ⟨c', List.mem_cons_of_mem _ hc', hx, hp⟩
      · rintro (h | ⟨c', hc', hx, hp⟩)
        · exact Or.inl h
        · rcases List.mem_cons.1 hc' with rfl | hc'
          · exact Or.inl (hx ▸ (List.contains_iff_mem.1 h1))
          · exact Or.inr ⟨c', hc', hx, hp⟩
    · rw [if_neg h1]
      by_cases h2 : P c = true
      · rw [if_pos h2]
        constructor
        · rintro (h | ⟨c', hc', hx, hp⟩)
          · rcases List.mem_cons.1 h with rfl | h
            · exact Or.inr ⟨c, by simp, rfl, h2⟩
            · exact Or.inl h
          · exact Or.inr ⟨c', List.mem_cons_of_mem _ hc', hx, hp⟩
        · rintro (h | ⟨c', hc', hx, hp⟩)
          · exact Or.inl (List.mem_cons_of_mem _ h)
          · rcases List.mem_cons.1 hc' with rfl | hc'
            · exact Or.inl (hx ▸ List.mem_cons_self)
            · exact Or.inr ⟨c', hc', hx, hp⟩
      · rw [if_neg h2]
        constructor
        · rintro (h | ⟨c', hc', hx, hp⟩)
          · exact Or.inl h
          · exact Or.inr ⟨c', List.mem_cons_of_mem _ hc', hx, hp⟩
        · rintro (h | ⟨c', hc', hx, hp⟩)
          · exact Or.inl h
          · rcases List.mem_cons.1 hc' with rfl | hc'
            · exact absurd hp h2
            · exact Or.inr ⟨c', hc', hx, hp⟩

theorem nodup_addIds (P : Cell → Bool) (cells : List Cell) (init : List Nat) (h : init.Nodup) :
    (addIds P cells init).Nodup := by
  induction cells generalizing init with
  | nil => exact h
  | cons c cs ih =>
    rw [addIds_cons]
    apply ih
    by_cases h1 : init.contains c.id = true
    · rw [if_pos h1]; exact h
    · rw [if_neg h1]
      split
      · exact List.nodup_cons.2 ⟨fun hm => h1 (List.contains_iff_mem.2 hm), h⟩
      · exact h

theorem joins_iff (K : Cx) (seen : List Nat) (c : Cell) :
    joins K seen c = true ↔ ∃ a ∈ seen, PointsTo K a c.id := by
  unfold joins PointsTo
  rw [List.any_eq_true]
  constructor
  · rintro ⟨s, hs, h⟩
    rw [Bool.and_eq_true] at h
    cases hnb : s.nb with
    | none =>
      rw [hnb] at h
      exact absurd h.2 Bool.false_ne_true
    | some l =>
      rw [hnb] at h
      exact ⟨s.id, List.contains_iff_mem.1 h.1, s, hs, rfl, l, hnb, List.contains_iff_mem.1 h.2⟩
  · rintro ⟨a, ha, s, hs, rfl, l, hl, hm⟩
    refine ⟨s, hs, ?_⟩
    rw [Bool.and_eq_true, hl]
    exact ⟨List.contains_iff_mem.2 ha, List.contains_iff_mem.2 hm⟩

/-- one round adds exactly the stored ids that some already-seen id points to -/
theorem mem_reachStep (K : Cx) (seen : List Nat) (x : Nat) :
    x ∈ reachStep K seen ↔
      x ∈ seen ∨ ((∃ t ∈ K.cells, t.id = x) ∧ ∃ a ∈ seen, PointsTo K a x) := by
  rw [reachStep_eq, mem_addIds]
  refine or_congr Iff.rfl ?_
  constructor
  · rintro ⟨c, hc, rfl, hp⟩
    exact ⟨⟨c, hc, rfl⟩, (joins_iff K seen c).1 hp⟩
  · rintro ⟨⟨c, hc, rfl⟩, hp⟩
    exact ⟨c, hc, rfl, (joins_iff K seen c).2 hp⟩

theorem reachStep_suffix (K : Cx) (seen : List Nat) : seen <:+ reachStep K seen :=
  addIds_suffix _ _ _

theorem reachStep_nodup (K : Cx) (seen : List Nat) (h : seen.Nodup) : (reachStep K seen).Nodup :=
  nodup_addIds _ _ _ h

theorem reachStep_length_le (K : Cx) (seen : List Nat) :
    seen.length ≤ (reachStep K seen).length :=
  (reachStep_suffix K seen).length_le

theorem reachStep_eq_of_length (K : Cx) (seen : List Nat)
    (h : (reachStep K seen).length = seen.length) : reachStep K seen = seen :=
  ((reachStep_suffix K seen).eq_of_length h.symm).symm

theorem reachStep_subset_ids (K : Cx) (seen : List Nat) (h : ∀ x ∈ seen, x ∈ cellIds K) :
    ∀ x ∈ reachStep K seen, x ∈ cellIds K := by
  intro x hx
  rcases (mem_reachStep K seen x).1 hx with hx | ⟨hx, _⟩
  · exact h x hx
  · exact mem_cellIds.2 hx

/-! ### the fuelled iteration -/

theorem reachFuel_zero (K : Cx) (seen : List Nat) : reachFuel K 0 seen = seen := rfl

theorem reachFuel_succ (K : Cx) (f : Nat) (seen : List Nat) :
    reachFuel K (f + 1) seen =
      if (reachStep K seen).length == seen.length then seen else reachFuel K f (reachStep K seen) :=
  rfl

/-- anything preserved by a round holds of the result -/
theorem reachFuel_induct (K : Cx) (P : List Nat → Prop) (hstep : ∀ s, P s → P (reachStep K s))
    (f : Nat) (seen : List Nat) (h : P seen) : P (reachFuel K f seen) := by
  induction f generalizing seen with
  | zero => exact h
  | succ f ih =>
    rw [reachFuel_succ]
    split
    · exact h
    · exact ih _ (hstep _ h)

/-- `seen` survives (as a suffix) -/
theorem reachFuel_suffix (K : Cx) (f : Nat) (seen : List Nat) : seen <:+ reachFuel K f seen := by
  induction f generalizing seen with
  | zero => exact List.suffix_refl _
  | succ f ih =>
    rw [reachFuel_succ]
    split
    · exact List.suffix_refl _
    · exact (reachStep_suffix K seen).trans (ih _)

/-- each productive round adds an id, a duplicate-free list of stored ids has at most
`cells.length` entries, so with `cells.length < seen.length + fuel` the iteration stops at a
fixpoint of `reachStep` -/
theorem reachFuel_fixpoint (K : Cx) (f : Nat) (seen : List Nat) (hnd : seen.Nodup)
    (hs : ∀ x ∈ seen, x ∈ cellIds K) (hf : K.cells.length < seen.length + f) :
    reachStep K (reachFuel K f seen) = reachFuel K f seen := by
  induction f generalizing seen with
  | zero =>
    have := nodup_subset_length_le hnd hs
    rw [cellIds_length] at this
    omega
  | succ f ih =>
    rw [reachFuel_succ]
    split
    · rename_i h
      exact reachStep_eq_of_length K seen (by simpa using h)
    · rename_i h
      have hlt : seen.length < (reachStep K seen).length := by
        have := reachStep_length_le K seen
        have hne : (reachStep K seen).length ≠ seen.length := by simpa using h
        omega
      exact ih _ (reachStep_nodup K seen hnd) (reachStep_subset_ids K seen hs) (by omega)

/-- a fixpoint of `reachStep` is closed under `PointsTo` (towards stored ids), hence under `Reach` -/
theorem reach_mem_of_fixpoint (K : Cx) (R : List Nat) (hfix : reachStep K R = R) {a d : Nat}
    (ha : a ∈ R) (hr : Reach K a d) : d ∈ R := by
  induction hr with
  | refl => exact ha
  | step _ hp ht ih =>
    rw [← hfix]
    exact (mem_reachStep K R _).2 (Or.inr ⟨ht, _, ih, hp⟩)

theorem Reach.trans {K : Cx} {a b c : Nat} (h1 : Reach K a b) (h2 : Reach K b c) : Reach K a c := by
  induction h2 with
  | refl => exact h1
  | step _ hp ht ih => exact Reach.step ih hp ht

end DM
