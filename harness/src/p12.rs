//! C12 — predicates vs exact sign (K1).
use crate::common::{catch, hxs, Out, Rng};
use crate::gens;
use crate::Cfg;
use delaunay::geometry::kernel::{FastKernel, Kernel, RobustKernel};
use delaunay::geometry::point::Point;
use delaunay::geometry::predicates::{insphere, insphere_distance, insphere_lifted, InSphere};
use delaunay::geometry::traits::coordinate::Coordinate;

fn tok(r: Result<i32, String>) -> String {
    match r {
        Ok(v) => v.to_string(),
        Err(_) => "err".into(),
    }
}
fn ins(r: InSphere) -> i32 {
    match r {
        InSphere::INSIDE => 1,
        InSphere::BOUNDARY => 0,
        InSphere::OUTSIDE => -1,
    }
}

fn one<const D: usize>(id: &str, fam: &str, s: &[Vec<f64>], q: &[f64], out: &mut Out) {
    let sp: Vec<Point<f64, D>> = s.iter().map(|p| Point::new(gens::arr::<D>(p))).collect();
    let qp: Point<f64, D> = Point::new(gens::arr::<D>(q));
    let fk = FastKernel::<f64>::new();
    let rk = RobustKernel::<f64>::new();
    out.case(id, "pred", &format!("D={D} fam={fam}"));
    for p in s {
        out.line(&format!("p {}", hxs(p)));
    }
    out.line(&format!("q {}", hxs(q)));
    let c = |f: &dyn Fn() -> Result<i32, String>| -> String {
        match crate::common::catch(|| f()) {
            Ok(r) => tok(r),
            Err(m) => format!("panic:{m}"),
        }
    };
    out.obs("orient_fast", &c(&|| Kernel::<D>::orientation(&fk, &sp).map_err(|e| e.to_string())));
    out.obs("orient_robust", &c(&|| Kernel::<D>::orientation(&rk, &sp).map_err(|e| e.to_string())));
    out.obs("insphere_fast", &c(&|| Kernel::<D>::in_sphere(&fk, &sp, &qp).map_err(|e| e.to_string())));
    out.obs("insphere_robust", &c(&|| Kernel::<D>::in_sphere(&rk, &sp, &qp).map_err(|e| e.to_string())));
    out.obs("insphere_std", &c(&|| insphere(&sp, qp).map(ins).map_err(|e| e.to_string())));
    out.obs("insphere_lifted", &c(&|| insphere_lifted(&sp, qp).map(ins).map_err(|e| e.to_string())));
    out.obs("insphere_distance", &c(&|| insphere_distance(&sp, qp).map(ins).map_err(|e| e.to_string())));
    // the documented in-sphere matrix [p | |p|^2 | 1] (query last) through the PUBLIC determinant:
    // when the exact determinant is zero this value IS the rounding error of the evaluation
    {
        use delaunay::geometry::matrix::{determinant, Matrix};
        let mut rows: Vec<Vec<f64>> = Vec::new();
        for p in s.iter().chain(std::iter::once(&q.to_vec())) {
            let mut r: Vec<f64> = p.clone();
            r.push(p.iter().map(|x| x * x).sum::<f64>());
            r.push(1.0);
            rows.push(r);
        }
        macro_rules! det_n { ($n:literal) => {{ let mut m = Matrix::<$n>::zero(); for i in 0..$n { for j in 0..$n { let _ = m.set(i, j, rows[i][j]); } } crate::common::catch(|| determinant(&m)) }}; }
        let dv = match D { 2 => det_n!(4), 3 => det_n!(5), 4 => det_n!(6), _ => det_n!(7) };
        if let Ok(v) = dv { out.obs("ins_noise", &crate::common::hx(v)); }
    }
    out.end();
}

fn tuples_exhaustive(d: usize, pts: &[Vec<f64>], fam: &str, limit: usize, rng: &mut Rng, out: &mut Out, cnt: &mut usize) {
    // all ordered choices would be too many: all (d+1)-subsets (in index order) x every query point,
    // subsampled to `limit` by a stride derived from the PRNG
    let n = pts.len();
    let mut idx: Vec<usize> = (0..d + 1).collect();
    let mut all: Vec<Vec<usize>> = Vec::new();
    loop {
        all.push(idx.clone());
        let k = d + 1;
        let mut i = k;
        let mut done = true;
        while i > 0 {
            i -= 1;
            if idx[i] != i + n - k {
                idx[i] += 1;
                for j in i + 1..k {
                    idx[j] = idx[j - 1] + 1;
                }
                done = false;
                break;
            }
        }
        if done {
            break;
        }
    }
    let total = all.len() * n;
    let keep_every = (total / limit.max(1)).max(1);
    let mut t = rng.below(keep_every as u64) as usize;
    for sub in &all {
        for qi in 0..n {
            t += 1;
            if t % keep_every != 0 {
                continue;
            }
            let s: Vec<Vec<f64>> = sub.iter().map(|&i| pts[i].clone()).collect();
            *cnt += 1;
            let id = format!("x{cnt}");
            match d {
                2 => one::<2>(&id, fam, &s, &pts[qi], out),
                3 => one::<3>(&id, fam, &s, &pts[qi], out),
                4 => one::<4>(&id, fam, &s, &pts[qi], out),
                _ => one::<5>(&id, fam, &s, &pts[qi], out),
            }
        }
    }
}


/// K1 on the tolerance formula itself: `adaptive_tolerance(matrix, base)` against the exact
/// `base + 1e-12 * max row sum` (constant-one last column excluded) computed in Lean
fn tol_case<const K: usize>(id: &str, rows: &[Vec<f64>], base: f64, out: &mut Out) {
    use delaunay::geometry::matrix::{adaptive_tolerance, Matrix};
    let mut m = Matrix::<K>::zero();
    for i in 0..K { for j in 0..K { let _ = m.set(i, j, rows[i][j]); } }
    let t = catch(|| adaptive_tolerance(&m, base));
    let dv = catch(|| delaunay::geometry::matrix::determinant(&m));
    out.case(id, "tol", &format!("k={K}"));
    for r in rows { out.line(&format!("mr {}", hxs(r))); }
    out.line(&format!("base {}", crate::common::hx(base)));
    match t { Ok(v) => out.obs("tol", &crate::common::hx(v)), Err(m) => out.obs("tol", &format!("panic:{m}")) }
    match dv { Ok(v) => out.obs("det", &crate::common::hx(v)), Err(m) => out.obs("det", &format!("panic:{m}")) }
    out.end();
}

fn tol_cases(rng: &mut Rng, out: &mut Out, n: usize) {
    for i in 0..n {
        let k = 2 + (i % 6);
        let fam = rng.below(7);
        let mut rows: Vec<Vec<f64>> = Vec::new();
        let big_row = rng.below(k as u64) as usize;
        if fam >= 5 {
            // mixed scales: a (row-permuted) triangular matrix with large diagonal entries 2^6..2^11
            // and ONE tiny diagonal entry 2^-30..2^-46 - the determinant is their product, far above
            // any tolerance, while one LU pivot is tiny
            let tiny_at = rng.below(k as u64) as usize;
            let j = 30 + rng.below(17) as i32;
            for r in 0..k {
                let mut row = vec![0.0f64; k];
                for c in 0..k {
                    if c == r { row[c] = if r == tiny_at { 2f64.powi(-j) } else { 2f64.powi(6 + rng.below(6) as i32) * if rng.chance(1, 2) { -1.0 } else { 1.0 } }; }
                    else if c > r && fam == 6 && r != tiny_at { row[c] = rng.range(-3, 3) as f64; }
                }
                rows.push(row);
            }
            if rng.chance(1, 2) { rng.shuffle(&mut rows); }
        } else {
        for r in 0..k {
            let mut row: Vec<f64> = (0..k).map(|_| rng.range(-9, 9) as f64 * [1.0, 0.5, 0.125][rng.below(3) as usize]).collect();
            // one row dominates the norm (any row, including the last: the query-point row)
            if r == big_row || (fam == 3 && r == k - 1) { for x in row.iter_mut() { *x *= [64.0, 4096.0, 1048576.0][rng.below(3) as usize]; } }
            match fam {
                0 | 3 => row[k - 1] = 1.0,                         // constant-one last column
                1 => row[k - 1] = if r == 0 { 1.0 + 4.0 * f64::EPSILON } else { 1.0 },   // almost
                2 => row[k - 1] = 1.0 + f64::EPSILON * (r % 2) as f64,                   // within EPSILON
                _ => {}
            }
            rows.push(row);
        }
        }
        let base = [1e-15, 1e-12, 0.0][rng.below(3) as usize];
        let id = format!("t{i}");
        match k { 2 => tol_case::<2>(&id, &rows, base, out), 3 => tol_case::<3>(&id, &rows, base, out), 4 => tol_case::<4>(&id, &rows, base, out),
                  5 => tol_case::<5>(&id, &rows, base, out), 6 => tol_case::<6>(&id, &rows, base, out), _ => tol_case::<7>(&id, &rows, base, out) }
    }
}

pub fn run(cfg: &Cfg, rng: &mut Rng, out: &mut Out) {
    let thorough = cfg.tier == "thorough";
    tol_cases(&mut rng.fork(), out, if thorough { 3000 } else { 600 });
    let mut cnt = 0usize;
    // 1. exhaustive-ish tiny grids, D=2 ({0,1,2}^2: all 84 triples x 9 queries), D=3 ({0,1}^3 ∪ extras)
    let g2 = gens::to_f(&gens::full_grid(2, 3), 1.0, 0.0);
    tuples_exhaustive(2, &g2, "grid2_3", 100_000, rng, out, &mut cnt);
    let mut g3i = gens::full_grid(3, 2);
    g3i.push(vec![2, 1, 0]);
    g3i.push(vec![1, 2, 2]);
    let g3 = gens::to_f(&g3i, 1.0, 0.0);
    tuples_exhaustive(3, &g3, "grid3_2", if thorough { 100_000 } else { 1200 }, rng, out, &mut cnt);
    // the same lattices AWAY from the origin (shifted by -3): exactly cocircular / cospherical
    // configurations whose LU elimination is not exact (thirds appear), so that the floating
    // determinant is rounding noise and only the tolerance band turns it into BOUNDARY
    let g2n = gens::to_f(&gens::full_grid(2, 4), 1.0, -3.0);
    tuples_exhaustive(2, &g2n, "grid2_4_neg", if thorough { 100_000 } else { 9000 }, rng, out, &mut cnt);
    let g3n = gens::to_f(&gens::full_grid(3, 3), 1.0, -3.0);
    tuples_exhaustive(3, &g3n, "grid3_3_neg", if thorough { 60_000 } else { 3000 }, rng, out, &mut cnt);
    if thorough {
        let g2b = gens::to_f(&gens::full_grid(2, 4), 1.0, 0.0);
        tuples_exhaustive(2, &g2b, "grid2_4", 100_000, rng, out, &mut cnt);
        let g3b = gens::to_f(&gens::full_grid(3, 3), 1.0, 0.0);
        tuples_exhaustive(3, &g3b, "grid3_3", 60_000, rng, out, &mut cnt);
        let g4 = gens::to_f(&gens::full_grid(4, 2), 1.0, 0.0);
        tuples_exhaustive(4, &g4, "grid4_2", 30_000, rng, out, &mut cnt);
    }
    // 2. random tuples, D 2..5, several scales, with all/sampled permutations of the simplex
    let nrand = if thorough { 6000 } else { 500 };
    for i in 0..nrand {
        let d = 2 + (i % 4);
        let r = [3i64, 8, 30, 200, 1000][rng.below(5) as usize];
        let (sc, sh, fam): (f64, f64, &str) = match rng.below(6) {
            0 => (0.5, 0.0, "rand_half"),
            1 => (0.0009765625, 0.0, "rand_2^-10"),
            2 => (1.0, 4096.0, "rand_offset"),
            3 => (1048576.0, 0.0, "rand_2^20"),
            _ => (1.0, 0.0, "rand_int"),
        };
        let pts = gens::random_grid(rng, d, d + 2, r);
        if pts.len() < d + 2 {
            continue;
        }
        let f = gens::to_f(&pts, sc, sh);
        let (s, q) = f.split_at(d + 1);
        let mut s: Vec<Vec<f64>> = s.to_vec();
        // query variants: random point, a simplex vertex, exactly cospherical reflection
        let q = if rng.chance(1, 10) { s[rng.below((d + 1) as u64) as usize].clone() } else { q[0].clone() };
        let nperm = if thorough { 4 } else { 2 };
        for k in 0..nperm {
            cnt += 1;
            let id = format!("r{cnt}");
            match d {
                2 => one::<2>(&id, fam, &s, &q, out),
                3 => one::<3>(&id, fam, &s, &q, out),
                4 => one::<4>(&id, fam, &s, &q, out),
                _ => one::<5>(&id, fam, &s, &q, out),
            }
            // next permutation: a random transposition (odd) or a 3-cycle (even), alternating
            if k % 2 == 0 {
                let a = rng.below((d + 1) as u64) as usize;
                let b = (a + 1 + rng.below(d as u64) as usize) % (d + 1);
                s.swap(a, b);
            } else {
                rng.shuffle(&mut s);
            }
        }
    }
}
