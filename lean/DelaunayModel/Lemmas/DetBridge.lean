/-
Lemmas/DetBridge.lean — the list-based Laplace determinant `DM.det` of Model/Det.lean *is*
Mathlib's `Matrix.det`, and the consequences the proofs about the Delaunay predicates need:

* `detN_rowsOf`, `det_rowsOf`, `det_eq_matrix_det`  — the bridge;
* `det_swap`, `det_perm`, `det_perm_sign`, `det_reindex`, `det_dup_zero` — row operations on square lists of rows;
* `orientDet_swap`, `insphereDet_swap`, `insphereSign_swap`, `insphereSign_perm`,
  `orientSign_perm`, `k2_symmetric`, `k2_symmetric_sign` — the geometric predicates.

Helper lemmas live in Lemmas/DetAux.lean.
-/
import Mathlib.LinearAlgebra.Matrix.Determinant.Basic
import DelaunayModel.Model.Det
import DelaunayModel.Lemmas.DetAux

namespace DM

/-! ## 1. The bridge -/

/-- **Bridge.**  The list-based Laplace expansion computes Mathlib's determinant. -/
theorem detN_rowsOf : ∀ (n : Nat) (M : Matrix (Fin n) (Fin n) ℤ), detN n (rowsOf M) = M.det
  | 0, M => by simp [detN]
  | n + 1, M => by
    rw [rowsOf_succ]
    simp only [detN]
    rw [sumRange_eq_sum_fin, Matrix.det_succ_row_zero]
    apply Finset.sum_congr rfl
    intro j _
    rw [paritySign_eq, map_eraseIdx_rowsOf, detN_rowsOf n]
    have hj : (List.ofFn fun k => M 0 k).getD (j : Nat) 0 = M 0 j := by
      rw [getD_of_lt _ (by rw [List.length_ofFn]; exact j.isLt)]
      simp only [List.getElem_ofFn]
    rw [hj]
    rfl

theorem det_rowsOf {n : Nat} (M : Matrix (Fin n) (Fin n) ℤ) : det (rowsOf M) = M.det := by
  rw [det, length_rowsOf, detN_rowsOf]

/-! ### square lists of rows -/

/-- `rows` is an `n × n` matrix: `n` rows, each of length `n`. -/
def Square (n : Nat) (rows : List (List Int)) : Prop :=
  rows.length = n ∧ ∀ r ∈ rows, r.length = n

instance (n : Nat) (rows : List (List Int)) : Decidable (Square n rows) := by
  unfold Square; infer_instance

/-- the `n × m` matrix read off a list of rows (out-of-range entries are `0`) -/
def matOf (n m : Nat) (rows : List (List Int)) : Matrix (Fin n) (Fin m) ℤ :=
  Matrix.of fun i j => (rows.getD i []).getD j 0

theorem matOf_apply (n m : Nat) (rows : List (List Int)) (i : Fin n) (j : Fin m) :
    matOf n m rows i j = (rows.getD i []).getD j 0 := rfl

theorem rowsOf_matOf {n m : Nat} {rows : List (List Int)}
    (hl : rows.length = n) (hr : ∀ r ∈ rows, r.length = m) : rowsOf (matOf n m rows) = rows := by
  apply List.ext_getElem
  · simp [hl]
  · intro i h1 h2
    have hri : rows[i].length = m := hr _ (List.getElem_mem h2)
    apply List.ext_getElem
    · simp [rowsOf, hri]
    · intro j h3 h4
      simp only [rowsOf, List.getElem_ofFn, matOf_apply]
      rw [getD_of_lt _ h2, getD_of_lt _ h4]

theorem matOf_rowsOf {n m : Nat} (M : Matrix (Fin n) (Fin m) ℤ) : matOf n m (rowsOf M) = M := by
  ext i j
  have h1 : (i : Nat) < (rowsOf M).length := by rw [length_rowsOf]; exact i.isLt
  have h2 : (rowsOf M)[(i : Nat)] = List.ofFn (fun j => M i j) := by
    simp only [rowsOf, List.getElem_ofFn]
  rw [matOf_apply, getD_of_lt _ h1, h2]
  rw [getD_of_lt _ (by rw [List.length_ofFn]; exact j.isLt)]
  simp only [List.getElem_ofFn]

/-- **Bridge, list form.**  For a square list of rows, `DM.det` is the Mathlib determinant of
the matrix `(i, j) ↦ rows[i][j]`. -/
theorem det_eq_matrix_det {n : Nat} {rows : List (List Int)} (h : Square n rows) :
    det rows = (matOf n n rows).det := by
  conv_lhs => rw [← rowsOf_matOf h.1 h.2]
  exact det_rowsOf _

theorem Square.perm {n : Nat} {rows rows' : List (List Int)} (h : Square n rows)
    (hp : rows.Perm rows') : Square n rows' :=
  ⟨hp.length_eq ▸ h.1, fun r hr => h.2 r (hp.mem_iff.mpr hr)⟩


theorem Square.swapAt {n : Nat} {rows : List (List Int)} (h : Square n rows) (i j : Nat) :
    Square n (swapAt rows i j) :=
  ⟨by rw [length_swapAt]; exact h.1, fun r hr => h.2 r (mem_of_mem_swapAt hr)⟩

/-! ## 2. Row operations on square lists of rows -/

theorem val_swap {n : Nat} (a b p : Fin n) :
    ((Equiv.swap a b p : Fin n) : Nat) =
      if (p : Nat) = a then (b : Nat) else if (p : Nat) = b then (a : Nat) else p := by
  rw [Equiv.swap_apply_def]
  simp only [Fin.ext_iff]
  split_ifs <;> rfl

theorem matOf_swapAt {n m : Nat} (rows : List (List Int)) (hl : rows.length = n) {i j : Nat}
    (hi : i < n) (hj : j < n) :
    matOf n m (swapAt rows i j) =
      (matOf n m rows).submatrix (Equiv.swap (⟨i, hi⟩ : Fin n) ⟨j, hj⟩) id := by
  ext p q
  simp only [matOf_apply, Matrix.submatrix_apply, id]
  congr 1
  rw [List.getD_eq_getElem?_getD, List.getD_eq_getElem?_getD,
    getElem?_swapAt rows (hl ▸ hi) (hl ▸ hj), val_swap]

/-- the reindexed list of rows `i ↦ rows[σ i]` -/
def reindexRows {n : Nat} (σ : Fin n → Fin n) (rows : List (List Int)) : List (List Int) :=
  List.ofFn fun i => rows.getD (σ i) []

theorem reindexRows_eq {n : Nat} (σ : Fin n → Fin n) {rows : List (List Int)}
    (h : Square n rows) : reindexRows σ rows = rowsOf ((matOf n n rows).submatrix σ id) := by
  have hrows := rowsOf_matOf h.1 h.2
  unfold reindexRows
  conv_lhs => rw [← hrows]
  unfold rowsOf
  congr 1
  funext i
  rw [getD_of_lt _ (by rw [List.length_ofFn]; exact (σ i).isLt)]
  simp only [List.getElem_ofFn, Matrix.submatrix_apply, id]

/-- **Precise sign.**  Reindexing the rows by a permutation `σ` multiplies `det` by `sign σ`. -/
theorem det_reindex {n : Nat} (σ : Equiv.Perm (Fin n)) {rows : List (List Int)}
    (h : Square n rows) :
    det (reindexRows σ rows) = ((Equiv.Perm.sign σ : ℤˣ) : ℤ) * det rows := by
  rw [reindexRows_eq σ h, det_rowsOf, Matrix.det_permute, det_eq_matrix_det h, Int.cast_id]

/-- Exchanging two distinct rows negates the determinant. -/
theorem det_swap {n : Nat} {rows : List (List Int)} (h : Square n rows) {i j : Nat}
    (hi : i < n) (hj : j < n) (hij : i ≠ j) : det (swapAt rows i j) = - det rows := by
  have hne : (⟨i, hi⟩ : Fin n) ≠ ⟨j, hj⟩ := fun hEq => hij (Fin.ext_iff.mp hEq)
  rw [det_eq_matrix_det (h.swapAt i j), det_eq_matrix_det h, matOf_swapAt rows h.1 hi hj,
    Matrix.det_permute, Equiv.Perm.sign_swap hne]
  simp

/-- Two equal rows at distinct positions force the determinant to vanish. -/
theorem det_dup_zero {n : Nat} {rows : List (List Int)} (h : Square n rows) {i j : Nat}
    (hi : i < rows.length) (hj : j < rows.length) (hij : i ≠ j) (heq : rows[i] = rows[j]) :
    det rows = 0 := by
  have hi' : i < n := h.1 ▸ hi
  have hj' : j < n := h.1 ▸ hj
  have hne : (⟨i, hi'⟩ : Fin n) ≠ ⟨j, hj'⟩ := fun hEq => hij (Fin.ext_iff.mp hEq)
  rw [det_eq_matrix_det h]
  apply Matrix.det_zero_of_row_eq hne
  funext q
  rw [matOf_apply, matOf_apply, getD_of_lt _ hi, getD_of_lt _ hj, heq]

/-- the relation transported along permutations in `det_perm` -/
private def DetPermRel (n : Nat) (l l' : List (List Int)) : Prop :=
  Square n l → Square n l' ∧ (det l' = det l ∨ det l' = - det l)

theorem det_perm_prefix {n : Nat} {l l' : List (List Int)} (hp : l.Perm l')
    (p : List (List Int)) (h : Square n (p ++ l)) :
    det (p ++ l') = det (p ++ l) ∨ det (p ++ l') = - det (p ++ l) := by
  have key : DetPermRel n (p ++ l) (p ++ l') := by
    refine perm_prefix_induction (R := DetPermRel n) ?_ ?_ ?_ hp p
    · intro l hl; exact ⟨hl, Or.inl rfl⟩
    · intro a b c hab hbc ha
      obtain ⟨hb, h1⟩ := hab ha
      obtain ⟨hc, h2⟩ := hbc hb
      refine ⟨hc, ?_⟩
      rcases h1 with h1 | h1 <;> rcases h2 with h2 | h2 <;> rw [h2, h1]
      · exact Or.inl rfl
      · exact Or.inr rfl
      · exact Or.inr rfl
      · exact Or.inl (neg_neg _)
    · intro p a b l hsq
      have hlen : p.length + 1 < n := by
        have := hsq.1
        simp only [List.length_append, List.length_cons] at this
        omega
      have hsw := det_swap hsq (i := p.length) (j := p.length + 1) (by omega) hlen (by omega)
      rw [swapAt_adjacent] at hsw
      refine ⟨?_, Or.inr hsw⟩
      have := hsq.swapAt p.length (p.length + 1)
      rwa [swapAt_adjacent] at this
  exact (key h).2

/-- A permutation of the rows changes the determinant at most by a sign. -/
theorem det_perm {n : Nat} {rows rows' : List (List Int)} (h : Square n rows)
    (hp : rows.Perm rows') : det rows' = det rows ∨ det rows' = - det rows := by
  simpa using det_perm_prefix hp [] (by simpa using h)

/-! ### the precise sign of a `List.Perm` -/

theorem reindexRows_one {n : Nat} {l : List (List Int)} (hl : l.length = n) :
    reindexRows (1 : Equiv.Perm (Fin n)) l = l := by
  apply List.ext_getElem
  · simp [reindexRows, hl]
  · intro k h1 h2
    simp only [reindexRows, List.getElem_ofFn, Equiv.Perm.coe_one, id]
    exact getD_of_lt _ h2

theorem reindexRows_reindexRows {n : Nat} (σ τ : Equiv.Perm (Fin n)) (l : List (List Int)) :
    reindexRows τ (reindexRows σ l) = reindexRows (σ * τ) l := by
  unfold reindexRows
  congr 1
  funext i
  rw [getD_of_lt _ (by rw [List.length_ofFn]; exact (τ i).isLt)]
  simp only [List.getElem_ofFn, Equiv.Perm.coe_mul, Function.comp_apply]

theorem swapAt_eq_reindexRows {n : Nat} {l : List (List Int)} (hl : l.length = n) {i j : Nat}
    (hi : i < n) (hj : j < n) :
    swapAt l i j = reindexRows (Equiv.swap (⟨i, hi⟩ : Fin n) ⟨j, hj⟩) l := by
  apply List.ext_getElem
  · simp [reindexRows, hl]
  · intro k h1 h2
    have hsw := getElem?_swapAt l (hl ▸ hi) (hl ▸ hj) k
    rw [List.getElem?_eq_getElem h1] at hsw
    simp only [reindexRows, List.getElem_ofFn]
    rw [List.getD_eq_getElem?_getD, val_swap]
    simp only []
    rw [← hsw]
    rfl

/-- A `List.Perm` of `n` rows is a reindexing by some `σ : Equiv.Perm (Fin n)`. -/
theorem exists_reindexRows_of_perm {n : Nat} {rows rows' : List (List Int)}
    (hl : rows.length = n) (hp : rows.Perm rows') :
    ∃ σ : Equiv.Perm (Fin n), rows' = reindexRows σ rows := by
  let R : List (List Int) → List (List Int) → Prop :=
    fun l l' => l.length = n → l'.length = n ∧ ∃ σ : Equiv.Perm (Fin n), l' = reindexRows σ l
  have key : R ([] ++ rows) ([] ++ rows') := by
    refine perm_prefix_induction (R := R) ?_ ?_ ?_ hp []
    · intro l hl; exact ⟨hl, 1, (reindexRows_one hl).symm⟩
    · intro a b c hab hbc ha
      obtain ⟨hb, σ, h1⟩ := hab ha
      obtain ⟨hc, τ, h2⟩ := hbc hb
      exact ⟨hc, σ * τ, by rw [h2, h1, reindexRows_reindexRows]⟩
    · intro p a b l hlen
      have hlen' : p.length + 1 < n := by
        simp only [List.length_append, List.length_cons] at hlen
        omega
      refine ⟨by simpa using hlen, Equiv.swap ⟨p.length, by omega⟩ ⟨p.length + 1, hlen'⟩, ?_⟩
      rw [← swapAt_eq_reindexRows hlen, swapAt_adjacent]
  exact (key hl).2

/-- **`det_perm` with the sign made explicit.** -/
theorem det_perm_sign {n : Nat} {rows rows' : List (List Int)} (h : Square n rows)
    (hp : rows.Perm rows') :
    ∃ σ : Equiv.Perm (Fin n), rows' = reindexRows σ rows ∧
      det rows' = ((Equiv.Perm.sign σ : ℤˣ) : ℤ) * det rows := by
  obtain ⟨σ, hσ⟩ := exists_reindexRows_of_perm h.1 hp
  exact ⟨σ, hσ, by rw [hσ, det_reindex σ h]⟩

/-! ## 3. Geometric predicates -/

theorem sgn_neg (x : Int) : sgn (-x) = - sgn x := by
  unfold sgn
  split_ifs <;> omega

theorem sqNorm_row_length (p : IPt) : (p ++ [sqNorm p, 1]).length = p.length + 2 := by simp

theorem square_orientRows {D : Nat} {s : List IPt} (hl : s.length = D + 1)
    (hs : ∀ p ∈ s, p.length = D) : Square (D + 1) (orientRows s) := by
  refine ⟨by simp [orientRows, hl], ?_⟩
  intro r hr
  simp only [orientRows, List.mem_map] at hr
  obtain ⟨p, hp, rfl⟩ := hr
  simp [hs p hp]

theorem square_insphereRows {D : Nat} {s : List IPt} {q : IPt} (hl : s.length = D + 1)
    (hs : ∀ p ∈ s, p.length = D) (hq : q.length = D) : Square (D + 2) (insphereRows s q) := by
  refine ⟨by simp [insphereRows, hl], ?_⟩
  intro r hr
  simp only [insphereRows, List.mem_map, List.mem_append, List.mem_singleton] at hr
  obtain ⟨p, hp, rfl⟩ := hr
  rcases hp with hp | rfl
  · simp [hs p hp]
  · simp [hq]

theorem orientRows_swapAt (s : List IPt) (i j : Nat) :
    orientRows (swapAt s i j) = swapAt (orientRows s) i j := by
  simp only [orientRows, map_swapAt]

theorem insphereRows_swapAt (s : List IPt) (q : IPt) {i j : Nat} (hi : i < s.length)
    (hj : j < s.length) : insphereRows (swapAt s i j) q = swapAt (insphereRows s q) i j := by
  simp only [insphereRows]
  rw [← swapAt_append_left s [q] hi hj, map_swapAt]

/-- Swapping two distinct vertices of a simplex negates its orientation determinant. -/
theorem orientDet_swap {D : Nat} {s : List IPt} (hl : s.length = D + 1)
    (hs : ∀ p ∈ s, p.length = D) {i j : Nat} (hi : i < D + 1) (hj : j < D + 1) (hij : i ≠ j) :
    orientDet (swapAt s i j) = - orientDet s := by
  unfold orientDet
  rw [orientRows_swapAt, det_swap (square_orientRows hl hs) hi hj hij]

/-- Swapping two distinct vertices of the simplex negates the in-sphere determinant. -/
theorem insphereDet_swap {D : Nat} {s : List IPt} {q : IPt} (hl : s.length = D + 1)
    (hs : ∀ p ∈ s, p.length = D) (hq : q.length = D) {i j : Nat} (hi : i < D + 1)
    (hj : j < D + 1) (hij : i ≠ j) :
    insphereDet (swapAt s i j) q = - insphereDet s q := by
  unfold insphereDet
  rw [insphereRows_swapAt s q (hl ▸ hi) (hl ▸ hj),
    det_swap (square_insphereRows hl hs hq) (by omega) (by omega) hij]

theorem orientSign_swap {D : Nat} {s : List IPt} (hl : s.length = D + 1)
    (hs : ∀ p ∈ s, p.length = D) {i j : Nat} (hi : i < D + 1) (hj : j < D + 1) (hij : i ≠ j) :
    orientSign (swapAt s i j) = - orientSign s := by
  unfold orientSign
  rw [orientDet_swap hl hs hi hj hij, sgn_neg]

/-- The orientation-normalised in-sphere sign does not depend on the order of two vertices. -/
theorem insphereSign_swap {D : Nat} {s : List IPt} {q : IPt} (hl : s.length = D + 1)
    (hs : ∀ p ∈ s, p.length = D) (hq : q.length = D) {i j : Nat} (hi : i < D + 1)
    (hj : j < D + 1) (hij : i ≠ j) :
    insphereSign (swapAt s i j) q = insphereSign s q := by
  unfold insphereSign
  rw [insphereDet_swap hl hs hq hi hj hij, orientSign_swap hl hs hi hj hij, sgn_neg, neg_mul_neg]

/-- well-formed simplex in dimension `D`: `D + 1` points with `D` coordinates each -/
def Simplex (D : Nat) (s : List IPt) : Prop := s.length = D + 1 ∧ ∀ p ∈ s, p.length = D

instance (D : Nat) (s : List IPt) : Decidable (Simplex D s) := by
  unfold Simplex; infer_instance

theorem Simplex.perm {D : Nat} {s s' : List IPt} (h : Simplex D s) (hp : s.Perm s') :
    Simplex D s' :=
  ⟨hp.length_eq ▸ h.1, fun r hr => h.2 r (hp.mem_iff.mpr hr)⟩

/-- `insphereSign` is invariant under any permutation of the simplex vertices. -/
theorem insphereSign_perm {D : Nat} {s s' : List IPt} {q : IPt} (hl : s.length = D + 1)
    (hs : ∀ p ∈ s, p.length = D) (hq : q.length = D) (hp : s.Perm s') :
    insphereSign s' q = insphereSign s q := by
  let R : List IPt → List IPt → Prop :=
    fun l l' => Simplex D l → Simplex D l' ∧ insphereSign l' q = insphereSign l q
  have key : R ([] ++ s) ([] ++ s') := by
    refine perm_prefix_induction (R := R) ?_ ?_ ?_ hp []
    · intro l hl; exact ⟨hl, rfl⟩
    · intro a b c hab hbc ha
      obtain ⟨hb, h1⟩ := hab ha
      obtain ⟨hc, h2⟩ := hbc hb
      exact ⟨hc, h2.trans h1⟩
    · intro p a b l hsx
      have hlen : p.length + 1 < D + 1 := by
        have := hsx.1
        simp only [List.length_append, List.length_cons] at this
        omega
      have hsw := insphereSign_swap (q := q) hsx.1 hsx.2 hq (i := p.length) (j := p.length + 1)
        (by omega) hlen (by omega)
      rw [swapAt_adjacent] at hsw
      refine ⟨hsx.perm ?_, hsw⟩
      exact List.Perm.append_left p (List.Perm.swap b a l)
  exact (key ⟨hl, hs⟩).2

/-- `orientSign` changes at most by a sign under a permutation of the simplex vertices. -/
theorem orientSign_perm {D : Nat} {s s' : List IPt} (hl : s.length = D + 1)
    (hs : ∀ p ∈ s, p.length = D) (hp : s.Perm s') :
    orientSign s' = orientSign s ∨ orientSign s' = - orientSign s := by
  have h := det_perm (square_orientRows hl hs) (hp.map (fun p => p ++ [1]))
  unfold orientSign orientDet
  change det (orientRows s') = det (orientRows s) ∨ det (orientRows s') = - det (orientRows s) at h
  rcases h with h | h
  · exact Or.inl (by rw [h])
  · exact Or.inr (by rw [h, sgn_neg])

/-- **K2 symmetry, determinant form.**  For a facet `F` (`D` points) and two apexes `a`, `b`:
the in-sphere matrices of `(F ++ [a], b)` and `(F ++ [b], a)` differ by one row swap. -/
theorem k2_symmetric {D : Nat} {F : List IPt} {a b : IPt} (hF : F.length = D)
    (hFd : ∀ p ∈ F, p.length = D) (ha : a.length = D) (hb : b.length = D) :
    insphereDet (F ++ [a]) b = - insphereDet (F ++ [b]) a := by
  have hl : (F ++ [b]).length = D + 1 := by simp [hF]
  have hs : ∀ p ∈ F ++ [b], p.length = D := by
    intro p hp
    rcases List.mem_append.mp hp with hp | hp
    · exact hFd p hp
    · rw [List.mem_singleton.mp hp]; exact hb
  have hsq := square_insphereRows hl hs ha
  have hrows : insphereRows (F ++ [a]) b = swapAt (insphereRows (F ++ [b]) a) D (D + 1) := by
    unfold insphereRows
    rw [← map_swapAt]
    congr 1
    have := swapAt_adjacent F b a []
    rw [hF] at this
    simp only [List.append_assoc, List.cons_append, List.nil_append]
    exact this.symm
  unfold insphereDet
  rw [hrows, det_swap hsq (by omega) (by omega) (by omega)]

/-- **K2 symmetry, sign form.**  If the two cells `F ++ [a]` and `F ++ [b]` are oppositely
oriented (apexes on opposite sides of `F`, or both degenerate), then "`b` is inside the
circumsphere of `F ++ [a]`" and "`a` is inside the circumsphere of `F ++ [b]`" agree. -/
theorem k2_symmetric_sign {D : Nat} {F : List IPt} {a b : IPt} (hF : F.length = D)
    (hFd : ∀ p ∈ F, p.length = D) (ha : a.length = D) (hb : b.length = D)
    (ho : orientSign (F ++ [a]) = - orientSign (F ++ [b])) :
    insphereSign (F ++ [a]) b = insphereSign (F ++ [b]) a := by
  unfold insphereSign
  rw [k2_symmetric hF hFd ha hb, ho, sgn_neg, neg_mul_neg]

end DM
