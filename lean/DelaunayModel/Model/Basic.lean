/-
Model/Basic.lean — number representation shared by every model module.

Every finite f64 is a dyadic rational `m * 2^e`.  The harness sends coordinates as 16-hex-digit
bit patterns; `F64.ofBits` decodes them exactly (no `Float` anywhere).  A case is then scaled by
one common power of two so that all coordinates are integers (`scaleInts`), determinants are
integers, and their signs are exact.

Imports nothing outside core so that the driver links as a `lean_exe`.
-/
namespace DM

/-! ### small list helpers (kept here so model files stay import-free) -/

/-- `Σ_{j<k} f j` by structural recursion (easy to reason about, kernel-reducible). -/
def sumRange (f : Nat → Int) : Nat → Int
  | 0 => 0
  | k+1 => sumRange f k + f k

def listMin (l : List Int) (d : Int) : Int := l.foldl (fun a b => if b < a then b else a) d
def listMax (l : List Int) (d : Int) : Int := l.foldl (fun a b => if a < b then b else a) d

def sgn (x : Int) : Int := if x > 0 then 1 else if x < 0 then -1 else 0

def iabs (x : Int) : Int := if x < 0 then -x else x

def pow2 (k : Nat) : Int := (2 : Int) ^ k

/-! ### dyadic numbers -/

/-- `m * 2^e`. -/
structure Dy where
  m : Int
  e : Int
  deriving Repr, BEq, DecidableEq, Inhabited

namespace Dy

def zero : Dy := ⟨0, 0⟩

/-- Strip at most `fuel` trailing zero bits of the mantissa (53 suffices for an f64). -/
def norm (d : Dy) (fuel : Nat := 64) : Dy :=
  match fuel with
  | 0 => d
  | f+1 => if d.m == 0 then ⟨0, 0⟩ else if d.m % 2 == 0 then norm ⟨d.m / 2, d.e + 1⟩ f else d

/-- Integer value of `d * 2^(-emin)`, assuming `emin ≤ d.e` (or `d.m = 0`). -/
def scaled (d : Dy) (emin : Int) : Int :=
  if d.m == 0 then 0 else d.m * pow2 (d.e - emin).toNat

end Dy

/-! ### decoding IEEE-754 binary64 bit patterns -/

inductive F64 where
  | fin (d : Dy)
  | nan
  | inf (neg : Bool)
  deriving Repr, BEq, Inhabited

namespace F64

def ofBits (b : Nat) : F64 :=
  let sign : Nat := b / 2^63 % 2
  let ex : Nat := (b / 2^52) % 2048
  let fr : Nat := b % 2^52
  if ex == 2047 then (if fr == 0 then .inf (sign == 1) else .nan)
  else
    let m : Int := if ex == 0 then (fr : Int) else (fr : Int) + (2^52 : Nat)
    let e : Int := if ex == 0 then -1074 else (ex : Int) - 1075
    .fin (Dy.norm ⟨if sign == 1 then -m else m, e⟩)

def isFinite : F64 → Bool
  | .fin _ => true
  | _ => false

def dy? : F64 → Option Dy
  | .fin d => some d
  | _ => none

end F64

def hexDigit (c : Char) : Option Nat :=
  if '0' ≤ c ∧ c ≤ '9' then some (c.toNat - '0'.toNat)
  else if 'a' ≤ c ∧ c ≤ 'f' then some (c.toNat - 'a'.toNat + 10)
  else if 'A' ≤ c ∧ c ≤ 'F' then some (c.toNat - 'A'.toNat + 10)
  else none

def parseHex (s : String) : Option Nat :=
  if s.isEmpty then none else
  s.toList.foldl (fun acc c => match acc, hexDigit c with
    | some a, some d => some (a * 16 + d)
    | _, _ => none) (some 0)

/-- A point: list of coordinates as dyadics. -/
abbrev DPt := List Dy
/-- A point with integer coordinates (after common scaling). -/
abbrev IPt := List Int

/-- smallest exponent over all non-zero coordinates (0 if there are none) -/
def minExp (pts : List DPt) : Int :=
  let es := (pts.flatMap id).filterMap (fun d => if d.m == 0 then none else some d.e)
  match es with
  | [] => 0
  | e :: rest => listMin rest e

def scalePts (pts : List DPt) (emin : Int) : List IPt := pts.map (·.map (·.scaled emin))

/-! ### exact rationals (num / den, den > 0) for tolerance bands -/

structure Q where
  num : Int
  den : Nat
  deriving Repr, Inhabited

namespace Q
def ofInt (n : Int) : Q := ⟨n, 1⟩
def mk' (n : Int) (d : Nat) : Q := ⟨n, if d == 0 then 1 else d⟩
def add (a b : Q) : Q := ⟨a.num * b.den + b.num * a.den, a.den * b.den⟩
def mul (a b : Q) : Q := ⟨a.num * b.num, a.den * b.den⟩
def neg (a : Q) : Q := ⟨-a.num, a.den⟩
def sub (a b : Q) : Q := add a (neg b)
def lt (a b : Q) : Bool := a.num * b.den < b.num * a.den
def le (a b : Q) : Bool := a.num * b.den ≤ b.num * a.den
def abs (a : Q) : Q := ⟨iabs a.num, a.den⟩
/-- `n * 2^e` as a rational -/
def ofDy (d : Dy) : Q := if d.e ≥ 0 then ⟨d.m * pow2 d.e.toNat, 1⟩ else ⟨d.m, 2 ^ (-d.e).toNat⟩
/-- `n * 2^k` for integer `k` -/
def scale2 (a : Q) (k : Int) : Q :=
  if k ≥ 0 then ⟨a.num * pow2 k.toNat, a.den⟩ else ⟨a.num, a.den * 2 ^ (-k).toNat⟩
instance : Add Q := ⟨add⟩
instance : Mul Q := ⟨mul⟩
instance : Sub Q := ⟨sub⟩
end Q

end DM
