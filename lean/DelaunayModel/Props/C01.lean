/-
Props/C01.lean — property theorems for C01 (a successful batch construction returns a certified
Delaunay triangulation).

What is proved (for EVERY insertion behaviour, option combination, retry count, build profile):
`build … = ok t` only if `t` passed the completion validation demanded by the guarantee and one of
the two Level-4 checks.  Together with C05 (validators = specs) and C04 (what a passing Level-4
check means) this is the reason the property holds; the insertion algorithm is a parameter and its
outputs are judged per run by `certify` (K3), whose meaning is `certify_sound`.

NOT proved (stated for visibility, see DESIGN §7 C01): local-to-global Delaunay lemma and
"L1–L3 + positive orientation ⇒ the cells tile the convex hull".
-/
import DelaunayModel.Model.Pipeline
import DelaunayModel.Model.Certify
namespace DM.C01

open DM DM.Pipeline

variable {T V : Type}

theorem innerSeeded_ok (env : Env T V) (rl : Bool) (seed : Nat) (vs : List V) (t : T)
    (h : innerSeeded env rl seed vs = .ok t) : rl = true → env.validate123 t = true := by
  unfold innerSeeded at h
  split at h
  · simp at h
  · split at h
    · simp at h
    · rename_i hcond
      injection h with h; subst h
      intro hrl; subst hrl
      simpa using hcond

theorem buildNoRetry_ok (env : Env T V) (rl : Bool) (vs : List V) (t : T)
    (h : buildNoRetry env rl vs = .ok t) :
    (rl = true → env.validate123 t = true) ∧ env.l4flip t = true := by
  unfold buildNoRetry at h
  split at h
  · simp at h
  · rename_i t' _
    split at h
    · simp at h
    · split at h
      · simp at h
      · rename_i h1 h2
        injection h with h; subst h
        constructor
        · intro hrl; subst hrl; simpa using h1
        · simpa using h2

theorem retryLoop_ok (env : Env T V) (rl : Bool) (vs : List V) (fuel i : Nat) (t : T)
    (h : retryLoop env rl vs fuel i = .ok t) :
    (rl = true → env.validate123 t = true) ∧ env.l4brute t = true := by
  induction fuel generalizing i with
  | zero => simp [retryLoop] at h
  | succ f ih =>
    unfold retryLoop at h
    simp only at h
    split at h
    · rename_i t' hin
      split at h
      · rename_i hb
        injection h with h; subst h
        exact ⟨innerSeeded_ok env rl _ _ _ hin, hb⟩
      · exact ih _ h
    · split at h
      · simp at h
      · exact ih _ h

/-- **gate theorem**: whatever the insertion algorithm does, for every retry policy, attempt
count, build profile, dimension, vertex order and fallback order: an `ok` result passed the
completion validation (when the guarantee requires it) and a Level-4 check. -/
theorem build_ok_gated (env : Env T V) (D : Nat) (rl : Bool) (retry : Retry) (debug : Bool)
    (primary : List V) (fallback : Option (List V)) (t : T)
    (h : build env D rl retry debug primary fallback = .ok t) :
    (rl = true → env.validate123 t = true) ∧ (env.l4flip t = true ∨ env.l4brute t = true) := by
  have key : ∀ vs, buildWith env D rl retry debug vs = .ok t →
      (rl = true → env.validate123 t = true) ∧ (env.l4flip t = true ∨ env.l4brute t = true) := by
    intro vs hv
    unfold buildWith at hv
    cases retry with
    | disabled =>
      have := buildNoRetry_ok env rl vs t hv
      exact ⟨this.1, Or.inl this.2⟩
    | shuffled a =>
      simp only at hv
      split at hv
      · have := retryLoop_ok env rl vs _ _ t hv
        exact ⟨this.1, Or.inr this.2⟩
      · have := buildNoRetry_ok env rl vs t hv
        exact ⟨this.1, Or.inl this.2⟩
    | debugOnlyShuffled a =>
      simp only at hv
      split at hv
      · have := retryLoop_ok env rl vs _ _ t hv
        exact ⟨this.1, Or.inr this.2⟩
      · have := buildNoRetry_ok env rl vs t hv
        exact ⟨this.1, Or.inl this.2⟩
  unfold build at h
  split at h
  · rename_i t' hp
    injection h with h; subst h
    exact key _ hp
  · split at h
    · simp at h
    · exact key _ h

/-- meaning of the per-run certificate: all five components hold -/
theorem certify_sound (K : Cx) (g : Guarantee) (h : (certify K g).ok = true) :
    checkL1 K = true ∧ checkL2 K = true ∧ checkL3 K g true = true ∧
    emptySphere K = true ∧ convexBoundary K = true := by
  simp only [Certificate.ok, certify, Bool.and_eq_true] at h
  obtain ⟨⟨⟨⟨h1, h2⟩, h3⟩, h4⟩, h5⟩ := h
  exact ⟨h1, h2, h3, h4, h5⟩

/-- the brute-force Delaunay set is, by definition, the (D+1)-subsets that are non-degenerate and
have every other point strictly outside their circumsphere -/
theorem bruteDT_mem (D : Nat) (vp : List (Nat × IPt)) (S : List Nat) :
    S ∈ bruteDT D vp ↔
      S ∈ subsetsK (D + 1) (sortNat (vp.map (·.1))) ∧
      (match S.mapM (fun i => vp.lookup i) with
       | none => false
       | some s => orientSign s != 0 &&
           vp.all (fun (vid, p) => S.contains vid || insphereSign s p < 0)) = true := by
  unfold bruteDT
  rw [List.mem_filter]
  exact Iff.rfl

/-- non-vacuity: an environment whose attempts succeed with a candidate passing all gates
makes `build` return it (the premises of `build_ok_gated` are satisfiable) -/
example : build (T := Nat) (V := Nat)
    { attempt := fun _ _ => .ok 7, validate123 := fun _ => true, l4flip := fun _ => true,
      l4brute := fun _ => true, shuffle := fun _ v => v, deterministicErr := fun _ => false }
    3 true (.shuffled 2) true [1,2,3,4,5,6] none = .ok 7 := by rfl

/-- non-vacuity of the retry path: first candidate fails the brute-force gate, the second passes -/
example : build (T := Nat) (V := Nat)
    { attempt := fun seed _ => .ok seed, validate123 := fun _ => true, l4flip := fun _ => false,
      l4brute := fun t => t == 1, shuffle := fun _ v => v, deterministicErr := fun _ => false }
    3 true (.shuffled 2) true [1,2,3,4,5,6] none = .ok 1 := by rfl

end DM.C01
