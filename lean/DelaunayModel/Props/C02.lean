/-
Props/C02.lean — property theorems for C02 (incremental insertion never leaves the validity
stack broken).

 * `selectCheck_*`: the validation chosen after an insertion, as a function of
   (ValidationPolicy, TopologyGuarantee, suspicion, build profile), is the documented table; in
   particular under PLManifold / PLManifoldStrict an insertion that produced cells is NEVER
   committed unchecked, and under `Always` the full Level 3 runs.
 * `safetyNet_ok_checked`: whatever `try_insert_impl` does (it is a parameter), a state returned
   by the safety net has no cells (bootstrap) or passed the selected check — star-split fallback
   included.
 * `insert_commit_or_restore`: `insert_transactional` either commits such a state or leaves the
   snapshot in place (Skipped and Err alike), for every number of perturbation retries.
Modelled, not verified: the cavity / hull-extension / star-split geometry (`Env.impl`).  Under
`ValidationPolicy::Never` + `Pseudomanifold` no check runs (`selectCheck_never_pseudo`); there the
property rests on the algorithm alone and only the K3 tie speaks.
-/
import DelaunayModel.Model.Insert
namespace DM.C02

open DM.Policy DM.Insert

/-- the whole decision table, stated outright -/
theorem selectCheck_table (p : VPolicy) (g : Guarantee) (susp debug hasCells : Bool) :
    selectCheck p g susp debug hasCells =
      if !hasCells then Check.none
      else if p.shouldValidate susp debug then Check.full
      else match g with
        | .plManifoldStrict => Check.linksStrict
        | .plManifold => Check.links
        | .pseudomanifold => Check.none := by
  cases g <;> cases p <;> cases susp <;> cases debug <;> cases hasCells <;> rfl

theorem selectCheck_always (g : Guarantee) (susp debug : Bool) :
    selectCheck .always g susp debug true = .full := by
  cases g <;> cases susp <;> cases debug <;> rfl

/-- PL guarantees are non-negotiable: some check always runs once there are cells -/
theorem selectCheck_pl_never_none (p : VPolicy) (g : Guarantee) (susp debug : Bool)
    (hg : g ≠ .pseudomanifold) : selectCheck p g susp debug true ≠ .none := by
  cases g <;> cases p <;> cases susp <;> cases debug <;> simp_all [selectCheck, VPolicy.shouldValidate,
    Guarantee.requiresVertexLinksDuringInsertion, Guarantee.requiresRidgeLinks]

theorem selectCheck_strict (p : VPolicy) (susp debug : Bool) :
    selectCheck p .plManifoldStrict susp debug true = .full ∨
    selectCheck p .plManifoldStrict susp debug true = .linksStrict := by
  cases p <;> cases susp <;> cases debug <;> simp [selectCheck, VPolicy.shouldValidate,
    Guarantee.requiresVertexLinksDuringInsertion]

/-- the one combination in which nothing is validated -/
theorem selectCheck_never_pseudo (susp debug : Bool) :
    selectCheck .never .pseudomanifold susp debug true = .none := by
  cases susp <;> cases debug <;> rfl

theorem selectCheck_suspicious (g : Guarantee) (debug : Bool) :
    selectCheck .onSuspicion g true debug true = .full := by
  cases g <;> cases debug <;> rfl

/-- setters refuse exactly `Never` under a PL guarantee -/
theorem compatible_table (g : Guarantee) (p : VPolicy) :
    g.compatibleWith p = false ↔ (g ≠ .pseudomanifold ∧ p = .never) := by
  cases g <;> cases p <;> simp [Guarantee.compatibleWith]

variable {S : Type}

/-- any state the safety net returns is a bootstrap state or passed the check selected for it -/
theorem safetyNet_ok_checked (env : Env S) (p : VPolicy) (g : Guarantee) (debug : Bool)
    (snap : S) (attempt : Nat) (s' : S) (h : safetyNet env p g debug snap attempt = .ok s') :
    env.hasCells s' = false ∨
      ∃ susp, env.runCheck (selectCheck p g susp debug true) s' = true := by
  unfold safetyNet at h
  split at h
  · simp at h
  · rename_i s1 susp0 _
    simp only at h
    split at h
    · rename_i hc
      injection h with h; subst h
      left; simpa using hc
    · split at h
      · rename_i hchk
        injection h with h; subst h
        right; exact ⟨_, hchk⟩
      · split at h
        · simp at h
        · split at h
          · simp at h
          · rename_i s2 _ _
            split at h
            · rename_i hchk
              injection h with h; subst h
              cases hc2 : env.hasCells s2 with
              | false => left; rfl
              | true => right; rw [hc2] at hchk; exact ⟨true, hchk⟩
            · simp at h

/-- what every insertion must satisfy: `Inserted s'` leaves exactly `s'` (which is bootstrap or
passed its check); every other outcome leaves the snapshot `s0`. -/
def CommitOrRestore (env : Env S) (p : VPolicy) (g : Guarantee) (debug : Bool) (s0 : S) :
    Outcome S × S → Prop
  | (.inserted s', final) => final = s' ∧
      (env.hasCells s' = false ∨ ∃ susp, env.runCheck (selectCheck p g susp debug true) s' = true)
  | (.skipped _, final) => final = s0
  | (.failed _, final) => final = s0

theorem insertLoop_commit_or_restore (env : Env S) (p : VPolicy) (g : Guarantee) (debug : Bool)
    (s0 : S) (fuel attempt : Nat) :
    CommitOrRestore env p g debug s0 (insertLoop env p g debug s0 fuel attempt) := by
  induction fuel generalizing attempt with
  | zero => simp [insertLoop, CommitOrRestore]
  | succ f ih =>
    unfold insertLoop
    by_cases hdup : env.isDuplicate s0 attempt = true
    · simp [hdup, CommitOrRestore]
    · simp only [hdup]
      cases hsn : safetyNet env p g debug s0 attempt with
      | ok s1 =>
        exact ⟨rfl, safetyNet_ok_checked env p g debug s0 attempt s1 hsn⟩
      | error e =>
        by_cases hd : env.dupErr e = true
        · simp [hd, CommitOrRestore]
        · by_cases hr : env.retryable e = true
          · simp only [hd, hr]
            exact ih (attempt + 1)
          · simp [hd, hr, CommitOrRestore]

/-- **commit-or-restore** for `insert_transactional`, any number of perturbation retries -/
theorem insert_commit_or_restore (env : Env S) (p : VPolicy) (g : Guarantee) (debug : Bool)
    (maxPerturb : Nat) (s0 : S) :
    CommitOrRestore env p g debug s0 (insertTransactional env p g debug maxPerturb s0) :=
  insertLoop_commit_or_restore env p g debug s0 (maxPerturb + 1) 0

/-- non-vacuity: an environment whose first attempt breaks topology and whose star-split fallback
passes commits the fallback state -/
example :
    (insertTransactional (S := Nat)
      { impl := fun s _ star => .ok (if star then s + 10 else s + 1, false),
        relocates := fun _ => true, runCheck := fun _ s => s ≥ 10, hasCells := fun _ => true,
        isDuplicate := fun _ _ => false, retryable := fun _ => true, dupErr := fun _ => false }
      .always .plManifold true 1 0).2 = 10 := by rfl

end DM.C02
