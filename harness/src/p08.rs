//! C08 — flip-based repair: start from a valid triangulation pushed away from Delaunay by random
//! legal flips (repair disabled), call either repair entry point, judge the result (K3).
use crate::common::{catch, hxs, Out, Rng};
use crate::gens;
use crate::hist::{self, World};
use crate::p04::random_flips;
use crate::tri;
use crate::Cfg;
use delaunay::core::delaunay_triangulation::{DelaunayRepairHeuristicConfig, DelaunayRepairPolicy};

/// identity of the vertex set: UUID + data (coordinates are compared on the Lean side: they must be
/// bit-identical, or within the documented perturbation when the heuristic rebuild re-inserted them)
fn vertex_sig<const D: usize>(w: &World<D>) -> Vec<String> {
    let _ = hxs(&[0.0]);
    let mut v: Vec<String> = w.dt.vertices().map(|(_, v)| format!("{}:{:?}", v.uuid(), v.data)).collect();
    v.sort();
    v
}

fn one<const D: usize>(id: &str, rng: &mut Rng, out: &mut Out) {
    let np = D + 2 + rng.below(8) as usize;
    let ps = gens::point_set(rng, D, np);
    let g = [1usize, 1, 2, 0][rng.below(4) as usize];
    let Some(mut w): Option<World<D>> = hist::start_built::<D>(&ps.pts, g, rng) else { return };
    w.dt.set_delaunay_repair_policy(DelaunayRepairPolicy::Never);
    let m = [1usize, 1, 2, 4, 8, 20, 50][rng.below(7) as usize];
    let nflips = random_flips(&mut w.dt, m, rng);
    let before = vertex_sig(&w);
    // provenance baseline = the vertices as they are right before the repair call
    w.offered = w.dt.vertices().map(|(_, v)| (v.uuid(), *v.point().coords(), v.data.unwrap_or(0))).collect();
    // "still satisfies": Level 3 is demanded after repair only if it held before (random flips
    // can leave a negatively oriented cell, which repair is not asked to fix)
    let pre_l3 = w.dt.as_triangulation().is_valid().is_ok();
    let advanced = rng.chance(1, 2);
    let r: Result<Result<String, String>, String> = if advanced {
        catch(|| w.dt.repair_delaunay_with_flips_advanced(DelaunayRepairHeuristicConfig::default())
            .map(|o| format!("flips={} heuristic={}", o.stats.flips_performed, o.used_heuristic() as u8))
            .map_err(|e| tri::err_kind(&format!("{e:?}"))))
    } else {
        catch(|| w.dt.repair_delaunay_with_flips().map(|s| format!("flips={}", s.flips_performed)).map_err(|e| tri::err_kind(&format!("{e:?}"))))
    };
    let mut obs: Vec<(String, String)> = Vec::new();
    let mut args = String::from("expect=none");
    match r {
        Err(m) => obs.push(("outcome".into(), format!("panic:{m}"))),
        Ok(Err(e)) => {
            obs.push(("outcome".into(), format!("err:{e}")));
        }
        Ok(Ok(s)) => {
            obs.push(("outcome".into(), format!("ok:{s}").replace(' ', ",")));
            let after = vertex_sig(&w);
            obs.push(("same_vertices".into(), if after == before { "1".into() } else { "0 repair changed the vertex set (uuid/data)".into() }));
            args = if pre_l3 { "expect=valid123 sphere=1 convex=1 gpdt=1".into() } else { "expect=valid12m sphere=1".into() };
        }
    }
    let args = format!("{args} fam={} nflips={nflips} advanced={}", ps.family, advanced as u8);
    w.emit_state(id, "repair", &args, &obs, out, true);
}

pub fn run(cfg: &Cfg, rng: &mut Rng, out: &mut Out) {
    let thorough = cfg.tier == "thorough";
    let n = if thorough { 1500 } else { 160 };
    for i in 0..n {
        let id = format!("q{i}");
        match 2 + (i % 4) {
            2 => one::<2>(&id, rng, out),
            3 => one::<3>(&id, rng, out),
            4 => one::<4>(&id, rng, out),
            _ => one::<5>(&id, rng, out),
        }
    }
}
