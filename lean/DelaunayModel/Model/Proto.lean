/-
Model/Proto.lean — the line protocol between the Rust harness and the Lean driver.

A case is
  case <id> <kind> <k=v>…
  <tag> <tokens…>        (any number of records)
  obs <name> <tokens…>   (what the implementation returned)
  end
Coordinates are 16-hex-digit f64 bit patterns.
-/
import DelaunayModel.Model.Basic
namespace DM

structure Case where
  id : String
  kind : String
  args : List (String × String)
  recs : List (List String)          -- every non-obs record, tokenised, in order
  obs : List (String × List String)
  deriving Inhabited

def toks (line : String) : List String :=
  (line.trimAscii.toString.splitOn " ").filter (· ≠ "")

def parseArg (s : String) : String × String :=
  match s.splitOn "=" with
  | [k, v] => (k, v)
  | _ => (s, "")

namespace Case
def arg (c : Case) (k : String) : String := (c.args.lookup k).getD ""
def argNat (c : Case) (k : String) : Nat := ((c.arg k).toNat?).getD 0
def recsOf (c : Case) (tag : String) : List (List String) :=
  c.recs.filterMap (fun r => match r with
    | t :: rest => if t == tag then some rest else none
    | [] => none)
def ob (c : Case) (name : String) : Option (List String) := c.obs.lookup name
def ob1 (c : Case) (name : String) : String :=
  match c.obs.lookup name with
  | some (x :: _) => x
  | _ => ""
end Case

/-- group lines into cases -/
def parseCases (lines : List String) : List Case := Id.run do
  let mut out : Array Case := #[]
  let mut cur : Option Case := none
  for l in lines do
    match toks l with
    | "case" :: id :: kind :: args =>
      cur := some { id := id, kind := kind, args := args.map parseArg, recs := [], obs := [] }
    | ["end"] =>
      match cur with
      | some c => out := out.push { c with recs := c.recs.reverse, obs := c.obs.reverse }
      | none => pure ()
      cur := none
    | "obs" :: name :: rest =>
      cur := cur.map (fun c => { c with obs := (name, rest) :: c.obs })
    | [] => pure ()
    | r => cur := cur.map (fun c => { c with recs := r :: c.recs })
  return out.toList

def parseF64 (s : String) : Option F64 := (parseHex s).map F64.ofBits

/-- parse a list of hex tokens into a dyadic point; `none` if any coordinate is not finite -/
def parsePt (ts : List String) : Option DPt :=
  ts.mapM (fun t => (parseF64 t).bind F64.dy?)

def parseIntTok (s : String) : Option Int := s.toInt?

/-- one-line rendering of a rational for messages: exact when short, else 20 significant digits
(`repr` of a long rational wraps over several lines and would break the one-line `R` records) -/
def qShow (q : Q) : String :=
  let n := toString q.num
  let d := toString q.den
  if n.length + d.length ≤ 40 then (if q.den == 1 then n else s!"{n}/{d}") else
  let e : Int := (n.length : Int) - (d.length : Int)
  let sh : Int := 20 - e
  let m : Int := if sh ≥ 0 then (q.num * (10 : Int) ^ sh.toNat) / (q.den : Int)
                 else q.num / ((q.den : Int) * (10 : Int) ^ (-sh).toNat)
  s!"~{m}e{-sh}"

end DM
