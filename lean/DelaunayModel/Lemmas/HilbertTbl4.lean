/-
Lemmas/HilbertTbl4.lean — Hilbert curve tables (`curveOk D b = true` by kernel evaluation); split over
several files only so that `lake` checks them in parallel.
-/
import DelaunayModel.Lemmas.HilbertAux
namespace DM.HilbertAux

theorem curveOk_2_5 : curveOk 2 5 = true := by decide +kernel

end DM.HilbertAux
