/-
Props/C07.lean — property theorems for C07 (a bistellar / Pachner move edits the cell set exactly
as its `FlipInfo` says, is undone by the inverse move, and changes facet multiplicities only inside
the union `U = R ∪ I`).

Model: Model/Flip.lean.  `R` = removed face (`|R| = D+2-k`), `I` = inserted face (`|I| = k`),
`U = flipUnion R I`, old cells `U \ {w}` (`w ∈ I`), new cells `U \ {v}` (`v ∈ R`).

 * §1  `flip_count`: the number of cells changes by exactly `|R| - |I|`.
 * §2  `flip_info_exact`: removed cells = `flipOld`, created cells = `flipNew`; `flip_nodup`.
 * §3  `flip_inverse`: the move with `R`, `I` exchanged is legal and restores the cell set
       (as a set: `flip_inverse`; as a multiset: `flip_inverse_perm`).
 * §4  `flip_vertex_set` (both faces have ≥ 2 vertices: vertex set unchanged),
       `flip_k1_adds_vertex` (k = 1), `flip_k1_inverse_removes_vertex` (k = D+1).
 * §5  facet multiplicities: `flip_facet_balance` (exact bookkeeping), `flip_facet_degree_outer`
       (facets not inside `U` keep their multiplicity), `flip_facet_inner_counts` (+ corollaries
       `flip_facet_inner_II`, `_RR`, `_RI`).
 * §6  non-vacuity: the 2-D edge flip and the 3-D 2→3 / 3→2 flips, by `decide`.

Helper lemmas live in Lemmas/FlipAux.lean.  Everything here is core-only.
-/
import DelaunayModel.Lemmas.FlipAux
namespace DM.C07

open DM

/-! ## §1 cell count -/

/-- the cell count changes by exactly `|R| - |I| = (D+2-k) - k` -/
theorem flip_count {D : Nat} {cells : List (List Nat)} {R I : List Nat} (hnd : cells.Nodup)
    (hg : flipGuard D cells R I = true) :
    (flipCells cells R I).length + I.length = cells.length + R.length := by
  have g := (flipGuard_iff D cells R I).1 hg
  have hp := (filter_not_contains_append_perm hnd (flipOld_nodup g.nodup) g.old_mem).length_eq
  rw [List.length_append, flipOld_length] at hp
  unfold flipCells
  rw [List.length_append, flipNew_length]
  omega

/-! ## §2 the edit is exactly (`flipOld`, `flipNew`) -/

/-- the cells after the move are the surviving cells plus `flipNew`, and no cell of `flipOld`
survives (an old cell is never re-created as a new cell) -/
theorem flip_info_exact {D : Nat} {cells : List (List Nat)} {R I : List Nat}
    (hg : flipGuard D cells R I = true) :
    (∀ c, c ∈ flipCells cells R I ↔ (c ∈ cells ∧ c ∉ flipOld R I) ∨ c ∈ flipNew R I) ∧
    (∀ c ∈ flipOld R I, c ∉ flipCells cells R I) := by
  have g := (flipGuard_iff D cells R I).1 hg
  refine ⟨fun c => mem_flipCells, ?_⟩
  intro c ho hc
  rcases mem_flipCells.1 hc with h | h
  · exact h.2 ho
  · exact flipOld_not_flipNew g.nodup ho h

/-- every created cell is present after the move and was absent before -/
theorem flip_new_fresh {D : Nat} {cells : List (List Nat)} {R I : List Nat}
    (hg : flipGuard D cells R I = true) :
    ∀ c ∈ flipNew R I, c ∈ flipCells cells R I ∧ c ∉ cells := by
  have g := (flipGuard_iff D cells R I).1 hg
  exact fun c hc => ⟨mem_flipCells.2 (Or.inr hc), g.new_not_mem c hc⟩

theorem flip_nodup {D : Nat} {cells : List (List Nat)} {R I : List Nat} (hnd : cells.Nodup)
    (hg : flipGuard D cells R I = true) : (flipCells cells R I).Nodup := by
  have g := (flipGuard_iff D cells R I).1 hg
  unfold flipCells
  refine List.nodup_append.2 ⟨List.Nodup.sublist List.filter_sublist hnd, flipNew_nodup g.nodup, ?_⟩
  rintro a ha b hb rfl
  exact g.new_not_mem a hb (List.mem_filter.1 ha).1

/-! ## §3 the inverse move -/

/-- the guard of the inverse move (faces exchanged) holds after the move -/
theorem flip_inverse_guard {D : Nat} {cells : List (List Nat)} {R I : List Nat}
    (hg : flipGuard D cells R I = true) : flipGuard D (flipCells cells R I) I R = true := by
  have g := (flipGuard_iff D cells R I).1 hg
  rw [flipGuard_iff]
  refine ⟨(List.perm_append_comm.nodup_iff).1 g.nodup, g.ine, g.rne, ?_, ?_, ?_⟩
  · have := g.len
    omega
  · rw [flipOld_swap]
    exact fun c hc => mem_flipCells.2 (Or.inr hc)
  · rw [flipNew_swap]
    exact (flip_info_exact hg).2

/-- applying the inverse move restores the cell list up to order -/
theorem flip_inverse_perm {D : Nat} {cells : List (List Nat)} {R I : List Nat} (hnd : cells.Nodup)
    (hg : flipGuard D cells R I = true) :
    (flipCells (flipCells cells R I) I R).Perm cells := by
  have g := (flipGuard_iff D cells R I).1 hg
  have h1 : (flipCells cells R I).filter (fun c => !(flipNew R I).contains c) =
      cells.filter (fun c => !(flipOld R I).contains c) := by
    unfold flipCells
    rw [List.filter_append]
    have e1 : (flipNew R I).filter (fun c => !(flipNew R I).contains c) = [] := by
      rw [List.filter_eq_nil_iff]
      intro a ha
      simp [ha]
    have e2 : (cells.filter (fun c => !(flipOld R I).contains c)).filter
        (fun c => !(flipNew R I).contains c) = cells.filter (fun c => !(flipOld R I).contains c) := by
      rw [List.filter_eq_self]
      intro a ha
      have hn : a ∉ flipNew R I := fun h => g.new_not_mem a h (List.mem_filter.1 ha).1
      simp [hn]
    rw [e1, e2, List.append_nil]
  have h2 : flipCells (flipCells cells R I) I R =
      cells.filter (fun c => !(flipOld R I).contains c) ++ flipOld R I := by
    show (flipCells cells R I).filter (fun c => !(flipOld I R).contains c) ++ flipNew I R = _
    have e1 : flipOld I R = flipNew R I := flipOld_swap R I
    have e2 : flipNew I R = flipOld R I := flipNew_swap R I
    simp only [e1, e2]
    rw [h1]
  rw [h2]
  exact filter_not_contains_append_perm hnd (flipOld_nodup g.nodup) g.old_mem

/-- the inverse move restores the cell SET and is legal -/
theorem flip_inverse {D : Nat} {cells : List (List Nat)} {R I : List Nat} (hnd : cells.Nodup)
    (hg : flipGuard D cells R I = true) :
    (∀ c, c ∈ flipCells (flipCells cells R I) I R ↔ c ∈ cells) ∧
    flipGuard D (flipCells cells R I) I R = true :=
  ⟨fun _ => (flip_inverse_perm hnd hg).mem_iff, flip_inverse_guard hg⟩

/-! ## §4 vertex set -/

/-- if both faces have at least two vertices (`2 ≤ k ≤ D`), the move neither adds nor removes a
vertex -/
theorem flip_vertex_set {D : Nat} {cells : List (List Nat)} {R I : List Nat}
    (hg : flipGuard D cells R I = true) (hR : 2 ≤ R.length) (hI : 2 ≤ I.length) :
    ∀ v, v ∈ vertexSet (flipCells cells R I) ↔ v ∈ vertexSet cells := by
  have g := (flipGuard_iff D cells R I).1 hg
  have hRI := List.nodup_append.1 g.nodup
  intro v
  rw [mem_vertexSet, mem_vertexSet]
  constructor
  · rintro ⟨c, hc, hv⟩
    rcases mem_flipCells.1 hc with h | h
    · exact ⟨c, h.1, hv⟩
    · obtain ⟨r, _, rfl⟩ := mem_flipNew.1 h
      obtain ⟨w, hw, hwv⟩ := exists_mem_ne_of_two_le hRI.2.1 hI v
      refine ⟨without (flipUnion R I) w, g.old_mem _ (mem_flipOld.2 ⟨w, hw, rfl⟩), ?_⟩
      exact mem_without.2 ⟨(mem_without.1 hv).1, fun h => hwv h.symm⟩
  · rintro ⟨c, hc, hv⟩
    by_cases ho : c ∈ flipOld R I
    · obtain ⟨w, _, rfl⟩ := mem_flipOld.1 ho
      obtain ⟨r, hr, hrv⟩ := exists_mem_ne_of_two_le hRI.1 hR v
      refine ⟨without (flipUnion R I) r, mem_flipCells.2 (Or.inr (mem_flipNew.2 ⟨r, hr, rfl⟩)), ?_⟩
      exact mem_without.2 ⟨(mem_without.1 hv).1, fun h => hrv h.symm⟩
    · exact ⟨c, mem_flipCells.2 (Or.inl ⟨hc, ho⟩), hv⟩

/-- `k = 1` (vertex insertion into a cell): the vertex set grows by exactly the inserted vertex
`w` (the guard does not say whether `w` was already used by some other cell, hence the `∨`) -/
theorem flip_k1_adds_vertex {D : Nat} {cells : List (List Nat)} {R : List Nat} {w : Nat}
    (hg : flipGuard D cells R [w] = true) (hR : 2 ≤ R.length) :
    ∀ v, v ∈ vertexSet (flipCells cells R [w]) ↔ v ∈ vertexSet cells ∨ v = w := by
  have g := (flipGuard_iff D cells R [w]).1 hg
  have hRI := List.nodup_append.1 g.nodup
  intro v
  rw [mem_vertexSet, mem_vertexSet]
  constructor
  · rintro ⟨c, hc, hv⟩
    rcases mem_flipCells.1 hc with h | h
    · exact Or.inl ⟨c, h.1, hv⟩
    · obtain ⟨r, _, rfl⟩ := mem_flipNew.1 h
      by_cases hvw : v = w
      · exact Or.inr hvw
      · left
        refine ⟨without (flipUnion R [w]) w,
          g.old_mem _ (mem_flipOld.2 ⟨w, List.mem_singleton.2 rfl, rfl⟩), ?_⟩
        exact mem_without.2 ⟨(mem_without.1 hv).1, hvw⟩
  · have key : v ∈ flipUnion R [w] → ∃ c ∈ flipCells cells R [w], v ∈ c := by
      intro hvU
      obtain ⟨r, hr, hrv⟩ := exists_mem_ne_of_two_le hRI.1 hR v
      exact ⟨without (flipUnion R [w]) r, mem_flipCells.2 (Or.inr (mem_flipNew.2 ⟨r, hr, rfl⟩)),
        mem_without.2 ⟨hvU, fun h => hrv h.symm⟩⟩
    rintro (⟨c, hc, hv⟩ | rfl)
    · by_cases ho : c ∈ flipOld R [w]
      · obtain ⟨w', _, rfl⟩ := mem_flipOld.1 ho
        exact key (mem_without.1 hv).1
      · exact ⟨c, mem_flipCells.2 (Or.inl ⟨hc, ho⟩), hv⟩
    · exact key (mem_flipUnion.2 (Or.inr (List.mem_singleton.2 rfl)))

/-- `k = 1`: the inserted vertex is used after the move -/
theorem flip_k1_vertex_present {D : Nat} {cells : List (List Nat)} {R : List Nat} {w : Nat}
    (hg : flipGuard D cells R [w] = true) (hR : 2 ≤ R.length) :
    w ∈ vertexSet (flipCells cells R [w]) :=
  (flip_k1_adds_vertex hg hR w).2 (Or.inr rfl)

/-- `k = D+1` (inverse of a vertex insertion): if the removed vertex `r` is used by the old cells
only (its star is exactly `flipOld`), it disappears and every other vertex stays -/
theorem flip_k1_inverse_removes_vertex {D : Nat} {cells : List (List Nat)} {I : List Nat} {r : Nat}
    (hg : flipGuard D cells [r] I = true) (hI : 2 ≤ I.length)
    (hstar : ∀ c ∈ cells, r ∈ c → c ∈ flipOld [r] I) :
    ∀ v, v ∈ vertexSet (flipCells cells [r] I) ↔ v ∈ vertexSet cells ∧ v ≠ r := by
  have g := (flipGuard_iff D cells [r] I).1 hg
  have hRI := List.nodup_append.1 g.nodup
  intro v
  rw [mem_vertexSet, mem_vertexSet]
  constructor
  · rintro ⟨c, hc, hv⟩
    rcases mem_flipCells.1 hc with h | h
    · refine ⟨⟨c, h.1, hv⟩, ?_⟩
      rintro rfl
      exact h.2 (hstar c h.1 hv)
    · obtain ⟨r', hr', rfl⟩ := mem_flipNew.1 h
      obtain rfl := List.mem_singleton.1 hr'
      refine ⟨?_, (mem_without.1 hv).2⟩
      obtain ⟨w, hw, hwv⟩ := exists_mem_ne_of_two_le hRI.2.1 hI v
      refine ⟨without (flipUnion [r'] I) w, g.old_mem _ (mem_flipOld.2 ⟨w, hw, rfl⟩), ?_⟩
      exact mem_without.2 ⟨(mem_without.1 hv).1, fun h => hwv h.symm⟩
  · rintro ⟨⟨c, hc, hv⟩, hvr⟩
    by_cases ho : c ∈ flipOld [r] I
    · obtain ⟨w, _, rfl⟩ := mem_flipOld.1 ho
      refine ⟨without (flipUnion [r] I) r,
        mem_flipCells.2 (Or.inr (mem_flipNew.2 ⟨r, List.mem_singleton.2 rfl, rfl⟩)), ?_⟩
      exact mem_without.2 ⟨(mem_without.1 hv).1, hvr⟩
    · exact ⟨c, mem_flipCells.2 (Or.inl ⟨hc, ho⟩), hv⟩

/-! ## §5 facet multiplicities -/

/-- exact bookkeeping of facet multiplicities: what the move removes are the facets of the old
cells, what it adds are the facets of the new cells -/
theorem flip_facet_balance {D : Nat} {cells : List (List Nat)} {R I : List Nat} (hnd : cells.Nodup)
    (hg : flipGuard D cells R I = true) (f : List Nat) :
    facetCount (flipCells cells R I) f + facetCount (flipOld R I) f =
      facetCount cells f + facetCount (flipNew R I) f := by
  have g := (flipGuard_iff D cells R I).1 hg
  have hp := facetCount_perm
    (filter_not_contains_append_perm hnd (flipOld_nodup g.nodup) g.old_mem) f
  rw [facetCount_append] at hp
  unfold flipCells
  rw [facetCount_append]
  omega

/-- facets not inside the union keep their multiplicity -/
theorem flip_facet_degree_outer {D : Nat} {cells : List (List Nat)} {R I : List Nat}
    (hnd : cells.Nodup) (hg : flipGuard D cells R I = true) (f : List Nat)
    (hf : ¬ ∀ x ∈ f, x ∈ flipUnion R I) :
    facetCount (flipCells cells R I) f = facetCount cells f := by
  have hb := flip_facet_balance hnd hg f
  have ho : facetCount (flipOld R I) f = 0 :=
    Classical.byContradiction fun h => hf (facet_of_union_cell h)
  have hn : facetCount (flipNew R I) f = 0 :=
    Classical.byContradiction fun h => hf (facet_of_union_cell h)
  omega

/-- more generally: a facet of no old and no new cell keeps its multiplicity -/
theorem flip_facet_degree_outer' {D : Nat} {cells : List (List Nat)} {R I : List Nat}
    (hnd : cells.Nodup) (hg : flipGuard D cells R I = true) (f : List Nat)
    (ho : facetCount (flipOld R I) f = 0) (hn : facetCount (flipNew R I) f = 0) :
    facetCount (flipCells cells R I) f = facetCount cells f := by
  have hb := flip_facet_balance hnd hg f
  omega

/-- the facet `U \ {a, b}` (`a ≠ b` in `U`) occurs `[a ∈ I] + [b ∈ I]` times among the old cells
and `[a ∈ R] + [b ∈ R]` times among the new cells -/
theorem flip_facet_inner_counts {D : Nat} {cells : List (List Nat)} {R I : List Nat}
    (hg : flipGuard D cells R I = true) {a b : Nat} (ha : a ∈ flipUnion R I)
    (hb : b ∈ flipUnion R I) (hab : a ≠ b) :
    facetCount (flipOld R I) (without (without (flipUnion R I) a) b) =
      (if a ∈ I then 1 else 0) + (if b ∈ I then 1 else 0) ∧
    facetCount (flipNew R I) (without (without (flipUnion R I) a) b) =
      (if a ∈ R then 1 else 0) + (if b ∈ R then 1 else 0) := by
  have g := (flipGuard_iff D cells R I).1 hg
  have hRI := List.nodup_append.1 g.nodup
  have hU := flipUnion_nodup g.nodup
  constructor
  · unfold flipOld
    rw [map_without_facetCount hU (fun _ hx => mem_flipUnion.2 (Or.inr hx)) ha hb hab,
      hRI.2.1.count, hRI.2.1.count]
  · unfold flipNew
    rw [map_without_facetCount hU (fun _ hx => mem_flipUnion.2 (Or.inl hx)) ha hb hab,
      hRI.1.count, hRI.1.count]

/-- both omitted vertices in `I`: the facet is interior to the old cells (shared by two of them)
and gone after the move -/
theorem flip_facet_inner_II {D : Nat} {cells : List (List Nat)} {R I : List Nat}
    (hnd : cells.Nodup) (hg : flipGuard D cells R I = true) {a b : Nat} (ha : a ∈ I) (hb : b ∈ I)
    (hab : a ≠ b) :
    facetCount (flipOld R I) (without (without (flipUnion R I) a) b) = 2 ∧
    facetCount (flipNew R I) (without (without (flipUnion R I) a) b) = 0 ∧
    facetCount (flipCells cells R I) (without (without (flipUnion R I) a) b) + 2 =
      facetCount cells (without (without (flipUnion R I) a) b) := by
  have g := (flipGuard_iff D cells R I).1 hg
  have hRI := List.nodup_append.1 g.nodup
  have haR : a ∉ R := fun h => hRI.2.2 a h a ha rfl
  have hbR : b ∉ R := fun h => hRI.2.2 b h b hb rfl
  have hc := flip_facet_inner_counts hg (mem_flipUnion.2 (Or.inr ha)) (mem_flipUnion.2 (Or.inr hb))
    hab
  rw [if_pos ha, if_pos hb, if_neg haR, if_neg hbR] at hc
  have hbal := flip_facet_balance hnd hg (without (without (flipUnion R I) a) b)
  refine ⟨hc.1, hc.2, ?_⟩
  omega

/-- both omitted vertices in `R`: the facet is absent from the old cells and interior to the new
cells (shared by two of them) -/
theorem flip_facet_inner_RR {D : Nat} {cells : List (List Nat)} {R I : List Nat}
    (hnd : cells.Nodup) (hg : flipGuard D cells R I = true) {a b : Nat} (ha : a ∈ R) (hb : b ∈ R)
    (hab : a ≠ b) :
    facetCount (flipOld R I) (without (without (flipUnion R I) a) b) = 0 ∧
    facetCount (flipNew R I) (without (without (flipUnion R I) a) b) = 2 ∧
    facetCount (flipCells cells R I) (without (without (flipUnion R I) a) b) =
      facetCount cells (without (without (flipUnion R I) a) b) + 2 := by
  have g := (flipGuard_iff D cells R I).1 hg
  have hRI := List.nodup_append.1 g.nodup
  have haI : a ∉ I := fun h => hRI.2.2 a ha a h rfl
  have hbI : b ∉ I := fun h => hRI.2.2 b hb b h rfl
  have hc := flip_facet_inner_counts hg (mem_flipUnion.2 (Or.inl ha)) (mem_flipUnion.2 (Or.inl hb))
    hab
  rw [if_pos ha, if_pos hb, if_neg haI, if_neg hbI] at hc
  have hbal := flip_facet_balance hnd hg (without (without (flipUnion R I) a) b)
  refine ⟨hc.1, hc.2, ?_⟩
  omega

/-- one omitted vertex in each face: the facet is on the boundary of the move before and after
(one old cell, one new cell), so its multiplicity in the complex is unchanged -/
theorem flip_facet_inner_RI {D : Nat} {cells : List (List Nat)} {R I : List Nat}
    (hnd : cells.Nodup) (hg : flipGuard D cells R I = true) {a b : Nat} (ha : a ∈ R) (hb : b ∈ I) :
    facetCount (flipOld R I) (without (without (flipUnion R I) a) b) = 1 ∧
    facetCount (flipNew R I) (without (without (flipUnion R I) a) b) = 1 ∧
    facetCount (flipCells cells R I) (without (without (flipUnion R I) a) b) =
      facetCount cells (without (without (flipUnion R I) a) b) := by
  have g := (flipGuard_iff D cells R I).1 hg
  have hRI := List.nodup_append.1 g.nodup
  have hab : a ≠ b := hRI.2.2 a ha b hb
  have haI : a ∉ I := fun h => hRI.2.2 a ha a h rfl
  have hbR : b ∉ R := fun h => hRI.2.2 b h b hb rfl
  have hc := flip_facet_inner_counts hg (mem_flipUnion.2 (Or.inl ha)) (mem_flipUnion.2 (Or.inr hb))
    hab
  rw [if_pos ha, if_pos hb, if_neg haI, if_neg hbR] at hc
  have hbal := flip_facet_balance hnd hg (without (without (flipUnion R I) a) b)
  refine ⟨hc.1, hc.2, ?_⟩
  omega

/-! ## §6 non-vacuity -/

/-- 2-D edge flip (k = 2): the guard holds -/
theorem ex2d_guard : flipGuard 2 [[0, 1, 2], [1, 2, 3]] [1, 2] [0, 3] = true := by decide

theorem ex2d_cells : flipCells [[0, 1, 2], [1, 2, 3]] [1, 2] [0, 3] = [[0, 2, 3], [0, 1, 3]] := by
  decide

theorem ex2d_cells_perm :
    (flipCells [[0, 1, 2], [1, 2, 3]] [1, 2] [0, 3]).Perm [[0, 1, 3], [0, 2, 3]] := by
  rw [ex2d_cells]
  exact List.Perm.swap _ _ _

/-- … and the inverse move is legal and gives back the two original triangles -/
theorem ex2d_inverse :
    flipGuard 2 (flipCells [[0, 1, 2], [1, 2, 3]] [1, 2] [0, 3]) [0, 3] [1, 2] = true ∧
    flipCells (flipCells [[0, 1, 2], [1, 2, 3]] [1, 2] [0, 3]) [0, 3] [1, 2] =
      [[1, 2, 3], [0, 1, 2]] := by
  decide

/-- the shared edge `[1,2]` is interior before (count 2) and gone after; the new edge `[0,3]` is
absent before and interior after; the four outer edges keep multiplicity 1 -/
theorem ex2d_facets :
    facetCount [[0, 1, 2], [1, 2, 3]] [1, 2] = 2 ∧
    facetCount (flipCells [[0, 1, 2], [1, 2, 3]] [1, 2] [0, 3]) [1, 2] = 0 ∧
    facetCount [[0, 1, 2], [1, 2, 3]] [0, 3] = 0 ∧
    facetCount (flipCells [[0, 1, 2], [1, 2, 3]] [1, 2] [0, 3]) [0, 3] = 2 ∧
    facetCount [[0, 1, 2], [1, 2, 3]] [0, 1] = 1 ∧
    facetCount (flipCells [[0, 1, 2], [1, 2, 3]] [1, 2] [0, 3]) [0, 1] = 1 := by
  decide

/-- the 2-D edge flip is refused when the new edge already spans a cell of the complex … -/
theorem ex2d_guard_rejects_existing :
    flipGuard 2 [[0, 1, 2], [1, 2, 3], [0, 1, 3]] [1, 2] [0, 3] = false := by decide

/-- … and when an old cell is missing -/
theorem ex2d_guard_rejects_missing : flipGuard 2 [[0, 1, 2]] [1, 2] [0, 3] = false := by decide

/-- 3-D 2→3 flip (k = 2): legal, and two tetrahedra become three -/
theorem ex3d_23 :
    flipGuard 3 [[0, 1, 2, 3], [1, 2, 3, 4]] [1, 2, 3] [0, 4] = true ∧
    flipCells [[0, 1, 2, 3], [1, 2, 3, 4]] [1, 2, 3] [0, 4] =
      [[0, 2, 3, 4], [0, 1, 3, 4], [0, 1, 2, 4]] ∧
    (flipCells [[0, 1, 2, 3], [1, 2, 3, 4]] [1, 2, 3] [0, 4]).length = 3 := by
  decide

/-- 3-D 3→2 flip (k = 3), the inverse of the above: three tetrahedra become two -/
theorem ex3d_32 :
    flipGuard 3 [[0, 2, 3, 4], [0, 1, 3, 4], [0, 1, 2, 4]] [0, 4] [1, 2, 3] = true ∧
    flipCells [[0, 2, 3, 4], [0, 1, 3, 4], [0, 1, 2, 4]] [0, 4] [1, 2, 3] =
      [[1, 2, 3, 4], [0, 1, 2, 3]] := by
  decide

/-- 2-D 1→3 flip (k = 1): vertex `3` inserted into the triangle `[0,1,2]`, and its inverse -/
theorem ex2d_13 :
    flipGuard 2 [[0, 1, 2]] [0, 1, 2] [3] = true ∧
    flipCells [[0, 1, 2]] [0, 1, 2] [3] = [[1, 2, 3], [0, 2, 3], [0, 1, 3]] ∧
    vertexSet (flipCells [[0, 1, 2]] [0, 1, 2] [3]) = [2, 0, 1, 3] ∧
    flipGuard 2 [[1, 2, 3], [0, 2, 3], [0, 1, 3]] [3] [0, 1, 2] = true ∧
    flipCells [[1, 2, 3], [0, 2, 3], [0, 1, 3]] [3] [0, 1, 2] = [[0, 1, 2]] := by
  decide

end DM.C07

/-! ### The inserted face is new: its star after the move is exactly the created cells -/
namespace DM.C07
open DM

/-- With the full guard (the inserted face `I` is contained in no cell outside the removed star)
every cell of the result that contains all of `I` is one of the created cells: the star of the
inserted face is exactly `flipNew R I`, so its link is the boundary of the simplex `R` — a sphere —
and not two spheres glued along nothing. -/
theorem flip_inserted_star (D : Nat) (cells : List (List Nat)) (R I : List Nat)
    (h : flipGuardFull D cells R I = true) :
    ∀ c ∈ flipCells cells R I, (∀ v ∈ I, v ∈ c) → c ∈ flipNew R I := by
  intro c hc hI
  unfold flipGuardFull at h
  rw [Bool.and_eq_true] at h
  obtain ⟨_, hnew⟩ := h
  unfold flipCells at hc
  rw [List.mem_append] at hc
  rcases hc with hc | hc
  · rw [List.mem_filter] at hc
    obtain ⟨hmem, hnot⟩ := hc
    unfold insertedFaceNew at hnew
    rw [List.all_eq_true] at hnew
    have := hnew c hmem
    rw [Bool.or_eq_true] at this
    rcases this with h1 | h2
    · exact absurd (List.contains_iff_mem.mp h1) (by simpa using hnot)
    · exfalso
      have hall : I.all c.contains = true := by
        rw [List.all_eq_true]
        intro v hv
        exact List.contains_iff_mem.mpr (hI v hv)
      simp [hall] at h2
  · exact hc

/-- the full guard implies the basic guard, so every theorem above applies to a fully guarded move -/
theorem flipGuardFull_guard (D : Nat) (cells : List (List Nat)) (R I : List Nat)
    (h : flipGuardFull D cells R I = true) : flipGuard D cells R I = true := by
  unfold flipGuardFull at h
  rw [Bool.and_eq_true] at h
  exact h.1

/-- non-vacuity / necessity: a 4-D k=3 move whose inserted triangle {5,6,7} already lies in the
cell {5,6,7,8,9} passes the basic guard but not the full one, and afterwards the triangle has a cell
in its star that the move did not create. -/
def exCells4 : List (List Nat) := [[1,2,3,5,6], [1,2,3,5,7], [1,2,3,6,7], [5,6,7,8,9]]
example : flipGuard 4 exCells4 [1,2,3] [5,6,7] = true := by decide
example : flipGuardFull 4 exCells4 [1,2,3] [5,6,7] = false := by decide
example : [5,6,7,8,9] ∈ flipCells exCells4 [1,2,3] [5,6,7] ∧ [5,6,7,8,9] ∉ flipNew [1,2,3] [5,6,7] := by decide
example : flipGuardFull 4 [[1,2,3,5,6], [1,2,3,5,7], [1,2,3,6,7]] [1,2,3] [5,6,7] = true := by decide

end DM.C07
