//! C03 — failed or skipped mutations leave the triangulation exactly as it was (K2 with hook H1).
//! For every (operation, failpoint, firing ordinal) on a pool of states: arm exactly one
//! failpoint, run the public operation on a clone, and compare the full observable fingerprint
//! before/after when the call reports Err / Skipped.  Natural failures (duplicates, stale
//! handles, non-flippable faces, unknown vertices) run through the same comparison unarmed.
use crate::common::{catch, fingerprint, Out, Rng};
use crate::gens;
use crate::hist::{self, Dt, World};
use crate::tri;
use crate::Cfg;
use delaunay::core::delaunay_triangulation::{DelaunayCheckPolicy, DelaunayRepairHeuristicConfig, DelaunayRepairPolicy};
use delaunay::core::facet::FacetHandle;
use delaunay::core::operations::InsertionOutcome;
use delaunay::core::vertex::Vertex;
use delaunay::geometry::point::Point;
use delaunay::geometry::traits::coordinate::Coordinate;
use delaunay::triangulation::flips::{BistellarFlips, EdgeKey, RidgeHandle};
use delaunay::verif;
use std::num::NonZeroUsize;

pub const FAILPOINTS: &[&str] = &[
    "try_insert.after_insert_vertex", "conflict_insert.after_fill_cavity", "conflict_insert.after_remove_cells",
    "conflict_insert.before_connectedness", "hull_insert.before_connectedness",
    "tri_remove.after_fan_fill", "tri_remove.after_remove_cells", "tri_remove.before_remove_vertex",
    "dt_insert.repair", "dt_insert.delaunay_check", "dt_remove.after_removal",
    "flip.before_mutation", "flip.after_insert_cells", "flip.after_wiring", "repair.before_attempt1",
];

pub const OPS: &[&str] = &[
    "insert", "insert_bare", "insert_stats", "insert_checked", "remove", "remove_bare", "flip_k2", "flip_k3", "flip_k2inv",
    "flip_k1_insert", "flip_k1_remove", "repair", "repair_adv",
    "flip_k1_insert_stale", "flip_k2_stale", "insert_duplicate", "remove_unknown",
    // repair Never + periodic Delaunay check EveryN(n), after k preparatory insertions so that the
    // measured insertion lands on every phase of the check counter
    "insert_chk2_p0", "insert_chk2_p1", "insert_chk3_p0", "insert_chk3_p1", "insert_chk3_p2",
    // repair EveryN(2) at both phases of the insertion counter, both insertion APIs
    "insert_rep2_p0", "insert_rep2_p1", "insert_rep2s_p0", "insert_rep2s_p1",
];

/// everything the public API shows: vertices, cells, neighbour relation, data, counts, policies
fn full_fingerprint<const D: usize>(dt: &Dt<D>) -> String {
    format!(
        "{} | nv={} nc={} pol={:?}/{:?}/{:?}/{:?}",
        fingerprint(dt.tds()),
        dt.number_of_vertices(),
        dt.number_of_cells(),
        dt.validation_policy(),
        dt.delaunay_repair_policy(),
        dt.delaunay_check_policy(),
        dt.topology_guarantee()
    )
}

/// duplicate cache probe: an insert at an existing vertex position must still be refused
fn dup_probe_ok<const D: usize>(dt: &Dt<D>, rng: &mut Rng) -> bool {
    let coords: Vec<[f64; D]> = dt.vertices().map(|(_, v)| *v.point().coords()).collect();
    if coords.is_empty() { return true; }
    let c = *rng.pick(&coords);
    let mut d2 = dt.clone();
    let v: Vertex<f64, tri::VData, D> = Vertex::new_with_uuid(Point::new(c), rng.uuid(), Some(-9));
    match catch(|| d2.insert(v)) { Ok(Err(e)) => format!("{e:?}").contains("DuplicateCoordinates"), Ok(Ok(_)) => false, Err(_) => false }
}

/// "later operations behave as if the failed call had never been made": the same three follow-up
/// insertions (statistics API) under counter-dependent policies (repair and check EveryN(2)) on
/// the triangulation that saw the failed call and on a clone taken just before it; returns the
/// outcome sequence and the final fingerprint
fn followup<const D: usize>(dt: &mut Dt<D>, seed: u64) -> String {
    verif::disarm();
    let n2 = NonZeroUsize::new(2).unwrap();
    dt.set_delaunay_repair_policy(DelaunayRepairPolicy::EveryN(n2));
    dt.set_delaunay_check_policy(DelaunayCheckPolicy::EveryN(n2));
    let mut r = Rng::new(seed);
    let mut s = String::new();
    for i in 0..3 {
        let mut p = [0.0f64; D];
        for x in p.iter_mut() { *x = r.range(-6, 6) as f64 + 0.375 + i as f64 / 64.0; }
        let v: Vertex<f64, tri::VData, D> = Vertex::new_with_uuid(Point::new(p), r.uuid(), Some(-20 - i));
        let o = match catch(|| dt.insert_with_statistics(v)) {
            Ok(Ok((InsertionOutcome::Inserted { .. }, st))) => format!("ins:{}", st.attempts),
            Ok(Ok((InsertionOutcome::Skipped { error }, _))) => format!("skip:{}", tri::err_kind(&format!("{error:?}"))),
            Ok(Err(e)) => format!("err:{}", tri::err_kind(&format!("{e:?}"))),
            Err(_) => "panic".to_string(),
        };
        s.push_str(&o); s.push('|');
    }
    s + &full_fingerprint(dt)
}

/// policy setup that belongs to the operation's configuration (done BEFORE the fingerprint is taken)
fn prep_op<const D: usize>(dt: &mut Dt<D>, op: &str) {
    let n1 = NonZeroUsize::new(1).unwrap();
    if op == "remove_bare" { dt.set_delaunay_repair_policy(DelaunayRepairPolicy::Never); dt.set_delaunay_check_policy(DelaunayCheckPolicy::EndOnly); }
    if op == "insert_bare" { dt.set_delaunay_repair_policy(DelaunayRepairPolicy::Never); dt.set_delaunay_check_policy(DelaunayCheckPolicy::EndOnly); }
    if op == "insert_checked" { dt.set_delaunay_check_policy(DelaunayCheckPolicy::EveryN(n1)); }
    if op.starts_with("insert_rep2") {
        let k = op[op.len() - 1..].parse::<usize>().unwrap_or(0);
        let n2 = NonZeroUsize::new(2).unwrap();
        dt.set_delaunay_repair_policy(DelaunayRepairPolicy::EveryN(n2));
        dt.set_delaunay_check_policy(DelaunayCheckPolicy::EndOnly);
        let mut r = Rng::new(0xC03A + k as u64);
        let mut done = 0;
        for _ in 0..(6 * k) {
            if done == k { break; }
            let mut p = [0.0f64; D];
            for x in p.iter_mut() { *x = r.range(-7, 7) as f64 + 0.4375; }
            if dt.insert(Vertex::new_with_uuid(Point::new(p), r.uuid(), Some(-40))).is_ok() { done += 1; }
        }
    }
    if let Some(rest) = op.strip_prefix("insert_chk") {
        let n = rest[..1].parse::<usize>().unwrap_or(2);
        let k = rest[3..].parse::<usize>().unwrap_or(0);
        dt.set_delaunay_repair_policy(DelaunayRepairPolicy::Never);
        // preparatory insertions run unchecked so that they advance the counter whatever the state
        dt.set_delaunay_check_policy(DelaunayCheckPolicy::EndOnly);
        let mut r = Rng::new(0xC03 + (n * 16 + k) as u64);
        let mut done = 0;
        for _ in 0..(4 * k) {
            if done == k { break; }
            let cs: Vec<[f64; D]> = dt.vertices().map(|(_, v)| *v.point().coords()).collect();
            let (a, b, c) = (*r.pick(&cs), *r.pick(&cs), *r.pick(&cs));
            let mut p = [0.0f64; D];
            for i in 0..D { p[i] = (a[i] + b[i] + 2.0 * c[i]) / 4.0 + 0.03125 * (1 + done) as f64; }
            if catch(|| dt.insert(Vertex::new_with_uuid(Point::new(p), r.uuid(), Some(41))).is_ok()) == Ok(true) { done += 1; }
        }
        dt.set_delaunay_check_policy(DelaunayCheckPolicy::EveryN(NonZeroUsize::new(n).unwrap()));
    }
}

/// run one operation; returns the outcome class: ok | err:<kind> | skipped:<kind> | panic:..
fn run_op<const D: usize>(dt: &mut Dt<D>, op: &str, rng: &mut Rng) -> String {
    let pick_pt = |dt: &Dt<D>, rng: &mut Rng| -> [f64; D] {
        // a dyadic point inside the bounding box of the current vertices (interior insert likely)
        let cs: Vec<[f64; D]> = dt.vertices().map(|(_, v)| *v.point().coords()).collect();
        let mut p = [0.0f64; D];
        if cs.len() >= 2 {
            let a = rng.pick(&cs); let b = rng.pick(&cs); let c = rng.pick(&cs);
            for i in 0..D { p[i] = (a[i] + b[i] + 2.0 * c[i]) / 4.0 + 0.0625; }
        } else { for x in p.iter_mut() { *x = rng.range(-5, 5) as f64 + 0.5; } }
        if rng.chance(1, 4) { let ax = rng.below(D as u64) as usize; p[ax] += 40.0; } // exterior
        p
    };
    let r: Result<Result<(), String>, String> = match op {
        "insert" | "insert_bare" | "insert_checked" | "insert_chk2_p0" | "insert_chk2_p1" | "insert_chk3_p0" | "insert_chk3_p1" | "insert_chk3_p2" | "insert_rep2_p0" | "insert_rep2_p1" => {
            let p = pick_pt(dt, rng);
            let v = Vertex::new_with_uuid(Point::new(p), rng.uuid(), Some(42));
            catch(|| dt.insert(v).map(|_| ()).map_err(|e| format!("err:{}", tri::err_kind(&format!("{e:?}")))))
        }
        "insert_stats" | "insert_rep2s_p0" | "insert_rep2s_p1" => {
            let p = pick_pt(dt, rng);
            let v = Vertex::new_with_uuid(Point::new(p), rng.uuid(), Some(42));
            catch(|| match dt.insert_with_statistics(v) {
                Ok((InsertionOutcome::Inserted { .. }, _)) => Ok(()),
                Ok((InsertionOutcome::Skipped { error }, _)) => Err(format!("skipped:{}", tri::err_kind(&format!("{error:?}")))),
                Err(e) => Err(format!("err:{}", tri::err_kind(&format!("{e:?}")))),
            })
        }
        "remove" | "remove_bare" => {
            let vs: Vec<_> = dt.vertices().map(|(_, v)| *v).collect();
            let v = *rng.pick(&vs);
            catch(|| dt.remove_vertex(&v).map(|_| ()).map_err(|e| format!("err:{}", tri::err_kind(&format!("{e:?}")))))
        }
        "flip_k2" | "flip_k3" | "flip_k2inv" => {
            // try handles until one passes the pre-checks or 30 tries
            let cks: Vec<_> = dt.cells().map(|(k, _)| k).collect();
            let mut last: Result<Result<(), String>, String> = Ok(Err("err:NoHandle".into()));
            for _ in 0..30 {
                let ck = *rng.pick(&cks);
                let a = rng.below((D + 1) as u64) as u8;
                let b = (a + 1 + rng.below(D as u64) as u8) % (D as u8 + 1);
                let before = fingerprint(dt.tds());
                last = match op {
                    "flip_k2" => catch(|| dt.flip_k2(FacetHandle::new(ck, a)).map(|_| ()).map_err(|e| format!("err:{}", tri::err_kind(&format!("{e:?}"))))),
                    "flip_k3" => catch(|| dt.flip_k3(RidgeHandle::new(ck, a, b)).map(|_| ()).map_err(|e| format!("err:{}", tri::err_kind(&format!("{e:?}"))))),
                    _ => {
                        let vs = dt.tds().get_cell(ck).map(|c| c.vertices().to_vec()).unwrap_or_default();
                        catch(|| dt.flip_k2_inverse_from_edge(EdgeKey::new(vs[a as usize], vs[b as usize])).map(|_| ()).map_err(|e| format!("err:{}", tri::err_kind(&format!("{e:?}")))))
                    }
                };
                // stop at the first success, at the first failure that came from an armed failpoint
                // (NeighborWiring), or when the state changed
                let stop = match &last { Ok(Ok(())) => true, Ok(Err(e)) => e.contains("NeighborWiring"), Err(_) => true };
                if stop || fingerprint(dt.tds()) != before { break; }
            }
            last
        }
        "flip_k1_insert" => {
            let cks: Vec<_> = dt.cells().map(|(k, _)| k).collect();
            let ck = *rng.pick(&cks);
            let vks = dt.tds().get_cell(ck).map(|c| c.vertices().to_vec()).unwrap_or_default();
            let mut p = [0.0f64; D];
            for vk in &vks { if let Some(v) = dt.tds().get_vertex_by_key(*vk) { for i in 0..D { p[i] += v.point().coords()[i] / 8.0; } } }
            if let Some(v0) = vks.first().and_then(|k| dt.tds().get_vertex_by_key(*k)) { let rem = 1.0 - (vks.len() as f64) / 8.0; for i in 0..D { p[i] += rem * v0.point().coords()[i]; } }
            let v = Vertex::new_with_uuid(Point::new(p), rng.uuid(), Some(43));
            catch(|| dt.flip_k1_insert(ck, v).map(|_| ()).map_err(|e| format!("err:{}", tri::err_kind(&format!("{e:?}")))))
        }
        "flip_k1_insert_stale" | "flip_k2_stale" => {
            // a cell key that no longer resolves: remember the keys, insert a vertex on a clone to
            // learn which cell disappears, then use that key against the ORIGINAL state after the
            // same insertion was applied there too (so the key is stale here as well)
            let before_keys: Vec<_> = dt.cells().map(|(k, _)| k).collect();
            let p = pick_pt(dt, rng);
            let _ = catch(|| dt.insert(Vertex::new_with_uuid(Point::new(p), rng.uuid(), Some(44))).is_ok());
            let stale = before_keys.into_iter().find(|k| !dt.tds().contains_cell(*k));
            match stale {
                None => Ok(Err("err:NoStaleKey".into())),
                Some(sk) => {
                    // the fingerprint comparison must ignore the preparatory insertion: report through a marker
                    let mid = fingerprint(dt.tds());
                    let r = if op == "flip_k2_stale" {
                        catch(|| dt.flip_k2(FacetHandle::new(sk, 0)).map(|_| ()).map_err(|e| format!("err:{}", tri::err_kind(&format!("{e:?}")))))
                    } else {
                        let v = Vertex::new_with_uuid(Point::new([0.03125; D]), rng.uuid(), Some(45));
                        catch(|| dt.flip_k1_insert(sk, v).map(|_| ()).map_err(|e| format!("err:{}", tri::err_kind(&format!("{e:?}")))))
                    };
                    let after = fingerprint(dt.tds());
                    match r {
                        Ok(Err(e)) if after != mid => Ok(Err(format!("{e}:CHANGED"))),
                        Ok(Err(_)) => Ok(Err("err:NoStaleKey".into())), // unchanged: report as the neutral outcome (prep insert changed the state legitimately)
                        other => other,
                    }
                }
            }
        }
        "insert_duplicate" => {
            let cs: Vec<[f64; D]> = dt.vertices().map(|(_, v)| *v.point().coords()).collect();
            let c = *rng.pick(&cs);
            catch(|| dt.insert(Vertex::new_with_uuid(Point::new(c), rng.uuid(), Some(46))).map(|_| ()).map_err(|e| format!("err:{}", tri::err_kind(&format!("{e:?}")))))
        }
        "remove_unknown" => {
            let v: Vertex<f64, tri::VData, D> = Vertex::new_with_uuid(Point::new([0.3; D]), rng.uuid(), Some(47));
            catch(|| dt.remove_vertex(&v).map_err(|e| format!("err:{}", tri::err_kind(&format!("{e:?}")))).and_then(|n| if n == 0 { Err("err:ZeroCellsRemoved".to_string()) } else { Ok(()) }))
        }
        "flip_k1_remove" => {
            let vks: Vec<_> = dt.vertices().map(|(k, _)| k).collect();
            let vk = *rng.pick(&vks);
            catch(|| dt.flip_k1_remove(vk).map(|_| ()).map_err(|e| format!("err:{}", tri::err_kind(&format!("{e:?}")))))
        }
        "repair" => catch(|| dt.repair_delaunay_with_flips().map(|_| ()).map_err(|e| format!("err:{}", tri::err_kind(&format!("{e:?}"))))),
        _ => catch(|| dt.repair_delaunay_with_flips_advanced(DelaunayRepairHeuristicConfig::default()).map(|_| ()).map_err(|e| format!("err:{}", tri::err_kind(&format!("{e:?}"))))),
    };
    match r { Ok(Ok(())) => "ok".into(), Ok(Err(e)) => e, Err(m) => format!("panic:{m}") }
}

fn states<const D: usize>(rng: &mut Rng, count: usize) -> Vec<World<D>> {
    let mut out = Vec::new();
    let mut tries = 0;
    while out.len() < count && tries < count * 5 {
        tries += 1;
        let np = D + 3 + rng.below(match D { 2 => 7, 3 => 5, 4 => 3, _ => 2 }) as usize;
        let ps = gens::point_set(rng, D, np);
        if let Some(mut w) = hist::start_built::<D>(&ps.pts, 1, rng) {
            // push some states away from Delaunay so that repairs actually flip
            if rng.chance(1, 2) {
                w.dt.set_delaunay_repair_policy(DelaunayRepairPolicy::Never);
                let _ = crate::p04::random_flips(&mut w.dt, 3, rng);
                w.dt.set_delaunay_repair_policy(DelaunayRepairPolicy::EveryInsertion);
            }
            if w.dt.number_of_cells() > 0 && w.dt.as_triangulation().is_valid().is_ok() { out.push(w); }
        }
    }
    out
}

fn run_d<const D: usize>(cfg: &Cfg, rng: &mut Rng, out: &mut Out) {
    let thorough = cfg.tier == "thorough";
    let pool = states::<D>(rng, if thorough { 6 } else { 3 });
    let ords: &[usize] = if thorough { &[0, 1, 2] } else { &[0, 1] };
    let mut n = 0usize;
    for (si, w) in pool.iter().enumerate() {
        for op in OPS {
            // unarmed run first: natural successes / failures, and the trace of reachable failpoints
            let mut reach: Vec<&'static str> = Vec::new();
            {
                let mut dt = w.dt.clone();
                prep_op(&mut dt, op);
                let before = full_fingerprint(&dt);
                let mut pre = dt.clone();
                verif::disarm();
                verif::trace(true);
                let mut r2 = rng.fork();
                let outcome = run_op(&mut dt, op, &mut r2);
                reach = verif::take_trace();
                verif::trace(false);
                let after = full_fingerprint(&dt);
                n += 1;
                out.case(&format!("x{D}_{si}_{op}_nat"), "txn", &format!("D={D} op={op} fp=none ord=0 fired=0"));
                out.obs("outcome", &outcome);
                out.obs("unchanged", if before == after { "1" } else { "0" });
                if D <= 4 && n % (if thorough { 2 } else { 3 }) == 0 && before == after && (outcome.starts_with("err") || outcome.starts_with("skipped")) {
                    let fseed = 0xF0110 + n as u64;
                    out.obs("followup_same", if followup(&mut dt, fseed) == followup(&mut pre, fseed) { "1" } else { "0" });
                }
                out.obs("dup_probe", if dup_probe_ok(&dt, rng) { "1" } else { "0" });
                out.obs("trace", &reach.join(" "));
                out.end();
            }
            reach.sort();
            reach.dedup();
            for fp in FAILPOINTS.iter().filter(|f| reach.contains(f)) {
                for &ord in ords {
                    let mut dt = w.dt.clone();
                    prep_op(&mut dt, op);
                    let before = full_fingerprint(&dt);
                    let mut pre = dt.clone();
                    verif::arm(fp, ord);
                    verif::trace(true);
                    let mut r2 = rng.fork();
                    let outcome = run_op(&mut dt, op, &mut r2);
                    let tr = verif::take_trace();
                    verif::trace(false);
                    verif::disarm();
                    let fired = tr.iter().filter(|x| *x == fp).count() > ord;
                    let after = full_fingerprint(&dt);
                    n += 1;
                    out.case(&format!("x{D}_{si}_{op}_{}_{ord}", fp.replace('.', "-")), "txn", &format!("D={D} op={op} fp={fp} ord={ord} fired={}", fired as u8));
                    out.obs("outcome", &outcome);
                    out.obs("unchanged", if before == after { "1" } else { "0" });
                    if D <= 4 && n % (if thorough { 2 } else { 3 }) == 0 && before == after && (outcome.starts_with("err") || outcome.starts_with("skipped")) {
                        let fseed = 0xF0220 + n as u64;
                        let (fa, fb) = (followup(&mut dt, fseed), followup(&mut pre, fseed));
                        if fa != fb && std::env::var_os("VH_DEBUG").is_some() { eprintln!("FOLLOWUP x{D}_{si}_{op}_{fp}_{ord}\n A={}\n B={}", &fa[..fa.len().min(300)], &fb[..fb.len().min(300)]); }
                        out.obs("followup_same", if fa == fb { "1" } else { "0" });
                    }
                    out.obs("dup_probe", if dup_probe_ok(&dt, rng) { "1" } else { "0" });
                    out.obs("trace", &tr.join(" "));
                    out.end();
                }
            }
        }
    }
    // natural failures of removal: EVERY vertex of each state in turn (hull vertices make the fan
    // retriangulation succeed and the Level-3 check afterwards fail), with and without a repair pass
    for (si, w) in pool.iter().enumerate() {
        let vs: Vec<_> = w.dt.vertices().map(|(_, v)| *v).collect();
        for (vi, v) in vs.iter().enumerate().take(if thorough { 40 } else { 14 }) {
            for op in ["remove", "remove_bare"] {
                let mut dt = w.dt.clone();
                prep_op(&mut dt, op);
                let before = full_fingerprint(&dt);
                verif::disarm();
                verif::trace(true);
                let outcome = match catch(|| dt.remove_vertex(v).map(|_| ()).map_err(|e| format!("err:{}", tri::err_kind(&format!("{e:?}"))))) {
                    Ok(Ok(())) => "ok".to_string(), Ok(Err(e)) => e, Err(m) => format!("panic:{m}") };
                let tr = verif::take_trace();
                verif::trace(false);
                let after = full_fingerprint(&dt);
                out.case(&format!("x{D}_{si}_{op}_each{vi}"), "txn", &format!("D={D} op={op} fp=none ord=0 fired=0"));
                out.obs("outcome", &outcome);
                out.obs("unchanged", if before == after { "1" } else { "0" });
                out.obs("dup_probe", if dup_probe_ok(&dt, rng) { "1" } else { "0" });
                out.obs("trace", &tr.join(" "));
                out.end();
            }
        }
    }
    let _ = n;
}

pub fn run(cfg: &Cfg, rng: &mut Rng, out: &mut Out) {
    run_d::<2>(cfg, rng, out);
    run_d::<3>(cfg, rng, out);
    run_d::<4>(cfg, rng, out);
    run_d::<5>(cfg, rng, out);
}
