/-
Props/C06.lean — property theorems for C06 (vertex removal yields a valid triangulation minus
that vertex, or no change).

 * `remove_unknown_noop`: unknown UUID ⇒ `Ok(0)` and the state is untouched.
 * `remove_err_unchanged`: any `Err` leaves the state untouched (transactional guard).
 * `remove_ok_valid_or_empty`: on `Ok` with a known UUID the new state has no cells or passed
   Level 3 — for EVERY behaviour of the fan retriangulation / flip repair (a parameter).
 * `removeUuid_*`: bookkeeping — exactly the entries with that UUID disappear, all others keep
   uuid, coordinate bits and data, order preserved.
Known findings kept outside the theorem (see known_findings.json): the `no cells` branch can be
reached with more than D vertices left (F8a), and a hull-vertex removal can return a Level-3-valid
but non-convex, non-Delaunay complex (F8b).  Both are states the model's `unguarded` parameter is
free to produce; the K3 tie reports them.
-/
import DelaunayModel.Model.Remove
namespace DM.C06

open DM.Remove

variable {S : Type}

theorem remove_unknown_noop (env : Env S) (s : S) (u : Nat)
    (h : ∀ v ∈ env.verts s, v.1 ≠ u) : removeVertex env s u = (.ok 0, s) := by
  unfold removeVertex
  have : (env.verts s).any (fun v => v.1 == u) = false := by
    simp only [List.any_eq_false, beq_iff_eq]
    intro v hv; exact h v hv
  simp [this]

theorem remove_err_unchanged (env : Env S) (s : S) (u : Nat) (e : String) (s' : S)
    (h : removeVertex env s u = (.error e, s')) : s' = s := by
  unfold removeVertex at h
  split at h
  · simp at h
  · split at h
    · injection h with _ h2; exact h2.symm
    · split at h
      · simp at h
      · injection h with _ h2; exact h2.symm

theorem remove_ok_valid_or_empty (env : Env S) (s : S) (u : Nat) (n : Nat) (s' : S)
    (hk : ∃ v ∈ env.verts s, v.1 = u)
    (h : removeVertex env s u = (.ok n, s')) :
    ∃ m, env.unguarded s u = .ok (s', m) ∧ m = n ∧ (env.hasCells s' = false ∨ env.level3 s' = true) := by
  unfold removeVertex at h
  have hany : (env.verts s).any (fun v => v.1 == u) = true := by
    obtain ⟨v, hv, hu⟩ := hk
    simp only [List.any_eq_true, beq_iff_eq]
    exact ⟨v, hv, hu⟩
  simp only [hany, Bool.not_true, Bool.false_eq_true, ↓reduceIte] at h
  split at h
  · simp at h
  · rename_i s1 m heq
    split at h
    · rename_i hc
      injection h with h1 h2
      injection h1 with h1
      subst h1; subst h2
      refine ⟨m, heq, rfl, ?_⟩
      simp only [Bool.or_eq_true, Bool.not_eq_eq_eq_not, Bool.not_true] at hc
      exact hc
    · simp at h

/-- bookkeeping: exactly the entries with that UUID disappear -/
theorem removeUuid_mem (V : List VRec) (u : Nat) (v : VRec) :
    v ∈ removeUuid V u ↔ v ∈ V ∧ v.1 ≠ u := by
  simp [removeUuid]

theorem removeUuid_gone (V : List VRec) (u : Nat) : ∀ v ∈ removeUuid V u, v.1 ≠ u := by
  intro v hv; exact ((removeUuid_mem V u v).1 hv).2

/-- all other entries are kept bit-for-bit, in order -/
theorem removeUuid_sublist (V : List VRec) (u : Nat) : (removeUuid V u).Sublist V := by
  unfold removeUuid; exact List.filter_sublist

theorem removeUuid_unknown (V : List VRec) (u : Nat) (h : ∀ v ∈ V, v.1 ≠ u) : removeUuid V u = V := by
  unfold removeUuid
  rw [List.filter_eq_self]
  intro v hv; simpa using h v hv

/-- with unique UUIDs exactly one entry disappears -/
theorem removeUuid_length (V : List VRec) (u : Nat) (hnd : (V.map (·.1)).Nodup)
    (hk : ∃ v ∈ V, v.1 = u) : (removeUuid V u).length + 1 = V.length := by
  induction V with
  | nil => obtain ⟨v, hv, _⟩ := hk; cases hv
  | cons x xs ih =>
    simp only [List.map_cons, List.nodup_cons, List.mem_map, not_exists, not_and] at hnd
    by_cases hx : x.1 = u
    · have : removeUuid (x :: xs) u = xs := by
        have hxs : ∀ v ∈ xs, v.1 ≠ u := by
          intro v hv heq; exact hnd.1 v hv (by rw [heq, hx])
        simp only [removeUuid, List.filter_cons, hx, bne_self_eq_false, Bool.false_eq_true,
          ↓reduceIte]
        exact removeUuid_unknown xs u hxs
      rw [this]; simp
    · have hk' : ∃ v ∈ xs, v.1 = u := by
        obtain ⟨v, hv, hu⟩ := hk
        cases hv with
        | head => exact absurd hu hx
        | tail _ hv => exact ⟨v, hv, hu⟩
      have := ih hnd.2 hk'
      simp only [removeUuid, List.filter_cons, bne_iff_ne, ne_eq, hx, not_false_eq_true,
        ↓reduceIte, List.length_cons] at this ⊢
      omega

/-- non-vacuity: a removal whose unguarded step yields a Level-3-valid state commits it; one that
yields an invalid state is rolled back -/
example : removeVertex (S := Nat)
    { verts := fun _ => [(7, [], 0)], unguarded := fun s _ => .ok (s + 1, 3),
      hasCells := fun _ => true, level3 := fun s => s == 1 } 0 7 = (.ok 3, 1) := by rfl
example : (removeVertex (S := Nat)
    { verts := fun _ => [(7, [], 0)], unguarded := fun s _ => .ok (s + 1, 3),
      hasCells := fun _ => true, level3 := fun _ => false } 0 7).2 = 0 := by rfl

end DM.C06
