/-
Props/C13.lean — property theorems for C13 (serialisation round trip: what the document keeps,
what decoding rebuilds, what a successful load guarantees).

 * §1  `facet_data_nb_independent`: the facet data (`allFacets`, `facetDeg`, `facetKey`,
       `facetOthers`) of a complex depend only on the `(id, vs)` pairs of its cells.
 * §2  `assignNeighbors_some_iff`, `assignNeighbors_spec`: `assignNeighbors` succeeds iff no facet
       is over-shared, keeps `(id, vs)` and sets slot `i` from `facetOthers`.
 * §3  `assignNeighbors_unique`: on a Level-1+2 valid complex re-deriving the neighbours reproduces
       every stored slot (slot-wise, for EVERY index `i`).  Literal equality
       `assignNeighbors K = some K.cells` is FALSE in general (`assignNeighbors_not_literal`: a
       valid cell may store an all-empty buffer `some [none, …]`, the rebuild stores `none`); it
       holds under that normalisation (`assignNeighbors_unique_literal`).
 * §4  `decode_encode_eq` (exact value of `decode (encode K)`), `decode_encode` (the requested
       list of kept data), `decode_encode_eraseInc` (literal round trip modulo incident pointers).
 * §5  `decode_ok_guarantees` (Level 1, no over-shared facet, known vertices, no duplicate cell,
       pairwise distinct vertex uuids)
       + `decode_accepts_incoherent` (known gap F7b).
 * §6  `decode_rejects_*`: concrete rejected documents (incl. `decode_rejects_duplicate_cell`,
       `decode_rejects_duplicate_vertex_uuid`).

Helper lemmas live in Lemmas/SerdeAux.lean.  Everything here is core-only.
-/
import DelaunayModel.Lemmas.SerdeAux
import DelaunayModel.Props.C05
namespace DM.C13

open DM DM.Serde

/-! ## §1 facet data do not see neighbour buffers or vertices -/

/-- `allFacets`, `facetDeg`, `facetKey`, `facetOthers` depend only on the cells' `id` and `vs` —
not on `nb`, not on `K.verts`, not on `K.D` -/
theorem facet_data_nb_independent (K₁ K₂ : Cx)
    (h : K₁.cells.map (fun c => (c.id, c.vs)) = K₂.cells.map (fun c => (c.id, c.vs))) :
    allFacets K₁ = allFacets K₂ ∧
    (∀ key, facetDeg K₁ key = facetDeg K₂ key) ∧
    (∀ c₁ c₂ : Cell, c₁.id = c₂.id → c₁.vs = c₂.vs → ∀ i,
      facetKey c₁ i = facetKey c₂ i ∧ facetOthers K₁ c₁ i = facetOthers K₂ c₂ i) :=
  ⟨allFacets_congr h, facetDeg_congr h,
    fun _ _ hid hv i => ⟨facetKey_congr hv i, facetOthers_congr h hid hv i⟩⟩

/-! ## §2 what `assignNeighbors` computes -/

/-- `assignNeighbors` succeeds exactly when no facet has more than two cells, and then returns the
cells with every neighbour buffer recomputed (`reCell`, Lemmas/SerdeAux) -/
theorem assignNeighbors_some_iff (K : Cx) (cells : List Cell) :
    assignNeighbors K = some cells ↔
      (∀ f ∈ allFacets K, facetDeg K f.1 ≤ 2) ∧ cells = K.cells.map (reCell K) := by
  rw [assignNeighbors_eq_some_iff, C05.facetLe2_iff]

theorem assignNeighbors_none_iff (K : Cx) :
    assignNeighbors K = none ↔ ∃ f ∈ allFacets K, 2 < facetDeg K f.1 := by
  rw [assignNeighbors_eq]
  cases h : facetLe2 K with
  | true =>
    rw [C05.facetLe2_iff] at h
    simp only [if_true]
    constructor
    · intro hh; cases hh
    · rintro ⟨f, hf, hd⟩
      have := h f hf
      omega
  | false =>
    simp only [Bool.false_eq_true, if_false, true_iff]
    apply Classical.byContradiction
    intro hne
    have : facetLe2 K = true := by
      rw [C05.facetLe2_iff]
      intro f hf
      apply Classical.byContradiction
      intro hd
      exact hne ⟨f, hf, by omega⟩
    rw [h] at this
    cases this

/-- the rebuilt cell keeps id and vertex slots; slot `i` is the unique other carrier of the facet
opposite slot `i`, empty if there is none (or — excluded when `assignNeighbors` succeeds and ids are
unique — more than one) -/
theorem reCell_spec (K : Cx) (c : Cell) :
    (reCell K c).id = c.id ∧ (reCell K c).vs = c.vs ∧
    (∀ i, i < c.vs.length → nbSlot (reCell K c) i =
      match facetOthers K c i with
      | [(n, _)] => some n
      | _ => none) ∧
    (∀ i, c.vs.length ≤ i → nbSlot (reCell K c) i = none) ∧
    (∀ l, (reCell K c).nb = some l → l.length = c.vs.length) :=
  ⟨rfl, rfl, fun _ hi => nbSlot_reCell_lt K c hi, fun _ hi => nbSlot_reCell_ge K c hi,
    reCell_nb_length K c⟩

/-- positional form: the `k`-th result cell comes from the `k`-th stored cell -/
theorem assignNeighbors_spec (K : Cx) (cells : List Cell) (h : assignNeighbors K = some cells) :
    cells.map (fun c => (c.id, c.vs)) = K.cells.map (fun c => (c.id, c.vs)) ∧
    ∀ (k : Nat) (hk : k < K.cells.length) (hk' : k < cells.length) (i : Nat),
      i < K.cells[k].vs.length →
        nbSlot cells[k] i =
          match facetOthers K K.cells[k] i with
          | [(n, _)] => some n
          | _ => none := by
  obtain ⟨_, rfl⟩ := (assignNeighbors_eq_some_iff K cells).1 h
  refine ⟨idVs_map_reCell K K.cells, ?_⟩
  intro k hk hk' i hi
  rw [List.getElem_map]
  exact nbSlot_reCell_lt K _ hi

/-! ## §3 the neighbour relation is determined by facet sharing -/

/-- on a valid complex the recomputed slot equals the stored slot, for every index -/
theorem nbSlot_reCell_eq (K : Cx) (h1 : checkL1 K = true) (h2 : checkL2 K = true) (c : Cell)
    (hc : c ∈ K.cells) (i : Nat) : nbSlot (reCell K c) i = nbSlot c i := by
  obtain ⟨_, hcells⟩ := (C05.checkL1_iff K).1 h1
  obtain ⟨_, _, _, _, _, hnbr, _⟩ := (C05.checkL2_iff K).1 h2
  obtain ⟨hlen, _, hnbl⟩ := hcells c hc
  by_cases hi : i < c.vs.length
  · rw [nbSlot_reCell_lt K c hi]
    rcases (hnbr c hc).2 i hi with ⟨h0, hs⟩ | ⟨c', j, ho, hs, _⟩
    · rw [h0, hs]
    · rw [ho, hs]
  · have hi' : c.vs.length ≤ i := Nat.le_of_not_lt hi
    rw [nbSlot_reCell_ge K c hi']
    unfold nbSlot
    cases hnb : c.nb with
    | none => rfl
    | some l =>
      dsimp only
      rw [getD_ge _ (by rw [hnbl l hnb, ← hlen]; exact hi')]

/-- **Proved form: slot-wise, all indices.**  For a complex passing Levels 1 and 2,
`assignNeighbors` succeeds, returns as many cells, and the `k`-th returned cell has the id, the
vertex slots and — for EVERY index `i`, in range or not — the neighbour slot of the `k`-th stored
cell.  (Literal equality of the cell lists fails only through the `nb := none` normalisation, see
`assignNeighbors_not_literal`.) -/
theorem assignNeighbors_unique (K : Cx) (h1 : checkL1 K = true) (h2 : checkL2 K = true) :
    ∃ cells, assignNeighbors K = some cells ∧ cells.length = K.cells.length ∧
      ∀ (k : Nat) (hk : k < K.cells.length) (hk' : k < cells.length),
        cells[k].id = K.cells[k].id ∧ cells[k].vs = K.cells[k].vs ∧
        ∀ i, nbSlot cells[k] i = nbSlot K.cells[k] i := by
  have hle := ((C05.checkL2_iff K).1 h2).2.2.2.2.1
  refine ⟨K.cells.map (reCell K), (assignNeighbors_some_iff K _).2 ⟨hle, rfl⟩, by simp, ?_⟩
  intro k hk hk'
  rw [List.getElem_map]
  exact ⟨rfl, rfl, fun i => nbSlot_reCell_eq K h1 h2 _ (List.getElem_mem hk) i⟩

/-- when is the rebuilt cell literally the stored cell -/
theorem reCell_eq_self (K : Cx) (h1 : checkL1 K = true) (h2 : checkL2 K = true) (c : Cell)
    (hc : c ∈ K.cells) (hn : ∀ l, c.nb = some l → l.all Option.isNone = false) :
    reCell K c = c := by
  obtain ⟨_, hcells⟩ := (C05.checkL1_iff K).1 h1
  obtain ⟨hlen, _, hnbl⟩ := hcells c hc
  have hslot := nbSlot_reCell_eq K h1 h2 c hc
  have hnb : (reCell K c).nb = c.nb := by
    cases hcn : c.nb with
    | none =>
      have hall : (reSlots K c).all Option.isNone = true := by
        rw [List.all_eq_true]
        intro x hx
        obtain ⟨i, hi, rfl⟩ := List.mem_iff_getElem.1 hx
        have := hslot i
        rw [nbSlot_reCell, getD_lt _ hi, nbSlot_of_nb_none hcn] at this
        rw [this]
        rfl
      unfold reCell
      dsimp only
      rw [if_pos hall]
    | some l =>
      have hl : reSlots K c = l := by
        apply nb_ext
        · rw [reSlots_length, hnbl l hcn, hlen]
        · intro i
          have := hslot i
          rw [nbSlot_reCell] at this
          rw [this]
          unfold nbSlot
          rw [hcn]
      unfold reCell
      dsimp only
      rw [hl, hn l hcn]
      rfl
  have e : reCell K c = { id := c.id, vs := c.vs, nb := (reCell K c).nb } := rfl
  rw [e, hnb]

/-- **Literal form, under normalisation.**  If no stored cell carries an all-empty neighbour buffer
(`some [none, …, none]` — the Rust stores `None` for those), re-deriving the neighbours of a
Level-1+2 valid complex returns exactly the stored cells. -/
theorem assignNeighbors_unique_literal (K : Cx) (h1 : checkL1 K = true) (h2 : checkL2 K = true)
    (hn : ∀ c ∈ K.cells, ∀ l, c.nb = some l → l.all Option.isNone = false) :
    assignNeighbors K = some K.cells := by
  have hle := ((C05.checkL2_iff K).1 h2).2.2.2.2.1
  refine (assignNeighbors_some_iff K _).2 ⟨hle, ?_⟩
  conv => lhs; rw [← List.map_id K.cells]
  apply List.map_congr_left
  intro c hc
  exact (reCell_eq_self K h1 h2 c hc (hn c hc)).symm

/-- point `(x, y)` with integer coordinates -/
def ipt (x y : Int) : Option DPt := some [⟨x, 0⟩, ⟨y, 0⟩]

/-- one triangle that stores an all-empty neighbour buffer instead of no buffer -/
def oneTriBuffered : Cx :=
  { D := 2
    verts := [⟨0, ipt 0 0, some 0⟩, ⟨1, ipt 1 0, some 0⟩, ⟨2, ipt 0 1, some 0⟩]
    cells := [⟨0, [0, 1, 2], some [none, none, none]⟩] }

/-- **Counterexample to literal equality without the normalisation**: a complex valid at Levels 1
and 2 whose rebuilt cell list differs from the stored one (buffer `some [none, none, none]` becomes
`none`). -/
theorem assignNeighbors_not_literal :
    checkL1 oneTriBuffered = true ∧ checkL2 oneTriBuffered = true ∧
    assignNeighbors oneTriBuffered = some [⟨0, [0, 1, 2], none⟩] ∧
    assignNeighbors oneTriBuffered ≠ some oneTriBuffered.cells := by decide

/-! ## §4 round trip -/

/-- **Exact value of the round trip.**  For a complex valid at Levels 1 and 2, decoding its
encoding succeeds and returns: the same `D`; the cells with recomputed neighbour buffers
(`= assignNeighbors K`); the vertices with the same uuid and coordinates, in order, and incident
pointers recomputed by `assignIncident`. -/
theorem decode_encode_eq (K : Cx) (h1 : checkL1 K = true) (h2 : checkL2 K = true) :
    decode (encode K) = some
      { D := K.D
        verts := assignIncident (K.verts.map (fun v => (v.id, v.pt))) (K.cells.map (reCell K))
        cells := K.cells.map (reCell K) } := by
  obtain ⟨hverts, hcells⟩ := (C05.checkL1_iff K).1 h1
  obtain ⟨⟨hndv, hnd⟩, hex, _, hdup, hle, _, _⟩ := (C05.checkL2_iff K).1 h2
  have hb : builtCx (encode K) (idVs K.cells) =
      { D := K.D
        verts := assignIncident (K.verts.map (fun v => (v.id, v.pt))) (K.cells.map (reCell K))
        cells := K.cells.map (reCell K) } := by
    unfold builtCx
    rw [rawCells_map_reCell]
    rfl
  rw [← hb, decode_eq_some_iff]
  have hvids : ((encode K).verts.map (·.1)).Nodup := by
    have e : (encode K).verts.map (·.1) = K.verts.map (·.id) := by
      unfold encode
      dsimp only
      rw [List.map_map]
      rfl
    rw [e]
    exact hndv
  refine ⟨hvids, idVs K.cells, tableRows_encode K hnd, ?_, ?_, ?_, ?_, rfl⟩
  · -- every listed vertex uuid is stored
    unfold rowsKnown idVs
    simp only [List.all_eq_true, List.mem_map, List.any_eq_true, beq_iff_eq]
    rintro _ ⟨c, hc, rfl⟩ v hv
    obtain ⟨x, hx, hxv⟩ := hex c hc v hv
    exact ⟨(x.id, x.pt), List.mem_map.2 ⟨x, hx, rfl⟩, hxv⟩
  · -- no over-shared facet
    have : idVs (rawCx (encode K).D (idVs K.cells)).cells = idVs K.cells := idVs_rawCells _
    rw [facetLe2_congr this, C05.facetLe2_iff]
    exact hle
  · -- Level 1 of the rebuilt complex
    rw [hb, C05.checkL1_iff]
    constructor
    · intro v hv
      have hm := mem_assignIncident hv
      rw [List.mem_map] at hm
      obtain ⟨x, hx, he⟩ := hm
      obtain ⟨p, hp, hpl⟩ := hverts x hx
      refine ⟨p, ?_, hpl⟩
      rw [← hp]
      exact (congrArg Prod.snd he).symm
    · intro c' hc'
      rw [List.mem_map] at hc'
      obtain ⟨c, hc, rfl⟩ := hc'
      obtain ⟨hlen, hndv, _⟩ := hcells c hc
      refine ⟨hlen, hndv, fun l hl => ?_⟩
      rw [reCell_nb_length K c l hl]
      exact hlen
  · -- no duplicate cell in the rebuilt complex: `noDupCells` only sees the vertex slots
    have : idVs (builtCx (encode K) (idVs K.cells)).cells = idVs K.cells := idVs_builtCx _ _
    rw [noDupCells_congr this, C05.noDupCells_iff]
    exact hdup

/-- **Round trip (requested form).**  For `K` valid at Levels 1 and 2, `decode (encode K)` is some
`K'` with the same dimension, the same vertex uuids and coordinates in the same order, the same
cells (uuid and vertex slots, slot order kept) in the same order, and — cell by cell, for every
slot index — the same neighbour slots; moreover `K'.cells` is exactly what `assignNeighbors K`
returns. -/
theorem decode_encode (K : Cx) (h1 : checkL1 K = true) (h2 : checkL2 K = true) :
    ∃ K', decode (encode K) = some K' ∧ K'.D = K.D ∧
      K'.verts.map (fun v => (v.id, v.pt)) = K.verts.map (fun v => (v.id, v.pt)) ∧
      K'.cells.map (fun c => (c.id, c.vs)) = K.cells.map (fun c => (c.id, c.vs)) ∧
      assignNeighbors K = some K'.cells ∧
      K'.cells.length = K.cells.length ∧
      ∀ (k : Nat) (hk : k < K.cells.length) (hk' : k < K'.cells.length) (i : Nat),
        nbSlot K'.cells[k] i = nbSlot K.cells[k] i := by
  have hle := ((C05.checkL2_iff K).1 h2).2.2.2.2.1
  refine ⟨_, decode_encode_eq K h1 h2, rfl, assignIncident_idpt _ _, idVs_map_reCell K K.cells,
    (assignNeighbors_some_iff K _).2 ⟨hle, rfl⟩, by simp, ?_⟩
  intro k hk hk' i
  dsimp only
  rw [List.getElem_map]
  exact nbSlot_reCell_eq K h1 h2 _ (List.getElem_mem hk) i

/-- **Literal round trip modulo incident pointers.**  If in addition no stored cell carries an
all-empty neighbour buffer, `decode (encode K)` is `K` itself up to the rebuilt incident-cell
pointers (`eraseInc`). -/
theorem decode_encode_eraseInc (K : Cx) (h1 : checkL1 K = true) (h2 : checkL2 K = true)
    (hn : ∀ c ∈ K.cells, ∀ l, c.nb = some l → l.all Option.isNone = false) :
    (decode (encode K)).map eraseInc = some (eraseInc K) := by
  have hcells : K.cells.map (reCell K) = K.cells := by
    conv => rhs; rw [← List.map_id K.cells]
    apply List.map_congr_left
    intro c hc
    exact reCell_eq_self K h1 h2 c hc (hn c hc)
  rw [decode_encode_eq K h1 h2, hcells]
  unfold eraseInc assignIncident
  simp only [Option.map_some, List.map_map]
  rfl

/-! ## §5 what a successful load guarantees — and what it does not -/

/-- whatever the document: a successful `decode` returns a complex that passes Level 1, has no
facet shared by more than two cells, whose cells only name stored vertices, in which no two
cells have the same vertex set (fix F7c), and whose vertex uuids are pairwise distinct (duplicate
vertex uuid rejected) -/
theorem decode_ok_guarantees (doc : Doc) (K : Cx) (h : decode doc = some K) :
    checkL1 K = true ∧
    (∀ f ∈ allFacets K, facetDeg K f.1 ≤ 2) ∧
    (∀ c ∈ K.cells, ∀ v ∈ c.vs, ∃ x ∈ K.verts, x.id = v) ∧
    noDupCells K = true ∧
    (K.verts.map (·.id)).Nodup := by
  obtain ⟨hvnd, cvs, _, hknown, hle, hl1, hdup, rfl⟩ := (decode_eq_some_iff doc K).1 h
  refine ⟨hl1, ?_, ?_, hdup, ?_⟩
  rotate_right
  · show ((assignIncident doc.verts _).map (·.id)).Nodup
    rw [assignIncident_ids]
    exact hvnd
  · have : idVs (builtCx doc cvs).cells = idVs (rawCx doc.D cvs).cells := by
      rw [idVs_builtCx]
      exact (idVs_rawCells cvs).symm
    rw [← C05.facetLe2_iff, facetLe2_congr this]
    exact hle
  · intro c hc v hv
    have hmem : (c.id, c.vs) ∈ cvs := by
      have := List.mem_map_of_mem (f := fun c : Cell => (c.id, c.vs)) hc
      have e := idVs_builtCx doc cvs
      unfold idVs at e
      rwa [e] at this
    unfold rowsKnown at hknown
    rw [List.all_eq_true] at hknown
    have h2 := hknown _ hmem
    simp only [List.all_eq_true, List.any_eq_true, beq_iff_eq] at h2
    obtain ⟨p, hp, hpv⟩ := h2 v hv
    obtain ⟨x, hx, hxid, _⟩ := exists_mem_assignIncident (verts := doc.verts)
      ((rawCells cvs).map (reCell (rawCx doc.D cvs))) hp
    exact ⟨x, hx, hxid.trans hpv⟩

/-- moreover the loaded complex's cells are exactly the table rows of the listed cells, and its
vertices exactly the document's -/
theorem decode_ok_content (doc : Doc) (K : Cx) (h : decode doc = some K) :
    K.D = doc.D ∧ K.verts.map (fun v => (v.id, v.pt)) = doc.verts ∧
    K.cells.map (·.id) = doc.cells ∧ assignNeighbors K = some K.cells := by
  obtain ⟨_, cvs, hrows, _, hle, _, _, rfl⟩ := (decode_eq_some_iff doc K).1 h
  refine ⟨rfl, assignIncident_idpt _ _, ?_, ?_⟩
  · have e := idVs_builtCx doc cvs
    have : (builtCx doc cvs).cells.map (·.id) = (idVs (builtCx doc cvs).cells).map (·.1) := by
      simp [idVs, List.map_map, Function.comp_def]
    rw [this, e]
    exact tableRows_ids doc cvs hrows
  · have hid : idVs (builtCx doc cvs).cells = idVs (rawCx doc.D cvs).cells := by
      rw [idVs_builtCx]
      exact (idVs_rawCells cvs).symm
    rw [assignNeighbors_eq_some_iff, facetLe2_congr hid]
    refine ⟨hle, ?_⟩
    show (rawCells cvs).map (reCell (rawCx doc.D cvs)) =
      ((rawCells cvs).map (reCell (rawCx doc.D cvs))).map (reCell (builtCx doc cvs))
    rw [List.map_map]
    apply List.map_congr_left
    intro c _
    exact (reCell_congr hid rfl rfl).symm

/-- two triangles on the unit square whose second cell lists its vertices as `[1, 2, 3]` (the
coherent order is `[1, 3, 2]`, cf. `C05.twoTri`) -/
def incoherentDoc : Doc :=
  { D := 2
    verts := [(0, ipt 0 0), (1, ipt 1 0), (2, ipt 0 1), (3, ipt 1 1)]
    cells := [0, 1]
    table := [(0, [0, 1, 2]), (1, [1, 2, 3])] }

/-- **Known gap F7b.**  Coherent orientation is NOT among the load guarantees: this document loads
(with the neighbour slots across the shared edge `{1,2}` filled in), the loaded complex passes
Level 1, yet fails Level 2 — precisely its orientation-coherence component. -/
theorem decode_accepts_incoherent :
    (decode incoherentDoc).isSome = true ∧
    (decode incoherentDoc).map (fun K => K.cells) =
      some [⟨0, [0, 1, 2], some [some 1, none, none]⟩, ⟨1, [1, 2, 3], some [none, none, some 0]⟩] ∧
    (decode incoherentDoc).map checkL1 = some true ∧
    (decode incoherentDoc).map checkL2 = some false ∧
    (decode incoherentDoc).map coherent = some false ∧
    (decode incoherentDoc).map (fun K => idsUnique K && vertsExist K && incidentOk K &&
      noDupCells K && facetLe2 K && nbrOk K) = some true := by decide

/-- the same document with the second cell in coherent order loads into a Level-2 valid complex -/
theorem decode_coherent_ok :
    (decode { incoherentDoc with table := [(0, [0, 1, 2]), (1, [1, 3, 2])] }).map checkL2 =
      some true := by decide

/-! ## §6 rejected documents (2-D) -/

/-- four stored vertices used by the rejection examples -/
def sqVerts : List (Nat × Option DPt) := [(0, ipt 0 0), (1, ipt 1 0), (2, ipt 0 1), (3, ipt 1 1)]

/-- a cell listing `D` vertices -/
theorem decode_rejects_too_few :
    (decode { D := 2, verts := sqVerts, cells := [0], table := [(0, [0, 1])] }).isNone = true := by
  decide

/-- a cell listing `D + 2` vertices -/
theorem decode_rejects_too_many :
    (decode { D := 2, verts := sqVerts, cells := [0], table := [(0, [0, 1, 2, 3])] }).isNone
      = true := by decide

/-- a cell repeating a vertex -/
theorem decode_rejects_repeated_vertex :
    (decode { D := 2, verts := sqVerts, cells := [0], table := [(0, [0, 1, 1])] }).isNone
      = true := by decide

/-- a cell naming a vertex uuid that is not stored -/
theorem decode_rejects_unknown_vertex :
    (decode { D := 2, verts := sqVerts, cells := [0], table := [(0, [0, 1, 7])] }).isNone
      = true := by decide

/-- a listed cell without a table entry -/
theorem decode_rejects_missing_table_entry :
    (decode { D := 2, verts := sqVerts, cells := [0, 1], table := [(0, [0, 1, 2])] }).isNone
      = true := by decide

/-- three cells sharing the edge `{0, 1}` -/
theorem decode_rejects_overshared_facet :
    (decode { D := 2, verts := sqVerts ++ [(4, ipt 2 2)], cells := [0, 1, 2],
              table := [(0, [0, 1, 2]), (1, [0, 1, 3]), (2, [0, 1, 4])] }).isNone = true := by
  decide

/-- five stored vertices: the unit square and `(2, 2)` -/
def dupVerts : List (Nat × Option DPt) := sqVerts ++ [(4, ipt 2 2)]

/-- three cells, the first two with the same three vertex ids; the third touches them only in
vertex `2`.  Every edge is shared by at most two cells, so `assignNeighbors` does not reject. -/
def dupCellDoc : Doc :=
  { D := 2, verts := dupVerts, cells := [0, 1, 2],
    table := [(0, [0, 1, 2]), (1, [0, 1, 2]), (2, [2, 3, 4])] }

/-- **Fix F7c.**  Two cells with the same vertex set: rejected -/
theorem decode_rejects_duplicate_cell : decode dupCellDoc = none := by decide

/-- … and for that reason only: every listed vertex is stored, no facet is over-shared
(`assignNeighbors` succeeds on the raw cells), the rebuilt complex passes Level 1 — only the
duplicate-cell test fails -/
theorem dupCellDoc_fails_only_noDupCells :
    tableRows dupCellDoc = some dupCellDoc.table ∧
    rowsKnown dupCellDoc dupCellDoc.table = true ∧
    (assignNeighbors (rawCx dupCellDoc.D dupCellDoc.table)).isSome = true ∧
    checkL1 (builtCx dupCellDoc dupCellDoc.table) = true ∧
    noDupCells (builtCx dupCellDoc dupCellDoc.table) = false := by decide

/-- the duplicate may also list the vertices in another slot order (the mirror-image cell) -/
theorem decode_rejects_duplicate_cell_permuted :
    decode { dupCellDoc with table := [(0, [0, 1, 2]), (1, [1, 0, 2]), (2, [2, 3, 4])] } = none := by
  decide

/-- the same document with the duplicate cell removed is accepted: the rejection above is due to
the duplicate alone -/
example :
    (decode { dupCellDoc with cells := [0, 2], table := [(0, [0, 1, 2]), (2, [2, 3, 4])] }).isSome
      = true := by decide

/-- the unit square plus a fifth record `(2, 2)` that reuses uuid `0` of the first record; the
single cell `[0, 1, 2]` is well formed and names stored vertices only -/
def dupVertexUuidDoc : Doc :=
  { D := 2, verts := sqVerts ++ [(0, ipt 2 2)], cells := [0], table := [(0, [0, 1, 2])] }

/-- **Duplicate vertex uuid.**  Two vertex records with the same uuid: rejected -/
theorem decode_rejects_duplicate_vertex_uuid : decode dupVertexUuidDoc = none := by decide

/-- … and for that reason only: the cell has a table row, every listed vertex is stored, no facet
is over-shared, the rebuilt complex passes Level 1 and has no duplicate cell — only the
vertex-uuid test fails -/
theorem dupVertexUuidDoc_fails_only_vertIdsNodup :
    vertIdsNodup dupVertexUuidDoc = false ∧
    tableRows dupVertexUuidDoc = some dupVertexUuidDoc.table ∧
    rowsKnown dupVertexUuidDoc dupVertexUuidDoc.table = true ∧
    (assignNeighbors (rawCx dupVertexUuidDoc.D dupVertexUuidDoc.table)).isSome = true ∧
    checkL1 (builtCx dupVertexUuidDoc dupVertexUuidDoc.table) = true ∧
    noDupCells (builtCx dupVertexUuidDoc dupVertexUuidDoc.table) = true := by decide

/-- in general: ANY document in which two vertex records share a uuid is rejected -/
theorem decode_rejects_any_duplicate_vertex_uuid (doc : Doc)
    (h : ¬ (doc.verts.map (·.1)).Nodup) : decode doc = none :=
  decode_eq_none_of_dup doc h

/-- the same document with the duplicate record removed is accepted: the rejection above is due to
the duplicate uuid alone -/
example : (decode { dupVertexUuidDoc with verts := sqVerts }).isSome = true := by decide

/-- … and so is the same document with the duplicate record given a fresh uuid -/
example :
    (decode { dupVertexUuidDoc with verts := sqVerts ++ [(4, ipt 2 2)] }).isSome = true := by decide

/-- a vertex with a non-finite coordinate -/
theorem decode_rejects_nonfinite_vertex :
    (decode { D := 2, verts := [(0, ipt 0 0), (1, ipt 1 0), (2, none)], cells := [0],
              table := [(0, [0, 1, 2])] }).isNone = true := by decide

/-- the plain valid document is accepted (the rejections above are not vacuous) -/
theorem decode_accepts_valid :
    (decode { D := 2, verts := sqVerts, cells := [0], table := [(0, [0, 1, 2])] }).isSome
      = true := by decide

/-- and `C05.twoTri` round-trips literally, modulo incident pointers -/
theorem twoTri_roundtrip :
    (decode (encode C05.twoTri)).map (fun K => K.cells) = some C05.twoTri.cells := by decide

end DM.C13
