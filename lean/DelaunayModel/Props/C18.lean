/-
Props/C18.lean — property theorems for C18 (exact simplex measures, Model/Measures.lean).

For a `D`-simplex `s` (`D + 1` integer points with `D` coordinates each):
 * §1  `vol2_perm`            (D!·V)² does not depend on the vertex order
 * §2  `vol2_translate(')`    D!·V (signed) and its square are translation invariant
 * §3  `vol2_scale(')`        scaling all coordinates by `k` multiplies D!·V by `k^D`
 * §4  `degenerate_iff`, `vol2_nonneg`
 * §5  `volDet_edges_exact`   D!·V = (-1)^D · det (edge matrix);  `volDet_edges` (sign form)
 * §6  `gram_eq_det2`         det (E·Eᵀ) = (det E)² for a square edge matrix;
       `measure2_full_eq_vol2` the Gram-determinant measure of a full-dimensional simplex is (D!·V)²
 * §7  `sqrtBounds_spec`, `sqrtBounds_encloses`   lo/sc ≤ √(n/d) < hi/sc, exactly
 * §8  non-vacuity on the 3-4-5 right triangle
What is NOT proved here: anything about the floating-point evaluation in the Rust (the tie is K1
with a stated tolerance); `circumOffset` solving the circumcentre equations (Cramer's rule) is
only checked on the examples.

Helper lemmas live in Lemmas/MeasAux.lean (Mathlib: `Matrix.det` only).
-/
import DelaunayModel.Lemmas.MeasAux
namespace DM.C18

open DM DM.Measures

/-! ## §1 vertex order -/

/-- permuting the vertices changes the signed volume determinant at most by sign … -/
theorem volDet_perm {D : Nat} {s s' : List IPt} (hl : s.length = D + 1)
    (hs : ∀ p ∈ s, p.length = D) (hp : s.Perm s') :
    volDet s' = volDet s ∨ volDet s' = - volDet s :=
  det_perm (square_orientRows hl hs) (hp.map (fun p => p ++ [1]))

/-- … so the squared volume numerator does not depend on the vertex order -/
theorem vol2_perm {D : Nat} {s s' : List IPt} (hl : s.length = D + 1)
    (hs : ∀ p ∈ s, p.length = D) (hp : s.Perm s') : vol2Num s' = vol2Num s := by
  unfold vol2Num
  rcases volDet_perm hl hs hp with h | h <;> rw [h]
  exact neg_mul_neg _ _

/-! ## §5 (first, the others follow from it) edge matrix -/

/-- **Exact form.**  The orientation determinant (rows `[p_i | 1]`) equals `(-1)^D` times the
determinant of the edge matrix (rows `p_i − p_0`, `i = 1..D`). -/
theorem volDet_edges_exact {D : Nat} {s : List IPt} (hl : s.length = D + 1)
    (hs : ∀ p ∈ s, p.length = D) : volDet s = (-1) ^ D * det (edges0 s) :=
  orientDet_eq_edges hl hs

/-- **Sign form** (as requested): up to a sign that depends only on `D` -/
theorem volDet_edges {D : Nat} {s : List IPt} (hl : s.length = D + 1)
    (hs : ∀ p ∈ s, p.length = D) :
    ∃ σ : Int, (σ = 1 ∨ σ = -1) ∧ volDet s = σ * det (edges0 s) := by
  refine ⟨(-1) ^ D, ?_, volDet_edges_exact hl hs⟩
  rcases Nat.even_or_odd D with h | h
  · exact Or.inl h.neg_one_pow
  · exact Or.inr h.neg_one_pow

/-- the sign is the same for all simplices of one dimension -/
theorem volDet_edges_uniform (D : Nat) :
    ∃ σ : Int, (σ = 1 ∨ σ = -1) ∧ ∀ s : List IPt, s.length = D + 1 → (∀ p ∈ s, p.length = D) →
      volDet s = σ * det (edges0 s) := by
  refine ⟨(-1) ^ D, ?_, fun s hl hs => volDet_edges_exact hl hs⟩
  rcases Nat.even_or_odd D with h | h
  · exact Or.inl h.neg_one_pow
  · exact Or.inr h.neg_one_pow

/-- hence the squared volume numerator is the squared edge determinant -/
theorem vol2_eq_edges {D : Nat} {s : List IPt} (hl : s.length = D + 1)
    (hs : ∀ p ∈ s, p.length = D) : vol2Num s = det (edges0 s) * det (edges0 s) := by
  unfold vol2Num
  rw [volDet_edges_exact hl hs]
  have h : ((-1 : Int) ^ D) * ((-1) ^ D) = 1 := by
    rw [← mul_pow]; simp
  calc (-1) ^ D * det (edges0 s) * ((-1) ^ D * det (edges0 s))
      = ((-1) ^ D * (-1) ^ D) * (det (edges0 s) * det (edges0 s)) := by ring
    _ = det (edges0 s) * det (edges0 s) := by rw [h, one_mul]

/-! ## §2 translation -/

/-- translating every vertex by the same vector leaves the signed volume determinant unchanged -/
theorem vol2_translate {D : Nat} {s : List IPt} (t : IPt) (hl : s.length = D + 1)
    (hs : ∀ p ∈ s, p.length = D) (ht : t.length = D) :
    volDet (s.map (fun p => List.zipWith (· + ·) p t)) = volDet s := by
  change volDet (s.map (translate t)) = volDet s
  have hl' : (s.map (translate t)).length = D + 1 := by simpa using hl
  have hs' : ∀ p ∈ s.map (translate t), p.length = D := by
    intro p hp
    rw [List.mem_map] at hp
    obtain ⟨q, hq, rfl⟩ := hp
    exact translate_length t q ht (hs q hq)
  rw [volDet_edges_exact hl' hs', volDet_edges_exact hl hs, edges0_translate t s ht hs]

theorem vol2_translate' {D : Nat} {s : List IPt} (t : IPt) (hl : s.length = D + 1)
    (hs : ∀ p ∈ s, p.length = D) (ht : t.length = D) :
    vol2Num (s.map (fun p => List.zipWith (· + ·) p t)) = vol2Num s := by
  unfold vol2Num
  rw [vol2_translate t hl hs ht]

/-! ## §3 scaling -/

/-- scaling all coordinates by `k` multiplies the signed volume determinant by `k ^ D` -/
theorem vol2_scale {D : Nat} {s : List IPt} (k : Int) (hl : s.length = D + 1)
    (hs : ∀ p ∈ s, p.length = D) :
    volDet (s.map (fun p => p.map (k * ·))) = k ^ D * volDet s := by
  have hl' : (s.map (fun p => p.map (k * ·))).length = D + 1 := by simpa using hl
  have hs' : ∀ p ∈ s.map (fun p => p.map (k * ·)), p.length = D := by
    intro p hp
    rw [List.mem_map] at hp
    obtain ⟨q, hq, rfl⟩ := hp
    simpa using hs q hq
  rw [volDet_edges_exact hl' hs', volDet_edges_exact hl hs, edges0_scale,
    det_scale k (square_edges0 hl hs)]
  ring

theorem vol2_scale' {D : Nat} {s : List IPt} (k : Int) (hl : s.length = D + 1)
    (hs : ∀ p ∈ s, p.length = D) :
    vol2Num (s.map (fun p => p.map (k * ·))) = k ^ (2 * D) * vol2Num s := by
  unfold vol2Num
  rw [vol2_scale k hl hs]
  ring

/-! ## §4 degeneracy -/

theorem degenerate_iff (s : List IPt) : vol2Num s = 0 ↔ orientDet s = 0 := by
  unfold vol2Num volDet
  exact mul_self_eq_zero

theorem degenerate_iff_sign (s : List IPt) : vol2Num s = 0 ↔ orientSign s = 0 := by
  rw [degenerate_iff]
  unfold orientSign sgn
  constructor
  · intro h; rw [h]; rfl
  · intro h
    split_ifs at h <;> omega

theorem vol2_nonneg (s : List IPt) : 0 ≤ vol2Num s := mul_self_nonneg _

/-! ## §6 Gram determinant -/

/-- for `D` edge vectors in dimension `D`: `det (E·Eᵀ) = (det E)²` -/
theorem gram_eq_det2 {D : Nat} {E : List IPt} (h : Square D E) :
    det (gram E) = det E * det E := by
  rw [det_eq_matrix_det (square_gram h), matOf_gram h, Matrix.det_mul, Matrix.det_transpose,
    det_eq_matrix_det h]

/-- so the Gram-determinant measure of a full-dimensional simplex is its squared volume numerator:
`measure2Num s = (D!·V)²` -/
theorem measure2_full_eq_vol2 {D : Nat} {s : List IPt} (hl : s.length = D + 1)
    (hs : ∀ p ∈ s, p.length = D) : measure2Num s = vol2Num s := by
  unfold measure2Num
  rw [gram_eq_det2 (square_edges0 hl hs), vol2_eq_edges hl hs]

/-- hence all of §1–§3 hold for `measure2Num` of a full-dimensional simplex as well -/
theorem measure2_full_nonneg {D : Nat} {s : List IPt} (hl : s.length = D + 1)
    (hs : ∀ p ∈ s, p.length = D) : 0 ≤ measure2Num s := by
  rw [measure2_full_eq_vol2 hl hs]; exact vol2_nonneg s

/-! ## §7 square-root enclosure -/

/-- `(lo, hi, sc) = sqrtBounds n d prec`: `lo² ≤ n·d·4^prec < hi²`, `hi = lo + 1`,
`sc = d·2^prec` -/
theorem sqrtBounds_spec (n d prec : Nat) :
    (sqrtBounds n d prec).1 * (sqrtBounds n d prec).1 ≤ n * d * 4 ^ prec ∧
    n * d * 4 ^ prec < (sqrtBounds n d prec).2.1 * (sqrtBounds n d prec).2.1 ∧
    (sqrtBounds n d prec).2.2 = d * 2 ^ prec ∧
    (sqrtBounds n d prec).2.1 = (sqrtBounds n d prec).1 + 1 :=
  ⟨Nat.sqrt_le _, Nat.lt_succ_sqrt _, rfl, rfl⟩

/-- for `d > 0` the bounds enclose `√(n/d)`: `(lo/sc)² ≤ n/d < (hi/sc)²`, cross-multiplied -/
theorem sqrtBounds_encloses (n d prec : Nat) (hd : 0 < d) :
    (sqrtBounds n d prec).1 * (sqrtBounds n d prec).1 * d ≤
      n * ((sqrtBounds n d prec).2.2 * (sqrtBounds n d prec).2.2) ∧
    n * ((sqrtBounds n d prec).2.2 * (sqrtBounds n d prec).2.2) <
      (sqrtBounds n d prec).2.1 * (sqrtBounds n d prec).2.1 * d := by
  obtain ⟨h1, h2, h3, _⟩ := sqrtBounds_spec n d prec
  have h4 : (4 : Nat) ^ prec = 2 ^ prec * 2 ^ prec := by
    rw [← Nat.mul_pow]
  have hsc : n * ((sqrtBounds n d prec).2.2 * (sqrtBounds n d prec).2.2) =
      n * d * 4 ^ prec * d := by
    rw [h3, h4]; ring
  rw [hsc]
  exact ⟨Nat.mul_le_mul_right d h1, Nat.mul_lt_mul_of_pos_right h2 hd⟩

/-! ## §8 non-vacuity: the 3-4-5 right triangle -/

/-- right angle at the origin, legs 4 and 3 -/
def tri345 : List IPt := [[0, 0], [4, 0], [0, 3]]

/-- `2!·area = 12` (area 6), positively oriented -/
theorem tri345_volDet : volDet tri345 = 12 ∧ vol2Num tri345 = 144 ∧ orientSign tri345 = 1 := by
  decide

/-- the edge determinant and the Gram determinant agree with §5/§6 -/
theorem tri345_edges :
    edges0 tri345 = [[4, 0], [0, 3]] ∧ det (edges0 tri345) = 12 ∧
    gram (edges0 tri345) = [[16, 0], [0, 9]] ∧ measure2Num tri345 = 144 := by decide

/-- circumcentre offset `(2, 3/2)` from the right-angle vertex (numerators over `2·det E = 24`),
circumradius² `= 3600/576 = 25/4` (half the hypotenuse 5, squared) -/
theorem tri345_circum :
    circumOffset tri345 = ([48, 36], 24) ∧ circumradius2 tri345 = (3600, 576) ∧
    (circumradius2 tri345).1 * 4 = 25 * (circumradius2 tri345).2 := by decide

/-- the squared length of the leg `(0,0)–(4,0)` -/
theorem leg_measure2 : measure2Num [[0, 0], [4, 0]] = 16 := by decide

/-- the squared hypotenuse, a 1-simplex in the plane (not full-dimensional) -/
theorem hyp_measure2 : measure2Num [[4, 0], [0, 3]] = 25 := by decide

/-- three collinear points: degenerate -/
theorem collinear_degenerate :
    vol2Num [[0, 0], [1, 1], [2, 2]] = 0 ∧ orientSign [[0, 0], [1, 1], [2, 2]] = 0 := by decide

/-- the invariances on the example: reversing two vertices, translating by `(5,-7)`, scaling by 3 -/
theorem tri345_invariances :
    volDet [[4, 0], [0, 0], [0, 3]] = -12 ∧
    volDet (tri345.map (fun p => List.zipWith (· + ·) p [5, -7])) = 12 ∧
    volDet (tri345.map (fun p => p.map (3 * ·))) = 3 ^ 2 * 12 := by decide

/-- the hypotheses of the general theorems are satisfiable -/
theorem tri345_simplex : tri345.length = 2 + 1 ∧ ∀ p ∈ tri345, p.length = 2 := by decide

end DM.C18
