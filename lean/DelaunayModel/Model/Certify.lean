/-
Model/Certify.lean — independent recomputation of "is this a certified Delaunay triangulation":
L1–L3 from Model/Cx plus, in exact integer arithmetic,
  * empty circumsphere: no vertex strictly inside the circumsphere of any cell,
  * convex boundary: every vertex on the closed inner side of every boundary facet,
  * in general position: the cell set equals the brute-force Delaunay set `bruteDT`.
The K3 tie applies these to whatever the real code returned.
-/
import DelaunayModel.Model.Cx
namespace DM

/-- vertices (ids) with exact integer points -/
def vertPts (K : Cx) (emin : Int) : List (Nat × IPt) :=
  K.verts.filterMap (fun v => v.pt.map (fun p => (v.id, p.map (·.scaled emin))))

/-- all strict empty-sphere violations `(cell id, vertex id)` in exact arithmetic -/
def sphereViolations (K : Cx) : List (Nat × Nat) :=
  let emin := minExp (allPts K)
  let vp := vertPts K emin
  K.cells.flatMap (fun c =>
    match cellPts K emin c with
    | none => []
    | some s =>
      if orientSign s == 0 then [] else
      vp.filterMap (fun (vid, p) =>
        if c.vs.contains vid then none
        else if insphereSign s p > 0 then some (c.id, vid) else none))

def emptySphere (K : Cx) : Bool := (sphereViolations K).isEmpty

/-- boundary facets as (cell, slot) -/
def boundarySlots (K : Cx) : List (Cell × Nat) :=
  K.cells.flatMap (fun c => (List.range c.vs.length).filterMap (fun i =>
    if facetDeg K (facetKey c i) == 1 then some (c, i) else none))

/-- vertices strictly beyond some boundary facet: `(cell id, slot, vertex id)` -/
def convexityViolations (K : Cx) : List (Nat × Nat × Nat) :=
  let emin := minExp (allPts K)
  let vp := vertPts K emin
  (boundarySlots K).flatMap (fun (c, i) =>
    match cellPts K emin c with
    | none => []
    | some s =>
      let o := orientSign s
      vp.filterMap (fun (vid, p) =>
        if c.vs.contains vid then none
        else if orientSign (s.set i p) * o < 0 then some (c.id, i, vid) else none))

def convexBoundary (K : Cx) : Bool := (convexityViolations K).isEmpty

/-- brute-force Delaunay cells of a point set in general position: sorted id lists -/
def bruteDT (D : Nat) (vp : List (Nat × IPt)) : List (List Nat) :=
  let ids := sortNat (vp.map (·.1))
  (subsetsK (D + 1) ids).filter (fun S =>
    match S.mapM (fun i => vp.lookup i) with
    | none => false
    | some s =>
      orientSign s != 0 &&
      vp.all (fun (vid, p) => S.contains vid || insphereSign s p < 0))

/-- exact general position: no D+1 points on a hyperplane, no D+2 on a sphere -/
def generalPosition (D : Nat) (vp : List (Nat × IPt)) : Bool :=
  let ids := sortNat (vp.map (·.1))
  (subsetsK (D + 1) ids).all (fun S =>
    match S.mapM (fun i => vp.lookup i) with
    | none => false
    | some s => orientSign s != 0 && vp.all (fun (vid, p) => S.contains vid || insphereSign s p != 0))

def sameCellSet (K : Cx) (cells : List (List Nat)) : Bool :=
  let ks := K.cells.map cellKey
  ks.all cells.contains && cells.all ks.contains && ks.length == cells.length

structure Certificate where
  l1 : Bool
  l2 : Bool
  l3 : Bool
  sphere : Bool
  convex : Bool
  deriving Repr

def certify (K : Cx) (g : Guarantee) : Certificate :=
  { l1 := checkL1 K, l2 := checkL2 K, l3 := checkL3 K g true,
    sphere := emptySphere K, convex := convexBoundary K }

def Certificate.ok (c : Certificate) : Bool := c.l1 && c.l2 && c.l3 && c.sphere && c.convex

end DM
