/-
Model/DupCache.lean — the duplicate-coordinate cache as a state machine
(src/core/triangulation.rs `duplicate_coordinates_error` :3188, `insert_transactional` index update
:3085; src/core/collections/spatial_hash_grid.rs; src/core/delaunay_triangulation.rs
`ensure_spatial_index_seeded` :4568, `as_triangulation_mut` :3665; src/triangulation/flips.rs
DelaunayTriangulation Edit-API methods, with the `fix:` that drops the grid after k=1 edits).

Coordinates are integers in units of a fine resolution (every finite f64 coordinate set can be
scaled to integers); the grid cell size `c > 0` equals the duplicate tolerance, so a point `q` is a
duplicate of `p` iff `dist²(p,q) < c²`.
-/
namespace DM.DupCache

abbrev Pt := List Int

def dist2 (p q : Pt) : Int := (List.zipWith (fun a b => (a - b) * (a - b)) p q).foldl (· + ·) 0

/-- grid bucket of a point: floor division of every coordinate by the cell size -/
def bucket (c : Int) (p : Pt) : List Int := p.map (· / c)

/-- `b` lies in the 3^D neighbourhood of `a` -/
def nearBucket (a b : List Int) : Bool :=
  a.length == b.length && (List.zipWith (fun x y => decide (x - y ≤ 1 ∧ y - x ≤ 1)) a b).all id

structure St where
  c : Int                              -- cell size = tolerance (positive)
  verts : List (Nat × Pt)              -- live vertices (key, coordinates); keys are never reused (`rebuild` renumbers all of them at once)
  idx : Option (List (Nat × Pt))       -- grid entries (key, coordinates when inserted); `none` = no grid
  deriving Repr

/-- linear scan: is `q` within tolerance of a live vertex? -/
def scanDup (s : St) (q : Pt) : Bool := s.verts.any (fun v => decide (dist2 v.2 q < s.c * s.c))

/-- grid query: candidates in the 3^D neighbourhood whose key still resolves to a live vertex -/
def gridDup (s : St) (entries : List (Nat × Pt)) (q : Pt) : Bool :=
  entries.any (fun e =>
    nearBucket (bucket s.c q) (bucket s.c e.2) &&
    (match s.verts.lookup e.1 with
     | none => false                    -- stale key: the vertex is gone
     | some p => decide (dist2 p q < s.c * s.c)))

/-- `duplicate_coordinates_error`: grid if present, scan otherwise -/
def isDup (s : St) (q : Pt) : Bool :=
  match s.idx with
  | some es => gridDup s es q
  | none => scanDup s q

inductive Op where
  | seed                                  -- ensure_spatial_index_seeded / batch build keeps a full grid
  | insert (k : Nat) (p : Pt)             -- committed insertion: vertex + grid entry
  | remove (k : Nat)                      -- remove_vertex: vertex set only (stale grid entries remain)
  | editInsert (k : Nat) (p : Pt)         -- Edit-API flip_k1_insert: vertex set changes, grid DROPPED
  | editRemove (k : Nat)                  -- Edit-API flip_k1_remove: vertex set changes, grid DROPPED
  | dropIndex                             -- as_triangulation_mut / heuristic rebuild / deserialisation
  | clone                                 -- clone: same state
  | rebuild (b : Nat)                     -- initial-simplex bootstrap: the Tds is REPLACED, every live
                                          -- vertex gets a fresh key (b, b+1, …); the grid is re-keyed
                                          -- from the rebuilt structure (fix F22)
  deriving Repr

/-- fresh keys `b, b+1, …` for the vertices in storage order -/
def rekey (b : Nat) (vs : List (Nat × Pt)) : List (Nat × Pt) :=
  vs.zipIdx.map (fun (v, i) => (b + i, v.2))

def step (s : St) : Op → St
  | .seed => match s.idx with
    | some _ => s
    | none => { s with idx := some s.verts }
  | .insert k p =>
    if isDup s p || s.verts.any (·.1 == k) then s      -- refused: nothing changes
    else { s with verts := (k, p) :: s.verts, idx := s.idx.map ((k, p) :: ·) }
  | .remove k => { s with verts := s.verts.filter (·.1 != k) }
  | .editInsert k p =>
    if s.verts.any (·.1 == k) then s else { s with verts := (k, p) :: s.verts, idx := none }
  | .editRemove k => { s with verts := s.verts.filter (·.1 != k), idx := none }
  | .dropIndex => { s with idx := none }
  | .clone => s
  | .rebuild b => let vs := rekey b s.verts; { s with verts := vs, idx := s.idx.map (fun _ => vs) }

def run (s : St) (ops : List Op) : St := ops.foldl step s

/-- the invariant: no grid, or every live vertex has its own entry in the grid -/
def Consistent (s : St) : Prop :=
  match s.idx with
  | none => True
  | some es => ∀ v ∈ s.verts, v ∈ es

/-- keys of live vertices are unique -/
def KeysUnique (s : St) : Prop := (s.verts.map (·.1)).Nodup

/-! ### the extended machine: coordinates that cannot be keyed

The real grid (`HashGridIndex`, cell size 1e-10) cannot put a coordinate into a bucket when its
quotient by the cell size is too large to be keyed exactly (`|c / cell| ≥ 2^53`). The real code is
conservative at two sites:
 * INSERTING an un-keyable point DISABLES the whole grid (every later query falls back to the
   linear scan) — modelled as `idx := none`;
 * a QUERY at an un-keyable point reports "index not used", so the caller falls back to the scan.
The machine is parameterised by an ARBITRARY predicate `keyable : Pt → Bool` (nothing is assumed
about which points are keyable).

`seed` (reading chosen): `ensure_spatial_index_seeded` builds the grid by inserting every live
vertex; inserting an un-keyable one disables the grid. So: if a grid exists nothing changes (as in
`step`); if there is none and EVERY live vertex is keyable the full grid is built (as in `step`);
if some live vertex is un-keyable the result is NO grid (`idx` stays `none`). This is the
conservative reading: a grid never holds, and never silently omits, an un-keyable live vertex.
A disabled grid of the real code and "no grid" are the same thing for the duplicate check (both
scan), so both are `idx = none` here; the model allows a later `seed` to build a grid again once
the un-keyable vertices are gone (a superset of the real behaviours). -/
namespace Keyed

/-- `duplicate_coordinates_error` with the fallback: the grid answers only if it exists AND the
query point can be keyed; otherwise the linear scan answers -/
def isDupK (keyable : Pt → Bool) (s : St) (q : Pt) : Bool :=
  match s.idx with
  | some es => if keyable q then gridDup s es q else scanDup s q
  | none => scanDup s q

def stepK (keyable : Pt → Bool) (s : St) : Op → St
  | .seed => match s.idx with
    | some _ => s
    | none =>
      if s.verts.all (fun v => keyable v.2) then { s with idx := some s.verts }
      else { s with idx := none }         -- some live vertex cannot be keyed: no grid
  | .insert k p =>
    if isDupK keyable s p || s.verts.any (·.1 == k) then s      -- refused: nothing changes
    else if keyable p then { s with verts := (k, p) :: s.verts, idx := s.idx.map ((k, p) :: ·) }
    else { s with verts := (k, p) :: s.verts, idx := none }     -- un-keyable: the grid is DROPPED
  | .remove k => { s with verts := s.verts.filter (·.1 != k) }
  | .editInsert k p =>
    if s.verts.any (·.1 == k) then s else { s with verts := (k, p) :: s.verts, idx := none }
  | .editRemove k => { s with verts := s.verts.filter (·.1 != k), idx := none }
  | .dropIndex => { s with idx := none }
  | .clone => s
  | .rebuild b => let vs := rekey b s.verts; { s with verts := vs, idx := s.idx.map (fun _ => vs) }

def runK (keyable : Pt → Bool) (s : St) (ops : List Op) : St := ops.foldl (stepK keyable) s

/-- the invariant of the extended machine: no grid, or (every live vertex has its own entry in the
grid AND every live vertex is keyable) -/
def ConsistentK (keyable : Pt → Bool) (s : St) : Prop :=
  match s.idx with
  | none => True
  | some es => (∀ v ∈ s.verts, v ∈ es) ∧ (∀ v ∈ s.verts, keyable v.2 = true)

end Keyed

end DM.DupCache
