//! C01 — every Ok from a constructor is exported and judged by the exact oracle (K3).
use crate::common::{Ids, Out, Rng};
use crate::gens;
use crate::tri::{self, Opts};
use crate::Cfg;
use delaunay::core::delaunay_triangulation::DelaunayTriangulation;
use delaunay::geometry::kernel::{FastKernel, RobustKernel};

fn sizes(d: usize, rng: &mut Rng, big: bool) -> usize {
    let (lo, hi) = match d {
        2 => (3, if big { 40 } else { 14 }),
        3 => (4, if big { 30 } else { 12 }),
        4 => (5, if big { 16 } else { 10 }),
        _ => (6, if big { 12 } else { 9 }),
    };
    rng.range(lo, hi) as usize
}

pub fn one<const D: usize>(id: &str, ps: &gens::PointSet, g: usize, robust: bool, opts: &Opts, api: u8, rng: &mut Rng, out: &mut Out) {
    let vs = tri::make_vertices::<D>(&ps.pts, rng);
    if std::env::var("VH_DUMP").ok().as_deref() == Some(id) {
        for v in &vs { eprintln!("DUMP {id} vertex uuid={} coords={:?} data={:?}", v.uuid(), v.point(), v.data); }
        eprintln!("DUMP {id} g={g} robust={robust} {} api={api}", opts.tag());
    }
    let mut ids = Ids::default();
    out.case(
        id,
        "cx",
        &format!(
            "D={D} fam={} gp={} g={g} kernel={} {} api={api} expect=certified n={} dedup_tol={}",
            ps.family,
            ps.gp as u8,
            if robust { "robust" } else { "fast" },
            opts.tag(),
            vs.len(),
            crate::common::hx(if opts.dedup == 2 { 1e-9 } else { 0.0 })
        ),
    );
    tri::input_lines(&vs, &mut ids, out);
    macro_rules! finish {
        ($r:expr, $stats:expr) => {
            match $r {
                Err(m) => out.obs("result", &format!("panic:{m}")),
                Ok(Err(e)) => out.obs("result", &format!("err {}", tri::err_kind(&e))),
                Ok(Ok(dt)) => {
                    out.obs("result", "ok");
                    out.obs("nverts", &dt.number_of_vertices().to_string());
                    if let Some((ins, skd, skg)) = $stats {
                        out.obs("stats", &format!("{ins} {skd} {skg}"));
                    }
                    tri::export(&dt, &mut ids, out);
                    tri::observe_validators(&dt, out, true);
                }
            }
        };
    }
    if api == 3 {
        // thin public wrappers: default options
        let r = crate::common::catch(|| DelaunayTriangulation::<FastKernel<f64>, tri::VData, tri::CData, D>::with_topology_guarantee(&FastKernel::new(), &vs, tri::guarantee(g)).map_err(|e| format!("{e:?}")));
        finish!(r, None::<(usize, usize, usize)>);
    } else if api == 4 {
        let r = crate::common::catch(|| delaunay::core::builder::DelaunayTriangulationBuilder::from_vertices(&vs)
            .topology_guarantee(tri::guarantee(g)).construction_options(opts.build())
            .build_with_kernel::<RobustKernel<f64>, tri::CData>(&RobustKernel::new()).map_err(|e| format!("{e:?}")));
        finish!(r, None::<(usize, usize, usize)>);
    } else if api == 5 {
        let r = crate::common::catch(|| DelaunayTriangulation::<FastKernel<f64>, tri::VData, tri::CData, D>::with_kernel(&FastKernel::new(), &vs).map_err(|e| format!("{e:?}")));
        finish!(r, None::<(usize, usize, usize)>);
    } else if robust {
        let r = tri::build_robust::<D>(&vs, g, opts);
        finish!(r, None::<(usize, usize, usize)>);
    } else if api == 1 {
        // statistics variant
        let r = crate::common::catch(|| {
            DelaunayTriangulation::<FastKernel<f64>, tri::VData, tri::CData, D>::with_topology_guarantee_and_options_with_construction_statistics(
                &FastKernel::new(), &vs, tri::guarantee(g), opts.build())
            .map_err(|e| format!("{:?}", e.error))
        });
        match r {
            Err(m) => out.obs("result", &format!("panic:{m}")),
            Ok(Err(e)) => out.obs("result", &format!("err {}", tri::err_kind(&e))),
            Ok(Ok((dt, st))) => {
                let r2: Result<Result<_, String>, String> = Ok(Ok(dt));
                finish!(r2, Some((st.inserted, st.skipped_duplicate, st.skipped_degeneracy)));
            }
        }
    } else if api == 2 {
        // builder
        let r = crate::common::catch(|| {
            delaunay::core::builder::DelaunayTriangulationBuilder::from_vertices(&vs)
                .topology_guarantee(tri::guarantee(g))
                .construction_options(opts.build())
                .build::<tri::CData>()
                .map_err(|e| format!("{e:?}"))
        });
        finish!(r, None::<(usize, usize, usize)>);
    } else {
        let r = tri::build_fast::<D>(&vs, g, opts);
        finish!(r, None::<(usize, usize, usize)>);
    }
    let _ = RobustKernel::<f64>::new();
    out.end();
}

pub fn run(cfg: &Cfg, rng: &mut Rng, out: &mut Out) {
    let thorough = cfg.tier == "thorough";
    // unsuitable input must yield Err, never a panic: inputs too small (or too small after dedup)
    // through every constructor API
    crate::p19::small_inputs::<2>("sm2", rng, out);
    crate::p19::small_inputs::<3>("sm3", rng, out);
    crate::p19::small_inputs::<4>("sm4", rng, out);
    let n = if thorough { 2500 } else { 260 };
    for i in 0..n {
        let d = 2 + (i % 4);
        let big = thorough && rng.chance(1, 4);
        let np = sizes(d, rng, big);
        let ps = gens::point_set(rng, d, np);
        let g = [1usize, 1, 0, 2][rng.below(4) as usize];
        let robust = rng.chance(1, 3);
        let opts = if rng.chance(1, 3) { Opts { order: 3, dedup: 0, simplex: 0, retry: 0 } } else { Opts::random(rng) };
        let api = rng.below(3) as u8;
        let id = format!("b{i}");
        match d {
            2 => one::<2>(&id, &ps, g, robust, &opts, api, rng, out),
            3 => one::<3>(&id, &ps, g, robust, &opts, api, rng, out),
            4 => one::<4>(&id, &ps, g, robust, &opts, api, rng, out),
            _ => one::<5>(&id, &ps, g, robust, &opts, api, rng, out),
        }
    }
    // the thin public wrappers (with_topology_guarantee, with_kernel, builder.build_with_kernel)
    let defaults = Opts { order: 3, dedup: 0, simplex: 0, retry: 0 };
    for i in 0..(if thorough { 240 } else { 36 }) {
        let d = 2 + (i % 4);
        let np = sizes(d, rng, false);
        let ps = gens::point_set(rng, d, np);
        let api = 3 + (i / 4 % 3) as u8;
        // with_kernel uses the default guarantee (PLManifold)
        let g = if api == 5 { 1 } else { [1usize, 0, 2][rng.below(3) as usize] };
        let opts = if api == 4 { Opts::random(rng) } else { defaults.clone() };
        let id = format!("w{i}");
        match d {
            2 => one::<2>(&id, &ps, g, api == 4, &opts, api, rng, out),
            3 => one::<3>(&id, &ps, g, api == 4, &opts, api, rng, out),
            4 => one::<4>(&id, &ps, g, api == 4, &opts, api, rng, out),
            _ => one::<5>(&id, &ps, g, api == 4, &opts, api, rng, out),
        }
    }
    // stratified sweep: every degenerate family meets every topology guarantee in D = 3..5 under
    // the DEFAULT options (random sampling combines them too rarely)
    let reps = if thorough { 6 } else { 1 };
    for d in 3..=5usize {
        for g in 0..3usize {
            for fam in 5..12u64 {
                for r in 0..reps {
                    let np = sizes(d, rng, false);
                    let ps = gens::point_set_fam(rng, d, np, fam);
                    let o = Opts { order: 3, dedup: 0, simplex: 0, retry: 0 };
                    let id = format!("w{d}_{g}_{fam}_{r}");
                    match d {
                        3 => one::<3>(&id, &ps, g, false, &o, 3, rng, out),
                        4 => one::<4>(&id, &ps, g, false, &o, 3, rng, out),
                        _ => one::<5>(&id, &ps, g, false, &o, 3, rng, out),
                    }
                }
            }
        }
    }
    // lattice sweep: small integer lattices (many cospherical / coplanar subsets: the first attempt
    // often fails and the shuffled retries run) through EVERY constructor family x retry policy
    for d in 3..=4usize {
        for rep in 0..(if thorough { 6 } else { 2 }) {
            let side: i64 = if d == 3 { 3 } else { 2 };
            let mut all: Vec<Vec<i64>> = vec![vec![]];
            for _ in 0..d { all = all.into_iter().flat_map(|p| (0..side).map(move |x| { let mut q = p.clone(); q.push(x); q })).collect(); }
            rng.shuffle(&mut all);
            let keep = if rep == 0 { all.len() } else { (d + 6 + rng.below(8) as usize).min(all.len()) };
            all.truncate(keep);
            let ps = gens::PointSet { family: "lattice_sweep", pts: gens::to_f(&all, 1.0, 0.0), gp: false };
            for api in [0u8, 1, 2] {
                for retry in [0u8, 1, 2] {
                    let o = Opts { order: [0u8, 3][(rep + api as usize) % 2], dedup: 0, simplex: 0, retry };
                    let id = format!("lt{d}_{rep}_{api}_{retry}");
                    match d {
                        3 => one::<3>(&id, &ps, [1usize, 0][rep % 2], false, &o, api, rng, out),
                        _ => one::<4>(&id, &ps, [1usize, 0][rep % 2], false, &o, api, rng, out),
                    }
                }
            }
        }
    }
    // dedup sweep: every dedup policy meets duplicates, near-duplicates and coordinates that are
    // huge relative to the tolerance (|c| / tol beyond 2^53 and 2^63: the fallback paths), through
    // the statistics constructor so that every input vertex must be accounted for
    for d in 2..=5usize {
        for dedup in 0..3u8 {
            for far_exp in [0i32, 24, 34, 40] {
                let mut pts = gens::to_f(&gens::general_position(rng, d, d + 3, 8), 1.0, 0.0);
                let dup = pts[1].clone();
                pts.insert(3, dup);                                  // exact duplicate
                let mut near = pts[0].clone(); near[0] += 2.5e-10;   // within / beyond the tolerances
                pts.push(near);
                if far_exp > 0 { let mut far = vec![1.0; d]; far[d - 1] = 2f64.powi(far_exp) + 3.0; pts.insert(2, far); }
                let ps = gens::PointSet { family: "dedup_sweep", pts, gp: false };
                let o = Opts { order: rng.below(4) as u8, dedup, simplex: 0, retry: 0 };
                let id = format!("dd{d}_{dedup}_{far_exp}");
                match d {
                    2 => one::<2>(&id, &ps, 1, false, &o, 1, rng, out),
                    3 => one::<3>(&id, &ps, 1, false, &o, 1, rng, out),
                    4 => one::<4>(&id, &ps, 1, false, &o, 1, rng, out),
                    _ => one::<5>(&id, &ps, 1, false, &o, 1, rng, out),
                }
            }
        }
    }
    // unsuitable input: too few points, all duplicates, collinear-only
    for d in 2..=5usize {
        for (k, pts) in [
            gens::to_f(&gens::random_grid(rng, d, d, 4), 1.0, 0.0),
            vec![vec![1.0; d]; d + 2],
            (0..d + 3).map(|i| { let mut p = vec![0.0; d]; p[0] = i as f64; p }).collect::<Vec<_>>(),
        ].into_iter().enumerate() {
            let ps = gens::PointSet { family: "unsuitable", pts, gp: false };
            let id = format!("u{d}_{k}");
            let o = Opts { order: 3, dedup: 0, simplex: 0, retry: 1 };
            match d {
                2 => one::<2>(&id, &ps, 1, false, &o, 0, rng, out),
                3 => one::<3>(&id, &ps, 1, false, &o, 0, rng, out),
                4 => one::<4>(&id, &ps, 1, false, &o, 0, rng, out),
                _ => one::<5>(&id, &ps, 1, false, &o, 0, rng, out),
            }
        }
    }
}
