/-
Lemmas/VertexLinkAux.lean — helper definitions and lemmas for the vertex-link validator
(`vertexLink`, `linkSkeletonConnected`, `linkFacetsOk`, `vertexLinkOk`, `vertexLinksOk`,
`boundaryVerts` in Model/Cx.lean) used by Props/C05.lean §9:
 * membership in `vertexLink`, emptiness of the link,
 * proof-side names for the lists the validators build internally (`linkVerts`, `linkEdges2`,
   `linkSkeletonEdges`, `linkFacets`, `linkBoundaryFacets`, `linkBoundaryRidges`) with the
   unfolding lemmas (`linkSkeletonConnected_eq`, `linkFacetsOk_eq`, `vertexLinkOk_eq`, all `rfl`)
   and their membership lemmas,
 * a version of the `graphReach` fixpoint lemma with an arbitrary bounding vertex list (the link
   skeleton may have vertices on no edge) and `graphReach_length_eq_iff`,
 * `linkSkeletonConnected_spec`.
Core only (no Mathlib).
-/
import DelaunayModel.Lemmas.LinkAux
namespace DM

/-! ### the link of a vertex -/

theorem mem_vertexLink (K : Cx) (v : Nat) (s : List Nat) :
    s ∈ vertexLink K v ↔ ∃ c ∈ K.cells, v ∈ c.vs ∧ s = c.vs.filter (· != v) := by
  unfold vertexLink
  rw [List.mem_filterMap]
  refine exists_congr fun c => and_congr Iff.rfl ?_
  by_cases h : c.vs.contains v = true
  · rw [if_pos h]
    have hm : v ∈ c.vs := List.contains_iff_mem.1 h
    constructor
    · intro he
      cases he
      exact ⟨hm, rfl⟩
    · rintro ⟨_, rfl⟩
      rfl
  · rw [if_neg h]
    constructor
    · intro he; cases he
    · rintro ⟨hm, _⟩
      exact absurd (List.contains_iff_mem.2 hm) h

theorem vertexLink_eq_nil (K : Cx) (v : Nat) :
    vertexLink K v = [] ↔ ∀ c ∈ K.cells, v ∉ c.vs := by
  rw [List.eq_nil_iff_forall_not_mem]
  constructor
  · intro h c hc hv
    exact h _ ((mem_vertexLink K v _).2 ⟨c, hc, hv, rfl⟩)
  · intro h s hs
    obtain ⟨c, hc, hv, _⟩ := (mem_vertexLink K v s).1 hs
    exact h c hc hv

theorem mem_boundaryVerts (K : Cx) (v : Nat) :
    v ∈ boundaryVerts K ↔ ∃ k ∈ boundaryFacets K, v ∈ k := by
  unfold boundaryVerts
  simp only [List.mem_flatMap, id]

/-! ### the distinct vertices of a link -/

/-- the distinct vertices of the link simplices (the `vs` of `linkSkeletonConnected`, the list
whose length the `D = 1` case of `vertexLinkOk` tests) -/
def linkVerts (link : List (List Nat)) : List Nat := dedupL (link.flatMap id)

theorem mem_linkVerts (link : List (List Nat)) (x : Nat) :
    x ∈ linkVerts link ↔ ∃ s ∈ link, x ∈ s := by
  unfold linkVerts
  rw [mem_dedupL]
  simp only [List.mem_flatMap, id]

theorem linkVerts_nodup (link : List (List Nat)) : (linkVerts link).Nodup := nodup_dedupL _

theorem dedupL_eq_nil {α : Type} [BEq α] [LawfulBEq α] (l : List α) : dedupL l = [] ↔ l = [] := by
  rw [List.eq_nil_iff_forall_not_mem, List.eq_nil_iff_forall_not_mem]
  exact forall_congr' fun x => not_congr (mem_dedupL l x)

/-! ### the edges of a 1-dimensional link (`D = 2`) -/

/-- the link simplices with exactly two vertices, as pairs (slot order kept) -/
def linkEdges2 (link : List (List Nat)) : List (Nat × Nat) :=
  link.filterMap (fun e => match e with | [a, b] => some (a, b) | _ => none)

theorem pairOf_eq_some (e : List Nat) (a b : Nat) :
    (match e with | [x, y] => some (x, y) | _ => none) = some (a, b) ↔ e = [a, b] := by
  split
  · rename_i x y
    constructor
    · intro h; cases h; rfl
    · intro h; cases h; rfl
  · rename_i hne
    constructor
    · intro h; cases h
    · intro h; exact absurd h (hne a b)

theorem mem_linkEdges2 (link : List (List Nat)) (a b : Nat) :
    (a, b) ∈ linkEdges2 link ↔ [a, b] ∈ link := by
  unfold linkEdges2
  rw [List.mem_filterMap]
  constructor
  · rintro ⟨e, he, h⟩
    rw [(pairOf_eq_some e a b).1 h] at he
    exact he
  · intro h
    exact ⟨[a, b], h, rfl⟩

/-! ### the 1-skeleton of a link -/

/-- the edge list `es` of `linkSkeletonConnected`: all pairs (smaller entry first) inside a link
simplex -/
def linkSkeletonEdges (link : List (List Nat)) : List (Nat × Nat) :=
  link.flatMap (fun s => (subsetsK 2 (sortNat s)).filterMap
    (fun e => match e with | [a, b] => some (a, b) | _ => none))

theorem linkSkeletonConnected_eq (link : List (List Nat)) :
    linkSkeletonConnected link =
      match linkVerts link with
      | [] => true
      | v :: rest =>
        (graphReach (dedupEdges (linkSkeletonEdges link)) (rest.length + 1) [v]).length
          == rest.length + 1 := rfl

theorem mem_linkSkeletonEdges (link : List (List Nat)) (a b : Nat) :
    (a, b) ∈ linkSkeletonEdges link ↔ ∃ s ∈ link, [a, b].Sublist (sortNat s) := by
  unfold linkSkeletonEdges
  rw [List.mem_flatMap]
  refine exists_congr fun s => and_congr Iff.rfl ?_
  rw [List.mem_filterMap]
  constructor
  · rintro ⟨e, he, h⟩
    rw [(pairOf_eq_some e a b).1 h, mem_subsetsK] at he
    exact he.1
  · intro h
    exact ⟨[a, b], (mem_subsetsK 2 _ _).2 ⟨h, rfl⟩, rfl⟩

/-- two distinct entries of a list form a two-element sublist in one of the two orders -/
theorem pair_sublist_of_mem {a b : Nat} {l : List Nat} (ha : a ∈ l) (hb : b ∈ l) (hne : a ≠ b) :
    [a, b].Sublist l ∨ [b, a].Sublist l := by
  induction l with
  | nil => cases ha
  | cons x xs ih =>
    rcases List.mem_cons.1 ha with rfl | ha'
    · rcases List.mem_cons.1 hb with h | hb'
      · exact absurd h.symm hne
      · exact Or.inl (List.Sublist.cons_cons _ (List.singleton_sublist.2 hb'))
    · rcases List.mem_cons.1 hb with rfl | hb'
      · exact Or.inr (List.Sublist.cons_cons _ (List.singleton_sublist.2 ha'))
      · rcases ih ha' hb' with h | h
        · exact Or.inl (List.Sublist.cons _ h)
        · exact Or.inr (List.Sublist.cons _ h)

/-- two distinct vertices are adjacent in the skeleton iff some link simplex contains both -/
theorem adj_linkSkeletonEdges (link : List (List Nat)) (a b : Nat) (hne : a ≠ b) :
    Adj (linkSkeletonEdges link) a b ↔ ∃ s ∈ link, a ∈ s ∧ b ∈ s := by
  unfold Adj
  simp only [mem_linkSkeletonEdges]
  constructor
  · rintro (⟨s, hs, h⟩ | ⟨s, hs, h⟩)
    · exact ⟨s, hs, mem_sortNat.1 (h.subset (by simp)), mem_sortNat.1 (h.subset (by simp))⟩
    · exact ⟨s, hs, mem_sortNat.1 (h.subset (by simp)), mem_sortNat.1 (h.subset (by simp))⟩
  · rintro ⟨s, hs, ha, hb⟩
    rcases pair_sublist_of_mem (mem_sortNat.2 ha) (mem_sortNat.2 hb) hne with h | h
    · exact Or.inl ⟨s, hs, h⟩
    · exact Or.inr ⟨s, hs, h⟩

/-- any adjacency of the skeleton is inside a link simplex (also for a loop) -/
theorem adj_linkSkeletonEdges_mem (link : List (List Nat)) (a b : Nat)
    (h : Adj (linkSkeletonEdges link) a b) : ∃ s ∈ link, a ∈ s ∧ b ∈ s := by
  unfold Adj at h
  simp only [mem_linkSkeletonEdges] at h
  rcases h with ⟨s, hs, h⟩ | ⟨s, hs, h⟩
  · exact ⟨s, hs, mem_sortNat.1 (h.subset (by simp)), mem_sortNat.1 (h.subset (by simp))⟩
  · exact ⟨s, hs, mem_sortNat.1 (h.subset (by simp)), mem_sortNat.1 (h.subset (by simp))⟩

/-! ### `graphReach` inside an arbitrary bounding vertex list -/

/-- `graphReach_fixpoint` with any edge-closed bounding list `B` instead of `graphVerts es` (the
start vertex need not lie on an edge) -/
theorem graphReach_fixpoint_of_bound (es : List (Nat × Nat)) (B : List Nat)
    (hB : ∀ e ∈ es, (e.1 ∈ B ↔ e.2 ∈ B)) (f : Nat) (seen : List Nat)
    (hnd : seen.Nodup) (hs : ∀ x ∈ seen, x ∈ B) (hf : B.length < seen.length + f) :
    gRound es (graphReach es f seen) = graphReach es f seen := by
  induction f generalizing seen with
  | zero =>
    have := nodup_subset_length_le (l₂ := B) hnd hs
    omega
  | succ f ih =>
    rw [graphReach_succ]
    split
    · rename_i h
      exact gRound_eq_of_length es seen (by simpa using h)
    · rename_i h
      have hlt : seen.length < (gRound es seen).length := by
        have := (gRound_suffix es seen).length_le
        have hne : (gRound es seen).length ≠ seen.length := by simpa using h
        omega
      exact ih _ (gRound_nodup es seen hnd) (gRound_inv _ es hB seen hs) (by omega)

/-- if `B` is duplicate-free and contains the endpoints of every edge and the start vertex `v`,
then with fuel ≥ `B.length` the search from `v` collects `B.length` vertices iff every entry of `B`
is joined to `v` -/
theorem graphReach_length_eq_iff (es : List (Nat × Nat)) (B : List Nat) (hBnd : B.Nodup)
    (hB : ∀ e ∈ es, e.1 ∈ B ∧ e.2 ∈ B) (v : Nat) (hv : v ∈ B) (f : Nat) (hf : B.length ≤ f) :
    (graphReach es f [v]).length = B.length ↔ ∀ x ∈ B, GReach es v x := by
  have hB' : ∀ e ∈ es, (e.1 ∈ B ↔ e.2 ∈ B) := fun e he =>
    ⟨fun _ => (hB e he).2, fun _ => (hB e he).1⟩
  have hQ : ∀ e ∈ es, ((GReach es v e.1 ∧ e.1 ∈ B) ↔ (GReach es v e.2 ∧ e.2 ∈ B)) :=
    fun e he =>
      ⟨fun h => ⟨GReach.step h.1 (Or.inl he), (hB e he).2⟩,
       fun h => ⟨GReach.step h.1 (Or.inr he), (hB e he).1⟩⟩
  have hsound : ∀ x ∈ graphReach es f [v], GReach es v x ∧ x ∈ B :=
    graphReach_inv _ es hQ _ [v] (fun x hx => by
      rw [List.mem_singleton] at hx
      subst hx
      exact ⟨GReach.refl, hv⟩)
  have hnd : (graphReach es f [v]).Nodup := graphReach_nodup es _ [v] (by simp)
  have hsub : ∀ x ∈ graphReach es f [v], x ∈ B := fun x hx => (hsound x hx).2
  have hfix := graphReach_fixpoint_of_bound es B hB' f [v] (by simp)
    (fun x hx => by
      rw [List.mem_singleton] at hx
      subst hx
      exact hv)
    (by simp only [List.length_singleton]; omega)
  have hstart : v ∈ graphReach es f [v] := (graphReach_suffix es _ [v]).subset (by simp)
  constructor
  · intro hl x hx
    have hall := subset_of_nodup_subset_length_eq hnd hsub (by rw [hl]; exact Nat.le_refl _)
    exact (hsound x (hall x hx)).1
  · intro hall
    have h1 := nodup_subset_length_le hnd hsub
    have h2 : B.length ≤ (graphReach es f [v]).length :=
      nodup_subset_length_le hBnd (fun x hx =>
        greach_mem_of_fixpoint es _ hfix hstart (hall x hx))
    omega

/-- `linkSkeletonConnected`: any two link vertices are joined by a path of skeleton edges -/
theorem linkSkeletonConnected_spec (link : List (List Nat)) :
    linkSkeletonConnected link = true ↔
      ∀ u w, u ∈ linkVerts link → w ∈ linkVerts link → GReach (linkSkeletonEdges link) u w := by
  rw [linkSkeletonConnected_eq]
  cases hlv : linkVerts link with
  | nil =>
    simp only [true_iff]
    intro u w hu _
    cases hu
  | cons v rest =>
    have hv : v ∈ linkVerts link := by rw [hlv]; simp
    have hlen : (linkVerts link).length = rest.length + 1 := by rw [hlv]; rfl
    have hB : ∀ e ∈ dedupEdges (linkSkeletonEdges link),
        e.1 ∈ linkVerts link ∧ e.2 ∈ linkVerts link := by
      intro e he
      have hadj : Adj (linkSkeletonEdges link) e.1 e.2 :=
        (adj_dedupEdges _ _ _).1 (Or.inl he)
      obtain ⟨s, hs, h1, h2⟩ := adj_linkSkeletonEdges_mem link _ _ hadj
      exact ⟨(mem_linkVerts link _).2 ⟨s, hs, h1⟩, (mem_linkVerts link _).2 ⟨s, hs, h2⟩⟩
    have key := graphReach_length_eq_iff (dedupEdges (linkSkeletonEdges link)) (linkVerts link)
      (linkVerts_nodup link) hB v hv (rest.length + 1) (by rw [hlen]; exact Nat.le_refl _)
    rw [hlen] at key
    simp only [beq_iff_eq]
    rw [key, ← hlv]
    simp only [greach_dedupEdges]
    constructor
    · intro h u w hu hw
      exact (h u hu).symm.trans (h w hw)
    · intro h x hx
      exact h v x hv hx

/-! ### facets of a link -/

/-- `facets` of `linkFacetsOk`: every link simplex (sorted) minus one entry, with repetitions -/
def linkFacets (link : List (List Nat)) : List (List Nat) :=
  link.flatMap (fun s => dropEach (sortNat s))

/-- `bfacets` of `linkFacetsOk`: the distinct facets that occur exactly once -/
def linkBoundaryFacets (link : List (List Nat)) : List (List Nat) :=
  dedup ((linkFacets link).filter (fun f => (linkFacets link).count f == 1))

/-- `ridges` of `linkFacetsOk`: every boundary facet minus one entry, with repetitions -/
def linkBoundaryRidges (link : List (List Nat)) : List (List Nat) :=
  (linkBoundaryFacets link).flatMap dropEach

theorem linkFacetsOk_eq (D : Nat) (link : List (List Nat)) (interior : Bool) :
    linkFacetsOk D link interior =
      if !(link.all (·.length == D)) then false else
      if !((linkFacets link).all (fun f =>
        (linkFacets link).count f == 1 || (linkFacets link).count f == 2)) then false else
      if interior && !(linkBoundaryFacets link).isEmpty then false else
      (linkBoundaryRidges link).all (fun r => (linkBoundaryRidges link).count r == 2) := rfl

theorem mem_linkFacets (link : List (List Nat)) (f : List Nat) :
    f ∈ linkFacets link ↔ ∃ s ∈ link, ∃ i, i < s.length ∧ f = (sortNat s).eraseIdx i := by
  unfold linkFacets
  rw [List.mem_flatMap]
  refine exists_congr fun s => and_congr Iff.rfl ?_
  rw [mem_dropEach, sortNat_length]

theorem mem_linkBoundaryFacets (link : List (List Nat)) (f : List Nat) :
    f ∈ linkBoundaryFacets link ↔ f ∈ linkFacets link ∧ (linkFacets link).count f = 1 := by
  unfold linkBoundaryFacets
  rw [dedup_eq, mem_dedupL, List.mem_filter, beq_iff_eq]

theorem linkBoundaryFacets_nodup (link : List (List Nat)) : (linkBoundaryFacets link).Nodup := by
  unfold linkBoundaryFacets
  rw [dedup_eq]
  exact nodup_dedupL _

theorem linkBoundaryFacets_isEmpty (link : List (List Nat)) :
    (linkBoundaryFacets link).isEmpty = true ↔
      ∀ f ∈ linkFacets link, (linkFacets link).count f ≠ 1 := by
  rw [List.isEmpty_iff, List.eq_nil_iff_forall_not_mem]
  constructor
  · intro h f hf hc
    exact h f ((mem_linkBoundaryFacets link f).2 ⟨hf, hc⟩)
  · intro h f hf
    have := (mem_linkBoundaryFacets link f).1 hf
    exact h f this.1 this.2

theorem mem_linkBoundaryRidges (link : List (List Nat)) (r : List Nat) :
    r ∈ linkBoundaryRidges link ↔
      ∃ f ∈ linkBoundaryFacets link, ∃ i, i < f.length ∧ r = f.eraseIdx i := by
  unfold linkBoundaryRidges
  rw [List.mem_flatMap]
  refine exists_congr fun f => and_congr Iff.rfl ?_
  rw [mem_dropEach]

/-! ### `vertexLinkOk` in terms of the named lists -/

theorem vertexLinkOk_eq (K : Cx) (v : Nat) :
    vertexLinkOk K v =
      if (vertexLink K v).isEmpty then false else
      if K.D == 1 then
        (if !(boundaryVerts K).contains v then (linkVerts (vertexLink K v)).length == 2
         else (linkVerts (vertexLink K v)).length == 1)
      else if K.D == 2 then
        if !((vertexLink K v).all (·.length == 2)) then false else
        linkGraphOk (linkEdges2 (vertexLink K v))
          (some (if !(boundaryVerts K).contains v then 0 else 2))
      else
        linkSkeletonConnected (vertexLink K v) &&
        linkFacetsOk K.D (vertexLink K v) (!(boundaryVerts K).contains v) &&
        (if K.D == 3 then
           (if !(boundaryVerts K).contains v then
              surfaceChi (vertexLink K v) == 2 && surfaceBoundaryComponents (vertexLink K v) == 0
            else
              surfaceChi (vertexLink K v) == 1 && surfaceBoundaryComponents (vertexLink K v) == 1)
         else true) := rfl

end DM
