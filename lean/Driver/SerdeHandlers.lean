/-
Driver/SerdeHandlers.lean — C13, K1 tie of the decode model: the abstract content of a JSON
document (vertex slots, cell slots, cell→vertex table) is decoded by `Serde.decode`; the verdict
(loaded / rejected) and, when loaded, the rebuilt complex (vertex slots, neighbour slots, incident
pointers) must equal what the real deserialiser produced.
   dv <vid> <hex>*D | dv <vid> null      vertex records in slot order
   dc <cid>                               cell records in slot order
   dt <cid> <vid>*                        cell_vertices table
   obs impl loaded|rejected|panic
   (+ exported complex when loaded)
-/
import DelaunayModel.Model.ProtoCx
import DelaunayModel.Model.Serde
import Driver.CxHandlers
open DM

def sortCellsById (cs : List Cell) : List Cell :=
  (sortNat (cs.map (·.id))).filterMap (fun i => cs.find? (·.id == i))

def nbTok (nb : Option (List (Option Nat))) : String :=
  match nb with
  | none => "none"
  | some l => " ".intercalate (l.map (fun o => match o with | some i => toString i | none => "-"))

def runSDoc (c : Case) : Res :=
  let d := c.argNat "D"
  let kind := c.arg "corruption"
  let verts : List (Nat × Option DPt) := (c.recsOf "dv").filterMap (fun r => match r with
    | idS :: coords => idS.toNat?.map (fun i => (i, if coords.length == d then parsePt coords else none))
    | [] => none)
  let cells : List Nat := (c.recsOf "dc").filterMap (fun r => r.head?.bind String.toNat?)
  let table : List (Nat × List Nat) := (c.recsOf "dt").filterMap (fun r => match r with
    | idS :: vs => idS.toNat?.map (fun i => (i, vs.filterMap String.toNat?))
    | [] => none)
  let doc : Serde.Doc := { D := d, verts := verts, cells := cells, table := table }
  let impl := c.ob1 "impl"
  let stats := [s!"sdoc.{kind}.{impl}"]
  if impl.startsWith "panic" then
    { status := "ORACLE", detail := s!"deserialisation panicked on corruption={kind}", stats := stats }
  else
  match Serde.decode doc, impl with
  | none, "rejected" => { status := "ok", stats := stats }
  | none, _ =>
    { status := "DISAGREE", detail := s!"decode model rejects the document (corruption={kind}) but the implementation loaded it", stats := stats }
  | some _, "rejected" =>
    { status := "DISAGREE", detail := s!"decode model accepts the document (corruption={kind}) but the implementation rejected it", stats := stats }
  | some K, _ =>
    match parseCx c "" with
    | none => { status := "DISAGREE", detail := "loaded complex not exported", stats := stats }
    | some (E, _) =>
      Id.run do
        let mut bad : List String := []
        let mc := sortCellsById K.cells
        let ec := sortCellsById E.cells
        if mc.map (·.id) != ec.map (·.id) then
          bad := s!"cell ids differ: model {mc.map (·.id)} impl {ec.map (·.id)}" :: bad
        else
          for (a, b) in mc.zip ec do
            if a.vs != b.vs then bad := s!"cell {a.id}: vertex slots model {a.vs} impl {b.vs}" :: bad
            if a.nb != b.nb then bad := s!"cell {a.id}: neighbour slots model [{nbTok a.nb}] impl [{nbTok b.nb}]" :: bad
        let mv := sortNat (K.verts.map (·.id))
        let ev := sortNat (E.verts.map (·.id))
        if mv != ev then bad := s!"vertex ids differ: model {mv} impl {ev}" :: bad
        else
          for v in K.verts do
            match E.verts.find? (·.id == v.id) with
            | some w =>
              if v.pt != w.pt then bad := s!"vertex {v.id}: coordinates differ" :: bad
              if v.inc != w.inc then bad := s!"vertex {v.id}: incident cell model {v.inc} impl {w.inc}" :: bad
            | none => pure ()
        if bad.isEmpty then return { status := "ok", stats := stats }
        else return { status := "DISAGREE", detail := " ; ".intercalate (bad.reverse.take 4), stats := stats }
