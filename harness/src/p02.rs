//! C02 — after every insert / insert_with_statistics the state is exported and judged (K3).
use crate::common::{Out, Rng};
use crate::gens;
use crate::hist::{self, World};
use crate::Cfg;

fn history<const D: usize>(hid: usize, rng: &mut Rng, out: &mut Out, steps: usize) {
    let g = [1usize, 1, 0, 2][rng.below(4) as usize];
    let mut w: World<D> = if rng.chance(1, 2) {
        hist::start_empty::<D>(g)
    } else {
        let np = D + 1 + rng.below(5) as usize;
        let ps = gens::point_set(rng, D, np);
        match hist::start_built::<D>(&ps.pts, g, rng) {
            Some(w) => w,
            None => hist::start_empty::<D>(g),
        }
    };
    // collinear / coplanar bootstrap prefix now and then
    let degenerate_prefix = w.dt.number_of_vertices() == 0 && rng.chance(1, 3);
    let mut pol = String::from("default");
    for s in 0..steps {
        if rng.chance(1, 6) {
            pol = w.set_policies(rng);
        }
        let (p, class) = if degenerate_prefix && s < D + 1 {
            let mut p = [0.0f64; D];
            p[0] = s as f64;
            (p, "collinear_prefix")
        } else {
            w.pick_point(rng, 8)
        };
        let with_stats = rng.chance(1, 3);
        let count_before = w.dt.number_of_vertices();
        let (obs, inserted) = w.do_insert(p, with_stats, rng);
        let _ = count_before;
        // the per-insertion Delaunay check (EveryN(1)) certifies Level 4 on a reported insertion
        let due = inserted && w.check_on && w.dt.number_of_cells() > 0;
        let args = format!("{} class={class} pol={pol} stats={}", w.expect_args(due), with_stats as u8);
        w.emit_state(&format!("h{D}_{hid}_{s}"), "insert", &args, &obs, out, false);
        if w.dt.number_of_cells() > 0 && w.dt.as_triangulation().is_valid().is_err() {
            break; // the violation has been reported for this state; later states would only repeat it
        }
    }
}

pub fn run(cfg: &Cfg, rng: &mut Rng, out: &mut Out) {
    let thorough = cfg.tier == "thorough";
    let nh = if thorough { 40 } else { 6 };
    for h in 0..nh {
        history::<2>(h, rng, out, if thorough { 30 } else { 14 });
        history::<3>(h, rng, out, if thorough { 24 } else { 12 });
        if h % 2 == 0 || thorough {
            history::<4>(h, rng, out, if thorough { 16 } else { 10 });
            history::<5>(h, rng, out, if thorough { 12 } else { 9 });
        }
    }
}
