//! C16 — toroidal construction: wrap into the half-open box, congruence, idempotence, identity of
//! vertices, later insertions wrapped, and the periodic mode's closed surface (K1).
use crate::common::{catch, hx, hxs, Ids, Out, Rng};
use crate::tri;
use crate::Cfg;
use delaunay::core::builder::DelaunayTriangulationBuilder;
use delaunay::core::vertex::Vertex;
use delaunay::geometry::point::Point;
use delaunay::geometry::traits::coordinate::Coordinate;
use delaunay::topology::spaces::ToroidalSpace;

fn special(rng: &mut Rng, l: f64) -> f64 {
    match rng.below(14) {
        0 => l,
        1 => 0.0,
        2 => -0.0,
        3 => -l,
        4 => 3.0 * l,
        5 => -5e-324,
        6 => -1e-20,
        7 => -f64::EPSILON * l,
        8 => l - l * f64::EPSILON / 2.0,
        9 => 1e15 * l + 0.375 * l,
        10 => -1e15 * l - 0.625 * l,
        11 => l * (rng.range(-40, 40) as f64) / 8.0,
        _ => l * (rng.range(-4000, 4000) as f64) / 1024.0,
    }
}

fn period(rng: &mut Rng) -> f64 {
    [1.0, 2.0, 0.5, 10.0, 3.0, 0.1, 7.25, 1e-3, 1e6][rng.below(9) as usize]
}

/// scalar wrap: ToroidalSpace::wrap_coord on many special values
fn wraps<const D: usize>(id: &str, rng: &mut Rng, out: &mut Out, n: usize) {
    let mut dom = [1.0f64; D];
    for x in dom.iter_mut() { *x = period(rng); }
    let sp = ToroidalSpace::<D>::new(dom);
    out.case(id, "wrap", &format!("D={D}"));
    for i in 0..n {
        let ax = rng.below(D as u64) as usize;
        let x = special(rng, dom[ax]);
        let w = catch(|| sp.wrap_coord(ax, x));
        let w2 = match &w { Ok(Some(y)) => catch(|| sp.wrap_coord(ax, *y)).ok().flatten(), _ => None };
        let t = match w { Ok(Some(y)) => hx(y), Ok(None) => "none".into(), Err(m) => format!("panic:{m}") };
        let t2 = match w2 { Some(y) => hx(y), None => "none".into() };
        out.line(&format!("w {i} {} {} {t} {t2}", hx(dom[ax]), hx(x)));
    }
    out.end();
}

fn build<const D: usize>(id: &str, rng: &mut Rng, out: &mut Out, periodic: bool) {
    build_with::<D>(id, rng, out, periodic, false)
}

/// `fixed`: a fixed, well-spread 7-point set of the unit square scaled to the domain (it builds in
/// both modes), every point shifted by a fixed number of whole periods per axis, robust kernel:
/// independent of the random stream
fn build_with<const D: usize>(id: &str, rng: &mut Rng, out: &mut Out, periodic: bool, fixed: bool) {
    let mut dom = [1.0f64; D];
    for x in dom.iter_mut() { *x = [1.0, 2.0, 4.0, 0.5, 3.0][rng.below(5) as usize]; }
    let n = if fixed { 7 } else { D + 3 + rng.below(8) as usize };
    // distinct points modulo the periods (generated on a 1/16 grid of the box, then shifted by multiples)
    let mut base: Vec<[f64; D]> = Vec::new();
    let mut tries = 0;
    while base.len() < n && tries < 1000 {
        tries += 1;
        let mut p = [0.0f64; D];
        for a in 0..D { p[a] = dom[a] * (rng.range(0, 15) as f64) / 16.0; }
        if !base.contains(&p) { base.push(p); }
    }
    if fixed {
        const BASE: [[f64; 2]; 7] = [[0.125, 0.25], [0.375, 0.6875], [0.6875, 0.3125], [0.1875, 0.875], [0.8125, 0.5625], [0.5, 0.125], [0.3125, 0.5]];
        base.clear();
        for b in BASE.iter() { let mut p = [0.0f64; D]; for a in 0..D.min(2) { p[a] = b[a] * dom[a]; } base.push(p); }
    }
    let mut vs: Vec<Vertex<f64, i32, D>> = Vec::new();
    let mut nearface = false;
    for (i, b) in base.iter().enumerate() {
        let mut p = *b;
        if fixed {
            for a in 0..D { p[a] += dom[a] * [0.0, -1.0, 0.0, 1.0, 2.0, -2.0, 3.0][(i + 3 * a) % 7]; }
            vs.push(Vertex::new_with_uuid(Point::new(p), rng.uuid(), Some(500 + i as i32)));
            continue;
        }
        for a in 0..D {
            if rng.chance(1, 2) { p[a] += dom[a] * (rng.range(-3, 3) as f64); }
        }
        // just below an upper face of the box: the representative -t*L wraps to L - t*L, within reach
        // of rounding and of the periodic mode's grid snapping / nudging
        if rng.chance(1, if periodic { 3 } else { 8 }) {
            nearface = true;
            let a = rng.below(D as u64) as usize;
            let t = [1e-12, 3e-12, 2f64.powi(-40), 1e-16, 2.3e-10][rng.below(5) as usize];
            p[a] = -t * dom[a] + dom[a] * (rng.range(-1, 1) as f64);
        }
        // a few nasty representatives
        if rng.chance(1, 8) { let a = rng.below(D as u64) as usize; if b[a] == 0.0 { p[a] = [-1e-20, dom[a], -0.0, -5e-324][rng.below(4) as usize]; } }
        vs.push(Vertex::new_with_uuid(Point::new(p), rng.uuid(), Some(500 + i as i32)));
    }
    let r = catch(|| {
        let b = DelaunayTriangulationBuilder::from_vertices(&vs);
        let b = if periodic { b.toroidal_periodic(dom) } else { b.toroidal(dom) };
        b.build::<i32>().map_err(|e| tri::err_kind(&format!("{e:?}")))
    });
    let mut ids = Ids::default();
    out.case(id, "torus", &format!("D={D} periodic={} expect={} sphere=1 prov=0 nearface={}", periodic as u8, if periodic { "none" } else { "valid123" }, nearface as u8));
    out.line(&format!("dom {}", hxs(&dom)));
    for (i, v) in vs.iter().enumerate() {
        let vid = ids.id(v.uuid());
        out.line(&format!("tin {i} {vid} {} d {}", hxs(v.point().coords()), v.data.unwrap_or(0)));
    }
    match r {
        Err(m) => out.obs("result", &format!("panic:{m}")),
        Ok(Err(e)) => out.obs("result", &format!("err {e}")),
        Ok(Ok(mut dt)) => {
            out.obs("result", "ok");
            tri::export(&dt, &mut ids, out);
            out.obs("nverts", &dt.number_of_vertices().to_string());
            if !periodic {
                tri::observe_validators(&dt, out, true);
                // later insertions must be stored wrapped: far outside the box, exactly ON an upper
                // face (x = L wraps to 0), the corner (L, .., L), multiples k*L, just below a face,
                // -0.0, and plain in-box points; through both insertion APIs
                for li in 0..6u64 {
                    let mut p = [0.0f64; D];
                    // in-box part off the 1/16 grid of the inputs and distinct per late insert
                    for a in 0..D { p[a] = dom[a] * ((2 * rng.range(0, 15) + 1) as f64 / 32.0 + (li + 1) as f64 / 512.0); }
                    match li {
                        0 => { for a in 0..D { p[a] += dom[a]; } p[0] -= 2.0 * dom[0]; }
                        1 => { let a = rng.below(D as u64) as usize; p[a] = dom[a]; }
                        2 => { for a in 0..D { p[a] = dom[a]; } }
                        3 => { let a = rng.below(D as u64) as usize; p[a] = dom[a] * [-1.0, 2.0, 3.0, -2.0][rng.below(4) as usize]; }
                        4 => { let a = rng.below(D as u64) as usize; p[a] = [-0.0, -1e-20, -5e-324, -1e-12 * dom[a]][rng.below(4) as usize]; }
                        _ => {}
                    }
                    let u = rng.uuid();
                    let v = Vertex::new_with_uuid(Point::new(p), u, Some(-3 - li as i32));
                    let stats_api = li % 2 == 1;
                    let r = catch(|| if stats_api {
                        match dt.insert_with_statistics(v) {
                            Ok((delaunay::core::operations::InsertionOutcome::Inserted { vertex_key, .. }, _)) => Ok(vertex_key),
                            Ok(_) => Err("skipped".to_string()),
                            Err(e) => Err(tri::err_kind(&format!("{e:?}"))),
                        }
                    } else { dt.insert(v).map_err(|e| tri::err_kind(&format!("{e:?}"))) });
                    match r {
                        Ok(Ok(k)) => {
                            let c = dt.tds().get_vertex_by_key(k).map(|x| *x.point().coords());
                            out.line(&format!("late {} {}", hxs(&p), c.map_or("none".into(), |c| hxs(&c))));
                        }
                        Ok(Err(e)) => out.line(&format!("late {} err:{e}", hxs(&p))),
                        Err(m) => out.line(&format!("late {} panic:{m}", hxs(&p))),
                    }
                }
            } else {
                out.obs("tds_is_valid", &match catch(|| dt.tds().is_valid()) { Ok(Ok(())) => "ok".into(), Ok(Err(e)) => format!("err {}", tri::err_kind(&format!("{e:?}"))), Err(m) => format!("panic:{m}") });
                out.obs("nbfacets", &dt.boundary_facets().count().to_string());
                if let Ok(Ok(fv)) = catch(|| delaunay::topology::characteristics::euler::count_simplices(dt.tds())) {
                    out.obs("chi", &delaunay::topology::characteristics::euler::euler_characteristic(&fv).to_string());
                }
            }
        }
    }
    out.end();
}

/// the periodic mode on a fixed, well-spread 7-point set scaled to the domain, every input shifted
/// by whole periods, ROBUST kernel (the fast kernel refuses most periodic inputs): a build that does
/// not depend on the random stream, so that "inputs outside the box are wrapped first" is always
/// exercised
fn periodic_fixed_robust(id: &str, dom: [f64; 2], rng: &mut Rng, out: &mut Out) {
    use delaunay::geometry::kernel::RobustKernel;
    const BASE: [[f64; 2]; 7] = [[0.125, 0.25], [0.375, 0.6875], [0.6875, 0.3125], [0.1875, 0.875], [0.8125, 0.5625], [0.5, 0.125], [0.3125, 0.5]];
    let mut vs: Vec<Vertex<f64, i32, 2>> = Vec::new();
    for (i, b) in BASE.iter().enumerate() {
        let mut p = [b[0] * dom[0], b[1] * dom[1]];
        for a in 0..2 { p[a] += dom[a] * [0.0, -1.0, 0.0, 1.0, 2.0, -2.0, 3.0][(i + 3 * a) % 7]; }
        vs.push(Vertex::new_with_uuid(Point::new(p), rng.uuid(), Some(500 + i as i32)));
    }
    let r = catch(|| DelaunayTriangulationBuilder::from_vertices(&vs).toroidal_periodic(dom)
        .build_with_kernel::<RobustKernel<f64>, i32>(&RobustKernel::new()).map_err(|e| tri::err_kind(&format!("{e:?}"))));
    let mut ids = Ids::default();
    out.case(id, "torus", "D=2 periodic=1 expect=none sphere=1 prov=0 nearface=0 fixed=1");
    out.line(&format!("dom {}", hxs(&dom)));
    for (i, v) in vs.iter().enumerate() {
        let vid = ids.id(v.uuid());
        out.line(&format!("tin {i} {vid} {} d {}", hxs(v.point().coords()), v.data.unwrap_or(0)));
    }
    match r {
        Err(m) => out.obs("result", &format!("panic:{m}")),
        Ok(Err(e)) => out.obs("result", &format!("err {e}")),
        Ok(Ok(dt)) => {
            out.obs("result", "ok");
            tri::export(&dt, &mut ids, out);
            out.obs("nverts", &dt.number_of_vertices().to_string());
            out.obs("tds_is_valid", &match catch(|| dt.tds().is_valid()) { Ok(Ok(())) => "ok".into(), Ok(Err(e)) => format!("err {}", tri::err_kind(&format!("{e:?}"))), Err(m) => format!("panic:{m}") });
            out.obs("nbfacets", &dt.boundary_facets().count().to_string());
            if let Ok(Ok(fv)) = catch(|| delaunay::topology::characteristics::euler::count_simplices(dt.tds())) {
                out.obs("chi", &delaunay::topology::characteristics::euler::euler_characteristic(&fv).to_string());
            }
        }
    }
    out.end();
}

pub fn run(cfg: &Cfg, rng: &mut Rng, out: &mut Out) {
    for (i, dom) in [[1.0f64, 1.0], [2.0, 2.0], [4.0, 3.0], [0.5, 1.0]].iter().enumerate() {
        periodic_fixed_robust(&format!("pr2_{i}"), *dom, rng, out);
    }
    let thorough = cfg.tier == "thorough";
    let nw = if thorough { 400 } else { 160 };
    for i in 0..(if thorough { 40 } else { 8 }) {
        wraps::<2>(&format!("w2_{i}"), rng, out, nw);
        wraps::<3>(&format!("w3_{i}"), rng, out, nw);
    }
    for i in 0..(if thorough { 8 } else { 4 }) {
        build_with::<2>(&format!("tf2_{i}"), rng, out, false, true);
        build_with::<2>(&format!("pf2_{i}"), rng, out, true, true);
    }
    let nb = if thorough { 200 } else { 72 };
    for i in 0..nb {
        build::<2>(&format!("t2_{i}"), rng, out, false);
        if i % 2 == 0 { build::<3>(&format!("t3_{i}"), rng, out, false); }
        if i % 3 == 0 { build::<2>(&format!("p2_{i}"), rng, out, true); }
    }
}
