/-
Lemmas/CxAux.lean — helper lemmas about the executable complex model (Model/Cx.lean) used by
Props/C05.lean: insertion sort is a sorting permutation (so a facet/cell key identifies the vertex
multiset), membership characterisations of `allFacets`, `facetOthers`, `boundaryFacets`,
`dropEach`, id lookups, and Bool ↔ Prop bridges for the small per-cell checks.
Core only (no Mathlib).
-/
import DelaunayModel.Model.Cx
namespace DM

/-! ### insertion sort -/

theorem insertSorted_perm (x : Nat) (l : List Nat) : (insertSorted x l).Perm (x :: l) := by
  induction l with
  | nil => exact List.Perm.refl _
  | cons y ys ih =>
    unfold insertSorted
    split
    · exact List.Perm.refl _
    · exact (List.Perm.cons y ih).trans (List.Perm.swap x y ys)

theorem sortNat_perm (l : List Nat) : (sortNat l).Perm l := by
  induction l with
  | nil => exact List.Perm.refl _
  | cons x xs ih => exact (insertSorted_perm x _).trans (List.Perm.cons x ih)

theorem insertSorted_pairwise (x : Nat) (l : List Nat) (h : l.Pairwise (· ≤ ·)) :
    (insertSorted x l).Pairwise (· ≤ ·) := by
  induction l with
  | nil => simp [insertSorted]
  | cons y ys ih =>
    unfold insertSorted
    split
    · rename_i hxy
      refine List.pairwise_cons.2 ⟨?_, h⟩
      intro z hz
      rcases List.mem_cons.1 hz with rfl | hz
      · exact hxy
      · exact Nat.le_trans hxy ((List.pairwise_cons.1 h).1 z hz)
    · rename_i hxy
      refine List.pairwise_cons.2 ⟨?_, ih (List.pairwise_cons.1 h).2⟩
      intro z hz
      have hz' := (insertSorted_perm x ys).mem_iff.1 hz
      rcases List.mem_cons.1 hz' with rfl | hz'
      · omega
      · exact (List.pairwise_cons.1 h).1 z hz'

theorem sortNat_sorted (l : List Nat) : (sortNat l).Pairwise (· ≤ ·) := by
  induction l with
  | nil => exact List.Pairwise.nil
  | cons x xs ih => exact insertSorted_pairwise x _ ih

theorem sortNat_eq_iff_perm (a b : List Nat) : sortNat a = sortNat b ↔ a.Perm b := by
  constructor
  · intro h
    exact (sortNat_perm a).symm.trans (h ▸ sortNat_perm b)
  · intro h
    refine List.Perm.eq_of_pairwise (le := (· ≤ ·)) ?_ (sortNat_sorted a) (sortNat_sorted b) ?_
    · intro x y _ _ h1 h2
      exact Nat.le_antisymm h1 h2
    · exact (sortNat_perm a).trans (h.trans (sortNat_perm b).symm)

theorem sortNat_length (l : List Nat) : (sortNat l).length = l.length := (sortNat_perm l).length_eq

theorem mem_sortNat {x : Nat} {l : List Nat} : x ∈ sortNat l ↔ x ∈ l := (sortNat_perm l).mem_iff

/-! ### generic list facts -/

theorem nodup_getElem_inj {α : Type} {l : List α} (h : l.Nodup) {i j : Nat} (hi : i < l.length)
    (hj : j < l.length) (he : l[i] = l[j]) : i = j := by
  have hp := List.pairwise_iff_getElem.1 (List.nodup_iff_pairwise_ne.1 h)
  rcases Nat.lt_trichotomy i j with hlt | heq | hgt
  · exact absurd he (hp i j hi hj hlt)
  · exact heq
  · exact absurd he.symm (hp j i hj hi hgt)

/-! ### id lookups -/

theorem Cx.cellById_some {K : Cx} {k : Nat} {c : Cell} (h : K.cellById k = some c) :
    c ∈ K.cells ∧ c.id = k := by
  unfold Cx.cellById at h
  exact ⟨List.mem_of_find?_eq_some h, by simpa using List.find?_some h⟩

theorem Cx.cellById_none {K : Cx} {k : Nat} : K.cellById k = none ↔ ∀ c ∈ K.cells, c.id ≠ k := by
  simp [Cx.cellById, List.find?_eq_none]

theorem Cx.hasVertex_iff (K : Cx) (v : Nat) : K.hasVertex v = true ↔ ∃ x ∈ K.verts, x.id = v := by
  simp [Cx.hasVertex, List.any_eq_true]

/-! ### facets -/

theorem mem_allFacets {K : Cx} {f : List Nat × Nat × Nat} :
    f ∈ allFacets K ↔ ∃ c ∈ K.cells, ∃ i, i < c.vs.length ∧ f = (facetKey c i, c.id, i) := by
  simp [allFacets, List.mem_flatMap, List.mem_map, List.mem_range, eq_comm]

theorem mem_allFacets_of {K : Cx} {c : Cell} {i : Nat} (hc : c ∈ K.cells) (hi : i < c.vs.length) :
    (facetKey c i, c.id, i) ∈ allFacets K :=
  mem_allFacets.2 ⟨c, hc, i, hi, rfl⟩

theorem mem_facetOthers {K : Cx} {c : Cell} {i : Nat} {p : Nat × Nat} :
    p ∈ facetOthers K c i ↔
      ∃ c' ∈ K.cells, ∃ j, j < c'.vs.length ∧ p = (c'.id, j) ∧
        facetKey c' j = facetKey c i ∧ ¬ (c'.id = c.id ∧ j = i) := by
  unfold facetOthers
  rw [List.mem_map]
  constructor
  · rintro ⟨f, hf, rfl⟩
    rw [List.mem_filter] at hf
    obtain ⟨hf, hp⟩ := hf
    obtain ⟨c', hc', j, hj, rfl⟩ := mem_allFacets.1 hf
    have hp' := hp
    simp only [Bool.and_eq_true, beq_iff_eq, Bool.not_eq_true', Bool.and_eq_false_iff,
      beq_eq_false_iff_ne, ne_eq] at hp'
    exact ⟨c', hc', j, hj, rfl, hp'.1, by omega⟩
  · rintro ⟨c', hc', j, hj, rfl, hk, hne⟩
    refine ⟨(facetKey c' j, c'.id, j), ?_, rfl⟩
    rw [List.mem_filter]
    refine ⟨mem_allFacets_of hc' hj, ?_⟩
    simp only [Bool.and_eq_true, beq_iff_eq, Bool.not_eq_true', Bool.and_eq_false_iff,
      beq_eq_false_iff_ne, ne_eq]
    exact ⟨hk, by omega⟩

theorem facetDeg_pos_of_mem {K : Cx} {f : List Nat × Nat × Nat} (hf : f ∈ allFacets K) :
    0 < facetDeg K f.1 := by
  unfold facetDeg
  exact List.countP_pos_iff.2 ⟨f, hf, by simp⟩

theorem mem_boundaryFacets {K : Cx} {k : List Nat} :
    k ∈ boundaryFacets K ↔ (∃ f ∈ allFacets K, f.1 = k) ∧ facetDeg K k = 1 := by
  unfold boundaryFacets
  rw [List.mem_map]
  constructor
  · rintro ⟨f, hf, rfl⟩
    rw [List.mem_filter] at hf
    exact ⟨⟨f, hf.1, rfl⟩, by simpa using hf.2⟩
  · rintro ⟨⟨f, hf, rfl⟩, hd⟩
    exact ⟨f, List.mem_filter.2 ⟨hf, by simpa using hd⟩, rfl⟩

theorem mem_dropEach {l r : List Nat} : r ∈ dropEach l ↔ ∃ i, i < l.length ∧ r = l.eraseIdx i := by
  simp [dropEach, List.mem_map, List.mem_range, eq_comm]

/-! ### Bool ↔ Prop bridges for the per-item checks -/

theorem nbLenOk_iff (D : Nat) (nb : Option (List (Option Nat))) :
    (match nb with | none => true | some l => l.length == D + 1) = true ↔
      ∀ l, nb = some l → l.length = D + 1 := by
  cases nb <;> simp

theorem Vtx.okL1_iff (D : Nat) (v : Vtx) :
    Vtx.okL1 D v = true ↔ ∃ p, v.pt = some p ∧ p.length = D := by
  unfold Vtx.okL1
  cases v.pt <;> simp

theorem Cell.okL1_iff (D : Nat) (c : Cell) :
    Cell.okL1 D c = true ↔
      c.vs.length = D + 1 ∧ c.vs.Nodup ∧ ∀ l, c.nb = some l → l.length = D + 1 := by
  unfold Cell.okL1
  cases c.nb <;> simp [and_assoc]

theorem oddParity_iff (odd : Bool) (m : Nat) :
    odd = (m % 2 == 0) ↔ (odd = true ↔ m % 2 = 0) := by
  cases odd <;> simp

theorem nbSlot_of_nb_none {c : Cell} (h : c.nb = none) (i : Nat) : nbSlot c i = none := by
  simp [nbSlot, h]

/-! ### unique ids, mirror index, counting -/

theorem inj_of_nodup_map {α β : Type} (f : α → β) {l : List α} (h : (l.map f).Nodup) {a b : α}
    (ha : a ∈ l) (hb : b ∈ l) (he : f a = f b) : a = b := by
  induction l with
  | nil => cases ha
  | cons x xs ih =>
    rw [List.map_cons, List.nodup_cons] at h
    rcases List.mem_cons.1 ha with hax | hax <;> rcases List.mem_cons.1 hb with hbx | hbx
    · rw [hax, hbx]
    · exact absurd (by rw [← hax, he]; exact List.mem_map_of_mem hbx) h.1
    · exact absurd (by rw [← hbx, ← he]; exact List.mem_map_of_mem hax) h.1
    · exact ih h.2 hax hbx

theorem Cx.cellById_iff {K : Cx} (hnd : (K.cells.map (·.id)).Nodup) (k : Nat) (c : Cell) :
    K.cellById k = some c ↔ c ∈ K.cells ∧ c.id = k := by
  constructor
  · exact Cx.cellById_some
  · rintro ⟨hc, rfl⟩
    unfold Cx.cellById
    obtain ⟨c', hc'⟩ : ∃ c', K.cells.find? (·.id == c.id) = some c' := by
      cases h : K.cells.find? (·.id == c.id) with
      | some c' => exact ⟨c', rfl⟩
      | none =>
        rw [List.find?_eq_none] at h
        exact absurd (h c hc) (by simp)
    rw [hc']
    have := Cx.cellById_some (K := K) hc'
    rw [inj_of_nodup_map (·.id) hnd this.1 hc this.2]

theorem filter_eq_singleton_iff {l : List Nat} (hl : l.Nodup) (p : Nat → Bool) (j : Nat) :
    l.filter p = [j] ↔ j ∈ l ∧ p j = true ∧ ∀ x ∈ l, p x = true → x = j := by
  constructor
  · intro h
    have hj : j ∈ l.filter p := by rw [h]; exact List.mem_singleton.2 rfl
    rw [List.mem_filter] at hj
    refine ⟨hj.1, hj.2, fun x hx hpx => ?_⟩
    have hx' : x ∈ l.filter p := List.mem_filter.2 ⟨hx, hpx⟩
    rw [h] at hx'
    exact List.mem_singleton.1 hx'
  · rintro ⟨hj, hpj, hall⟩
    have hnd : (l.filter p).Nodup := hl.sublist List.filter_sublist
    have hmem : j ∈ l.filter p := List.mem_filter.2 ⟨hj, hpj⟩
    have hall' : ∀ x ∈ l.filter p, x = j := fun x hx => by
      rw [List.mem_filter] at hx
      exact hall x hx.1 hx.2
    revert hnd hmem hall'
    generalize l.filter p = m
    intro hnd hmem hall'
    match m, hnd, hmem, hall' with
    | [], _, hmem, _ => cases hmem
    | [a], _, _, hall' => rw [hall' a (List.mem_singleton.2 rfl)]
    | a :: b :: _, hnd, _, hall' =>
      have ha := hall' a (by simp)
      have hb := hall' b (by simp)
      rw [List.nodup_cons] at hnd
      exact absurd (by rw [ha, hb]; simp) hnd.1

theorem mirrorIdx_eq_some (c : Cell) (i : Nat) (n : Cell) (j : Nat) :
    mirrorIdx c i n = some j ↔
      j < n.vs.length ∧ n.vs.getD j 0 ∉ c.vs.eraseIdx i ∧
      ∀ j', j' < n.vs.length → n.vs.getD j' 0 ∉ c.vs.eraseIdx i → j' = j := by
  have key := filter_eq_singleton_iff (List.nodup_range (n := n.vs.length))
    (fun j => !((c.vs.eraseIdx i).contains (n.vs.getD j 0))) j
  simp only [List.mem_range, Bool.not_eq_true', List.contains_eq_mem, decide_eq_false_iff_not] at key
  rw [← key]
  unfold mirrorIdx
  dsimp only
  split
  · rename_i j' h
    simp only [List.contains_eq_mem] at h ⊢
    rw [h]
    simp
  · rename_i h
    simp only [List.contains_eq_mem] at h ⊢
    constructor
    · intro hh; cases hh
    · intro hh; exact absurd hh (h j)

theorem three_le_countP {α : Type} [BEq α] [LawfulBEq α] (p : α → Bool) (l : List α) (a b c : α)
    (ha : a ∈ l) (hb : b ∈ l) (hc : c ∈ l) (hab : a ≠ b) (hac : a ≠ c) (hbc : b ≠ c)
    (pa : p a = true) (pb : p b = true) (pc : p c = true) : 3 ≤ l.countP p := by
  rw [List.countP_eq_length_filter]
  have ha' : a ∈ l.filter p := List.mem_filter.2 ⟨ha, pa⟩
  have hb' : b ∈ (l.filter p).erase a :=
    (List.mem_erase_of_ne (Ne.symm hab)).2 (List.mem_filter.2 ⟨hb, pb⟩)
  have hc' : c ∈ ((l.filter p).erase a).erase b :=
    (List.mem_erase_of_ne (Ne.symm hbc)).2
      ((List.mem_erase_of_ne (Ne.symm hac)).2 (List.mem_filter.2 ⟨hc, pc⟩))
  have h1 := List.length_erase_of_mem ha'
  have h2 := List.length_erase_of_mem hb'
  have h3 := List.length_pos_of_mem hc'
  omega

/-! ### `facetDeg` versus `facetOthers` -/

theorem countP_split {α : Type} (p q : α → Bool) (l : List α) :
    l.countP p = l.countP (fun a => p a && !q a) + l.countP (fun a => p a && q a) := by
  induction l with
  | nil => rfl
  | cons x xs ih =>
    simp only [List.countP_cons, ih]
    cases p x <;> cases q x <;> simp <;> omega

/-- the facet triples contributed by a list of cells (`allFacets K = facetsOf K.cells`) -/
def facetsOf (cells : List Cell) : List (List Nat × Nat × Nat) :=
  cells.flatMap (fun c => (List.range c.vs.length).map (fun i => (facetKey c i, c.id, i)))

theorem allFacets_eq (K : Cx) : allFacets K = facetsOf K.cells := rfl

/-- "is the triple of (c, i) itself" -/
def isSelf (c : Cell) (i : Nat) (f : List Nat × Nat × Nat) : Bool :=
  f.1 == facetKey c i && (f.2.1 == c.id && f.2.2 == i)

theorem countP_self_cell (c : Cell) (i : Nat) (hi : i < c.vs.length) :
    ((List.range c.vs.length).map (fun i' => (facetKey c i', c.id, i'))).countP (isSelf c i) = 1 := by
  rw [List.countP_map]
  have hfun : (isSelf c i ∘ fun i' => (facetKey c i', c.id, i')) = (fun i' => i' == i) := by
    funext i'
    by_cases h : i' = i <;> simp [isSelf, h]
  rw [hfun, ← List.count_eq_countP]
  have h1 := (List.nodup_iff_count.1 (List.nodup_range (n := c.vs.length))) i
  have h2 := List.count_pos_iff.2 (List.mem_range.2 hi)
  omega

theorem countP_self_other (c : Cell) (i : Nat) (c0 : Cell) (hne : c0.id ≠ c.id) :
    ((List.range c0.vs.length).map (fun i' => (facetKey c0 i', c0.id, i'))).countP (isSelf c i) = 0 := by
  rw [List.countP_eq_zero]
  intro f hf
  rw [List.mem_map] at hf
  obtain ⟨i', _, rfl⟩ := hf
  simp [isSelf, hne]

theorem countP_self_none (c : Cell) (i : Nat) (cells : List Cell) (h : ∀ c' ∈ cells, c'.id ≠ c.id) :
    (facetsOf cells).countP (isSelf c i) = 0 := by
  induction cells with
  | nil => rfl
  | cons c0 rest ih =>
    unfold facetsOf
    rw [List.flatMap_cons, List.countP_append, countP_self_other c i c0 (h c0 (by simp))]
    rw [Nat.zero_add]
    exact ih (fun c' hc' => h c' (List.mem_cons_of_mem _ hc'))

theorem countP_self (c : Cell) (i : Nat) (hi : i < c.vs.length) (cells : List Cell)
    (hnd : (cells.map (·.id)).Nodup) (hc : c ∈ cells) :
    (facetsOf cells).countP (isSelf c i) = 1 := by
  induction cells with
  | nil => cases hc
  | cons c0 rest ih =>
    unfold facetsOf
    rw [List.flatMap_cons, List.countP_append]
    rw [List.map_cons, List.nodup_cons] at hnd
    rcases List.mem_cons.1 hc with h0 | h0
    · subst h0
      rw [countP_self_cell c i hi]
      have := countP_self_none c i rest (fun c' hc' he => hnd.1 (he ▸ List.mem_map_of_mem hc'))
      unfold facetsOf at this
      rw [this]
    · have hne : c0.id ≠ c.id := fun he => hnd.1 (he ▸ List.mem_map_of_mem h0)
      rw [countP_self_other c i c0 hne]
      have := ih hnd.2 h0
      unfold facetsOf at this
      rw [this]

theorem facetDeg_eq_facetOthers_length {K : Cx} (hnd : (K.cells.map (·.id)).Nodup) {c : Cell}
    (hc : c ∈ K.cells) {i : Nat} (hi : i < c.vs.length) :
    facetDeg K (facetKey c i) = (facetOthers K c i).length + 1 := by
  unfold facetDeg facetOthers
  rw [List.length_map, ← List.countP_eq_length_filter,
    countP_split _ (fun f => f.2.1 == c.id && f.2.2 == i)]
  congr 1
  exact countP_self c i hi K.cells hnd hc

theorem three_le_facetDeg (K : Cx) (c₁ c₂ c₃ : Cell) (i₁ i₂ i₃ : Nat)
    (h₁ : c₁ ∈ K.cells) (h₂ : c₂ ∈ K.cells) (h₃ : c₃ ∈ K.cells)
    (n₁₂ : c₁.id ≠ c₂.id) (n₁₃ : c₁.id ≠ c₃.id) (n₂₃ : c₂.id ≠ c₃.id)
    (hi₁ : i₁ < c₁.vs.length) (hi₂ : i₂ < c₂.vs.length) (hi₃ : i₃ < c₃.vs.length)
    (k₁₂ : facetKey c₂ i₂ = facetKey c₁ i₁) (k₁₃ : facetKey c₃ i₃ = facetKey c₁ i₁) :
    3 ≤ facetDeg K (facetKey c₁ i₁) := by
  unfold facetDeg
  refine three_le_countP _ _ (facetKey c₁ i₁, c₁.id, i₁) (facetKey c₂ i₂, c₂.id, i₂)
    (facetKey c₃ i₃, c₃.id, i₃) (mem_allFacets_of h₁ hi₁) (mem_allFacets_of h₂ hi₂)
    (mem_allFacets_of h₃ hi₃) ?_ ?_ ?_ ?_ ?_ ?_
  · intro h; exact n₁₂ (congrArg (·.2.1) h)
  · intro h; exact n₁₃ (congrArg (·.2.1) h)
  · intro h; exact n₂₃ (congrArg (·.2.1) h)
  · simp
  · simp [k₁₂]
  · simp [k₁₃]

end DM
