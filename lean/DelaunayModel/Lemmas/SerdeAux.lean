/-
Lemmas/SerdeAux.lean — helper lemmas for Props/C13.lean (what (de)serialisation keeps and rebuilds,
Model/Serde.lean): the facet data of a complex depends only on the `(id, vs)` pairs of its cells;
`assignNeighbors` is `map` of a per-cell rebuild `reCell`; `mapM`/`lookup` on the cell table.
Core only (no Mathlib).
-/
import DelaunayModel.Model.Serde
import DelaunayModel.Lemmas.CxAux
namespace DM.Serde

open DM

/-! ### facet data only sees `(id, vs)` -/

/-- the `(id, vs)` pairs of the cells: the only cell data the facet functions look at -/
def idVs (cells : List Cell) : List (Nat × List Nat) := cells.map (fun c => (c.id, c.vs))

/-- the facet triples read off `(id, vs)` pairs -/
def facetsOfPairs (ps : List (Nat × List Nat)) : List (List Nat × Nat × Nat) :=
  ps.flatMap (fun p => (List.range p.2.length).map (fun i => (sortNat (p.2.eraseIdx i), p.1, i)))

theorem allFacets_eq_pairs (K : Cx) : allFacets K = facetsOfPairs (idVs K.cells) := by
  unfold allFacets facetsOfPairs idVs
  rw [List.flatMap_map]
  rfl

theorem allFacets_congr {K₁ K₂ : Cx} (h : idVs K₁.cells = idVs K₂.cells) :
    allFacets K₁ = allFacets K₂ := by
  rw [allFacets_eq_pairs, allFacets_eq_pairs, h]

theorem facetDeg_congr {K₁ K₂ : Cx} (h : idVs K₁.cells = idVs K₂.cells) (key : List Nat) :
    facetDeg K₁ key = facetDeg K₂ key := by
  unfold facetDeg
  rw [allFacets_congr h]

theorem facetKey_congr {c₁ c₂ : Cell} (hv : c₁.vs = c₂.vs) (i : Nat) :
    facetKey c₁ i = facetKey c₂ i := by
  unfold facetKey
  rw [hv]

theorem facetOthers_congr {K₁ K₂ : Cx} (h : idVs K₁.cells = idVs K₂.cells) {c₁ c₂ : Cell}
    (hid : c₁.id = c₂.id) (hv : c₁.vs = c₂.vs) (i : Nat) :
    facetOthers K₁ c₁ i = facetOthers K₂ c₂ i := by
  unfold facetOthers
  rw [allFacets_congr h, facetKey_congr hv, hid]

theorem facetLe2_congr {K₁ K₂ : Cx} (h : idVs K₁.cells = idVs K₂.cells) :
    facetLe2 K₁ = facetLe2 K₂ := by
  unfold facetLe2
  rw [allFacets_congr h]
  congr 1
  funext f
  rw [facetDeg_congr h]

/-- the cell keys read off `(id, vs)` pairs -/
theorem map_cellKey_eq_pairs (cells : List Cell) :
    cells.map cellKey = (idVs cells).map (fun p => sortNat p.2) := by
  unfold idVs
  rw [List.map_map]
  rfl

/-- `noDupCells` only looks at the cells' vertex slots -/
theorem noDupCells_congr {K₁ K₂ : Cx} (h : idVs K₁.cells = idVs K₂.cells) :
    noDupCells K₁ = noDupCells K₂ := by
  unfold noDupCells
  rw [map_cellKey_eq_pairs, map_cellKey_eq_pairs, h]

theorem idVs_getElem {cs₁ cs₂ : List Cell} (h : idVs cs₁ = idVs cs₂) {k : Nat}
    (h₁ : k < cs₁.length) (h₂ : k < cs₂.length) :
    cs₁[k].id = cs₂[k].id ∧ cs₁[k].vs = cs₂[k].vs := by
  have h1 : k < (idVs cs₁).length := by simpa [idVs] using h₁
  have h2 : k < (idVs cs₂).length := by simpa [idVs] using h₂
  have he : (idVs cs₁)[k] = (idVs cs₂)[k] := by simp only [h]
  simp only [idVs, List.getElem_map, Prod.mk.injEq] at he
  exact he

theorem idVs_length {cs₁ cs₂ : List Cell} (h : idVs cs₁ = idVs cs₂) : cs₁.length = cs₂.length := by
  have := congrArg List.length h
  simpa [idVs] using this

/-! ### `getD` -/

theorem getD_lt {α : Type} {l : List α} {i : Nat} (d : α) (h : i < l.length) :
    l.getD i d = l[i] := (List.getElem_eq_getD d).symm

theorem getD_ge {α : Type} {l : List α} {i : Nat} (d : α) (h : l.length ≤ i) :
    l.getD i d = d := by
  rw [List.getD_eq_getElem?_getD, List.getElem?_eq_none h]
  rfl

/-! ### the per-cell rebuild of `assignNeighbors` -/

/-- the neighbour slots `assignNeighbors` computes for cell `c` -/
def reSlots (K : Cx) (c : Cell) : List (Option Nat) :=
  (List.range c.vs.length).map (fun i => match facetOthers K c i with
    | [(c', _)] => some c'
    | _ => none)

/-- the cell `assignNeighbors` stores for `c`: same id and vertex slots, neighbour buffer recomputed
from facet sharing (no buffer at all if every slot is empty) -/
def reCell (K : Cx) (c : Cell) : Cell :=
  { id := c.id, vs := c.vs,
    nb := if (reSlots K c).all Option.isNone then none else some (reSlots K c) }

@[simp] theorem reCell_id (K : Cx) (c : Cell) : (reCell K c).id = c.id := rfl
@[simp] theorem reCell_vs (K : Cx) (c : Cell) : (reCell K c).vs = c.vs := rfl

theorem reSlots_length (K : Cx) (c : Cell) : (reSlots K c).length = c.vs.length := by
  simp [reSlots]

theorem assignNeighbors_eq (K : Cx) :
    assignNeighbors K = if facetLe2 K then some (K.cells.map (reCell K)) else none := by
  unfold assignNeighbors facetLe2
  cases h : (allFacets K).all (fun f => decide (facetDeg K f.1 ≤ 2)) <;> rfl

theorem assignNeighbors_eq_some_iff (K : Cx) (cells : List Cell) :
    assignNeighbors K = some cells ↔ facetLe2 K = true ∧ cells = K.cells.map (reCell K) := by
  rw [assignNeighbors_eq]
  cases facetLe2 K <;> simp [eq_comm]

theorem idVs_map_reCell (K : Cx) (cs : List Cell) : idVs (cs.map (reCell K)) = idVs cs := by
  simp [idVs, List.map_map, Function.comp_def]

theorem reSlots_congr {K₁ K₂ : Cx} (h : idVs K₁.cells = idVs K₂.cells) {c₁ c₂ : Cell}
    (hid : c₁.id = c₂.id) (hv : c₁.vs = c₂.vs) : reSlots K₁ c₁ = reSlots K₂ c₂ := by
  unfold reSlots
  rw [hv]
  congr 1
  funext i
  rw [facetOthers_congr h hid hv]

theorem reCell_congr {K₁ K₂ : Cx} (h : idVs K₁.cells = idVs K₂.cells) {c₁ c₂ : Cell}
    (hid : c₁.id = c₂.id) (hv : c₁.vs = c₂.vs) : reCell K₁ c₁ = reCell K₂ c₂ := by
  unfold reCell
  rw [reSlots_congr h hid hv, hid, hv]

/-- the value of the rebuilt slot `i` (any `i`, also past the end) -/
theorem nbSlot_reCell (K : Cx) (c : Cell) (i : Nat) :
    nbSlot (reCell K c) i = (reSlots K c).getD i none := by
  unfold nbSlot reCell
  dsimp only
  split
  · rename_i h
    split at h
    · rename_i hall
      rw [List.all_eq_true] at hall
      by_cases hi : i < (reSlots K c).length
      · rw [getD_lt _ hi]
        have := hall _ (List.getElem_mem hi)
        cases hx : (reSlots K c)[i] with
        | none => rfl
        | some x => rw [hx] at this; cases this
      · rw [getD_ge _ (Nat.le_of_not_lt hi)]
    · cases h
  · rename_i l h
    split at h
    · cases h
    · cases h
      rfl

theorem nbSlot_reCell_lt (K : Cx) (c : Cell) {i : Nat} (hi : i < c.vs.length) :
    nbSlot (reCell K c) i = (match facetOthers K c i with
      | [(n, _)] => some n
      | _ => none) := by
  rw [nbSlot_reCell, getD_lt _ (by rw [reSlots_length]; exact hi)]
  simp [reSlots]

theorem nbSlot_reCell_ge (K : Cx) (c : Cell) {i : Nat} (hi : c.vs.length ≤ i) :
    nbSlot (reCell K c) i = none := by
  rw [nbSlot_reCell, getD_ge _ (by rw [reSlots_length]; exact hi)]

theorem reCell_nb_length (K : Cx) (c : Cell) (l : List (Option Nat))
    (h : (reCell K c).nb = some l) : l.length = c.vs.length := by
  unfold reCell at h
  dsimp only at h
  split at h
  · cases h
  · cases h
    exact reSlots_length K c

/-- a neighbour buffer is determined by its length and its slot values -/
theorem nb_ext {l₁ l₂ : List (Option Nat)} (hl : l₁.length = l₂.length)
    (h : ∀ i, l₁.getD i none = l₂.getD i none) : l₁ = l₂ := by
  apply List.ext_getElem hl
  intro i h1 h2
  have := h i
  rwa [getD_lt _ h1, getD_lt _ h2] at this

/-! ### `mapM` in `Option`, `lookup` in the cell table -/

theorem mapM_option_eq_some_map {α β : Type} (f : α → Option β) (g : α → β) (l : List α)
    (h : ∀ x ∈ l, f x = some (g x)) : l.mapM f = some (l.map g) := by
  induction l with
  | nil => rfl
  | cons x xs ih =>
    rw [List.mapM_cons, h x (by simp), ih (fun y hy => h y (List.mem_cons_of_mem _ hy))]
    rfl

theorem lookup_idVs {cells : List Cell} (hnd : (cells.map (·.id)).Nodup) {c : Cell}
    (hc : c ∈ cells) : (idVs cells).lookup c.id = some c.vs := by
  induction cells with
  | nil => cases hc
  | cons c0 rest ih =>
    rw [List.map_cons, List.nodup_cons] at hnd
    unfold idVs
    rw [List.map_cons, List.lookup_cons]
    rcases List.mem_cons.1 hc with h0 | h0
    · subst h0
      simp
    · have hne : c.id ≠ c0.id := fun he => hnd.1 (he ▸ List.mem_map_of_mem h0)
      have : (c.id == c0.id) = false := by simpa using hne
      rw [this]
      exact ih hnd.2 h0

/-! ### `assignIncident` keeps ids and coordinates -/

theorem assignIncident_idpt (verts : List (Nat × Option DPt)) (cells : List Cell) :
    (assignIncident verts cells).map (fun v => (v.id, v.pt)) = verts := by
  unfold assignIncident
  rw [List.map_map]
  conv => rhs; rw [← List.map_id verts]
  apply List.map_congr_left
  rintro ⟨id, pt⟩ _
  rfl

theorem assignIncident_ids (verts : List (Nat × Option DPt)) (cells : List Cell) :
    (assignIncident verts cells).map (·.id) = verts.map (·.1) := by
  unfold assignIncident
  rw [List.map_map]
  apply List.map_congr_left
  rintro ⟨id, pt⟩ _
  rfl

theorem mem_assignIncident {verts : List (Nat × Option DPt)} {cells : List Cell} {v : Vtx}
    (h : v ∈ assignIncident verts cells) : (v.id, v.pt) ∈ verts := by
  have := List.mem_map_of_mem (f := fun v : Vtx => (v.id, v.pt)) h
  rwa [assignIncident_idpt] at this

theorem exists_mem_assignIncident {verts : List (Nat × Option DPt)} (cells : List Cell)
    {p : Nat × Option DPt} (h : p ∈ verts) :
    ∃ v ∈ assignIncident verts cells, v.id = p.1 ∧ v.pt = p.2 := by
  rw [← assignIncident_idpt verts cells, List.mem_map] at h
  obtain ⟨v, hv, rfl⟩ := h
  exact ⟨v, hv, rfl, rfl⟩

/-! ### `decode` taken apart -/

/-- the cells as read from the table: no neighbour buffers yet -/
def rawCells (cvs : List (Nat × List Nat)) : List Cell :=
  cvs.map (fun (cid, vs) => { id := cid, vs := vs, nb := none })

/-- the vertex-less complex `assign_neighbors` runs on -/
def rawCx (D : Nat) (cvs : List (Nat × List Nat)) : Cx := { D := D, verts := [], cells := rawCells cvs }

/-- the complex `decode` returns when every check passes -/
def builtCx (doc : Doc) (cvs : List (Nat × List Nat)) : Cx :=
  { D := doc.D
    verts := assignIncident doc.verts ((rawCells cvs).map (reCell (rawCx doc.D cvs)))
    cells := (rawCells cvs).map (reCell (rawCx doc.D cvs)) }

/-- the table rows of the listed cells, in storage order (`none` if a cell has no row) -/
def tableRows (doc : Doc) : Option (List (Nat × List Nat)) :=
  doc.cells.mapM (fun cid => (doc.table.lookup cid).map (fun vs => (cid, vs)))

/-- every vertex uuid listed in a row is a stored vertex -/
def rowsKnown (doc : Doc) (cvs : List (Nat × List Nat)) : Bool :=
  cvs.all (fun (_, vs) => vs.all (fun v => doc.verts.any (·.1 == v)))

/-- the vertex records carry pairwise distinct uuids -/
def vertIdsNodup (doc : Doc) : Bool := decide (doc.verts.map (·.1)).Nodup

theorem vertIdsNodup_iff (doc : Doc) : vertIdsNodup doc = true ↔ (doc.verts.map (·.1)).Nodup := by
  unfold vertIdsNodup
  exact decide_eq_true_iff

/-- two vertex records with the same uuid: `decode` rejects, whatever the rest of the document -/
theorem decode_eq_none_of_dup (doc : Doc) (h : ¬ (doc.verts.map (·.1)).Nodup) :
    decode doc = none := by
  unfold decode
  rw [decide_eq_false h]
  rfl

theorem decode_eq (doc : Doc) :
    decode doc =
      if !(vertIdsNodup doc) then none else
      match tableRows doc with
      | none => none
      | some cvs =>
        if rowsKnown doc cvs && facetLe2 (rawCx doc.D cvs) && checkL1 (builtCx doc cvs) &&
            noDupCells (builtCx doc cvs)
        then some (builtCx doc cvs) else none := by
  unfold decode tableRows vertIdsNodup
  cases decide (doc.verts.map (·.1)).Nodup
  · rfl
  simp only [Bool.not_true, Bool.false_eq_true, if_false]
  generalize (List.mapM (m := Option) _ doc.cells) = o
  cases o with
  | none => rfl
  | some cvs =>
    dsimp only
    change (if (!(rowsKnown doc cvs)) = true then none else
      match assignNeighbors (rawCx doc.D cvs) with
      | none => none
      | some cells =>
        if (checkL1 { D := doc.D, verts := assignIncident doc.verts cells, cells := cells } &&
            noDupCells { D := doc.D, verts := assignIncident doc.verts cells, cells := cells }) = true
        then some ({ D := doc.D, verts := assignIncident doc.verts cells, cells := cells } : Cx)
        else none) = _
    rw [assignNeighbors_eq]
    cases rowsKnown doc cvs
    · rfl
    · cases facetLe2 (rawCx doc.D cvs)
      · rfl
      · simp only [Bool.not_true, Bool.false_eq_true, if_false, if_true, Bool.and_self,
          Bool.true_and]
        rfl

theorem decode_eq_some_iff (doc : Doc) (K : Cx) :
    decode doc = some K ↔
      (doc.verts.map (·.1)).Nodup ∧
      ∃ cvs, tableRows doc = some cvs ∧ rowsKnown doc cvs = true ∧
        facetLe2 (rawCx doc.D cvs) = true ∧ checkL1 (builtCx doc cvs) = true ∧
        noDupCells (builtCx doc cvs) = true ∧ K = builtCx doc cvs := by
  rw [decode_eq, ← vertIdsNodup_iff]
  cases vertIdsNodup doc
  · simp
  simp only [Bool.not_true, Bool.false_eq_true, if_false, true_and]
  cases h : tableRows doc with
  | none => simp
  | some cvs =>
    dsimp only
    split
    · rename_i hc
      simp only [Bool.and_eq_true] at hc
      constructor
      · intro hk
        cases hk
        exact ⟨cvs, rfl, hc.1.1.1, hc.1.1.2, hc.1.2, hc.2, rfl⟩
      · rintro ⟨cvs', h', _, _, _, _, rfl⟩
        cases h'
        rfl
    · rename_i hc
      simp only [Bool.and_eq_true] at hc
      constructor
      · intro hk; cases hk
      · rintro ⟨cvs', h', a, b, c, d, _⟩
        cases h'
        exact absurd ⟨⟨⟨a, b⟩, c⟩, d⟩ hc

theorem idVs_rawCells (cvs : List (Nat × List Nat)) : idVs (rawCells cvs) = cvs := by
  unfold idVs rawCells
  rw [List.map_map]
  conv => rhs; rw [← List.map_id cvs]
  apply List.map_congr_left
  rintro ⟨cid, vs⟩ _
  rfl

theorem idVs_builtCx (doc : Doc) (cvs : List (Nat × List Nat)) :
    idVs (builtCx doc cvs).cells = cvs := by
  unfold builtCx
  dsimp only
  rw [idVs_map_reCell, idVs_rawCells]

/-- rebuilding from the rows of `K` gives `K`'s cells with recomputed neighbour buffers -/
theorem rawCells_map_reCell (K : Cx) (D : Nat) :
    (rawCells (idVs K.cells)).map (reCell (rawCx D (idVs K.cells))) = K.cells.map (reCell K) := by
  unfold rawCells idVs
  rw [List.map_map, List.map_map]
  apply List.map_congr_left
  intro c _
  apply reCell_congr
  · show idVs (rawCells (idVs K.cells)) = idVs K.cells
    rw [idVs_rawCells]
  · rfl
  · rfl

theorem mapM_map_option_eq_some {α β γ : Type} (f : β → Option γ) (h : α → β) (g : α → γ)
    (l : List α) (hh : ∀ x ∈ l, f (h x) = some (g x)) : (l.map h).mapM f = some (l.map g) := by
  induction l with
  | nil => rfl
  | cons x xs ih =>
    rw [List.map_cons, List.mapM_cons, hh x (by simp),
      ih (fun y hy => hh y (List.mem_cons_of_mem _ hy))]
    rfl

theorem tableRows_encode (K : Cx) (hnd : (K.cells.map (·.id)).Nodup) :
    tableRows (encode K) = some (idVs K.cells) := by
  unfold tableRows encode
  dsimp only
  apply mapM_map_option_eq_some
  intro c hc
  show Option.map (fun vs => (c.id, vs)) ((idVs K.cells).lookup c.id) = _
  rw [lookup_idVs hnd hc]
  rfl

theorem mapM_option_fst {α β : Type} (f : α → Option β) (l : List α) (r : List (α × β))
    (h : l.mapM (fun a => (f a).map (fun b => (a, b))) = some r) : r.map (·.1) = l := by
  induction l generalizing r with
  | nil =>
    rw [List.mapM_nil] at h
    cases h
    rfl
  | cons a as ih =>
    rw [List.mapM_cons] at h
    cases hf : f a with
    | none =>
      rw [hf] at h
      cases h
    | some b =>
      rw [hf] at h
      cases hr : as.mapM (fun a => (f a).map (fun b => (a, b))) with
      | none =>
        rw [hr] at h
        cases h
      | some r' =>
        rw [hr] at h
        cases h
        rw [List.map_cons, ih r' hr]

theorem tableRows_ids (doc : Doc) (cvs : List (Nat × List Nat)) (h : tableRows doc = some cvs) :
    cvs.map (·.1) = doc.cells :=
  mapM_option_fst (fun cid => doc.table.lookup cid) doc.cells cvs h

end DM.Serde
