/-
Model/Det.lean — exact integer determinant by Laplace expansion along the first row, and the
two matrices the Rust predicates build (`simplex_orientation`: rows `[p | 1]`; `insphere`: rows
`[p | ‖p‖² | 1]`, query point last).  Mirrors src/geometry/predicates.rs:129 and :231 with the
floating LU determinant replaced by the exact value.
-/
import DelaunayModel.Model.Basic
namespace DM

/-- determinant of an `n × n` matrix given as a list of rows; structural recursion on `n`. -/
def detN : Nat → List (List Int) → Int
  | 0, _ => 1
  | n+1, rows =>
    match rows with
    | [] => 0
    | r :: rs =>
      sumRange (fun j => (if j % 2 == 0 then 1 else -1) * r.getD j 0 *
        detN n (rs.map (fun row => row.eraseIdx j))) (n+1)

def det (rows : List (List Int)) : Int := detN rows.length rows

def sqNorm (p : IPt) : Int := p.foldl (fun a x => a + x * x) 0

/-- orientation matrix rows `[p | 1]` -/
def orientRows (s : List IPt) : List (List Int) := s.map (fun p => p ++ [1])
/-- in-sphere matrix rows `[p | ‖p‖² | 1]`, query point last -/
def insphereRows (s : List IPt) (q : IPt) : List (List Int) :=
  (s ++ [q]).map (fun p => p ++ [sqNorm p, 1])

/-- "lifted" in-sphere matrix (Rust `insphere_lifted`): coordinates relative to the first vertex
`p0`, squared norm of the relative vector last; rows for the remaining vertices, query point last.
A `(D+1) × (D+1)` matrix for a `D`-simplex. -/
def liftedRows (s : List IPt) (q : IPt) : List (List Int) :=
  match s with
  | [] => []
  | p0 :: rest => (rest ++ [q]).map (fun p =>
      let r := (p.zip p0).map (fun (a, b) => a - b)
      r ++ [sqNorm r])

def orientDet (s : List IPt) : Int := det (orientRows s)
def insphereDet (s : List IPt) (q : IPt) : Int := det (insphereRows s q)
def liftedDet (s : List IPt) (q : IPt) : Int := det (liftedRows s q)

/-- the sign `(−1)^(D+1)` relating the two in-sphere formulations in dimension `D`:
`liftedDet s q = liftedParity D * insphereDet s q` (proved in Props/C12 `lifted_eq_insphere`) -/
def liftedParity (D : Nat) : Int := if D % 2 == 0 then -1 else 1

/-- exact orientation sign of a simplex (`+1`, `0`, `-1`) -/
def orientSign (s : List IPt) : Int := sgn (orientDet s)

/-- exact in-sphere sign, normalised by orientation exactly as `insphere` does:
`+1` strictly inside the circumsphere, `0` on it (or degenerate simplex), `-1` strictly outside. -/
def insphereSign (s : List IPt) (q : IPt) : Int := sgn (insphereDet s q) * orientSign s

end DM
