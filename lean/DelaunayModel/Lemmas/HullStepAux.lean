/-
Lemmas/HullStepAux.lean — helper lemmas for the hull-after-insertion section of Props/C11.lean: the
boundary `bdry cells` of a cell list (facets incident to exactly one cell = hull facets), the facet
degrees after a cavity / hull-extension step `cavityInsertWith cells C F v` (restated here from the
counting lemmas of Lemmas/CavityAux.lean so that this file does not import a Props file), the shape
of a facet through the new vertex, the coned facets `hullStepFacets C V` of a hull extension with
conflict region, and three generic facts about lengths of duplicate-free lists.
Core only (no Mathlib).
-/
import DelaunayModel.Lemmas.CavityAux
namespace DM

/-- the boundary (hull) of a cell list: the facets that occur exactly once among all cell facets,
i.e. the facets incident to exactly one cell -/
def bdry (cells : List (List Nat)) : List (List Nat) := cavityBoundary cells

/-! ### the boundary -/

theorem mem_bdry {cells : List (List Nat)} {f : List Nat} :
    f ∈ bdry cells ↔ facetCount cells f = 1 := mem_cavityBoundary

theorem bdry_nodup (cells : List (List Nat)) : (bdry cells).Nodup := cavityBoundary_nodup cells

theorem bdry_facet_of {cells : List (List Nat)} {f : List Nat} (h : f ∈ bdry cells) :
    ∃ c ∈ cells, ∃ x ∈ c, without c x = f := cavityBoundary_facet_of h

theorem bdry_lt_sorted {cells : List (List Nat)} (hs : ∀ c ∈ cells, c.Pairwise (· < ·)) :
    ∀ f ∈ bdry cells, f.Pairwise (· < ·) := cavityBoundary_lt_sorted hs

theorem bdry_fresh {cells : List (List Nat)} {v : Nat} (hv : ∀ c ∈ cells, v ∉ c) :
    ∀ f ∈ bdry cells, v ∉ f := cavityBoundary_fresh hv

theorem bdry_nil : bdry [] = [] := rfl

theorem ridgeCount_eq_one_iff {F : List (List Nat)} {r : List Nat} :
    ridgeCount F r = 1 ↔ r ∈ bdry F := mem_bdry.symm

/-! ### the complex after the step -/

theorem mem_cavityInsertWith {cells C F : List (List Nat)} {v : Nat} {x : List Nat} :
    x ∈ cavityInsertWith cells C F v ↔ (x ∈ cells ∧ x ∉ C) ∨ ∃ f ∈ F, x = coneCell v f := by
  unfold cavityInsertWith
  rw [List.mem_append, List.mem_filter, List.mem_map]
  constructor
  · rintro (⟨h1, h2⟩ | ⟨f, hf, rfl⟩)
    · exact Or.inl ⟨h1, by simpa using h2⟩
    · exact Or.inr ⟨f, hf, rfl⟩
  · rintro (⟨h1, h2⟩ | ⟨f, hf, rfl⟩)
    · exact Or.inl ⟨h1, by simpa using h2⟩
    · exact Or.inr ⟨f, hf, rfl⟩

theorem kept_cells_fresh {cells : List (List Nat)} (C : List (List Nat)) {v : Nat}
    (hfresh : ∀ c ∈ cells, v ∉ c) : ∀ a ∈ cells.filter (fun c => !C.contains c), v ∉ a :=
  fun a ha => hfresh a (List.mem_filter.1 ha).1

/-- degree afterwards of a facet that does not contain the new vertex -/
theorem facetCount_step_old {cells C F : List (List Nat)} {v : Nat} (hnd : cells.Nodup)
    (hC : C.Nodup) (hsub : ∀ c ∈ C, c ∈ cells) (hF : F.Nodup)
    (hFs : ∀ f ∈ F, f.Pairwise (· < ·)) (hvF : ∀ f ∈ F, v ∉ f) {f : List Nat} (hvf : v ∉ f) :
    facetCount (cavityInsertWith cells C F v) f =
      facetCount cells f - facetCount C f + (if f ∈ F then 1 else 0) := by
  unfold cavityInsertWith
  rw [facetCount_append, facetCount_cone_base hFs hvF hvf, hF.count,
    facetCount_filter_split hnd hC hsub f]
  omega

/-- degree afterwards of a facet through the new vertex -/
theorem facetCount_step_cone {cells F : List (List Nat)} (C : List (List Nat)) {v : Nat}
    (hfresh : ∀ c ∈ cells, v ∉ c) (hFs : ∀ f ∈ F, f.Pairwise (· < ·)) (hvF : ∀ f ∈ F, v ∉ f)
    {r : List Nat} (hr : r.Pairwise (· ≤ ·)) :
    facetCount (cavityInsertWith cells C F v) (coneCell v r) = ridgeCount F r := by
  unfold cavityInsertWith ridgeCount
  rw [facetCount_append, facetCount_cone_ridge hFs hvF hr,
    facetCount_eq_zero_of_fresh (kept_cells_fresh C hfresh) (self_mem_coneCell v r)]
  omega

theorem facetCount_sub_le {cells C : List (List Nat)} (hnd : cells.Nodup) (hC : C.Nodup)
    (hsub : ∀ c ∈ C, c ∈ cells) (f : List Nat) : facetCount C f ≤ facetCount cells f := by
  rw [facetCount_filter_split hnd hC hsub f]
  omega

/-- a facet (of a cell) afterwards that contains the new vertex is the cone over a sorted ridge
that does not contain it -/
theorem step_facet_through_v {cells F : List (List Nat)} (C : List (List Nat)) {v : Nat}
    (hfresh : ∀ c ∈ cells, v ∉ c) (hFs : ∀ f ∈ F, f.Pairwise (· < ·)) (hvF : ∀ f ∈ F, v ∉ f)
    {g : List Nat} (hg : g ∈ cellFacets (cavityInsertWith cells C F v)) (hv : v ∈ g) :
    g.Pairwise (· < ·) ∧ coneCell v (without g v) = g := by
  obtain ⟨x, hx, y, _, rfl⟩ := mem_cellFacets.1 hg
  have hvx : v ∈ x := without_subset x y v hv
  rcases mem_cavityInsertWith.1 hx with ⟨h1, _⟩ | ⟨f, hf, rfl⟩
  · exact absurd hvx (hfresh x h1)
  · have hs : (without (coneCell v f) y).Pairwise (· < ·) :=
      without_lt_sorted (coneCell_lt_sorted (hvF f hf) (hFs f hf)) y
    exact ⟨hs, coneCell_without hs hv⟩

/-- a degree bound need only be checked on the facets that occur (this form is decidable) -/
theorem facetCount_le_of_forall_mem {cells : List (List Nat)} {n : Nat}
    (h : ∀ f ∈ cellFacets cells, facetCount cells f ≤ n) : ∀ f, facetCount cells f ≤ n := by
  intro f
  by_cases hf : f ∈ cellFacets cells
  · exact h f hf
  · unfold facetCount
    rw [List.count_eq_zero.2 hf]
    exact Nat.zero_le n

/-! ### the coned facets of a hull extension with a conflict region -/

/-- the facets coned by an exterior insertion with conflict region `C` and visible hull facets `V`
(Model/Cavity.lean, header): the boundary facets of `C` that are not visible, and the visible facets
that are not boundary facets of `C` — the symmetric difference.  `V = []`: `cavityBoundary C`
(interior insertion); `C = []`: `V` (pure hull extension). -/
def hullStepFacets (C V : List (List Nat)) : List (List Nat) :=
  (bdry C).filter (fun f => !V.contains f) ++ V.filter (fun f => !(bdry C).contains f)

theorem mem_hullStepFacets {C V : List (List Nat)} {f : List Nat} :
    f ∈ hullStepFacets C V ↔ (f ∈ bdry C ∧ f ∉ V) ∨ (f ∈ V ∧ f ∉ bdry C) := by
  unfold hullStepFacets
  have e1 : (!V.contains f) = true ↔ f ∉ V := by simp
  have e2 : (!(bdry C).contains f) = true ↔ f ∉ bdry C := by simp
  rw [List.mem_append, List.mem_filter, List.mem_filter, e1, e2]

theorem hullStepFacets_nodup (C : List (List Nat)) {V : List (List Nat)} (hV : V.Nodup) :
    (hullStepFacets C V).Nodup := by
  unfold hullStepFacets
  refine List.nodup_append.2 ⟨List.Nodup.sublist List.filter_sublist (bdry_nodup C),
    List.Nodup.sublist List.filter_sublist hV, ?_⟩
  intro a ha b hb hab
  subst hab
  have e1 : (!V.contains a) = true ↔ a ∉ V := by simp
  exact (e1.1 (List.mem_filter.1 ha).2) (List.mem_filter.1 hb).1

/-! ### lengths of duplicate-free lists -/

theorem length_eq_of_nodup_of_mem_iff {α : Type} {l₁ l₂ : List α} (h₁ : l₁.Nodup)
    (h₂ : l₂.Nodup) (h : ∀ a, a ∈ l₁ ↔ a ∈ l₂) : l₁.length = l₂.length :=
  ((List.perm_ext_iff_of_nodup h₁ h₂).2 h).length_eq

theorem length_filter_add_length_filter_not {α : Type} (p : α → Bool) (l : List α) :
    (l.filter p).length + (l.filter (fun x => !p x)).length = l.length := by
  rw [← List.length_append]
  exact (List.filter_append_perm p l).length_eq

theorem length_filter_not_contains {α : Type} [BEq α] [LawfulBEq α] {l s : List α}
    (hl : l.Nodup) (hs : s.Nodup) (hsub : ∀ x ∈ s, x ∈ l) :
    (l.filter (fun c => !s.contains c)).length = l.length - s.length := by
  have := (filter_not_contains_append_perm hl hs hsub).length_eq
  rw [List.length_append] at this
  omega

end DM
