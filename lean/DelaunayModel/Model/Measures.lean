/-
Model/Measures.lean — exact simplex measures over integer coordinates (a case is scaled by a
common power of two first), mirroring what src/geometry/util/measures.rs, circumsphere.rs and
quality.rs compute in floating point:
  volume V = |det [p_i | 1]| / D!                      (`simplex_volume`)
  facet measure² = Gram determinant / ((D-1)!)²         (`facet_measure`, D points in R^D)
  circumcentre c: 2 (p_i - p_0)·(c - p_0) = |p_i - p_0|²   (`circumcenter`, Cramer's rule)
  circumradius² = |c - p_0|²                            (`circumradius`)
  inradius = D·V / Σ facet measures                     (`inradius`)
  radius ratio = R / r, normalised volume = V / (mean edge length)^D   (quality.rs)
Squares are exact integers/rationals; square roots are enclosed between rational bounds.
-/
import DelaunayModel.Model.Det
namespace DM.Measures

open DM

def factorial : Nat → Nat
  | 0 => 1
  | n+1 => (n+1) * factorial n

def sub (p q : IPt) : IPt := List.zipWith (· - ·) p q
def dot (p q : IPt) : Int := (List.zipWith (· * ·) p q).foldl (· + ·) 0

/-- D! · V (signed): the orientation determinant -/
def volDet (s : List IPt) : Int := orientDet s

/-- (D!)² · V² -/
def vol2Num (s : List IPt) : Int := volDet s * volDet s

/-- edge vectors p_i − p_0 -/
def edges0 (s : List IPt) : List IPt :=
  match s with
  | [] => []
  | p0 :: rest => rest.map (fun p => sub p p0)

/-- Gram matrix of the edge vectors -/
def gram (es : List IPt) : List (List Int) := es.map (fun a => es.map (fun b => dot a b))

/-- ((k-1)!)² · (measure of the (k-1)-simplex on k points)² -/
def measure2Num (pts : List IPt) : Int := det (gram (edges0 pts))

/-- numerators of Cramer's rule for 2 E x = b, b_i = |e_i|²: returns (numerators, denominator)
with x_j = num_j / den, den = 2 · det E -/
def circumOffset (s : List IPt) : List Int × Int :=
  let es := edges0 s
  let b := es.map (fun e => dot e e)
  let d := es.length
  let dE := det es
  let nums := (List.range d).map (fun j =>
    det ((es.zip b).map (fun (row, bi) => row.set j bi)))
  (nums, 2 * dE)

/-- circumradius² as a rational (num, den) -/
def circumradius2 (s : List IPt) : Int × Int :=
  let (nums, den) := circumOffset s
  (nums.foldl (fun a x => a + x * x) 0, den * den)

/-- all pairwise squared edge lengths -/
def edgeLens2 (s : List IPt) : List Int :=
  let idx := List.range s.length
  idx.flatMap (fun i => (idx.filter (· > i)).map (fun j => let e := sub (s.getD j []) (s.getD i []); dot e e))

/-- facets (omit vertex i) -/
def facets (s : List IPt) : List (List IPt) := (List.range s.length).map (fun i => s.eraseIdx i)

/-- rational enclosure of √(n/d) (n ≥ 0, d > 0) with relative width ≤ 2^-`prec`:
(lo, hi, scale) meaning lo/scale ≤ √(n/d) ≤ hi/scale -/
def sqrtBounds (n d : Nat) (prec : Nat := 64) : Nat × Nat × Nat :=
  -- √(n/d) = √(n·d)/d ; scale by 2^prec
  let m := n * d * 4 ^ prec
  let r := Nat.sqrt m
  (r, r + 1, d * 2 ^ prec)

end DM.Measures
