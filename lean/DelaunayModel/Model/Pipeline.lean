/-
Model/Pipeline.lean — gate structure of batch construction
(src/core/delaunay_triangulation.rs: `with_topology_guarantee_and_options` :1885,
`build_with_shuffled_retries` :2172, `build_with_kernel_inner` :2513,
`build_with_kernel_inner_seeded` :2770, `finalize_bulk_construction` :3208).

The insertion algorithm itself (cavity insertion, hull extension, local repair: ≈15k lines) is a
*parameter*: `Env.attempt` is an arbitrary function from (perturbation seed, vertex order) to a
candidate or an error.  What is modelled is which validations stand between a candidate and `Ok`.
-/
namespace DM.Pipeline

inductive Retry where
  | disabled
  | shuffled (attempts : Nat)
  | debugOnlyShuffled (attempts : Nat)
  deriving Repr, DecidableEq

structure Env (T V : Type) where
  /-- one construction attempt (insert remaining vertices + soft-fail repair): any behaviour -/
  attempt : Nat → List V → Except String T
  /-- `Triangulation::validate` (Levels 1–3 + completion-time vertex links) -/
  validate123 : T → Bool
  /-- `DelaunayTriangulation::is_valid` (flip-predicate Level 4) -/
  l4flip : T → Bool
  /-- `is_delaunay_property_only` (brute-force Level 4) -/
  l4brute : T → Bool
  /-- the shuffle applied before retry `i` -/
  shuffle : Nat → List V → List V
  /-- errors that must not be masked by retries (duplicate UUID) -/
  deterministicErr : String → Bool

variable {T V : Type}

/-- `build_with_kernel_inner_seeded`: attempt, then `finalize_bulk_construction`'s completion
validation when the guarantee requires vertex links at completion -/
def innerSeeded (env : Env T V) (requiresLinks : Bool) (seed : Nat) (vs : List V) : Except String T :=
  match env.attempt seed vs with
  | .error e => .error e
  | .ok t => if requiresLinks && !env.validate123 t then .error "pl-manifold validation failed" else .ok t

/-- `build_with_kernel_inner`: the non-retry path -/
def buildNoRetry (env : Env T V) (requiresLinks : Bool) (vs : List V) : Except String T :=
  match innerSeeded env requiresLinks 0 vs with
  | .error e => .error e
  | .ok t =>
    if requiresLinks && !env.validate123 t then .error "pl-manifold validation failed"
    else if !env.l4flip t then .error "delaunay violated" else .ok t

/-- retry `i = 0` uses the given order and seed 0, `i > 0` a shuffled order and a derived seed -/
def retryLoop (env : Env T V) (requiresLinks : Bool) (vs : List V) : Nat → Nat → Except String T
  | 0, _ => .error "construction failed after shuffled attempts"
  | fuel+1, i =>
    let order := if i == 0 then vs else env.shuffle i vs
    match innerSeeded env requiresLinks i order with
    | .ok t => if env.l4brute t then .ok t else retryLoop env requiresLinks vs fuel (i+1)
    | .error e => if env.deterministicErr e then .error e else retryLoop env requiresLinks vs fuel (i+1)

def buildRetries (env : Env T V) (requiresLinks : Bool) (attempts : Nat) (vs : List V) : Except String T :=
  retryLoop env requiresLinks vs (attempts + 1) 0

/-- `should_retry_construction` -/
def shouldRetry (D n : Nat) : Bool := D ≥ 2 && n > D + 1

/-- `with_topology_guarantee_and_options` for one vertex order (`debug` = debug-assertions build) -/
def buildWith (env : Env T V) (D : Nat) (requiresLinks : Bool) (retry : Retry) (debug : Bool)
    (vs : List V) : Except String T :=
  match retry with
  | .disabled => buildNoRetry env requiresLinks vs
  | .shuffled a =>
    if shouldRetry D vs.length then buildRetries env requiresLinks a vs else buildNoRetry env requiresLinks vs
  | .debugOnlyShuffled a =>
    if debug && shouldRetry D vs.length then buildRetries env requiresLinks a vs
    else buildNoRetry env requiresLinks vs

/-- primary order, then the fallback order (balanced-simplex strategy) if the primary fails -/
def build (env : Env T V) (D : Nat) (requiresLinks : Bool) (retry : Retry) (debug : Bool)
    (primary : List V) (fallback : Option (List V)) : Except String T :=
  match buildWith env D requiresLinks retry debug primary with
  | .ok t => .ok t
  | .error e =>
    match fallback with
    | none => .error e
    | some f => buildWith env D requiresLinks retry debug f

end DM.Pipeline
