//! C08 — flip-based repair: start from a valid triangulation pushed away from Delaunay by random
//! legal flips (repair disabled), call either repair entry point, judge the result (K3).
use crate::common::{catch, hxs, Out, Rng};
use crate::gens;
use crate::hist::{self, World};
use crate::p04::random_flips;
use crate::tri;
use crate::Cfg;
use delaunay::core::delaunay_triangulation::{DelaunayRepairHeuristicConfig, DelaunayRepairPolicy};

/// identity of the vertex set: UUID + data (coordinates are compared on the Lean side: they must be
/// bit-identical, or within the documented perturbation when the heuristic rebuild re-inserted them)
fn vertex_sig<const D: usize>(w: &World<D>) -> Vec<String> {
    let _ = hxs(&[0.0]);
    let mut v: Vec<String> = w.dt.vertices().map(|(_, v)| format!("{}:{:?}", v.uuid(), v.data)).collect();
    v.sort();
    v
}

fn one<const D: usize>(id: &str, rng: &mut Rng, out: &mut Out) {
    let np = D + 2 + rng.below(8) as usize;
    let ps = gens::point_set(rng, D, np);
    let g = [1usize, 1, 2, 0][rng.below(4) as usize];
    let Some(mut w): Option<World<D>> = hist::start_built::<D>(&ps.pts, g, rng) else { return };
    w.dt.set_delaunay_repair_policy(DelaunayRepairPolicy::Never);
    let m = [1usize, 1, 2, 4, 8, 20, 50][rng.below(7) as usize];
    let nflips = random_flips(&mut w.dt, m, rng);
    repair_and_emit::<D>(id, &mut w, rng.chance(1, 2), ps.family, nflips, out);
}

/// call one repair entry point on `w` and emit the judged state
fn repair_and_emit<const D: usize>(id: &str, w: &mut World<D>, advanced: bool, fam: &str, nflips: usize, out: &mut Out) {
    let before = vertex_sig(w);
    // provenance baseline = the vertices as they are right before the repair call
    w.offered = w.dt.vertices().map(|(_, v)| (v.uuid(), *v.point().coords(), v.data.unwrap_or(0))).collect();
    // "still satisfies": Level 3 is demanded after repair only if it held before (random flips
    // can leave a negatively oriented cell, which repair is not asked to fix)
    let pre_l3 = w.dt.as_triangulation().is_valid().is_ok();
    let r: Result<Result<String, String>, String> = if advanced {
        catch(|| w.dt.repair_delaunay_with_flips_advanced(DelaunayRepairHeuristicConfig::default())
            .map(|o| format!("flips={} heuristic={}", o.stats.flips_performed, o.used_heuristic() as u8))
            .map_err(|e| tri::err_kind(&format!("{e:?}"))))
    } else {
        catch(|| w.dt.repair_delaunay_with_flips().map(|s| format!("flips={}", s.flips_performed)).map_err(|e| tri::err_kind(&format!("{e:?}"))))
    };
    let mut obs: Vec<(String, String)> = Vec::new();
    let mut args = String::from("expect=none");
    match r {
        Err(m) => obs.push(("outcome".into(), format!("panic:{m}"))),
        Ok(Err(e)) => {
            obs.push(("outcome".into(), format!("err:{e}")));
        }
        Ok(Ok(s)) => {
            obs.push(("outcome".into(), format!("ok:{s}").replace(' ', ",")));
            let after = vertex_sig(w);
            obs.push(("same_vertices".into(), if after == before { "1".into() } else { "0 repair changed the vertex set (uuid/data)".into() }));
            args = if pre_l3 { "expect=valid123 sphere=1 convex=1 gpdt=1".into() } else { "expect=valid12m sphere=1".into() };
        }
    }
    let args = format!("{args} fam={fam} nflips={nflips} advanced={}", advanced as u8);
    w.emit_state(id, "repair", &args, &obs, out, true);
}

/// every state within `depth` legal flips of a small triangulation (breadth first, states
/// identified by their cell sets), each handed to both repair entry points: reaches the
/// configurations in which every violating facet is unflippable (a 4-to-4 flip would be needed),
/// which random flip sequences hit too rarely
fn explore<const D: usize>(id: &str, pts: &[Vec<f64>], g: usize, fam: &str, depth: usize, cap: usize, rng: &mut Rng, out: &mut Out) {
    use delaunay::core::facet::FacetHandle;
    use delaunay::triangulation::flips::{BistellarFlips, RidgeHandle};
    let Some(mut w0): Option<World<D>> = hist::start_built::<D>(pts, g, rng) else { return };
    w0.dt.set_delaunay_repair_policy(DelaunayRepairPolicy::Never);
    let sig = |dt: &tri::DtF<D>| -> String {
        let mut cs: Vec<String> = dt.cells().map(|(_, c)| { let mut v: Vec<String> = c.vertices().iter().filter_map(|k| dt.tds().get_vertex_by_key(*k)).map(|v| v.uuid().to_string()).collect(); v.sort(); v.join(",") }).collect();
        cs.sort();
        cs.join(";")
    };
    let mut seen: std::collections::HashSet<String> = std::collections::HashSet::new();
    seen.insert(sig(&w0.dt));
    let mut frontier: Vec<(tri::DtF<D>, usize)> = vec![(w0.dt.clone(), 0)];
    let mut states: Vec<(tri::DtF<D>, usize)> = Vec::new();
    while let Some((dt, d)) = frontier.pop() {
        if states.len() >= cap { break; }
        if d > 0 { states.push((dt.clone(), d)); }
        if d >= depth { continue; }
        let handles: Vec<(delaunay::core::triangulation_data_structure::CellKey, u8, u8)> = dt.cells().flat_map(|(ck, _)| {
            let mut v = Vec::new();
            for a in 0..=(D as u8) { v.push((ck, a, a)); for b in (a + 1)..=(D as u8) { v.push((ck, a, b)); } }
            v
        }).collect();
        for (ck, a, b) in handles {
            let mut c = dt.clone();
            let ok = if a == b { catch(|| c.flip_k2(FacetHandle::new(ck, a)).is_ok()) } else if D >= 3 { catch(|| c.flip_k3(RidgeHandle::new(ck, a, b)).is_ok()) } else { Ok(false) };
            if ok == Ok(true) && seen.insert(sig(&c)) { frontier.insert(0, (c, d + 1)); }
        }
    }
    for (si, (dt, d)) in states.into_iter().enumerate() {
        for advanced in [false, true] {
            let mut w = World { dt: dt.clone(), ids: w0.ids.clone(), offered: vec![], removed: vec![], next_data: 900, g, check_on: false, repair_on: false, had_removal: false, had_flip: true, stale_cells: vec![] };
            repair_and_emit::<D>(&format!("{id}_{si}_{}", advanced as u8), &mut w, advanced, fam, d, out);
        }
    }
}

/// the two triangulations of a planar convex quadrilateral with two apexes, written down by hand
/// and loaded through the public serde interface (no construction, hence no dependence on the
/// random stream): one diagonal is Delaunay, the other is not and every violating facet of it is
/// unflippable by a k = 2 move (four coplanar points) - the state in which a repair that skips
/// its postcondition reports Ok.  Also a scaled and a sheared copy.
fn stuck_quads(rng: &mut Rng, out: &mut Out) {
    let base: Vec<Vec<f64>> = vec![vec![3.0, 1.0, 0.0], vec![-1.0, 4.0, 0.0], vec![-5.0, -1.0, 0.0], vec![1.0, -3.0, 0.0], vec![0.0, 0.0, 10.0], vec![0.0, 0.0, -10.0]];
    let variants: Vec<(&str, Vec<Vec<f64>>)> = vec![
        ("base", base.clone()),
        ("scaled", base.iter().map(|p| p.iter().map(|x| x * 0.25).collect()).collect()),
        ("sheared", base.iter().map(|p| vec![p[0] + p[2] / 8.0, p[1], p[2]]).collect()),
    ];
    for (vn, pts) in variants {
        for (name, cells) in [("ac", vec![vec![0usize, 1, 2, 4], vec![0, 2, 3, 4], vec![0, 1, 2, 5], vec![0, 2, 3, 5]]),
                              ("bd", vec![vec![0usize, 1, 3, 4], vec![1, 2, 3, 4], vec![0, 1, 3, 5], vec![1, 2, 3, 5]])] {
            let Some(dt) = tri::load_complex::<3>(&pts, &cells, rng) else { continue };
            for advanced in [false, true] {
                let mut w = World { dt: dt.clone(), ids: crate::common::Ids::default(), offered: vec![], removed: vec![], next_data: 900, g: 1, check_on: false, repair_on: false, had_removal: false, had_flip: true, stale_cells: vec![] };
                repair_and_emit::<3>(&format!("sq_{vn}_{name}_{}", advanced as u8), &mut w, advanced, "stuck_quad", 1, out);
            }
        }
    }
}

pub fn run(cfg: &Cfg, rng: &mut Rng, out: &mut Out) {
    stuck_quads(&mut rng.fork(), out);
    // flip neighbourhoods of small 3-D inputs: a planar convex quadrilateral with two apexes (either
    // diagonal gives a valid complex, only one is Delaunay, and going from one to the other needs
    // a 4-to-4 flip), and small general-position sets
    {
        let quad: Vec<Vec<f64>> = vec![vec![3.0, 1.0, 0.0], vec![-1.0, 4.0, 0.0], vec![-5.0, -1.0, 0.0], vec![1.0, -3.0, 0.0], vec![0.0, 0.0, 10.0], vec![0.0, 0.0, -10.0]];
        for g in [1usize, 0] { explore::<3>(&format!("xq{g}"), &quad, g, "quad_bipyramid", 4, 30, rng, out); }
        for i in 0..(if cfg.tier == "thorough" { 6 } else { 2 }) {
            let pts = gens::to_f(&gens::general_position(rng, 3, 6, 6), 1.0, 0.0);
            explore::<3>(&format!("xg{i}"), &pts, 1, "general", 3, 16, rng, out);
            let pts2 = gens::to_f(&gens::general_position(rng, 2, 7, 6), 1.0, 0.0);
            explore::<2>(&format!("xh{i}"), &pts2, 1, "general", 3, 16, rng, out);
        }
    }
    let thorough = cfg.tier == "thorough";
    let n = if thorough { 1500 } else { 160 };
    for i in 0..n {
        let id = format!("q{i}");
        match 2 + (i % 4) {
            2 => one::<2>(&id, rng, out),
            3 => one::<3>(&id, rng, out),
            4 => one::<4>(&id, rng, out),
            _ => one::<5>(&id, rng, out),
        }
    }
}
