/-
Lemmas/LocateAux.lean — helper lemmas for Props/C10 (point location).

 * `cellById` facts (`List.find?`);
 * a pigeonhole lemma for duplicate-free lists (`nodup_length_le`);
 * the determinant fact behind "a vertex of a cell is never strictly outside a facet containing
   it": replacing the apex of a simplex by one of the facet's own points gives determinant `0`
   (`orientDet_eraseIdx_append_getElem`, via `det_dup_zero` of Lemmas/DetBridge).
-/
import DelaunayModel.Model.Locate
import DelaunayModel.Lemmas.DetBridge
namespace DM.LocateAux

open DM

/-! ### `cellById` -/

theorem cellById_some {K : Cx} {k : Nat} {c : Cell} (h : K.cellById k = some c) :
    c ∈ K.cells ∧ c.id = k := by
  unfold Cx.cellById at h
  exact ⟨List.mem_of_find?_eq_some h, by simpa using List.find?_some h⟩

theorem cellById_isSome_of_mem {K : Cx} {c : Cell} (h : c ∈ K.cells) :
    (K.cellById c.id).isSome = true := by
  unfold Cx.cellById
  rw [List.find?_isSome]
  exact ⟨c, h, by simp⟩

theorem cellById_none_of_nil {K : Cx} (h : K.cells = []) (k : Nat) : K.cellById k = none := by
  simp [Cx.cellById, h]

/-- a live id is the id of some stored cell -/
theorem mem_ids_of_cellById {K : Cx} {k : Nat} {c : Cell} (h : K.cellById k = some c) :
    k ∈ K.cells.map (·.id) := by
  obtain ⟨hm, rfl⟩ := cellById_some h
  exact List.mem_map.2 ⟨c, hm, rfl⟩

/-! ### `cellPts` -/

theorem mapM_option_length {α β : Type} (f : α → Option β) :
    ∀ (l : List α) (r : List β), l.mapM f = some r → r.length = l.length
  | [], r, h => by simp at h; simp [← h]
  | a :: l, r, h => by
    rw [List.mapM_cons] at h
    cases hf : f a with
    | none => simp [hf] at h
    | some b =>
      cases hl : l.mapM f with
      | none => simp [hf, hl] at h
      | some r' =>
        simp [hf, hl] at h
        subst h
        simp [mapM_option_length f l r' hl]

/-- resolved points are one per vertex slot -/
theorem cellPts_length {K : Cx} {emin : Int} {c : Cell} {s : List IPt}
    (h : cellPts K emin c = some s) : s.length = c.vs.length :=
  mapM_option_length _ _ _ h

/-! ### pigeonhole for duplicate-free lists -/

theorem nodup_length_le {α : Type _} [DecidableEq α] :
    ∀ (l m : List α), l.Nodup → (∀ x ∈ l, x ∈ m) → l.length ≤ m.length
  | [], _, _, _ => by simp
  | a :: l, m, hnd, hsub => by
    have ha : a ∈ m := hsub a (by simp)
    rw [List.nodup_cons] at hnd
    have ih := nodup_length_le l (m.erase a) hnd.2 (fun x hx => by
      have hne : x ≠ a := fun h => hnd.1 (h ▸ hx)
      exact (List.mem_erase_of_ne hne).2 (hsub x (by simp [hx])))
    rw [List.length_erase_of_mem ha] at ih
    have : 0 < m.length := List.length_pos_of_mem ha
    simp only [List.length_cons]
    omega

/-! ### the side test on a point of the facet -/

/-- Replacing the apex (slot `i`) of a `D`-simplex by another of its own points (slot `j ≠ i`)
gives a matrix with two equal rows, so the orientation determinant vanishes. -/
theorem orientDet_eraseIdx_append_getElem {D : Nat} {s : List IPt} (hl : s.length = D + 1)
    (hs : ∀ p ∈ s, p.length = D) {i j : Nat} (hi : i < s.length) (hj : j < s.length)
    (hij : j ≠ i) : orientDet (s.eraseIdx i ++ [s[j]]) = 0 := by
  have hlen : (s.eraseIdx i).length = D := by
    rw [List.length_eraseIdx_of_lt hi]; omega
  have hsq : Square (D + 1) (orientRows (s.eraseIdx i ++ [s[j]])) := by
    apply square_orientRows
    · simp [hlen]
    · intro p hp
      rw [List.mem_append, List.mem_singleton] at hp
      rcases hp with hp | rfl
      · exact hs _ (List.mem_of_mem_eraseIdx hp)
      · exact hs _ (List.getElem_mem _)
  have hrl : (orientRows (s.eraseIdx i ++ [s[j]])).length = D + 1 := hsq.1
  unfold orientDet
  by_cases hlt : j < i
  · have h1 : j < (orientRows (s.eraseIdx i ++ [s[j]])).length := by omega
    have h2 : D < (orientRows (s.eraseIdx i ++ [s[j]])).length := by omega
    refine det_dup_zero hsq h1 h2 (by omega) ?_
    simp only [orientRows, List.getElem_map]
    have hj' : j < (s.eraseIdx i).length := by omega
    rw [List.getElem_append_left hj', List.getElem_append_right (by omega)]
    simp [List.getElem_eraseIdx, hlt, hlen]
  · have hgt : i < j := by omega
    have h1 : j - 1 < (orientRows (s.eraseIdx i ++ [s[j]])).length := by omega
    have h2 : D < (orientRows (s.eraseIdx i ++ [s[j]])).length := by omega
    refine det_dup_zero hsq h1 h2 (by omega) ?_
    simp only [orientRows, List.getElem_map]
    have hj' : j - 1 < (s.eraseIdx i).length := by omega
    rw [List.getElem_append_left hj', List.getElem_append_right (by omega)]
    have hnl : ¬ (j - 1 < i) := by omega
    have hjj : j - 1 + 1 = j := by omega
    simp [List.getElem_eraseIdx, hnl, hlen, hjj]

theorem sgn_zero : sgn 0 = 0 := by decide

end DM.LocateAux
