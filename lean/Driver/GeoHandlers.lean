/-
Driver/GeoHandlers.lean — K1 handlers for point location (C10), the hull view (C11) and the
topology/adjacency queries (C15): the implementation's answers are recomputed from the exported
raw cells in exact arithmetic.
-/
import DelaunayModel.Model.ProtoCx
import DelaunayModel.Model.Locate
import DelaunayModel.Model.Certify
import DelaunayModel.Model.Judge
import DelaunayModel.Model.Gen
import Driver.CxHandlers
open DM

def parseIds (ts : List String) : List Nat := ts.filterMap String.toNat?

/-- C10 -/
def runLoc (c : Case) : Res :=
  match parseCx c "" with
  | none => { status := "DISAGREE", detail := "cannot parse exported complex" }
  | some (K, _) =>
    let queries := (c.recsOf "lq").filterMap (fun r => match r with
      | qid :: coords => (parsePt coords).map (fun p => (qid, p))
      | _ => none)
    let emin := minExp (allPts K ++ queries.map (·.2))
    Id.run do
      let mut bad : List String := []
      let mut stats : List String := [s!"loc.D{K.D}"]
      let mut checked := 0
      -- per cell, once: points and the orientation class of (facet ++ [opposite vertex]) per slot
      let cellInfo := K.cells.map (fun cl => match cellDPts K cl with
        | none => (cl, none, [])
        | some s => (cl, some s, (List.range cl.vs.length).map (fun i => orientClass K.D (s.eraseIdx i ++ [s.getD i []]))))
      for (qid, qd) in queries do
        let q := qd.map (·.scaled emin)
        -- per cell: side of every facet, `none` when some test is not exactly decidable
        let cellSides := cellInfo.map (fun (cl, so, cos) => (cl, match so with
          | none => [none]
          | some s => (List.range cl.vs.length).map (fun i =>
              match cos.getD i none, orientClass K.D (s.eraseIdx i ++ [qd]) with
              | some co, some qo => some (decide (co * qo < 0))
              | _, _ => none)))
        let decidable := cellSides.all (fun (_, sides) => sides.all Option.isSome)
        if !decidable then
          stats := "loc.query.undecidable" :: stats
        else
        let containing := (cellSides.filter (fun (_, sides) => sides.all (· == some false))).map (·.1)
        let results := (c.recsOf "lr").filter (fun r => r.head? == some qid)
        let mut classes : List String := []
        for r in results do
          match r with
          | _ :: hint :: _ =>
            if (hint.splitOn "@b").length == 2 then
              stats := (if hint.endsWith "s" then "loc.answer.scan_fallback" else "loc.answer.capped_walk") :: stats
          | _ => pure ()
          match r with
          | _ :: hint :: "in" :: cidS :: _ =>
            checked := checked + 1
            classes := "in" :: classes
            match cidS.toNat? with
            | some cid =>
              if !(containing.any (·.id == cid)) then
                bad := s!"query {qid} hint={hint}: returned cell {cidS} does not contain the point" :: bad
            | none => bad := s!"query {qid} hint={hint}: returned cell {cidS} is not a live cell" :: bad
          | _ :: hint :: "out" :: _ =>
            checked := checked + 1
            classes := "out" :: classes
            match containing.head? with
            | some cl => bad := s!"query {qid} hint={hint}: Outside although cell {cl.id} contains the point" :: bad
            | none => pure ()
          | _ :: hint :: "err" :: rest => bad := s!"query {qid} hint={hint}: error {rest}" :: bad
          | _ :: hint :: "panic" :: rest => bad := s!"query {qid} hint={hint}: PANIC {rest}" :: bad
          | _ => pure ()
        -- hint independence of the answer class
        if classes.any (· == "in") && classes.any (· == "out") then
          bad := s!"query {qid}: answer class depends on the hint ({classes})" :: bad
        -- K1 against the model walk (class only): hint none
        match locate K emin q none with
        | some (.inside _) => if classes.any (· == "out") then bad := s!"query {qid}: model locates inside, implementation says Outside" :: bad
        | some .outside => if classes.any (· == "in") && containing.isEmpty then bad := s!"query {qid}: model says Outside, implementation inside" :: bad
        | none => pure ()
        stats := (if containing.isEmpty then "loc.query.outside" else "loc.query.inside") :: stats
      for n in ["stats_same"] do
        match c.ob n with
        | some (v :: rest) => if v != "1" then bad := s!"{n}={v} {" ".intercalate rest}" :: bad
        | _ => pure ()
      if !bad.isEmpty then return { status := "ORACLE", detail := " ; ".intercalate (bad.reverse.take 6), stats := stats }
      return { status := if checked == 0 then "skip" else "ok", stats := stats }

/-- C11: hull facets, visibility, outside test, staleness events -/
def runHull (c : Case) : Res :=
  match parseCx c "" with
  | none => { status := "DISAGREE", detail := "cannot parse exported complex" }
  | some (K, _) =>
    let queries := (c.recsOf "hq").filterMap (fun r => match r with
      | qid :: coords => (parsePt coords).map (fun p => (qid, p))
      | _ => none)
    let emin := minExp (allPts K ++ queries.map (·.2))
    Id.run do
      let mut bad : List String := []
      let mut stats : List String := [s!"hull.D{K.D}"]
      -- hull facets = facets incident to exactly one cell
      let hf := (c.recsOf "hf").map (fun r => sortNat (parseIds r))
      let bf := boundaryFacets K
      if !(hf.all bf.contains && bf.all hf.contains && hf.length == bf.length) then
        bad := s!"hull facets {hf.length} differ from the facets incident to exactly one cell ({bf.length})" :: bad
      if !closedBoundary K then bad := "hull facets do not form a closed surface" :: bad
      -- judged outside the predicates' tolerance band only: perturbed, nearly collinear hull
      -- vertices can be non-convex by 1e-16, which no float predicate of the library can see
      if !(convexityViolations K).isEmpty then stats := (if (strictConvexViols K).isEmpty then "hull.convexity.inband_only" else "hull.convexity.strict") :: stats
      if !(strictConvexViols K).isEmpty then
        bad := s!"a vertex lies strictly (beyond the tolerance band) beyond a hull facet: {(strictConvexViols K).take 2}" :: bad
      match c.ob "hull_validate" with
      | some (v :: rest) => if v != "ok" then bad := s!"ConvexHull::validate = {v} {rest}" :: bad
      | _ => pure ()
      let bslots := boundarySlots K
      -- per boundary slot, once: the cell's points and the orientation class of the cell
      let binfo := bslots.map (fun (cl, i) => match cellDPts K cl with
        | none => (cl, i, none, none)
        | some s => (cl, i, some s, orientClass K.D (s.eraseIdx i ++ [s.getD i []])))
      for (qid, qd) in queries do
        -- side of the query relative to every hull facet: some true = strictly beyond
        let sides := binfo.map (fun (_, i, so, co) => match so, co with
          | some s, some c0 => (match orientClass K.D (s.eraseIdx i ++ [qd]) with
              | some qo => some (decide (c0 * qo < 0), qo == 0)
              | none => none)
          | _, _ => none)
        if sides.any Option.isNone then
          stats := "hull.query.undecidable" :: stats
        else
        let beyond := sides.filter (fun x => match x with | some (true, _) => true | _ => false)
        let onPlane := sides.any (fun x => match x with | some (_, true) => true | _ => false)
        -- find_nearest_visible_facet: among the facets with the query strictly beyond them, the one
        -- whose centroid is nearest (exact key |D·q − Σ v|²); compared when the minimum is unique by
        -- a relative margin of 1e-9 (the implementation compares rounded distances)
        if !onPlane then
          for r in (c.recsOf "hn").filter (fun r => r.head? == some qid) do
            let got : Option (List Nat) := match r.drop 1 with
              | ["none"] => none
              | ids => some (sortNat (parseIds ids))
            let cand : List (List Nat × Q) := (binfo.zip sides).filterMap (fun ((cl, i, so, _), sd) =>
              match so, sd with
              | some sp, some (true, _) =>
                let fpts := sp.eraseIdx i
                let key := (List.range K.D).foldl (fun acc j =>
                  let sumv := fpts.foldl (fun a p => a + Q.ofDy (p.getD j Dy.zero)) (Q.ofInt 0)
                  let dlt := Q.ofInt (K.D : Int) * Q.ofDy (qd.getD j Dy.zero) - sumv
                  acc + dlt * dlt) (Q.ofInt 0)
                some (sortNat (cl.vs.eraseIdx i), key)
              | _, _ => none)
            match cand with
            | [] => if got.isSome then bad := s!"query {qid}: find_nearest_visible_facet returned a facet although no facet is visible" :: bad
            | c0 :: rest =>
              let best := rest.foldl (fun b x => if Q.lt x.2 b.2 then x else b) c0
              let margin : Q := best.2 * ⟨1, 10 ^ 9⟩
              let clear := cand.all (fun x => x.1 == best.1 || Q.lt (best.2 + margin) x.2)
              stats := (if clear then "hull.nearest.checked" else "hull.nearest.tie") :: stats
              match got with
              | none => bad := s!"query {qid}: find_nearest_visible_facet returned none although {cand.length} facet(s) are visible" :: bad
              | some g =>
                if !(cand.any (·.1 == g)) then bad := s!"query {qid}: find_nearest_visible_facet returned facet {g}, which is not visible from the point" :: bad
                else if clear && g != best.1 then
                  bad := s!"query {qid}: find_nearest_visible_facet returned facet {g}; the visible facet with the nearest centroid is {best.1} (exact keys {qShow best.2} vs {qShow ((cand.find? (·.1 == g)).map (·.2) |>.getD (Q.ofInt 0))})" :: bad
        for r in (c.recsOf "hr").filter (fun r => r.head? == some qid) do
          match r with
          | _ :: "outside" :: v :: "visible" :: vis =>
            let nvis := (parseIds vis).length
            if onPlane then stats := "hull.query.onplane" :: stats
            else
              stats := (if beyond.isEmpty then "hull.query.inside" else "hull.query.outside") :: stats
              if v == "1" && beyond.isEmpty then bad := s!"query {qid}: is_point_outside = true but the point is beyond no hull facet" :: bad
              if v == "0" && !beyond.isEmpty then bad := s!"query {qid}: is_point_outside = false but the point is strictly beyond {beyond.length} hull facet(s)" :: bad
              if nvis != beyond.length then bad := s!"query {qid}: find_visible_facets returned {nvis} facets, exact count of facets with the point strictly beyond is {beyond.length}" :: bad
              if v != "0" && v != "1" then bad := s!"query {qid}: hull query failed: {v}" :: bad
          | _ => pure ()
      -- staleness events: gen <op> <changed 0|1> <g0> <g1> <q1> <q2> <q3> <q4> (stale|answer|err)
      for r in c.recsOf "gen" do
        match r with
        | op :: changed :: g0 :: g1 :: qs =>
          stats := s!"hull.gen.changed{changed}" :: stats
          -- the hypothesis of gen_stale / guarded_stale_after_change, checked literally
          match g0.toNat?, g1.toNat? with
          | some a, some b =>
            if !DM.Gen.stepOk ⟨changed == "1", a, b⟩ then
              bad := s!"{op}: generation step {a} -> {b} with changed={changed} violates stepOk (the counter must never go back and must move when the structure changed)" :: bad
          | _, _ => bad := s!"{op}: unreadable generation {g0} {g1}" :: bad
          if changed == "1" then
            if g0 == g1 then bad := s!"{op}: triangulation changed but the generation did not ({g0})" :: bad
            if !(qs.all (· == "stale")) then bad := s!"{op}: triangulation changed but hull queries answered {qs} instead of reporting staleness" :: bad
          else
            -- unchanged: a query may answer or report staleness, consistently with the generation
            if g0 == g1 && qs.any (· == "stale") then bad := s!"{op}: generation unchanged ({g0}) but a hull query reported staleness" :: bad
            if g0 != g1 && qs.any (· == "answer") then bad := s!"{op}: generation moved {g0}->{g1} but a hull query still answered" :: bad
        | _ => pure ()
      -- the hull created first, queried after every later operation:
      -- gen0 <op> <changed since creation 0|1> <generation at creation> <generation now> <q…>
      for r in c.recsOf "gen0" do
        match r with
        | op :: changed :: gh :: gn :: qs =>
          stats := s!"hull.gen0.changed{changed}" :: stats
          if changed == "1" && qs.any (· == "answer") then
            bad := s!"after {op}: the triangulation differs from the one the hull was created from (generation then {gh}, now {gn}) but hull queries answered {qs} instead of reporting staleness" :: bad
        | _ => pure ()
      if !bad.isEmpty then return { status := "ORACLE", detail := " ; ".intercalate (bad.reverse.take 6), stats := stats }
      return { status := "ok", stats := stats }

def edgeTok (a b : Nat) : String := if a ≤ b then s!"{a}-{b}" else s!"{b}-{a}"

def sortStrs (l : List String) : List String := (l.toArray.qsort (· < ·)).toList

/-- C15: every query equals face enumeration of the stored cells -/
def runQry (c : Case) : Res :=
  match parseCx c "" with
  | none => { status := "DISAGREE", detail := "cannot parse exported complex" }
  | some (K, _) =>
    Id.run do
      let mut bad : List String := []
      let stats : List String := [s!"qry.D{K.D}"]
      let edges := (facesK K 2).filterMap (fun e => match e with | [a, b] => some (edgeTok a b) | _ => none)
      let same (a b : List String) : Bool := sortStrs a == sortStrs b
      match c.ob "edges" with
      | some es => if !same es edges then bad := s!"edges() returned {es.length} edges, enumeration of 2-subsets of cells gives {edges.length}" :: bad
      | none => pure ()
      match (c.ob1 "nedges").toNat? with
      | some n => if n != edges.length then bad := s!"number_of_edges()={n}, enumeration gives {edges.length}" :: bad
      | none => pure ()
      let nfac := (dedup ((allFacets K).map (·.1))).length
      match (c.ob1 "nfacets").toNat? with
      | some n => if n != (allFacets K).length then bad := s!"facets() yields {n} facet views, cells have {(allFacets K).length} (cell,slot) facets" :: bad
      | none => pure ()
      match c.ob "bfacets" with
      | some fs =>
        let got := fs.map (fun t => sortNat ((t.splitOn ",").filterMap String.toNat?))
        let want := boundaryFacets K
        if !(got.all want.contains && want.all got.contains && got.length == want.length) then
          bad := s!"boundary_facets() returned {got.length}, facets incident to exactly one cell: {want.length}" :: bad
      | none => pure ()
      match c.ob "fvec" with
      | some fs =>
        let got := fs.filterMap String.toNat?
        let want := if K.cells.isEmpty then got else
          (List.range (K.D + 1)).map (fun k => if k == 0 then K.verts.length else if k == K.D then K.cells.length else if k == K.D - 1 then nfac else (facesK K (k + 1)).length)
        if got != want then bad := s!"count_simplices f-vector {got}, face enumeration gives {want}" :: bad
        match (c.ob1 "chi").toInt? with
        | some x => if x != eulerChi want then bad := s!"euler_characteristic={x}, alternating sum of the enumerated f-vector = {eulerChi want}" :: bad
        | none => pure ()
        -- validate_triangulation_euler must report the same f-vector and χ
        match c.ob "fvec2" with
        | some fs2 =>
          let got2 := fs2.filterMap String.toNat?
          if !K.cells.isEmpty && got2 != want then bad := s!"validate_triangulation_euler f-vector {got2}, face enumeration gives {want}" :: bad
          match (c.ob1 "chi2").toInt? with
          | some x => if !K.cells.isEmpty && x != eulerChi want then bad := s!"validate_triangulation_euler χ={x}, alternating sum of the enumerated f-vector = {eulerChi want}" :: bad
          | none => pure ()
          if c.arg "euclid" == "1" && !K.cells.isEmpty && eulerChi want == 1 && c.ob1 "euler_valid" == "0" then
            bad := "validate_triangulation_euler rejects a Euclidean triangulation whose enumerated χ is 1" :: bad
        | none => pure ()
        -- every Euclidean triangulation with a cell is a ball with χ = 1 and a closed boundary
        if c.arg "euclid" == "1" && !K.cells.isEmpty then
          if eulerChi want != 1 then bad := s!"Euclidean triangulation has χ = {eulerChi want} ≠ 1" :: bad
          if !closedBoundary K then bad := "boundary of a Euclidean triangulation is not closed" :: bad
          if (boundaryFacets K).isEmpty then bad := "Euclidean triangulation has no boundary" :: bad
          match c.ob "class" with
          | some (k :: _) => if !(k.startsWith "Ball" || k.startsWith "SingleSimplex") then bad := s!"classified as {k}, expected a ball" :: bad
          | _ => pure ()
      | none => pure ()
      -- per-vertex and per-cell queries
      for r in c.recsOf "ie" do
        match r with
        | vS :: es =>
          match vS.toNat? with
          | some v =>
            let want := edges.filter (fun e => (e.splitOn "-").any (· == toString v))
            if !same es want then bad := s!"incident_edges({v}) returned {es.length}, enumeration gives {want.length}" :: bad
          | none => pure ()
        | _ => pure ()
      for r in c.recsOf "ac" do
        match r with
        | vS :: cs =>
          match vS.toNat? with
          | some v =>
            let want := (K.cells.filter (·.vs.contains v)).map (fun cl => toString cl.id)
            if !same cs want then bad := s!"adjacent_cells({v}) returned {cs.length} cells, {want.length} stored cells contain the vertex" :: bad
          | none => pure ()
        | _ => pure ()
      for r in c.recsOf "cn" do
        match r with
        | cS :: ns =>
          match cS.toNat?.bind K.cellById with
          | some cl =>
            -- neighbours by facet sharing, recomputed
            let want := (List.range cl.vs.length).flatMap (fun i => (facetOthers K cl i).map (fun p => toString p.1))
            if !same ns want then bad := s!"cell_neighbors({cS}) returned {ns}, facet sharing gives {want}" :: bad
          | none => pure ()
        | _ => pure ()
      for n in ["idx_same", "missing_keys_empty"] do
        match c.ob n with
        | some (v :: rest) => if v != "1" then bad := s!"{n}={v} {" ".intercalate rest}" :: bad
        | _ => pure ()
      if !bad.isEmpty then return { status := "ORACLE", detail := " ; ".intercalate (bad.reverse.take 6), stats := stats }
      return { status := "ok", stats := stats }


/-- C12, K1 on the tolerance formula: `adaptive_tolerance(matrix, base)` must equal
`base + 1e-12 · ‖A‖∞`, the norm taken without the last column exactly when every entry of that
column is within 2⁻⁵² of 1 (relative 1e-9: the float evaluation rounds) -/
def runTol (c : Case) : Res :=
  let rows? := (c.recsOf "mr").mapM (fun r => r.mapM (fun t => (parseF64 t).bind F64.dy?))
  let base? := ((c.recsOf "base").head?.bind List.head?).bind (fun t => (parseF64 t).bind F64.dy?)
  match rows?, base? with
  | some rows, some base =>
    let q := rows.map (·.map Q.ofDy)
    let epsQ : Q := ⟨1, 2 ^ 52⟩
    let lastOnes := !q.isEmpty && q.all (fun r => match r.getLast? with
      | some x => Q.le (Q.abs (x - Q.ofInt 1)) epsQ
      | none => false)
    let rs := if lastOnes then q.map List.dropLast else q
    let want := Q.ofDy base + qTen 12 * maxRowSum rs
    let stats := [s!"tol.k{c.argNat "k"}", s!"tol.lastOnes.{lastOnes}"]
    match (parseF64 (c.ob1 "tol")).bind F64.dy? with
    | some got =>
      let g := Q.ofDy got
      let rel : Q := ⟨1, 10 ^ 9⟩
      if !(Q.le (Q.abs (g - want)) (rel * want)) then
        { status := "ORACLE", detail := s!"adaptive_tolerance = {qShow g} but base + 1e-12·‖A‖∞ = {qShow want} (constant-one last column excluded: {lastOnes})", stats := stats }
      else
      -- `matrix::determinant` (the LU every determinant predicate shares) against the exact
      -- determinant: the error must stay within the bound the C12 oracle ASSUMES (`luBound`)
      let k := rows.length
      match c.ob1 "det" with
      | "" => { status := "ok", stats := stats }
      | dT =>
        match (parseF64 dT).bind F64.dy? with
        | none => { status := "ORACLE", detail := s!"matrix::determinant returned {dT} on a finite {k}x{k} matrix", stats := stats }
        | some dgot =>
          let emin := minExp rows
          let di := det (scalePts rows emin)
          let exact := Q.scale2 (Q.ofInt di) (emin * k)
          -- rigorous allowances only (the tie must not demand more than LU can deliver):
          --  * a row permutation of an upper-triangular matrix is eliminated with all multipliers
          --    exactly 0: the result is the product of the pivots, relative error <= (n+1)·2^-53;
          --  * otherwise the first-order bound of Gaussian elimination with partial pivoting:
          --    |Δdet| <= Σ_ij |ΔA_ij|·|C_ij|, |ΔA_ij| <= n·2^-53·n·2^(n-1)·max|a| (growth factor),
          --    |C_ij| <= Π_{r≠i} ‖row_r‖₁ (Hadamard), times 2 for the higher-order terms
          let qabs (r : List Q) : Q := r.foldl (fun a x => a + Q.abs x) (Q.ofInt 0)
          let isZero (x : Q) : Bool := x.num == 0
          -- greedy: column c must have exactly one nonzero among the rows not yet used
          let tri : Bool := Id.run do
            let mut rest : List Nat := List.range k      -- indices of rows not yet used as a pivot row
            let mut ok := true
            for cIdx in List.range k do
              let nz := rest.filter (fun ri => !isZero ((q.getD ri []).getD cIdx (Q.ofInt 0)))
              match nz with
              | [ri] => rest := rest.filter (· != ri)
              | _ => ok := false
            return ok && rest.isEmpty
          let maxAbs : Q := q.foldl (fun a r => r.foldl (fun b x => if Q.lt b (Q.abs x) then Q.abs x else b) a) (Q.ofInt 0)
          let norms := q.map qabs
          let sumCof : Q := (List.range k).foldl (fun acc i =>
            acc + ((norms.zipIdx).foldl (fun pr (nr, j) => if j == i then pr else pr * nr) (Q.ofInt 1))) (Q.ofInt 0)
          let general : Q := (⟨(2 * k * k * k * 2 ^ (k - 1) : Nat), 2 ^ 53⟩ : Q) * maxAbs * sumCof
          let bound : Q := if tri then (⟨(2 * (k + 1) : Nat), 2 ^ 53⟩ : Q) * Q.abs exact else general
          let err := Q.abs (Q.ofDy dgot - exact)
          let cls := if exact.num == 0 then "zero" else if Q.le (err * Q.ofInt 1000) bound then "lt_bound_1e-3" else if Q.le err bound then "le_bound" else "gt_bound"
          let stats := s!"tol.det.{if tri then "triangular" else "general"}.{cls}" :: (if Q.lt (luBound q) err then "tol.det.beyond_predicate_allowance" :: stats else stats)
          if Q.le err bound then { status := "ok", stats := stats }
          else { status := "ORACLE", detail := s!"matrix::determinant = {qShow (Q.ofDy dgot)} but the exact determinant is {qShow exact}: error beyond the LU bound {qShow bound} that the predicate oracle assumes", stats := stats }
    | none => { status := "ORACLE", detail := s!"adaptive_tolerance returned {c.ob1 "tol"}", stats := stats }
  | _, _ => { status := "skip", detail := "non-finite" }
