/-
Lemmas/DetAux.lean — helper lemmas for the bridge between the list-based Laplace determinant
`DM.detN` / `DM.det` (Model/Det.lean) and Mathlib's `Matrix.det`.

Contents: `sumRange` vs `Finset.sum`, the parity sign, `eraseIdx` of `List.ofFn`,
`rowsOf` / `matOf` / `Square`, and the generic row-swap operation `swapAt` on lists.
-/
import Mathlib.LinearAlgebra.Matrix.Determinant.Basic
import DelaunayModel.Model.Det

namespace DM

/-! ### `sumRange` and the parity sign -/

theorem sumRange_eq_sum_range (f : Nat → Int) (k : Nat) :
    sumRange f k = ∑ i ∈ Finset.range k, f i := by
  induction k with
  | zero => simp [sumRange]
  | succ k ih => rw [sumRange, ih, Finset.sum_range_succ]

theorem sumRange_eq_sum_fin (f : Nat → Int) (k : Nat) :
    sumRange f k = ∑ i : Fin k, f i := by
  rw [sumRange_eq_sum_range, Fin.sum_univ_eq_sum_range]

theorem paritySign_eq (j : Nat) : (if j % 2 == 0 then (1 : Int) else -1) = (-1) ^ j := by
  rcases Nat.even_or_odd j with h | h
  · have h2 : j % 2 = 0 := Nat.even_iff.mp h
    simp [h2, h.neg_one_pow]
  · have h2 : j % 2 = 1 := Nat.odd_iff.mp h
    simp [h2, h.neg_one_pow]

/-! ### `List.ofFn` and `eraseIdx` -/

theorem getD_of_lt {α : Type _} {l : List α} {i : Nat} (d : α) (h : i < l.length) :
    l.getD i d = l[i] := (List.getElem_eq_getD d).symm

theorem eraseIdx_ofFn {α : Type _} {n : Nat} (f : Fin (n + 1) → α) (j : Fin (n + 1)) :
    (List.ofFn f).eraseIdx j = List.ofFn (fun k : Fin n => f (j.succAbove k)) := by
  apply List.ext_getElem
  · rw [List.length_eraseIdx_of_lt (by rw [List.length_ofFn]; exact j.isLt)]
    simp
  · intro k h1 h2
    have hk : k < n := by simpa using h2
    rw [List.getElem_eraseIdx]
    by_cases hlt : k < (j : Nat)
    · rw [dif_pos hlt]
      simp only [List.getElem_ofFn]
      congr 1
      have : (Fin.castSucc ⟨k, hk⟩ : Fin (n + 1)) < j := by
        simp [Fin.lt_def, hlt]
      rw [Fin.succAbove_of_castSucc_lt _ _ this]
      rfl
    · rw [dif_neg hlt]
      simp only [List.getElem_ofFn]
      congr 1
      have : j ≤ (Fin.castSucc ⟨k, hk⟩ : Fin (n + 1)) := by
        simp only [Fin.le_def, Fin.val_castSucc]
        omega
      rw [Fin.succAbove_of_le_castSucc _ _ this]
      rfl

/-! ### matrices as lists of rows -/

/-- the rows of a matrix, as a list of lists -/
def rowsOf {n m : Nat} (M : Matrix (Fin n) (Fin m) ℤ) : List (List Int) :=
  List.ofFn (fun i => List.ofFn (fun j => M i j))

@[simp] theorem length_rowsOf {n m : Nat} (M : Matrix (Fin n) (Fin m) ℤ) :
    (rowsOf M).length = n := by simp [rowsOf]

theorem rowsOf_succ {n m : Nat} (M : Matrix (Fin (n + 1)) (Fin m) ℤ) :
    rowsOf M = List.ofFn (fun j => M 0 j) :: rowsOf (M.submatrix Fin.succ id) := by
  simp [rowsOf, List.ofFn_succ]

theorem map_eraseIdx_rowsOf {n m : Nat} (M : Matrix (Fin n) (Fin (m + 1)) ℤ) (j : Fin (m + 1)) :
    (rowsOf M).map (fun row => row.eraseIdx j) = rowsOf (M.submatrix id j.succAbove) := by
  simp only [rowsOf, List.map_ofFn]
  congr 1
  funext i
  exact eraseIdx_ofFn (fun j => M i j) j

/-! ### swapping two entries of a list -/

/-- exchange the entries at positions `i` and `j` (identity if either is out of range) -/
def swapAt {α : Type _} (l : List α) (i j : Nat) : List α :=
  match l[i]?, l[j]? with
  | some a, some b => (l.set i b).set j a
  | _, _ => l

theorem swapAt_eq {α : Type _} (l : List α) {i j : Nat} (hi : i < l.length) (hj : j < l.length) :
    swapAt l i j = (l.set i l[j]).set j l[i] := by
  simp [swapAt, List.getElem?_eq_getElem hi, List.getElem?_eq_getElem hj]

@[simp] theorem length_swapAt {α : Type _} (l : List α) (i j : Nat) :
    (swapAt l i j).length = l.length := by
  unfold swapAt
  split <;> simp

theorem getElem?_swapAt {α : Type _} (l : List α) {i j : Nat} (hi : i < l.length)
    (hj : j < l.length) (k : Nat) :
    (swapAt l i j)[k]? = l[if k = i then j else if k = j then i else k]? := by
  rw [swapAt_eq l hi hj]
  simp only [List.getElem?_set, List.length_set]
  by_cases hkj : j = k
  · subst hkj
    by_cases hji : j = i
    · subst hji; simp [hj]
    · simp [hji, hj, hi]
  · have hkj' : ¬ k = j := fun h => hkj h.symm
    by_cases hki : i = k
    · subst hki; simp [hkj, hi, hj]
    · have hki' : ¬ k = i := fun h => hki h.symm
      simp [hkj, hki, hki', hkj']

theorem mem_of_mem_swapAt {α : Type _} {l : List α} {i j : Nat} {a : α}
    (h : a ∈ swapAt l i j) : a ∈ l := by
  by_cases hi : i < l.length
  · by_cases hj : j < l.length
    · obtain ⟨k, hk⟩ := List.mem_iff_getElem?.mp h
      rw [getElem?_swapAt l hi hj] at hk
      exact List.mem_iff_getElem?.mpr ⟨_, hk⟩
    · simpa [swapAt, List.getElem?_eq_none (Nat.le_of_not_lt hj)] using h
  · simpa [swapAt, List.getElem?_eq_none (Nat.le_of_not_lt hi)] using h

theorem map_swapAt {α β : Type _} (f : α → β) (l : List α) (i j : Nat) :
    (swapAt l i j).map f = swapAt (l.map f) i j := by
  by_cases hi : i < l.length
  · by_cases hj : j < l.length
    · rw [swapAt_eq l hi hj, swapAt_eq (l.map f) (by simpa using hi) (by simpa using hj)]
      simp [List.map_set]
    · simp [swapAt, List.getElem?_eq_none (Nat.le_of_not_lt hj)]
  · simp [swapAt, List.getElem?_eq_none (Nat.le_of_not_lt hi)]

theorem swapAt_append_left {α : Type _} (l r : List α) {i j : Nat} (hi : i < l.length)
    (hj : j < l.length) : swapAt (l ++ r) i j = swapAt l i j ++ r := by
  rw [swapAt_eq l hi hj, swapAt_eq (l ++ r) (by simp; omega) (by simp; omega)]
  rw [List.getElem_append_left hi, List.getElem_append_left hj]
  rw [List.set_append_left _ _ hi, List.set_append_left _ _ (by simpa using hj)]

/-- swapping the two entries right after a prefix `p` -/
theorem swapAt_adjacent {α : Type _} (p : List α) (a b : α) (l : List α) :
    swapAt (p ++ a :: b :: l) p.length (p.length + 1) = p ++ b :: a :: l := by
  rw [swapAt_eq _ (by simp) (by simp)]
  simp

/-! ### permutations are generated by adjacent swaps behind a fixed prefix -/

/-- To show `R (p ++ l) (p ++ l')` for every permutation `l'` of `l` it suffices that `R` is
reflexive, transitive and holds for an adjacent transposition behind an arbitrary prefix. -/
theorem perm_prefix_induction {α : Type _} {R : List α → List α → Prop}
    (hrefl : ∀ l, R l l) (htrans : ∀ a b c, R a b → R b c → R a c)
    (hswap : ∀ p a b l, R (p ++ a :: b :: l) (p ++ b :: a :: l))
    {l l' : List α} (hp : l.Perm l') : ∀ p, R (p ++ l) (p ++ l') := by
  induction hp with
  | nil => intro p; exact hrefl _
  | cons a _ ih =>
    intro p
    have := ih (p ++ [a])
    simpa using this
  | swap a b l => intro p; exact hswap p b a l
  | trans _ _ ih1 ih2 => intro p; exact htrans _ _ _ (ih1 p) (ih2 p)

end DM
