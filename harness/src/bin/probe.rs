use delaunay::core::delaunay_triangulation::DelaunayTriangulation;
use delaunay::core::vertex::Vertex;
use delaunay::geometry::kernel::FastKernel;
use delaunay::geometry::point::Point;
use delaunay::geometry::traits::coordinate::Coordinate;
fn main() {
    let pts: Vec<[f64; 2]> = vec![[0.,0.],[1.,0.],[0.,1.]];
    let vs: Vec<Vertex<f64, i32, 2>> = pts.iter().enumerate().map(|(i, p)| Vertex::new_with_uuid(Point::new(*p), uuid::Builder::from_random_bytes((1000u128 + i as u128).to_le_bytes()).into_uuid(), Some(i as i32))).collect();
    let dt = DelaunayTriangulation::<FastKernel<f64>, i32, i32, 2>::with_kernel(&FastKernel::new(), &vs).unwrap();
    println!("{}", serde_json::to_string(dt.tds()).unwrap());
    println!("{}", serde_json::to_string(&dt).unwrap().chars().take(300).collect::<String>());
}
