//! C04 — Delaunay verdicts of the implementation vs the exact empty-sphere oracle, on
//! constructed triangulations, on triangulations pushed away from Delaunay by legal flips, and
//! after removals (K1/K3).
use crate::common::{Ids, Out, Rng};
use crate::gens;
use crate::tri::{self, Opts};
use crate::Cfg;
use delaunay::core::facet::FacetHandle;
use delaunay::core::traits::data_type::DataType;
use delaunay::geometry::kernel::Kernel;
use delaunay::prelude::DelaunayTriangulation;
use delaunay::triangulation::flips::{BistellarFlips, RidgeHandle};

/// apply up to `m` random legal k=2 / k=3 flips; returns how many succeeded
pub fn random_flips<K, U, V, const D: usize>(dt: &mut DelaunayTriangulation<K, U, V, D>, m: usize, rng: &mut Rng) -> usize
where
    K: Kernel<D, Scalar = f64>,
    U: DataType,
    V: DataType,
{
    let mut done = 0;
    let mut tries = 0;
    while done < m && tries < m * 12 + 12 {
        tries += 1;
        let keys: Vec<_> = dt.cells().map(|(k, _)| k).collect();
        if keys.is_empty() {
            break;
        }
        let ck = *rng.pick(&keys);
        let r = if D >= 3 && rng.chance(1, 3) {
            let a = rng.below((D + 1) as u64) as u8;
            let b = (a + 1 + rng.below(D as u64) as u8) % (D as u8 + 1);
            crate::common::catch(|| dt.flip_k3(RidgeHandle::new(ck, a, b)).is_ok())
        } else {
            let i = rng.below((D + 1) as u64) as u8;
            crate::common::catch(|| dt.flip_k2(FacetHandle::new(ck, i)).is_ok())
        };
        if let Ok(true) = r {
            done += 1;
        }
    }
    done
}

fn one<const D: usize>(id: &str, ps: &gens::PointSet, robust: bool, flips: usize, removals: usize, rng: &mut Rng, out: &mut Out) {
    let vs = tri::make_vertices::<D>(&ps.pts, rng);
    let opts = Opts { order: 3, dedup: 0, simplex: 0, retry: 0 };
    macro_rules! body {
        ($dt:expr) => {{
            let mut dt = $dt;
            let mut ids = Ids::default();
            // removals first (repair policy left at its default)
            for _ in 0..removals {
                let vks: Vec<_> = dt.vertices().map(|(k, _)| k).collect();
                if vks.len() <= D + 2 {
                    break;
                }
                let vk = *rng.pick(&vks);
                if let Some(v) = dt.tds().get_vertex_by_key(vk).copied() {
                    let _ = crate::common::catch(|| dt.remove_vertex(&v).is_ok());
                }
            }
            let nflips = random_flips(&mut dt, flips, rng);
            out.case(
                id,
                "cx",
                &format!(
                    "D={D} fam={} gp={} g=1 kernel={} expect={} flips={nflips} removals={removals}",
                    ps.family,
                    ps.gp as u8,
                    if robust { "robust" } else { "fast" },
                    if removals == 0 && nflips == 0 { "valid123" } else if removals == 0 { "valid12m" } else { "none" }
                ),
            );
            tri::export(&dt, &mut ids, out);
            tri::observe_validators(&dt, out, true);
            out.end();
        }};
    }
    if robust {
        if let Ok(Ok(dt)) = tri::build_robust::<D>(&vs, 1, &opts) {
            body!(dt)
        }
    } else if let Ok(Ok(dt)) = tri::build_fast::<D>(&vs, 1, &opts) {
        body!(dt)
    }
}

pub fn run(cfg: &Cfg, rng: &mut Rng, out: &mut Out) {
    let thorough = cfg.tier == "thorough";
    let n = if thorough { 2000 } else { 400 };
    for i in 0..n {
        let d = 2 + (i % 4);
        let np = match d { 2 => rng.range(4, 14), 3 => rng.range(5, 12), 4 => rng.range(6, 10), _ => rng.range(7, 9) } as usize;
        let ps = gens::point_set(rng, d, np);
        let robust = rng.chance(1, 3);
        let flips = [0usize, 1, 1, 2, 3, 6][rng.below(6) as usize];
        let removals = if rng.chance(1, 5) { rng.range(1, 2) as usize } else { 0 };
        let id = format!("f{i}");
        match d {
            2 => one::<2>(&id, &ps, robust, flips, removals, rng, out),
            3 => one::<3>(&id, &ps, robust, flips, removals, rng, out),
            4 => one::<4>(&id, &ps, robust, flips, removals, rng, out),
            _ => one::<5>(&id, &ps, robust, flips, removals, rng, out),
        }
    }
}
