/-
Props/C07.lean — property theorems for C07 (a bistellar / Pachner move edits the cell set exactly
as its `FlipInfo` says, is undone by the inverse move, and changes facet multiplicities only inside
the union `U = R ∪ I`).

Model: Model/Flip.lean.  `R` = removed face (`|R| = D+2-k`), `I` = inserted face (`|I| = k`),
`U = flipUnion R I`, old cells `U \ {w}` (`w ∈ I`), new cells `U \ {v}` (`v ∈ R`).

 * §1  `flip_count`: the number of cells changes by exactly `|R| - |I|`.
 * §2  `flip_info_exact`: removed cells = `flipOld`, created cells = `flipNew`; `flip_nodup`.
 * §3  `flip_inverse`: the move with `R`, `I` exchanged is legal and restores the cell set
       (as a set: `flip_inverse`; as a multiset: `flip_inverse_perm`).
 * §4  `flip_vertex_set` (both faces have ≥ 2 vertices: vertex set unchanged),
       `flip_k1_adds_vertex` (k = 1), `flip_k1_inverse_removes_vertex` (k = D+1).
 * §5  facet multiplicities: `flip_facet_balance` (exact bookkeeping), `flip_facet_degree_outer`
       (facets not inside `U` keep their multiplicity), `flip_facet_inner_counts` (+ corollaries
       `flip_facet_inner_II`, `_RR`, `_RI`).
 * §6  non-vacuity: the 2-D edge flip and the 3-D 2→3 / 3→2 flips, by `decide`.
 * §7  (end of file) consistency with Model/Cavity.lean and Model/StarRemoval.lean: the forward
       k = 1 move is the cavity insertion into one cell (`flip_k1_is_cavity`), the inverse k = 1 move
       is the star removal with one fill cell (`flip_k1_inverse_is_starFill`), every move removes and
       inserts regions with the same boundary (`flip_general_is_cavity_like`), round trips.

Helper lemmas live in Lemmas/FlipAux.lean (§7: Lemmas/ConsistAux.lean; §7 also uses the cavity
section of Props/C02.lean and the star-removal section of Props/C06.lean).  Everything here is
core-only.
-/
import DelaunayModel.Lemmas.FlipAux
import DelaunayModel.Lemmas.ConsistAux
import DelaunayModel.Props.C02
import DelaunayModel.Props.C06
namespace DM.C07

open DM

/-! ## §1 cell count -/

/-- the cell count changes by exactly `|R| - |I| = (D+2-k) - k` -/
theorem flip_count {D : Nat} {cells : List (List Nat)} {R I : List Nat} (hnd : cells.Nodup)
    (hg : flipGuard D cells R I = true) :
    (flipCells cells R I).length + I.length = cells.length + R.length := by
  have g := (flipGuard_iff D cells R I).1 hg
  have hp := (filter_not_contains_append_perm hnd (flipOld_nodup g.nodup) g.old_mem).length_eq
  rw [List.length_append, flipOld_length] at hp
  unfold flipCells
  rw [List.length_append, flipNew_length]
  omega

/-! ## §2 the edit is exactly (`flipOld`, `flipNew`) -/

/-- the cells after the move are the surviving cells plus `flipNew`, and no cell of `flipOld`
survives (an old cell is never re-created as a new cell) -/
theorem flip_info_exact {D : Nat} {cells : List (List Nat)} {R I : List Nat}
    (hg : flipGuard D cells R I = true) :
    (∀ c, c ∈ flipCells cells R I ↔ (c ∈ cells ∧ c ∉ flipOld R I) ∨ c ∈ flipNew R I) ∧
    (∀ c ∈ flipOld R I, c ∉ flipCells cells R I) := by
  have g := (flipGuard_iff D cells R I).1 hg
  refine ⟨fun c => mem_flipCells, ?_⟩
  intro c ho hc
  rcases mem_flipCells.1 hc with h | h
  · exact h.2 ho
  · exact flipOld_not_flipNew g.nodup ho h

/-- every created cell is present after the move and was absent before -/
theorem flip_new_fresh {D : Nat} {cells : List (List Nat)} {R I : List Nat}
    (hg : flipGuard D cells R I = true) :
    ∀ c ∈ flipNew R I, c ∈ flipCells cells R I ∧ c ∉ cells := by
  have g := (flipGuard_iff D cells R I).1 hg
  exact fun c hc => ⟨mem_flipCells.2 (Or.inr hc), g.new_not_mem c hc⟩

theorem flip_nodup {D : Nat} {cells : List (List Nat)} {R I : List Nat} (hnd : cells.Nodup)
    (hg : flipGuard D cells R I = true) : (flipCells cells R I).Nodup := by
  have g := (flipGuard_iff D cells R I).1 hg
  unfold flipCells
  refine List.nodup_append.2 ⟨List.Nodup.sublist List.filter_sublist hnd, flipNew_nodup g.nodup, ?_⟩
  rintro a ha b hb rfl
  exact g.new_not_mem a hb (List.mem_filter.1 ha).1

/-! ## §3 the inverse move -/

/-- the guard of the inverse move (faces exchanged) holds after the move -/
theorem flip_inverse_guard {D : Nat} {cells : List (List Nat)} {R I : List Nat}
    (hg : flipGuard D cells R I = true) : flipGuard D (flipCells cells R I) I R = true := by
  have g := (flipGuard_iff D cells R I).1 hg
  rw [flipGuard_iff]
  refine ⟨(List.perm_append_comm.nodup_iff).1 g.nodup, g.ine, g.rne, ?_, ?_, ?_⟩
  · have := g.len
    omega
  · rw [flipOld_swap]
    exact fun c hc => mem_flipCells.2 (Or.inr hc)
  · rw [flipNew_swap]
    exact (flip_info_exact hg).2

/-- applying the inverse move restores the cell list up to order -/
theorem flip_inverse_perm {D : Nat} {cells : List (List Nat)} {R I : List Nat} (hnd : cells.Nodup)
    (hg : flipGuard D cells R I = true) :
    (flipCells (flipCells cells R I) I R).Perm cells := by
  have g := (flipGuard_iff D cells R I).1 hg
  have h1 : (flipCells cells R I).filter (fun c => !(flipNew R I).contains c) =
      cells.filter (fun c => !(flipOld R I).contains c) := by
    unfold flipCells
    rw [List.filter_append]
    have e1 : (flipNew R I).filter (fun c => !(flipNew R I).contains c) = [] := by
      rw [List.filter_eq_nil_iff]
      intro a ha
      simp [ha]
    have e2 : (cells.filter (fun c => !(flipOld R I).contains c)).filter
        (fun c => !(flipNew R I).contains c) = cells.filter (fun c => !(flipOld R I).contains c) := by
      rw [List.filter_eq_self]
      intro a ha
      have hn : a ∉ flipNew R I := fun h => g.new_not_mem a h (List.mem_filter.1 ha).1
      simp [hn]
    rw [e1, e2, List.append_nil]
  have h2 : flipCells (flipCells cells R I) I R =
      cells.filter (fun c => !(flipOld R I).contains c) ++ flipOld R I := by
    show (flipCells cells R I).filter (fun c => !(flipOld I R).contains c) ++ flipNew I R = _
    have e1 : flipOld I R = flipNew R I := flipOld_swap R I
    have e2 : flipNew I R = flipOld R I := flipNew_swap R I
    simp only [e1, e2]
    rw [h1]
  rw [h2]
  exact filter_not_contains_append_perm hnd (flipOld_nodup g.nodup) g.old_mem

/-- the inverse move restores the cell SET and is legal -/
theorem flip_inverse {D : Nat} {cells : List (List Nat)} {R I : List Nat} (hnd : cells.Nodup)
    (hg : flipGuard D cells R I = true) :
    (∀ c, c ∈ flipCells (flipCells cells R I) I R ↔ c ∈ cells) ∧
    flipGuard D (flipCells cells R I) I R = true :=
  ⟨fun _ => (flip_inverse_perm hnd hg).mem_iff, flip_inverse_guard hg⟩

/-! ## §4 vertex set -/

/-- if both faces have at least two vertices (`2 ≤ k ≤ D`), the move neither adds nor removes a
vertex -/
theorem flip_vertex_set {D : Nat} {cells : List (List Nat)} {R I : List Nat}
    (hg : flipGuard D cells R I = true) (hR : 2 ≤ R.length) (hI : 2 ≤ I.length) :
    ∀ v, v ∈ vertexSet (flipCells cells R I) ↔ v ∈ vertexSet cells := by
  have g := (flipGuard_iff D cells R I).1 hg
  have hRI := List.nodup_append.1 g.nodup
  intro v
  rw [mem_vertexSet, mem_vertexSet]
  constructor
  · rintro ⟨c, hc, hv⟩
    rcases mem_flipCells.1 hc with h | h
    · exact ⟨c, h.1, hv⟩
    · obtain ⟨r, _, rfl⟩ := mem_flipNew.1 h
      obtain ⟨w, hw, hwv⟩ := exists_mem_ne_of_two_le hRI.2.1 hI v
      refine ⟨without (flipUnion R I) w, g.old_mem _ (mem_flipOld.2 ⟨w, hw, rfl⟩), ?_⟩
      exact mem_without.2 ⟨(mem_without.1 hv).1, fun h => hwv h.symm⟩
  · rintro ⟨c, hc, hv⟩
    by_cases ho : c ∈ flipOld R I
    · obtain ⟨w, _, rfl⟩ := mem_flipOld.1 ho
      obtain ⟨r, hr, hrv⟩ := exists_mem_ne_of_two_le hRI.1 hR v
      refine ⟨without (flipUnion R I) r, mem_flipCells.2 (Or.inr (mem_flipNew.2 ⟨r, hr, rfl⟩)), ?_⟩
      exact mem_without.2 ⟨(mem_without.1 hv).1, fun h => hrv h.symm⟩
    · exact ⟨c, mem_flipCells.2 (Or.inl ⟨hc, ho⟩), hv⟩

/-- `k = 1` (vertex insertion into a cell): the vertex set grows by exactly the inserted vertex
`w` (the guard does not say whether `w` was already used by some other cell, hence the `∨`) -/
theorem flip_k1_adds_vertex {D : Nat} {cells : List (List Nat)} {R : List Nat} {w : Nat}
    (hg : flipGuard D cells R [w] = true) (hR : 2 ≤ R.length) :
    ∀ v, v ∈ vertexSet (flipCells cells R [w]) ↔ v ∈ vertexSet cells ∨ v = w := by
  have g := (flipGuard_iff D cells R [w]).1 hg
  have hRI := List.nodup_append.1 g.nodup
  intro v
  rw [mem_vertexSet, mem_vertexSet]
  constructor
  · rintro ⟨c, hc, hv⟩
    rcases mem_flipCells.1 hc with h | h
    · exact Or.inl ⟨c, h.1, hv⟩
    · obtain ⟨r, _, rfl⟩ := mem_flipNew.1 h
      by_cases hvw : v = w
      · exact Or.inr hvw
      · left
        refine ⟨without (flipUnion R [w]) w,
          g.old_mem _ (mem_flipOld.2 ⟨w, List.mem_singleton.2 rfl, rfl⟩), ?_⟩
        exact mem_without.2 ⟨(mem_without.1 hv).1, hvw⟩
  · have key : v ∈ flipUnion R [w] → ∃ c ∈ flipCells cells R [w], v ∈ c := by
      intro hvU
      obtain ⟨r, hr, hrv⟩ := exists_mem_ne_of_two_le hRI.1 hR v
      exact ⟨without (flipUnion R [w]) r, mem_flipCells.2 (Or.inr (mem_flipNew.2 ⟨r, hr, rfl⟩)),
        mem_without.2 ⟨hvU, fun h => hrv h.symm⟩⟩
    rintro (⟨c, hc, hv⟩ | rfl)
    · by_cases ho : c ∈ flipOld R [w]
      · obtain ⟨w', _, rfl⟩ := mem_flipOld.1 ho
        exact key (mem_without.1 hv).1
      · exact ⟨c, mem_flipCells.2 (Or.inl ⟨hc, ho⟩), hv⟩
    · exact key (mem_flipUnion.2 (Or.inr (List.mem_singleton.2 rfl)))

/-- `k = 1`: the inserted vertex is used after the move -/
theorem flip_k1_vertex_present {D : Nat} {cells : List (List Nat)} {R : List Nat} {w : Nat}
    (hg : flipGuard D cells R [w] = true) (hR : 2 ≤ R.length) :
    w ∈ vertexSet (flipCells cells R [w]) :=
  (flip_k1_adds_vertex hg hR w).2 (Or.inr rfl)

/-- `k = D+1` (inverse of a vertex insertion): if the removed vertex `r` is used by the old cells
only (its star is exactly `flipOld`), it disappears and every other vertex stays -/
theorem flip_k1_inverse_removes_vertex {D : Nat} {cells : List (List Nat)} {I : List Nat} {r : Nat}
    (hg : flipGuard D cells [r] I = true) (hI : 2 ≤ I.length)
    (hstar : ∀ c ∈ cells, r ∈ c → c ∈ flipOld [r] I) :
    ∀ v, v ∈ vertexSet (flipCells cells [r] I) ↔ v ∈ vertexSet cells ∧ v ≠ r := by
  have g := (flipGuard_iff D cells [r] I).1 hg
  have hRI := List.nodup_append.1 g.nodup
  intro v
  rw [mem_vertexSet, mem_vertexSet]
  constructor
  · rintro ⟨c, hc, hv⟩
    rcases mem_flipCells.1 hc with h | h
    · refine ⟨⟨c, h.1, hv⟩, ?_⟩
      rintro rfl
      exact h.2 (hstar c h.1 hv)
    · obtain ⟨r', hr', rfl⟩ := mem_flipNew.1 h
      obtain rfl := List.mem_singleton.1 hr'
      refine ⟨?_, (mem_without.1 hv).2⟩
      obtain ⟨w, hw, hwv⟩ := exists_mem_ne_of_two_le hRI.2.1 hI v
      refine ⟨without (flipUnion [r'] I) w, g.old_mem _ (mem_flipOld.2 ⟨w, hw, rfl⟩), ?_⟩
      exact mem_without.2 ⟨(mem_without.1 hv).1, fun h => hwv h.symm⟩
  · rintro ⟨⟨c, hc, hv⟩, hvr⟩
    by_cases ho : c ∈ flipOld [r] I
    · obtain ⟨w, _, rfl⟩ := mem_flipOld.1 ho
      refine ⟨without (flipUnion [r] I) r,
        mem_flipCells.2 (Or.inr (mem_flipNew.2 ⟨r, List.mem_singleton.2 rfl, rfl⟩)), ?_⟩
      exact mem_without.2 ⟨(mem_without.1 hv).1, hvr⟩
    · exact ⟨c, mem_flipCells.2 (Or.inl ⟨hc, ho⟩), hv⟩

/-! ## §5 facet multiplicities -/

/-- exact bookkeeping of facet multiplicities: what the move removes are the facets of the old
cells, what it adds are the facets of the new cells -/
theorem flip_facet_balance {D : Nat} {cells : List (List Nat)} {R I : List Nat} (hnd : cells.Nodup)
    (hg : flipGuard D cells R I = true) (f : List Nat) :
    facetCount (flipCells cells R I) f + facetCount (flipOld R I) f =
      facetCount cells f + facetCount (flipNew R I) f := by
  have g := (flipGuard_iff D cells R I).1 hg
  have hp := facetCount_perm
    (filter_not_contains_append_perm hnd (flipOld_nodup g.nodup) g.old_mem) f
  rw [facetCount_append] at hp
  unfold flipCells
  rw [facetCount_append]
  omega

/-- facets not inside the union keep their multiplicity -/
theorem flip_facet_degree_outer {D : Nat} {cells : List (List Nat)} {R I : List Nat}
    (hnd : cells.Nodup) (hg : flipGuard D cells R I = true) (f : List Nat)
    (hf : ¬ ∀ x ∈ f, x ∈ flipUnion R I) :
    facetCount (flipCells cells R I) f = facetCount cells f := by
  have hb := flip_facet_balance hnd hg f
  have ho : facetCount (flipOld R I) f = 0 :=
    Classical.byContradiction fun h => hf (facet_of_union_cell h)
  have hn : facetCount (flipNew R I) f = 0 :=
    Classical.byContradiction fun h => hf (facet_of_union_cell h)
  omega

/-- more generally: a facet of no old and no new cell keeps its multiplicity -/
theorem flip_facet_degree_outer' {D : Nat} {cells : List (List Nat)} {R I : List Nat}
    (hnd : cells.Nodup) (hg : flipGuard D cells R I = true) (f : List Nat)
    (ho : facetCount (flipOld R I) f = 0) (hn : facetCount (flipNew R I) f = 0) :
    facetCount (flipCells cells R I) f = facetCount cells f := by
  have hb := flip_facet_balance hnd hg f
  omega

/-- the facet `U \ {a, b}` (`a ≠ b` in `U`) occurs `[a ∈ I] + [b ∈ I]` times among the old cells
and `[a ∈ R] + [b ∈ R]` times among the new cells -/
theorem flip_facet_inner_counts {D : Nat} {cells : List (List Nat)} {R I : List Nat}
    (hg : flipGuard D cells R I = true) {a b : Nat} (ha : a ∈ flipUnion R I)
    (hb : b ∈ flipUnion R I) (hab : a ≠ b) :
    facetCount (flipOld R I) (without (without (flipUnion R I) a) b) =
      (if a ∈ I then 1 else 0) + (if b ∈ I then 1 else 0) ∧
    facetCount (flipNew R I) (without (without (flipUnion R I) a) b) =
      (if a ∈ R then 1 else 0) + (if b ∈ R then 1 else 0) := by
  have g := (flipGuard_iff D cells R I).1 hg
  have hRI := List.nodup_append.1 g.nodup
  have hU := flipUnion_nodup g.nodup
  constructor
  · unfold flipOld
    rw [map_without_facetCount hU (fun _ hx => mem_flipUnion.2 (Or.inr hx)) ha hb hab,
      hRI.2.1.count, hRI.2.1.count]
  · unfold flipNew
    rw [map_without_facetCount hU (fun _ hx => mem_flipUnion.2 (Or.inl hx)) ha hb hab,
      hRI.1.count, hRI.1.count]

/-- both omitted vertices in `I`: the facet is interior to the old cells (shared by two of them)
and gone after the move -/
theorem flip_facet_inner_II {D : Nat} {cells : List (List Nat)} {R I : List Nat}
    (hnd : cells.Nodup) (hg : flipGuard D cells R I = true) {a b : Nat} (ha : a ∈ I) (hb : b ∈ I)
    (hab : a ≠ b) :
    facetCount (flipOld R I) (without (without (flipUnion R I) a) b) = 2 ∧
    facetCount (flipNew R I) (without (without (flipUnion R I) a) b) = 0 ∧
    facetCount (flipCells cells R I) (without (without (flipUnion R I) a) b) + 2 =
      facetCount cells (without (without (flipUnion R I) a) b) := by
  have g := (flipGuard_iff D cells R I).1 hg
  have hRI := List.nodup_append.1 g.nodup
  have haR : a ∉ R := fun h => hRI.2.2 a h a ha rfl
  have hbR : b ∉ R := fun h => hRI.2.2 b h b hb rfl
  have hc := flip_facet_inner_counts hg (mem_flipUnion.2 (Or.inr ha)) (mem_flipUnion.2 (Or.inr hb))
    hab
  rw [if_pos ha, if_pos hb, if_neg haR, if_neg hbR] at hc
  have hbal := flip_facet_balance hnd hg (without (without (flipUnion R I) a) b)
  refine ⟨hc.1, hc.2, ?_⟩
  omega

/-- both omitted vertices in `R`: the facet is absent from the old cells and interior to the new
cells (shared by two of them) -/
theorem flip_facet_inner_RR {D : Nat} {cells : List (List Nat)} {R I : List Nat}
    (hnd : cells.Nodup) (hg : flipGuard D cells R I = true) {a b : Nat} (ha : a ∈ R) (hb : b ∈ R)
    (hab : a ≠ b) :
    facetCount (flipOld R I) (without (without (flipUnion R I) a) b) = 0 ∧
    facetCount (flipNew R I) (without (without (flipUnion R I) a) b) = 2 ∧
    facetCount (flipCells cells R I) (without (without (flipUnion R I) a) b) =
      facetCount cells (without (without (flipUnion R I) a) b) + 2 := by
  have g := (flipGuard_iff D cells R I).1 hg
  have hRI := List.nodup_append.1 g.nodup
  have haI : a ∉ I := fun h => hRI.2.2 a ha a h rfl
  have hbI : b ∉ I := fun h => hRI.2.2 b hb b h rfl
  have hc := flip_facet_inner_counts hg (mem_flipUnion.2 (Or.inl ha)) (mem_flipUnion.2 (Or.inl hb))
    hab
  rw [if_pos ha, if_pos hb, if_neg haI, if_neg hbI] at hc
  have hbal := flip_facet_balance hnd hg (without (without (flipUnion R I) a) b)
  refine ⟨hc.1, hc.2, ?_⟩
  omega

/-- one omitted vertex in each face: the facet is on the boundary of the move before and after
(one old cell, one new cell), so its multiplicity in the complex is unchanged -/
theorem flip_facet_inner_RI {D : Nat} {cells : List (List Nat)} {R I : List Nat}
    (hnd : cells.Nodup) (hg : flipGuard D cells R I = true) {a b : Nat} (ha : a ∈ R) (hb : b ∈ I) :
    facetCount (flipOld R I) (without (without (flipUnion R I) a) b) = 1 ∧
    facetCount (flipNew R I) (without (without (flipUnion R I) a) b) = 1 ∧
    facetCount (flipCells cells R I) (without (without (flipUnion R I) a) b) =
      facetCount cells (without (without (flipUnion R I) a) b) := by
  have g := (flipGuard_iff D cells R I).1 hg
  have hRI := List.nodup_append.1 g.nodup
  have hab : a ≠ b := hRI.2.2 a ha b hb
  have haI : a ∉ I := fun h => hRI.2.2 a ha a h rfl
  have hbR : b ∉ R := fun h => hRI.2.2 b h b hb rfl
  have hc := flip_facet_inner_counts hg (mem_flipUnion.2 (Or.inl ha)) (mem_flipUnion.2 (Or.inr hb))
    hab
  rw [if_pos ha, if_pos hb, if_neg haI, if_neg hbR] at hc
  have hbal := flip_facet_balance hnd hg (without (without (flipUnion R I) a) b)
  refine ⟨hc.1, hc.2, ?_⟩
  omega

/-! ## §6 non-vacuity -/

/-- 2-D edge flip (k = 2): the guard holds -/
theorem ex2d_guard : flipGuard 2 [[0, 1, 2], [1, 2, 3]] [1, 2] [0, 3] = true := by decide

theorem ex2d_cells : flipCells [[0, 1, 2], [1, 2, 3]] [1, 2] [0, 3] = [[0, 2, 3], [0, 1, 3]] := by
  decide

theorem ex2d_cells_perm :
    (flipCells [[0, 1, 2], [1, 2, 3]] [1, 2] [0, 3]).Perm [[0, 1, 3], [0, 2, 3]] := by
  rw [ex2d_cells]
  exact List.Perm.swap _ _ _

/-- … and the inverse move is legal and gives back the two original triangles -/
theorem ex2d_inverse :
    flipGuard 2 (flipCells [[0, 1, 2], [1, 2, 3]] [1, 2] [0, 3]) [0, 3] [1, 2] = true ∧
    flipCells (flipCells [[0, 1, 2], [1, 2, 3]] [1, 2] [0, 3]) [0, 3] [1, 2] =
      [[1, 2, 3], [0, 1, 2]] := by
  decide

/-- the shared edge `[1,2]` is interior before (count 2) and gone after; the new edge `[0,3]` is
absent before and interior after; the four outer edges keep multiplicity 1 -/
theorem ex2d_facets :
    facetCount [[0, 1, 2], [1, 2, 3]] [1, 2] = 2 ∧
    facetCount (flipCells [[0, 1, 2], [1, 2, 3]] [1, 2] [0, 3]) [1, 2] = 0 ∧
    facetCount [[0, 1, 2], [1, 2, 3]] [0, 3] = 0 ∧
    facetCount (flipCells [[0, 1, 2], [1, 2, 3]] [1, 2] [0, 3]) [0, 3] = 2 ∧
    facetCount [[0, 1, 2], [1, 2, 3]] [0, 1] = 1 ∧
    facetCount (flipCells [[0, 1, 2], [1, 2, 3]] [1, 2] [0, 3]) [0, 1] = 1 := by
  decide

/-- the 2-D edge flip is refused when the new edge already spans a cell of the complex … -/
theorem ex2d_guard_rejects_existing :
    flipGuard 2 [[0, 1, 2], [1, 2, 3], [0, 1, 3]] [1, 2] [0, 3] = false := by decide

/-- … and when an old cell is missing -/
theorem ex2d_guard_rejects_missing : flipGuard 2 [[0, 1, 2]] [1, 2] [0, 3] = false := by decide

/-- 3-D 2→3 flip (k = 2): legal, and two tetrahedra become three -/
theorem ex3d_23 :
    flipGuard 3 [[0, 1, 2, 3], [1, 2, 3, 4]] [1, 2, 3] [0, 4] = true ∧
    flipCells [[0, 1, 2, 3], [1, 2, 3, 4]] [1, 2, 3] [0, 4] =
      [[0, 2, 3, 4], [0, 1, 3, 4], [0, 1, 2, 4]] ∧
    (flipCells [[0, 1, 2, 3], [1, 2, 3, 4]] [1, 2, 3] [0, 4]).length = 3 := by
  decide

/-- 3-D 3→2 flip (k = 3), the inverse of the above: three tetrahedra become two -/
theorem ex3d_32 :
    flipGuard 3 [[0, 2, 3, 4], [0, 1, 3, 4], [0, 1, 2, 4]] [0, 4] [1, 2, 3] = true ∧
    flipCells [[0, 2, 3, 4], [0, 1, 3, 4], [0, 1, 2, 4]] [0, 4] [1, 2, 3] =
      [[1, 2, 3, 4], [0, 1, 2, 3]] := by
  decide

/-- 2-D 1→3 flip (k = 1): vertex `3` inserted into the triangle `[0,1,2]`, and its inverse -/
theorem ex2d_13 :
    flipGuard 2 [[0, 1, 2]] [0, 1, 2] [3] = true ∧
    flipCells [[0, 1, 2]] [0, 1, 2] [3] = [[1, 2, 3], [0, 2, 3], [0, 1, 3]] ∧
    vertexSet (flipCells [[0, 1, 2]] [0, 1, 2] [3]) = [2, 0, 1, 3] ∧
    flipGuard 2 [[1, 2, 3], [0, 2, 3], [0, 1, 3]] [3] [0, 1, 2] = true ∧
    flipCells [[1, 2, 3], [0, 2, 3], [0, 1, 3]] [3] [0, 1, 2] = [[0, 1, 2]] := by
  decide

end DM.C07

/-! ### The inserted face is new: its star after the move is exactly the created cells -/
namespace DM.C07
open DM

/-- With the full guard (the inserted face `I` is contained in no cell outside the removed star)
every cell of the result that contains all of `I` is one of the created cells: the star of the
inserted face is exactly `flipNew R I`, so its link is the boundary of the simplex `R` — a sphere —
and not two spheres glued along nothing. -/
theorem flip_inserted_star (D : Nat) (cells : List (List Nat)) (R I : List Nat)
    (h : flipGuardFull D cells R I = true) :
    ∀ c ∈ flipCells cells R I, (∀ v ∈ I, v ∈ c) → c ∈ flipNew R I := by
  intro c hc hI
  unfold flipGuardFull at h
  rw [Bool.and_eq_true] at h
  obtain ⟨_, hnew⟩ := h
  unfold flipCells at hc
  rw [List.mem_append] at hc
  rcases hc with hc | hc
  · rw [List.mem_filter] at hc
    obtain ⟨hmem, hnot⟩ := hc
    unfold insertedFaceNew at hnew
    rw [List.all_eq_true] at hnew
    have := hnew c hmem
    rw [Bool.or_eq_true] at this
    rcases this with h1 | h2
    · exact absurd (List.contains_iff_mem.mp h1) (by simpa using hnot)
    · exfalso
      have hall : I.all c.contains = true := by
        rw [List.all_eq_true]
        intro v hv
        exact List.contains_iff_mem.mpr (hI v hv)
      simp [hall] at h2
  · exact hc

/-- the full guard implies the basic guard, so every theorem above applies to a fully guarded move -/
theorem flipGuardFull_guard (D : Nat) (cells : List (List Nat)) (R I : List Nat)
    (h : flipGuardFull D cells R I = true) : flipGuard D cells R I = true := by
  unfold flipGuardFull at h
  rw [Bool.and_eq_true] at h
  exact h.1

/-- non-vacuity / necessity: a 4-D k=3 move whose inserted triangle {5,6,7} already lies in the
cell {5,6,7,8,9} passes the basic guard but not the full one, and afterwards the triangle has a cell
in its star that the move did not create. -/
def exCells4 : List (List Nat) := [[1,2,3,5,6], [1,2,3,5,7], [1,2,3,6,7], [5,6,7,8,9]]
example : flipGuard 4 exCells4 [1,2,3] [5,6,7] = true := by decide
example : flipGuardFull 4 exCells4 [1,2,3] [5,6,7] = false := by decide
example : [5,6,7,8,9] ∈ flipCells exCells4 [1,2,3] [5,6,7] ∧ [5,6,7,8,9] ∉ flipNew [1,2,3] [5,6,7] := by decide
example : flipGuardFull 4 [[1,2,3,5,6], [1,2,3,5,7], [1,2,3,6,7]] [1,2,3] [5,6,7] = true := by decide

end DM.C07

/-! ## §7 The three cell-set models agree where they overlap

Model/Flip.lean (bistellar moves), Model/Cavity.lean (cavity insertion) and Model/StarRemoval.lean
(star removal) describe the same edits of the abstract complex from three sides.  All theorems hold
for every cell list (no bound on size or dimension).  Helper lemmas: Lemmas/ConsistAux.lean.

 * §7.1 `flip_k1_is_cavity` (+ `flip_k1_old_cell`, list forms `flip_k1_eq_cavityInsertWith`,
        `flip_k1_eq_cavityInsert_of_sorted`), `flip_k1_cavityStep_ok` (the executable cavity check
        accepts every forward k = 1 move with a fresh vertex)
 * §7.2 `flip_k1_inverse_is_starFill` (+ list form `flip_k1_inverse_eq_starFill`),
        `flip_k1_inverse_starRemoval_ok` (the executable star-removal check accepts it),
        `flip_k1_inverse_needs_star` (the star hypothesis cannot be dropped)
 * §7.3 `flip_general_is_cavity_like`
 * §7.4 `k1_roundtrip_via_models`, `flip_k1_roundtrip_via_models`
 * §7.5 non-vacuity by `decide`
-/
namespace DM.C07
open DM

/-! ### §7.1 forward k = 1 move = cavity insertion into one cell -/

/-- the removed region of a forward k = 1 move is the single cell `sortNat R` (the removed face as a
cell, `= flipUnion R [w]` without `w`), and it is a cell of the complex -/
theorem flip_k1_old_cell {D : Nat} {cells : List (List Nat)} {R : List Nat} {w : Nat}
    (hg : flipGuard D cells R [w] = true) :
    flipOld R [w] = [sortNat R] ∧ sortNat R = without (flipUnion R [w]) w ∧ sortNat R ∈ cells := by
  have g := (flipGuard_iff D cells R [w]).1 hg
  refine ⟨flipOld_k1 g.nodup, (flipUnion_without_inserted g.nodup).symm, ?_⟩
  apply g.old_mem
  rw [flipOld_k1 g.nodup]
  exact List.mem_singleton.2 rfl

/-- list form: the forward k = 1 move IS the cavity insertion that removes the single cell
`sortNat R` and cones `w` over its facets (listed in the order of `R`) -/
theorem flip_k1_eq_cavityInsertWith {D : Nat} {cells : List (List Nat)} {R : List Nat} {w : Nat}
    (hg : flipGuard D cells R [w] = true) :
    flipCells cells R [w] =
      cavityInsertWith cells [sortNat R] (R.map (without (sortNat R))) w :=
  flipCells_k1_eq cells ((flipGuard_iff D cells R [w]).1 hg).nodup

/-- list form for a sorted removed face: literally the interior cavity insertion -/
theorem flip_k1_eq_cavityInsert_of_sorted {D : Nat} {cells : List (List Nat)} {R : List Nat}
    {w : Nat} (hg : flipGuard D cells R [w] = true) (hs : R.Pairwise (· ≤ ·)) :
    flipCells cells R [w] = cavityInsert cells [R] w :=
  flipCells_k1_eq_cavityInsert_of_sorted cells ((flipGuard_iff D cells R [w]).1 hg).nodup hs

/-- **a forward k = 1 move is the cavity insertion of `w` with conflict region the one cell
`sortNat R`**: the cavity boundary of a single cell is all its `D+1` facets, and coning `w` over
each of them gives exactly `flipNew R [w]` -/
theorem flip_k1_is_cavity {D : Nat} {cells : List (List Nat)} {R : List Nat} {w : Nat}
    (hg : flipGuard D cells R [w] = true) :
    ∀ x, x ∈ flipCells cells R [w] ↔ x ∈ cavityInsert cells [sortNat R] w := by
  have g := (flipGuard_iff D cells R [w]).1 hg
  have hR : R.Nodup := (List.nodup_append.1 g.nodup).1
  intro x
  rw [flipCells_k1_eq cells g.nodup]
  show _ ↔ x ∈ cavityInsertWith cells [sortNat R] (cavityBoundary [sortNat R]) w
  rw [C02.cavity_mem, C02.cavity_mem]
  constructor
  · rintro (h | ⟨f, hf, rfl⟩)
    · exact Or.inl h
    · obtain ⟨r, hr, rfl⟩ := List.mem_map.1 hf
      exact Or.inr ⟨_, (mem_cavityBoundary_single (sortNat_nodup hR)).2
        ⟨r, mem_sortNat.2 hr, rfl⟩, rfl⟩
  · rintro (h | ⟨f, hf, rfl⟩)
    · exact Or.inl h
    · obtain ⟨r, hr, rfl⟩ := (mem_cavityBoundary_single (sortNat_nodup hR)).1 hf
      exact Or.inr ⟨_, List.mem_map.2 ⟨r, mem_sortNat.1 hr, rfl⟩, rfl⟩

/-- **the executable cavity check accepts every forward k = 1 move** that inserts a vertex used by
no cell before (the guard alone does not say that `w` is new, cf. `flip_k1_adds_vertex`) -/
theorem flip_k1_cavityStep_ok {D : Nat} {cells : List (List Nat)} {R : List Nat} {w : Nat}
    (hnd : cells.Nodup) (hg : flipGuard D cells R [w] = true) (hfresh : ∀ c ∈ cells, w ∉ c) :
    cavityStepProblem cells (flipCells cells R [w]) w = none := by
  have g := (flipGuard_iff D cells R [w]).1 hg
  have hRI := List.nodup_append.1 g.nodup
  have hR : R.Nodup := hRI.1
  have hc : (sortNat R).Nodup := sortNat_nodup hR
  rw [flipCells_k1_eq cells g.nodup]
  have h1 : [sortNat R].Nodup := by simp
  refine C02.cavityStepProblem_complete hnd h1 ?_ hfresh ?_ ?_ ?_ ?_ ?_ ?_
  · intro c hc'
    rw [List.mem_singleton.1 hc']
    exact (flip_k1_old_cell hg).2.2
  · exact map_without_nodup hR (fun x hx => mem_sortNat.2 hx)
  · intro e
    exact g.rne (List.map_eq_nil_iff.1 e)
  · intro f hf
    obtain ⟨r, _, rfl⟩ := List.mem_map.1 hf
    exact without_lt_sorted (sortNat_lt_sorted hR) r
  · intro f hf hw
    obtain ⟨r, _, rfl⟩ := List.mem_map.1 hf
    have hwR : w ∈ R := mem_sortNat.1 (mem_without.1 hw).1
    exact hRI.2.2 w hwR w (List.mem_singleton.2 rfl) rfl
  · intro f hf
    obtain ⟨x, hx, rfl⟩ := (mem_cavityBoundary_single hc).1 hf
    exact Or.inl (List.mem_map.2 ⟨x, mem_sortNat.1 hx, rfl⟩)
  · intro f hf
    obtain ⟨r, hr, rfl⟩ := List.mem_map.1 hf
    exact Or.inl ((mem_cavityBoundary_single hc).2 ⟨r, mem_sortNat.2 hr, rfl⟩)

/-! ### §7.2 inverse k = 1 move = star removal with one fill cell -/

/-- list form: if the star of `r` is exactly `flipOld [r] I`, the inverse k = 1 move IS the star
removal of `r` with the single fill cell `sortNat I` -/
theorem flip_k1_inverse_eq_starFill {D : Nat} {cells : List (List Nat)} {I : List Nat} {r : Nat}
    (hg : flipGuard D cells [r] I = true) (hstar : ∀ c ∈ cells, r ∈ c → c ∈ flipOld [r] I) :
    flipCells cells [r] I = starFill cells r [sortNat I] := by
  have g := (flipGuard_iff D cells [r] I).1 hg
  unfold flipCells starFill
  rw [flipNew_k1_inverse g.nodup]
  congr 1
  apply List.filter_congr
  intro c hc
  by_cases hr : r ∈ c
  · have := hstar c hc hr
    simp [hr, this]
  · have : c ∉ flipOld [r] I := fun h => hr (flipOld_k1_inverse_contains g.nodup h)
    simp [hr, this]

/-- **an inverse k = 1 move is the star removal of `r` with fill `[sortNat I]`**, provided the star
of `r` is exactly the `D+1` old cells (what the implementation checks through the size of the vertex
star) -/
theorem flip_k1_inverse_is_starFill {D : Nat} {cells : List (List Nat)} {I : List Nat} {r : Nat}
    (hg : flipGuard D cells [r] I = true) (hstar : ∀ c ∈ cells, r ∈ c → c ∈ flipOld [r] I) :
    ∀ x, x ∈ flipCells cells [r] I ↔ x ∈ starFill cells r [sortNat I] := by
  intro x
  rw [flip_k1_inverse_eq_starFill hg hstar]

/-- the new cell of the inverse k = 1 move is `sortNat I`, it does not contain `r`, and every old
cell does -/
theorem flip_k1_inverse_new_cell {D : Nat} {cells : List (List Nat)} {I : List Nat} {r : Nat}
    (hg : flipGuard D cells [r] I = true) :
    flipNew [r] I = [sortNat I] ∧ r ∉ sortNat I ∧ ∀ c ∈ flipOld [r] I, r ∈ c := by
  have g := (flipGuard_iff D cells [r] I).1 hg
  refine ⟨flipNew_k1_inverse g.nodup, ?_, fun c hc => flipOld_k1_inverse_contains g.nodup hc⟩
  intro h
  exact (List.nodup_append.1 g.nodup).2.2 r (List.mem_singleton.2 rfl) r (mem_sortNat.1 h) rfl

/-- **the executable star-removal check accepts every inverse k = 1 move** on a duplicate-free
complex of sorted cells whose removed vertex has exactly the old cells as star (`D ≥ 1`, i.e. the
inserted face has at least two vertices, so that every link vertex is seen in a star cell) -/
theorem flip_k1_inverse_starRemoval_ok {D : Nat} {cells : List (List Nat)} {I : List Nat} {r : Nat}
    (hnd : cells.Nodup) (hs : ∀ c ∈ cells, c.Pairwise (· < ·))
    (hg : flipGuard D cells [r] I = true) (hI : 2 ≤ I.length)
    (hstar : ∀ c ∈ cells, r ∈ c → c ∈ flipOld [r] I) :
    starRemovalProblem cells (flipCells cells [r] I) r = none := by
  have g := (flipGuard_iff D cells [r] I).1 hg
  have hRI := List.nodup_append.1 g.nodup
  have hIn : I.Nodup := hRI.2.1
  have hc : (sortNat I).Nodup := sortNat_nodup hIn
  have hUr := flipUnion_without_removed_vertex g.nodup
  have hrU : r ∈ flipUnion [r] I := mem_flipUnion.2 (Or.inl (List.mem_singleton.2 rfl))
  -- the old cell opposite `w ∈ I` is a star cell of `r`
  have hold : ∀ w ∈ I, without (flipUnion [r] I) w ∈ cells ∧ r ∈ without (flipUnion [r] I) w := by
    intro w hw
    have hm : without (flipUnion [r] I) w ∈ flipOld [r] I := mem_flipOld.2 ⟨w, hw, rfl⟩
    exact ⟨g.old_mem _ hm, flipOld_k1_inverse_contains g.nodup hm⟩
  have hfill : ∀ c ∈ [sortNat I], c = sortNat I := fun c hc' => List.mem_singleton.1 hc'
  rw [flip_k1_inverse_eq_starFill hg hstar]
  have h1 : [sortNat I].Nodup := by simp
  refine C06.starRemovalProblem_complete_interior hnd hs ?_ ?_ ?_ h1 ?_ ?_ ?_
  · obtain ⟨w, hw, _⟩ := exists_mem_ne_of_two_le hIn hI r
    exact List.ne_nil_of_mem (mem_starOf.2 (hold w hw))
  · intro c hc'
    rw [hfill c hc']
    exact (flip_k1_inverse_new_cell hg).2.1
  · intro c hc'
    rw [hfill c hc']
    apply g.new_not_mem
    rw [flipNew_k1_inverse g.nodup]
    exact List.mem_singleton.2 rfl
  · intro c hc' u hu
    rw [hfill c hc'] at hu
    have huI : u ∈ I := mem_sortNat.1 hu
    obtain ⟨w, hw, hwu⟩ := exists_mem_ne_of_two_le hIn hI u
    exact ⟨_, mem_starOf.2 (hold w hw),
      mem_without.2 ⟨mem_flipUnion.2 (Or.inr huI), fun e => hwu e.symm⟩⟩
  · intro f hf
    rw [cellFacets_single] at hf
    obtain ⟨x, hx, rfl⟩ := List.mem_map.1 hf
    exact Or.inl (facetCount_single_facet hc hx)
  · intro f
    rw [mem_cavityBoundary_single hc, mem_linkOf]
    constructor
    · rintro ⟨x, hx, rfl⟩
      refine ⟨_, (hold x (mem_sortNat.1 hx)).1, (hold x (mem_sortNat.1 hx)).2, ?_⟩
      rw [without_comm, hUr]
    · rintro ⟨c, hc', hrc, rfl⟩
      obtain ⟨w, hw, rfl⟩ := mem_flipOld.1 (hstar c hc' hrc)
      refine ⟨w, mem_sortNat.2 hw, ?_⟩
      rw [without_comm _ w r, hUr]

/-- **the star hypothesis is necessary**: `3` has a fourth cell `[3,4,5]` outside the three old
cells; the guard holds, the move leaves `[3,4,5]` in place, the star removal drops it -/
theorem flip_k1_inverse_needs_star :
    flipGuard 2 [[0, 1, 3], [0, 2, 3], [1, 2, 3], [3, 4, 5]] [3] [0, 1, 2] = true ∧
    [3, 4, 5] ∈ flipCells [[0, 1, 3], [0, 2, 3], [1, 2, 3], [3, 4, 5]] [3] [0, 1, 2] ∧
    [3, 4, 5] ∉ starFill [[0, 1, 3], [0, 2, 3], [1, 2, 3], [3, 4, 5]] 3 [sortNat [0, 1, 2]] ∧
    ¬ (∀ x, x ∈ flipCells [[0, 1, 3], [0, 2, 3], [1, 2, 3], [3, 4, 5]] [3] [0, 1, 2] ↔
        x ∈ starFill [[0, 1, 3], [0, 2, 3], [1, 2, 3], [3, 4, 5]] 3 [sortNat [0, 1, 2]]) := by
  refine ⟨by decide, by decide, by decide, fun h => ?_⟩
  exact absurd ((h [3, 4, 5]).1 (by decide)) (by decide)

/-! ### §7.3 every move: remove a region, add a region with the same boundary -/

/-- **every bistellar move is a "remove a region, add cells" step with the facet bookkeeping of the
cavity model**: the result is the kept cells plus `flipNew`, and the removed region `flipOld R I`
and the inserted region `flipNew R I` have the same boundary facets — the facets `U \ {a, b}` with
`a ∈ R`, `b ∈ I` (the two halves of the boundary of the `(D+1)`-simplex on `U` share their common
boundary).  Together with `flip_facet_balance` this is why a move keeps every facet degree outside
the two regions and on their common boundary (`flip_facet_inner_RI`). -/
theorem flip_general_is_cavity_like {D : Nat} {cells : List (List Nat)} {R I : List Nat}
    (hg : flipGuard D cells R I = true) :
    flipCells cells R I = cells.filter (fun c => !(flipOld R I).contains c) ++ flipNew R I ∧
    (∀ f, f ∈ cavityBoundary (flipOld R I) ↔ f ∈ cavityBoundary (flipNew R I)) ∧
    (∀ f, f ∈ cavityBoundary (flipOld R I) ↔
      ∃ a ∈ R, ∃ b ∈ I, f = without (without (flipUnion R I) a) b) := by
  have g := (flipGuard_iff D cells R I).1 hg
  exact ⟨rfl, flip_region_boundary_iff g.nodup, fun f => mem_cavityBoundary_flipOld g.nodup⟩

/-- in the counting form of `cavity_facet_degree`: a facet on the common boundary has degree 1 in
both regions, every other facet has the same "is a boundary facet" status in both -/
theorem flip_region_boundary_count {D : Nat} {cells : List (List Nat)} {R I : List Nat}
    (hg : flipGuard D cells R I = true) (f : List Nat) :
    facetCount (flipOld R I) f = 1 ↔ facetCount (flipNew R I) f = 1 := by
  rw [← mem_cavityBoundary, ← mem_cavityBoundary]
  exact (flip_general_is_cavity_like hg).2.1 f

/-! ### §7.4 round trips -/

/-- inserting `w` into the single cell `c` by the cavity model and removing it again by the
star-removal model with `c` as fill restores the cell set (instance of `starFill_cavity_inverse`) -/
theorem k1_roundtrip_via_models {cells : List (List Nat)} {c : List Nat} {w : Nat} (hc : c ∈ cells)
    (hfresh : ∀ c' ∈ cells, w ∉ c') :
    ∀ x, x ∈ starFill (cavityInsert cells [c] w) w [c] ↔ x ∈ cells :=
  C06.starFill_cavity_inverse (fun _ hc' => (List.mem_singleton.1 hc') ▸ hc) hfresh

/-- the k = 1 move followed by its inverse, in the flip model, is the cavity insertion followed by
the star removal, in the other two models (cell by cell) — and both give back the original cells -/
theorem flip_k1_roundtrip_via_models {D : Nat} {cells : List (List Nat)} {R : List Nat} {w : Nat}
    (hg : flipGuard D cells R [w] = true) (hfresh : ∀ c ∈ cells, w ∉ c) :
    (∀ x, x ∈ flipCells (flipCells cells R [w]) [w] R ↔
      x ∈ starFill (cavityInsert cells [sortNat R] w) w [sortNat R]) ∧
    (∀ x, x ∈ starFill (cavityInsert cells [sortNat R] w) w [sortNat R] ↔ x ∈ cells) := by
  have hstar : ∀ c ∈ flipCells cells R [w], w ∈ c → c ∈ flipOld [w] R := by
    intro c hc hw
    rw [flipOld_swap]
    rcases mem_flipCells.1 hc with h | h
    · exact absurd hw (hfresh c h.1)
    · exact h
  refine ⟨fun x => ?_, k1_roundtrip_via_models (flip_k1_old_cell hg).2.2 hfresh⟩
  rw [flip_k1_inverse_is_starFill (flip_inverse_guard hg) hstar x, C06.starFill_mem,
    C06.starFill_mem, flip_k1_is_cavity hg x]

/-! ### §7.5 non-vacuity -/

/-- 2-D, k = 1: `9` inserted into `[0,1,2]` next to `[1,2,3]`: the move and the cavity insertion
give the same three new triangles, and the executable cavity check accepts the move -/
theorem ex_consist_k1_2d :
    flipGuard 2 [[0, 1, 2], [1, 2, 3]] [0, 1, 2] [9] = true ∧
    flipCells [[0, 1, 2], [1, 2, 3]] [0, 1, 2] [9] = [[1, 2, 3], [1, 2, 9], [0, 2, 9], [0, 1, 9]] ∧
    cavityInsert [[0, 1, 2], [1, 2, 3]] [[0, 1, 2]] 9 =
      [[1, 2, 3], [1, 2, 9], [0, 2, 9], [0, 1, 9]] ∧
    cavityBoundary [[0, 1, 2]] = [[1, 2], [0, 2], [0, 1]] ∧
    cavityStepProblem [[0, 1, 2], [1, 2, 3]] (flipCells [[0, 1, 2], [1, 2, 3]] [0, 1, 2] [9]) 9
      = none := by
  decide

/-- the same with the removed face given unsorted: same cells, other order -/
theorem ex_consist_k1_2d_unsorted :
    flipCells [[0, 1, 2], [1, 2, 3]] [2, 0, 1] [9] = [[1, 2, 3], [0, 1, 9], [1, 2, 9], [0, 2, 9]] ∧
    cavityInsert [[0, 1, 2], [1, 2, 3]] [sortNat [2, 0, 1]] 9 =
      [[1, 2, 3], [1, 2, 9], [0, 2, 9], [0, 1, 9]] := by
  decide

/-- 2-D, the inverse: `9` removed again; the move and the star removal give the same cells, and the
executable star-removal check accepts the move -/
theorem ex_consist_k1_inverse_2d :
    flipGuard 2 [[1, 2, 3], [1, 2, 9], [0, 2, 9], [0, 1, 9]] [9] [0, 1, 2] = true ∧
    (∀ c ∈ [[1, 2, 3], [1, 2, 9], [0, 2, 9], [0, 1, 9]], 9 ∈ c → c ∈ flipOld [9] [0, 1, 2]) ∧
    flipCells [[1, 2, 3], [1, 2, 9], [0, 2, 9], [0, 1, 9]] [9] [0, 1, 2] = [[1, 2, 3], [0, 1, 2]] ∧
    starFill [[1, 2, 3], [1, 2, 9], [0, 2, 9], [0, 1, 9]] 9 [sortNat [0, 1, 2]] =
      [[1, 2, 3], [0, 1, 2]] ∧
    starRemovalProblem [[1, 2, 3], [1, 2, 9], [0, 2, 9], [0, 1, 9]]
      (flipCells [[1, 2, 3], [1, 2, 9], [0, 2, 9], [0, 1, 9]] [9] [0, 1, 2]) 9 = none := by
  decide

/-- 3-D, k = 1 and back: `7` inserted into `[0,1,2,3]` next to `[1,2,3,4]` -/
theorem ex_consist_k1_3d :
    flipGuard 3 [[0, 1, 2, 3], [1, 2, 3, 4]] [0, 1, 2, 3] [7] = true ∧
    flipCells [[0, 1, 2, 3], [1, 2, 3, 4]] [0, 1, 2, 3] [7] =
      cavityInsert [[0, 1, 2, 3], [1, 2, 3, 4]] [[0, 1, 2, 3]] 7 ∧
    flipCells (flipCells [[0, 1, 2, 3], [1, 2, 3, 4]] [0, 1, 2, 3] [7]) [7] [0, 1, 2, 3] =
      starFill (cavityInsert [[0, 1, 2, 3], [1, 2, 3, 4]] [[0, 1, 2, 3]] 7) 7 [[0, 1, 2, 3]] ∧
    starFill (cavityInsert [[0, 1, 2, 3], [1, 2, 3, 4]] [[0, 1, 2, 3]] 7) 7 [[0, 1, 2, 3]] =
      [[1, 2, 3, 4], [0, 1, 2, 3]] := by
  decide

/-- the 2-2 flip of `ex2d_cells`: the two removed triangles and the two created triangles have the
same four boundary edges -/
theorem ex_consist_22_boundary :
    cavityBoundary (flipOld [1, 2] [0, 3]) = [[2, 3], [1, 3], [0, 2], [0, 1]] ∧
    cavityBoundary (flipNew [1, 2] [0, 3]) = [[2, 3], [0, 2], [1, 3], [0, 1]] ∧
    (∀ f ∈ [[0, 1], [0, 2], [1, 3], [2, 3]],
      f ∈ cavityBoundary (flipOld [1, 2] [0, 3]) ∧ f ∈ cavityBoundary (flipNew [1, 2] [0, 3])) ∧
    [1, 2] ∉ cavityBoundary (flipOld [1, 2] [0, 3]) ∧
    [0, 3] ∉ cavityBoundary (flipNew [1, 2] [0, 3]) := by
  decide

/-- the 3-D 2→3 flip of `ex3d_23`: both regions are bounded by the same six triangles -/
theorem ex_consist_23_boundary :
    cavityBoundary (flipOld [1, 2, 3] [0, 4]) =
      [[2, 3, 4], [1, 3, 4], [1, 2, 4], [0, 2, 3], [0, 1, 3], [0, 1, 2]] ∧
    cavityBoundary (flipNew [1, 2, 3] [0, 4]) =
      [[2, 3, 4], [0, 2, 3], [1, 3, 4], [0, 1, 3], [1, 2, 4], [0, 1, 2]] := by
  decide

end DM.C07
