/-
Lemmas/MortonTbl.lean — Morton code tables (`mortonOk D b = true` by kernel evaluation).
-/
import DelaunayModel.Lemmas.HilbertAux
namespace DM.HilbertAux

theorem mortonOk_1_1 : mortonOk 1 1 = true := by decide +kernel
theorem mortonOk_1_2 : mortonOk 1 2 = true := by decide +kernel
theorem mortonOk_1_3 : mortonOk 1 3 = true := by decide +kernel
theorem mortonOk_1_4 : mortonOk 1 4 = true := by decide +kernel
theorem mortonOk_1_5 : mortonOk 1 5 = true := by decide +kernel
theorem mortonOk_1_6 : mortonOk 1 6 = true := by decide +kernel
theorem mortonOk_1_7 : mortonOk 1 7 = true := by decide +kernel
theorem mortonOk_1_8 : mortonOk 1 8 = true := by decide +kernel
theorem mortonOk_1_9 : mortonOk 1 9 = true := by decide +kernel
theorem mortonOk_2_1 : mortonOk 2 1 = true := by decide +kernel
theorem mortonOk_2_2 : mortonOk 2 2 = true := by decide +kernel
theorem mortonOk_2_3 : mortonOk 2 3 = true := by decide +kernel
theorem mortonOk_2_4 : mortonOk 2 4 = true := by decide +kernel
theorem mortonOk_3_1 : mortonOk 3 1 = true := by decide +kernel
theorem mortonOk_3_2 : mortonOk 3 2 = true := by decide +kernel
theorem mortonOk_3_3 : mortonOk 3 3 = true := by decide +kernel

end DM.HilbertAux
