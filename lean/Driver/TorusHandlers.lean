/-
Driver/TorusHandlers.lean — K1 handlers for C16 (toroidal wrap and construction).
-/
import DelaunayModel.Model.ProtoCx
import DelaunayModel.Model.Wrap
import Driver.CxHandlers
open DM DM.Wrap

def dyOfTok (t : String) : Option Dy := (parseF64 t).bind F64.dy?

/-- one wrapped value `y` for input `x`, period `L`: in the half-open box, congruent to `x` modulo
`L` up to the rounding of one f64 operation (|y - wrapℚ| ≤ 2 ulp(L), or within that of the other
end of the box) -/
def wrapProblem (L x y : Dy) (extra : Q := Q.ofInt 0) : Option String :=
  let lq := Q.ofDy L; let xq := Q.ofDy x; let yq := Q.ofDy y
  if !(Q.lt (Q.ofInt 0) lq) then none else
  let w0 := wrap lq xq
  let ulp0 := lq * ⟨1, 2 ^ 51⟩ + Q.abs xq * ⟨1, 2 ^ 51⟩
  let circ := let d0 := Q.abs (yq - w0); let d1 := Q.abs (d0 - lq); if Q.lt d0 d1 then d0 else d1
  if !(inBox lq yq) then
    -- a stored coordinate that differs from the canonical one by more than rounding but at most the
    -- documented retry perturbation was pushed over the box boundary by that perturbation
    (if Q.lt (Q.ofInt 0) extra && Q.lt ulp0 circ && Q.le circ (ulp0 + extra) then
      some s!"perturbed-out-of-box: the degeneracy-retry perturbation moved a canonical coordinate to {qShow yq}, outside the half-open box [0, L)"
     else some s!"wrapped value {qShow yq} is outside the half-open box [0, L)") else
  let w := wrap lq xq
  -- rounding allowance: 2 ulp of L (relative 2^-51) plus 2 ulp of |x| (the quotient's rounding)
  let ulpL := lq * ⟨1, 2 ^ 51⟩
  let ulpX := Q.abs xq * ⟨1, 2 ^ 51⟩
  let tolr := ulpL + ulpX + extra
  let d := Q.abs (yq - w)
  let dOther := Q.abs (Q.abs (yq - w) - lq)
  if Q.le d tolr || Q.le dOther tolr then none
  else some s!"wrapped value is not congruent to the input modulo the period (exact wrap differs by more than the rounding allowance)"

def runWrap (c : Case) : Res :=
  Id.run do
    let mut bad : List String := []
    let mut n := 0
    for r in c.recsOf "w" do
      match r with
      | [i, lT, xT, yT, y2T] =>
        match dyOfTok lT, dyOfTok xT with
        | some L, some x =>
          n := n + 1
          if yT.startsWith "panic" then bad := s!"wrap_coord panicked on case {i}" :: bad
          else match dyOfTok yT with
            | none => bad := s!"case {i}: wrap_coord returned {yT} for a finite input and positive finite period" :: bad
            | some y =>
              match wrapProblem L x y with
              | some p => if bad.length < 5 then bad := s!"case {i} (L={lT}, x={xT}, y={yT}): {p}" :: bad
              | none => pure ()
              -- idempotence, bit-exact
              if y2T != yT then
                if bad.length < 5 then bad := s!"case {i}: wrapping twice changes the value ({yT} -> {y2T})" :: bad
        | _, _ => pure ()
      | _ => pure ()
    if !bad.isEmpty then return { status := "ORACLE", detail := " ; ".intercalate bad.reverse, stats := ["wrap.cases"] }
    return { status := if n == 0 then "skip" else "ok", stats := ["wrap.cases"] }

/-- toroidal build: every stored vertex in the box and congruent to its input, identity kept, each
input uuid present once (when nothing was skipped), later insertion wrapped; the complex itself is
judged by `runCx` (wrapping mode) or by the closed-surface conditions (periodic mode) -/
def runTorus (c : Case) : Res :=
  let res := c.ob1 "result"
  if res == "err" then { status := "skip", stats := [s!"torus.err.periodic{c.arg "periodic"}"] }
  else if res.startsWith "panic" then { status := "ORACLE", detail := s!"toroidal build panicked: {c.ob "result"}" }
  else
  match parseCx c "", (c.recsOf "dom").head?.bind (fun r => r.mapM dyOfTok) with
  | some (K, X), some dom =>
    let periodic := c.arg "periodic" == "1"
    -- the periodic quotient has self-identifications the Euclidean judge does not model
    let base : Res := if periodic then { status := "ok" } else runCx c
    -- documented perturbation of a retried insertion: 1e-8 · (axis+1) · local scale ≤ 1e-8·(axis+1)·Σ periods
    let domSum := dom.foldl (fun a d => a + Q.ofDy d) (Q.ofInt 0)
    let pert (a : Nat) : Q := (⟨1000001, 1000000 * 10 ^ 8⟩ : Q) * Q.ofInt (a + 1) * domSum
    Id.run do
      let mut bad : List String := if base.status == "ORACLE" || base.status == "DISAGREE" then [base.detail] else []
      let ins := (c.recsOf "tin").filterMap (fun r => match r with
        | _ :: idS :: rest =>
          let (coords, tail) := splitAt1 rest "d"
          match idS.toNat?, coords.mapM dyOfTok with
          | some id, some p => some (id, p, " ".intercalate tail)
          | _, _ => none
        | _ => none)
      for v in K.verts do
        match v.pt, ins.find? (fun (i, _, _) => i == v.id) with
        | some p, some (_, pin, data) =>
          if (X.vdata.lookup v.id).getD "" != data then bad := s!"vertex {v.id}: user data changed" :: bad
          for a in List.range K.D do
            match wrapProblem (dom.getD a Dy.zero) (pin.getD a Dy.zero) (p.getD a Dy.zero) (pert a) with
            | some pr => if bad.length < 5 then bad := s!"vertex {v.id} axis {a}: {pr}" :: bad
            | none => pure ()
        | none, _ => bad := s!"vertex {v.id} has non-finite coordinates" :: bad
        | _, none => bad := s!"vertex {v.id} is not an input vertex" :: bad
      if !decide (K.verts.map (·.id)).Nodup then bad := "an input UUID appears more than once" :: bad
      -- later insertion: stored wrapped
      for r in c.recsOf "late" do
        let (pinT, rest) := (r.take K.D, r.drop K.D)
        match pinT.mapM dyOfTok, rest.mapM dyOfTok with
        | some pin, some st =>
          if st.length == K.D then
            for a in List.range K.D do
              match wrapProblem (dom.getD a Dy.zero) (pin.getD a Dy.zero) (st.getD a Dy.zero) (pert a) with
              | some pr => if bad.length < 6 then bad := s!"later insert axis {a}: {pr}" :: bad
              | none => pure ()
        | _, _ => pure ()      -- insertion refused: nothing to check
      if periodic then
        if c.ob1 "tds_is_valid" != "ok" then bad := s!"periodic result is not structurally valid: {c.ob "tds_is_valid"}" :: bad
        if c.ob1 "nbfacets" != "0" then bad := s!"periodic result has {c.ob1 "nbfacets"} boundary facets" :: bad
        if c.ob1 "chi" != "0" then bad := s!"periodic result has Euler characteristic {c.ob1 "chi"} ≠ 0" :: bad
        -- "each input point once": inputs that coincide ON THE TORUS (closer than the 1e-10
        -- duplicate tolerance after wrapping, e.g. -1e-12·L and 0) are legitimately merged; when
        -- some pair is that close the count is not demanded
        let wrapped : List (List Q) := ins.map (fun (_, p, _) => (List.range K.D).map (fun a =>
          wrap (Q.ofDy (dom.getD a Dy.zero)) (Q.ofDy (p.getD a Dy.zero))))
        let circ1 (l x y : Q) : Q := let d0 := Q.abs (x - y); let d1 := Q.abs (d0 - l); if Q.lt d0 d1 then d0 else d1
        let close (u v : List Q) : Bool := (List.range K.D).all (fun a =>
          Q.lt (circ1 (Q.ofDy (dom.getD a Dy.zero)) (u.getD a (Q.ofInt 0)) (v.getD a (Q.ofInt 0))) ⟨1, 10 ^ 8⟩)
        let anyClose := (wrapped.zipIdx).any (fun (u, i) => (wrapped.zipIdx).any (fun (v, j) => i < j && close u v))
        if !anyClose && K.verts.length != ins.length then bad := s!"periodic result has {K.verts.length} vertices for {ins.length} distinct input points" :: bad
      if !bad.isEmpty then return { status := "ORACLE", detail := " ; ".intercalate bad.reverse, stats := base.stats }
      return { status := "ok", stats := s!"torus.ok.periodic{c.arg "periodic"}" :: base.stats }
  | _, _ => { status := "DISAGREE", detail := "cannot parse toroidal case" }
