/-
Lemmas/QueryAux.lean — helper lemmas for Props/C15.lean (topology / adjacency queries):
 * `subsetsK` enumerates exactly the sublists of a given length,
 * the `foldr … contains …` de-duplication keeps membership, is duplicate-free, and commutes with
   maps that are injective on the input,
 * `bucketPush` / `bucketGet` association-list laws and the fold invariants of the adjacency index,
 * the alternating sum `eulerChi`.
Core only (no Mathlib).
-/
import DelaunayModel.Model.Adjacency
import DelaunayModel.Lemmas.CxAux
namespace DM

/-! ### `subsetsK` -/

theorem subsetsK_mem {k : Nat} {l s : List Nat} :
    s ∈ subsetsK k l ↔ s.Sublist l ∧ s.length = k := by
  induction l generalizing k s with
  | nil =>
    cases k with
    | zero =>
      simp only [subsetsK, List.mem_singleton, List.sublist_nil, List.length_eq_zero_iff, and_self]
    | succ k =>
      simp only [subsetsK, List.not_mem_nil, List.sublist_nil, false_iff, not_and]
      rintro rfl
      simp
  | cons x xs ih =>
    cases k with
    | zero =>
      simp only [subsetsK, List.mem_singleton, List.length_eq_zero_iff]
      constructor
      · rintro rfl
        exact ⟨List.nil_sublist _, rfl⟩
      · exact fun h => h.2
    | succ k =>
      simp only [subsetsK, List.mem_append, List.mem_map, ih, List.sublist_cons_iff]
      constructor
      · rintro (⟨t, ⟨ht, hl⟩, rfl⟩ | ⟨hs, hl⟩)
        · exact ⟨Or.inr ⟨t, rfl, ht⟩, by simp [hl]⟩
        · exact ⟨Or.inl hs, hl⟩
      · rintro ⟨hs | ⟨t, rfl, ht⟩, hl⟩
        · exact Or.inr ⟨hs, hl⟩
        · exact Or.inl ⟨t, ⟨ht, by simpa using hl⟩, rfl⟩

theorem subsetsK_length {k : Nat} {l s : List Nat} (h : s ∈ subsetsK k l) : s.length = k :=
  (subsetsK_mem.1 h).2

theorem subsetsK_sublist {k : Nat} {l s : List Nat} (h : s ∈ subsetsK k l) : s.Sublist l :=
  (subsetsK_mem.1 h).1

theorem subsetsK_sorted {k : Nat} {l s : List Nat} (hl : l.Pairwise (· ≤ ·))
    (h : s ∈ subsetsK k l) : s.Pairwise (· ≤ ·) :=
  hl.sublist (subsetsK_sublist h)

/-! ### generic de-duplication (`foldr … contains …`) -/

/-- the de-duplication pattern used by `dedup`, `allEdges`, `graphVerts`, … -/
abbrev dedupBy {α : Type} [BEq α] (l : List α) : List α :=
  l.foldr (fun x acc => if acc.contains x then acc else x :: acc) []

theorem dedupBy_cons {α : Type} [BEq α] (x : α) (l : List α) :
    dedupBy (x :: l) = if (dedupBy l).contains x then dedupBy l else x :: dedupBy l := rfl

theorem dedupBy_mem {α : Type} [BEq α] [LawfulBEq α] {l : List α} {x : α} :
    x ∈ dedupBy l ↔ x ∈ l := by
  induction l generalizing x with
  | nil => simp [dedupBy]
  | cons y ys ih =>
    rw [dedupBy_cons]
    split
    · rename_i hc
      have hy : y ∈ ys := ih.1 (List.contains_iff_mem.1 hc)
      rw [ih, List.mem_cons]
      constructor
      · exact Or.inr
      · rintro (rfl | h)
        · exact hy
        · exact h
    · rw [List.mem_cons, List.mem_cons, ih]

theorem dedupBy_nodup {α : Type} [BEq α] [LawfulBEq α] (l : List α) : (dedupBy l).Nodup := by
  induction l with
  | nil => simp [dedupBy]
  | cons y ys ih =>
    rw [dedupBy_cons]
    split
    · exact ih
    · rename_i hc
      refine List.nodup_cons.2 ⟨?_, ih⟩
      intro hm
      exact hc (List.contains_iff_mem.2 hm)

/-- de-duplication commutes with a map that is injective on the input list -/
theorem dedupBy_map {α β : Type} [BEq α] [LawfulBEq α] [BEq β] [LawfulBEq β] (f : α → β)
    (l : List α) (hinj : ∀ x ∈ l, ∀ y ∈ l, f x = f y → x = y) :
    dedupBy (l.map f) = (dedupBy l).map f := by
  induction l with
  | nil => rfl
  | cons x xs ih =>
    have ih' := ih (fun a ha b hb => hinj a (List.mem_cons_of_mem _ ha) b (List.mem_cons_of_mem _ hb))
    rw [List.map_cons, dedupBy_cons, dedupBy_cons, ih']
    have hiff : ((dedupBy xs).map f).contains (f x) = (dedupBy xs).contains x := by
      rw [Bool.eq_iff_iff, List.contains_iff_mem, List.contains_iff_mem, List.mem_map]
      constructor
      · rintro ⟨y, hy, hxy⟩
        have hy' : y ∈ xs := dedupBy_mem.1 hy
        have := hinj y (List.mem_cons_of_mem _ hy') x List.mem_cons_self hxy
        exact this ▸ hy
      · exact fun h => ⟨x, h, rfl⟩
    rw [hiff]
    split <;> rfl

theorem dedup_eq_dedupBy (l : List (List Nat)) : dedup l = dedupBy l := rfl

/-! ### edges as 2-vertex faces -/

/-- the partial conversion used inside `cellEdges` -/
def edgeOfList (e : List Nat) : Option (Nat × Nat) :=
  match e with
  | [a, b] => some (a, b)
  | _ => none

/-- total version on 2-element lists -/
def toPair (e : List Nat) : Nat × Nat := (e.getD 0 0, e.getD 1 0)

theorem cellEdges_eq_filterMap (c : Cell) :
    cellEdges c = (subsetsK 2 (cellKey c)).filterMap edgeOfList := rfl

theorem edgeOfList_eq_some {e : List Nat} {a b : Nat} : edgeOfList e = some (a, b) ↔ e = [a, b] := by
  unfold edgeOfList
  split
  · simp
  · rename_i h
    constructor
    · intro h'; cases h'
    · intro h'; exact absurd h' (h a b)

theorem edgeOfList_of_length {e : List Nat} (h : e.length = 2) : edgeOfList e = some (toPair e) := by
  match e, h with
  | [a, b], _ => rfl

theorem toPair_inj {e e' : List Nat} (h : e.length = 2) (h' : e'.length = 2)
    (he : toPair e = toPair e') : e = e' := by
  match e, h, e', h' with
  | [a, b], _, [a', b'], _ =>
    simp only [toPair, List.getD_cons_zero, List.getD_cons_succ, Prod.mk.injEq] at he
    rw [he.1, he.2]

theorem filterMap_eq_map_of {α β : Type} (f : α → Option β) (g : α → β) (l : List α)
    (h : ∀ x ∈ l, f x = some (g x)) : l.filterMap f = l.map g := by
  induction l with
  | nil => rfl
  | cons x xs ih =>
    rw [List.filterMap_cons, h x List.mem_cons_self, List.map_cons,
      ih (fun y hy => h y (List.mem_cons_of_mem _ hy))]

theorem cellEdges_eq_map (c : Cell) : cellEdges c = (subsetsK 2 (cellKey c)).map toPair := by
  rw [cellEdges_eq_filterMap]
  exact filterMap_eq_map_of _ _ _ (fun e he => edgeOfList_of_length (subsetsK_length he))

/-! ### association-list buckets -/

theorem bucketGet_nil {α : Type} (k : Nat) : bucketGet ([] : List (Nat × List α)) k = [] := rfl

theorem bucketGet_cons {α : Type} (k' : Nat) (xs : List α) (rest : List (Nat × List α)) (k : Nat) :
    bucketGet ((k', xs) :: rest) k = if k = k' then xs else bucketGet rest k := by
  unfold bucketGet
  rw [List.lookup_cons]
  by_cases h : k = k'
  · simp [h]
  · have : (k == k') = false := by simpa using h
    simp [this, h]

theorem bucketGet_bucketPush_same {α : Type} (m : List (Nat × List α)) (k : Nat) (x : α) :
    bucketGet (bucketPush m k x) k = bucketGet m k ++ [x] := by
  induction m with
  | nil => simp [bucketPush, bucketGet_cons, bucketGet_nil]
  | cons p rest ih =>
    obtain ⟨k', xs⟩ := p
    unfold bucketPush
    by_cases h : k' = k
    · subst h
      simp [bucketGet_cons]
    · have h' : k ≠ k' := fun e => h e.symm
      have hb : (k' == k) = false := by simpa using h
      simp only [hb, Bool.false_eq_true, ↓reduceIte, bucketGet_cons, h', ih]

theorem bucketGet_bucketPush_other {α : Type} (m : List (Nat × List α)) (k k' : Nat) (x : α)
    (hne : k' ≠ k) : bucketGet (bucketPush m k x) k' = bucketGet m k' := by
  induction m with
  | nil => simp [bucketPush, bucketGet_cons, bucketGet_nil, hne]
  | cons p rest ih =>
    obtain ⟨k'', xs⟩ := p
    unfold bucketPush
    by_cases h : k'' = k
    · subst h
      simp [bucketGet_cons, hne]
    · have hb : (k'' == k) = false := by simpa using h
      simp only [hb, Bool.false_eq_true, ↓reduceIte, bucketGet_cons, ih]

/-- pushing the same value for every slot of a vertex list: bucket `v` grows by one copy per
occurrence of `v` -/
theorem bucketGet_foldl_push {α : Type} (vs : List Nat) (m : List (Nat × List α)) (i : α) (v : Nat) :
    bucketGet (vs.foldl (fun m u => bucketPush m u i) m) v =
      bucketGet m v ++ List.replicate (vs.count v) i := by
  induction vs generalizing m with
  | nil => simp
  | cons u us ih =>
    rw [List.foldl_cons, ih]
    by_cases h : v = u
    · subst h
      rw [bucketGet_bucketPush_same, List.count_cons_self, List.replicate_succ, List.append_assoc]
      rfl
    · rw [bucketGet_bucketPush_other _ _ _ _ h, List.count_cons_of_ne (fun e => h e.symm)]

theorem count_of_nodup {vs : List Nat} (h : vs.Nodup) (v : Nat) :
    vs.count v = if vs.contains v then 1 else 0 := by
  rw [h.count]
  simp only [List.contains_iff_mem]

/-! ### alternating sum -/

theorem foldl_add_int (l : List Int) (a : Int) : l.foldl (· + ·) a = a + l.foldl (· + ·) 0 := by
  induction l generalizing a with
  | nil => simp
  | cons x xs ih =>
    rw [List.foldl_cons, List.foldl_cons, ih, ih (0 + x)]
    omega

/-- signed term of the alternating sum -/
def altTerm (p : Nat × Nat) : Int := if p.2 % 2 == 0 then (p.1 : Int) else -(p.1 : Int)

def altSum (f : List Nat) (i : Nat) : Int := ((f.zipIdx i).map altTerm).foldl (· + ·) 0

theorem eulerChi_eq_altSum (f : List Nat) : eulerChi f = altSum f 0 := rfl

theorem altSum_nil (i : Nat) : altSum [] i = 0 := rfl

theorem altSum_cons (a : Nat) (f : List Nat) (i : Nat) :
    altSum (a :: f) i = altTerm (a, i) + altSum f (i + 1) := by
  unfold altSum
  rw [List.zipIdx_cons, List.map_cons, List.foldl_cons, foldl_add_int]
  omega

theorem altTerm_succ (a i : Nat) : altTerm (a, i + 1) = - altTerm (a, i) := by
  unfold altTerm
  simp only [beq_iff_eq]
  split <;> split <;> omega

theorem altSum_succ (f : List Nat) (i : Nat) : altSum f (i + 1) = - altSum f i := by
  induction f generalizing i with
  | nil => simp [altSum_nil]
  | cons a f ih =>
    rw [altSum_cons, altSum_cons, ih (i + 1), altTerm_succ]
    omega

/-! ### facet keys as sublists of the cell key -/

theorem perm_cons_eraseIdx {α : Type} (l : List α) (i : Nat) (h : i < l.length) :
    l.Perm (l[i] :: l.eraseIdx i) := by
  induction l generalizing i with
  | nil => cases h
  | cons x xs ih =>
    cases i with
    | zero => exact List.Perm.refl _
    | succ i =>
      have h' : i < xs.length := by simpa using h
      simp only [List.getElem_cons_succ, List.eraseIdx_cons_succ]
      exact (List.Perm.cons x (ih i h')).trans (List.Perm.swap _ _ _)

theorem sublist_eq_eraseIdx {α : Type} {s t : List α} (h : s.Sublist t)
    (hl : t.length = s.length + 1) : ∃ j, j < t.length ∧ s = t.eraseIdx j := by
  induction h with
  | slnil => cases hl
  | cons a h ih =>
    rename_i s' t'
    have : s' = t' := h.eq_of_length (by simpa using hl.symm)
    exact ⟨0, by simp, by simp [this]⟩
  | cons_cons a h ih =>
    obtain ⟨j, hj, he⟩ := ih (by simpa using hl)
    exact ⟨j + 1, by simpa using hj, by simp [he]⟩

theorem sublist_insertSorted (x : Nat) (l : List Nat) : l.Sublist (insertSorted x l) := by
  induction l with
  | nil => simp [insertSorted]
  | cons y ys ih =>
    unfold insertSorted
    split
    · exact List.sublist_cons_self _ _
    · exact ih.cons_cons y

/-- a facet key is a sublist of the cell key -/
theorem sortNat_eraseIdx_sublist (l : List Nat) (i : Nat) :
    (sortNat (l.eraseIdx i)).Sublist (sortNat l) := by
  by_cases h : i < l.length
  · have hp := perm_cons_eraseIdx l i h
    have : sortNat l = sortNat (l[i] :: l.eraseIdx i) := (sortNat_eq_iff_perm _ _).2 hp
    rw [this]
    exact sublist_insertSorted _ _
  · rw [List.eraseIdx_of_length_le (by omega)]
    exact List.Sublist.refl _

/-- every sublist of the cell key missing one element is a facet key -/
theorem sublist_sortNat_eq_eraseIdx {l s : List Nat} (hs : s.Sublist (sortNat l))
    (hl : l.length = s.length + 1) : ∃ i, i < l.length ∧ s = sortNat (l.eraseIdx i) := by
  obtain ⟨j, hj, rfl⟩ := sublist_eq_eraseIdx hs (by rw [sortNat_length]; exact hl)
  have hx : (sortNat l)[j] ∈ l := mem_sortNat.1 (List.getElem_mem hj)
  obtain ⟨i, hi, hxi⟩ := List.getElem_of_mem hx
  refine ⟨i, hi, ?_⟩
  have p1 := perm_cons_eraseIdx (sortNat l) j hj
  have p2 := perm_cons_eraseIdx l i hi
  have p3 : ((sortNat l)[j] :: (sortNat l).eraseIdx j).Perm ((sortNat l)[j] :: l.eraseIdx i) := by
    rw [hxi] at p2
    exact p1.symm.trans ((sortNat_perm l).trans p2)
  have p4 : ((sortNat l).eraseIdx j).Perm (l.eraseIdx i) := List.Perm.cons_inv p3
  refine List.Perm.eq_of_pairwise (le := (· ≤ ·)) ?_
    ((sortNat_sorted l).sublist (List.eraseIdx_sublist _ _)) (sortNat_sorted _) ?_
  · intro x y _ _ h1 h2
    exact Nat.le_antisymm h1 h2
  · exact p4.trans (sortNat_perm _).symm
end DM
