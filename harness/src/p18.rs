//! C18 — simplex measures vs exact rational geometry, with permuted / translated / scaled variants (K1).
use crate::common::{catch, hx, hxs, Out, Rng};
use crate::gens;
use crate::Cfg;
use delaunay::core::vertex::Vertex;
use delaunay::geometry::point::Point;
use delaunay::geometry::quality::{normalized_volume, radius_ratio};
use delaunay::geometry::traits::coordinate::Coordinate;
use delaunay::geometry::util::{circumcenter, circumradius, facet_measure, inradius, simplex_volume};
use delaunay::prelude::DelaunayTriangulation;

fn val(r: Result<Result<f64, String>, String>) -> String {
    match r { Ok(Ok(v)) => hx(v), Ok(Err(e)) => format!("err:{e}"), Err(m) => format!("panic:{m}") }
}
fn ek<E: std::fmt::Debug>(e: E) -> String { crate::tri::err_kind(&format!("{e:?}")) }

fn emit<const D: usize>(id: &str, variant: &str, pts: &[Vec<f64>], out: &mut Out) {
    let ps: Vec<Point<f64, D>> = pts.iter().map(|p| Point::new(gens::arr::<D>(p))).collect();
    out.case(id, "meas", &format!("D={D} variant={variant}"));
    for p in pts { out.line(&format!("p {}", hxs(p))); }
    out.obs("volume", &val(catch(|| simplex_volume(&ps).map_err(ek))));
    out.obs("circumradius", &val(catch(|| circumradius(&ps).map_err(ek))));
    out.obs("inradius", &val(catch(|| inradius(&ps).map_err(ek))));
    match catch(|| circumcenter(&ps).map_err(ek)) {
        Ok(Ok(c)) => { out.obs("circumcenter", &hxs(c.coords()));
            // the two-argument form must agree with circumradius when given the library's own centre
            out.obs("circumradius_wc", &val(catch(|| delaunay::geometry::util::circumradius_with_center(&ps, &c).map_err(ek)))); }
        Ok(Err(e)) => out.obs("circumcenter", &format!("err:{e}")),
        Err(m) => out.obs("circumcenter", &format!("panic:{m}")),
    }
    for i in 0..=D {
        let f: Vec<Point<f64, D>> = ps.iter().enumerate().filter(|(j, _)| *j != i).map(|(_, p)| *p).collect();
        out.obs(&format!("facet{i}"), &val(catch(|| facet_measure(&f).map_err(ek))));
    }
    // quality measures need a triangulation cell: build the single-simplex triangulation
    if D >= 1 {
        let vs: Vec<Vertex<f64, (), D>> = Vertex::from_points(&ps);
        if let Ok(Ok(dt)) = catch(|| DelaunayTriangulation::<_, (), (), D>::new(&vs)) {
            if dt.number_of_cells() == 1 {
                let ck = dt.cells().next().map(|(k, _)| k).unwrap();
                let tri = dt.as_triangulation();
                out.obs("radius_ratio", &val(catch(|| radius_ratio(tri, ck).map_err(ek))));
                out.obs("normalized_volume", &val(catch(|| normalized_volume(tri, ck).map_err(ek))));
            }
        }
    }
    out.end();
}

fn simplex(rng: &mut Rng, d: usize) -> (Vec<Vec<f64>>, &'static str) {
    match rng.below(7) {
        0 => {
            // skinny: one vertex far along an axis (aspect up to 2^20)
            let mut pts: Vec<Vec<f64>> = vec![vec![0.0; d]];
            for i in 0..d { let mut p = vec![0.0; d]; p[i] = 1.0; pts.push(p); }
            let k = [4, 10, 20][rng.below(3) as usize];
            pts[1][0] = (1u64 << k) as f64;
            (pts, "skinny")
        }
        1 => {
            // exactly degenerate: last point is an affine combination (midpoint) of two others
            let base = gens::random_grid(rng, d, d + 1, 6);
            let mut f = gens::to_f(&base, 1.0, 0.0);
            if f.len() == d + 1 { let m: Vec<f64> = (0..d).map(|i| (f[0][i] + f[1][i]) / 2.0).collect(); f[d] = m; }
            (f, "degenerate")
        }
        5 => {
            // far from the origin with wide mantissas: offset 2^26..2^30 plus multiples of 2^-20
            // (all exactly representable); formulas that multiply absolute coordinates lose ~1e-7
            let off = 2f64.powi([26, 28, 30][rng.below(3) as usize]);
            let base = gens::random_grid(rng, d, d + 1, 1 << 20);
            let mut f = gens::to_f(&base, 2f64.powi(-20), 0.0);
            for p in f.iter_mut() { for (a, x) in p.iter_mut().enumerate() { *x += off * (1.0 + a as f64); } }
            (f, "far_fine")
        }
        2 => { let base = gens::random_grid(rng, d, d + 1, 3); (gens::to_f(&base, 0.25, 0.0), "small_quarter") }
        3 => { let base = gens::random_grid(rng, d, d + 1, 40); (gens::to_f(&base, 1.0, 0.0), "wide") }
        _ => { let base = gens::random_grid(rng, d, d + 1, 8); (gens::to_f(&base, 1.0, 0.0), "grid") }
    }
}

fn family<const D: usize>(id: &str, rng: &mut Rng, out: &mut Out) {
    let (pts, fam) = simplex(rng, D);
    if pts.len() != D + 1 { return; }
    emit::<D>(&format!("{id}_base"), &format!("base:{fam}"), &pts, out);
    // permutation
    let mut perm = pts.clone();
    rng.shuffle(&mut perm);
    emit::<D>(&format!("{id}_perm"), "perm", &perm, out);
    // translation by a dyadic vector
    let t: Vec<f64> = (0..D).map(|_| rng.range(-64, 64) as f64 / 4.0).collect();
    let tr: Vec<Vec<f64>> = pts.iter().map(|p| p.iter().zip(t.iter()).map(|(a, b)| a + b).collect()).collect();
    emit::<D>(&format!("{id}_trans"), "translate", &tr, out);
    // scaling by a power of two
    let k = [0.5, 4.0, 1024.0, 0.0009765625][rng.below(4) as usize];
    let sc: Vec<Vec<f64>> = pts.iter().map(|p| p.iter().map(|a| a * k).collect()).collect();
    emit::<D>(&format!("{id}_scale"), &format!("scale:{}", hx(k)), &sc, out);
}

/// exactly degenerate simplices at larger coordinate magnitudes: D random integer points with
/// coordinates up to +-r and one more that is an integer affine combination of them (so the
/// (D+1) points span at most a hyperplane), listed in a random order.  Absolute pivot / determinant
/// thresholds stop seeing the degeneracy once the rounding noise of the elimination exceeds them.
fn degenerate_wide<const D: usize>(id: &str, rng: &mut Rng, out: &mut Out, r: i64) {
    let pts = gens::random_grid(rng, D, D, r);
    if pts.len() != D { return; }
    let mut w: Vec<i64> = (0..D).map(|_| rng.range(-3, 3)).collect();
    let s: i64 = w.iter().sum();
    w[0] += 1 - s; // integer weights summing to 1
    let last: Vec<i64> = (0..D).map(|j| (0..D).map(|i| w[i] * pts[i][j]).sum()).collect();
    let mut all = pts.clone();
    all.push(last);
    rng.shuffle(&mut all);
    let f = gens::to_f(&all, 1.0, 0.0);
    emit::<D>(id, &format!("base:degenerate_wide{r}"), &f, out);
}

/// a simplex one of whose FACETS is exactly degenerate: D-1 random integer points, an integer
/// affine combination of them, and one more random point
fn degenerate_facet<const D: usize>(id: &str, rng: &mut Rng, out: &mut Out, r: i64) {
    if D < 3 { return; }
    let pts = gens::random_grid(rng, D, D, r);
    if pts.len() != D { return; }
    let k = D - 1;
    let mut w: Vec<i64> = (0..k).map(|_| rng.range(-3, 3)).collect();
    let s: i64 = w.iter().sum();
    w[0] += 1 - s;
    let comb: Vec<i64> = (0..D).map(|j| (0..k).map(|i| w[i] * pts[i][j]).sum()).collect();
    let mut all: Vec<Vec<i64>> = pts[..k].to_vec();
    all.push(comb);
    all.push(pts[k].clone());
    rng.shuffle(&mut all);
    let f = gens::to_f(&all, 1.0, 0.0);
    emit::<D>(id, &format!("base:degenerate_facet{r}"), &f, out);
}

pub fn run(cfg: &Cfg, rng: &mut Rng, out: &mut Out) {
    let thorough = cfg.tier == "thorough";
    for i in 0..(if thorough { 400 } else { 60 }) {
        let r2 = [10i64, 100, 1000][i % 3];
        degenerate_facet::<3>(&format!("df3_{i}"), rng, out, r2);
        degenerate_facet::<4>(&format!("df4_{i}"), rng, out, r2);
        degenerate_facet::<5>(&format!("df5_{i}"), rng, out, r2);
        let r = [100i64, 1000, 10000, 50000][i % 4];
        degenerate_wide::<2>(&format!("dw2_{i}"), rng, out, r);
        degenerate_wide::<3>(&format!("dw3_{i}"), rng, out, r);
        degenerate_wide::<4>(&format!("dw4_{i}"), rng, out, r);
        degenerate_wide::<5>(&format!("dw5_{i}"), rng, out, r);
    }
    let n = if thorough { 3000 } else { 600 };
    for i in 0..n {
        let id = format!("g{i}");
        match 1 + (i % 5) {
            1 => family::<1>(&id, rng, out),
            2 => family::<2>(&id, rng, out),
            3 => family::<3>(&id, rng, out),
            4 => family::<4>(&id, rng, out),
            _ => family::<5>(&id, rng, out),
        }
    }
}
