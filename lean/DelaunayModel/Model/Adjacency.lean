/-
Model/Adjacency.lean — the direct adjacency queries and the `AdjacencyIndex` built in one pass
over the cells (src/core/triangulation.rs:1222-1986, `build_adjacency_index` :1845;
src/core/adjacency.rs).  Direct queries filter the stored cells; the index accumulates
vertex→cells, vertex→edges and cell→neighbours maps while folding over the cells.
-/
import DelaunayModel.Model.Cx
namespace DM

/-- association-list insert: append `x` to the bucket of key `k` (creating it if absent) -/
def bucketPush {α : Type} (m : List (Nat × List α)) (k : Nat) (x : α) : List (Nat × List α) :=
  match m with
  | [] => [(k, [x])]
  | (k', xs) :: rest => if k' == k then (k', xs ++ [x]) :: rest else (k', xs) :: bucketPush rest k x

def bucketGet {α : Type} (m : List (Nat × List α)) (k : Nat) : List α :=
  match m.lookup k with
  | some xs => xs
  | none => []

/-- direct: cells containing vertex `v` (ids, in storage order) -/
def adjacentCells (K : Cx) (v : Nat) : List Nat := (K.cells.filter (·.vs.contains v)).map (·.id)

/-- index: vertex → cells, built by one fold over the cells and their vertex slots -/
def vertexToCells (K : Cx) : List (Nat × List Nat) :=
  K.cells.foldl (fun m c => c.vs.foldl (fun m v => bucketPush m v c.id) m) []

/-- direct: neighbours of a cell = the `some` entries of its neighbour slots -/
def cellNeighbors (c : Cell) : List Nat :=
  match c.nb with
  | none => []
  | some l => l.filterMap id

/-- index: cell → neighbours -/
def cellToNeighbors (K : Cx) : List (Nat × List Nat) := K.cells.map (fun c => (c.id, cellNeighbors c))

/-- all edges (sorted pairs) of one cell -/
def cellEdges (c : Cell) : List (Nat × Nat) :=
  (subsetsK 2 (cellKey c)).filterMap (fun e => match e with | [a, b] => some (a, b) | _ => none)

/-- direct: all distinct edges -/
def allEdges (K : Cx) : List (Nat × Nat) :=
  (K.cells.flatMap cellEdges).foldr (fun x acc => if acc.contains x then acc else x :: acc) []

/-- direct: edges incident to `v` -/
def incidentEdges (K : Cx) (v : Nat) : List (Nat × Nat) := (allEdges K).filter (fun e => e.1 == v || e.2 == v)

end DM
