//! C04 — Delaunay verdicts of the implementation vs the exact empty-sphere oracle, on
//! constructed triangulations, on triangulations pushed away from Delaunay by legal flips, and
//! after removals (K1/K3).
use crate::common::{Ids, Out, Rng};
use crate::gens;
use crate::tri::{self, Opts};
use crate::Cfg;
use delaunay::core::facet::FacetHandle;
use delaunay::core::traits::data_type::DataType;
use delaunay::geometry::kernel::Kernel;
use delaunay::prelude::DelaunayTriangulation;
use delaunay::triangulation::flips::{BistellarFlips, RidgeHandle};

/// apply up to `m` random legal k=2 / k=3 flips; returns how many succeeded
pub fn random_flips<K, U, V, const D: usize>(dt: &mut DelaunayTriangulation<K, U, V, D>, m: usize, rng: &mut Rng) -> usize
where
    K: Kernel<D, Scalar = f64>,
    U: DataType,
    V: DataType,
{
    let mut done = 0;
    let mut tries = 0;
    while done < m && tries < m * 12 + 12 {
        tries += 1;
        let keys: Vec<_> = dt.cells().map(|(k, _)| k).collect();
        if keys.is_empty() {
            break;
        }
        let ck = *rng.pick(&keys);
        let r = if D >= 3 && rng.chance(1, 3) {
            let a = rng.below((D + 1) as u64) as u8;
            let b = (a + 1 + rng.below(D as u64) as u8) % (D as u8 + 1);
            crate::common::catch(|| dt.flip_k3(RidgeHandle::new(ck, a, b)).is_ok())
        } else {
            let i = rng.below((D + 1) as u64) as u8;
            crate::common::catch(|| dt.flip_k2(FacetHandle::new(ck, i)).is_ok())
        };
        if let Ok(true) = r {
            done += 1;
        }
    }
    done
}

fn one<const D: usize>(id: &str, ps: &gens::PointSet, robust: bool, flips: usize, removals: usize, rng: &mut Rng, out: &mut Out) {
    let vs = tri::make_vertices::<D>(&ps.pts, rng);
    let opts = Opts { order: 3, dedup: 0, simplex: 0, retry: 0 };
    macro_rules! body {
        ($dt:expr) => {{
            let mut dt = $dt;
            let mut ids = Ids::default();
            // removals first (repair policy left at its default)
            for _ in 0..removals {
                let vks: Vec<_> = dt.vertices().map(|(k, _)| k).collect();
                if vks.len() <= D + 2 {
                    break;
                }
                let vk = *rng.pick(&vks);
                if let Some(v) = dt.tds().get_vertex_by_key(vk).copied() {
                    let _ = crate::common::catch(|| dt.remove_vertex(&v).is_ok());
                }
            }
            let nflips = random_flips(&mut dt, flips, rng);
            out.case(
                id,
                "cx",
                &format!(
                    "D={D} fam={} gp={} g=1 kernel={} expect={} flips={nflips} removals={removals}",
                    ps.family,
                    ps.gp as u8,
                    if robust { "robust" } else { "fast" },
                    if removals == 0 && nflips == 0 { "valid123" } else if removals == 0 { "valid12m" } else { "none" }
                ),
            );
            tri::export(&dt, &mut ids, out);
            tri::observe_validators(&dt, out, true);
            out.end();
        }};
    }
    if robust {
        if let Ok(Ok(dt)) = tri::build_robust::<D>(&vs, 1, &opts) {
            body!(dt)
        }
    } else if let Ok(Ok(dt)) = tri::build_fast::<D>(&vs, 1, &opts) {
        body!(dt)
    }
}

/// every state within `depth` legal flips of a small triangulation, each judged by all verdict APIs
/// (breadth first, states identified by their cell sets).  Input family: a base simplex F in the
/// hyperplane x_D = 0 and two apexes above and below a point ON THE BOUNDARY of F, so that the k=2
/// flip of F is degenerate, plus small general-position sets.
fn explore<const D: usize>(id: &str, pts: &[Vec<f64>], fam: &str, depth: usize, cap: usize, rng: &mut Rng, out: &mut Out) {
    let vs = tri::make_vertices::<D>(pts, rng);
    let opts = Opts { order: 3, dedup: 0, simplex: 0, retry: 0 };
    let Ok(Ok(mut dt0)) = tri::build_fast::<D>(&vs, 1, &opts) else { return };
    dt0.set_delaunay_repair_policy(delaunay::core::delaunay_triangulation::DelaunayRepairPolicy::Never);
    let sig = |dt: &tri::DtF<D>| -> String {
        let mut cs: Vec<String> = dt.cells().map(|(_, c)| { let mut v: Vec<String> = c.vertices().iter().filter_map(|k| dt.tds().get_vertex_by_key(*k)).map(|v| v.uuid().to_string()).collect(); v.sort(); v.join(",") }).collect();
        cs.sort();
        cs.join(";")
    };
    let mut seen: std::collections::HashSet<String> = std::collections::HashSet::new();
    seen.insert(sig(&dt0));
    let mut frontier: Vec<(tri::DtF<D>, usize)> = vec![(dt0, 0)];
    let mut n = 0usize;
    while let Some((dt, d)) = frontier.pop() {
        if n >= cap { break; }
        let mut ids = Ids::default();
        out.case(&format!("{id}_{n}"), "cx", &format!("D={D} fam={fam} gp=0 g=1 kernel=fast expect={} flips={d} removals=0", if d == 0 { "valid123" } else { "valid12m" }));
        tri::export(&dt, &mut ids, out);
        tri::observe_validators(&dt, out, true);
        out.end();
        n += 1;
        if d >= depth { continue; }
        let handles: Vec<(delaunay::core::triangulation_data_structure::CellKey, u8, u8)> = dt.cells().flat_map(|(ck, _)| {
            let mut v = Vec::new();
            for a in 0..=(D as u8) { v.push((ck, a, a)); for b in (a + 1)..=(D as u8) { v.push((ck, a, b)); } }
            v
        }).collect();
        for (ck, a, b) in handles {
            let mut c = dt.clone();
            let ok = if a == b { crate::common::catch(|| c.flip_k2(FacetHandle::new(ck, a)).is_ok()) }
                else if D >= 3 { crate::common::catch(|| c.flip_k3(RidgeHandle::new(ck, a, b)).is_ok()) } else { Ok(false) };
            if ok == Ok(true) && seen.insert(sig(&c)) { frontier.insert(0, (c, d + 1)); }
            // inverse moves from the edges / triangles of this cell reach states the forward moves cannot
            if a != b && D >= 3 {
                let mut c2 = dt.clone();
                let vsk = dt.tds().get_cell(ck).map(|x| x.vertices().to_vec()).unwrap_or_default();
                if vsk.len() > b as usize {
                    let ok2 = crate::common::catch(|| c2.flip_k2_inverse_from_edge(delaunay::triangulation::flips::EdgeKey::new(vsk[a as usize], vsk[b as usize])).is_ok());
                    if ok2 == Ok(true) && seen.insert(sig(&c2)) { frontier.insert(0, (c2, d + 1)); }
                }
            }
        }
    }
}

/// base simplex {0, s e_1, .., s e_{D-1}} in x_D = 0 with apexes (0, 1, .., 1, +-h): the segment
/// joining the apexes meets the base on its face x_1 = 0
fn boundary_bipyramid(d: usize, s: f64, h: f64) -> Vec<Vec<f64>> {
    let mut pts: Vec<Vec<f64>> = vec![vec![0.0; d]];
    for a in 0..d - 1 { let mut p = vec![0.0; d]; p[a] = s; pts.push(p); }
    let mut up = vec![1.0; d]; up[0] = 0.0; up[d - 1] = h; pts.push(up.clone());
    up[d - 1] = -h; pts.push(up);
    pts
}

/// the two-cell complex {F + a, F + b} over the base of `boundary_bipyramid`, loaded as written
/// (no construction, hence no perturbation): valid at Levels 1-3, and for small h not Delaunay with
/// a k=2 flip of F that would create a flat cell
fn two_cell<const D: usize>(id: &str, h: f64, rng: &mut Rng, out: &mut Out) {
    let pts = boundary_bipyramid(D, 4.0, h);
    let base: Vec<usize> = (0..D).collect();
    let mut ca = base.clone(); ca.push(D);
    let mut cb = base; cb.push(D + 1);
    let Some(dt) = tri::load_complex::<D>(&pts, &[ca, cb], rng) else { return };
    let mut ids = Ids::default();
    out.case(id, "cx", &format!("D={D} fam=two_cell_bipyramid gp=0 g=1 kernel=fast expect=valid123 flips=0 removals=0"));
    tri::export(&dt, &mut ids, out);
    tri::observe_validators(&dt, out, true);
    out.end();
}

pub fn run(cfg: &Cfg, rng: &mut Rng, out: &mut Out) {
    for (k, h) in [1.0f64, 2.0, 3.0, 6.0].iter().enumerate() {
        two_cell::<2>(&format!("tc2_{k}"), *h, rng, out);
        two_cell::<3>(&format!("tc3_{k}"), *h, rng, out);
        two_cell::<4>(&format!("tc4_{k}"), *h, rng, out);
        two_cell::<5>(&format!("tc5_{k}"), *h, rng, out);
    }
    for d in 3..=5usize {
        for (k, h) in [2.0f64, 3.0].iter().enumerate() {
            let pts = boundary_bipyramid(d, 4.0, *h);
            let id = format!("xb{d}_{k}");
            match d { 3 => explore::<3>(&id, &pts, "boundary_bipyramid", 2, 12, rng, out), 4 => explore::<4>(&id, &pts, "boundary_bipyramid", 2, 12, rng, out), _ => explore::<5>(&id, &pts, "boundary_bipyramid", 2, 10, rng, out) }
        }
    }
    let thorough = cfg.tier == "thorough";
    let n = if thorough { 2000 } else { 400 };
    for i in 0..n {
        let d = 2 + (i % 4);
        let np = match d { 2 => rng.range(4, 14), 3 => rng.range(5, 12), 4 => rng.range(6, 10), _ => rng.range(7, 9) } as usize;
        let ps = gens::point_set(rng, d, np);
        let robust = rng.chance(1, 3);
        let flips = [0usize, 1, 1, 2, 3, 6][rng.below(6) as usize];
        let removals = if rng.chance(1, 5) { rng.range(1, 2) as usize } else { 0 };
        let id = format!("f{i}");
        match d {
            2 => one::<2>(&id, &ps, robust, flips, removals, rng, out),
            3 => one::<3>(&id, &ps, robust, flips, removals, rng, out),
            4 => one::<4>(&id, &ps, robust, flips, removals, rng, out),
            _ => one::<5>(&id, &ps, robust, flips, removals, rng, out),
        }
    }
}
