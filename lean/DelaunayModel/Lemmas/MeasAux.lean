/-
Lemmas/MeasAux.lean — helper lemmas for Props/C18.lean (exact simplex measures,
Model/Measures.lean): entries of the orientation matrix, `dot` as a finite sum, the Gram matrix as
`E * Eᵀ`, the edge matrix as the Schur-type reduction of the orientation matrix, and how `edges0`
behaves under translation and scaling.  Uses the `Square`/`matOf` bridge of Lemmas/DetBridge.
-/
import Mathlib.LinearAlgebra.Matrix.Determinant.Basic
import DelaunayModel.Model.Measures
import DelaunayModel.Lemmas.DetBridge

namespace DM.Measures

open DM

/-! ### `getD` bookkeeping -/

theorem getD_ge {α : Type} {l : List α} {i : Nat} (d : α) (h : l.length ≤ i) :
    l.getD i d = d := by
  rw [List.getD_eq_getElem?_getD, List.getElem?_eq_none h]
  rfl

theorem getD_map_nil {α : Type} (f : α → List Int) (l : List α) (i : Nat) (d : α)
    (hi : i < l.length) : (l.map f).getD i [] = f (l.getD i d) := by
  rw [getD_of_lt _ (by simpa using hi), getD_of_lt _ hi, List.getElem_map]

theorem getD_append_one_lt (p : IPt) {j : Nat} (hj : j < p.length) :
    (p ++ [1]).getD j 0 = p.getD j 0 := by
  rw [getD_of_lt _ (by simp; omega), getD_of_lt _ hj, List.getElem_append_left hj]

theorem getD_append_one_eq (p : IPt) : (p ++ [1]).getD p.length 0 = 1 := by
  rw [getD_of_lt _ (by simp)]
  simp

theorem getD_mul_map (k : Int) (r : List Int) (j : Nat) :
    (r.map (k * ·)).getD j 0 = k * r.getD j 0 := by
  by_cases hj : j < r.length
  · rw [getD_of_lt _ (by simpa using hj), getD_of_lt _ hj, List.getElem_map]
  · have hj' : r.length ≤ j := Nat.le_of_not_lt hj
    rw [getD_ge _ (by simpa using hj'), getD_ge _ hj', Int.mul_zero]

/-! ### entries of the orientation matrix -/

theorem matOf_orientRows_lt {D : Nat} (s : List IPt) (hs : ∀ p ∈ s, p.length = D)
    (i : Fin (D + 1)) (hi : (i : Nat) < s.length) (j : Fin (D + 1)) (hj : (j : Nat) < D) :
    matOf (D + 1) (D + 1) (orientRows s) i j = (s.getD i []).getD j 0 := by
  rw [matOf_apply]
  unfold orientRows
  rw [getD_map_nil (fun p => p ++ [1]) s i [] hi]
  have hl : (s.getD i []).length = D := by
    rw [getD_of_lt _ hi]; exact hs _ (List.getElem_mem hi)
  exact getD_append_one_lt _ (by rw [hl]; exact hj)

theorem matOf_orientRows_last {D : Nat} (s : List IPt) (hs : ∀ p ∈ s, p.length = D)
    (i : Fin (D + 1)) (hi : (i : Nat) < s.length) :
    matOf (D + 1) (D + 1) (orientRows s) i (Fin.last D) = 1 := by
  rw [matOf_apply]
  unfold orientRows
  rw [getD_map_nil (fun p => p ++ [1]) s i [] hi]
  have hl : (s.getD i []).length = D := by
    rw [getD_of_lt _ hi]; exact hs _ (List.getElem_mem hi)
  have := getD_append_one_eq (s.getD i [])
  rwa [hl] at this

/-! ### `sub`, `dot` -/

theorem sub_length (p q : IPt) : (sub p q).length = min p.length q.length := by
  simp [sub]

theorem sub_getD {D : Nat} (p q : IPt) (hp : p.length = D) (hq : q.length = D) (j : Nat)
    (hj : j < D) : (sub p q).getD j 0 = p.getD j 0 - q.getD j 0 := by
  rw [getD_of_lt _ (by rw [sub_length]; omega), getD_of_lt _ (by omega : j < p.length),
    getD_of_lt _ (by omega : j < q.length)]
  simp [sub]

theorem foldl_add_shift (l : List Int) (a : Int) :
    l.foldl (· + ·) a = a + l.foldl (· + ·) 0 := by
  induction l generalizing a with
  | nil => simp
  | cons x xs ih =>
    rw [List.foldl_cons, List.foldl_cons, ih (a + x), ih (0 + x)]
    omega

theorem dot_cons (a b : Int) (p q : IPt) : dot (a :: p) (b :: q) = a * b + dot p q := by
  unfold dot
  rw [List.zipWith_cons_cons, List.foldl_cons, foldl_add_shift]
  omega

theorem dot_eq_sum : ∀ (n : Nat) (p q : IPt), p.length = n → q.length = n →
    dot p q = ∑ k : Fin n, p.getD k 0 * q.getD k 0
  | 0, p, q, hp, hq => by
    rw [List.length_eq_zero_iff.1 hp, List.length_eq_zero_iff.1 hq]
    simp [dot]
  | n + 1, p, q, hp, hq => by
    match p, q, hp, hq with
    | a :: p', b :: q', hp, hq =>
      rw [dot_cons, Fin.sum_univ_succ, dot_eq_sum n p' q' (by simpa using hp) (by simpa using hq)]
      simp

/-! ### the Gram matrix is `E * Eᵀ` -/

theorem square_gram {D : Nat} {E : List IPt} (h : Square D E) : Square D (gram E) := by
  refine ⟨by simp [gram, h.1], ?_⟩
  intro r hr
  simp only [gram, List.mem_map] at hr
  obtain ⟨a, _, rfl⟩ := hr
  simp [h.1]

theorem matOf_gram {D : Nat} {E : List IPt} (h : Square D E) :
    matOf D D (gram E) = matOf D D E * (matOf D D E).transpose := by
  ext i j
  have hi : (i : Nat) < E.length := by rw [h.1]; exact i.isLt
  have hj : (j : Nat) < E.length := by rw [h.1]; exact j.isLt
  rw [Matrix.mul_apply, matOf_apply]
  unfold gram
  rw [getD_map_nil (fun a => E.map (fun b => dot a b)) E i [] hi,
    getD_of_lt _ (by simpa using hj), List.getElem_map]
  have hli : (E.getD i []).length = D := by
    rw [getD_of_lt _ hi]; exact h.2 _ (List.getElem_mem hi)
  have hlj : E[(j : Nat)].length = D := h.2 _ (List.getElem_mem hj)
  rw [dot_eq_sum D _ _ hli hlj]
  apply Finset.sum_congr rfl
  intro k _
  rw [Matrix.transpose_apply, matOf_apply, matOf_apply, getD_of_lt (l := E) [] hj]

/-! ### the edge matrix -/

theorem square_edges0 {D : Nat} {s : List IPt} (hl : s.length = D + 1)
    (hs : ∀ p ∈ s, p.length = D) : Square D (edges0 s) := by
  match s, hl, hs with
  | p0 :: rest, hl, hs =>
    refine ⟨by simpa [edges0] using hl, ?_⟩
    intro r hr
    simp only [edges0, List.mem_map] at hr
    obtain ⟨p, hp, rfl⟩ := hr
    rw [sub_length, hs p (List.mem_cons_of_mem _ hp), hs p0 (by simp)]
    exact Nat.min_self D

/-- entries of the edge matrix: row `i` is `p_{i+1} − p_0` -/
theorem matOf_edges0 {D : Nat} {p0 : IPt} {rest : List IPt} (hl : rest.length = D)
    (hs : ∀ p ∈ p0 :: rest, p.length = D) (i j : Fin D) :
    matOf D D (edges0 (p0 :: rest)) i j = (rest.getD i []).getD j 0 - p0.getD j 0 := by
  have hi : (i : Nat) < rest.length := by rw [hl]; exact i.isLt
  rw [matOf_apply]
  unfold edges0
  rw [getD_map_nil (fun p => sub p p0) rest i [] hi]
  have hli : (rest.getD i []).length = D := by
    rw [getD_of_lt _ hi]; exact hs _ (List.mem_cons_of_mem _ (List.getElem_mem hi))
  exact sub_getD _ _ hli (hs p0 (by simp)) j j.isLt

/-- **Row reduction + expansion along the ones column.**  The orientation determinant of a
`D`-simplex is `(-1)^D` times the determinant of its edge matrix. -/
theorem orientDet_eq_edges {D : Nat} {s : List IPt} (hl : s.length = D + 1)
    (hs : ∀ p ∈ s, p.length = D) : orientDet s = (-1) ^ D * det (edges0 s) := by
  match s, hl, hs with
  | p0 :: rest, hl, hs =>
    have hrl : rest.length = D := by simpa using hl
    have hsq := square_orientRows hl hs
    have hsqE := square_edges0 hl hs
    unfold orientDet
    rw [det_eq_matrix_det hsq, det_eq_matrix_det hsqE]
    set M := matOf (D + 1) (D + 1) (orientRows (p0 :: rest)) with hM
    -- subtract row 0 from every other row
    let B : Matrix (Fin (D + 1)) (Fin (D + 1)) ℤ :=
      Matrix.of fun i j => M i j - (if i = 0 then 0 else M 0 j)
    have hdet : M.det = B.det := by
      apply Matrix.det_eq_of_forall_row_eq_smul_add_const (fun i => if i = 0 then 0 else 1) 0
      · simp
      · intro i j
        by_cases hi : i = 0
        · simp [B, hi]
        · simp [B, hi]
    rw [hdet, Matrix.det_succ_column B (Fin.last D)]
    have hlast : ∀ i : Fin (D + 1), B i (Fin.last D) = if i = 0 then 1 else 0 := by
      intro i
      have h0 : M 0 (Fin.last D) = 1 :=
        matOf_orientRows_last _ hs 0 (by simp)
      have hi : M i (Fin.last D) = 1 :=
        matOf_orientRows_last _ hs i (by rw [hl]; exact i.isLt)
      by_cases hi0 : i = 0
      · simp [B, hi0, h0]
      · simp [B, hi0, h0, hi]
    rw [Finset.sum_eq_single (0 : Fin (D + 1))]
    · rw [hlast 0, if_pos rfl, Fin.succAbove_zero, Fin.succAbove_last]
      have hsub : B.submatrix Fin.succ Fin.castSucc = matOf D D (edges0 (p0 :: rest)) := by
        ext i j
        rw [matOf_edges0 hrl hs, Matrix.submatrix_apply]
        have hne : (Fin.succ i : Fin (D + 1)) ≠ 0 := Fin.succ_ne_zero i
        simp only [B, Matrix.of_apply, hne, if_false]
        rw [hM, matOf_orientRows_lt _ hs _ (by rw [hl]; exact (Fin.succ i).isLt) _
            (by simp),
          matOf_orientRows_lt _ hs 0 (by simp) _ (by simp)]
        simp
      rw [hsub]
      simp
    · intro i _ hi
      rw [hlast i, if_neg hi]
      simp
    · intro h
      exact absurd (Finset.mem_univ _) h

/-! ### translation and scaling of the points -/

/-- translate a point -/
def translate (t : IPt) (p : IPt) : IPt := List.zipWith (· + ·) p t

theorem translate_length {D : Nat} (t p : IPt) (ht : t.length = D) (hp : p.length = D) :
    (translate t p).length = D := by
  simp [translate, ht, hp]

theorem sub_translate {D : Nat} (t p q : IPt) (ht : t.length = D) (hp : p.length = D)
    (hq : q.length = D) : sub (translate t p) (translate t q) = sub p q := by
  apply List.ext_getElem
  · simp [sub, translate, ht, hp, hq]
  · intro i h1 h2
    simp only [sub, translate, List.getElem_zipWith]
    omega

theorem edges0_translate {D : Nat} (t : IPt) (s : List IPt) (ht : t.length = D)
    (hs : ∀ p ∈ s, p.length = D) : edges0 (s.map (translate t)) = edges0 s := by
  match s, hs with
  | [], _ => rfl
  | p0 :: rest, hs =>
    simp only [List.map_cons, edges0, List.map_map]
    apply List.map_congr_left
    intro p hp
    exact sub_translate t p p0 ht (hs p (List.mem_cons_of_mem _ hp)) (hs p0 (by simp))

theorem sub_scale (k : Int) (p q : IPt) :
    sub (p.map (k * ·)) (q.map (k * ·)) = (sub p q).map (k * ·) := by
  apply List.ext_getElem
  · simp [sub]
  · intro i h1 h2
    simp only [sub, List.getElem_zipWith, List.getElem_map]
    rw [Int.mul_sub]

theorem edges0_scale (k : Int) (s : List IPt) :
    edges0 (s.map (fun p => p.map (k * ·))) = (edges0 s).map (fun e => e.map (k * ·)) := by
  match s with
  | [] => rfl
  | p0 :: rest =>
    simp only [List.map_cons, edges0, List.map_map]
    apply List.map_congr_left
    intro p _
    exact sub_scale k p p0

theorem square_scale {n : Nat} {E : List (List Int)} (k : Int) (h : Square n E) :
    Square n (E.map (fun e => e.map (k * ·))) := by
  refine ⟨by simpa using h.1, ?_⟩
  intro r hr
  rw [List.mem_map] at hr
  obtain ⟨e, he, rfl⟩ := hr
  simpa using h.2 e he

/-- scaling every entry of an `n × n` matrix by `k` multiplies the determinant by `k ^ n` -/
theorem det_scale {n : Nat} {E : List (List Int)} (k : Int) (h : Square n E) :
    det (E.map (fun e => e.map (k * ·))) = k ^ n * det E := by
  rw [det_eq_matrix_det (square_scale k h), det_eq_matrix_det h]
  have : matOf n n (E.map (fun e => e.map (k * ·))) = k • matOf n n E := by
    ext i j
    have hi : (i : Nat) < E.length := by rw [h.1]; exact i.isLt
    rw [Matrix.smul_apply, matOf_apply, matOf_apply,
      getD_map_nil (fun e => e.map (k * ·)) E i [] hi, getD_mul_map]
    rfl
  rw [this, Matrix.det_smul, Fintype.card_fin]

end DM.Measures
