/-
Driver/BudHandlers.lean — C19: budget counters vs the model's formulas (K2) and adversarial-call
outcomes (no panic, no runaway call, non-finite coordinates refused).
-/
import DelaunayModel.Model.Proto
import DelaunayModel.Model.Budget
import DelaunayModel.Model.Locate
import Driver.CxHandlers
open DM DM.Budget

def runBud (c : Case) : Res :=
  let debug := c.arg "debug" == "1"
  Id.run do
    let mut bad : List String := []
    let mut stats : List String := []
    let mut n := 0
    for r in c.recsOf "bl" do
      match r with
      | [stepsS, cellsS, fb] =>
        match stepsS.toNat?, cellsS.toNat? with
        | some steps, some cells =>
          n := n + 1
          stats := (if fb == "1" then "bud.locate.fallback" else "bud.locate") :: stats
          -- model budget (Props/C10 `walkSteps_le_min`): min(MAX_STEPS, cells + 1)
          if steps > min maxSteps (cells + 1) then
            bad := s!"locate walked {steps} steps in a triangulation of {cells} cells (budget min(10000, cells+1))" :: bad
        | _, _ => pure ()
      | _ => pure ()
    for r in c.recsOf "bi" do
      match r with
      | [aS] =>
        match aS.toNat? with
        | some a =>
          n := n + 1
          stats := "bud.insert" :: stats
          if a > 2 then bad := s!"an insertion made {a} attempts (budget: 1 + one perturbation retry)" :: bad
        | none => pure ()
      | _ => pure ()
    for r in c.recsOf "br" do
      match r with
      | [dS, cellsS, flipsS, result, secsS] =>
        match dS.toNat?, cellsS.toNat?, flipsS.toNat? with
        | some d, some cells, some flips =>
          n := n + 1
          stats := s!"bud.repair.{result}" :: stats
          if result.startsWith "panic" then bad := s!"repair panicked: {result}" :: bad
          -- a converged attempt applied at most max_flips flips (Props/C19 `loop_done_within_budget`);
          -- the heuristic rebuild reports the flips of its final repair on the rebuilt complex
          if result == "ok" && flips > defaultMaxFlips d cells debug then
            bad := s!"repair reported Ok after {flips} flips with {cells} cells (budget {defaultMaxFlips d cells debug})" :: bad
          if secsS.startsWith "slow" then bad := s!"repair ran {secsS}" :: bad
        | _, _, _ => pure ()
      | _ => pure ()
    -- inconsistent predicates (a lying `Kernel`):
    -- bk <D> <cells> <mode> <adv> <in-sphere calls> <result> <flips> <max_flips> <unchanged> <secs>
    for r in c.recsOf "bk" do
      match r with
      | [dS, cellsS, mode, adv, callsS, result, flipsS, maxS, unchanged, secsS] =>
        match dS.toNat?, cellsS.toNat?, callsS.toNat? with
        | some d, some cells, some calls =>
          n := n + 1
          stats := s!"bud.lying.{(result.splitOn ":").headD ""}" :: stats
          let where_ := s!"lying kernel mode={mode} advanced={adv} D={d} cells={cells}"
          if result.startsWith "panic" then bad := s!"{where_}: repair panicked: {result}" :: bad
          if calls > workBound d cells debug then
            bad := s!"{where_}: {calls} in-sphere evaluations, the budgets imply at most {workBound d cells debug} (the loop is not bounded by its flip budget)" :: bad
          match flipsS.toInt?, maxS.toInt? with
          | some flips, some maxf =>
            if result == "nonconvergent" then
              if maxf != (defaultMaxFlips d cells debug : Int) then
                bad := s!"{where_}: NonConvergent reports max_flips={maxf}, default_max_flips = {defaultMaxFlips d cells debug}" :: bad
              -- loop_flips_bounded: a non-convergent attempt applied at most max_flips + 1 flips
              if flips > maxf + 1 then bad := s!"{where_}: NonConvergent after {flips} flips with max_flips={maxf}" :: bad
            if result == "ok" && flips > (defaultMaxFlips d cells debug : Int) then
              bad := s!"{where_}: Ok after {flips} flips (budget {defaultMaxFlips d cells debug})" :: bad
          | _, _ => pure ()
          if result != "ok" && unchanged != "1" then bad := s!"{where_}: repair returned {result} but the triangulation changed" :: bad
          match secsS.toNat? with | _ => pure ()
        | _, _, _ => pure ()
      | _ => pure ()
    if !bad.isEmpty then return { status := "ORACLE", detail := " ; ".intercalate bad.reverse, stats := stats }
    return { status := if n == 0 then "skip" else "ok", stats := stats }

def runAdv (c : Case) : Res :=
  Id.run do
    let mut bad : List String := []
    let mut stats : List String := []
    for (n, v) in c.obs do
      let t := v.headD ""
      stats := s!"adv.{(t.splitOn ":").headD ""}" :: stats
      if t.startsWith "panic" then bad := s!"{n}: PANIC {t}" :: bad
      if t.startsWith "slow" then bad := s!"{n}: ran {t} (ceiling 30 s)" :: bad
      if t == "stored" then bad := s!"{n}: a non-finite coordinate entered a triangulation" :: bad
      -- non-finite input must be refused
      if n.startsWith "nonfinite_insert" && t == "ok" then bad := s!"{n}: insert of a vertex with a non-finite coordinate returned Ok" :: bad
      -- handles that cannot be valid must be refused, not accepted
      if (n == "flip_k2_stale_cell" || n == "flip_k2_index_255" || n == "flip_k2_index_D1" || n == "flip_k3_same_index" ||
          n == "flip_k3_index_255" || n == "flip_k3_stale_cell" || n == "flip_k2inv_same_vertex" || n == "flip_k2inv_stale_vertex" ||
          n == "flip_k3inv_repeated" || n == "flip_k1_remove_stale" || n == "flip_k1_insert_stale_cell") && t == "ok" then
        bad := s!"{n}: an impossible handle was accepted" :: bad
      if n == "still_valid" && t != "Ok" then bad := s!"triangulation no longer valid after the adversarial calls: {t}" :: bad
    if !bad.isEmpty then return { status := "ORACLE", detail := " ; ".intercalate bad.reverse, stats := stats }
    return { status := "ok", stats := stats }
