//! Shared triangulation helpers: building vertices, constructing, exporting with the
//! implementation's own verdicts attached as observations.
#![allow(dead_code)]

use crate::common::{catch, export_tds, hxs, Ids, Out, Rng};
use crate::gens;
use delaunay::core::delaunay_triangulation::{
    ConstructionOptions, DedupPolicy, DelaunayTriangulation, InitialSimplexStrategy,
    InsertionOrderStrategy, RetryPolicy,
};
use delaunay::core::traits::data_type::DataType;
use delaunay::core::triangulation::TopologyGuarantee;
use delaunay::core::triangulation_data_structure::Tds;
use delaunay::core::util::find_delaunay_violations;
use delaunay::core::vertex::Vertex;
use delaunay::geometry::kernel::{FastKernel, Kernel, RobustKernel};
use delaunay::geometry::point::Point;
use delaunay::geometry::traits::coordinate::{Coordinate, ScalarSummable};
use std::num::NonZeroUsize;

pub type VData = i32;
pub type CData = i32;
pub type DtF<const D: usize> = DelaunayTriangulation<FastKernel<f64>, VData, CData, D>;
pub type DtR<const D: usize> = DelaunayTriangulation<RobustKernel<f64>, VData, CData, D>;

pub fn make_vertices<const D: usize>(pts: &[Vec<f64>], rng: &mut Rng) -> Vec<Vertex<f64, VData, D>> {
    pts.iter()
        .enumerate()
        .map(|(i, p)| {
            Vertex::new_with_uuid(Point::new(gens::arr::<D>(p)), rng.uuid(), Some(100 + i as i32))
        })
        .collect()
}

pub fn guarantee(g: usize) -> TopologyGuarantee {
    match g {
        0 => TopologyGuarantee::Pseudomanifold,
        1 => TopologyGuarantee::PLManifold,
        _ => TopologyGuarantee::PLManifoldStrict,
    }
}
pub fn guarantee_id(g: TopologyGuarantee) -> usize {
    match g {
        TopologyGuarantee::Pseudomanifold => 0,
        TopologyGuarantee::PLManifold => 1,
        TopologyGuarantee::PLManifoldStrict => 2,
    }
}

#[derive(Clone, Copy, Debug)]
pub struct Opts {
    pub order: u8,
    pub dedup: u8,
    pub simplex: u8,
    pub retry: u8,
}
impl Opts {
    pub fn random(rng: &mut Rng) -> Opts {
        Opts {
            order: rng.below(4) as u8,
            dedup: rng.below(3) as u8,
            simplex: rng.below(2) as u8,
            retry: rng.below(4) as u8,
        }
    }
    pub fn all() -> Vec<Opts> {
        let mut v = Vec::new();
        for order in 0..4 {
            for dedup in 0..3 {
                for simplex in 0..2 {
                    for retry in 0..3 {
                        v.push(Opts { order, dedup, simplex, retry });
                    }
                }
            }
        }
        v
    }
    pub fn build(&self) -> ConstructionOptions {
        let order = match self.order {
            0 => InsertionOrderStrategy::Input,
            1 => InsertionOrderStrategy::Lexicographic,
            2 => InsertionOrderStrategy::Morton,
            _ => InsertionOrderStrategy::Hilbert,
        };
        let dedup = match self.dedup {
            0 => DedupPolicy::Off,
            1 => DedupPolicy::Exact,
            2 => DedupPolicy::Epsilon { tolerance: 1e-9 },
            _ => DedupPolicy::Epsilon { tolerance: 1e-12 },   // finer than the 1e-10 insertion tolerance
        };
        let simplex = match self.simplex {
            0 => InitialSimplexStrategy::First,
            _ => InitialSimplexStrategy::Balanced,
        };
        let three = NonZeroUsize::new(3).unwrap();
        let mut o = ConstructionOptions::default()
            .with_insertion_order(order)
            .with_dedup_policy(dedup)
            .with_initial_simplex_strategy(simplex);
        o = match self.retry {
            0 => o, // cfg-dependent default
            1 => o.with_retry_policy(RetryPolicy::Disabled),
            2 => o.with_retry_policy(RetryPolicy::Shuffled { attempts: three, base_seed: Some(7) }),
            _ => o.with_retry_policy(RetryPolicy::DebugOnlyShuffled { attempts: three, base_seed: None }),
        };
        o
    }
    pub fn tag(&self) -> String {
        format!("order={} dedup={} simplex={} retry={}", self.order, self.dedup, self.simplex, self.retry)
    }
}

fn verdict<E: std::fmt::Debug>(r: Result<Result<(), E>, String>) -> String {
    match r {
        Ok(Ok(())) => "ok".into(),
        Ok(Err(e)) => {
            let s = format!("{e:?}");
            let kind: String = s.chars().take_while(|c| c.is_alphanumeric() || *c == '_').collect();
            format!("err {kind}")
        }
        Err(m) => format!("panic:{m}"),
    }
}

/// Level-1 element validators applied one by one (as `Tds::validate` does before Level 2).
pub fn l1_verdict<U: DataType, V: DataType, const D: usize>(tds: &Tds<f64, U, V, D>) -> String {
    verdict(catch(|| -> Result<(), String> {
        for (_, v) in tds.vertices() {
            (*v).is_valid().map_err(|e| format!("Vertex_{e:?}"))?;
        }
        for (_, c) in tds.cells() {
            c.is_valid().map_err(|e| format!("Cell_{e:?}"))?;
        }
        Ok(())
    }))
}

/// Attach every validator verdict of the implementation to the current case.
pub fn observe_validators<K, U, V, const D: usize>(dt: &DelaunayTriangulation<K, U, V, D>, out: &mut Out, l4: bool)
where
    K: Kernel<D, Scalar = f64>,
    U: DataType,
    V: DataType,
{
    let tds = dt.tds();
    out.obs("l1", &l1_verdict(tds));
    out.obs("tds_is_valid", &verdict(catch(|| tds.is_valid())));
    out.obs("tds_validate", &verdict(catch(|| tds.validate())));
    let tri = dt.as_triangulation();
    out.obs("tri_is_valid", &verdict(catch(|| tri.is_valid())));
    out.obs("tri_validate", &verdict(catch(|| tri.validate())));
    // cumulative validation and the diagnostic report are defined for ANY complex: "the report is
    // empty exactly when cumulative validation passes" is compared on corrupted ones too
    out.obs("dt_validate", &verdict(catch(|| dt.validate())));
    out.obs("report", &verdict(catch(|| dt.validation_report().map_err(|r| {
        let kinds: Vec<String> = r.violations.iter().map(|v| format!("{:?}", v.kind)).collect();
        kinds.join("+")
    }))));
    // the public PART validators of Level 3 (topology::manifold, Euler), each called on its own
    out.obs("p_connected", if catch(|| tds.is_connected()) == Ok(true) { "ok" } else { "err" });
    out.obs("p_coherent", if catch(|| tds.is_coherently_oriented()) == Ok(true) { "ok" } else { "err" });
    if let Ok(Ok(f2c)) = catch(|| tds.build_facet_to_cells_map()) {
        use delaunay::topology::manifold::{validate_closed_boundary, validate_facet_degree, validate_ridge_links};
        out.obs("p_facet_degree", &verdict(catch(|| validate_facet_degree(&f2c))));
        out.obs("p_closed_boundary", &verdict(catch(|| validate_closed_boundary(tds, &f2c))));
        out.obs("p_ridge_links", &verdict(catch(|| validate_ridge_links(tds))));
    }
    if l4 {
        out.obs("dt_is_valid", &verdict(catch(|| dt.is_valid())));
        out.obs("via_flips", &verdict(catch(|| dt.is_delaunay_via_flips())));
        out.obs(
            "violations",
            &match catch(|| find_delaunay_violations(tds, None)) {
                Ok(Ok(v)) => {
                    if v.is_empty() {
                        "ok".to_string()
                    } else {
                        format!("err {}", v.len())
                    }
                }
                Ok(Err(e)) => {
                    let s = format!("{e:?}");
                    let kind: String = s.chars().take_while(|c| c.is_alphanumeric()).collect();
                    format!("fail {kind}")
                }
                Err(m) => format!("panic:{m}"),
            },
        );
    }
}

pub fn input_lines<U: DataType, const D: usize>(vs: &[Vertex<f64, U, D>], ids: &mut Ids, out: &mut Out) {
    for (i, v) in vs.iter().enumerate() {
        let id = ids.id(v.uuid());
        out.line(&format!(
            "in {i} {id} {} d {}",
            hxs(v.point().coords()),
            crate::common::data_tok(&v.data)
        ));
    }
}

pub fn export<K, U, V, const D: usize>(dt: &DelaunayTriangulation<K, U, V, D>, ids: &mut Ids, out: &mut Out)
where
    K: Kernel<D, Scalar = f64>,
    U: DataType,
    V: DataType,
{
    export_tds(dt.tds(), ids, "", out);
}

/// Build with the fast kernel through the most general constructor.
pub fn build_fast<const D: usize>(
    vs: &[Vertex<f64, VData, D>],
    g: usize,
    opts: &Opts,
) -> Result<Result<DtF<D>, String>, String>
where
    f64: ScalarSummable,
{
    catch(|| {
        DelaunayTriangulation::<FastKernel<f64>, VData, CData, D>::with_topology_guarantee_and_options(
            &FastKernel::new(),
            vs,
            guarantee(g),
            opts.build(),
        )
        .map_err(|e| format!("{e:?}"))
    })
}

pub fn build_robust<const D: usize>(
    vs: &[Vertex<f64, VData, D>],
    g: usize,
    opts: &Opts,
) -> Result<Result<DtR<D>, String>, String> {
    catch(|| {
        DelaunayTriangulation::<RobustKernel<f64>, VData, CData, D>::with_topology_guarantee_and_options(
            &RobustKernel::new(),
            vs,
            guarantee(g),
            opts.build(),
        )
        .map_err(|e| format!("{e:?}"))
    })
}

pub fn err_kind(s: &str) -> String {
    let k: String = s.chars().take_while(|c| c.is_alphanumeric() || *c == '_').collect();
    if k.is_empty() { "Err".into() } else { k }
}


/// A hand-written complex loaded through the PUBLIC serde interface: vertices at `pts` (data =
/// 100 + index), cells as index lists.  The slot order of each cell is tried in both orientations
/// (first two vertices swapped) until the library accepts the result as a Level 1-3 valid
/// triangulation; `None` if no combination is accepted.
pub fn load_complex<const D: usize>(pts: &[Vec<f64>], cells: &[Vec<usize>], rng: &mut Rng) -> Option<DtF<D>> {
    use serde_json::{json, Value};
    let vu: Vec<String> = pts.iter().map(|_| rng.uuid().to_string()).collect();
    let cu: Vec<String> = cells.iter().map(|_| rng.uuid().to_string()).collect();
    let mut verts: Vec<Value> = vec![json!({"value": null, "version": 0})];
    for (i, p) in pts.iter().enumerate() {
        verts.push(json!({"value": {"point": p, "uuid": vu[i], "data": 100 + i as i32}, "version": 1}));
    }
    let mut cs: Vec<Value> = vec![json!({"value": null, "version": 0})];
    for u in &cu { cs.push(json!({"value": {"uuid": u}, "version": 1})); }
    for mask in 0u32..(1u32 << cells.len().min(10)) {
        let mut table = serde_json::Map::new();
        for (ci, c) in cells.iter().enumerate() {
            let mut order: Vec<usize> = c.clone();
            if (mask >> ci) & 1 == 1 && order.len() >= 2 { order.swap(0, 1); }
            table.insert(cu[ci].clone(), Value::Array(order.iter().map(|i| Value::String(vu[*i].clone())).collect()));
        }
        let doc = json!({"vertices": verts, "cells": cs, "cell_vertices": Value::Object(table)});
        let text = doc.to_string();
        if let Ok(Ok(tds)) = catch(|| serde_json::from_str::<Tds<f64, VData, CData, D>>(&text)) {
            let dt: DtF<D> = DelaunayTriangulation::from_tds_with_topology_guarantee(tds, FastKernel::new(), TopologyGuarantee::PLManifold);
            if dt.as_triangulation().validate().is_ok() { return Some(dt); }
        }
    }
    None
}
