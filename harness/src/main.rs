//! vharness — drives the real `delaunay` crate (built from /repo's working tree) and writes, per
//! case, the request lines and the implementation's observations for the Lean driver.
mod common;
mod gens;
mod hist;
mod p01;
mod p02;
mod p03;
mod p06;
mod p07;
mod p08;
mod p09;
mod p10;
mod p11;
mod p13;
mod p14;
mod p15;
mod p16;
mod p17;
mod p18;
mod p19;
mod p04;
mod p05;
mod p12;
mod tri;

use common::{Out, Rng};

#[macro_export]
macro_rules! for_dims {
    ($d:expr, $f:ident, $($arg:expr),*) => {
        match $d {
            2 => $f::<2>($($arg),*),
            3 => $f::<3>($($arg),*),
            4 => $f::<4>($($arg),*),
            5 => $f::<5>($($arg),*),
            _ => panic!("unsupported dimension"),
        }
    };
}

pub struct Cfg {
    pub prop: String,
    pub tier: String,
    pub seed: u64,
    pub out: String,
    pub extra: Vec<String>,
}

fn main() {
    let args: Vec<String> = std::env::args().collect();
    let mut cfg = Cfg {
        prop: String::new(),
        tier: "quick".into(),
        seed: 1,
        out: "/dev/stdout".into(),
        extra: vec![],
    };
    let mut i = 1;
    while i < args.len() {
        match args[i].as_str() {
            "--tier" => {
                cfg.tier = args[i + 1].clone();
                i += 1;
            }
            "--seed" => {
                cfg.seed = args[i + 1].parse().unwrap_or(1);
                i += 1;
            }
            "--out" => {
                cfg.out = args[i + 1].clone();
                i += 1;
            }
            s if cfg.prop.is_empty() => cfg.prop = s.to_string(),
            s => cfg.extra.push(s.to_string()),
        }
        i += 1;
    }
    // silence panic messages from catch_unwind'ed library calls (they are recorded as observations)
    std::panic::set_hook(Box::new(|_| {}));
    let mut out = Out::new();
    if let Some(i) = cfg.extra.iter().position(|x| x == "--only") {
        out.only = cfg.extra.get(i + 1).cloned();
    }
    let mut rng = Rng::new(cfg.seed);
    match cfg.prop.as_str() {
        "C01" => p01::run(&cfg, &mut rng, &mut out),
        "C02" => p02::run(&cfg, &mut rng, &mut out),
        "C06" => p06::run(&cfg, &mut rng, &mut out),
        "C07" => p07::run(&cfg, &mut rng, &mut out),
        "C08" => p08::run(&cfg, &mut rng, &mut out),
        "C09" => p09::run(&cfg, &mut rng, &mut out),
        "C10" => p10::run(&cfg, &mut rng, &mut out),
        "C11" => p11::run(&cfg, &mut rng, &mut out),
        "C15" => p15::run(&cfg, &mut rng, &mut out),
        "C17" => p17::run(&cfg, &mut rng, &mut out),
        "C13" => p13::run(&cfg, &mut rng, &mut out),
        "C16" => p16::run(&cfg, &mut rng, &mut out),
        "C18" => p18::run(&cfg, &mut rng, &mut out),
        "C14" => p14::run(&cfg, &mut rng, &mut out),
        "C03" => p03::run(&cfg, &mut rng, &mut out),
        "C19" => p19::run(&cfg, &mut rng, &mut out),
        "C04" => p04::run(&cfg, &mut rng, &mut out),
        "C05" => p05::run(&cfg, &mut rng, &mut out),
        "C12" => p12::run(&cfg, &mut rng, &mut out),
        p => {
            eprintln!("unknown property {p}");
            std::process::exit(2);
        }
    }
    std::fs::write(&cfg.out, out.buf).expect("write cases");
    eprintln!("cases={}", out.ncases);
}
