//! C05 — validators vs independent recomputation on single- and double-fault corruptions (K1).
//! The same corruption is applied to the real `Tds` (through the guarded raw mutators, hook H2)
//! and is then simply exported: the Lean side recomputes every level from the raw cells.
use crate::common::{Ids, Out, Rng};
use crate::gens;
use crate::tri::{self, Opts};
use crate::Cfg;
use delaunay::core::cell::Cell;
use delaunay::core::triangulation_data_structure::{CellKey, Tds, VertexKey};
use delaunay::core::vertex::Vertex;
use delaunay::geometry::kernel::FastKernel;
use delaunay::geometry::point::Point;
use delaunay::geometry::traits::coordinate::Coordinate;
use delaunay::prelude::DelaunayTriangulation;

type T<const D: usize> = Tds<f64, tri::VData, tri::CData, D>;

pub const FAULTS: &[&str] = &[
    "none", "dangling_neighbor", "one_way_neighbor", "wrong_mirror_slot", "duplicate_cell", "missing_cell",
    "repeated_vertex", "swap_vertex_order", "invert_cell", "flat_cell", "nonfinite_coord", "stale_incident",
    "wrong_incident", "isolated_vertex", "clear_neighbors", "extra_cell_pinch", "disconnect", "swap_neighbors",
    "remove_cell_clean",
];

/// legal variations of a valid complex
pub const BENIGN: &[&str] = &["unset_incident", "unset_first_incident"];

fn cell_keys<const D: usize>(t: &T<D>) -> Vec<CellKey> { t.cells().map(|(k, _)| k).collect() }
fn vert_keys<const D: usize>(t: &T<D>) -> Vec<VertexKey> { t.vertices().map(|(k, _)| k).collect() }

/// apply one fault; returns false when not applicable at this site
pub fn inject<const D: usize>(t: &mut T<D>, fault: &str, rng: &mut Rng) -> bool {
    let cks = cell_keys(t);
    let vks = vert_keys(t);
    if cks.is_empty() { return false; }
    let ck = *rng.pick(&cks);
    let slot = rng.below((D + 1) as u64) as usize;
    match fault {
        "none" => true,
        "dangling_neighbor" => {
            // point a slot at a cell key that no longer exists
            let ghost = t.verif_insert_cell_raw(Cell::verif_new_raw(t.get_cell(ck).unwrap().vertices().to_vec(), None));
            t.verif_remove_cell_raw(ghost);
            let c = t.get_cell_by_key_mut(ck).unwrap();
            let nb = c.verif_neighbors_mut();
            if nb.is_none() { *nb = Some(std::iter::repeat_n(None, D + 1).collect()); }
            nb.as_mut().unwrap()[slot] = Some(ghost);
            true
        }
        "one_way_neighbor" => {
            let c = t.get_cell_by_key_mut(ck).unwrap();
            match c.verif_neighbors_mut() {
                Some(nb) => {
                    if let Some(i) = nb.iter().position(|n| n.is_some()) { nb[i] = None; true } else { false }
                }
                None => false,
            }
        }
        "wrong_mirror_slot" | "swap_neighbors" => {
            let c = t.get_cell_by_key_mut(ck).unwrap();
            match c.verif_neighbors_mut() {
                Some(nb) => {
                    let j = (slot + 1) % (D + 1);
                    if nb[slot] == nb[j] { return false; }
                    nb.swap(slot, j);
                    true
                }
                None => false,
            }
        }
        "duplicate_cell" => {
            let src = t.get_cell(ck).unwrap();
            let mut vs = src.vertices().to_vec();
            if fault == "duplicate_cell" && rng.chance(1, 2) { vs.swap(0, 1); vs.swap(1, 2 % (D + 1)); }
            t.verif_insert_cell_raw(Cell::verif_new_raw(vs, None));
            true
        }
        "missing_cell" => {
            if cks.len() < 2 { return false; }
            t.verif_remove_cell_raw(ck);
            true
        }
        "remove_cell_clean" => {
            // removal through the PUBLIC api (neighbours and incident cells are repaired): Levels 1-2
            // stay valid, what breaks - if anything - is Level 3 (a hole, a pinched vertex link, Euler)
            if cks.len() < 2 { return false; }
            let _ = t.remove_cells_by_keys(&[ck]);
            true
        }
        "repeated_vertex" => {
            let c = t.get_cell_by_key_mut(ck).unwrap();
            let vs = c.verif_vertices_mut();
            let j = (slot + 1) % (D + 1);
            vs[slot] = vs[j];
            true
        }
        "swap_vertex_order" | "invert_cell" => {
            let c = t.get_cell_by_key_mut(ck).unwrap();
            let j = (slot + 1) % (D + 1);
            c.verif_vertices_mut().swap(slot, j);
            if fault == "invert_cell" {
                // keep neighbour slots aligned with vertex slots: only the orientation changes
                if let Some(nb) = c.verif_neighbors_mut() { nb.swap(slot, j); }
            }
            true
        }
        "flat_cell" => {
            // move one vertex of the cell onto another vertex of the same cell's facet hyperplane:
            // copy coordinates of a facet vertex (makes every cell containing both flat/duplicate-coord)
            let (a, b) = { let c = t.get_cell(ck).unwrap(); (c.vertices()[slot], c.vertices()[(slot + 1) % (D + 1)]) };
            let pb = *t.get_vertex_by_key(b).unwrap().point();
            *t.get_vertex_by_key_mut(a).unwrap().verif_point_mut() = pb;
            true
        }
        "nonfinite_coord" => {
            let vk = *rng.pick(&vks);
            let mut c = *t.get_vertex_by_key(vk).unwrap().point().coords();
            c[rng.below(D as u64) as usize] = [f64::NAN, f64::INFINITY, f64::NEG_INFINITY][rng.below(3) as usize];
            *t.get_vertex_by_key_mut(vk).unwrap().verif_point_mut() = Point::new(c);
            true
        }
        "stale_incident" => {
            let ghost = t.verif_insert_cell_raw(Cell::verif_new_raw(t.get_cell(ck).unwrap().vertices().to_vec(), None));
            t.verif_remove_cell_raw(ghost);
            let vk = *rng.pick(&vks);
            t.get_vertex_by_key_mut(vk).unwrap().incident_cell = Some(ghost);
            true
        }
        "unset_incident" | "unset_first_incident" => {
            // benign variation: an unset incident pointer is legal at Level 2
            let vk = if fault == "unset_first_incident" { vks[0] } else { *rng.pick(&vks) };
            t.get_vertex_by_key_mut(vk).unwrap().incident_cell = None;
            true
        }
        "wrong_incident" => {
            // point a vertex at a live cell that does not contain it
            let mut order = vks.clone();
            rng.shuffle(&mut order);
            for &vk in &order {
                if let Some(&other) = cks.iter().find(|&&k| !t.get_cell(k).unwrap().vertices().contains(&vk)) {
                    t.get_vertex_by_key_mut(vk).unwrap().incident_cell = Some(other);
                    return true;
                }
            }
            false
        }
        "isolated_vertex" => {
            let mut c = [0.0f64; D];
            for x in c.iter_mut() { *x = rng.range(-40, 40) as f64 + 0.5; }
            t.verif_insert_vertex_raw(Vertex::new_with_uuid(Point::new(c), rng.uuid(), Some(999)));
            true
        }
        "clear_neighbors" => {
            if cks.len() < 2 { return false; }
            *t.get_cell_by_key_mut(ck).unwrap().verif_neighbors_mut() = None;
            true
        }
        "extra_cell_pinch" => {
            // add a cell on D existing vertices + one far vertex: pinches links / breaks facet degree
            let mut vs: Vec<VertexKey> = t.get_cell(ck).unwrap().vertices().to_vec();
            let far = vks.iter().copied().find(|v| !vs.contains(v));
            match far { Some(f) => { vs[slot] = f; } None => return false }
            t.verif_insert_cell_raw(Cell::verif_new_raw(vs, None));
            true
        }
        "disconnect" => {
            // cut every neighbour pointer between one cell and the rest (both directions)
            if cks.len() < 2 { return false; }
            for &k in &cks {
                let c = t.get_cell_by_key_mut(k).unwrap();
                if let Some(nb) = c.verif_neighbors_mut() {
                    for n in nb.iter_mut() {
                        if k == ck || *n == Some(ck) { *n = None; }
                    }
                }
            }
            true
        }
        _ => false,
    }
}

fn emit<const D: usize>(id: &str, base: &T<D>, g: usize, faults: &[&str], rng: &mut Rng, out: &mut Out, fam: &str) {
    let mut t = base.clone();
    let mut applied = Vec::new();
    for f in faults {
        if inject(&mut t, f, rng) { applied.push(*f); }
    }
    if applied.is_empty() { return; }
    let dt = DelaunayTriangulation::<FastKernel<f64>, tri::VData, tri::CData, D>::from_tds_with_topology_guarantee(
        t, FastKernel::new(), tri::guarantee(g));
    let mut ids = Ids::default();
    out.case(id, "cx", &format!("D={D} fam={fam} g={g} expect=none faults={}", applied.join("+")));
    tri::export(&dt, &mut ids, out);
    // L4 verdicts are only meaningful (and only requested) on structurally untouched complexes
    tri::observe_validators(&dt, out, applied == ["none"]);
    out.end();
}

fn bases<const D: usize>(rng: &mut Rng, count: usize, out_g: &mut Vec<(T<D>, usize, &'static str)>) {
    let mut tries = 0;
    while out_g.len() < count && tries < count * 4 {
        tries += 1;
        let np = match D { 2 => rng.range(4, 12), 3 => rng.range(5, 10), 4 => rng.range(6, 8), _ => rng.range(7, 8) } as usize;
        let ps = gens::point_set(rng, D, np);
        let vs = tri::make_vertices::<D>(&ps.pts, rng);
        let g = rng.below(3) as usize;
        if let Ok(Ok(dt)) = tri::build_fast::<D>(&vs, g, &Opts { order: 3, dedup: 0, simplex: 0, retry: 0 }) {
            out_g.push((dt.tds().clone(), g, ps.family));
        }
    }
}

fn run_d<const D: usize>(cfg: &Cfg, rng: &mut Rng, out: &mut Out) {
    let thorough = cfg.tier == "thorough";
    let mut bs: Vec<(T<D>, usize, &'static str)> = Vec::new();
    bases::<D>(rng, if thorough { 24 } else { 5 }, &mut bs);
    let reps = if thorough { 4 } else { 2 };
    let mut n = 0;
    for (bi, (base, g, fam)) in bs.iter().enumerate() {
        for f in FAULTS {
            for r in 0..reps {
                n += 1;
                emit::<D>(&format!("s{D}_{bi}_{f}_{r}"), base, *g, &[f], rng, out, fam);
            }
        }
        // a benign variation (legal state, different path through the validators) before each fault
        for f in &FAULTS[1..] {
            for b in BENIGN {
                n += 1;
                emit::<D>(&format!("b{D}_{bi}_{b}_{f}"), base, *g, &[b, f], rng, out, fam);
            }
        }
        for b in BENIGN {
            n += 1;
            emit::<D>(&format!("b{D}_{bi}_{b}"), base, *g, &[b], rng, out, fam);
        }
        // every single cell removed cleanly (public api) from small instances: which Level-3 clause
        // owns the damage depends on where the cell sits (hull cell, interior cell, pinching cell)
        if base.number_of_cells() <= 40 {
            let keys = cell_keys(base);
            for (ci, ck) in keys.iter().enumerate() {
                let mut t = base.clone();
                let _ = t.remove_cells_by_keys(&[*ck]);
                if t.number_of_cells() == 0 { continue; }
                n += 1;
                // the same damaged structure under EVERY guarantee: which Level-3 clauses run
                // depends on it (the closed-boundary clause must run under all three)
                for gg in 0..3usize {
                    let dt = DelaunayTriangulation::<FastKernel<f64>, tri::VData, tri::CData, D>::from_tds_with_topology_guarantee(t.clone(), FastKernel::new(), tri::guarantee(gg));
                    let mut ids = Ids::default();
                    out.case(&format!("r{D}_{bi}_{ci}_g{gg}"), "cx", &format!("D={D} fam={fam} g={gg} expect=none faults=remove_cell_clean"));
                    tri::export(&dt, &mut ids, out);
                    tri::observe_validators(&dt, out, false);
                    out.end();
                }
            }
        }
        // pairs of faults on small instances
        if base.number_of_cells() <= 6 || thorough {
            let np = if thorough { 40 } else { 10 };
            for r in 0..np {
                let a = *rng.pick(&FAULTS[1..]);
                let b = *rng.pick(&FAULTS[1..]);
                n += 1;
                emit::<D>(&format!("p{D}_{bi}_{r}"), base, *g, &[a, b], rng, out, fam);
            }
        }
    }
    // more instances for the clean-removal sweep only (general position, 7-10 points, PL guarantees):
    // the position of the removed cell decides which Level-3 clause must notice
    let extra = if thorough { 60 } else { 16 };
    // corpus: 3-D point sets in which one hull cell, removed cleanly, pinches the boundary at its
    // apex (annulus vertex link) while every other Level-3 clause stays satisfied
    let corpus3: [&[[i64; 3]]; 3] = [
        &[[1, 3, 0], [1, 6, 1], [3, 2, 3], [3, 5, 2], [3, 6, 0], [4, 1, 1], [4, 2, 4]],
        &[[0, 0, 1], [0, 6, 4], [1, 2, 1], [3, 2, 4], [4, 7, 2], [5, 3, 0], [5, 4, 2], [7, 8, 2]],
        &[[0, 3, 2], [0, 7, 0], [1, 4, 0], [2, 5, 0], [3, 8, 4], [4, 2, 3], [5, 1, 1], [6, 4, 3], [6, 8, 2], [7, 7, 2]],
    ];
    let ncorpus = if D == 3 { 6 } else { 0 };
    for xi in 0..(extra + ncorpus) {
        let np = (D + 4 + rng.below(4) as usize).min(if D >= 4 { D + 4 } else { 10 });
        let pts = if xi >= extra {
            corpus3[(xi - extra) % 3].iter().map(|p| p.iter().map(|x| *x as f64).collect::<Vec<f64>>()).collect()
        } else {
            gens::to_f(&gens::general_position(rng, D, np, 8), 1.0, 0.0)
        };
        let g = if xi >= extra { 1 + (xi - extra) / 3 } else { 1 + (xi % 2) };
        let vs = tri::make_vertices::<D>(&pts, rng);
        let Ok(Ok(dt0)) = tri::build_fast::<D>(&vs, g, &tri::Opts { order: 3, dedup: 0, simplex: 0, retry: 0 }) else { continue };
        let base = dt0.tds().clone();
        if base.number_of_cells() > 40 { continue; }
        for (ci, ck) in cell_keys(&base).iter().enumerate() {
            let mut t = base.clone();
            let _ = t.remove_cells_by_keys(&[*ck]);
            if t.number_of_cells() == 0 { continue; }
            n += 1;
            for gg in 0..3usize {
                let dt = DelaunayTriangulation::<FastKernel<f64>, tri::VData, tri::CData, D>::from_tds_with_topology_guarantee(t.clone(), FastKernel::new(), tri::guarantee(gg));
                let mut ids = Ids::default();
                out.case(&format!("rx{D}_{xi}_{ci}_g{gg}"), "cx", &format!("D={D} fam=general g={gg} expect=none faults=remove_cell_clean"));
                tri::export(&dt, &mut ids, out);
                tri::observe_validators(&dt, out, false);
                out.end();
            }
        }
    }
    let _ = n;
}

pub fn run(cfg: &Cfg, rng: &mut Rng, out: &mut Out) {
    run_d::<2>(cfg, rng, out);
    run_d::<3>(cfg, rng, out);
    run_d::<4>(cfg, rng, out);
    run_d::<5>(cfg, rng, out);
}
