/-
Model/Remove.lean — `DelaunayTriangulation::remove_vertex`
(src/core/delaunay_triangulation.rs:5104 ff. after the `fix:` commit that made it transactional).

 * vertex bookkeeping of `Tds::remove_vertex`: the vertex table loses exactly the entry with the
   given UUID; every other entry is untouched (UUID, coordinate bits, data);
 * control structure: unknown UUID ⇒ `Ok(0)`, nothing touched; otherwise snapshot, run the
   unguarded removal (inverse k=1 fast path → fan retriangulation → optional flip repair: a
   PARAMETER), keep the result only if no cells remain or Level 3 validates, else restore.
-/
namespace DM.Remove

/-- a stored vertex: (uuid, coordinate bit patterns, user data) -/
abbrev VRec := Nat × List Nat × Int

def removeUuid (V : List VRec) (u : Nat) : List VRec := V.filter (fun v => v.1 != u)

structure Env (S : Type) where
  verts : S → List VRec
  /-- unguarded removal of a present vertex: new state + cells removed, or an error; any behaviour -/
  unguarded : S → Nat → Except String (S × Nat)
  hasCells : S → Bool
  /-- `Triangulation::is_valid` (Level 3) -/
  level3 : S → Bool

variable {S : Type}

/-- returns (result, state left behind) -/
def removeVertex (env : Env S) (s : S) (u : Nat) : Except String Nat × S :=
  if !(env.verts s).any (fun v => v.1 == u) then (.ok 0, s)
  else match env.unguarded s u with
    | .error e => (.error e, s)                      -- rolled back to the snapshot
    | .ok (s', n) =>
      if !env.hasCells s' || env.level3 s' then (.ok n, s')
      else (.error "removal left an invalid triangulation", s)

end DM.Remove
