/-
Model/L4.lean — decision logic of the local Level-4 (Delaunay) predicates.
`k2Violates filter inA inB` mirrors the last lines of `delaunay_violation_k2_for_facet`
(src/core/algorithms/flips.rs:1740-1878): `filter` is the `both_positive_artifact` switch
(`D ≥ 4 && use_robust_on_ambiguous` in the pinned code; removed by the fix for finding F1).
-/
import DelaunayModel.Model.Det
namespace DM

def k2Violates (filter : Bool) (inA inB : Int) : Bool :=
  let artifact := filter && decide (inA > 0) && decide (inB > 0)
  !artifact && (decide (inA > 0) || decide (inB > 0))

/-- the brute-force validator's per-(cell, vertex) decision (`validate_cell_delaunay`):
`inA` = in-sphere of the vertex w.r.t. the cell, `inBack` = in-sphere of the cell's apex w.r.t. the
facet-neighbour that has the vertex as apex (`none` if the vertex is not such an apex).
`filterInside` = suppress when the back test says INSIDE (pinned code, D ≥ 4); BOUNDARY is always
suppressed in D ≥ 4. -/
def bruteViolates (dGe4 filterInside : Bool) (inA : Int) (inBack : Option Int) : Bool :=
  decide (inA > 0) &&
  !(dGe4 && (match inBack with
     | none => false
     | some b => (filterInside && decide (b > 0)) || b == 0))

end DM
