/-
Model/Hilbert.lean — Skilling's transform exactly as `hilbert_index_from_quantized`
(src/core/util/hilbert.rs:211-300) computes it, over `Nat` (all values stay below 2^bits ≤ 2^31, so
the u32 operations never wrap), and the Morton interleave `morton_code`
(src/core/delaunay_triangulation.rs:659).
-/
namespace DM.Hilbert

/-- one pass of step 1 for a given `mask` (a power of two > 1): returns the updated coordinates -/
def axesPass (mask : Nat) (t : List Nat) : List Nat :=
  match t with
  | [] => []
  | t0 :: rest =>
    let m1 := mask - 1
    let first0 := if t0 &&& mask != 0 then t0 ^^^ m1 else t0
    -- fold over the remaining coordinates, threading `first`
    let (first, restRev) := rest.foldl (fun (acc : Nat × List Nat) c =>
      let (f, out) := acc
      if c &&& mask != 0 then (f ^^^ m1, c :: out)
      else
        let toggle := (f ^^^ c) &&& m1
        (f ^^^ toggle, (c ^^^ toggle) :: out)) (first0, [])
    first :: restRev.reverse

/-- step 1: masks 2^(bits-1), 2^(bits-2), …, 2 -/
def axesToTranspose (bits : Nat) (t : List Nat) : List Nat :=
  (List.range (bits - 1)).foldl (fun acc j => axesPass (2 ^ (bits - 1 - j)) acc) t

/-- step 2a: prefix xor (Gray encode across coordinates) -/
def prefixXor : Nat → List Nat → List Nat
  | _, [] => []
  | prev, c :: rest => let v := c ^^^ prev; v :: prefixXor v rest

def grayEncode (t : List Nat) : List Nat :=
  match t with
  | [] => []
  | t0 :: rest => t0 :: prefixXor t0 rest

/-- step 2b: the mask derived from the last coordinate -/
def grayMask (bits : Nat) (last : Nat) : Nat :=
  (List.range (bits - 1)).foldl (fun g j =>
    let m := 2 ^ (bits - 1 - j)
    if last &&& m != 0 then g ^^^ (m - 1) else g) 0

/-- step 3: interleave bits, most significant first, coordinate 0 first -/
def interleave (bits : Nat) (t : List Nat) : Nat :=
  (List.range bits).foldl (fun idx j =>
    let pos := bits - 1 - j
    t.foldl (fun i c => (i <<< 1) ||| ((c >>> pos) &&& 1)) idx) 0

/-- `hilbert_index_from_quantized` -/
def hilbertIndex (bits : Nat) (coords : List Nat) : Nat :=
  let t1 := axesToTranspose bits coords
  let t2 := grayEncode t1
  let g := grayMask bits (t2.getLastD 0)
  let t3 := t2.map (· ^^^ g)
  interleave bits t3

/-- parameter validation of `hilbert_indices_prequantized` -/
def paramsOk (D bits : Nat) : Bool := bits ≥ 1 && bits ≤ 31 && D * bits ≤ 128

/-- `morton_code`: plain bit interleave of the quantised coordinates -/
def mortonCode (bits : Nat) (q : List Nat) : Nat := interleave bits q

/-- `morton_bits_per_coord` / `hilbert_bits_per_coord` -/
def mortonBits (D : Nat) : Option Nat := if 2 ≤ D && D ≤ 5 then some (64 / D) else none
def hilbertBits (D : Nat) : Option Nat := if D == 0 then none else some (min (128 / D) 31)

end DM.Hilbert
