/-
Lemmas/HilbertAux.lean — the inverse Hilbert transform `hilbertPoint` (Skilling's
TransposeToAxes, adapted to invert `Model/Hilbert.lean`'s `hilbertIndex` exactly), the Boolean
table checks `curveOk` / `mortonOk`, and the lemmas that turn a successful check into quantified
statements (left inverse, range, adjacency, and by pigeonhole: right inverse / injectivity on the
whole grid).

Imports one Batteries module (for `List.subperm_of_subset` / `Subperm.perm_of_length_le`).
-/
import DelaunayModel.Model.Hilbert
import Batteries.Data.List.Perm
namespace DM.HilbertAux

open DM.Hilbert

/-- de-interleave: coordinate `j` (of `D`) gets, at bit position `p`, bit `p*D + (D-1-j)` of `index` -/
def deinterleave (D bits index : Nat) : List Nat :=
  (List.range D).map (fun j =>
    (List.range bits).foldl (fun acc p => acc ||| (((index >>> (p * D + (D - 1 - j))) &&& 1) <<< p)) 0)

/-- undo the Gray step: `t = X[D-1] >> 1; X[i] ^= X[i-1] (i = D-1 … 1); X[0] ^= t` -/
def grayDecode (x : List Nat) : List Nat :=
  List.zipWith (· ^^^ ·) x ((x.getLastD 0 >>> 1) :: x)

/-- one inverse pass for `mask = Q`: coordinates visited from the last down to the first -/
def invPass (mask : Nat) (t : List Nat) : List Nat :=
  match t with
  | [] => []
  | t0 :: rest =>
    let m1 := mask - 1
    let (f, out) := rest.foldr (fun c (acc : Nat × List Nat) =>
      let (f, out) := acc
      if c &&& mask != 0 then (f ^^^ m1, c :: out)
      else
        let toggle := (f ^^^ c) &&& m1
        (f ^^^ toggle, (c ^^^ toggle) :: out)) (t0, [])
    (if f &&& mask != 0 then f ^^^ m1 else f) :: out

/-- undo the excess work: masks 2, 4, …, 2^(bits-1) -/
def transposeToAxes (bits : Nat) (t : List Nat) : List Nat :=
  (List.range (bits - 1)).foldl (fun acc j => invPass (2 ^ (j + 1)) acc) t

/-- inverse of `hilbertIndex bits` on the `D`-dimensional grid (Skilling's TransposeToAxes) -/
def hilbertPoint (D bits index : Nat) : List Nat :=
  transposeToAxes bits (grayDecode (deinterleave D bits index))

/-- L1 distance of two coordinate lists (over the common prefix length) -/
def l1 : List Nat → List Nat → Nat
  | a :: as, b :: bs => (if a ≤ b then b - a else a - b) + l1 as bs
  | _, _ => 0

/-- consecutive entries are at L1 distance exactly 1 -/
def chain : List (List Nat) → Bool
  | p :: q :: rest => l1 p q == 1 && chain (q :: rest)
  | _ => true

/-- the curve as a list: `hilbertPoint D b i` for `i = 0 … 2^(D*b) - 1` -/
def curvePts (D b : Nat) : List (List Nat) := (List.range (2 ^ (D * b))).map (hilbertPoint D b)

/-- the table check: (1) `hilbertIndex ∘ hilbertPoint = id` on `[0, 2^(D*b))`, (2) every curve point
lies in the grid `[0,2^b)^D`, (3) consecutive curve points are at L1 distance 1.  (Phrased over
the one list `curvePts D b` so that kernel evaluation computes every point once.) -/
def curveOk (D b : Nat) : Bool :=
  let pts := curvePts D b
  pts.map (hilbertIndex b) == List.range (2 ^ (D * b)) &&
    pts.all (fun p => p.length == D && p.all (· < 2 ^ b)) && chain pts

/-- the grid `[0, 2^b)^D` -/
def InGrid (D b : Nat) (c : List Nat) : Prop := c.length = D ∧ ∀ x ∈ c, x < 2 ^ b

/-- all `D`-tuples with entries `< m` -/
def grid (m : Nat) : Nat → List (List Nat)
  | 0 => [[]]
  | D+1 => (List.range m).flatMap (fun x => (grid m D).map (x :: ·))

/-- Morton table check: on every grid cell the code is in range and de-interleaves back -/
def mortonOk (D b : Nat) : Bool :=
  (grid (2 ^ b) D).all (fun c => mortonCode b c < 2 ^ (D * b) && deinterleave D b (mortonCode b c) == c)

/-! ### the grid as a list -/

theorem mem_grid {m D : Nat} {c : List Nat} : c ∈ grid m D ↔ c.length = D ∧ ∀ x ∈ c, x < m := by
  induction D generalizing c with
  | zero =>
    simp only [grid, List.mem_singleton, List.length_eq_zero_iff]
    exact ⟨fun h => ⟨h, by simp [h]⟩, fun h => h.1⟩
  | succ D ih =>
    simp only [grid, List.mem_flatMap, List.mem_range, List.mem_map]
    constructor
    · rintro ⟨x, hx, t, ht, rfl⟩
      obtain ⟨h1, h2⟩ := ih.1 ht
      refine ⟨by simp [h1], ?_⟩
      intro y hy
      rcases List.mem_cons.1 hy with rfl | hy'
      · exact hx
      · exact h2 y hy'
    · rintro ⟨hl, hm⟩
      cases c with
      | nil => simp at hl
      | cons x t =>
        exact ⟨x, hm x (List.mem_cons_self ..), t,
          ih.2 ⟨by simpa using hl, fun y hy => hm y (List.mem_cons_of_mem _ hy)⟩, rfl⟩

theorem length_flatMap_const {α β : Type} (l : List α) (f : α → List β) (k : Nat)
    (h : ∀ x ∈ l, (f x).length = k) : (l.flatMap f).length = l.length * k := by
  induction l with
  | nil => simp
  | cons a t ih =>
    rw [List.flatMap_cons, List.length_append, h a (List.mem_cons_self ..),
      ih (fun x hx => h x (List.mem_cons_of_mem _ hx)), List.length_cons, Nat.succ_mul, Nat.add_comm]

theorem length_grid (m D : Nat) : (grid m D).length = m ^ D := by
  induction D with
  | zero => simp [grid]
  | succ D ih =>
    rw [grid, length_flatMap_const _ _ (m ^ D) (by intro x _; rw [List.length_map, ih]),
      List.length_range, Nat.pow_succ, Nat.mul_comm]

/-! ### L1 distance -/

theorem l1_eq_zero {p q : List Nat} (hl : p.length = q.length) (h : l1 p q = 0) : p = q := by
  induction p generalizing q with
  | nil => cases q with
    | nil => rfl
    | cons y ys => simp at hl
  | cons x xs ih =>
    cases q with
    | nil => simp at hl
    | cons y ys =>
      simp only [l1] at h
      have hxy : x = y := by split at h <;> omega
      have ht : l1 xs ys = 0 := by omega
      rw [hxy, ih (by simpa using hl) ht]

/-- L1 distance 1: the two points agree except in one coordinate, where they differ by exactly 1 -/
theorem l1_eq_one {p q : List Nat} (hl : p.length = q.length) (h : l1 p q = 1) :
    ∃ pre x y post, p = pre ++ x :: post ∧ q = pre ++ y :: post ∧ (x + 1 = y ∨ y + 1 = x) := by
  induction p generalizing q with
  | nil => cases q with
    | nil => simp [l1] at h
    | cons y ys => simp at hl
  | cons x xs ih =>
    cases q with
    | nil => simp at hl
    | cons y ys =>
      have hl' : xs.length = ys.length := by simpa using hl
      simp only [l1] at h
      by_cases hxy : x = y
      · subst hxy
        have ht : l1 xs ys = 1 := by simpa using h
        obtain ⟨pre, a, b, post, h1, h2, h3⟩ := ih hl' ht
        exact ⟨x :: pre, a, b, post, by simp [h1], by simp [h2], h3⟩
      · have ht : l1 xs ys = 0 := by split at h <;> omega
        have := l1_eq_zero hl' ht
        subst this
        refine ⟨[], x, y, xs, rfl, rfl, ?_⟩
        split at h <;> omega

theorem chain_get {l : List (List Nat)} (h : chain l = true) (i : Nat) (hi : i + 1 < l.length) :
    l1 l[i] l[i + 1] = 1 := by
  induction l generalizing i with
  | nil => simp at hi
  | cons p t ih =>
    cases t with
    | nil => simp at hi
    | cons q rest =>
      simp only [chain, Bool.and_eq_true, beq_iff_eq] at h
      cases i with
      | zero => simpa using h.1
      | succ k =>
        have := ih h.2 k (by simpa using hi)
        simpa using this

/-! ### from the table check to quantified statements -/

theorem length_curvePts (D b : Nat) : (curvePts D b).length = 2 ^ (D * b) := by
  simp [curvePts]

theorem curvePts_get (D b i : Nat) (hi : i < (curvePts D b).length) :
    (curvePts D b)[i] = hilbertPoint D b i := by
  simp [curvePts]

theorem curveOk_parts {D b : Nat} (h : curveOk D b = true) :
    (curvePts D b).map (hilbertIndex b) = List.range (2 ^ (D * b)) ∧
    (∀ p ∈ curvePts D b, InGrid D b p) ∧ chain (curvePts D b) = true := by
  simp only [curveOk, Bool.and_eq_true, beq_iff_eq, List.all_eq_true, decide_eq_true_eq] at h
  exact ⟨h.1.1, fun p hp => h.1.2 p hp, h.2⟩

theorem curveOk_left_inverse {D b : Nat} (h : curveOk D b = true) :
    ∀ i, i < 2 ^ (D * b) → hilbertIndex b (hilbertPoint D b i) = i := by
  intro i hi
  have h1 := congrArg (fun l => l[i]?) (curveOk_parts h).1
  simpa [curvePts, hi] using h1

theorem curveOk_in_grid {D b : Nat} (h : curveOk D b = true) :
    ∀ i, i < 2 ^ (D * b) → InGrid D b (hilbertPoint D b i) := by
  intro i hi
  exact (curveOk_parts h).2.1 _ (List.mem_map.2 ⟨i, List.mem_range.2 hi, rfl⟩)

theorem curveOk_adjacent {D b : Nat} (h : curveOk D b = true) :
    ∀ i, i + 1 < 2 ^ (D * b) → l1 (hilbertPoint D b i) (hilbertPoint D b (i + 1)) = 1 := by
  intro i hi
  have hi' : i + 1 < (curvePts D b).length := by rw [length_curvePts]; exact hi
  have := chain_get (curveOk_parts h).2.2 i hi'
  rwa [curvePts_get, curvePts_get] at this

/-- pigeonhole: the `2^(D*b)` distinct curve points exhaust the grid of `2^(D*b)` cells -/
theorem curveOk_covers {D b : Nat} (h : curveOk D b = true) {c : List Nat} (hc : InGrid D b c) :
    ∃ i, i < 2 ^ (D * b) ∧ hilbertPoint D b i = c := by
  obtain ⟨h1, h2, _⟩ := curveOk_parts h
  have hnd : (curvePts D b).Nodup := by
    have : ((curvePts D b).map (hilbertIndex b)).Nodup := h1 ▸ List.nodup_range
    exact List.Pairwise.of_map (hilbertIndex b) (fun a b hab e => hab (congrArg _ e)) this
  have hsub : curvePts D b ⊆ grid (2 ^ b) D := fun p hp => mem_grid.2 (h2 p hp)
  have hlen : (grid (2 ^ b) D).length ≤ (curvePts D b).length := by
    rw [length_grid, length_curvePts, Nat.mul_comm, Nat.pow_mul]
    exact Nat.le_refl _
  have hperm := (List.subperm_of_subset hnd hsub).perm_of_length_le hlen
  have hmem : c ∈ curvePts D b := hperm.mem_iff.2 (mem_grid.2 hc)
  obtain ⟨i, hi, rfl⟩ := List.mem_map.1 hmem
  exact ⟨i, List.mem_range.1 hi, rfl⟩

theorem curveOk_right_inverse {D b : Nat} (h : curveOk D b = true) {c : List Nat}
    (hc : InGrid D b c) : hilbertIndex b c < 2 ^ (D * b) ∧ hilbertPoint D b (hilbertIndex b c) = c := by
  obtain ⟨i, hi, rfl⟩ := curveOk_covers h hc
  rw [curveOk_left_inverse h i hi]
  exact ⟨hi, rfl⟩

theorem mortonOk_parts {D b : Nat} (h : mortonOk D b = true) {c : List Nat} (hc : InGrid D b c) :
    mortonCode b c < 2 ^ (D * b) ∧ deinterleave D b (mortonCode b c) = c := by
  simp only [mortonOk, List.all_eq_true, Bool.and_eq_true, decide_eq_true_eq, beq_iff_eq] at h
  exact h c (mem_grid.2 hc)

/-! ### index range, for all inputs -/

theorem interleave_inner_lt (pos : Nat) (t : List Nat) (i k : Nat) (h : i < 2 ^ k) :
    t.foldl (fun i c => (i <<< 1) ||| ((c >>> pos) &&& 1)) i < 2 ^ (k + t.length) := by
  induction t generalizing i k with
  | nil => simpa using h
  | cons c t ih =>
    rw [List.foldl_cons, List.length_cons, ← Nat.add_assoc, Nat.add_right_comm]
    apply ih
    apply Nat.or_lt_two_pow
    · rw [Nat.shiftLeft_eq, Nat.pow_succ]; omega
    · have : (c >>> pos) &&& 1 ≤ 1 := Nat.and_le_right
      have : 1 < 2 ^ (k + 1) := Nat.one_lt_two_pow (by omega)
      omega

theorem interleave_outer_lt (bits : Nat) (t : List Nat) (js : List Nat) (idx k : Nat) (h : idx < 2 ^ k) :
    js.foldl (fun idx j =>
      let pos := bits - 1 - j
      t.foldl (fun i c => (i <<< 1) ||| ((c >>> pos) &&& 1)) idx) idx < 2 ^ (k + js.length * t.length) := by
  induction js generalizing idx k with
  | nil => simpa using h
  | cons j js ih =>
    rw [List.foldl_cons, List.length_cons, Nat.succ_mul, Nat.add_comm (js.length * t.length), ← Nat.add_assoc]
    exact ih _ _ (interleave_inner_lt _ t idx k h)

/-- the interleaved code of ANY coordinate list has at most `bits * length` bits -/
theorem interleave_lt (bits : Nat) (t : List Nat) : interleave bits t < 2 ^ (bits * t.length) := by
  have := interleave_outer_lt bits t (List.range bits) 0 0 (by simp)
  simpa [interleave] using this

theorem foldl_snd_length {α β : Type} (step : Nat × List β → α → Nat × List β)
    (hs : ∀ acc c, (step acc c).2.length = acc.2.length + 1) (rest : List α) (acc : Nat × List β) :
    (rest.foldl step acc).2.length = acc.2.length + rest.length := by
  induction rest generalizing acc with
  | nil => simp
  | cons c rest ih => rw [List.foldl_cons, ih, hs, List.length_cons]; omega

theorem length_axesPass (mask : Nat) (t : List Nat) : (axesPass mask t).length = t.length := by
  cases t with
  | nil => rfl
  | cons t0 rest =>
    simp only [axesPass, List.length_cons, List.length_reverse]
    rw [foldl_snd_length]
    · simp
    · intro acc c
      split <;> simp

theorem length_axesToTranspose (bits : Nat) (t : List Nat) : (axesToTranspose bits t).length = t.length := by
  unfold axesToTranspose
  generalize List.range (bits - 1) = js
  induction js generalizing t with
  | nil => rfl
  | cons j js ih => rw [List.foldl_cons, ih, length_axesPass]

theorem length_prefixXor (prev : Nat) (t : List Nat) : (prefixXor prev t).length = t.length := by
  induction t generalizing prev with
  | nil => rfl
  | cons c t ih => simp [prefixXor, ih]

theorem length_grayEncode (t : List Nat) : (grayEncode t).length = t.length := by
  cases t with
  | nil => rfl
  | cons c t => simp [grayEncode, length_prefixXor]

/-- the Hilbert index of ANY coordinate list has at most `bits * length` bits -/
theorem hilbertIndex_lt (bits : Nat) (c : List Nat) : hilbertIndex bits c < 2 ^ (bits * c.length) := by
  have := interleave_lt bits ((grayEncode (axesToTranspose bits c)).map
    (· ^^^ grayMask bits ((grayEncode (axesToTranspose bits c)).getLastD 0)))
  simpa [hilbertIndex, length_grayEncode, length_axesToTranspose] using this

end DM.HilbertAux
