//! Shared pieces of the correspondence harness: PRNG, hex-float I/O, case writer, export of a
//! triangulation through the *public* API (cells, vertices, neighbours read back as a user would).
#![allow(dead_code)]

use delaunay::core::traits::data_type::DataType;
use delaunay::core::triangulation_data_structure::{CellKey, Tds, VertexKey};
use delaunay::geometry::kernel::Kernel;
use delaunay::prelude::DelaunayTriangulation;
use std::collections::HashMap;
use std::fmt::Write as _;
use uuid::Uuid;

/// SplitMix64: every random choice in a run derives from one of these, seeded from VERIF_SEED.
#[derive(Clone, Debug)]
pub struct Rng(pub u64);

impl Rng {
    pub fn new(seed: u64) -> Self {
        Rng(seed ^ 0x9E37_79B9_7F4A_7C15)
    }
    pub fn next(&mut self) -> u64 {
        self.0 = self.0.wrapping_add(0x9E37_79B9_7F4A_7C15);
        let mut z = self.0;
        z = (z ^ (z >> 30)).wrapping_mul(0xBF58_476D_1CE4_E5B9);
        z = (z ^ (z >> 27)).wrapping_mul(0x94D0_49BB_1331_11EB);
        z ^ (z >> 31)
    }
    /// uniform in 0..n (n > 0)
    pub fn below(&mut self, n: u64) -> u64 {
        self.next() % n
    }
    /// uniform integer in lo..=hi
    pub fn range(&mut self, lo: i64, hi: i64) -> i64 {
        lo + (self.next() % ((hi - lo + 1) as u64)) as i64
    }
    pub fn chance(&mut self, num: u64, den: u64) -> bool {
        self.below(den) < num
    }
    pub fn fork(&mut self) -> Rng {
        Rng(self.next())
    }
    pub fn shuffle<T>(&mut self, v: &mut [T]) {
        for i in (1..v.len()).rev() {
            let j = self.below(i as u64 + 1) as usize;
            v.swap(i, j);
        }
    }
    pub fn pick<'a, T>(&mut self, v: &'a [T]) -> &'a T {
        &v[self.below(v.len() as u64) as usize]
    }
    /// deterministic uuid from the stream
    pub fn uuid(&mut self) -> Uuid {
        let a = self.next();
        let b = self.next();
        let mut bytes = [0u8; 16];
        bytes[..8].copy_from_slice(&a.to_le_bytes());
        bytes[8..].copy_from_slice(&b.to_le_bytes());
        uuid::Builder::from_random_bytes(bytes).into_uuid()
    }
}

pub fn hx(f: f64) -> String {
    format!("{:016x}", f.to_bits())
}

pub fn hxs(c: &[f64]) -> String {
    let mut s = String::new();
    for (i, x) in c.iter().enumerate() {
        if i > 0 {
            s.push(' ');
        }
        s.push_str(&hx(*x));
    }
    s
}

/// Stable small integers for UUIDs across one case/history.
#[derive(Default, Clone)]
pub struct Ids {
    map: HashMap<Uuid, usize>,
}
impl Ids {
    pub fn id(&mut self, u: Uuid) -> usize {
        let n = self.map.len();
        *self.map.entry(u).or_insert(n)
    }
    pub fn get(&self, u: &Uuid) -> Option<usize> {
        self.map.get(u).copied()
    }
    pub fn len(&self) -> usize {
        self.map.len()
    }
}

/// Accumulates the request/observation lines for the Lean driver.
pub struct Out {
    pub buf: String,
    pub ncases: usize,
    /// `--only <case id>`: emit just that case (replay)
    pub only: Option<String>,
    emit: bool,
}
impl Out {
    pub fn new() -> Self {
        Out {
            buf: String::new(),
            ncases: 0,
            only: None,
            emit: true,
        }
    }
    pub fn case(&mut self, id: &str, kind: &str, args: &str) {
        self.emit = self.only.as_deref().is_none_or(|o| o == id);
        if !self.emit {
            return;
        }
        self.ncases += 1;
        let _ = writeln!(self.buf, "case {id} {kind} {args}");
    }
    pub fn line(&mut self, s: &str) {
        if !self.emit {
            return;
        }
        self.buf.push_str(s);
        self.buf.push('\n');
    }
    pub fn obs(&mut self, name: &str, val: &str) {
        if !self.emit {
            return;
        }
        let _ = writeln!(self.buf, "obs {name} {val}");
    }
    pub fn end(&mut self) {
        if !self.emit {
            return;
        }
        self.buf.push_str("end\n");
    }
}

pub fn data_tok<U: std::fmt::Debug>(d: &Option<U>) -> String {
    match d {
        None => "-".to_string(),
        Some(x) => format!("{x:?}").replace(' ', "_"),
    }
}

/// Export a Tds as `v`/`c` lines under a block tag (`tag` distinguishes several complexes in one
/// case).  Vertex and cell ids are the harness's small integers for their UUIDs.
pub fn export_tds<U, V, const D: usize>(
    tds: &Tds<f64, U, V, D>,
    ids: &mut Ids,
    tag: &str,
    out: &mut Out,
) where
    U: DataType,
    V: DataType,
{
    let mut vk: HashMap<VertexKey, usize> = HashMap::new();
    let mut vlines: Vec<(usize, String)> = Vec::new();
    for (k, v) in tds.vertices() {
        let id = ids.id(v.uuid());
        vk.insert(k, id);
        let inc = match v.incident_cell {
            None => "-".to_string(),
            Some(ck) => match tds.get_cell(ck) {
                Some(c) => ids.id(c.uuid()).to_string(),
                None => "x".to_string(),
            },
        };
        vlines.push((
            id,
            format!(
                "{tag}v {id} {} i {inc} d {}",
                hxs(v.point().coords()),
                data_tok(&v.data)
            ),
        ));
    }
    vlines.sort();
    let mut ck: HashMap<CellKey, usize> = HashMap::new();
    for (k, c) in tds.cells() {
        ck.insert(k, ids.id(c.uuid()));
    }
    let mut clines: Vec<(usize, String)> = Vec::new();
    for (k, c) in tds.cells() {
        let id = ck[&k];
        let mut s = format!("{tag}c {id}");
        for v in c.vertices() {
            match vk.get(v) {
                Some(i) => {
                    let _ = write!(s, " {i}");
                }
                None => s.push_str(" x"),
            }
        }
        s.push_str(" n");
        match c.neighbors() {
            None => s.push_str(" none"),
            Some(nb) => {
                for n in nb.iter() {
                    match n {
                        None => s.push_str(" -"),
                        Some(nk) => match ck.get(nk) {
                            Some(i) => {
                                let _ = write!(s, " {i}");
                            }
                            None => s.push_str(" x"),
                        },
                    }
                }
            }
        }
        let _ = write!(s, " d {}", data_tok(&c.data));
        clines.push((id, s));
    }
    clines.sort();
    out.line(&format!("{tag}D {D}"));
    for (_, l) in vlines {
        out.line(&l);
    }
    for (_, l) in clines {
        out.line(&l);
    }
}

pub fn export_dt<K, U, V, const D: usize>(
    dt: &DelaunayTriangulation<K, U, V, D>,
    ids: &mut Ids,
    tag: &str,
    out: &mut Out,
) where
    K: Kernel<D, Scalar = f64>,
    U: DataType,
    V: DataType,
{
    export_tds(dt.tds(), ids, tag, out);
}

/// Canonical fingerprint of everything the public API shows (C03 "exactly as it was").
pub fn fingerprint<U, V, const D: usize>(tds: &Tds<f64, U, V, D>) -> String
where
    U: DataType,
    V: DataType,
{
    fingerprint_opt(tds, true)
}

/// `with_cell_data = false`: user data of cells is left out (cells that an operation destroys and
/// re-creates legitimately lose it; which cells those are depends on the internal flip sequence)
pub fn fingerprint_opt<U, V, const D: usize>(tds: &Tds<f64, U, V, D>, with_cell_data: bool) -> String
where
    U: DataType,
    V: DataType,
{
    let mut vs: Vec<String> = tds
        .vertices()
        .map(|(_, v)| {
            format!(
                "{}:{}:{}",
                v.uuid(),
                hxs(v.point().coords()),
                data_tok(&v.data)
            )
        })
        .collect();
    vs.sort();
    let vu: HashMap<VertexKey, Uuid> = tds.vertices().map(|(k, v)| (k, v.uuid())).collect();
    let cell_sig = |k: CellKey| -> String {
        match tds.get_cell(k) {
            None => "?".into(),
            Some(c) => {
                let mut us: Vec<String> = c
                    .vertices()
                    .iter()
                    .map(|v| vu.get(v).map_or("?".into(), |u| u.to_string()))
                    .collect();
                us.sort();
                us.join(",")
            }
        }
    };
    let mut cs: Vec<String> = Vec::new();
    for (k, c) in tds.cells() {
        let mut nb: Vec<String> = match c.neighbors() {
            None => vec![],
            Some(nb) => nb
                .iter()
                .map(|n| n.map_or("-".into(), |nk| cell_sig(nk)))
                .collect(),
        };
        nb.sort();
        cs.push(format!(
            "[{}]d{}n{{{}}}",
            cell_sig(k),
            if with_cell_data { data_tok(&c.data) } else { "*".to_string() },
            nb.join("|")
        ));
    }
    cs.sort();
    format!(
        "V{}#{} C{}#{}",
        vs.len(),
        vs.join(";"),
        cs.len(),
        cs.join(";")
    )
}

/// FNV-1a 64 for compact fingerprints in evidence
pub fn fnv(s: &str) -> u64 {
    let mut h: u64 = 0xcbf29ce484222325;
    for b in s.as_bytes() {
        h ^= *b as u64;
        h = h.wrapping_mul(0x100000001b3);
    }
    h
}

pub fn catch<T>(f: impl FnOnce() -> T) -> Result<T, String> {
    let r = std::panic::catch_unwind(std::panic::AssertUnwindSafe(f));
    match r {
        Ok(v) => Ok(v),
        Err(e) => {
            let msg = if let Some(s) = e.downcast_ref::<&str>() {
                (*s).to_string()
            } else if let Some(s) = e.downcast_ref::<String>() {
                s.clone()
            } else {
                "panic".to_string()
            };
            Err(msg.replace(['\n', ' '], "_"))
        }
    }
}
