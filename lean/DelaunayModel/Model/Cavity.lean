/-
Model/Cavity.lean — the core step of incremental insertion on the abstract complex: remove a set
`C` of cells (the conflict region / cavity) and fill the hole with the cone from the new vertex `v`
over a set `F` of facets.

Mirrors the cell-set edit of `Triangulation::insert_with_conflict_region` and of the hull extension
(src/core/triangulation.rs, src/core/algorithms/incremental_insertion.rs):
  interior point : `F` = the boundary facets of the conflict region (`cavityBoundary C`);
  exterior point : `F` = `cavityBoundary C` with the visible hull facets exchanged (a visible hull
                   facet on the boundary of `C` disappears, a visible hull facet of a kept cell is
                   coned) — the symmetric difference of `cavityBoundary C` and the visible facets.
As in Model/Flip.lean a cell is the SET of its vertex ids, a sorted duplicate-free `List Nat`, and a
complex is a list of cells.  `cavityStepProblem` reconstructs `C` and `F` from an observed
(before, after) pair of cell sets and says whether the step was a legal cavity / hull insertion.
Theorems: Props/C02.lean (§ cavity), helpers in Lemmas/CavityAux.lean.
-/
import DelaunayModel.Model.Flip
namespace DM

/-- facets of the removed region that lie on its boundary: facets of cells of `C` that occur exactly
once among the facets of `C` (such a facet occurs once in `cellFacets C`, so the list is
duplicate-free) -/
def cavityBoundary (C : List (List Nat)) : List (List Nat) :=
  let fs := cellFacets C   -- computed once; `fs.count f` is `facetCount C f`
  fs.filter (fun f => fs.count f == 1)

/-- the cone cell over a facet -/
def coneCell (v : Nat) (f : List Nat) : List Nat := sortNat (v :: f)

/-- cavity insertion: drop the cells of `C`, add the cone from `v` over `F` -/
def cavityInsertWith (cells C F : List (List Nat)) (v : Nat) : List (List Nat) :=
  cells.filter (fun c => !C.contains c) ++ F.map (coneCell v)

/-- the interior instance: cone over the boundary of the removed region -/
def cavityInsert (cells C : List (List Nat)) (v : Nat) : List (List Nat) :=
  cavityInsertWith cells C (cavityBoundary C) v

/-- how many facets of `F` contain the ridge `r` (as `f` minus one vertex) -/
def ridgeCount (F : List (List Nat)) (r : List Nat) : Nat := facetCount F r

/-- the cells containing `v` -/
def starOf (cells : List (List Nat)) (v : Nat) : List (List Nat) := cells.filter (·.contains v)

/-- the link of `v`: its star with `v` removed from every cell -/
def linkOf (cells : List (List Nat)) (v : Nat) : List (List Nat) :=
  (starOf cells v).map (fun c => without c v)

/-- removed cells of an observed step -/
def stepRemoved (pre post : List (List Nat)) : List (List Nat) :=
  pre.filter (fun c => !post.contains c)

/-- created cells of an observed step -/
def stepCreated (pre post : List (List Nat)) : List (List Nat) :=
  post.filter (fun c => !pre.contains c)

/-- the facets the created cells were coned over -/
def stepLink (pre post : List (List Nat)) (v : Nat) : List (List Nat) :=
  (stepCreated pre post).map (fun c => without c v)

/-- duplicate-freeness as a plain `Bool` recursion (`decide l.Nodup` is re-evaluated inside loops by
the compiled code) -/
def nodupB : List (List Nat) → Bool
  | [] => true
  | x :: xs => !xs.contains x && nodupB xs

/-- executable reconstruction from an observed step: given the cell set before and after one
successful insertion of the NEW vertex id `v`, `none` if the step is a legal cavity / hull insertion
and `some reason` otherwise.  With `C := pre \ post`, `N := post \ pre`, `L := N.map (· \ {v})`:
 (1) no cell of `pre` contains `v`, `N` is not empty and every cell of `N` contains `v`;
 (2) `L` is duplicate-free;
 (3) a facet of `cavityBoundary C` that is not in `L` is a boundary (degree 1) facet of `pre`
     (a visible hull facet that disappears); a facet of `L` that is not in `cavityBoundary C` is a
     boundary facet of `pre` whose only cell is outside `C` (a visible hull facet that is coned);
 (4) `post` and `cavityInsertWith pre C L v` have the same cells. -/
def cavityStepProblem (pre post : List (List Nat)) (v : Nat) : Option String :=
  let C := stepRemoved pre post
  let N := stepCreated pre post
  let L := stepLink pre post v
  let B := cavityBoundary C
  let ins := cavityInsertWith pre C L v
  let preF := cellFacets pre   -- computed once; `preF.count f` is `facetCount pre f`
  let cF := cellFacets C
  if pre.any (·.contains v) then
    some s!"vertex {v} is not new: a cell before the insertion contains it"
  else if N.isEmpty then
    some s!"no cell was created: the inserted vertex {v} is in no cell"
  else if !N.all (·.contains v) then
    some s!"a created cell does not contain the inserted vertex {v}: {N.filter (fun c => !c.contains v)}"
  else if !nodupB L then
    some s!"two created cells cone the same facet (link facets of {v} not distinct): {L}"
  else if !B.all (fun f => L.contains f || preF.count f == 1) then
    some s!"boundary facet of the removed region neither coned nor a hull facet: {B.filter (fun f => !(L.contains f || preF.count f == 1))}"
  else if !L.all (fun f => B.contains f || (preF.count f == 1 && cF.count f == 0)) then
    some s!"coned facet is neither a boundary facet of the removed region nor a hull facet of a kept cell: {L.filter (fun f => !(B.contains f || (preF.count f == 1 && cF.count f == 0)))}"
  else if !(post.all ins.contains && ins.all post.contains) then
    some s!"cells after the insertion differ from the cavity insertion of {v} (removed {C}, coned {L})"
  else none

end DM
