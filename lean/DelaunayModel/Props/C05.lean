/-
Props/C05.lean — property theorems for C05 (the validation levels say what they check, and each
level rejects the single faults it owns).

 * §1  `checkL1_iff`: Level 1 (`Vertex::is_valid`, `Cell::is_valid`) = `SpecL1`.
 * §2  one `_iff` per Level-2 component (`Tds::is_valid`) and `checkL2_iff : checkL2 = SpecL2`;
       `facetKey_eq_iff`: a facet key identifies the vertex multiset of the facet.
 * §3  Level-3 component specs (`facetDegOk_iff`, `noIsolated_iff`, `closedBoundary_iff`,
       `eulerOk_iff`, `facetDegOk_implies_facetLe2`, `checkL3_iff`).
 * §4  the cumulative validators are conjunctions of the levels (`tdsValidate_iff`,
       `triValidate_iff`), and the completion-time check only adds the vertex-link condition
       (`triValidate_implies_isValid`, `checkL3_completion_iff`).
 * §5  single-fault rejection theorems `reject_*` (for ANY complex `K`).
 * §6  non-vacuity: a concrete valid two-triangle complex and a corrupted copy.
 * §7  connectivity: `connected_iff` (`connected` = every stored cell is `Reach`able from the first
       one), via `reachFuel_sound` / `reachFuel_complete` / `reachFuel_nodup`; examples.
 * §8  ridge links: `linkGraphOk_iff` (= `LinkGraphSpec`: path-connected, degree ≤ 2, 0 or 2
       degree-1 vertices), `ridgeLinksOk_iff`, `reject_ridge_link_*`; star / bow-tie examples.
       (helpers for §7/§8: Lemmas/ReachAux.lean, Lemmas/LinkAux.lean, core-only as well)
 * §9  vertex links: `mem_vertexLink_iff`, `vertexLinkOk_D1_iff`, `vertexLinkOk_D2_iff`
       (= `LinkGraphSpec` of the link edges with 0 / 2 degree-1 vertices), for `D ≥ 3`
       `linkSkeletonConnected_iff`, `linkFacetsOk_iff` (= `LinkFacetsSpec`), `vertexLinkOk_ge3_iff`
       (`surfaceChi` / `surfaceBoundaryComponents` kept executable), `vertexLinksOk_iff`,
       `reject_isolated_vertex_links`, `checkL3_false_of_vertexLinks`; fan / bow-tie / subdivided
       tetrahedron / pinched examples.  (helpers: Lemmas/VertexLinkAux.lean, core-only)

Helper lemmas live in Lemmas/CxAux.lean.  Everything here is core-only.
-/
import DelaunayModel.Lemmas.CxAux
import DelaunayModel.Lemmas.ReachAux
import DelaunayModel.Lemmas.LinkAux
import DelaunayModel.Lemmas.VertexLinkAux
namespace DM.C05

open DM

/-! ## §1 Level 1 -/

/-- every vertex has `D` finite coordinates; every cell has `D+1` pairwise distinct vertex slots
and, if it has a neighbour buffer, `D+1` neighbour slots -/
def SpecL1 (K : Cx) : Prop :=
  (∀ v ∈ K.verts, ∃ p, v.pt = some p ∧ p.length = K.D) ∧
  (∀ c ∈ K.cells, c.vs.length = K.D + 1 ∧ c.vs.Nodup ∧ ∀ l, c.nb = some l → l.length = K.D + 1)

theorem checkL1_iff (K : Cx) : checkL1 K = true ↔ SpecL1 K := by
  unfold checkL1 SpecL1
  simp only [Bool.and_eq_true, List.all_eq_true, Vtx.okL1_iff, Cell.okL1_iff]

/-! ## §2 Level 2 -/

theorem idsUnique_iff (K : Cx) :
    idsUnique K = true ↔ (K.verts.map (·.id)).Nodup ∧ (K.cells.map (·.id)).Nodup := by
  unfold idsUnique
  simp only [Bool.and_eq_true, decide_eq_true_eq]

theorem vertsExist_iff (K : Cx) :
    vertsExist K = true ↔ ∀ c ∈ K.cells, ∀ v ∈ c.vs, ∃ x ∈ K.verts, x.id = v := by
  unfold vertsExist
  simp only [List.all_eq_true, Cx.hasVertex_iff]

theorem incidentOk_iff (K : Cx) :
    incidentOk K = true ↔
      ∀ v ∈ K.verts, ∀ k, v.inc = some k → ∃ c, K.cellById k = some c ∧ v.id ∈ c.vs := by
  unfold incidentOk
  rw [List.all_eq_true]
  refine forall_congr' fun v => imp_congr Iff.rfl ?_
  cases hv : v.inc with
  | none => simp
  | some k =>
    simp only [Option.some.injEq, forall_eq']
    cases hc : K.cellById k <;> simp

theorem noDupCells_iff (K : Cx) : noDupCells K = true ↔ (K.cells.map cellKey).Nodup := by
  unfold noDupCells
  simp only [decide_eq_true_eq]

theorem facetLe2_iff (K : Cx) : facetLe2 K = true ↔ ∀ f ∈ allFacets K, facetDeg K f.1 ≤ 2 := by
  unfold facetLe2
  simp only [List.all_eq_true, decide_eq_true_eq]

/-- what the entries of `allFacets` are: one triple per (cell, slot) -/
theorem mem_allFacets_iff (K : Cx) (f : List Nat × Nat × Nat) :
    f ∈ allFacets K ↔ ∃ c ∈ K.cells, ∃ i, i < c.vs.length ∧ f = (facetKey c i, c.id, i) :=
  mem_allFacets

/-- what the entries of `facetOthers K c i` are: the (cell id, slot) pairs, other than
`(c.id, i)` itself, whose facet has the same key -/
theorem mem_facetOthers_iff (K : Cx) (c : Cell) (i : Nat) (p : Nat × Nat) :
    p ∈ facetOthers K c i ↔
      ∃ c' ∈ K.cells, ∃ j, j < c'.vs.length ∧ p = (c'.id, j) ∧
        facetKey c' j = facetKey c i ∧ ¬ (c'.id = c.id ∧ j = i) :=
  mem_facetOthers

/-- with unique cell ids, `cellById` is exactly "the stored cell with that id" -/
theorem cellById_iff (K : Cx) (hnd : (K.cells.map (·.id)).Nodup) (k : Nat) (c : Cell) :
    K.cellById k = some c ↔ c ∈ K.cells ∧ c.id = k :=
  Cx.cellById_iff hnd k c

/-- with unique cell ids, the degree of a facet is one more than the number of other carriers -/
theorem facetDeg_eq_facetOthers_length (K : Cx) (hnd : (K.cells.map (·.id)).Nodup) (c : Cell)
    (hc : c ∈ K.cells) (i : Nat) (hi : i < c.vs.length) :
    facetDeg K (facetKey c i) = (facetOthers K c i).length + 1 :=
  DM.facetDeg_eq_facetOthers_length hnd hc hi

/-- so the first alternative of `NbrSlotSpec` is "boundary facet" … -/
theorem facetOthers_nil_iff (K : Cx) (hnd : (K.cells.map (·.id)).Nodup) (c : Cell)
    (hc : c ∈ K.cells) (i : Nat) (hi : i < c.vs.length) :
    facetOthers K c i = [] ↔ facetDeg K (facetKey c i) = 1 := by
  rw [facetDeg_eq_facetOthers_length K hnd c hc i hi, ← List.length_eq_zero_iff]
  omega

/-- … and the second is "interior facet shared by exactly two cells" -/
theorem facetOthers_singleton_iff (K : Cx) (hnd : (K.cells.map (·.id)).Nodup) (c : Cell)
    (hc : c ∈ K.cells) (i : Nat) (hi : i < c.vs.length) :
    (∃ p, facetOthers K c i = [p]) ↔ facetDeg K (facetKey c i) = 2 := by
  rw [facetDeg_eq_facetOthers_length K hnd c hc i hi, ← List.length_eq_one_iff]
  omega

/-- slot `i` of `c`: either no other (cell, slot) carries the same facet key and the neighbour
slot is empty, or exactly one other pair `(c', j)` does, the slot names `c'`, cell `c'` exists
and its slot `j` points back to `c` -/
def NbrSlotSpec (K : Cx) (c : Cell) (i : Nat) : Prop :=
  (facetOthers K c i = [] ∧ nbSlot c i = none) ∨
  (∃ c' j, facetOthers K c i = [(c', j)] ∧ nbSlot c i = some c' ∧
    ∃ n, K.cellById c' = some n ∧ nbSlot n j = some c.id)

theorem nbrSlotOk_iff (K : Cx) (c : Cell) (i : Nat) :
    nbrSlotOk K c i = true ↔ NbrSlotSpec K c i := by
  unfold nbrSlotOk NbrSlotSpec
  split
  · rename_i h
    simp [h]
  · rename_i c' j h
    constructor
    · intro hh
      rw [Bool.and_eq_true] at hh
      cases hn : K.cellById c' with
      | none =>
        simp only [hn] at hh
        exact absurd hh.2 Bool.false_ne_true
      | some n =>
        simp only [hn, beq_iff_eq] at hh
        exact Or.inr ⟨c', j, h, hh.1, n, hn, hh.2⟩
    · rintro (⟨h0, _⟩ | ⟨c'', j', h', hs, n, hn, hb⟩)
      · rw [h] at h0
        cases h0
      · rw [h] at h'
        cases h'
        simp only [hs, hn, hb, beq_self_eq_true, Bool.and_self]
  · rename_i h1 h2
    constructor
    · intro h
      cases h
    · rintro (⟨h, _⟩ | ⟨c', j, h, _⟩)
      · exact absurd h h1
      · exact absurd h (h2 c' j)

theorem nbrOk_iff (K : Cx) :
    nbrOk K = true ↔
      ∀ c ∈ K.cells, (∀ l, c.nb = some l → l.length = K.D + 1) ∧
        ∀ i, i < c.vs.length → NbrSlotSpec K c i := by
  unfold nbrOk
  simp only [List.all_eq_true, Bool.and_eq_true, List.mem_range, nbrSlotOk_iff]
  refine forall_congr' fun c => imp_congr Iff.rfl (and_congr ?_ Iff.rfl)
  exact nbLenOk_iff K.D c.nb

/-- `mirrorIdx c i n = some j`: slot `j` of `n` holds the one and only vertex of `n` that is not
in the facet of `c` opposite slot `i` -/
theorem mirrorIdx_eq_some_iff (c : Cell) (i : Nat) (n : Cell) (j : Nat) :
    mirrorIdx c i n = some j ↔
      j < n.vs.length ∧ n.vs.getD j 0 ∉ c.vs.eraseIdx i ∧
      ∀ j', j' < n.vs.length → n.vs.getD j' 0 ∉ c.vs.eraseIdx i → j' = j :=
  mirrorIdx_eq_some c i n j

/-- slot `i` of `c`, if it names a neighbour `k`: cell `k` exists, has exactly one vertex (at slot
`j`) outside the shared facet, its slot `j` points back to `c`, and the permutation taking the
facet in `c`'s slot order to the facet in `k`'s slot order is odd exactly when `i + j` is even
(the two cells induce opposite orientations on the shared facet) -/
def CoherentSlotSpec (K : Cx) (c : Cell) (i : Nat) : Prop :=
  ∀ k, nbSlot c i = some k →
    ∃ n j odd, K.cellById k = some n ∧ mirrorIdx c i n = some j ∧ nbSlot n j = some c.id ∧
      permOdd (c.vs.eraseIdx i) (n.vs.eraseIdx j) = some odd ∧ (odd = true ↔ (i + j) % 2 = 0)

theorem coherentSlot_iff (K : Cx) (c : Cell) (i : Nat) :
    coherentSlot K c i = true ↔ CoherentSlotSpec K c i := by
  unfold coherentSlot CoherentSlotSpec
  cases hk : nbSlot c i with
  | none => simp
  | some k =>
    simp only [Option.some.injEq, forall_eq']
    cases hn : K.cellById k with
    | none => simp
    | some n =>
      dsimp only
      cases hj : mirrorIdx c i n with
      | none =>
        simp only [Bool.false_eq_true, false_iff]
        rintro ⟨n', j', odd, hn', hj', _⟩
        cases hn'
        rw [hj] at hj'
        cases hj'
      | some j =>
        dsimp only
        cases ho : permOdd (c.vs.eraseIdx i) (n.vs.eraseIdx j) with
        | none =>
          simp only [Bool.and_false, Bool.false_eq_true, false_iff]
          rintro ⟨n', j', odd, hn', hj', _, ho', _⟩
          cases hn'
          rw [hj] at hj'
          cases hj'
          rw [ho] at ho'
          cases ho'
        | some odd =>
          simp only [Bool.and_eq_true, beq_iff_eq]
          constructor
          · rintro ⟨hb, hodd⟩
            exact ⟨n, j, odd, rfl, hj, hb, ho, (oddParity_iff odd (i + j)).1 hodd⟩
          · rintro ⟨n', j', odd', hn', hj', hb, ho', hodd⟩
            cases hn'
            rw [hj] at hj'
            cases hj'
            rw [ho] at ho'
            cases ho'
            exact ⟨hb, (oddParity_iff odd (i + j)).2 hodd⟩

theorem coherent_iff (K : Cx) :
    coherent K = true ↔ ∀ c ∈ K.cells, ∀ i, i < c.vs.length → CoherentSlotSpec K c i := by
  unfold coherent
  rw [List.all_eq_true]
  refine forall_congr' fun c => imp_congr Iff.rfl ?_
  cases hnb : c.nb with
  | none =>
    simp only [true_iff]
    intro i _ k hk
    rw [nbSlot_of_nb_none hnb] at hk
    cases hk
  | some l => simp only [List.all_eq_true, List.mem_range, coherentSlot_iff]

/-- Level 2 (`Tds::is_valid`) in declarative form -/
def SpecL2 (K : Cx) : Prop :=
  ((K.verts.map (·.id)).Nodup ∧ (K.cells.map (·.id)).Nodup) ∧
  (∀ c ∈ K.cells, ∀ v ∈ c.vs, ∃ x ∈ K.verts, x.id = v) ∧
  (∀ v ∈ K.verts, ∀ k, v.inc = some k → ∃ c, K.cellById k = some c ∧ v.id ∈ c.vs) ∧
  (K.cells.map cellKey).Nodup ∧
  (∀ f ∈ allFacets K, facetDeg K f.1 ≤ 2) ∧
  (∀ c ∈ K.cells, (∀ l, c.nb = some l → l.length = K.D + 1) ∧
    ∀ i, i < c.vs.length → NbrSlotSpec K c i) ∧
  (∀ c ∈ K.cells, ∀ i, i < c.vs.length → CoherentSlotSpec K c i)

theorem checkL2_iff (K : Cx) : checkL2 K = true ↔ SpecL2 K := by
  unfold checkL2 SpecL2
  simp only [Bool.and_eq_true, idsUnique_iff, vertsExist_iff, incidentOk_iff, noDupCells_iff,
    facetLe2_iff, nbrOk_iff, coherent_iff, and_assoc]

/-- a facet key identifies the vertex multiset of the facet (for duplicate-free cells: the set) -/
theorem facetKey_eq_iff (c c' : Cell) (i j : Nat) :
    facetKey c i = facetKey c' j ↔ (c.vs.eraseIdx i).Perm (c'.vs.eraseIdx j) :=
  sortNat_eq_iff_perm _ _

theorem cellKey_eq_iff (c c' : Cell) : cellKey c = cellKey c' ↔ c.vs.Perm c'.vs :=
  sortNat_eq_iff_perm _ _

/-! ## §3 Level 3 components -/

theorem facetDegOk_iff (K : Cx) :
    facetDegOk K = true ↔ ∀ f ∈ allFacets K, facetDeg K f.1 = 1 ∨ facetDeg K f.1 = 2 := by
  unfold facetDegOk
  simp only [List.all_eq_true, Bool.or_eq_true, beq_iff_eq]

theorem noIsolated_iff (K : Cx) :
    noIsolated K = true ↔ ∀ v ∈ K.verts, ∃ c ∈ K.cells, v.id ∈ c.vs := by
  unfold noIsolated
  simp only [List.all_eq_true, List.any_eq_true, List.contains_iff_mem]

/-- a key is a boundary facet iff it is the key of some (cell, slot) and exactly one carries it -/
theorem mem_boundaryFacets_iff (K : Cx) (k : List Nat) :
    k ∈ boundaryFacets K ↔ (∃ f ∈ allFacets K, f.1 = k) ∧ facetDeg K k = 1 :=
  mem_boundaryFacets

theorem mem_dropEach_iff (l r : List Nat) :
    r ∈ dropEach l ↔ ∃ i, i < l.length ∧ r = l.eraseIdx i :=
  mem_dropEach

/-- the boundary is closed: in dimension ≥ 2 every ridge obtained by dropping one vertex from a
boundary facet occurs exactly twice in the multiset of all such ridges -/
theorem closedBoundary_iff (K : Cx) :
    closedBoundary K = true ↔
      K.D < 2 ∨ ∀ r ∈ (boundaryFacets K).flatMap dropEach,
        ((boundaryFacets K).flatMap dropEach).count r = 2 := by
  unfold closedBoundary
  by_cases h : K.D < 2
  · simp [h]
  · simp only [h, if_false, false_or, List.all_eq_true, beq_iff_eq]

theorem eulerOk_iff (K : Cx) : eulerOk K = true ↔ eulerChi (fVector K) = expectedChi K := by
  unfold eulerOk
  simp only [beq_iff_eq]

theorem facetDegOk_implies_facetLe2 (K : Cx) : facetDegOk K = true → facetLe2 K = true := by
  rw [facetDegOk_iff, facetLe2_iff]
  intro h f hf
  rcases h f hf with h | h <;> omega

/-- Level 3 is the conjunction of its components (which ones depends on the guarantee) -/
theorem checkL3_iff (K : Cx) (g : Guarantee) (completion : Bool) :
    checkL3 K g completion = true ↔
      connected K = true ∧
      (∀ f ∈ allFacets K, facetDeg K f.1 = 1 ∨ facetDeg K f.1 = 2) ∧
      (K.D < 2 ∨ ∀ r ∈ (boundaryFacets K).flatMap dropEach,
        ((boundaryFacets K).flatMap dropEach).count r = 2) ∧
      (g ≥ 1 → ridgeLinksOk K = true) ∧
      ((g ≥ 2 ∨ (g ≥ 1 ∧ completion = true)) → vertexLinksOk K = true) ∧
      (∀ v ∈ K.verts, ∃ c ∈ K.cells, v.id ∈ c.vs) ∧
      eulerChi (fVector K) = expectedChi K ∧
      geomOrientOk K = true := by
  unfold checkL3
  simp only [Bool.and_eq_true, facetDegOk_iff, closedBoundary_iff, noIsolated_iff, eulerOk_iff,
    and_assoc]
  refine and_congr Iff.rfl (and_congr Iff.rfl (and_congr Iff.rfl (and_congr ?_ (and_congr ?_
    Iff.rfl))))
  · by_cases h : g ≥ 1 <;> simp [h]
  · by_cases h : (g ≥ 2 ∨ (g ≥ 1 ∧ completion = true))
    · have : (decide (g ≥ 2) || (decide (g ≥ 1) && completion)) = true := by simpa using h
      simp [this, h]
    · have : (decide (g ≥ 2) || (decide (g ≥ 1) && completion)) = false := by
        rw [← Bool.not_eq_true]; simpa using h
      simp [this, h]

/-! ## §4 cumulative validators -/

/-- `Tds::validate` = Level 1 then Level 2 -/
def tdsValidate (K : Cx) : Bool := checkL1 K && checkL2 K

/-- `Triangulation::validate` = Levels 1–3, Level 3 with the completion-time vertex-link check -/
def triValidate (K : Cx) (g : Guarantee) : Bool := checkL1 K && checkL2 K && checkL3 K g true

theorem tdsValidate_iff (K : Cx) : tdsValidate K = true ↔ SpecL1 K ∧ SpecL2 K := by
  unfold tdsValidate
  rw [Bool.and_eq_true, checkL1_iff, checkL2_iff]

theorem triValidate_iff (K : Cx) (g : Guarantee) :
    triValidate K g = true ↔ SpecL1 K ∧ SpecL2 K ∧ checkL3 K g true = true := by
  unfold triValidate
  rw [Bool.and_eq_true, Bool.and_eq_true, checkL1_iff, checkL2_iff, and_assoc]

theorem triValidate_eq (K : Cx) (g : Guarantee) :
    triValidate K g = (tdsValidate K && checkL3 K g true) := rfl

/-- the completion-time check only adds the vertex-link condition -/
theorem checkL3_completion_implies (K : Cx) (g : Guarantee) :
    checkL3 K g true = true → checkL3 K g false = true := by
  unfold checkL3
  simp only [Bool.and_eq_true]
  rintro ⟨⟨⟨⟨⟨⟨⟨h1, h2⟩, h3⟩, h4⟩, h5⟩, h6⟩, h7⟩, h8⟩
  refine ⟨⟨⟨⟨⟨⟨⟨h1, h2⟩, h3⟩, h4⟩, ?_⟩, h6⟩, h7⟩, h8⟩
  by_cases hg : g ≥ 2
  · simpa [hg] using h5
  · simp [hg]

/-- precisely: completion-time Level 3 = ordinary Level 3 + (at guarantee ≥ 1) vertex links -/
theorem checkL3_completion_iff (K : Cx) (g : Guarantee) :
    checkL3 K g true = true ↔
      checkL3 K g false = true ∧ (g ≥ 1 → vertexLinksOk K = true) := by
  rw [checkL3_iff, checkL3_iff]
  constructor
  · rintro ⟨a, b, c, d, e, f⟩
    exact ⟨⟨a, b, c, d, fun h => e (h.elim Or.inl (fun h => absurd h.2 Bool.false_ne_true)), f⟩,
      fun h => e (Or.inr ⟨h, rfl⟩)⟩
  · rintro ⟨⟨a, b, c, d, e, f⟩, h⟩
    exact ⟨a, b, c, d, fun hh => hh.elim (fun h2 => e (Or.inl h2)) (fun h1 => h h1.1), f⟩

theorem triValidate_implies_isValid (K : Cx) (g : Guarantee) :
    triValidate K g = true → checkL3 K g false = true := by
  intro h
  exact checkL3_completion_implies K g ((triValidate_iff K g).1 h).2.2

/-! ## §5 single-fault rejection (for ANY complex, not just otherwise-valid ones) -/

/-- (a) a cell that repeats a vertex is rejected by Level 1 -/
theorem reject_repeated_vertex (K : Cx) (h : ∃ c ∈ K.cells, ¬ c.vs.Nodup) :
    checkL1 K = false := by
  rw [← Bool.not_eq_true, checkL1_iff]
  rintro ⟨_, hc⟩
  obtain ⟨c, hm, hn⟩ := h
  exact hn (hc c hm).2.1

/-- (b) a vertex with a non-finite coordinate is rejected by Level 1 -/
theorem reject_nonfinite_coordinate (K : Cx) (h : ∃ v ∈ K.verts, v.pt = none) :
    checkL1 K = false := by
  rw [← Bool.not_eq_true, checkL1_iff]
  rintro ⟨hv, _⟩
  obtain ⟨v, hm, hn⟩ := h
  obtain ⟨p, hp, _⟩ := hv v hm
  rw [hn] at hp
  cases hp

/-- (c) a cell with the wrong number of vertices is rejected by Level 1 -/
theorem reject_wrong_vertex_count (K : Cx) (h : ∃ c ∈ K.cells, c.vs.length ≠ K.D + 1) :
    checkL1 K = false := by
  rw [← Bool.not_eq_true, checkL1_iff]
  rintro ⟨_, hc⟩
  obtain ⟨c, hm, hn⟩ := h
  exact hn (hc c hm).1

/-- (d) a stale incident-cell pointer is rejected by Level 2 -/
theorem reject_stale_incident (K : Cx)
    (h : ∃ v ∈ K.verts, ∃ k, v.inc = some k ∧ K.cellById k = none) : checkL2 K = false := by
  rw [← Bool.not_eq_true, checkL2_iff]
  rintro ⟨_, _, hinc, _⟩
  obtain ⟨v, hm, k, hk, hn⟩ := h
  obtain ⟨c, hc, _⟩ := hinc v hm k hk
  rw [hn] at hc
  cases hc

/-- (e) two stored cells with the same vertex set are rejected by Level 2 -/
theorem reject_duplicate_cell (K : Cx)
    (h : ∃ c₁ c₂ i j, ∃ (hi : i < K.cells.length) (hj : j < K.cells.length),
      i ≠ j ∧ K.cells[i] = c₁ ∧ K.cells[j] = c₂ ∧ c₁.vs.Perm c₂.vs) : checkL2 K = false := by
  rw [← Bool.not_eq_true, checkL2_iff]
  rintro ⟨_, _, _, hnd, _⟩
  obtain ⟨c₁, c₂, i, j, hi, hj, hij, h1, h2, hp⟩ := h
  have hi' : i < (K.cells.map cellKey).length := by simpa using hi
  have hj' : j < (K.cells.map cellKey).length := by simpa using hj
  have hk : (K.cells.map cellKey)[i] = (K.cells.map cellKey)[j] := by
    rw [List.getElem_map, List.getElem_map, h1, h2]
    exact (cellKey_eq_iff c₁ c₂).2 hp
  exact hij (nodup_getElem_inj hnd hi' hj' hk)

/-- (f) a neighbour slot naming a cell that does not exist is rejected by Level 2 -/
theorem reject_dangling_neighbor (K : Cx) (c : Cell) (i k : Nat) (hc : c ∈ K.cells)
    (hi : i < c.vs.length) (hk : nbSlot c i = some k) (hn : K.cellById k = none) :
    checkL2 K = false := by
  rw [← Bool.not_eq_true, checkL2_iff]
  rintro ⟨_, _, _, _, _, hnbr, _⟩
  rcases (hnbr c hc).2 i hi with ⟨_, h0⟩ | ⟨c', j, _, hs, n, hcn, _⟩
  · rw [hk] at h0
    cases h0
  · rw [hk] at hs
    cases hs
    rw [hn] at hcn
    cases hcn

/-- (g) a facet shared with exactly one other cell but an empty neighbour slot is rejected by
Level 2 -/
theorem reject_one_way_neighbor (K : Cx) (c : Cell) (i c' j : Nat) (hc : c ∈ K.cells)
    (hi : i < c.vs.length) (ho : facetOthers K c i = [(c', j)]) (hs : nbSlot c i = none) :
    checkL2 K = false := by
  rw [← Bool.not_eq_true, checkL2_iff]
  rintro ⟨_, _, _, _, _, hnbr, _⟩
  rcases (hnbr c hc).2 i hi with ⟨h0, _⟩ | ⟨c'', j', _, hs', _⟩
  · rw [ho] at h0
    cases h0
  · rw [hs] at hs'
    cases hs'

/-- (g') the neighbour's back-pointer missing (one-way in the other direction) is rejected too -/
theorem reject_missing_back_pointer (K : Cx) (c n : Cell) (i c' j : Nat) (hc : c ∈ K.cells)
    (hi : i < c.vs.length) (ho : facetOthers K c i = [(c', j)]) (hn : K.cellById c' = some n)
    (hb : nbSlot n j ≠ some c.id) : checkL2 K = false := by
  rw [← Bool.not_eq_true, checkL2_iff]
  rintro ⟨_, _, _, _, _, hnbr, _⟩
  rcases (hnbr c hc).2 i hi with ⟨h0, _⟩ | ⟨c'', j', ho', _, n', hn', hb'⟩
  · rw [ho] at h0
    cases h0
  · rw [ho] at ho'
    cases ho'
    rw [hn] at hn'
    cases hn'
    exact hb hb'

/-- (h) a vertex contained in no cell is rejected by Level 3 (any guarantee, with or without the
completion check) -/
theorem reject_isolated_vertex (K : Cx) (g : Guarantee) (b : Bool)
    (h : ∃ v ∈ K.verts, ∀ c ∈ K.cells, v.id ∉ c.vs) : checkL3 K g b = false := by
  rw [← Bool.not_eq_true, checkL3_iff]
  rintro ⟨_, _, _, _, _, hiso, _⟩
  obtain ⟨v, hv, hn⟩ := h
  obtain ⟨c, hc, hm⟩ := hiso v hv
  exact hn c hc hm

/-- (i) a facet shared by three or more cells is rejected by Level 2 and by Level 3 -/
theorem reject_facet_overshared (K : Cx) (g : Guarantee) (b : Bool)
    (h : ∃ f ∈ allFacets K, facetDeg K f.1 ≥ 3) :
    checkL2 K = false ∧ checkL3 K g b = false := by
  obtain ⟨f, hf, hd⟩ := h
  constructor
  · rw [← Bool.not_eq_true, checkL2_iff]
    rintro ⟨_, _, _, _, hle, _⟩
    have := hle f hf
    omega
  · rw [← Bool.not_eq_true, checkL3_iff]
    rintro ⟨_, hdeg, _⟩
    rcases hdeg f hf with h | h <;> omega

/-- (i') the same with the fault stated on the cells: three stored cells with distinct ids, each
with a facet on the same vertex set -/
theorem reject_three_cells_share_facet (K : Cx) (g : Guarantee) (b : Bool)
    (c₁ c₂ c₃ : Cell) (i₁ i₂ i₃ : Nat)
    (h₁ : c₁ ∈ K.cells) (h₂ : c₂ ∈ K.cells) (h₃ : c₃ ∈ K.cells)
    (n₁₂ : c₁.id ≠ c₂.id) (n₁₃ : c₁.id ≠ c₃.id) (n₂₃ : c₂.id ≠ c₃.id)
    (hi₁ : i₁ < c₁.vs.length) (hi₂ : i₂ < c₂.vs.length) (hi₃ : i₃ < c₃.vs.length)
    (p₁₂ : (c₂.vs.eraseIdx i₂).Perm (c₁.vs.eraseIdx i₁))
    (p₁₃ : (c₃.vs.eraseIdx i₃).Perm (c₁.vs.eraseIdx i₁)) :
    checkL2 K = false ∧ checkL3 K g b = false :=
  reject_facet_overshared K g b
    ⟨(facetKey c₁ i₁, c₁.id, i₁), mem_allFacets_of h₁ hi₁,
      three_le_facetDeg K c₁ c₂ c₃ i₁ i₂ i₃ h₁ h₂ h₃ n₁₂ n₁₃ n₂₃ hi₁ hi₂ hi₃
        ((facetKey_eq_iff c₂ c₁ i₂ i₁).2 p₁₂) ((facetKey_eq_iff c₃ c₁ i₃ i₁).2 p₁₃)⟩

/-- (j) a cell naming a vertex id that is not stored is rejected by Level 2 -/
theorem reject_missing_vertex (K : Cx)
    (h : ∃ c ∈ K.cells, ∃ v ∈ c.vs, ∀ x ∈ K.verts, x.id ≠ v) : checkL2 K = false := by
  rw [← Bool.not_eq_true, checkL2_iff]
  rintro ⟨_, hex, _⟩
  obtain ⟨c, hc, v, hv, hn⟩ := h
  obtain ⟨x, hx, hxv⟩ := hex c hc v hv
  exact hn x hx hxv

/-- a fault owned by Level 1 or Level 2 also fails the cumulative validators -/
theorem tdsValidate_false_of_L1 (K : Cx) (h : checkL1 K = false) : tdsValidate K = false := by
  simp [tdsValidate, h]

theorem tdsValidate_false_of_L2 (K : Cx) (h : checkL2 K = false) : tdsValidate K = false := by
  simp [tdsValidate, h]

theorem triValidate_false_of_L1 (K : Cx) (g : Guarantee) (h : checkL1 K = false) :
    triValidate K g = false := by
  simp [triValidate, h]

theorem triValidate_false_of_L2 (K : Cx) (g : Guarantee) (h : checkL2 K = false) :
    triValidate K g = false := by
  simp [triValidate, h]

theorem triValidate_false_of_L3 (K : Cx) (g : Guarantee) (h : checkL3 K g true = false) :
    triValidate K g = false := by
  simp [triValidate, h]

/-! ## §6 non-vacuity -/

/-- the point `(x, y)` with integer coordinates as dyadics `x·2⁰, y·2⁰` -/
def ipt (x y : Int) : Option DPt := some [⟨x, 0⟩, ⟨y, 0⟩]

/-- unit square `(0,0) (1,0) (0,1) (1,1)` split along the diagonal `1–2` into two positively
oriented triangles `c0 = [0,1,2]`, `c1 = [1,3,2]`; the shared edge `{1,2}` is opposite slot 0 of
`c0` and slot 1 of `c1` -/
def twoTri : Cx :=
  { D := 2
    verts := [⟨0, ipt 0 0, some 0⟩, ⟨1, ipt 1 0, some 0⟩, ⟨2, ipt 0 1, some 1⟩,
              ⟨3, ipt 1 1, some 1⟩]
    cells := [⟨0, [0, 1, 2], some [some 1, none, none]⟩,
              ⟨1, [1, 3, 2], some [none, some 0, none]⟩] }

theorem twoTri_L1 : checkL1 twoTri = true := by decide
theorem twoTri_L2 : checkL2 twoTri = true := by decide
theorem twoTri_L3 : checkL3 twoTri 1 true = true := by decide
theorem twoTri_L3_strict : checkL3 twoTri 2 true = true := by decide

theorem twoTri_valid : triValidate twoTri 1 = true := by
  simp only [triValidate, twoTri_L1, twoTri_L2, twoTri_L3, Bool.and_self]

/-- so the declarative specifications are satisfiable -/
theorem twoTri_spec : SpecL1 twoTri ∧ SpecL2 twoTri :=
  (tdsValidate_iff twoTri).1 (by simp only [tdsValidate, twoTri_L1, twoTri_L2, Bool.and_self])

/-- corrupted copy: `c1` forgets its neighbour pointer to `c0` (a one-way neighbour) -/
def twoTriBad : Cx :=
  { twoTri with
    cells := [⟨0, [0, 1, 2], some [some 1, none, none]⟩,
              ⟨1, [1, 3, 2], some [none, none, none]⟩] }

theorem twoTriBad_L1 : checkL1 twoTriBad = true := by decide
theorem twoTriBad_L2 : checkL2 twoTriBad = false := by decide

/-- the corruption is exactly the fault of `reject_one_way_neighbor` -/
theorem twoTriBad_is_one_way :
    facetOthers twoTriBad ⟨1, [1, 3, 2], some [none, none, none]⟩ 1 = [(0, 0)] ∧
    nbSlot ⟨1, [1, 3, 2], some [none, none, none]⟩ 1 = none := by decide

/-! ## §7 Level 3: connectivity (`connected`) = every stored cell is reachable from the first one

`PointsTo K a b`: a stored cell with id `a` lists `b` among its neighbour pointers;
`Reach K a b`: reflexive-transitive closure of `PointsTo` through stored cell ids
(both defined in Lemmas/ReachAux.lean). -/

/-- every id the BFS collects is reachable from the start cell and is the id of a stored cell
(any fuel; needs no uniqueness of ids) -/
theorem reachFuel_sound (K : Cx) (c : Cell) (hc : c ∈ K.cells) (f : Nat) :
    ∀ x ∈ reachFuel K f [c.id], Reach K c.id x ∧ ∃ t ∈ K.cells, t.id = x := by
  refine reachFuel_induct K (fun s => ∀ x ∈ s, Reach K c.id x ∧ ∃ t ∈ K.cells, t.id = x) ?_ f
    [c.id] ?_
  · intro s hs x hx
    rcases (mem_reachStep K s x).1 hx with hx | ⟨ht, a, ha, hp⟩
    · exact hs x hx
    · exact ⟨Reach.step (hs a ha).1 hp ht, ht⟩
  · intro x hx
    rw [List.mem_singleton] at hx
    subst hx
    exact ⟨Reach.refl, c, hc, rfl⟩

/-- the BFS result is duplicate-free, consists of stored cell ids, and so is at most as long as
the cell list (any fuel; needs no uniqueness of ids) -/
theorem reachFuel_nodup (K : Cx) (c : Cell) (hc : c ∈ K.cells) (f : Nat) :
    (reachFuel K f [c.id]).Nodup ∧ (∀ x ∈ reachFuel K f [c.id], ∃ t ∈ K.cells, t.id = x) ∧
      (reachFuel K f [c.id]).length ≤ K.cells.length := by
  have hnd : (reachFuel K f [c.id]).Nodup :=
    reachFuel_induct K List.Nodup (reachStep_nodup K) f [c.id] (by simp)
  have hs : ∀ x ∈ reachFuel K f [c.id], ∃ t ∈ K.cells, t.id = x :=
    fun x hx => (reachFuel_sound K c hc f x hx).2
  refine ⟨hnd, hs, ?_⟩
  rw [← cellIds_length]
  exact nodup_subset_length_le hnd (fun x hx => mem_cellIds.2 (hs x hx))

/-- with fuel `cells.length` the BFS reaches its fixpoint, so it collects every id reachable from
the start cell (needs no uniqueness of ids; a reachable id is automatically a stored one) -/
theorem reachFuel_complete (K : Cx) (c : Cell) (hc : c ∈ K.cells) (d : Nat)
    (hr : Reach K c.id d) : d ∈ reachFuel K K.cells.length [c.id] := by
  have hfix : reachStep K (reachFuel K K.cells.length [c.id]) = reachFuel K K.cells.length [c.id] :=
    reachFuel_fixpoint K K.cells.length [c.id] (by simp)
      (fun x hx => by
        rw [List.mem_singleton] at hx
        subst hx
        exact mem_cellIds.2 ⟨c, hc, rfl⟩)
      (by simp)
  exact reach_mem_of_fixpoint K _ hfix ((reachFuel_suffix K _ [c.id]).subset (by simp)) hr

/-- the BFS result is exactly the set of ids reachable from the start cell -/
theorem mem_reachFuel_iff (K : Cx) (c : Cell) (hc : c ∈ K.cells) (d : Nat) :
    d ∈ reachFuel K K.cells.length [c.id] ↔ Reach K c.id d :=
  ⟨fun h => (reachFuel_sound K c hc _ d h).1, reachFuel_complete K c hc d⟩

/-- `connected` without any side condition: the complex is empty, or the cell ids are pairwise
distinct and every stored cell is reachable from the first one -/
theorem connected_iff' (K : Cx) :
    connected K = true ↔
      (K.cells = [] ∨ ((K.cells.map (·.id)).Nodup ∧
        ∃ c, K.cells.head? = some c ∧ ∀ d ∈ K.cells, Reach K c.id d.id)) := by
  unfold connected
  cases hcells : K.cells with
  | nil => simp
  | cons c rest =>
    have hc : c ∈ K.cells := by rw [hcells]; simp
    obtain ⟨hnd, hs, _⟩ := reachFuel_nodup K c hc K.cells.length
    have hs' : ∀ x ∈ reachFuel K K.cells.length [c.id], x ∈ cellIds K :=
      fun x hx => mem_cellIds.2 (hs x hx)
    simp only [List.head?_cons, Option.some.injEq, exists_eq_left', reduceCtorEq, false_or,
      beq_iff_eq]
    rw [← hcells]
    constructor
    · intro hlen
      have hsub := subset_of_nodup_subset_length_eq hnd hs'
        (by rw [cellIds_length, hlen]; exact Nat.le_refl _)
      refine ⟨?_, fun d hd => ?_⟩
      · exact nodup_of_nodup_subset_length_eq (l₂ := cellIds K) hnd hs'
          (by rw [cellIds_length, hlen]; exact Nat.le_refl _)
      · exact (mem_reachFuel_iff K c hc d.id).1 (hsub d.id (mem_cellIds.2 ⟨d, hd, rfl⟩))
    · rintro ⟨hids, hall⟩
      have h1 := nodup_subset_length_le hnd hs'
      have h2 : (cellIds K).length ≤ (reachFuel K K.cells.length [c.id]).length :=
        nodup_subset_length_le hids (fun x hx => by
          obtain ⟨t, ht, rfl⟩ := mem_cellIds.1 hx
          exact reachFuel_complete K c hc t.id (hall t ht))
      rw [cellIds_length] at h1 h2
      omega

/-- `connected` under the Level-2 fact that cell ids are distinct: the complex is empty or every
stored cell is reachable from the first one by following neighbour pointers -/
theorem connected_iff (K : Cx) (hnd : (K.cells.map (·.id)).Nodup) :
    connected K = true ↔
      (K.cells = [] ∨ ∃ c, K.cells.head? = some c ∧ ∀ d ∈ K.cells, Reach K c.id d.id) := by
  rw [connected_iff']
  exact or_congr Iff.rfl ⟨fun h => h.2, fun h => ⟨hnd, h⟩⟩

/-- a complex with a repeated cell id and at least one cell is never `connected` -/
theorem connected_false_of_dup_ids (K : Cx) (hne : K.cells ≠ [])
    (hdup : ¬ (K.cells.map (·.id)).Nodup) : connected K = false := by
  rw [← Bool.not_eq_true, connected_iff']
  rintro (h | h)
  · exact hne h
  · exact hdup h.1

/-! ### non-vacuity for §7 -/

theorem twoTri_connected : connected twoTri = true := by decide

/-- the ∀ side of `connected_iff` is inhabited: both triangles are reachable from `c0` -/
theorem twoTri_reach : ∀ d ∈ twoTri.cells, Reach twoTri 0 d.id := by
  rcases (connected_iff twoTri (by decide)).1 twoTri_connected with h | ⟨c, hc, h⟩
  · exact absurd h (by decide)
  · have : c = ⟨0, [0, 1, 2], some [some 1, none, none]⟩ := by
      have hc' : twoTri.cells.head? = some c := hc
      simp only [twoTri, List.head?_cons, Option.some.injEq] at hc'
      exact hc'.symm
    subst this
    exact h

/-- two edges `[0,1]`, `[1,2]` in dimension 1 that point to each other: connected -/
def twoSeg : Cx :=
  { D := 1, verts := [],
    cells := [⟨0, [0, 1], some [some 1, none]⟩, ⟨1, [1, 2], some [none, some 0]⟩] }

/-- the same two cells without neighbour pointers: not connected -/
def twoSegApart : Cx :=
  { D := 1, verts := [], cells := [⟨0, [0, 1], none⟩, ⟨1, [1, 2], none⟩] }

theorem twoSeg_connected : connected twoSeg = true := by decide
theorem twoSegApart_not_connected : connected twoSegApart = false := by decide

/-- … and in `twoSegApart` cell 1 is indeed not reachable from cell 0 -/
theorem twoSegApart_not_reach : ¬ Reach twoSegApart 0 1 := by
  intro h
  have := (mem_reachFuel_iff twoSegApart ⟨0, [0, 1], none⟩ (by simp [twoSegApart]) 1).2 h
  revert this
  decide

/-! ## §8 Level 3: ridge links (`linkGraphOk`, `ridgeLinksOk`)

For an edge list `es` (Lemmas/LinkAux.lean): `IsVert es v` — `v` is an endpoint of some edge;
`Adj es a b` — `(a,b)` or `(b,a)` is an edge; `GReach es a b` — a path of edges from `a` to `b`.
`dedupEdges es` is the list of distinct undirected edges (each written smaller endpoint first):
`mem_dedupEdges_iff`, `dedupEdges_nodup`; it has the same vertices and the same adjacency as `es`
(`isVert_dedupEdges`, `adj_dedupEdges`). -/

/-- undirected degree: number of distinct undirected edges of `es` at `v` -/
def udeg (es : List (Nat × Nat)) (v : Nat) : Nat := degIn (dedupEdges es) v

/-- the distinct vertices of `es` of undirected degree 1 -/
def deg1Verts (es : List (Nat × Nat)) : List Nat :=
  (graphVerts (dedupEdges es)).filter (fun v => udeg es v == 1)

theorem mem_dedupEdges_iff (es : List (Nat × Nat)) (x : Nat × Nat) :
    x ∈ dedupEdges es ↔ ∃ e ∈ es, normEdge e = x :=
  mem_dedupEdges es x

/-- `udeg` is the length of a duplicate-free list: the distinct normalised edges containing `v` -/
theorem udeg_eq (es : List (Nat × Nat)) (v : Nat) :
    udeg es v = ((dedupEdges es).filter (fun e => e.1 == v || e.2 == v)).length ∧
    ((dedupEdges es).filter (fun e => e.1 == v || e.2 == v)).Nodup ∧
    ∀ x, x ∈ (dedupEdges es).filter (fun e => e.1 == v || e.2 == v) ↔
      (∃ e ∈ es, normEdge e = x) ∧ (x.1 = v ∨ x.2 = v) := by
  refine ⟨degIn_eq_length_filter _ _, (dedupEdges_nodup es).sublist List.filter_sublist, ?_⟩
  intro x
  simp only [List.mem_filter, mem_dedupEdges, Bool.or_eq_true, beq_iff_eq]

/-- `deg1Verts` is duplicate-free and lists exactly the vertices of undirected degree 1 -/
theorem deg1Verts_spec (es : List (Nat × Nat)) :
    (deg1Verts es).Nodup ∧ ∀ v, v ∈ deg1Verts es ↔ IsVert es v ∧ udeg es v = 1 := by
  refine ⟨(graphVerts_nodup _).sublist List.filter_sublist, ?_⟩
  intro v
  simp only [deg1Verts, List.mem_filter, mem_graphVerts, isVert_dedupEdges, beq_iff_eq]

/-- what `linkGraphOk` checks: any two vertices are joined by a path, every vertex has undirected
degree ≤ 2, and the number of degree-1 vertices is 0 or 2 (or exactly `k` when `some k` is
requested).  The empty edge list satisfies this. -/
def LinkGraphSpec (es : List (Nat × Nat)) (needDeg1 : Option Nat) : Prop :=
  (∀ u v, IsVert es u → IsVert es v → GReach es u v) ∧
  (∀ v, IsVert es v → udeg es v ≤ 2) ∧
  (match needDeg1 with
   | none => (deg1Verts es).length = 0 ∨ (deg1Verts es).length = 2
   | some k => (deg1Verts es).length = k)

theorem graphConnected_iff (es : List (Nat × Nat)) :
    graphConnected es = true ↔ ∀ u v, IsVert es u → IsVert es v → GReach es u v :=
  DM.graphConnected_iff es

theorem linkGraphOk_iff (es : List (Nat × Nat)) (needDeg1 : Option Nat) :
    linkGraphOk es needDeg1 = true ↔ LinkGraphSpec es needDeg1 := by
  unfold linkGraphOk LinkGraphSpec
  simp only [Bool.and_eq_true, DM.graphConnected_iff, List.all_eq_true, mem_graphVerts,
    decide_eq_true_eq, isVert_dedupEdges, greach_dedupEdges, and_assoc]
  refine and_congr Iff.rfl (and_congr Iff.rfl ?_)
  cases needDeg1 with
  | none =>
    simp only [Bool.or_eq_true, beq_iff_eq, List.countP_eq_length_filter]
    exact Iff.rfl
  | some k =>
    simp only [beq_iff_eq, List.countP_eq_length_filter]
    exact Iff.rfl

/-- the ridges are the distinct sorted `k`-element vertex subsets of the cells -/
theorem mem_facesK_iff (K : Cx) (k : Nat) (r : List Nat) :
    r ∈ facesK K k ↔ ∃ c ∈ K.cells, r.Sublist (cellKey c) ∧ r.length = k :=
  mem_facesK K k r

/-- one link edge `(a, b)` per cell that contains the ridge and has exactly the two further
vertices `a`, `b` (in slot order) -/
theorem mem_ridgeLinkEdges_iff (K : Cx) (r : List Nat) (a b : Nat) :
    (a, b) ∈ ridgeLinkEdges K r ↔
      ∃ c ∈ K.cells, (∀ v ∈ r, v ∈ c.vs) ∧ c.vs.filter (fun v => !r.contains v) = [a, b] :=
  mem_ridgeLinkEdges K r a b

/-- `ridgeLinksOk`: in dimension ≥ 2 and with at least one cell, the link graph of every ridge
(face with `D-1` vertices) satisfies `LinkGraphSpec` -/
theorem ridgeLinksOk_iff (K : Cx) :
    ridgeLinksOk K = true ↔
      (K.D < 2 ∨ K.cells = [] ∨
        ∀ r ∈ facesK K (K.D - 1), LinkGraphSpec (ridgeLinkEdges K r) none) := by
  unfold ridgeLinksOk
  by_cases hD : K.D < 2
  · simp [hD]
  · by_cases hc : K.cells = []
    · simp [hc]
    · have hc' : K.cells.isEmpty = false := by
        rw [← Bool.not_eq_true, List.isEmpty_iff]; exact hc
      simp only [hD, hc, hc', if_false, false_or, List.all_eq_true, linkGraphOk_iff,
        Bool.false_eq_true]

/-- a ridge whose link graph has a vertex of undirected degree ≥ 3 (e.g. a ridge shared by three
cells whose link is a star) is rejected -/
theorem reject_ridge_link_overdegree (K : Cx) (hD : 2 ≤ K.D) (r : List Nat)
    (hr : r ∈ facesK K (K.D - 1)) (v : Nat) (hv : IsVert (ridgeLinkEdges K r) v)
    (hdeg : 3 ≤ udeg (ridgeLinkEdges K r) v) : ridgeLinksOk K = false := by
  rw [← Bool.not_eq_true, ridgeLinksOk_iff]
  rintro (h | h | h)
  · omega
  · obtain ⟨c, hc, _⟩ := (mem_facesK_iff K _ r).1 hr
    rw [h] at hc
    cases hc
  · have := (h r hr).2.1 v hv
    omega

/-- a ridge whose link graph has two vertices not joined by a path is rejected -/
theorem reject_ridge_link_disconnected (K : Cx) (hD : 2 ≤ K.D) (r : List Nat)
    (hr : r ∈ facesK K (K.D - 1)) (u v : Nat) (hu : IsVert (ridgeLinkEdges K r) u)
    (hv : IsVert (ridgeLinkEdges K r) v) (hn : ¬ GReach (ridgeLinkEdges K r) u v) :
    ridgeLinksOk K = false := by
  rw [← Bool.not_eq_true, ridgeLinksOk_iff]
  rintro (h | h | h)
  · omega
  · obtain ⟨c, hc, _⟩ := (mem_facesK_iff K _ r).1 hr
    rw [h] at hc
    cases hc
  · exact hn ((h r hr).1 u v hu hv)

/-- a failed ridge-link check fails Level 3 at guarantee ≥ 1 -/
theorem checkL3_false_of_ridgeLinks (K : Cx) (g : Guarantee) (b : Bool) (hg : g ≥ 1)
    (h : ridgeLinksOk K = false) : checkL3 K g b = false := by
  rw [← Bool.not_eq_true, checkL3_iff]
  rintro ⟨_, _, _, hr, _⟩
  rw [hr hg] at h
  cases h

/-! ### non-vacuity for §8 -/

/-- a path and a cycle pass; a star and two disjoint edges fail; the empty graph passes -/
theorem linkGraphOk_path : linkGraphOk [(1, 2), (2, 3)] = true := by decide
theorem linkGraphOk_cycle : linkGraphOk [(1, 2), (2, 3), (3, 1)] = true := by decide
theorem linkGraphOk_star : linkGraphOk [(1, 2), (1, 3), (1, 4)] = false := by decide
theorem linkGraphOk_two_edges : linkGraphOk [(1, 2), (3, 4)] = false := by decide
theorem linkGraphOk_nil : linkGraphOk [] = true := by decide
/-- a doubled edge counts once -/
theorem linkGraphOk_doubled : linkGraphOk [(1, 2), (2, 1)] = true := by decide

theorem twoTri_ridgeLinks : ridgeLinksOk twoTri = true := by decide

/-- so the ∀ side of `ridgeLinksOk_iff` is inhabited -/
theorem twoTri_ridgeLinks_spec :
    ∀ r ∈ facesK twoTri 1, LinkGraphSpec (ridgeLinkEdges twoTri r) none := by
  rcases (ridgeLinksOk_iff twoTri).1 twoTri_ridgeLinks with h | h | h
  · exact absurd h (by decide)
  · exact absurd h (by decide)
  · exact h

/-- three triangles `[0,1,2]`, `[0,1,3]`, `[0,1,4]` around the edge `0–1`: the link of the ridge
(vertex) `0` is the star `1–2, 1–3, 1–4` with centre of degree 3 -/
def fanStar : Cx :=
  { D := 2, verts := [],
    cells := [⟨0, [0, 1, 2], none⟩, ⟨1, [0, 1, 3], none⟩, ⟨2, [0, 1, 4], none⟩] }

theorem fanStar_link : ridgeLinkEdges fanStar [0] = [(1, 2), (1, 3), (1, 4)] := by decide
theorem fanStar_rejected : ridgeLinksOk fanStar = false := by decide

/-- … and it is the fault of `reject_ridge_link_overdegree` -/
theorem fanStar_is_overdegree :
    [0] ∈ facesK fanStar (fanStar.D - 1) ∧ IsVert (ridgeLinkEdges fanStar [0]) 1 ∧
      udeg (ridgeLinkEdges fanStar [0]) 1 = 3 := by
  refine ⟨by decide, ?_, by decide⟩
  rw [fanStar_link]
  exact ⟨(1, 2), by simp, Or.inl rfl⟩

/-- two triangles `[0,1,2]`, `[0,3,4]` touching only in vertex `0` (a pinched vertex): the link of
the ridge `0` is the two disjoint edges `1–2`, `3–4` -/
def bowTie : Cx :=
  { D := 2, verts := [], cells := [⟨0, [0, 1, 2], none⟩, ⟨1, [0, 3, 4], none⟩] }

theorem bowTie_link : ridgeLinkEdges bowTie [0] = [(1, 2), (3, 4)] := by decide
theorem bowTie_rejected : ridgeLinksOk bowTie = false := by decide

/-- … and the link of `0` is indeed not connected -/
theorem bowTie_link_disconnected :
    ¬ ∀ u v, IsVert (ridgeLinkEdges bowTie [0]) u → IsVert (ridgeLinkEdges bowTie [0]) v →
      GReach (ridgeLinkEdges bowTie [0]) u v := by
  rw [← graphConnected_iff, bowTie_link]
  decide

/-! ## §9 Level 3: vertex links (`vertexLinkOk`, `vertexLinksOk`) -/

/-- the link of `v` has one simplex per stored cell containing `v`: the cell's vertex slots
without `v` (slot order kept) -/
theorem mem_vertexLink_iff (K : Cx) (v : Nat) (s : List Nat) :
    s ∈ vertexLink K v ↔ ∃ c ∈ K.cells, v ∈ c.vs ∧ s = c.vs.filter (· != v) :=
  mem_vertexLink K v s

theorem vertexLink_eq_nil_iff (K : Cx) (v : Nat) :
    vertexLink K v = [] ↔ ∀ c ∈ K.cells, v ∉ c.vs :=
  vertexLink_eq_nil K v

theorem vertexLink_isEmpty_iff (K : Cx) (v : Nat) :
    (vertexLink K v).isEmpty = true ↔ ∀ c ∈ K.cells, v ∉ c.vs := by
  rw [List.isEmpty_iff]
  exact vertexLink_eq_nil K v

/-- a vertex in no cell fails the vertex-link check (in every dimension) -/
theorem vertexLinkOk_false_of_isolated (K : Cx) (v : Nat) (h : ∀ c ∈ K.cells, v ∉ c.vs) :
    vertexLinkOk K v = false := by
  rw [vertexLinkOk_eq, if_pos ((vertexLink_isEmpty_iff K v).2 h)]

/-- boundary vertices: the entries of the facet keys carried by exactly one (cell, slot) -/
theorem mem_boundaryVerts_iff (K : Cx) (v : Nat) :
    v ∈ boundaryVerts K ↔ ∃ k ∈ boundaryFacets K, v ∈ k :=
  mem_boundaryVerts K v

/-- `linkVerts link`: the distinct vertices of the link simplices -/
theorem linkVerts_spec (link : List (List Nat)) :
    (linkVerts link).Nodup ∧ ∀ x, x ∈ linkVerts link ↔ ∃ s ∈ link, x ∈ s :=
  ⟨linkVerts_nodup link, mem_linkVerts link⟩

theorem interior_iff (K : Cx) (v : Nat) :
    (!(boundaryVerts K).contains v) = true ↔ v ∉ boundaryVerts K := by
  rw [Bool.not_eq_true', ← Bool.not_eq_true, List.contains_iff_mem]

theorem vertexLink_isEmpty_false (K : Cx) (v : Nat) (h : vertexLink K v ≠ []) :
    (vertexLink K v).isEmpty = false := by
  rw [← Bool.not_eq_true, List.isEmpty_iff]
  exact h

/-- `D = 1`: the link is a set of points; an interior vertex has exactly 2 distinct neighbours, a
boundary vertex exactly 1 (a non-empty link is implied) -/
theorem vertexLinkOk_D1_iff (K : Cx) (v : Nat) (hD : K.D = 1) :
    vertexLinkOk K v = true ↔
      (linkVerts (vertexLink K v)).length = if v ∈ boundaryVerts K then 1 else 2 := by
  rw [vertexLinkOk_eq]
  by_cases hemp : vertexLink K v = []
  · rw [hemp]
    simp only [List.isEmpty_nil, if_true, Bool.false_eq_true, false_iff]
    show ¬ (0 = if v ∈ boundaryVerts K then 1 else 2)
    split <;> omega
  · rw [vertexLink_isEmpty_false K v hemp]
    have h1 : (K.D == 1) = true := by rw [hD]; rfl
    simp only [Bool.false_eq_true, if_false, h1, if_true]
    by_cases hb : v ∈ boundaryVerts K
    · have : (!(boundaryVerts K).contains v) = false := by
        rw [← Bool.not_eq_true, interior_iff]; exact fun h => h hb
      simp only [this, hb, Bool.false_eq_true, if_false, if_true, beq_iff_eq]
    · have : (!(boundaryVerts K).contains v) = true := (interior_iff K v).2 hb
      simp only [this, hb, if_false, if_true, beq_iff_eq]

/-- `linkEdges2 link`: one pair per link simplex with exactly two vertices -/
theorem mem_linkEdges2_iff (link : List (List Nat)) (a b : Nat) :
    (a, b) ∈ linkEdges2 link ↔ [a, b] ∈ link :=
  mem_linkEdges2 link a b

/-- `D = 2`: the link is a graph; it must be non-empty, consist of edges, and be a single cycle
(interior vertex: no degree-1 vertex) or a single path (boundary vertex: two degree-1 vertices) -/
theorem vertexLinkOk_D2_iff (K : Cx) (v : Nat) (hD : K.D = 2) :
    vertexLinkOk K v = true ↔
      vertexLink K v ≠ [] ∧ (∀ s ∈ vertexLink K v, s.length = 2) ∧
      LinkGraphSpec (linkEdges2 (vertexLink K v)) (some (if v ∈ boundaryVerts K then 2 else 0)) := by
  rw [vertexLinkOk_eq]
  by_cases hemp : vertexLink K v = []
  · rw [hemp]
    simp
  · rw [vertexLink_isEmpty_false K v hemp]
    have h1 : (K.D == 1) = false := by rw [hD]; rfl
    have h2 : (K.D == 2) = true := by rw [hD]; rfl
    have hk : (if !(boundaryVerts K).contains v then 0 else 2) =
        (if v ∈ boundaryVerts K then 2 else 0) := by
      by_cases hb : v ∈ boundaryVerts K
      · have : (!(boundaryVerts K).contains v) = false := by
          rw [← Bool.not_eq_true, interior_iff]; exact fun h => h hb
        simp only [this, hb, Bool.false_eq_true, if_false, if_true]
      · have : (!(boundaryVerts K).contains v) = true := (interior_iff K v).2 hb
        simp only [this, hb, if_false, if_true]
    simp only [Bool.false_eq_true, if_false, h1, h2, if_true, hk]
    by_cases hall : (vertexLink K v).all (·.length == 2) = true
    · have hall' : ∀ s ∈ vertexLink K v, s.length = 2 := by
        simpa only [List.all_eq_true, beq_iff_eq] using hall
      simp only [hall, Bool.not_true, Bool.false_eq_true, if_false, linkGraphOk_iff]
      exact ⟨fun h => ⟨hemp, hall', h⟩, fun h => h.2.2⟩
    · have hall' : ¬ ∀ s ∈ vertexLink K v, s.length = 2 := by
        simpa only [List.all_eq_true, beq_iff_eq] using hall
      rw [Bool.not_eq_true] at hall
      simp only [hall, Bool.not_false, if_true, Bool.false_eq_true, false_iff]
      exact fun h => hall' h.2.1

/-! ### `D ≥ 3`: the three components -/

/-- `linkSkeletonEdges link`: the pairs `(a, b)`, smaller entry first, inside a link simplex -/
theorem mem_linkSkeletonEdges_iff (link : List (List Nat)) (a b : Nat) :
    (a, b) ∈ linkSkeletonEdges link ↔ ∃ s ∈ link, [a, b].Sublist (sortNat s) :=
  mem_linkSkeletonEdges link a b

/-- two distinct vertices are adjacent in the 1-skeleton iff some link simplex contains both -/
theorem adj_linkSkeletonEdges_iff (link : List (List Nat)) (a b : Nat) (hne : a ≠ b) :
    Adj (linkSkeletonEdges link) a b ↔ ∃ s ∈ link, a ∈ s ∧ b ∈ s :=
  adj_linkSkeletonEdges link a b hne

/-- (a) the 1-skeleton of the link is connected: any two link vertices are joined by a path of
skeleton edges (a link vertex on no edge is only joined to itself) -/
theorem linkSkeletonConnected_iff (link : List (List Nat)) :
    linkSkeletonConnected link = true ↔
      ∀ u w, (∃ s ∈ link, u ∈ s) → (∃ s ∈ link, w ∈ s) → GReach (linkSkeletonEdges link) u w := by
  rw [linkSkeletonConnected_spec]
  simp only [mem_linkVerts]

/-- what `linkFacetsOk D link interior` checks, over the explicit lists
`linkFacets link` (each sorted link simplex minus one entry, with repetitions),
`linkBoundaryFacets link` (the distinct facets occurring exactly once) and
`linkBoundaryRidges link` (each boundary facet minus one entry, with repetitions) -/
structure LinkFacetsSpec (D : Nat) (link : List (List Nat)) (interior : Prop) : Prop where
  /-- every link simplex has `D` vertices -/
  size : ∀ s ∈ link, s.length = D
  /-- every facet of the link lies in 1 or 2 link simplices -/
  deg : ∀ f ∈ linkFacets link, (linkFacets link).count f = 1 ∨ (linkFacets link).count f = 2
  /-- the link of an interior vertex has no boundary facet -/
  interior_closed : interior → ∀ f ∈ linkFacets link, (linkFacets link).count f ≠ 1
  /-- the boundary of the link is closed: every ridge of the boundary facets lies in exactly 2 -/
  boundary_closed : ∀ r ∈ linkBoundaryRidges link, (linkBoundaryRidges link).count r = 2

theorem mem_linkFacets_iff (link : List (List Nat)) (f : List Nat) :
    f ∈ linkFacets link ↔ ∃ s ∈ link, ∃ i, i < s.length ∧ f = (sortNat s).eraseIdx i :=
  mem_linkFacets link f

theorem linkBoundaryFacets_spec (link : List (List Nat)) :
    (linkBoundaryFacets link).Nodup ∧
      ∀ f, f ∈ linkBoundaryFacets link ↔ f ∈ linkFacets link ∧ (linkFacets link).count f = 1 :=
  ⟨linkBoundaryFacets_nodup link, mem_linkBoundaryFacets link⟩

theorem mem_linkBoundaryRidges_iff (link : List (List Nat)) (r : List Nat) :
    r ∈ linkBoundaryRidges link ↔
      ∃ f ∈ linkBoundaryFacets link, ∃ i, i < f.length ∧ r = f.eraseIdx i :=
  mem_linkBoundaryRidges link r

/-- (b) `linkFacetsOk` = `LinkFacetsSpec` -/
theorem linkFacetsOk_iff (D : Nat) (link : List (List Nat)) (interior : Bool) :
    linkFacetsOk D link interior = true ↔ LinkFacetsSpec D link (interior = true) := by
  rw [linkFacetsOk_eq]
  by_cases hsz : link.all (·.length == D) = true
  · have hsz' : ∀ s ∈ link, s.length = D := by
      simpa only [List.all_eq_true, beq_iff_eq] using hsz
    by_cases hdeg : (linkFacets link).all (fun f =>
        (linkFacets link).count f == 1 || (linkFacets link).count f == 2) = true
    · have hdeg' : ∀ f ∈ linkFacets link,
          (linkFacets link).count f = 1 ∨ (linkFacets link).count f = 2 := by
        simpa only [List.all_eq_true, Bool.or_eq_true, beq_iff_eq] using hdeg
      by_cases hint : (interior && !(linkBoundaryFacets link).isEmpty) = true
      · rw [Bool.and_eq_true, Bool.not_eq_true', ← Bool.not_eq_true,
          linkBoundaryFacets_isEmpty] at hint
        have hc : (interior && !(linkBoundaryFacets link).isEmpty) = true := by
          rw [Bool.and_eq_true, Bool.not_eq_true', ← Bool.not_eq_true,
            linkBoundaryFacets_isEmpty]
          exact hint
        simp only [hsz, hdeg, hc, Bool.not_true, Bool.false_eq_true, if_false, if_true, false_iff]
        exact fun h => hint.2 (h.interior_closed hint.1)
      · have hint' : interior = true → ∀ f ∈ linkFacets link, (linkFacets link).count f ≠ 1 := by
          intro hi
          rw [← linkBoundaryFacets_isEmpty]
          cases hbe : (linkBoundaryFacets link).isEmpty with
          | true => rfl
          | false => rw [hi, hbe] at hint; exact absurd rfl hint
        rw [Bool.not_eq_true] at hint
        simp only [hsz, hdeg, hint, Bool.not_true, Bool.false_eq_true, if_false, List.all_eq_true,
          beq_iff_eq]
        exact ⟨fun h => ⟨hsz', hdeg', hint', h⟩, fun h => h.boundary_closed⟩
    · have hdeg' : ¬ ∀ f ∈ linkFacets link,
          (linkFacets link).count f = 1 ∨ (linkFacets link).count f = 2 := by
        simpa only [List.all_eq_true, Bool.or_eq_true, beq_iff_eq] using hdeg
      rw [Bool.not_eq_true] at hdeg
      simp only [hsz, hdeg, Bool.not_true, Bool.not_false, Bool.false_eq_true, if_false, if_true,
        false_iff]
      exact fun h => hdeg' h.deg
  · have hsz' : ¬ ∀ s ∈ link, s.length = D := by
      simpa only [List.all_eq_true, beq_iff_eq] using hsz
    rw [Bool.not_eq_true] at hsz
    simp only [hsz, Bool.not_false, if_true, Bool.false_eq_true, false_iff]
    exact fun h => hsz' h.size

theorem LinkFacetsSpec.congr {D : Nat} {link : List (List Nat)} {P Q : Prop} (h : P ↔ Q) :
    LinkFacetsSpec D link P ↔ LinkFacetsSpec D link Q :=
  ⟨fun s => ⟨s.size, s.deg, fun q => s.interior_closed (h.2 q), s.boundary_closed⟩,
   fun s => ⟨s.size, s.deg, fun p => s.interior_closed (h.1 p), s.boundary_closed⟩⟩

/-- (c) `D ≥ 3`: non-empty link, connected 1-skeleton, `LinkFacetsSpec`, and for `D = 3` the
Euler characteristic and the number of boundary components of the link surface are those of a
sphere (interior vertex: χ = 2, no boundary) or of a disc (boundary vertex: χ = 1, one boundary
circle); `surfaceChi` and `surfaceBoundaryComponents` are kept as executable functions -/
theorem vertexLinkOk_ge3_iff (K : Cx) (v : Nat) (hD : 3 ≤ K.D) :
    vertexLinkOk K v = true ↔
      vertexLink K v ≠ [] ∧
      (∀ u w, (∃ s ∈ vertexLink K v, u ∈ s) → (∃ s ∈ vertexLink K v, w ∈ s) →
        GReach (linkSkeletonEdges (vertexLink K v)) u w) ∧
      LinkFacetsSpec K.D (vertexLink K v) (v ∉ boundaryVerts K) ∧
      (K.D = 3 →
        surfaceChi (vertexLink K v) = (if v ∈ boundaryVerts K then 1 else 2) ∧
        surfaceBoundaryComponents (vertexLink K v) = (if v ∈ boundaryVerts K then 1 else 0)) := by
  rw [vertexLinkOk_eq]
  by_cases hemp : vertexLink K v = []
  · rw [hemp]
    simp
  · rw [vertexLink_isEmpty_false K v hemp]
    have h1 : (K.D == 1) = false := by
      rw [← Bool.not_eq_true, beq_iff_eq]; omega
    have h2 : (K.D == 2) = false := by
      rw [← Bool.not_eq_true, beq_iff_eq]; omega
    simp only [Bool.false_eq_true, if_false, h1, h2, Bool.and_eq_true, linkSkeletonConnected_iff,
      linkFacetsOk_iff]
    rw [LinkFacetsSpec.congr (interior_iff K v)]
    refine ⟨fun h => ⟨hemp, h.1.1, h.1.2, ?_⟩, fun h => ⟨⟨h.2.1, h.2.2.1⟩, ?_⟩⟩
    · intro h3
      have h3' : (K.D == 3) = true := by rw [h3]; rfl
      have := h.2
      rw [if_pos h3'] at this
      by_cases hb : v ∈ boundaryVerts K
      · have hi : (!(boundaryVerts K).contains v) = false := by
          rw [← Bool.not_eq_true, interior_iff]; exact fun h => h hb
        rw [hi] at this
        simpa only [hb, if_true, Bool.false_eq_true, if_false, Bool.and_eq_true, beq_iff_eq]
          using this
      · have hi : (!(boundaryVerts K).contains v) = true := (interior_iff K v).2 hb
        rw [hi] at this
        simpa only [hb, if_true, if_false, Bool.and_eq_true, beq_iff_eq] using this
    · by_cases h3 : K.D = 3
      · have h3' : (K.D == 3) = true := by rw [h3]; rfl
        have := h.2.2.2 h3
        rw [if_pos h3']
        by_cases hb : v ∈ boundaryVerts K
        · have hi : (!(boundaryVerts K).contains v) = false := by
            rw [← Bool.not_eq_true, interior_iff]; exact fun h => h hb
          rw [hi]
          simpa only [hb, if_true, Bool.false_eq_true, if_false, Bool.and_eq_true, beq_iff_eq]
            using this
        · have hi : (!(boundaryVerts K).contains v) = true := (interior_iff K v).2 hb
          rw [hi]
          simpa only [hb, if_true, if_false, Bool.and_eq_true, beq_iff_eq] using this
      · have h3' : (K.D == 3) = false := by
          rw [← Bool.not_eq_true, beq_iff_eq]; exact h3
        rw [h3']
        rfl

/-- `D = 3` -/
theorem vertexLinkOk_D3_iff (K : Cx) (v : Nat) (hD : K.D = 3) :
    vertexLinkOk K v = true ↔
      vertexLink K v ≠ [] ∧
      (∀ u w, (∃ s ∈ vertexLink K v, u ∈ s) → (∃ s ∈ vertexLink K v, w ∈ s) →
        GReach (linkSkeletonEdges (vertexLink K v)) u w) ∧
      LinkFacetsSpec 3 (vertexLink K v) (v ∉ boundaryVerts K) ∧
      surfaceChi (vertexLink K v) = (if v ∈ boundaryVerts K then 1 else 2) ∧
      surfaceBoundaryComponents (vertexLink K v) = (if v ∈ boundaryVerts K then 1 else 0) := by
  rw [vertexLinkOk_ge3_iff K v (by omega), hD]
  exact ⟨fun h => ⟨h.1, h.2.1, h.2.2.1, h.2.2.2 rfl⟩, fun h => ⟨h.1, h.2.1, h.2.2.1, fun _ => h.2.2.2⟩⟩

/-- `D ≥ 4` -/
theorem vertexLinkOk_ge4_iff (K : Cx) (v : Nat) (hD : 4 ≤ K.D) :
    vertexLinkOk K v = true ↔
      vertexLink K v ≠ [] ∧
      (∀ u w, (∃ s ∈ vertexLink K v, u ∈ s) → (∃ s ∈ vertexLink K v, w ∈ s) →
        GReach (linkSkeletonEdges (vertexLink K v)) u w) ∧
      LinkFacetsSpec K.D (vertexLink K v) (v ∉ boundaryVerts K) := by
  rw [vertexLinkOk_ge3_iff K v (by omega)]
  exact ⟨fun h => ⟨h.1, h.2.1, h.2.2.1⟩, fun h => ⟨h.1, h.2.1, h.2.2, fun h3 => by omega⟩⟩

/-! ### the whole check -/

theorem vertexLinksOk_iff (K : Cx) :
    vertexLinksOk K = true ↔ (K.cells = [] ∨ ∀ v ∈ K.verts, vertexLinkOk K v.id = true) := by
  unfold vertexLinksOk
  by_cases hc : K.cells = []
  · simp [hc]
  · have hc' : K.cells.isEmpty = false := by
      rw [← Bool.not_eq_true, List.isEmpty_iff]; exact hc
    simp only [hc, hc', Bool.false_eq_true, if_false, false_or, List.all_eq_true]

/-- a stored vertex that lies in no cell is rejected as soon as there is a cell -/
theorem reject_isolated_vertex_links (K : Cx) (hne : K.cells ≠ []) (v : Vtx) (hv : v ∈ K.verts)
    (h : ∀ c ∈ K.cells, v.id ∉ c.vs) : vertexLinksOk K = false := by
  rw [← Bool.not_eq_true, vertexLinksOk_iff]
  rintro (hc | hall)
  · exact hne hc
  · have := hall v hv
    rw [vertexLinkOk_false_of_isolated K v.id h] at this
    cases this

/-- a failed vertex-link check fails Level 3 whenever that check runs: at guarantee ≥ 2
(PLManifoldStrict) always, at guarantee ≥ 1 (PLManifold) at completion time -/
theorem checkL3_false_of_vertexLinks (K : Cx) (g : Guarantee) (b : Bool)
    (hg : g ≥ 2 ∨ (g ≥ 1 ∧ b = true)) (h : vertexLinksOk K = false) : checkL3 K g b = false := by
  rw [← Bool.not_eq_true, checkL3_iff]
  rintro ⟨_, _, _, _, hv, _⟩
  rw [hv hg] at h
  cases h

/-! ### non-vacuity for §9 -/

/-- stored vertices with the given ids (coordinates play no role in the vertex-link check) -/
def vtxs (ids : List Nat) : List Vtx := ids.map (fun i => ⟨i, none, none⟩)

/-- four triangles around the interior vertex `9` (a closed fan) -/
def fanClosed : Cx :=
  { D := 2, verts := vtxs [0, 1, 2, 3, 9],
    cells := [⟨0, [9, 0, 1], none⟩, ⟨1, [9, 1, 2], none⟩, ⟨2, [9, 2, 3], none⟩,
              ⟨3, [9, 3, 0], none⟩] }

theorem fanClosed_link : vertexLink fanClosed 9 = [[0, 1], [1, 2], [2, 3], [3, 0]] := by decide
theorem fanClosed_interior : 9 ∉ boundaryVerts fanClosed := by decide
/-- the interior vertex `9` is accepted (its link is the cycle 0–1–2–3–0) … -/
theorem fanClosed_centre_ok : vertexLinkOk fanClosed 9 = true := by decide
/-- … and so are the four boundary vertices (each link is a path of two edges) -/
theorem fanClosed_ok : vertexLinksOk fanClosed = true := by decide

/-- so the right-hand side of `vertexLinkOk_D2_iff` is inhabited: the link edges of `9` form a
connected graph of degree ≤ 2 without degree-1 vertices -/
theorem fanClosed_link_spec :
    LinkGraphSpec (linkEdges2 (vertexLink fanClosed 9)) (some 0) := by
  have h := ((vertexLinkOk_D2_iff fanClosed 9 rfl).1 fanClosed_centre_ok).2.2
  rwa [if_neg fanClosed_interior] at h

/-- the same fan with the triangle `[9,3,0]` missing: `9` is now a boundary vertex -/
def fanOpen : Cx :=
  { D := 2, verts := vtxs [0, 1, 2, 3, 9],
    cells := [⟨0, [9, 0, 1], none⟩, ⟨1, [9, 1, 2], none⟩, ⟨2, [9, 2, 3], none⟩] }

theorem fanOpen_link : vertexLink fanOpen 9 = [[0, 1], [1, 2], [2, 3]] := by decide
theorem fanOpen_boundary : 9 ∈ boundaryVerts fanOpen := by decide
/-- accepted as a boundary vertex (its link is the path 0–1–2–3) -/
theorem fanOpen_centre_ok : vertexLinkOk fanOpen 9 = true := by decide
theorem fanOpen_ok : vertexLinksOk fanOpen = true := by decide

theorem fanOpen_link_spec :
    LinkGraphSpec (linkEdges2 (vertexLink fanOpen 9)) (some 2) := by
  have h := ((vertexLinkOk_D2_iff fanOpen 9 rfl).1 fanOpen_centre_ok).2.2
  rwa [if_pos fanOpen_boundary] at h

/-- two closed fans (around `0,1,2` and around `3,4,5`) sharing only the vertex `9` -/
def bowTie2 : Cx :=
  { D := 2, verts := vtxs [0, 1, 2, 3, 4, 5, 9],
    cells := [⟨0, [9, 0, 1], none⟩, ⟨1, [9, 1, 2], none⟩, ⟨2, [9, 2, 0], none⟩,
              ⟨3, [9, 3, 4], none⟩, ⟨4, [9, 4, 5], none⟩, ⟨5, [9, 5, 3], none⟩] }

theorem bowTie2_centre_rejected : vertexLinkOk bowTie2 9 = false := by decide
theorem bowTie2_rejected : vertexLinksOk bowTie2 = false := by decide

/-- … because the link of `9` (two disjoint triangles' boundaries) is not connected -/
theorem bowTie2_link_disconnected :
    ¬ ∀ u v, IsVert (linkEdges2 (vertexLink bowTie2 9)) u →
      IsVert (linkEdges2 (vertexLink bowTie2 9)) v →
      GReach (linkEdges2 (vertexLink bowTie2 9)) u v := by
  rw [← graphConnected_iff]
  decide

/-- a tetrahedron `0123` subdivided from the interior point `9`: four tetrahedra -/
def tetSub : Cx :=
  { D := 3, verts := vtxs [0, 1, 2, 3, 9],
    cells := [⟨0, [0, 1, 2, 9], none⟩, ⟨1, [0, 1, 3, 9], none⟩, ⟨2, [0, 2, 3, 9], none⟩,
              ⟨3, [1, 2, 3, 9], none⟩] }

/-- the link of `9` is the boundary of the tetrahedron `0123` -/
theorem tetSub_link :
    vertexLink tetSub 9 = [[0, 1, 2], [0, 1, 3], [0, 2, 3], [1, 2, 3]] := by decide
theorem tetSub_interior : 9 ∉ boundaryVerts tetSub := by decide
theorem tetSub_chi : surfaceChi (vertexLink tetSub 9) = 2 := by decide
theorem tetSub_boundaryComponents : surfaceBoundaryComponents (vertexLink tetSub 9) = 0 := by
  decide
theorem tetSub_centre_ok : vertexLinkOk tetSub 9 = true := by decide
/-- the four corners (boundary vertices whose link is a disc of three triangles) pass as well -/
theorem tetSub_ok : vertexLinksOk tetSub = true := by decide

/-- so the right-hand side of `vertexLinkOk_D3_iff` is inhabited -/
theorem tetSub_link_spec :
    (∀ u w, (∃ s ∈ vertexLink tetSub 9, u ∈ s) → (∃ s ∈ vertexLink tetSub 9, w ∈ s) →
      GReach (linkSkeletonEdges (vertexLink tetSub 9)) u w) ∧
    LinkFacetsSpec 3 (vertexLink tetSub 9) (9 ∉ boundaryVerts tetSub) := by
  have h := (vertexLinkOk_D3_iff tetSub 9 rfl).1 tetSub_centre_ok
  exact ⟨h.2.1, h.2.2.1⟩

/-- two such subdivided tetrahedra glued only at the vertex `9` (a pinched vertex) -/
def pinched : Cx :=
  { D := 3, verts := vtxs [0, 1, 2, 3, 4, 5, 6, 7, 9],
    cells := [⟨0, [0, 1, 2, 9], none⟩, ⟨1, [0, 1, 3, 9], none⟩, ⟨2, [0, 2, 3, 9], none⟩,
              ⟨3, [1, 2, 3, 9], none⟩, ⟨4, [4, 5, 6, 9], none⟩, ⟨5, [4, 5, 7, 9], none⟩,
              ⟨6, [4, 6, 7, 9], none⟩, ⟨7, [5, 6, 7, 9], none⟩] }

theorem pinched_centre_rejected : vertexLinkOk pinched 9 = false := by decide
theorem pinched_rejected : vertexLinksOk pinched = false := by decide

/-- the facet conditions alone do not see the pinch (the link is two disjoint closed surfaces) … -/
theorem pinched_facets_ok : linkFacetsOk 3 (vertexLink pinched 9) true = true := by decide
/-- … the 1-skeleton test does (and so would χ = 4 ≠ 2) -/
theorem pinched_skeleton_rejected : linkSkeletonConnected (vertexLink pinched 9) = false := by
  decide
theorem pinched_chi : surfaceChi (vertexLink pinched 9) = 4 := by decide

theorem pinched_link_disconnected :
    ¬ ∀ u w, (∃ s ∈ vertexLink pinched 9, u ∈ s) → (∃ s ∈ vertexLink pinched 9, w ∈ s) →
      GReach (linkSkeletonEdges (vertexLink pinched 9)) u w := by
  rw [← linkSkeletonConnected_iff, pinched_skeleton_rejected]
  exact Bool.false_ne_true

/-- the vertices of `linkSkeletonConnected_iff` are the link vertices, not only the endpoints of
skeleton edges: two 0-dimensional link simplices have no edge and are not joined -/
theorem linkSkeletonConnected_two_points : linkSkeletonConnected [[5], [6]] = false := by decide
theorem linkSkeletonConnected_one_point : linkSkeletonConnected [[5]] = true := by decide

/-- a stored vertex `8` in no cell: rejected by `reject_isolated_vertex_links` -/
def fanIsolated : Cx := { fanClosed with verts := vtxs [0, 1, 2, 3, 8, 9] }

theorem fanIsolated_rejected : vertexLinksOk fanIsolated = false :=
  reject_isolated_vertex_links fanIsolated (by decide) ⟨8, none, none⟩
    (show (⟨8, none, none⟩ : Vtx) ∈ vtxs [0, 1, 2, 3, 8, 9] from
      List.mem_map.2 ⟨8, by decide, rfl⟩)
    (by decide)

/-- the vertex-link check is what separates guarantee 2 from guarantee 1 (outside completion) in
`checkL3`, for any complex that fails it -/
theorem bowTie2_checkL3 (b : Bool) : checkL3 bowTie2 2 b = false :=
  checkL3_false_of_vertexLinks bowTie2 2 b (Or.inl (Nat.le_refl 2)) bowTie2_rejected

/-- `D = 1`: three vertices on a line, the middle one has 2 neighbours, the ends have 1; a
branching vertex (three edges at `1`) is rejected -/
def path3 : Cx :=
  { D := 1, verts := vtxs [0, 1, 2], cells := [⟨0, [0, 1], none⟩, ⟨1, [1, 2], none⟩] }

def branch3 : Cx :=
  { D := 1, verts := vtxs [0, 1, 2, 3],
    cells := [⟨0, [0, 1], none⟩, ⟨1, [1, 2], none⟩, ⟨2, [1, 3], none⟩] }

theorem path3_ok : vertexLinksOk path3 = true := by decide
theorem branch3_rejected : vertexLinkOk branch3 1 = false := by decide

end DM.C05
