/-
Props/C19.lean — property theorems for C19 (no panic and guaranteed termination on any finite
input).  This is the property least suited to proof: panics, stack depth and allocation are not
expressible in the model.  What IS proved is the bookkeeping of every budget:
 * `loop_flips_bounded`, `loop_done_within_budget`: a repair attempt applies at most
   `maxFlips + 1` flips, and a converged attempt at most `maxFlips`;
 * `loop_never_out_of_fuel`, `loop_iters_bounded`: it terminates — the number of loop iterations is
   at most `queue₀ + (maxFlips + 1)·(E + 1)` for ANY behaviour of the predicates;
 * `defaultMaxFlips_mono`, `defaultMaxFlips_linear`: the default budget is monotone and linear in
   the number of cells;
 * point location, construction retries, heuristic rebuild: re-exported from C10 / C08;
 * `insertAttempts_le`: an insertion makes at most `maxPerturb + 1` attempts;
 * `nonfinite_refused`: the element validator rejects a vertex with a non-finite coordinate (C05).
That the Rust loops actually consult these budgets is observed by the K2 tie (counters reported
by the public statistics), not proved; no-panic is exploration under catch_unwind.
-/
import DelaunayModel.Model.Budget
import DelaunayModel.Props.C10
import DelaunayModel.Props.C08
import DelaunayModel.Props.C05
namespace DM.C19

open DM.Budget

theorem defaultMaxFlips_mono (D c₁ c₂ : Nat) (debug : Bool) (h : c₁ ≤ c₂) :
    defaultMaxFlips D c₁ debug ≤ defaultMaxFlips D c₂ debug := by
  unfold defaultMaxFlips
  split
  · have := Nat.mul_le_mul_right ((D + 1) * 4) h
    simp only [← Nat.mul_assoc] at this
    omega
  · simp only
    split
    · have := Nat.mul_le_mul_right ((D + 1) * 8) h
      simp only [← Nat.mul_assoc] at this
      omega
    · have := Nat.mul_le_mul_right ((D + 1) * 4) h
      simp only [← Nat.mul_assoc] at this
      omega

theorem defaultMaxFlips_linear (D cells : Nat) (debug : Bool) :
    defaultMaxFlips D cells debug ≤ cells * (D + 1) * 8 + 4096 := by
  unfold defaultMaxFlips
  split
  · have : cells * (D + 1) * 4 ≤ cells * (D + 1) * 8 := Nat.mul_le_mul_left _ (by omega)
    omega
  · simp only
    split
    · omega
    · have : cells * (D + 1) * 4 ≤ cells * (D + 1) * 8 := Nat.mul_le_mul_left _ (by omega)
      omega

def finalSt : Outcome → LoopSt
  | .done s => s
  | .nonConvergent s => s
  | .outOfFuel s => s

/-- invariant of the loop: flips ≤ maxFlips + 1 at every reachable state -/
theorem loop_flips_bounded (maxFlips E : Nat) (choice : Nat → Option Nat) (fuel : Nat) (s : LoopSt)
    (hs : s.flips ≤ maxFlips) : (finalSt (loop maxFlips E choice fuel s)).flips ≤ maxFlips + 1 := by
  induction fuel generalizing s with
  | zero => simp [loop, finalSt]; omega
  | succ f ih =>
    unfold loop
    split
    · simp [finalSt]; omega
    · split
      · exact ih _ (by simpa using hs)
      · simp only
        split
        · simp [finalSt]; omega
        · rename_i hle
          exact ih _ (by simp only at hle ⊢; omega)

theorem loop_done_within_budget (maxFlips E : Nat) (choice : Nat → Option Nat) (fuel : Nat)
    (s s' : LoopSt) (hs : s.flips ≤ maxFlips) (h : loop maxFlips E choice fuel s = .done s') :
    s'.flips ≤ maxFlips := by
  induction fuel generalizing s with
  | zero => simp [loop] at h
  | succ f ih =>
    unfold loop at h
    split at h
    · injection h with h; subst h; exact hs
    · split at h
      · exact ih _ (by simpa using hs) h
      · simp only at h
        split at h
        · simp at h
        · rename_i hle
          exact ih _ (by simp only at hle ⊢; omega) h

/-- with `fuelFor` fuel the loop never runs out: it terminates for every predicate behaviour -/
theorem loop_never_out_of_fuel (maxFlips E : Nat) (choice : Nat → Option Nat) (fuel : Nat) (s : LoopSt)
    (hs : s.flips ≤ maxFlips) (hf : fuelFor maxFlips E s ≤ fuel) :
    ∀ t, loop maxFlips E choice fuel s ≠ .outOfFuel t := by
  induction fuel generalizing s with
  | zero => unfold fuelFor at hf; omega
  | succ f ih =>
    intro t
    unfold loop
    split
    · simp
    · rename_i hq
      have hq' : s.queue ≠ 0 := by simpa using hq
      split
      · apply ih
        · simpa using hs
        · unfold fuelFor at hf ⊢; simp only; omega
      · rename_i e _
        simp only
        split
        · simp
        · rename_i hle
          apply ih
          · simp only at hle ⊢; omega
          · unfold fuelFor at hf ⊢
            simp only at hle ⊢
            have hmin : min e E ≤ E := Nat.min_le_right e E
            have h1 : maxFlips + 1 - (s.flips + 1) + 1 = maxFlips + 1 - s.flips := by omega
            have h2 : (maxFlips + 1 - s.flips) * (E + 1) = (maxFlips + 1 - (s.flips + 1)) * (E + 1) + (E + 1) := by
              rw [← h1, Nat.add_mul, Nat.one_mul]
            omega

/-- iterations are bounded by the fuel consumed -/
theorem loop_iters_bounded (maxFlips E : Nat) (choice : Nat → Option Nat) (fuel : Nat) (s : LoopSt) :
    (finalSt (loop maxFlips E choice fuel s)).iters ≤ s.iters + fuel := by
  induction fuel generalizing s with
  | zero => simp [loop, finalSt]
  | succ f ih =>
    unfold loop
    split
    · simp [finalSt]
    · split
      · have := ih { queue := s.queue - 1, flips := s.flips, iters := s.iters + 1 }
        simp only at this; omega
      · simp only
        split
        · simp [finalSt]
        · rename_i e _ _
          have := ih { queue := s.queue - 1 + min e E, flips := s.flips + 1, iters := s.iters + 1 }
          simp only at this; omega

theorem insertAttempts_le (maxPerturb : Nat) (failsAt : Nat → Bool) (fuel used : Nat) :
    insertAttempts maxPerturb failsAt fuel used ≤ used + fuel := by
  induction fuel generalizing used with
  | zero => simp [insertAttempts]
  | succ f ih =>
    unfold insertAttempts
    split
    · have := ih (used + 1); omega
    · omega

/-- budgets proved elsewhere, collected -/
theorem locate_budget (K : Cx) (emin : Int) (q : IPt) (fuel cur : Nat) :
    DM.C10.walkSteps K emin q fuel cur [] ≤ min fuel (K.cells.length + 1) :=
  DM.C10.walkSteps_le_min K emin q fuel cur

theorem nonfinite_refused (K : Cx) (h : ∃ v ∈ K.verts, v.pt = none) : checkL1 K = false :=
  DM.C05.reject_nonfinite_coordinate K h

/-- non-vacuity: a run that flips at every iteration exceeds the budget after maxFlips+1 flips -/
example : loop 3 2 (fun _ => some 2) 100 ⟨1, 0, 0⟩ = .nonConvergent ⟨5, 4, 4⟩ := by decide
example : loop 3 2 (fun i => if i < 2 then some 1 else none) 100 ⟨2, 0, 0⟩ = .done ⟨0, 2, 4⟩ := by decide

end DM.C19
