/-
Lemmas/OrderAux.lean — helper lemmas for Props/C17 about `Model/Order.lean`:

 * insertion sort: permutation, sortedness of the primary keys, and (for points of one common
   length) sortedness w.r.t. the full comparator `cmpKeyed`;
 * the comparator algebra: `compat` (the composition table of a total preorder given as a
   three-way comparison), closed under the lexicographic combination `Ordering.then`;
 * greedy dedup: the accumulator-free form `dg` and its sublist / separation / cover properties.

Core only.
-/
import DelaunayModel.Model.Order
namespace DM.OrderAux

open DM DM.Order

/-! ### insertion sort is a permutation -/

theorem insertKeyed_perm (x : Nat × OV) (l : List (Nat × OV)) : (insertKeyed x l).Perm (x :: l) := by
  induction l with
  | nil => simp [insertKeyed]
  | cons y ys ih =>
    simp only [insertKeyed]
    split
    · exact (List.Perm.cons y ih).trans (List.Perm.swap x y ys)
    · exact List.Perm.refl _

theorem sortKeyed_perm (l : List (Nat × OV)) : (sortKeyed l).Perm l := by
  induction l with
  | nil => simp [sortKeyed]
  | cons x xs ih =>
    simp only [sortKeyed]
    exact (insertKeyed_perm x (sortKeyed xs)).trans (List.Perm.cons x ih)

theorem orderByKey_perm (key : OV → Nat) (vs : List OV) : (orderByKey key vs).Perm vs := by
  unfold orderByKey
  have h := (sortKeyed_perm (vs.map (fun v => (key v, v)))).map (·.2)
  simpa [List.map_map, Function.comp_def] using h

/-! ### three-way comparisons that are total preorders -/

/-- the composition table of a total preorder presented as a three-way comparison:
`compat (cmp a b) (cmp b c) (cmp a c)` -/
def compat : Ordering → Ordering → Ordering → Bool
  | .lt, .lt, o | .lt, .eq, o | .eq, .lt, o => o == .lt
  | .eq, .eq, o => o == .eq
  | .gt, .gt, o | .gt, .eq, o | .eq, .gt, o => o == .gt
  | .lt, .gt, _ | .gt, .lt, _ => true

/-- the table is closed under the lexicographic combination -/
theorem compat_then {o1 o2 o3 p1 p2 p3 : Ordering} :
    compat o1 o2 o3 = true → compat p1 p2 p3 = true →
      compat (o1.then p1) (o2.then p2) (o3.then p3) = true := by
  revert o1 o2 o3 p1 p2 p3
  decide

theorem compat_le_trans {o1 o2 o3 : Ordering} :
    compat o1 o2 o3 = true → o1 ≠ .gt → o2 ≠ .gt → o3 ≠ .gt := by
  revert o1 o2 o3
  decide

/-- a three-way comparison built from a strict weak order (asymmetric + negatively transitive);
`p = a<b, p' = b<a, q = b<c, q' = c<b, r = a<c, r' = c<a` -/
theorem compat_of_strictWeak : ∀ (p q r p' q' r' : Bool),
    ((!p || !p') && (!q || !q') && (!r || !r') &&
      (p || q || !r) && (q' || p' || !r') && (r || q' || !p) && (p' || r || !q) &&
      (q || r' || !p') && (r' || p || !q')) = true →
    compat (if p then .lt else if p' then .gt else .eq) (if q then .lt else if q' then .gt else .eq)
      (if r then .lt else if r' then .gt else .eq) = true := by
  decide

theorem cmpNat_cases (a b : Nat) :
    (a < b ∧ cmpNat a b = .lt) ∨ (a = b ∧ cmpNat a b = .eq) ∨ (b < a ∧ cmpNat a b = .gt) := by
  unfold cmpNat
  rcases Nat.lt_trichotomy a b with h | h | h
  · exact Or.inl ⟨h, if_pos h⟩
  · subst h
    exact Or.inr (Or.inl ⟨rfl, by rw [if_neg (Nat.lt_irrefl _), if_neg (Nat.lt_irrefl _)]⟩)
  · exact Or.inr (Or.inr ⟨h, by rw [if_neg (by omega), if_pos h]⟩)

theorem cmpNat_swap (a b : Nat) : cmpNat a b = (cmpNat b a).swap := by
  rcases cmpNat_cases a b with ⟨h1, e1⟩ | ⟨h1, e1⟩ | ⟨h1, e1⟩ <;>
  rcases cmpNat_cases b a with ⟨h2, e2⟩ | ⟨h2, e2⟩ | ⟨h2, e2⟩ <;>
  first
    | (exfalso; omega)
    | (rw [e1, e2]; rfl)

theorem cmpNat_compat (a b c : Nat) : compat (cmpNat a b) (cmpNat b c) (cmpNat a c) = true := by
  rcases cmpNat_cases a b with ⟨h1, e1⟩ | ⟨h1, e1⟩ | ⟨h1, e1⟩ <;>
  rcases cmpNat_cases b c with ⟨h2, e2⟩ | ⟨h2, e2⟩ | ⟨h2, e2⟩ <;>
  rcases cmpNat_cases a c with ⟨h3, e3⟩ | ⟨h3, e3⟩ | ⟨h3, e3⟩ <;>
  first
    | (exfalso; omega)
    | (rw [e1, e2, e3]; rfl)

/-! ### `Q.lt` on positive denominators -/

theorem ofDy_den_pos (d : Dy) : 0 < (Q.ofDy d).den := by
  unfold Q.ofDy
  split
  · exact Nat.one_pos
  · exact Nat.two_pow_pos _

theorem qlt_asymm (a b : Q) : (!Q.lt a b || !Q.lt b a) = true := by
  simp only [Q.lt, Bool.or_eq_true, Bool.not_eq_true', decide_eq_false_iff_not]
  omega

/-- negative transitivity of `Q.lt` (transitivity of `≤`) for positive denominators -/
theorem qlt_negTrans {a b c : Q} (_ha : 0 < a.den) (hb : 0 < b.den) (_hc : 0 < c.den) :
    (Q.lt a b || Q.lt b c || !Q.lt a c) = true := by
  suffices h : Q.lt a b = false → Q.lt b c = false → Q.lt a c = false by
    cases h1 : Q.lt a b <;> cases h2 : Q.lt b c <;> simp_all
  simp only [Q.lt, decide_eq_false_iff_not, Int.not_lt]
  intro h1 h2
  -- h1 : b.num * a.den ≤ a.num * b.den,  h2 : c.num * b.den ≤ b.num * c.den
  have ha' : (0 : Int) ≤ (a.den : Int) := Int.natCast_nonneg _
  have hc' : (0 : Int) ≤ (c.den : Int) := Int.natCast_nonneg _
  have hb' : (0 : Int) < (b.den : Int) := by exact_mod_cast hb
  have e1 := Int.mul_le_mul_of_nonneg_right h2 ha'
  have e2 := Int.mul_le_mul_of_nonneg_right h1 hc'
  have e3 : c.num * ↑a.den * ↑b.den ≤ a.num * ↑c.den * ↑b.den := by
    have t1 : c.num * ↑a.den * ↑b.den = c.num * ↑b.den * ↑a.den := by ac_rfl
    have t2 : a.num * ↑c.den * ↑b.den = a.num * ↑b.den * ↑c.den := by ac_rfl
    have t3 : b.num * ↑c.den * ↑a.den = b.num * ↑a.den * ↑c.den := by ac_rfl
    rw [t1, t2]
    exact Int.le_trans e1 (t3 ▸ e2)
  exact Int.le_of_mul_le_mul_right e3 hb'

/-- the coordinate comparison -/
abbrev cmpD (a b : Dy) : Ordering := cmpQ (Q.ofDy a) (Q.ofDy b)

theorem cmpD_swap (a b : Dy) : cmpD a b = (cmpD b a).swap := by
  unfold cmpD cmpQ
  have h1 := qlt_asymm (Q.ofDy a) (Q.ofDy b)
  cases h : Q.lt (Q.ofDy a) (Q.ofDy b) <;> cases h' : Q.lt (Q.ofDy b) (Q.ofDy a) <;>
    simp_all [Ordering.swap]

theorem cmpD_compat (a b c : Dy) : compat (cmpD a b) (cmpD b c) (cmpD a c) = true := by
  unfold cmpD cmpQ
  have pa := ofDy_den_pos a
  have pb := ofDy_den_pos b
  have pc := ofDy_den_pos c
  apply compat_of_strictWeak
  simp only [qlt_asymm, qlt_negTrans pa pb pc, qlt_negTrans pc pb pa, qlt_negTrans pa pc pb,
    qlt_negTrans pb pa pc, qlt_negTrans pb pc pa, qlt_negTrans pc pa pb, Bool.and_self]

/-! ### `cmpPt` and `cmpKeyed` -/

theorem cmpPt_cons (a : Dy) (as : DPt) (b : Dy) (bs : DPt) :
    cmpPt (a :: as) (b :: bs) = (cmpD a b).then (cmpPt as bs) := by
  simp only [cmpPt, cmpD]
  cases cmpQ (Q.ofDy a) (Q.ofDy b) <;> rfl

theorem swap_then (o p : Ordering) : (o.then p).swap = o.swap.then p.swap := by
  cases o <;> rfl

theorem cmpPt_swap (a b : DPt) : cmpPt a b = (cmpPt b a).swap := by
  induction a generalizing b with
  | nil => cases b <;> simp [cmpPt, Ordering.swap]
  | cons x xs ih =>
    cases b with
    | nil => simp [cmpPt, Ordering.swap]
    | cons y ys => rw [cmpPt_cons, cmpPt_cons, swap_then, ← cmpD_swap, ← ih]

theorem cmpPt_compat {a b c : DPt} (hab : a.length = b.length) (hbc : b.length = c.length) :
    compat (cmpPt a b) (cmpPt b c) (cmpPt a c) = true := by
  induction a generalizing b c with
  | nil =>
    cases b with
    | nil =>
      cases c with
      | nil => simp [cmpPt, compat]
      | cons z zs => simp at hbc
    | cons y ys => simp at hab
  | cons x xs ih =>
    cases b with
    | nil => simp at hab
    | cons y ys =>
      cases c with
      | nil => simp at hbc
      | cons z zs =>
        simp only [cmpPt_cons]
        exact compat_then (cmpD_compat x y z) (ih (by simpa using hab) (by simpa using hbc))

theorem cmpKeyed_eq (a b : Nat × OV) :
    cmpKeyed a b = (cmpNat a.1 b.1).then ((cmpPt a.2.pt b.2.pt).then (cmpNat a.2.idx b.2.idx)) := by
  unfold cmpKeyed
  cases cmpNat a.1 b.1 <;> cases cmpPt a.2.pt b.2.pt <;> rfl

theorem cmpKeyed_swap (a b : Nat × OV) : cmpKeyed a b = (cmpKeyed b a).swap := by
  rw [cmpKeyed_eq, cmpKeyed_eq, swap_then, swap_then, ← cmpNat_swap, ← cmpPt_swap, ← cmpNat_swap]

theorem cmpKeyed_compat {a b c : Nat × OV} (hab : a.2.pt.length = b.2.pt.length)
    (hbc : b.2.pt.length = c.2.pt.length) :
    compat (cmpKeyed a b) (cmpKeyed b c) (cmpKeyed a c) = true := by
  simp only [cmpKeyed_eq]
  exact compat_then (cmpNat_compat _ _ _) (compat_then (cmpPt_compat hab hbc) (cmpNat_compat _ _ _))

/-- totality: of two keyed vertices one is `≤` the other (no length hypothesis) -/
theorem cmpKeyed_total {a b : Nat × OV} (h : cmpKeyed a b = .gt) : cmpKeyed b a ≠ .gt := by
  rw [cmpKeyed_swap] at h
  cases h' : cmpKeyed b a <;> simp_all [Ordering.swap]

/-- transitivity of `≤` for points of one common length -/
theorem cmpKeyed_le_trans {a b c : Nat × OV} (hab : a.2.pt.length = b.2.pt.length)
    (hbc : b.2.pt.length = c.2.pt.length) :
    cmpKeyed a b ≠ .gt → cmpKeyed b c ≠ .gt → cmpKeyed a c ≠ .gt :=
  compat_le_trans (cmpKeyed_compat hab hbc)

/-- primary keys: `≤` in `cmpKeyed` implies `≤` of the keys -/
theorem key_le_of_cmpKeyed {a b : Nat × OV} (h : cmpKeyed a b ≠ .gt) : a.1 ≤ b.1 := by
  rw [cmpKeyed_eq] at h
  unfold cmpNat at h
  split at h
  · omega
  · split at h
    · simp [Ordering.then] at h
    · omega

theorem key_le_of_cmpKeyed_gt {a b : Nat × OV} (h : cmpKeyed a b = .gt) : b.1 ≤ a.1 :=
  key_le_of_cmpKeyed (cmpKeyed_total h)

/-! ### sortedness of the insertion sort -/

theorem insertKeyed_keys_sorted (x : Nat × OV) {l : List (Nat × OV)}
    (h : l.Pairwise (fun a b => a.1 ≤ b.1)) : (insertKeyed x l).Pairwise (fun a b => a.1 ≤ b.1) := by
  induction l with
  | nil => simp [insertKeyed]
  | cons y ys ih =>
    rw [List.pairwise_cons] at h
    simp only [insertKeyed]
    split
    · rename_i hgt
      have hgt' : cmpKeyed x y = .gt := by simpa using hgt
      rw [List.pairwise_cons]
      refine ⟨?_, ih h.2⟩
      intro z hz
      rcases List.mem_cons.1 ((insertKeyed_perm x ys).mem_iff.1 hz) with rfl | hz'
      · exact key_le_of_cmpKeyed_gt hgt'
      · exact h.1 z hz'
    · rename_i hgt
      have hle : cmpKeyed x y ≠ .gt := by simpa using hgt
      have hxy := key_le_of_cmpKeyed hle
      rw [List.pairwise_cons]
      refine ⟨?_, List.pairwise_cons.2 h⟩
      intro z hz
      rcases List.mem_cons.1 hz with rfl | hz'
      · exact hxy
      · exact Nat.le_trans hxy (h.1 z hz')

theorem sortKeyed_keys_sorted' (l : List (Nat × OV)) :
    (sortKeyed l).Pairwise (fun a b => a.1 ≤ b.1) := by
  induction l with
  | nil => simp [sortKeyed]
  | cons x xs ih => exact insertKeyed_keys_sorted x ih

theorem insertKeyed_sorted {n : Nat} (x : Nat × OV) {l : List (Nat × OV)}
    (hx : x.2.pt.length = n) (hl : ∀ p ∈ l, p.2.pt.length = n)
    (h : l.Pairwise (fun a b => cmpKeyed a b ≠ .gt)) :
    (insertKeyed x l).Pairwise (fun a b => cmpKeyed a b ≠ .gt) := by
  induction l with
  | nil => simp [insertKeyed]
  | cons y ys ih =>
    rw [List.pairwise_cons] at h
    have hy : y.2.pt.length = n := hl y (List.mem_cons_self ..)
    have hys : ∀ p ∈ ys, p.2.pt.length = n := fun p hp => hl p (List.mem_cons_of_mem _ hp)
    simp only [insertKeyed]
    split
    · rename_i hgt
      have hgt' : cmpKeyed x y = .gt := by simpa using hgt
      rw [List.pairwise_cons]
      refine ⟨?_, ih hys h.2⟩
      intro z hz
      rcases List.mem_cons.1 ((insertKeyed_perm x ys).mem_iff.1 hz) with rfl | hz'
      · exact cmpKeyed_total hgt'
      · exact h.1 z hz'
    · rename_i hgt
      have hle : cmpKeyed x y ≠ .gt := by simpa using hgt
      rw [List.pairwise_cons]
      refine ⟨?_, List.pairwise_cons.2 h⟩
      intro z hz
      rcases List.mem_cons.1 hz with rfl | hz'
      · exact hle
      · exact cmpKeyed_le_trans (hx.trans hy.symm) (hy.trans (hys z hz').symm) hle (h.1 z hz')

theorem sortKeyed_sorted_uniform' {n : Nat} (l : List (Nat × OV)) (hl : ∀ p ∈ l, p.2.pt.length = n) :
    (sortKeyed l).Pairwise (fun a b => cmpKeyed a b ≠ .gt) := by
  induction l with
  | nil => simp [sortKeyed]
  | cons x xs ih =>
    have hxs : ∀ p ∈ xs, p.2.pt.length = n := fun p hp => hl p (List.mem_cons_of_mem _ hp)
    exact insertKeyed_sorted x (hl x (List.mem_cons_self ..))
      (fun p hp => hxs p ((sortKeyed_perm xs).mem_iff.1 hp)) (ih hxs)

/-! ### greedy dedup without the accumulator -/

/-- the survivors among `rest`, given the survivors `kept` so far (most recent first) -/
def dg (near : DPt → DPt → Bool) : List OV → List OV → List OV
  | _, [] => []
  | kept, v :: rest => if kept.any (fun u => near v.pt u.pt) then dg near kept rest
                       else v :: dg near (v :: kept) rest

theorem dedupGreedy_eq (near : DPt → DPt → Bool) (kept rest : List OV) :
    dedupGreedy near kept rest = kept.reverse ++ dg near kept rest := by
  induction rest generalizing kept with
  | nil => simp [dedupGreedy, dg]
  | cons v rest ih =>
    simp only [dedupGreedy, dg]
    split
    · exact ih kept
    · rw [ih (v :: kept)]; simp

theorem dedupGreedy_nil_eq (near : DPt → DPt → Bool) (vs : List OV) :
    dedupGreedy near [] vs = dg near [] vs := by
  simp [dedupGreedy_eq]

theorem dg_sublist (near : DPt → DPt → Bool) (kept rest : List OV) :
    (dg near kept rest).Sublist rest := by
  induction rest generalizing kept with
  | nil => simp [dg]
  | cons v rest ih =>
    simp only [dg]
    split
    · exact (ih kept).cons v
    · exact (ih (v :: kept)).cons_cons v

/-- every survivor is not `near` any vertex kept before it -/
theorem dg_far_kept (near : DPt → DPt → Bool) (kept rest : List OV) :
    ∀ v ∈ dg near kept rest, ∀ u ∈ kept, near v.pt u.pt = false := by
  induction rest generalizing kept with
  | nil => simp [dg]
  | cons w rest ih =>
    simp only [dg]
    split
    · exact ih kept
    · rename_i hany
      intro v hv u hu
      rcases List.mem_cons.1 hv with rfl | hv'
      · simp only [List.any_eq_true, not_exists, not_and, Bool.not_eq_true] at hany
        exact hany u hu
      · exact ih (w :: kept) v hv' u (List.mem_cons_of_mem _ hu)

theorem dg_separated (near : DPt → DPt → Bool) (kept rest : List OV) :
    (dg near kept rest).Pairwise (fun u v => near v.pt u.pt = false) := by
  induction rest generalizing kept with
  | nil => simp [dg]
  | cons w rest ih =>
    simp only [dg]
    split
    · exact ih kept
    · rw [List.pairwise_cons]
      exact ⟨fun v hv => dg_far_kept near (w :: kept) rest v hv w (List.mem_cons_self ..),
        ih (w :: kept)⟩

theorem dg_covered (near : DPt → DPt → Bool) (kept rest : List OV) :
    ∀ v ∈ rest, v ∈ dg near kept rest ∨
      ∃ u, (u ∈ kept ∨ u ∈ dg near kept rest) ∧ near v.pt u.pt = true := by
  induction rest generalizing kept with
  | nil => simp
  | cons w rest ih =>
    intro v hv
    simp only [dg]
    split
    · rename_i hany
      rcases List.mem_cons.1 hv with rfl | hv'
      · right
        obtain ⟨u, hu, hn⟩ := List.any_eq_true.1 hany
        exact ⟨u, Or.inl hu, hn⟩
      · exact ih kept v hv'
    · rcases List.mem_cons.1 hv with rfl | hv'
      · exact Or.inl (List.mem_cons_self ..)
      · rcases ih (w :: kept) v hv' with h | ⟨u, hu, hn⟩
        · exact Or.inl (List.mem_cons_of_mem _ h)
        · right
          refine ⟨u, ?_, hn⟩
          rcases hu with hu | hu
          · rcases List.mem_cons.1 hu with rfl | hu'
            · exact Or.inr (List.mem_cons_self ..)
            · exact Or.inl hu'
          · exact Or.inr (List.mem_cons_of_mem _ hu)

end DM.OrderAux
