use delaunay::core::builder::DelaunayTriangulationBuilder;
use delaunay::core::vertex::Vertex;
use delaunay::geometry::point::Point;
use delaunay::geometry::traits::coordinate::Coordinate;
fn main() {
    let sets: Vec<(&str, [f64;2], Vec<[f64; 2]>)> = vec![
        ("case", [4.0, 3.0], vec![[-4.00000000092, 0.75],[13.0,-3.00000000069],[2.5,5.4375],[1.5,2.0625],[-4.5,-3e-12],[0.25,2.9999999999972715],[5.5,0.5625],[-7.75,0.0],[-4.000000000004,-0.9375],[-4.25,11.8125],[6.0,-1.875],[1.0,0.75]]),
        ("plain43", [4.0, 3.0], vec![[0.5,0.75],[1.0,2.25],[2.5,1.5],[1.5,2.0625],[3.5,0.25],[0.25,2.5],[1.5,0.5625],[3.25,2.0],[2.0,0.9375],[3.75,2.8125],[2.0,2.625],[1.0,0.75]]),
        ("plain44", [4.0, 4.0], vec![[0.5,0.75],[1.0,2.25],[2.5,1.5],[1.5,2.0625],[3.5,0.25],[0.25,2.5],[1.5,0.5625],[3.25,2.0],[2.0,0.9375],[3.75,2.8125],[2.0,2.625],[1.0,0.75+2.0]]),
        ("plain21", [2.0, 1.0], vec![[0.5,0.75],[1.0,0.25],[1.5,0.5],[0.25,0.0625],[1.75,0.25],[0.25,0.5],[1.5,0.5625+0.25],[1.25,0.9],[0.8,0.4]]),
    ];
    for (name, dom, pts) in sets {
        let vs: Vec<Vertex<f64, i32, 2>> = pts.iter().enumerate().map(|(i, p)| Vertex::new_with_uuid(Point::new(*p), uuid::Builder::from_random_bytes((1000u128 + i as u128).to_le_bytes()).into_uuid(), Some(i as i32))).collect();
        let r = DelaunayTriangulationBuilder::from_vertices(&vs).toroidal_periodic(dom).build::<i32>();
        match r {
            Ok(dt) => {
                let nb = dt.boundary_facets().count();
                let fv = delaunay::topology::characteristics::euler::count_simplices(dt.tds()).unwrap();
                println!("{name}: Ok nv={} nc={} boundary={} chi={} tds_valid={}", dt.number_of_vertices(), dt.number_of_cells(), nb, delaunay::topology::characteristics::euler::euler_characteristic(&fv), dt.tds().is_valid().is_ok());
            }
            Err(e) => println!("{name}: Err {}", format!("{e}").chars().take(120).collect::<String>()),
        }
    }
}
