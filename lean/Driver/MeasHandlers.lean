/-
Driver/MeasHandlers.lean — K1 handler for C18: every measure returned by the implementation is
compared with its exact rational value (or a rational enclosure when square roots are involved)
to within a relative error of 1e-9.
-/
import DelaunayModel.Model.Proto
import DelaunayModel.Model.Measures
import Driver.CxHandlers
open DM DM.Measures

/-- closed interval of rationals -/
structure Iv where
  lo : Q
  hi : Q

def qOfNatFrac (n d : Nat) : Q := ⟨(n : Int), if d == 0 then 1 else d⟩

/-- enclosure of √q for q ≥ 0 -/
def sqrtIv (q : Q) : Iv :=
  if q.num ≤ 0 then ⟨Q.ofInt 0, Q.ofInt 0⟩ else
  let (lo, hi, sc) := sqrtBounds q.num.toNat q.den
  ⟨qOfNatFrac lo sc, qOfNatFrac hi sc⟩

def ivAdd (a b : Iv) : Iv := ⟨a.lo + b.lo, a.hi + b.hi⟩
def ivScale (k : Q) (a : Iv) : Iv := ⟨k * a.lo, k * a.hi⟩       -- k ≥ 0
def qInv (a : Q) : Q := if a.num > 0 then ⟨(a.den : Int), a.num.toNat⟩ else Q.ofInt 0
def ivDiv (a b : Iv) : Iv := ⟨a.lo * qInv b.hi, a.hi * qInv b.lo⟩   -- positive intervals
def ivPow (a : Iv) : Nat → Iv
  | 0 => ⟨Q.ofInt 1, Q.ofInt 1⟩
  | n+1 => let r := ivPow a n; ⟨a.lo * r.lo, a.hi * r.hi⟩

def relTol : Q := ⟨1, 10 ^ 9⟩

/-- is `v` inside the enclosure widened by the relative tolerance? -/
def ivContainsTol (tol : Q) (a : Iv) (v : Q) : Bool :=
  Q.le (a.lo * (Q.ofInt 1 - tol)) v && Q.le v (a.hi * (Q.ofInt 1 + tol))

def ivContains (a : Iv) (v : Q) : Bool := ivContainsTol relTol a v

def valOf (c : Case) (n : String) : Option (Except String Q) :=
  match c.ob n with
  | some (t :: _) =>
    if t.startsWith "err" then some (.error t)
    else if t.startsWith "panic" then some (.error ("PANIC " ++ t))
    else match (parseF64 t) with
      | some (.fin d) => some (.ok (Q.ofDy d))
      | some _ => some (.error "nonfinite")
      | none => none
  | _ => none

def runMeas (c : Case) : Res :=
  let d := c.argNat "D"
  match (c.recsOf "p").mapM parsePt with
  | none => { status := "skip", detail := "non-finite" }
  | some pts =>
    let emin := minExp pts
    let s := scalePts pts emin
    let unit : Q := Q.scale2 (Q.ofInt 1) emin            -- one integer unit in real units
    let unitPow (k : Nat) : Q := Q.scale2 (Q.ofInt 1) (emin * k)
    let vd := volDet s
    let dfact := Q.ofInt (factorial d : Int)
    let volExact : Q := Q.abs (Q.ofInt vd) * qInv dfact * unitPow d
    let degenerate := vd == 0
    -- below this volume the implementation's absolute 1e-12 degeneracy threshold may fire: no claim
    let tiny := !degenerate && Q.lt volExact ⟨1, 10 ^ 9⟩
    Id.run do
      let mut bad : List String := []
      let mut stats : List String := [s!"meas.D{d}", s!"meas.{(c.arg "variant").takeWhile (· != ':')}"]
      if degenerate then stats := "meas.degenerate" :: stats
      for (n, v) in c.obs do
        if (v.headD "").startsWith "panic" then bad := s!"{n} panicked" :: bad
      if tiny then return { status := "skip", stats := "meas.tiny" :: stats }
      let expectErr (n : String) : List String :=
        match valOf c n with
        | some (.ok v) => [s!"{n} returned a finite value ({qShow v}) for an exactly degenerate simplex"]
        | _ => []
      -- conditioning of the volume computation: κ = ∏|p_i − p_0| / |det| (inverse Hadamard ratio).
      -- For D ≥ 4 the implementation uses the Gram determinant, whose relative error grows like
      -- ε·κ²: Gram-based quantities are compared at 1e-9 + 1e-15·κ² (≈ D·ε·κ²; κ = 10³ doubles the base
      -- tolerance) and not at all once that exceeds 1e-3.
      let p0i := s.headD []
      let had2 : Int := (s.drop 1).foldl (fun acc p => acc * ((p.zip p0i).foldl (fun a (x, y) => a + (x - y) * (x - y)) 0)) 1
      let kappa2 : Q := if vd == 0 then Q.ofInt 0 else ⟨had2, (vd * vd).toNat⟩
      let gramTol : Q := if d ≥ 4 then relTol + (⟨1, 10 ^ 15⟩ : Q) * kappa2 else relTol
      let veryThin := Q.lt ⟨1, 1000⟩ gramTol
      if d ≥ 4 && Q.lt (Q.ofInt 2 * relTol) gramTol then stats := (if veryThin then "meas.gram.very_thin" else "meas.gram.thin") :: stats
      let checkT (tol : Q) (n : String) (iv : Iv) : List String :=
        match valOf c n with
        | some (.ok v) => if ivContainsTol tol iv v then [] else [s!"{n} = {qShow v} is outside the exact value's enclosure [{qShow iv.lo}, {qShow iv.hi}] (rel {qShow tol})"]
        | some (.error e) => [s!"{n} failed ({e}) on a non-degenerate simplex"]
        | none => []
      let check (n : String) (iv : Iv) : List String := checkT relTol n iv
      let checkG (n : String) (iv : Iv) : List String := if veryThin then [] else checkT gramTol n iv
      if degenerate then
        for n in ["volume", "circumradius", "inradius", "circumcenter", "radius_ratio", "normalized_volume"] do
          bad := expectErr n ++ bad
        -- the facets of a degenerate simplex are judged on their own: a non-degenerate facet has
        -- its exact measure, an exactly degenerate one must not come back as a positive number
        if d ≥ 2 then
          let ffact := Q.ofInt (factorial (d - 1) : Int)
          for (f, i) in (facets s).zipIdx do
            let m2 : Q := Q.ofInt (measure2Num f) * qInv (ffact * ffact) * unitPow (2 * (d - 1))
            if m2.num > 0 then
              -- conditioning of a facet's Gram determinant is not modelled here: compare at 1e-6
              bad := checkT ⟨1, 10 ^ 6⟩ s!"facet{i}" (sqrtIv m2) ++ bad
            else
              match valOf c s!"facet{i}" with
              | some (.ok v) => if Q.lt (Q.ofInt 0) v then bad := s!"facet{i} returned {qShow v} for an exactly degenerate facet (exact measure 0)" :: bad
              | _ => pure ()
      else
        let volIv : Iv := ⟨volExact, volExact⟩
        bad := checkG "volume" volIv ++ bad
        -- circumradius
        let (r2n, r2d) := circumradius2 s
        let r2 : Q := (if r2d == 0 then Q.ofInt 0 else ⟨r2n, r2d.toNat⟩) * unitPow 2
        let rIv := sqrtIv r2
        -- the circumradius is measured from a circumcentre held in ABSOLUTE coordinates: its error is
        -- a few ulps of the largest coordinate, whatever the size of the simplex (a simplex of size 1
        -- at distance 2^30 cannot be resolved better than 2^-22 that way); allow 32 ulp(max |c|)
        let maxc0 := pts.foldl (fun a p => p.foldl (fun a x => let v := Q.abs (Q.ofDy x); if Q.lt a v then v else a) a) (Q.ofInt 0)
        let coordSlack : Q := (⟨32, 2 ^ 52⟩ : Q) * maxc0
        let rIvW : Iv := ⟨rIv.lo - coordSlack, rIv.hi + coordSlack⟩
        let farAway := Q.lt (relTol * rIv.lo) coordSlack
        if farAway then stats := "meas.far_from_origin" :: stats
        bad := check "circumradius" rIvW ++ bad
        if (c.ob "circumradius_wc").isSome then bad := check "circumradius_wc" rIvW ++ bad
        -- circumcentre coordinates: absolute tolerance 1e-9 · (R + max |coordinate|)
        match c.ob "circumcenter" with
        | some toks =>
          if (toks.headD "").startsWith "err" then bad := s!"circumcenter failed on a non-degenerate simplex: {toks}" :: bad
          else match toks.mapM (fun t => (parseF64 t).bind F64.dy?) with
            | some cc =>
              let (nums, den) := circumOffset s
              let p0 := s.headD []
              let maxc := pts.foldl (fun a p => p.foldl (fun a x => let v := Q.abs (Q.ofDy x); if Q.lt a v then v else a) a) (Q.ofInt 0)
              let tolA := relTol * (rIv.hi + maxc)
              for j in List.range d do
                let exact := (Q.ofInt (p0.getD j 0) + (if den == 0 then Q.ofInt 0 else
                  (if den > 0 then (⟨nums.getD j 0, den.toNat⟩ : Q) else ⟨-(nums.getD j 0), (-den).toNat⟩))) * unit
                let got := Q.ofDy (cc.getD j Dy.zero)
                if !(Q.le (Q.abs (got - exact)) tolA) then
                  if bad.length < 6 then bad := s!"circumcenter[{j}] = {qShow got}, exact {qShow exact}" :: bad
            | none => bad := "circumcenter has non-finite coordinates" :: bad
        | none => pure ()
        -- facet measures and their sum
        let mut surface : Iv := ⟨Q.ofInt 0, Q.ofInt 0⟩
        if d ≥ 2 then
          let ffact := Q.ofInt (factorial (d - 1) : Int)
          let fs := facets s
          for (f, i) in fs.zipIdx do
            let m2 : Q := Q.ofInt (measure2Num f) * qInv (ffact * ffact) * unitPow (2 * (d - 1))
            let mIv := sqrtIv m2
            surface := ivAdd surface mIv
            if m2.num > 0 then bad := check s!"facet{i}" mIv ++ bad
            else
              -- an exactly degenerate FACET has measure zero: a finite positive value is garbage
              match valOf c s!"facet{i}" with
              | some (.ok v) => if Q.lt (Q.ofInt 0) v then bad := s!"facet{i} returned {qShow v} for an exactly degenerate facet (exact measure 0)" :: bad
              | _ => pure ()
        -- D = 1: the two facets of a segment are points (counting measure 1 each), so the general
        -- formula D·V/S gives half the length - the value the library documents for segments
        if d == 1 then surface := ⟨Q.ofInt 2, Q.ofInt 2⟩
        if d ≥ 1 then
          -- inradius = D V / S
          let inIv := ivDiv (ivScale (Q.ofInt d) volIv) surface
          bad := checkG "inradius" inIv ++ bad
          -- normalised volume = V / (mean edge length)^D
          let els := edgeLens2 s
          let sumE := els.foldl (fun acc e => ivAdd acc (sqrtIv (Q.ofInt e * unitPow 2))) ⟨Q.ofInt 0, Q.ofInt 0⟩
          let avg := ivScale (qInv (Q.ofInt els.length)) sumE
          -- the quality functions document a scale-aware degeneracy threshold
          -- eps = max(1e-12, 1e-8 * mean edge length) (geometry/quality.rs): radius_ratio refuses
          -- inradius < eps, normalized_volume refuses volume < eps, mean edge < eps or
          -- (mean edge)^D < eps.  With a factor-2 collar a DegenerateCell answer there is accepted.
          let eps : Q := let a := (⟨1, 10 ^ 8⟩ : Q) * avg.hi; if Q.lt a ⟨1, 10 ^ 12⟩ then ⟨1, 10 ^ 12⟩ else a
          let eps2 := Q.ofInt 2 * eps
          let refused (n : String) : Bool := match valOf c n with
            | some (.error e) => e == "err:DegenerateCell"
            | _ => false
          if refused "radius_ratio" && Q.lt inIv.lo eps2 then stats := "meas.quality.refused" :: stats
          else if farAway then pure ()      -- inherits the absolute error of the circumradius
          else bad := checkG "radius_ratio" (ivDiv rIv inIv) ++ bad
          if refused "normalized_volume" && (Q.lt volExact eps2 || Q.lt avg.lo eps2 || Q.lt (ivPow avg d).lo eps2) then
            stats := "meas.quality.refused" :: stats
          else bad := checkG "normalized_volume" (ivDiv volIv (ivPow avg d)) ++ bad
      if !bad.isEmpty then return { status := "ORACLE", detail := " ; ".intercalate (bad.reverse.take 5), stats := stats }
      return { status := "ok", stats := stats }
