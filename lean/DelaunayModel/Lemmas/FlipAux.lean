/-
Lemmas/FlipAux.lean — helper lemmas about the bistellar-move model (Model/Flip.lean) used by
Props/C07.lean: `without` as set difference, injectivity of `w ↦ U \ {w}` on `U`, the old/new
cell lists are duplicate-free and disjoint, unfolding of `flipGuard`, membership in `vertexSet`,
facet counting (`facetCount` is additive, permutation invariant, and the facets of `U \ {w}` are
the `U \ {w, x}`).  Core only (no Mathlib).
-/
import DelaunayModel.Model.Flip
import DelaunayModel.Lemmas.CxAux
namespace DM

/-! ### `without` -/

theorem mem_without {U : List Nat} {x y : Nat} : y ∈ without U x ↔ y ∈ U ∧ y ≠ x := by
  simp [without]

theorem not_mem_without_self (U : List Nat) (x : Nat) : x ∉ without U x := by
  simp [mem_without]

theorem without_subset (U : List Nat) (x : Nat) : ∀ y ∈ without U x, y ∈ U :=
  fun _ hy => (mem_without.1 hy).1

theorem without_nodup {U : List Nat} (h : U.Nodup) (x : Nat) : (without U x).Nodup :=
  List.Nodup.sublist List.filter_sublist h

theorem without_comm (U : List Nat) (a b : Nat) :
    without (without U a) b = without (without U b) a := by
  simp only [without, List.filter_filter]
  congr 1
  funext x
  exact Bool.and_comm _ _

/-- `w ↦ U \ {w}` is injective as soon as one of the two omitted vertices is in `U` -/
theorem without_inj {U : List Nat} {x y : Nat} (hx : x ∈ U) (h : without U x = without U y) :
    x = y := by
  apply Classical.byContradiction
  intro hne
  have : x ∈ without U y := mem_without.2 ⟨hx, hne⟩
  rw [← h] at this
  exact not_mem_without_self U x this

theorem map_without_nodup {U L : List Nat} (hL : L.Nodup) (hsub : ∀ x ∈ L, x ∈ U) :
    (L.map (without U)).Nodup := by
  induction L with
  | nil => simp
  | cons a L ih =>
    rw [List.nodup_cons] at hL
    rw [List.map_cons, List.nodup_cons]
    refine ⟨?_, ih hL.2 (fun x hx => hsub x (List.mem_cons_of_mem _ hx))⟩
    intro hmem
    obtain ⟨b, hb, hab⟩ := List.mem_map.1 hmem
    have := without_inj (hsub a List.mem_cons_self) hab.symm
    exact hL.1 (this ▸ hb)

/-! ### the union -/

theorem mem_flipUnion {R I : List Nat} {x : Nat} : x ∈ flipUnion R I ↔ x ∈ R ∨ x ∈ I := by
  simp [flipUnion, mem_sortNat]

theorem flipUnion_comm (R I : List Nat) : flipUnion I R = flipUnion R I :=
  (sortNat_eq_iff_perm _ _).2 List.perm_append_comm

theorem flipUnion_nodup {R I : List Nat} (h : (R ++ I).Nodup) : (flipUnion R I).Nodup :=
  (sortNat_perm _).nodup_iff.2 h

theorem flipOld_swap (R I : List Nat) : flipOld I R = flipNew R I := by
  simp [flipOld, flipNew, flipUnion_comm]

theorem flipNew_swap (R I : List Nat) : flipNew I R = flipOld R I := by
  simp [flipOld, flipNew, flipUnion_comm]

theorem mem_flipOld {R I c : List Nat} :
    c ∈ flipOld R I ↔ ∃ w ∈ I, without (flipUnion R I) w = c := by
  simp [flipOld]

theorem mem_flipNew {R I c : List Nat} :
    c ∈ flipNew R I ↔ ∃ v ∈ R, without (flipUnion R I) v = c := by
  simp [flipNew]

theorem flipOld_length (R I : List Nat) : (flipOld R I).length = I.length := by
  simp [flipOld]

theorem flipNew_length (R I : List Nat) : (flipNew R I).length = R.length := by
  simp [flipNew]

theorem flipOld_nodup {R I : List Nat} (h : (R ++ I).Nodup) : (flipOld R I).Nodup :=
  map_without_nodup (List.nodup_append.1 h).2.1 (fun _ hx => mem_flipUnion.2 (Or.inr hx))

theorem flipNew_nodup {R I : List Nat} (h : (R ++ I).Nodup) : (flipNew R I).Nodup :=
  map_without_nodup (List.nodup_append.1 h).1 (fun _ hx => mem_flipUnion.2 (Or.inl hx))

/-- an old cell is never a new cell (the two faces are disjoint) -/
theorem flipOld_not_flipNew {R I : List Nat} (h : (R ++ I).Nodup) {c : List Nat}
    (ho : c ∈ flipOld R I) : c ∉ flipNew R I := by
  intro hn
  obtain ⟨w, hw, rfl⟩ := mem_flipOld.1 ho
  obtain ⟨v, hv, hvw⟩ := mem_flipNew.1 hn
  have := without_inj (mem_flipUnion.2 (Or.inl hv)) hvw
  exact (List.nodup_append.1 h).2.2 v hv w hw this

/-! ### the guard -/

structure FlipGuardSpec (D : Nat) (cells : List (List Nat)) (R I : List Nat) : Prop where
  nodup : (R ++ I).Nodup
  rne : R ≠ []
  ine : I ≠ []
  len : R.length + I.length = D + 2
  old_mem : ∀ c ∈ flipOld R I, c ∈ cells
  new_not_mem : ∀ c ∈ flipNew R I, c ∉ cells

theorem flipGuard_iff (D : Nat) (cells : List (List Nat)) (R I : List Nat) :
    flipGuard D cells R I = true ↔ FlipGuardSpec D cells R I := by
  unfold flipGuard
  simp only [Bool.and_eq_true, decide_eq_true_eq, Bool.not_eq_true', List.isEmpty_iff,
    beq_iff_eq, List.all_eq_true, Bool.eq_false_iff, ne_eq, List.contains_iff_mem]
  constructor
  · rintro ⟨⟨⟨⟨⟨h1, h2⟩, h3⟩, h4⟩, h5⟩, h6⟩
    exact ⟨h1, h2, h3, h4, h5, h6⟩
  · rintro ⟨h1, h2, h3, h4, h5, h6⟩
    exact ⟨⟨⟨⟨⟨h1, h2⟩, h3⟩, h4⟩, h5⟩, h6⟩

theorem mem_flipCells {cells : List (List Nat)} {R I c : List Nat} :
    c ∈ flipCells cells R I ↔ (c ∈ cells ∧ c ∉ flipOld R I) ∨ c ∈ flipNew R I := by
  simp [flipCells]

/-! ### generic list facts -/

/-- the part of a duplicate-free list lying in a duplicate-free sublist-as-set `s ⊆ l` is a
permutation of `s` -/
theorem filter_contains_perm {α : Type} [BEq α] [LawfulBEq α] {l s : List α} (hl : l.Nodup)
    (hs : s.Nodup) (hsub : ∀ x ∈ s, x ∈ l) : (l.filter (fun c => s.contains c)).Perm s := by
  refine (List.perm_ext_iff_of_nodup (List.Nodup.sublist List.filter_sublist hl) hs).2 ?_
  intro a
  simp only [List.mem_filter, List.contains_iff_mem]
  exact ⟨fun h => h.2, fun h => ⟨hsub a h, h⟩⟩

theorem filter_not_contains_append_perm {α : Type} [BEq α] [LawfulBEq α] {l s : List α}
    (hl : l.Nodup) (hs : s.Nodup) (hsub : ∀ x ∈ s, x ∈ l) :
    (l.filter (fun c => !s.contains c) ++ s).Perm l :=
  ((List.Perm.append_left _ (filter_contains_perm hl hs hsub).symm).trans
    List.perm_append_comm).trans (List.filter_append_perm (fun c => s.contains c) l)

theorem exists_mem_ne_of_two_le {l : List Nat} (hl : l.Nodup) (h2 : 2 ≤ l.length) (v : Nat) :
    ∃ w ∈ l, w ≠ v := by
  match l, hl, h2 with
  | a :: b :: _, hl, _ =>
    have hab : a ≠ b := by
      intro h
      rw [List.nodup_cons] at hl
      exact hl.1 (h ▸ List.mem_cons_self)
    by_cases hav : a = v
    · exact ⟨b, by simp, fun h => hab (hav.trans h.symm)⟩
    · exact ⟨a, by simp, hav⟩

/-! ### vertex set -/

theorem mem_dedupFold {l : List Nat} {v : Nat} :
    v ∈ l.foldr (fun x acc => if acc.contains x then acc else x :: acc) [] ↔ v ∈ l := by
  induction l with
  | nil => simp
  | cons a l ih =>
    rw [List.foldr_cons]
    split
    · rename_i h
      rw [List.contains_iff_mem] at h
      rw [ih, List.mem_cons]
      constructor
      · exact Or.inr
      · rintro (rfl | h')
        · exact ih.1 h
        · exact h'
    · rw [List.mem_cons, List.mem_cons, ih]

theorem mem_vertexSet {cells : List (List Nat)} {v : Nat} :
    v ∈ vertexSet cells ↔ ∃ c ∈ cells, v ∈ c := by
  unfold vertexSet
  rw [mem_dedupFold]
  simp

/-! ### facets -/

theorem cellFacets_append (a b : List (List Nat)) :
    cellFacets (a ++ b) = cellFacets a ++ cellFacets b := by
  simp [cellFacets, List.flatMap_append]

theorem facetCount_append (a b : List (List Nat)) (f : List Nat) :
    facetCount (a ++ b) f = facetCount a f + facetCount b f := by
  simp [facetCount, cellFacets_append, List.count_append]

theorem facetCount_perm {a b : List (List Nat)} (h : a.Perm b) (f : List Nat) :
    facetCount a f = facetCount b f :=
  (List.Perm.flatMap_right _ h).count_eq f

theorem facetCount_nil (f : List Nat) : facetCount [] f = 0 := rfl

theorem facetCount_cons (c : List Nat) (cs : List (List Nat)) (f : List Nat) :
    facetCount (c :: cs) f = (c.map (without c)).count f + facetCount cs f := by
  simp [facetCount, cellFacets, List.count_append]

theorem mem_cellFacets {cells : List (List Nat)} {f : List Nat} :
    f ∈ cellFacets cells ↔ ∃ c ∈ cells, ∃ x ∈ c, without c x = f := by
  simp [cellFacets, List.mem_flatMap]

theorem facetCount_eq_zero {cells : List (List Nat)} {f : List Nat} :
    facetCount cells f = 0 ↔ ∀ c ∈ cells, ∀ x ∈ c, without c x ≠ f := by
  unfold facetCount
  rw [List.count_eq_zero, mem_cellFacets]
  constructor
  · intro h c hc x hx he
    exact h ⟨c, hc, x, hx, he⟩
  · rintro h ⟨c, hc, x, hx, he⟩
    exact h c hc x hx he

/-- `U \ {w, x} = U \ {a, b}` forces `{w, x} = {a, b}` -/
theorem without2_eq {U : List Nat} {w x a b : Nat} (hw : w ∈ U) (hx : x ∈ U) (hwx : w ≠ x)
    (h : without (without U w) x = without (without U a) b) :
    (w = a ∧ x = b) ∨ (w = b ∧ x = a) := by
  have hw' : w ∉ without (without U a) b := by
    rw [← h]
    simp [mem_without]
  have hx' : x ∉ without (without U a) b := by
    rw [← h]
    simp [mem_without]
  simp only [mem_without, not_and, Classical.not_not, ne_eq] at hw' hx'
  have h1 : w ≠ a → w = b := fun hne => hw' ⟨hw, hne⟩
  have h2 : x ≠ a → x = b := fun hne => hx' ⟨hx, hne⟩
  by_cases hwa : w = a
  · left
    refine ⟨hwa, h2 ?_⟩
    intro hxa
    exact hwx (hwa.trans hxa.symm)
  · right
    refine ⟨h1 hwa, ?_⟩
    apply Classical.byContradiction
    intro hxa
    exact hwx ((h1 hwa).trans (h2 hxa).symm)

/-- the facets of the cell `U \ {w}` are duplicate-free -/
theorem cell_facets_nodup {U : List Nat} (hU : U.Nodup) (w : Nat) :
    ((without U w).map (without (without U w))).Nodup :=
  map_without_nodup (without_nodup hU w) (fun _ hx => hx)

/-- how often `U \ {a, b}` is a facet of the single cell `U \ {w}` -/
theorem cell_facet_count {U : List Nat} (hU : U.Nodup) {w a b : Nat} (hw : w ∈ U) (ha : a ∈ U)
    (hb : b ∈ U) (hab : a ≠ b) :
    ((without U w).map (without (without U w))).count (without (without U a) b) =
      (if w = a then 1 else 0) + (if w = b then 1 else 0) := by
  rw [(cell_facets_nodup hU w).count]
  by_cases hwa : w = a
  · subst hwa
    have hwb : w ≠ b := hab
    rw [if_pos, if_pos rfl, if_neg hwb]
    exact List.mem_map.2 ⟨b, mem_without.2 ⟨hb, fun h => hab h.symm⟩, rfl⟩
  · by_cases hwb : w = b
    · subst hwb
      rw [if_pos, if_neg hwa, if_pos rfl]
      exact List.mem_map.2 ⟨a, mem_without.2 ⟨ha, hab⟩, without_comm U w a⟩
    · rw [if_neg, if_neg hwa, if_neg hwb]
      intro hmem
      obtain ⟨x, hx, he⟩ := List.mem_map.1 hmem
      obtain ⟨hxU, hxw⟩ := mem_without.1 hx
      rcases without2_eq hw hxU (fun h => hxw h.symm) he with h | h
      · exact hwa h.1
      · exact hwb h.1

/-- how often `U \ {a, b}` is a facet of the cells `U \ {w}`, `w ∈ L` -/
theorem map_without_facetCount {U L : List Nat} (hU : U.Nodup) (hsub : ∀ x ∈ L, x ∈ U)
    {a b : Nat} (ha : a ∈ U) (hb : b ∈ U) (hab : a ≠ b) :
    facetCount (L.map (without U)) (without (without U a) b) = L.count a + L.count b := by
  induction L with
  | nil => simp [facetCount_nil]
  | cons w L ih =>
    rw [List.map_cons, facetCount_cons, ih (fun x hx => hsub x (List.mem_cons_of_mem _ hx)),
      cell_facet_count hU (hsub w List.mem_cons_self) ha hb hab, List.count_cons, List.count_cons]
    have e1 : (if w = a then 1 else 0) = (if (w == a) = true then 1 else 0) := by simp
    have e2 : (if w = b then 1 else 0) = (if (w == b) = true then 1 else 0) := by simp
    rw [e1, e2]
    omega

/-- a facet of a cell `U \ {x}` lies inside `U` -/
theorem facet_of_union_cell {U L : List Nat} {f : List Nat}
    (h : facetCount (L.map (without U)) f ≠ 0) : ∀ x ∈ f, x ∈ U := by
  have h' : ¬ ∀ c ∈ L.map (without U), ∀ x ∈ c, without c x ≠ f := fun hh =>
    h (facetCount_eq_zero.2 hh)
  apply Classical.byContradiction
  intro hnot
  apply h'
  rintro c hc x _ rfl
  obtain ⟨w, _, rfl⟩ := List.mem_map.1 hc
  exact hnot (fun y hy => (mem_without.1 (mem_without.1 hy).1).1)

end DM
