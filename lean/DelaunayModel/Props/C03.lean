/-
Props/C03.lean — property theorems for C03 (failed or skipped mutations leave the triangulation
exactly as it was).

 * `scope_restores`: a failing scope leaves the state it started from.
 * `clean_unchanged`: for EVERY failure schedule (which failpoints fire — unbounded, any
   combination), a program satisfying the syntactic criterion `clean` ("every failpoint reachable
   after a mutation lies inside a scope enclosing that mutation") leaves the state unchanged
   whenever it fails.  Induction on the program.
 * per-operation facts by `decide`: the programs mirroring insert (with and without post-steps),
   remove_vertex (after fix f75d78f), and both repair entry points (after fix 4e8c62c) are
   `clean`; the pinned `remove_vertex` and the public Edit-API flips are NOT, and `dirtyAt` names
   the offending failpoints (`dt_remove.after_removal`; `flip.after_insert_cells`,
   `flip.after_wiring`) — the K2 tie arms exactly those and replays them on the real code.
 * `later_ops_same`: behaviour is a function of the state, so an unchanged state gives the same
   subsequent behaviour.
Partial because the state is the public fingerprint (capacity, slot reuse order and the shared
generation counter are outside it), and the programs are hand-written mirrors tied to the code by
the failpoint trace comparison.
-/
import DelaunayModel.Model.Txn
namespace DM.C03

open DM.Txn

theorem scope_restores (σ : Schedule) (b : Prog) (s : St)
    (h : (run σ (.scope b) s).2 = false) : (run σ (.scope b) s).1 = s := by
  simp only [run] at h ⊢
  split at h <;> simp_all

theorem run_noMutation (σ : Schedule) (p : Prog) (s : St) (h : mutates p = false) :
    (run σ p s).1 = s := by
  induction p generalizing s with
  | skip => rfl
  | mutate t => simp [mutates] at h
  | failpoint n => rfl
  | seq p q ihp ihq =>
    simp only [mutates, Bool.or_eq_false_iff] at h
    simp only [run]
    have hp := ihp s h.1
    split
    · rw [hp]; exact ihq s h.2
    · exact hp
  | scope b ih =>
    simp only [mutates] at h
    simp only [run]
    split
    · exact ih s h
    · rfl
  | attempt b ih =>
    simp only [mutates] at h
    simp only [run]
    split
    · exact ih s h
    · rfl
  | orElse p q ihp ihq =>
    simp only [mutates, Bool.or_eq_false_iff] at h
    simp only [run]
    split
    · exact ihp s h.1
    · exact ihq s h.2

theorem run_cannotFail (σ : Schedule) (p : Prog) (s : St) (h : canFail p = false) :
    (run σ p s).2 = true := by
  induction p generalizing s with
  | skip => rfl
  | mutate t => rfl
  | failpoint n => simp [canFail] at h
  | seq p q ihp ihq =>
    simp only [canFail, Bool.or_eq_false_iff] at h
    simp only [run]
    have hp := ihp s h.1
    rw [hp]
    exact ihq _ h.2
  | scope b ih =>
    simp only [canFail] at h
    simp only [run]
    rw [ih s h]
    simp
  | attempt b ih =>
    simp only [run]
    split <;> rfl
  | orElse p q ihp ihq =>
    simp only [canFail] at h
    simp only [run]
    split
    · rfl
    · exact ihq s h

/-- **Err ⇒ unchanged**, for every failure schedule -/
theorem clean_unchanged (σ : Schedule) (p : Prog) (s : St) (hc : clean p = true)
    (hf : (run σ p s).2 = false) : (run σ p s).1 = s := by
  induction p generalizing s with
  | skip => simp [run] at hf
  | mutate t => simp [run] at hf
  | failpoint n => rfl
  | seq p q ihp ihq =>
    simp only [clean, Bool.and_eq_true, Bool.or_eq_true, Bool.not_eq_eq_eq_not, Bool.not_true] at hc
    obtain ⟨hcp, hrest⟩ := hc
    simp only [run] at hf ⊢
    cases hok : (run σ p s).2 with
    | false =>
      simp only [hok, Bool.false_eq_true, ↓reduceIte] at hf ⊢
      exact ihp s hcp hok
    | true =>
      simp only [hok, ↓reduceIte] at hf ⊢
      rcases hrest with ⟨hnm, hcq⟩ | hnf
      · have hs1 := run_noMutation σ p s hnm
        rw [hs1] at hf ⊢
        exact ihq s hcq hf
      · have := run_cannotFail σ q (run σ p s).1 hnf
        rw [this] at hf
        cases hf
  | scope b ih =>
    exact scope_restores σ b s hf
  | attempt b ih =>
    simp only [run] at hf
    split at hf <;> simp at hf
  | orElse p q ihp ihq =>
    simp only [clean] at hc
    simp only [run] at hf ⊢
    split at hf
    · simp at hf
    · rename_i hnok
      simp only [hnok]
      exact ihq s hc hf

/-- a fallback chain succeeds with the first alternative that succeeds, started from the ORIGINAL
state: earlier failed alternatives leave no trace -/
theorem orElse_first_failed (σ : Schedule) (p q : Prog) (s : St)
    (hp : (run σ p s).2 = false) : run σ (.orElse p q) s = run σ q s := by
  simp only [run, hp, Bool.false_eq_true, ↓reduceIte]

/-- behaviour is a function of the state: after a failed (hence state-preserving) operation any
later program behaves exactly as if the failed call had never been made -/
theorem later_ops_same (σ σ' : Schedule) (p q : Prog) (s : St) (hc : clean p = true)
    (hf : (run σ p s).2 = false) : run σ' q (run σ p s).1 = run σ' q s := by
  rw [clean_unchanged σ p s hc hf]

/-! ### the public mutators -/

theorem insert_clean : clean dtInsertGuarded = true ∧ clean dtInsertBare = true := by decide
theorem remove_clean : clean dtRemoveGuarded = true := by decide
theorem repair_clean : clean repairPublic = true := by decide
/-- the advanced entry point (repair, or else robust repair, or else heuristic rebuild into a
separate candidate) is clean as well -/
theorem repairAdvanced_clean : clean repairAdvanced = true := by decide

/-- the pinned removal returns `Err` after mutating at exactly these failpoints -/
theorem remove_pinned_dirty :
    clean dtRemovePinned = false ∧ dirtyAt dtRemovePinned false = ["dt_remove.after_removal"] := by
  decide

/-- …and a concrete schedule on which the state is changed although the call failed -/
theorem remove_pinned_witness :
    let σ : Schedule := fun n => n == "dt_remove.after_removal"
    (run σ dtRemovePinned []).2 = false ∧ (run σ dtRemovePinned []).1 ≠ [] := by decide

/-- public Edit-API flips are not transactional: a failure after the first mutation leaves a
partially applied move (known finding F6b) -/
theorem editFlip_dirty :
    clean editFlip = false ∧
    dirtyAt editFlip false = ["flip.after_insert_cells", "flip.after_wiring"] := by decide

theorem editFlip_witness :
    let σ : Schedule := fun n => n == "flip.after_wiring"
    (run σ editFlip []).2 = false ∧ (run σ editFlip []).1 = [11, 10] := by decide

/-- non-vacuity: a failing schedule exists for each clean program (the hypothesis of
`clean_unchanged` is satisfiable) and the state indeed stays put -/
example : (run (fun n => n == "dt_insert.delaunay_check") dtInsertGuarded [7]) = ([7], false) := by decide
example : (run (fun n => n == "flip.after_wiring") repairPublic [7]) = ([7], false) := by decide
example : (run (fun n => n == "flip.after_wiring" || n == "dt_insert.repair") repairAdvanced [7]) = ([7], false) := by decide
example : (run (fun _ => false) repairAdvanced [7]) = ([12, 11, 10, 12, 11, 10, 7], true) := by decide
example : (run (fun n => n == "tri_remove.after_remove_cells") dtRemoveGuarded [7]) = ([7], false) := by decide

end DM.C03
