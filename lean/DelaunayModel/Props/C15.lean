/-
Props/C15.lean — property theorems for C15: every topology / adjacency query equals the direct
enumeration of the faces of the stored cells, and the indexed and the direct variants agree.

 * §1  `subsetsK` = sublists of a given length (sorted when the cell key is sorted)
 * §2  de-duplication keeps membership and is duplicate-free
 * §3  `facesK K k` = the distinct sorted `k`-subsets of the stored cells
 * §4  edges: `cellEdges`, `allEdges`, `incidentEdges`; `number_of_edges` = `#facesK K 2`
 * §5  adjacency index = direct queries (`vertexToCells`, `cellToNeighbors`)
 * §6  f-vector entries and the alternating sum `eulerChi`
 * §7  the Euler-characteristic classification table
 * §8  non-vacuity on the two-triangle complex of Props/C05
 * §9  the facet handshake (double counting of facet incidences), closed complexes, `3F = 2E`
 * §10 non-vacuity of §9: the two triangles and the boundary of a tetrahedron

Helper lemmas live in Lemmas/QueryAux.lean and Lemmas/HandshakeAux.lean.  Everything here is
core-only.
-/
import DelaunayModel.Lemmas.QueryAux
import DelaunayModel.Lemmas.HandshakeAux
import DelaunayModel.Props.C05
namespace DM.C15

open DM

/-! ## §1 `subsetsK` -/

theorem subsetsK_mem (k : Nat) (l s : List Nat) :
    s ∈ subsetsK k l ↔ s.Sublist l ∧ s.length = k := DM.subsetsK_mem

theorem subsetsK_length (k : Nat) (l s : List Nat) (h : s ∈ subsetsK k l) : s.length = k :=
  DM.subsetsK_length h

theorem subsetsK_sorted (k : Nat) (l s : List Nat) (hl : l.Pairwise (· ≤ ·))
    (h : s ∈ subsetsK k l) : s.Pairwise (· ≤ ·) := DM.subsetsK_sorted hl h

/-- in particular the faces of a cell are sorted -/
theorem subsetsK_cellKey_sorted (k : Nat) (c : Cell) (s : List Nat)
    (h : s ∈ subsetsK k (cellKey c)) : s.Pairwise (· ≤ ·) :=
  DM.subsetsK_sorted (sortNat_sorted c.vs) h

/-! ## §2 de-duplication -/

theorem dedup_mem (l : List (List Nat)) (x : List Nat) : x ∈ dedup l ↔ x ∈ l := dedupBy_mem

theorem dedup_nodup (l : List (List Nat)) : (dedup l).Nodup := dedupBy_nodup l

/-- generic version (any type with a lawful `BEq`): the `foldr … contains …` pattern used by
`dedup`, `allEdges`, `graphVerts`, `dedupEdges` -/
theorem dedupGen_mem {α : Type} [BEq α] [LawfulBEq α] (l : List α) (x : α) :
    x ∈ l.foldr (fun x acc => if acc.contains x then acc else x :: acc) [] ↔ x ∈ l := dedupBy_mem

theorem dedupGen_nodup {α : Type} [BEq α] [LawfulBEq α] (l : List α) :
    (l.foldr (fun x acc => if acc.contains x then acc else x :: acc) []).Nodup := dedupBy_nodup l

/-! ## §3 faces -/

theorem facesK_mem (K : Cx) (k : Nat) (f : List Nat) :
    f ∈ facesK K k ↔ ∃ c ∈ K.cells, f.Sublist (cellKey c) ∧ f.length = k := by
  unfold facesK
  rw [dedup_mem, List.mem_flatMap]
  simp only [DM.subsetsK_mem]

theorem facesK_nodup (K : Cx) (k : Nat) : (facesK K k).Nodup := dedup_nodup _

theorem facesK_sorted (K : Cx) (k : Nat) (f : List Nat) (h : f ∈ facesK K k) :
    f.Pairwise (· ≤ ·) := by
  obtain ⟨c, _, hs, _⟩ := (facesK_mem K k f).1 h
  exact (sortNat_sorted c.vs).sublist hs

/-- `f_{D-1}`: when every cell has `D + 1` vertices, the `D`-vertex faces are exactly the facet keys
(`facesK K D` enumerates each distinct facet key once) -/
theorem facesK_D_mem_iff_facetKey (K : Cx) (hlen : ∀ c ∈ K.cells, c.vs.length = K.D + 1)
    (f : List Nat) : f ∈ facesK K K.D ↔ ∃ t ∈ allFacets K, t.1 = f := by
  rw [facesK_mem]
  constructor
  · rintro ⟨c, hc, hs, hl⟩
    obtain ⟨i, hi, rfl⟩ := sublist_sortNat_eq_eraseIdx (l := c.vs) hs (by rw [hlen c hc, hl])
    exact ⟨_, mem_allFacets_of hc hi, rfl⟩
  · rintro ⟨t, ht, rfl⟩
    obtain ⟨c, hc, i, hi, rfl⟩ := mem_allFacets.1 ht
    refine ⟨c, hc, sortNat_eraseIdx_sublist c.vs i, ?_⟩
    show (facetKey c i).length = K.D
    unfold facetKey
    rw [sortNat_length, List.length_eraseIdx_of_lt hi, hlen c hc]
    rfl

/-- so every boundary facet is one of the enumerated `D`-vertex faces -/
theorem boundaryFacets_subset_faces (K : Cx) (hlen : ∀ c ∈ K.cells, c.vs.length = K.D + 1)
    (k : List Nat) (hk : k ∈ boundaryFacets K) : k ∈ facesK K K.D :=
  (facesK_D_mem_iff_facetKey K hlen k).2 (mem_boundaryFacets.1 hk).1

/-! ## §4 edges -/

theorem cellEdges_mem (c : Cell) (a b : Nat) :
    (a, b) ∈ cellEdges c ↔ [a, b].Sublist (cellKey c) := by
  rw [cellEdges_eq_filterMap, List.mem_filterMap]
  constructor
  · rintro ⟨e, he, hab⟩
    rw [edgeOfList_eq_some] at hab
    subst hab
    exact subsetsK_sublist he
  · intro h
    exact ⟨[a, b], DM.subsetsK_mem.2 ⟨h, rfl⟩, edgeOfList_eq_some.2 rfl⟩

/-- edges are stored smaller endpoint first -/
theorem cellEdges_le (c : Cell) (a b : Nat) (h : (a, b) ∈ cellEdges c) : a ≤ b := by
  have hs := (sortNat_sorted c.vs).sublist ((cellEdges_mem c a b).1 h)
  simpa using hs

theorem allEdges_mem (K : Cx) (e : Nat × Nat) :
    e ∈ allEdges K ↔ ∃ c ∈ K.cells, e ∈ cellEdges c := by
  unfold allEdges
  rw [dedupGen_mem, List.mem_flatMap]

theorem allEdges_nodup (K : Cx) : (allEdges K).Nodup := dedupGen_nodup _

theorem incidentEdges_mem (K : Cx) (v : Nat) (e : Nat × Nat) :
    e ∈ incidentEdges K v ↔ e ∈ allEdges K ∧ (e.1 = v ∨ e.2 = v) := by
  unfold incidentEdges
  simp only [List.mem_filter, Bool.or_eq_true, beq_iff_eq]

theorem incidentEdges_nodup (K : Cx) (v : Nat) : (incidentEdges K v).Nodup :=
  (allEdges_nodup K).sublist List.filter_sublist

/-- the edge list is the list of 2-vertex faces, written as pairs (same order) -/
theorem allEdges_eq_facesK2 (K : Cx) : allEdges K = (facesK K 2).map toPair := by
  unfold allEdges facesK
  have h1 : K.cells.flatMap cellEdges =
      (K.cells.flatMap (fun c => subsetsK 2 (cellKey c))).map toPair := by
    rw [List.map_flatMap]
    congr 1
    funext c
    exact cellEdges_eq_map c
  rw [h1, dedup_eq_dedupBy]
  refine dedupBy_map toPair _ ?_
  intro x hx y hy hxy
  obtain ⟨_, _, hx'⟩ := List.mem_flatMap.1 hx
  obtain ⟨_, _, hy'⟩ := List.mem_flatMap.1 hy
  exact toPair_inj (DM.subsetsK_length hx') (DM.subsetsK_length hy') hxy

/-- `number_of_edges` (the length of the de-duplicated edge list) = number of 2-vertex faces -/
theorem allEdges_length_eq_facesK2 (K : Cx) : (allEdges K).length = (facesK K 2).length := by
  rw [allEdges_eq_facesK2, List.length_map]

theorem allEdges_mem_iff_facesK2 (K : Cx) (a b : Nat) :
    (a, b) ∈ allEdges K ↔ [a, b] ∈ facesK K 2 := by
  rw [allEdges_mem, facesK_mem]
  constructor
  · rintro ⟨c, hc, h⟩
    exact ⟨c, hc, (cellEdges_mem c a b).1 h, rfl⟩
  · rintro ⟨c, hc, h, _⟩
    exact ⟨c, hc, (cellEdges_mem c a b).2 h⟩

/-! ## §5 index = direct -/

theorem bucketGet_bucketPush_same {α : Type} (m : List (Nat × List α)) (k : Nat) (x : α) :
    bucketGet (bucketPush m k x) k = bucketGet m k ++ [x] := DM.bucketGet_bucketPush_same m k x

theorem bucketGet_bucketPush_other {α : Type} (m : List (Nat × List α)) (k k' : Nat) (x : α)
    (hne : k' ≠ k) : bucketGet (bucketPush m k x) k' = bucketGet m k' :=
  DM.bucketGet_bucketPush_other m k k' x hne

/-- the fold that builds the vertex → cells index, from any starting map, with NO assumption on the
cells: bucket `v` receives each cell id once per occurrence of `v` among the cell's slots -/
theorem vertexToCells_fold (cells : List Cell) (m : List (Nat × List Nat)) (v : Nat) :
    bucketGet (cells.foldl (fun m c => c.vs.foldl (fun m u => bucketPush m u c.id) m) m) v =
      bucketGet m v ++ cells.flatMap (fun c => List.replicate (c.vs.count v) c.id) := by
  induction cells generalizing m with
  | nil => simp
  | cons c cs ih =>
    rw [List.foldl_cons, ih, bucketGet_foldl_push, List.flatMap_cons, List.append_assoc]

theorem vertexToCells_get (K : Cx) (v : Nat) :
    bucketGet (vertexToCells K) v =
      K.cells.flatMap (fun c => List.replicate (c.vs.count v) c.id) := by
  unfold vertexToCells
  rw [vertexToCells_fold, bucketGet_nil, List.nil_append]

/-- index = direct query for cells without repeated vertices -/
theorem vertexToCells_eq_direct (K : Cx) (hnd : ∀ c ∈ K.cells, c.vs.Nodup) (v : Nat) :
    bucketGet (vertexToCells K) v = adjacentCells K v := by
  rw [vertexToCells_get]
  unfold adjacentCells
  generalize K.cells = cells at hnd
  induction cells with
  | nil => rfl
  | cons c cs ih =>
    have ih' := ih (fun d hd => hnd d (List.mem_cons_of_mem _ hd))
    rw [List.flatMap_cons, ih', count_of_nodup (hnd c List.mem_cons_self), List.filter_cons]
    split <;> simp

/-- index = direct query for cell → neighbours, with unique cell ids -/
theorem cellToNeighbors_eq_direct (K : Cx) (hnd : (K.cells.map (·.id)).Nodup) (c : Cell)
    (hc : c ∈ K.cells) : bucketGet (cellToNeighbors K) c.id = cellNeighbors c := by
  unfold cellToNeighbors
  generalize K.cells = cells at hnd hc
  induction cells with
  | nil => cases hc
  | cons d ds ih =>
    rw [List.map_cons, bucketGet_cons]
    rw [List.map_cons, List.nodup_cons] at hnd
    rcases List.mem_cons.1 hc with rfl | hc'
    · simp
    · have hne : c.id ≠ d.id := by
        intro e
        exact hnd.1 (e ▸ List.mem_map.2 ⟨c, hc', rfl⟩)
      rw [if_neg hne]
      exact ih hnd.2 hc'

/-! ## §6 f-vector and Euler characteristic -/

theorem fVector_length (K : Cx) : (fVector K).length = K.D + 1 := by
  unfold fVector
  split <;> simp

/-- the entries of the f-vector of a non-empty complex.  (For `K.D = 0` the entry at index
`0 = K.D` is the number of stored vertices — the `k == 0` branch comes first — hence `0 < K.D`
in the second part.) -/
theorem fVector_get (K : Cx) (hne : K.cells ≠ []) :
    (fVector K).getD 0 0 = K.verts.length ∧
    (0 < K.D → (fVector K).getD K.D 0 = K.cells.length) ∧
    (∀ k, 0 < k → k < K.D → (fVector K).getD k 0 = (facesK K (k + 1)).length) := by
  have he : K.cells.isEmpty = false := by
    cases h : K.cells with
    | nil => exact absurd h hne
    | cons _ _ => rfl
  have key : ∀ k, k ≤ K.D → (fVector K).getD k 0 =
      (if k == 0 then K.verts.length else if k == K.D then K.cells.length
       else (facesK K (k + 1)).length) := by
    intro k hk
    unfold fVector
    rw [he]
    simp only [Bool.false_eq_true, ↓reduceIte]
    rw [List.getD_eq_getElem?_getD, List.getElem?_map,
      List.getElem?_range (by omega)]
    rfl
  refine ⟨?_, ?_, ?_⟩
  · rw [key 0 (Nat.zero_le _)]; rfl
  · intro hD
    rw [key K.D (Nat.le_refl _)]
    have : (K.D == 0) = false := by simpa using Nat.ne_of_gt hD
    simp [this]
  · intro k hk hkD
    rw [key k (Nat.le_of_lt hkD)]
    have h0 : (k == 0) = false := by simpa using Nat.ne_of_gt hk
    have h1 : (k == K.D) = false := by simpa using Nat.ne_of_lt hkD
    simp [h0, h1]

/-- the f-vector of a complex without cells: only the vertex count (and nothing at index `D`) -/
theorem fVector_empty (K : Cx) (he : K.cells = []) :
    fVector K = ((K.verts.length :: List.replicate K.D 0).take (K.D + 1)).set K.D 0 := by
  unfold fVector
  simp [he]

/-- intermediate entries count distinct faces, spelled out -/
theorem fVector_get_faces (K : Cx) (hne : K.cells ≠ []) (k : Nat) (hk : 0 < k) (hkD : k < K.D) :
    (fVector K).getD k 0 = (facesK K (k + 1)).length ∧ (facesK K (k + 1)).Nodup ∧
    ∀ f, f ∈ facesK K (k + 1) ↔ ∃ c ∈ K.cells, f.Sublist (cellKey c) ∧ f.length = k + 1 :=
  ⟨(fVector_get K hne).2.2 k hk hkD, facesK_nodup K _, facesK_mem K _⟩

/-- f₁ = `number_of_edges` when `2 ≤ D` -/
theorem fVector_one_eq_edges (K : Cx) (hne : K.cells ≠ []) (hD : 1 < K.D) :
    (fVector K).getD 1 0 = (allEdges K).length := by
  rw [allEdges_length_eq_facesK2]
  exact (fVector_get K hne).2.2 1 (Nat.lt_succ_self 0) hD

/-- the general recursive law of the alternating sum -/
theorem eulerChi_cons (a : Nat) (rest : List Nat) :
    eulerChi (a :: rest) = (a : Int) - eulerChi rest := by
  rw [eulerChi_eq_altSum, eulerChi_eq_altSum, altSum_cons, altSum_succ]
  have h0 : altTerm (a, 0) = (a : Int) := rfl
  rw [h0]
  omega

theorem eulerChi_nil : eulerChi [] = 0 := rfl

theorem eulerChi_def :
    (∀ a : Nat, eulerChi [a] = a) ∧
    (∀ a b : Nat, eulerChi [a, b] = (a : Int) - b) ∧
    (∀ a b c : Nat, eulerChi [a, b, c] = (a : Int) - b + c) ∧
    (∀ a b c d : Nat, eulerChi [a, b, c, d] = (a : Int) - b + c - d) := by
  refine ⟨?_, ?_, ?_, ?_⟩ <;> intros <;> simp only [eulerChi_cons, eulerChi_nil] <;> omega

/-! ## §7 classification table -/

inductive Class
  | empty
  | singleSimplex
  | ball
  | closedSphere
  deriving DecidableEq, Repr

def classify (K : Cx) : Class :=
  if K.cells.isEmpty then .empty
  else if K.cells.length == 1 then .singleSimplex
  else if !(boundaryFacets K).isEmpty then .ball
  else .closedSphere

theorem classification_table (K : Cx) :
    expectedChi K =
      match classify K with
      | .empty => 0
      | .singleSimplex => 1
      | .ball => 1
      | .closedSphere => 1 + (if K.D % 2 == 0 then 1 else -1) := by
  unfold expectedChi classify
  split
  · rfl
  · split
    · rfl
    · split <;> rfl

/-- the classes in words: `ball` iff at least two cells and some facet lies in exactly one cell -/
theorem classify_ball_iff (K : Cx) :
    classify K = .ball ↔ 2 ≤ K.cells.length ∧ ∃ k, k ∈ boundaryFacets K := by
  unfold classify
  cases hc : K.cells with
  | nil => simp
  | cons c cs =>
    cases cs with
    | nil => simp
    | cons d ds =>
      cases hb : boundaryFacets K with
      | nil => simp
      | cons f fs => simp

/-! ## §8 non-vacuity -/

open DM.C05 in
theorem twoTri_allEdges : allEdges twoTri = [(0, 1), (0, 2), (1, 2), (1, 3), (2, 3)] := by decide

open DM.C05 in
theorem twoTri_allEdges_length : (allEdges twoTri).length = 5 := by decide

open DM.C05 in
theorem twoTri_fVector : fVector twoTri = [4, 5, 2] := by decide

open DM.C05 in
theorem twoTri_eulerChi : eulerChi (fVector twoTri) = 1 := by decide

open DM.C05 in
theorem twoTri_boundary_length : (boundaryFacets twoTri).length = 4 := by decide

open DM.C05 in
theorem twoTri_vertexToCells_1 : bucketGet (vertexToCells twoTri) 1 = [0, 1] := by decide

open DM.C05 in
theorem twoTri_adjacentCells_1 : adjacentCells twoTri 1 = [0, 1] := by decide

open DM.C05 in
theorem twoTri_cellToNeighbors_0 : bucketGet (cellToNeighbors twoTri) 0 = [1] := by decide

open DM.C05 in
theorem twoTri_incidentEdges_1 : incidentEdges twoTri 1 = [(0, 1), (1, 2), (1, 3)] := by decide

open DM.C05 in
theorem twoTri_classify : classify twoTri = .ball := by decide

open DM.C05 in
theorem twoTri_expectedChi : expectedChi twoTri = 1 := by decide

/-- the `Nodup` hypothesis of `vertexToCells_eq_direct` is needed: a cell with a repeated vertex is
listed twice by the index but once by the direct query (Level 1 rejects such a cell) -/
theorem vertexToCells_ne_direct_of_dup :
    let K : Cx := { D := 2, verts := [], cells := [⟨0, [1, 1, 2], none⟩] }
    bucketGet (vertexToCells K) 1 = [0, 0] ∧ adjacentCells K 1 = [0] := by decide

/-! ## §9 the facet handshake

Every cell of a `D`-complex contributes `D + 1` facet incidences `(key, cell, slot)`; grouping the
incidences by key counts every key as often as its degree.  No bound on the number of cells, on the
dimension or on the vertex ids is assumed anywhere in this section. -/

/-- each cell contributes `D + 1` facet incidences -/
theorem allFacets_length (K : Cx) (hlen : ∀ c ∈ K.cells, c.vs.length = K.D + 1) :
    (allFacets K).length = (K.D + 1) * K.cells.length :=
  facetsOf_length K.cells (K.D + 1) hlen

/-- the degree of a key is the number of its occurrences in the key list -/
theorem facetDeg_eq_count (K : Cx) (k : List Nat) :
    facetDeg K k = ((allFacets K).map (·.1)).count k := DM.facetDeg_eq_count K k

/-- the general double count, with NO hypothesis on `K`: for any duplicate-free list `keys` that
contains every facet key, the number of facet incidences is the sum of the degrees -/
theorem facet_incidences_eq_sum_deg (K : Cx) (keys : List (List Nat)) (hnd : keys.Nodup)
    (hall : ∀ t ∈ allFacets K, t.1 ∈ keys) :
    (allFacets K).length = (keys.map (facetDeg K)).sum :=
  length_eq_sum_countP (fun t : List Nat × Nat × Nat => t.1) (allFacets K) keys hnd hall

/-- handshake over any duplicate-free enumeration `keys` of the facet keys (no hypothesis on the
cell sizes): #incidences = 2 · #(keys of degree 2) + #(keys of degree 1) -/
theorem handshake_of_enum (K : Cx) (hdeg : facetDegOk K = true) (keys : List (List Nat))
    (hnd : keys.Nodup) (hmem : ∀ k, k ∈ keys ↔ ∃ t ∈ allFacets K, t.1 = k) :
    (allFacets K).length =
      2 * (keys.filter (fun k => facetDeg K k == 2)).length +
        (keys.filter (fun k => facetDeg K k == 1)).length := by
  rw [facet_incidences_eq_sum_deg K keys hnd (fun t ht => (hmem t.1).2 ⟨t, ht, rfl⟩)]
  refine sum_map_one_or_two keys (facetDeg K) ?_
  intro k hk
  obtain ⟨t, ht, rfl⟩ := (hmem k).1 hk
  exact (C05.facetDegOk_iff K).1 hdeg t ht

/-- the boundary-facet list has no repeated key (each of its keys has degree 1); no hypothesis -/
theorem boundaryFacets_nodup (K : Cx) : (boundaryFacets K).Nodup := by
  rw [boundaryFacets_eq_filter]
  refine filter_count_one_nodup _ _ ?_
  intro k hk
  rw [← DM.facetDeg_eq_count]
  simpa using hk

/-- the boundary-facet list is as long as the number of distinct keys of degree 1, for any
duplicate-free enumeration `keys` of the facet keys -/
theorem boundaryFacets_length_of_enum (K : Cx) (keys : List (List Nat)) (hnd : keys.Nodup)
    (hmem : ∀ k, k ∈ keys ↔ ∃ t ∈ allFacets K, t.1 = k) :
    (boundaryFacets K).length = (keys.filter (fun k => facetDeg K k == 1)).length := by
  refine length_eq_of_nodup_of_mem_iff (boundaryFacets_nodup K) (hnd.sublist List.filter_sublist) ?_
  intro k
  rw [mem_boundaryFacets, List.mem_filter, hmem]
  simp

/-- the distinct facet keys, via the de-duplicated key list -/
theorem dedup_keys_enum (K : Cx) :
    (dedup ((allFacets K).map (·.1))).Nodup ∧
    ∀ k, k ∈ dedup ((allFacets K).map (·.1)) ↔ ∃ t ∈ allFacets K, t.1 = k :=
  ⟨dedup_nodup _, fun k => by rw [dedup_mem, List.mem_map]⟩

/-- the distinct facet keys, via the `D`-vertex faces -/
theorem facesK_D_enum (K : Cx) (hlen : ∀ c ∈ K.cells, c.vs.length = K.D + 1) :
    (facesK K K.D).Nodup ∧ ∀ k, k ∈ facesK K K.D ↔ ∃ t ∈ allFacets K, t.1 = k :=
  ⟨facesK_nodup K K.D, facesK_D_mem_iff_facetKey K hlen⟩

/-- **handshake**: `(D + 1) · #cells = 2 · #(interior facets) + #(boundary facets)`, the distinct
facets being the `D`-vertex faces `facesK K K.D` -/
theorem handshake (K : Cx) (hlen : ∀ c ∈ K.cells, c.vs.length = K.D + 1)
    (hdeg : facetDegOk K = true) :
    (K.D + 1) * K.cells.length =
      2 * ((facesK K K.D).filter (fun k => facetDeg K k == 2)).length +
        ((facesK K K.D).filter (fun k => facetDeg K k == 1)).length := by
  rw [← allFacets_length K hlen]
  exact handshake_of_enum K hdeg _ (facesK_D_enum K hlen).1 (facesK_D_enum K hlen).2

/-- the same with the distinct keys taken from the de-duplicated key list -/
theorem handshake_dedup (K : Cx) (hlen : ∀ c ∈ K.cells, c.vs.length = K.D + 1)
    (hdeg : facetDegOk K = true) :
    (K.D + 1) * K.cells.length =
      2 * ((dedup ((allFacets K).map (·.1))).filter (fun k => facetDeg K k == 2)).length +
        ((dedup ((allFacets K).map (·.1))).filter (fun k => facetDeg K k == 1)).length := by
  rw [← allFacets_length K hlen]
  exact handshake_of_enum K hdeg _ (dedup_keys_enum K).1 (dedup_keys_enum K).2

/-- `boundaryFacets K` lists each distinct key of degree 1 exactly once -/
theorem boundaryFacets_length (K : Cx) (hlen : ∀ c ∈ K.cells, c.vs.length = K.D + 1) :
    (boundaryFacets K).length = ((facesK K K.D).filter (fun k => facetDeg K k == 1)).length :=
  boundaryFacets_length_of_enum K _ (facesK_D_enum K hlen).1 (facesK_D_enum K hlen).2

theorem boundaryFacets_length_dedup (K : Cx) :
    (boundaryFacets K).length =
      ((dedup ((allFacets K).map (·.1))).filter (fun k => facetDeg K k == 1)).length :=
  boundaryFacets_length_of_enum K _ (dedup_keys_enum K).1 (dedup_keys_enum K).2

/-- handshake with the boundary written as the stored boundary-facet list -/
theorem handshake_boundary (K : Cx) (hlen : ∀ c ∈ K.cells, c.vs.length = K.D + 1)
    (hdeg : facetDegOk K = true) :
    (K.D + 1) * K.cells.length =
      2 * ((facesK K K.D).filter (fun k => facetDeg K k == 2)).length +
        (boundaryFacets K).length := by
  rw [boundaryFacets_length K hlen]
  exact handshake K hlen hdeg

/-- every distinct facet is interior or boundary: `#facets = #interior + #boundary` -/
theorem facets_split (K : Cx) (hlen : ∀ c ∈ K.cells, c.vs.length = K.D + 1)
    (hdeg : facetDegOk K = true) :
    (facesK K K.D).length =
      ((facesK K K.D).filter (fun k => facetDeg K k == 2)).length + (boundaryFacets K).length := by
  have key : ∀ (l : List (List Nat)), (∀ k ∈ l, facetDeg K k = 1 ∨ facetDeg K k = 2) →
      l.length = (l.filter (fun k => facetDeg K k == 2)).length +
        (l.filter (fun k => facetDeg K k == 1)).length := by
    intro l hl
    induction l with
    | nil => rfl
    | cons k ks ih =>
      have ih' := ih (fun a ha => hl a (List.mem_cons_of_mem _ ha))
      simp only [List.filter_cons, List.length_cons]
      rcases hl k List.mem_cons_self with h | h <;> simp [h] <;> omega
  rw [boundaryFacets_length K hlen]
  refine key _ ?_
  intro k hk
  obtain ⟨t, ht, rfl⟩ := ((facesK_D_enum K hlen).2 k).1 hk
  exact (C05.facetDegOk_iff K).1 hdeg t ht

/-- in a closed complex every facet key has degree exactly 2 -/
theorem closed_facetDeg_eq_two (K : Cx) (hdeg : facetDegOk K = true) (hcl : boundaryFacets K = [])
    (t : List Nat × Nat × Nat) (ht : t ∈ allFacets K) : facetDeg K t.1 = 2 := by
  rcases (C05.facetDegOk_iff K).1 hdeg t ht with h | h
  · have : t.1 ∈ boundaryFacets K := mem_boundaryFacets.2 ⟨⟨t, ht, rfl⟩, h⟩
    rw [hcl] at this
    cases this
  · exact h

/-- **closed handshake**: without boundary (the periodic / toroidal mode, spheres),
`(D + 1) · #cells = 2 · #facets` -/
theorem closed_handshake (K : Cx) (hlen : ∀ c ∈ K.cells, c.vs.length = K.D + 1)
    (hdeg : facetDegOk K = true) (hcl : boundaryFacets K = []) :
    (K.D + 1) * K.cells.length = 2 * (facesK K K.D).length := by
  rw [← allFacets_length K hlen,
    facet_incidences_eq_sum_deg K _ (facesK_D_enum K hlen).1
      (fun t ht => ((facesK_D_enum K hlen).2 t.1).2 ⟨t, ht, rfl⟩),
    ← sum_map_const]
  refine sum_map_congr _ _ _ ?_
  intro k hk
  obtain ⟨t, ht, rfl⟩ := ((facesK_D_enum K hlen).2 k).1 hk
  exact closed_facetDeg_eq_two K hdeg hcl t ht

theorem closed_handshake_dedup (K : Cx) (hlen : ∀ c ∈ K.cells, c.vs.length = K.D + 1)
    (hdeg : facetDegOk K = true) (hcl : boundaryFacets K = []) :
    (K.D + 1) * K.cells.length = 2 * (dedup ((allFacets K).map (·.1))).length := by
  rw [← allFacets_length K hlen,
    facet_incidences_eq_sum_deg K _ (dedup_keys_enum K).1
      (fun t ht => ((dedup_keys_enum K).2 t.1).2 ⟨t, ht, rfl⟩),
    ← sum_map_const]
  refine sum_map_congr _ _ _ ?_
  intro k hk
  obtain ⟨t, ht, rfl⟩ := ((dedup_keys_enum K).2 k).1 hk
  exact closed_facetDeg_eq_two K hdeg hcl t ht

/-- closed surfaces: `3F = 2E` (`E` = number of 2-vertex faces = `number_of_edges`) -/
theorem closed_surface_3F_eq_2E (K : Cx) (hD : K.D = 2)
    (hlen : ∀ c ∈ K.cells, c.vs.length = K.D + 1) (hdeg : facetDegOk K = true)
    (hcl : boundaryFacets K = []) :
    3 * K.cells.length = 2 * (facesK K 2).length ∧
    3 * K.cells.length = 2 * (allEdges K).length := by
  have h := closed_handshake K hlen hdeg hcl
  rw [hD] at h
  exact ⟨h, by rw [allEdges_length_eq_facesK2]; exact h⟩

/-- the f-vector of a 2-complex, spelled out (also for a complex without cells) -/
theorem fVector_surface (K : Cx) (hD : K.D = 2) :
    fVector K = [K.verts.length, if K.cells.isEmpty then 0 else (facesK K 2).length,
      K.cells.length] := by
  unfold fVector
  rw [hD]
  cases hc : K.cells with
  | nil => rfl
  | cons c cs => rfl

/-- `3 f₂ = 2 f₁` for the f-vector entries of a closed surface -/
theorem closed_surface_fVector (K : Cx) (hD : K.D = 2)
    (hlen : ∀ c ∈ K.cells, c.vs.length = K.D + 1) (hdeg : facetDegOk K = true)
    (hcl : boundaryFacets K = []) :
    3 * (fVector K).getD 2 0 = 2 * (fVector K).getD 1 0 := by
  rw [fVector_surface K hD]
  have h := (closed_surface_3F_eq_2E K hD hlen hdeg hcl).1
  cases hc : K.cells with
  | nil => rfl
  | cons c cs =>
    rw [hc] at h
    simpa using h

/-- Euler characteristic of a closed surface from vertices and triangles only:
`2 χ = 2 V − F` (so `F` is even and `χ = V − F / 2`) -/
theorem closed_surface_euler (K : Cx) (hD : K.D = 2)
    (hlen : ∀ c ∈ K.cells, c.vs.length = K.D + 1) (hdeg : facetDegOk K = true)
    (hcl : boundaryFacets K = []) :
    2 * eulerChi (fVector K) = 2 * (K.verts.length : Int) - (K.cells.length : Int) := by
  rw [fVector_surface K hD, eulerChi_def.2.2.1]
  have h := (closed_surface_3F_eq_2E K hD hlen hdeg hcl).1
  cases hc : K.cells with
  | nil => simp
  | cons c cs =>
    rw [hc] at h
    simp only [List.isEmpty_cons, Bool.false_eq_true, ↓reduceIte]
    omega

/-! ## §10 non-vacuity of the handshake -/

open DM.C05 in
theorem twoTri_hlen : ∀ c ∈ twoTri.cells, c.vs.length = twoTri.D + 1 := by decide

open DM.C05 in
theorem twoTri_facetDegOk : facetDegOk twoTri = true := by decide

/-- two triangles sharing an edge: `3 · 2 = 2 · 1 + 4` -/
theorem twoTri_handshake :
    (C05.twoTri.D + 1) * C05.twoTri.cells.length = 6 ∧
    (allFacets C05.twoTri).length = 6 ∧
    ((facesK C05.twoTri C05.twoTri.D).filter (fun k => facetDeg C05.twoTri k == 2)).length = 1 ∧
    ((facesK C05.twoTri C05.twoTri.D).filter (fun k => facetDeg C05.twoTri k == 1)).length = 4 ∧
    (boundaryFacets C05.twoTri).length = 4 ∧
    (facesK C05.twoTri C05.twoTri.D).length = 5 := by decide

/-- the general theorem instantiated at the two triangles -/
theorem twoTri_handshake_inst :
    (C05.twoTri.D + 1) * C05.twoTri.cells.length =
      2 * ((facesK C05.twoTri C05.twoTri.D).filter (fun k => facetDeg C05.twoTri k == 2)).length +
        (boundaryFacets C05.twoTri).length :=
  handshake_boundary C05.twoTri twoTri_hlen twoTri_facetDegOk

/-- the boundary of the tetrahedron `0123` as a closed 2-complex (4 triangles, 6 edges, 4 vertices;
vertex coordinates play no role for the counts) -/
def tetBoundary : Cx :=
  { D := 2
    verts := [⟨0, none, some 0⟩, ⟨1, none, some 0⟩, ⟨2, none, some 0⟩, ⟨3, none, some 1⟩]
    cells := [⟨0, [0, 1, 2], none⟩, ⟨1, [0, 3, 1], none⟩, ⟨2, [1, 3, 2], none⟩,
              ⟨3, [0, 2, 3], none⟩] }

theorem tetBoundary_hlen : ∀ c ∈ tetBoundary.cells, c.vs.length = tetBoundary.D + 1 := by decide

theorem tetBoundary_facetDegOk : facetDegOk tetBoundary = true := by decide

theorem tetBoundary_closed : boundaryFacets tetBoundary = [] := by decide

/-- `3 · 4 = 2 · 6`, χ = 4 − 6 + 4 = 2 -/
theorem tetBoundary_counts :
    (tetBoundary.D + 1) * tetBoundary.cells.length = 12 ∧
    (allFacets tetBoundary).length = 12 ∧
    (facesK tetBoundary tetBoundary.D).length = 6 ∧
    (dedup ((allFacets tetBoundary).map (·.1))).length = 6 ∧
    fVector tetBoundary = [4, 6, 4] ∧
    eulerChi (fVector tetBoundary) = 2 := by decide

/-- the general theorems instantiated at the closed example -/
theorem tetBoundary_closed_handshake :
    3 * tetBoundary.cells.length = 2 * (facesK tetBoundary 2).length ∧
    2 * eulerChi (fVector tetBoundary) =
      2 * (tetBoundary.verts.length : Int) - (tetBoundary.cells.length : Int) :=
  ⟨(closed_surface_3F_eq_2E tetBoundary rfl tetBoundary_hlen tetBoundary_facetDegOk
      tetBoundary_closed).1,
   closed_surface_euler tetBoundary rfl tetBoundary_hlen tetBoundary_facetDegOk
      tetBoundary_closed⟩

/-- the degree hypothesis of the handshake is needed: three triangles on one edge (degree 3) break
`(D + 1) · #cells = 2 · #deg2 + #deg1` -/
theorem handshake_needs_degOk :
    let K : Cx := { D := 2, verts := [],
                    cells := [⟨0, [0, 1, 2], none⟩, ⟨1, [0, 1, 3], none⟩, ⟨2, [0, 1, 4], none⟩] }
    facetDegOk K = false ∧ (K.D + 1) * K.cells.length = 9 ∧
    2 * ((facesK K K.D).filter (fun k => facetDeg K k == 2)).length +
      ((facesK K K.D).filter (fun k => facetDeg K k == 1)).length = 6 := by decide

end DM.C15
