/-
Model/Serde.lean — what (de)serialisation of a Tds keeps and rebuilds
(src/core/triangulation_data_structure.rs:4973-5141): the document holds the vertex records
(uuid, coordinates, data), the cell records (uuid, data) and a table cell-uuid → vertex uuids in
slot order.  Keys, neighbour slots and incident-cell pointers are NOT serialised; decoding rebuilds
the vertex slots from the table, the neighbours from facet sharing (`assign_neighbors`: a facet
shared by more than two cells is an error; a cell whose slots are all empty gets no buffer), the
incident pointers (`assign_incident_cells`: first cell in storage order containing the vertex)
and — after the `fix:` commits — rejects malformed elements (Level 1) and duplicate cells.
-/
import DelaunayModel.Model.Cx
namespace DM.Serde

open DM

structure Doc where
  D : Nat
  verts : List (Nat × Option DPt)          -- uuid id, coordinates (none = not finite)
  cells : List Nat                          -- cell uuid ids, storage order
  table : List (Nat × List Nat)             -- cell uuid id → vertex uuid ids in slot order
  deriving Repr

def encode (K : Cx) : Doc :=
  { D := K.D, verts := K.verts.map (fun v => (v.id, v.pt)), cells := K.cells.map (·.id),
    table := K.cells.map (fun c => (c.id, c.vs)) }

/-- neighbour slots recomputed from facet sharing; `none` if some facet has more than two cells -/
def assignNeighbors (K : Cx) : Option (List Cell) :=
  if !(allFacets K).all (fun f => facetDeg K f.1 ≤ 2) then none else
  some (K.cells.map (fun c =>
    let slots := (List.range c.vs.length).map (fun i => match facetOthers K c i with
      | [(c', _)] => some c'
      | _ => none)
    { c with nb := if slots.all Option.isNone then none else some slots }))

/-- incident pointer = first cell (storage order) containing the vertex -/
def assignIncident (verts : List (Nat × Option DPt)) (cells : List Cell) : List Vtx :=
  verts.map (fun (id, pt) => { id := id, pt := pt, inc := (cells.find? (·.vs.contains id)).map (·.id) })

def decode (doc : Doc) : Option Cx :=
  -- two vertex records with the same uuid: rejected (duplicate vertex uuid)
  if !(decide (doc.verts.map (·.1)).Nodup) then none else
  -- every cell needs a table entry, every listed vertex uuid must exist
  match doc.cells.mapM (fun cid => (doc.table.lookup cid).map (fun vs => (cid, vs))) with
  | none => none
  | some cvs =>
    if !(cvs.all (fun (_, vs) => vs.all (fun v => doc.verts.any (·.1 == v)))) then none else
    let raw : List Cell := cvs.map (fun (cid, vs) => { id := cid, vs := vs, nb := none })
    let K0 : Cx := { D := doc.D, verts := [], cells := raw }
    match assignNeighbors K0 with
    | none => none
    | some cells =>
      let K : Cx := { D := doc.D, verts := assignIncident doc.verts cells, cells := cells }
      -- element validity (fix F7a) and no two cells with the same vertex set (fix F7c)
      if checkL1 K && noDupCells K then some K else none

/-- comparison modulo the rebuilt incident pointers -/
def eraseInc (K : Cx) : Cx := { K with verts := K.verts.map (fun v => { v with inc := none }) }

end DM.Serde
