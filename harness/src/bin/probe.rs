use delaunay::core::delaunay_triangulation::DelaunayTriangulation;
use delaunay::core::triangulation::TopologyGuarantee;
use delaunay::core::vertex::Vertex;
use delaunay::geometry::kernel::FastKernel;
use delaunay::geometry::point::Point;
use delaunay::geometry::traits::coordinate::Coordinate;
fn main() {
    let pts: Vec<[f64; 3]> = vec![[1.,3.,0.],[1.,6.,1.],[3.,2.,3.],[3.,5.,2.],[3.,6.,0.],[4.,1.,1.],[4.,2.,4.]];
    let vs: Vec<Vertex<f64, i32, 3>> = pts.iter().enumerate().map(|(i, p)| Vertex::new_with_uuid(Point::new(*p), uuid::Builder::from_random_bytes((1000u128 + i as u128).to_le_bytes()).into_uuid(), Some(i as i32))).collect();
    let dt = DelaunayTriangulation::<FastKernel<f64>, i32, i32, 3>::with_topology_guarantee(&FastKernel::new(), &vs, TopologyGuarantee::PLManifold).unwrap();
    let keys: Vec<_> = dt.cells().map(|(k, _)| k).collect();
    for ck in keys {
        let mut t = dt.tds().clone();
        t.remove_cells_by_keys(&[ck]);
        let d2 = DelaunayTriangulation::<FastKernel<f64>, i32, i32, 3>::from_tds_with_topology_guarantee(t, FastKernel::new(), TopologyGuarantee::PLManifold);
        let v = d2.validate();
        let r = d2.validation_report();
        let iv = d2.as_triangulation().is_valid();
        println!("{ck:?}: tri.is_valid={} validate={} report_empty={}  {}", iv.is_ok(), v.is_ok(), r.is_ok(), v.err().map(|e| format!("{e}").chars().take(80).collect::<String>()).unwrap_or_default());
    }
}
