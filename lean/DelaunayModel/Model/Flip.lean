/-
Model/Flip.lean — bistellar (Pachner) moves on the abstract complex: a cell is the SET of its
vertex ids, represented as a sorted duplicate-free list (`sortNat`), a complex is a list of cells.

Mirrors the cell-set edit of `apply_bistellar_flip_with_k` (src/core/algorithms/flips.rs:216-412):
with `U = R ∪ I` (`R` = removed face, `|R| = D+2-k`; `I` = inserted face, `|I| = k`)
  old cells = { U \ {w} : w ∈ I }        (the k cells around the removed face R)
  new cells = { U \ {v} : v ∈ R }        (the D+2-k cells around the inserted face I)
Legality guards modelled: disjointness/sizes, all old cells present, no new cell already present.
(The inserted-simplex-exists, facet-degree and degeneracy guards depend on the surrounding complex
and geometry; they are observed through the outcome class, see Props/C07.)
-/
import DelaunayModel.Model.Cx
namespace DM

/-- `U \ {x}` for a sorted list `U` -/
def without (U : List Nat) (x : Nat) : List Nat := U.filter (· != x)

def flipUnion (R I : List Nat) : List Nat := sortNat (R ++ I)

/-- cells removed by the move (one per vertex of the inserted face) -/
def flipOld (R I : List Nat) : List (List Nat) := I.map (without (flipUnion R I))

/-- cells created by the move (one per vertex of the removed face) -/
def flipNew (R I : List Nat) : List (List Nat) := R.map (without (flipUnion R I))

/-- guards that depend only on `R`, `I` and the cell set -/
def flipGuard (D : Nat) (cells : List (List Nat)) (R I : List Nat) : Bool :=
  decide (R ++ I).Nodup && !R.isEmpty && !I.isEmpty && R.length + I.length == D + 2 &&
  (flipOld R I).all cells.contains && (flipNew R I).all (fun c => !cells.contains c)

/-- the inserted face must be new: no cell outside the removed star contains all of `I`
(`find_cell_containing_simplex(tds, inserted_face_vertices, removed_cells)` →
`InsertedSimplexAlreadyExists`, flips.rs; for k = D and k = 1 the implementation reaches the same
refusal through its duplicate-cell / facet-degree guards) -/
def insertedFaceNew (cells : List (List Nat)) (R I : List Nat) : Bool :=
  cells.all (fun c => (flipOld R I).contains c || !(I.all c.contains))

/-- every guard of the move that depends only on `R`, `I` and the cell set -/
def flipGuardFull (D : Nat) (cells : List (List Nat)) (R I : List Nat) : Bool :=
  flipGuard D cells R I && insertedFaceNew cells R I

/-- the move: drop the old cells, add the new ones -/
def flipCells (cells : List (List Nat)) (R I : List Nat) : List (List Nat) :=
  cells.filter (fun c => !(flipOld R I).contains c) ++ flipNew R I

/-- facets of a cell set: all (cell minus one vertex) lists, with multiplicity -/
def cellFacets (cells : List (List Nat)) : List (List Nat) :=
  cells.flatMap (fun c => c.map (without c))

def facetCount (cells : List (List Nat)) (f : List Nat) : Nat := (cellFacets cells).count f

def vertexSet (cells : List (List Nat)) : List Nat :=
  (cells.flatMap id).foldr (fun x acc => if acc.contains x then acc else x :: acc) []

end DM
