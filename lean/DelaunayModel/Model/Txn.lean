/-
Model/Txn.lean — a small calculus of mutating operations with scoped snapshot/restore, and one
program per public mutator of the library mirroring where the Rust code takes snapshots
(`insert_transactional` triangulation.rs:2954, the DT-level snapshot delaunay_triangulation.rs
:4669-4753, `remove_vertex` guard (fix f75d78f) + fan snapshot triangulation.rs:4865, repair guard
(fix 4e8c62c) flips.rs:2568, Edit-API flips src/triangulation/flips.rs — no snapshot).

  mutate        an internal mutation of the state (never fails)
  failpoint n   a stage at which an error can be raised (the schedule decides)
  seq p q       p then q (q only if p succeeded)
  scope b       snapshot; run b; on failure restore the snapshot and fail
  attempt b     like scope, but a failure of b is swallowed (retry loops: restore and go on)
  orElse p q    snapshot; run p; if it succeeds that is the result, otherwise restore and run q
                (fallback chains: `repair … or else robust repair … or else heuristic rebuild`)
Failpoint names are the ones compiled into /repo by hook H1.
-/
namespace DM.Txn

inductive Prog where
  | skip
  | mutate (tag : Nat)
  | failpoint (name : String)
  | seq (p q : Prog)
  | scope (body : Prog)
  | attempt (body : Prog)
  | orElse (p q : Prog)
  deriving Repr, DecidableEq

/-- abstract state: the log of mutations applied so far (restoring = truncating the log) -/
abbrev St := List Nat

/-- which failpoints fire -/
abbrev Schedule := String → Bool

/-- returns the state left behind and whether the program succeeded -/
def run (σ : Schedule) : Prog → St → St × Bool
  | .skip, s => (s, true)
  | .mutate t, s => (t :: s, true)
  | .failpoint n, s => (s, !σ n)
  | .seq p q, s =>
    let (s1, ok) := run σ p s
    if ok then run σ q s1 else (s1, false)
  | .scope b, s =>
    let (s1, ok) := run σ b s
    if ok then (s1, true) else (s, false)
  | .attempt b, s =>
    let (s1, ok) := run σ b s
    if ok then (s1, true) else (s, true)
  | .orElse p q, s =>
    let (s1, ok) := run σ p s
    if ok then (s1, true) else run σ q s

def mutates : Prog → Bool
  | .skip => false
  | .mutate _ => true
  | .failpoint _ => false
  | .seq p q => mutates p || mutates q
  | .scope b => mutates b
  | .attempt b => mutates b
  | .orElse p q => mutates p || mutates q

def canFail : Prog → Bool
  | .skip => false
  | .mutate _ => false
  | .failpoint _ => true
  | .seq p q => canFail p || canFail q
  | .scope b => canFail b
  | .attempt _ => false
  | .orElse _ q => canFail q

/-- syntactic criterion: whenever the program fails, the state is unchanged -/
def clean : Prog → Bool
  | .skip => true
  | .mutate _ => true
  | .failpoint _ => true
  | .seq p q => clean p && ((!mutates p && clean q) || !canFail q)
  | .scope _ => true
  | .attempt _ => true
  | .orElse _ q => clean q

/-- failpoints at which a failure leaves a changed state (for programs that are not `clean`):
`dirtyAt p` lists the names of failpoints reachable after an uncommitted mutation -/
def dirtyAt : Prog → Bool → List String
  | .skip, _ => []
  | .mutate _, _ => []
  | .failpoint n, dirty => if dirty then [n] else []
  | .seq p q, dirty => dirtyAt p dirty ++ dirtyAt q (dirty || mutates p)
  | .scope _, _ => []
  | .attempt _, _ => []
  | .orElse _ q, dirty => dirtyAt q dirty

infixr:60 " ;; " => Prog.seq

/-! ### programs of the public mutators (failpoint names = hook H1 sites) -/

/-- `try_insert_impl` on the conflict-region path, then the safety-net validation -/
def tryInsert : Prog :=
  .mutate 1 ;; .failpoint "try_insert.after_insert_vertex" ;;
  .mutate 2 ;; .failpoint "conflict_insert.after_fill_cavity" ;;
  .mutate 3 ;; .failpoint "conflict_insert.after_remove_cells" ;;
  .mutate 4 ;; .failpoint "conflict_insert.before_connectedness" ;;
  .failpoint "hull_insert.before_connectedness"

/-- `insert_transactional`: every attempt runs inside a snapshot scope -/
def insertTransactional : Prog := .scope tryInsert

/-- flip repair with the transactional guard (fix 4e8c62c): flips inside a scope -/
def flipBody : Prog :=
  .failpoint "flip.before_mutation" ;; .mutate 10 ;; .failpoint "flip.after_insert_cells" ;;
  .mutate 11 ;; .failpoint "flip.after_wiring" ;; .mutate 12

def repairGuarded : Prog := .scope (.failpoint "repair.before_attempt1" ;; flipBody ;; flipBody)

/-- `DelaunayTriangulation::insert` with repair/check due: DT-level snapshot around everything -/
def dtInsertGuarded : Prog :=
  .scope (insertTransactional ;; .failpoint "dt_insert.repair" ;; repairGuarded ;;
          .failpoint "dt_insert.delaunay_check")

/-- `DelaunayTriangulation::insert` with repair policy `Never` and no check due: no DT-level
snapshot, and none of the post-steps run -/
def dtInsertBare : Prog := insertTransactional

/-- `Triangulation::remove_vertex`: fan retriangulation inside its own snapshot -/
def triRemove : Prog :=
  .scope (.mutate 20 ;; .failpoint "tri_remove.after_fan_fill" ;; .mutate 21 ;;
          .failpoint "tri_remove.after_remove_cells" ;; .mutate 22 ;;
          .failpoint "tri_remove.before_remove_vertex" ;; .mutate 23)

/-- `DelaunayTriangulation::remove_vertex` with the guard of fix f75d78f -/
def dtRemoveGuarded : Prog :=
  .scope (triRemove ;; .failpoint "dt_remove.after_removal" ;; repairGuarded)

/-- the pinned (pre-fix) removal: no outer scope -/
def dtRemovePinned : Prog := triRemove ;; .failpoint "dt_remove.after_removal" ;; repairGuarded

/-- a public Edit-API flip: no snapshot at any level (known finding F6b) -/
def editFlip : Prog := flipBody

/-- public repair entry points -/
def repairPublic : Prog := repairGuarded

/-- the heuristic rebuild of `repair_delaunay_with_flips_advanced`
(delaunay_triangulation.rs `rebuild_with_heuristic`): every vertex is inserted into a SEPARATE
candidate object — the insertion failpoints fire without touching this state, modelled
conservatively as a scope — and the state is replaced by the candidate in one infallible step -/
def heuristicRebuild : Prog := .scope dtInsertGuarded ;; .mutate 30

/-- `repair_delaunay_with_flips_advanced`: the standard repair, or else the robust repair, or else
the heuristic rebuild -/
def repairAdvanced : Prog := .orElse repairGuarded (.orElse repairGuarded heuristicRebuild)

end DM.Txn
