//! C17 — orderings are permutations, dedup policies are greedy first-wins filters, the Hilbert index
//! is the Skilling curve (K1 with hook H3 for the private helpers).
use crate::common::{catch, hxs, Out, Rng};
use crate::gens;
use crate::Cfg;
use delaunay::core::delaunay_triangulation::{verif_api, InsertionOrderStrategy};
use delaunay::core::util::{dedup_vertices_epsilon, dedup_vertices_exact, hilbert_indices_prequantized};
use delaunay::core::vertex::Vertex;
use delaunay::geometry::point::Point;
use delaunay::geometry::traits::coordinate::Coordinate;

fn hil_grid<const D: usize>(bits: u32, out: &mut Out, id: &str) {
    let n = 1usize << bits;
    let mut cells: Vec<[u32; D]> = Vec::new();
    let total = n.pow(D as u32);
    for mut k in 0..total {
        let mut c = [0u32; D];
        for a in 0..D { c[a] = (k % n) as u32; k /= n; }
        cells.push(c);
    }
    emit_hil::<D>(&cells, bits, out, id, true);
}

fn emit_hil<const D: usize>(cells: &[[u32; D]], bits: u32, out: &mut Out, id: &str, full: bool) {
    out.case(id, "hil", &format!("D={D} bits={bits} full={}", full as u8));
    match catch(|| hilbert_indices_prequantized(cells, bits)) {
        Ok(Ok(idx)) => {
            for (c, i) in cells.iter().zip(idx.iter()) {
                out.line(&format!("hc {i} {}", c.iter().map(|x| x.to_string()).collect::<Vec<_>>().join(" ")));
            }
            out.obs("result", "ok");
        }
        Ok(Err(e)) => out.obs("result", &format!("err {}", crate::tri::err_kind(&format!("{e:?}")))),
        Err(m) => out.obs("result", &format!("panic {m}")),
    }
    out.end();
}

fn hil_random<const D: usize>(rng: &mut Rng, bits: u32, count: usize, out: &mut Out, id: &str) {
    let mut cells: Vec<[u32; D]> = Vec::new();
    for _ in 0..count {
        let mut c = [0u32; D];
        for x in c.iter_mut() {
            *x = match rng.below(4) { 0 => 0, 1 => ((1u64 << bits) - 1) as u32, _ => (rng.next() % (1u64 << bits)) as u32 };
        }
        cells.push(c);
    }
    emit_hil::<D>(&cells, bits, out, id, false);
}

type V<const D: usize> = Vertex<f64, i32, D>;

fn mk<const D: usize>(pts: &[Vec<f64>], rng: &mut Rng) -> Vec<V<D>> {
    pts.iter().enumerate().map(|(i, p)| Vertex::new_with_uuid(Point::new(gens::arr::<D>(p)), rng.uuid(), Some(i as i32))).collect()
}

fn write_in<const D: usize>(vs: &[V<D>], out: &mut Out) {
    for v in vs { out.line(&format!("iv {} {}", v.data.unwrap_or(-1), hxs(v.point().coords()))); }
}
fn seq<const D: usize>(vs: &[V<D>]) -> String { vs.iter().map(|v| v.data.unwrap_or(-1).to_string()).collect::<Vec<_>>().join(" ") }

/// point lists with ties, duplicates, signed zeros, extreme ranges; `exactq` lists have power-of-two
/// extents with both extremes present on every axis so the f64 quantisation is exact
fn point_list(rng: &mut Rng, d: usize, n: usize) -> (Vec<Vec<f64>>, bool, &'static str) {
    match rng.below(6) {
        0 | 1 | 2 => {
            let k = [2u32, 3, 4, 6][rng.below(4) as usize];
            let hi = (1i64 << k) as f64;
            let mut pts: Vec<Vec<f64>> = (0..n).map(|_| (0..d).map(|_| rng.range(0, 1 << k) as f64).collect()).collect();
            // force both extremes on every axis (and hence globally)
            if pts.len() >= 2 { pts[0] = vec![0.0; d]; pts[1] = vec![hi; d]; }
            // sprinkle exact duplicates
            for _ in 0..rng.below(3) { if n > 3 { let a = rng.below(n as u64) as usize; let b = rng.below(n as u64) as usize; pts[a] = pts[b].clone(); } }
            let sc = [1.0, 0.25, 1024.0][rng.below(3) as usize];
            let sh = [0.0, -8.0, 64.0][rng.below(3) as usize];
            (pts.into_iter().map(|p| p.into_iter().map(|x| x * sc + sh * sc).collect()).collect(), true, "exactq")
        }
        3 => {
            let mut pts: Vec<Vec<f64>> = (0..n).map(|_| (0..d).map(|_| rng.range(-3, 3) as f64).collect()).collect();
            for p in pts.iter_mut() { for x in p.iter_mut() { if *x == 0.0 && rng.chance(1, 2) { *x = -0.0; } } }
            (pts, false, "signed_zero")
        }
        4 => {
            let pts: Vec<Vec<f64>> = (0..n).map(|_| (0..d).map(|_| [1e-300, -1e300, 1e300, 0.5, 3.0, -7.25][rng.below(6) as usize]).collect()).collect();
            (pts, false, "extreme")
        }
        _ => {
            let base: Vec<Vec<f64>> = (0..n).map(|_| (0..d).map(|_| rng.range(-20, 20) as f64 / 4.0).collect()).collect();
            (base, false, "quarter_grid")
        }
    }
}

fn orders<const D: usize>(id: &str, rng: &mut Rng, out: &mut Out) {
    let n = 2 + rng.below(14) as usize;
    let (pts, exactq, fam) = point_list(rng, D, n);
    let vs = mk::<D>(&pts, rng);
    for (sid, strat) in [(0, InsertionOrderStrategy::Input), (1, InsertionOrderStrategy::Lexicographic), (2, InsertionOrderStrategy::Morton), (3, InsertionOrderStrategy::Hilbert)] {
        let r = catch(|| verif_api::order_vertices(vs.clone(), strat));
        out.case(&format!("{id}_s{sid}"), "ord", &format!("D={D} strategy={sid} exactq={} fam={fam}", exactq as u8));
        write_in(&vs, out);
        match r { Ok(o) => out.obs("out", &seq(&o)), Err(m) => out.obs("out", &format!("panic {m}")) }
        out.end();
    }
}

/// the public Hilbert sorting helpers (stable / unstable / index list): permutations of their
/// input whose Hilbert keys (recomputed with the public `hilbert_index`) are non-decreasing
fn hsorts<const D: usize>(id: &str, rng: &mut Rng, out: &mut Out) {
    use delaunay::core::util::hilbert::{hilbert_index, hilbert_sort_by_stable, hilbert_sort_by_unstable, hilbert_sorted_indices};
    let n = 2 + rng.below(14) as usize;
    let (pts, _exactq, fam) = point_list(rng, D, n);
    if pts.iter().any(|p| p.iter().any(|x| !x.is_finite())) { return; }
    let vs = mk::<D>(&pts, rng);
    let lo = pts.iter().flat_map(|p| p.iter().copied()).fold(f64::INFINITY, f64::min);
    let hi = pts.iter().flat_map(|p| p.iter().copied()).fold(f64::NEG_INFINITY, f64::max);
    let bounds = if lo < hi { (lo, hi) } else { (lo, lo + 1.0) };
    let max_bits = (128 / D as u32).min(31);
    let bits = [1u32, 4, 16, max_bits][rng.below(4) as usize].min(max_bits);
    let key = |v: &V<D>| -> String { match catch(|| hilbert_index::<f64, D>(v.point().coords(), bounds, bits)) { Ok(Ok(k)) => k.to_string(), _ => "x".into() } };
    for sid in [10u32, 11, 12] {
        let r: Result<Result<Vec<V<D>>, String>, String> = catch(|| {
            let mut items = vs.clone();
            match sid {
                10 => hilbert_sort_by_stable(&mut items, bounds, bits, |v: &V<D>| *v.point().coords()).map(|_| items).map_err(|e| format!("{e:?}")),
                11 => hilbert_sort_by_unstable(&mut items, bounds, bits, |v: &V<D>| *v.point().coords()).map(|_| items).map_err(|e| format!("{e:?}")),
                _ => {
                    let cs: Vec<[f64; D]> = vs.iter().map(|v| *v.point().coords()).collect();
                    hilbert_sorted_indices(&cs, bounds, bits).map(|ix| ix.iter().filter_map(|&i| vs.get(i).copied()).collect::<Vec<_>>()).map_err(|e| format!("{e:?}"))
                }
            }
        });
        out.case(&format!("{id}_s{sid}"), "ord", &format!("D={D} strategy={sid} exactq=0 fam={fam} bits={bits}"));
        write_in(&vs, out);
        match r {
            Ok(Ok(o)) => { out.obs("out", &seq(&o)); out.obs("keys", &o.iter().map(key).collect::<Vec<_>>().join(" ")); }
            Ok(Err(e)) => out.obs("out", &format!("err {}", crate::tri::err_kind(&e))),
            Err(m) => out.obs("out", &format!("panic {m}")),
        }
        out.end();
    }
}

fn dedups<const D: usize>(id: &str, rng: &mut Rng, out: &mut Out) {
    let n = 3 + rng.below(14) as usize;
    // clustered points: copies displaced by multiples of the tolerance
    let eps = [1e-9_f64, 0.5, 1e-3][rng.below(3) as usize];
    let mut pts: Vec<Vec<f64>> = Vec::new();
    while pts.len() < n {
        if !pts.is_empty() && rng.chance(1, 2) {
            let mut p = rng.pick(&pts).clone();
            let k = [0.0, 0.25, 0.5, 2.0, 3.0][rng.below(5) as usize];
            let ax = rng.below(D as u64) as usize;
            p[ax] += k * eps;
            if rng.chance(1, 6) { for x in p.iter_mut() { if *x == 0.0 { *x = -0.0; } } }
            pts.push(p);
        } else {
            pts.push((0..D).map(|_| rng.range(-4, 4) as f64).collect());
        }
    }
    // large coordinates relative to the tolerance: |c / eps| beyond 2^53 (a hash grid can no longer
    // key the cell) and beyond 2^63 (quantisation to i64 fails): the fallback paths of the
    // epsilon variants, reached in the middle of the input
    if rng.chance(1, 3) {
        let k = [50i32, 53, 54, 62, 63, 64, 70][rng.below(7) as usize];
        let big = eps * 2f64.powi(k);
        let nbig = 1 + rng.below(3) as usize;
        for _ in 0..nbig {
            let at = rng.below(pts.len() as u64 + 1) as usize;
            let mut p: Vec<f64> = (0..D).map(|_| rng.range(-3, 3) as f64).collect();
            let ax = rng.below(D as u64) as usize;
            p[ax] = big * rng.range(1, 3) as f64 * if rng.chance(1, 2) { 1.0 } else { -1.0 };
            pts.insert(at, p);
        }
    }
    // chains at the scale of the tolerance, in both directions along a random axis: S1, S2 = S1 +
    // 1.5 eps (a legitimate second survivor in the neighbouring cell) and X = S2 + 0.5 eps (within
    // the tolerance of S2 only, 2 eps from S1).  A neighbourhood scan that stops at the first
    // candidate that is NOT a duplicate keeps X whenever it meets S1 first.
    for dir in [1.0f64, -1.0] {
        let ax = rng.below(D as u64) as usize;
        let base: Vec<f64> = (0..D).map(|_| rng.range(-4, 4) as f64 + 8.0 * dir).collect();
        let mut s2 = base.clone(); s2[ax] += dir * 1.5 * eps;
        let mut x = s2.clone(); x[ax] += dir * 0.5 * eps;
        // an exact copy of S2 after S1 as well
        let copy = s2.clone();
        let at = rng.below(pts.len() as u64 + 1) as usize;
        pts.insert(at, base);
        pts.push(s2); pts.push(x); pts.push(copy);
    }
    let vs = mk::<D>(&pts, rng);
    let mut run = |name: &str, variant: i32, f: &dyn Fn() -> Vec<V<D>>, out: &mut Out| {
        let r = catch(f);
        out.case(&format!("{id}_{name}"), "ded", &format!("D={D} variant={variant} eps={}", crate::common::hx(eps)));
        write_in(&vs, out);
        match r { Ok(o) => out.obs("out", &seq(&o)), Err(m) => out.obs("out", &format!("panic {m}")) }
        out.end();
    };
    run("pub_exact", 10, &|| dedup_vertices_exact(&vs), out);
    run("pub_eps", 11, &|| dedup_vertices_epsilon(&vs, eps), out);
    for variant in 0..5u8 {
        let grid = if variant == 1 { 1e-10 } else { eps };
        run(&format!("v{variant}"), variant as i32, &|| verif_api::dedup_variant(vs.clone(), variant, eps, grid), out);
    }
    // end to end: the survivors of `DedupPolicy::Epsilon` as the batch constructor applies it (it
    // chooses the grid cell size itself); judged only when nothing was skipped for another reason
    {
        use delaunay::core::delaunay_triangulation::{ConstructionOptions, DedupPolicy, DelaunayTriangulation};
        use delaunay::geometry::kernel::FastKernel;
        let o = ConstructionOptions::default().with_dedup_policy(DedupPolicy::Epsilon { tolerance: eps });
        let r = catch(|| DelaunayTriangulation::<FastKernel<f64>, i32, (), D>::with_topology_guarantee_and_options_with_construction_statistics(
            &FastKernel::new(), &vs, delaunay::core::triangulation::TopologyGuarantee::PLManifold, o));
        if let Ok(Ok((dt, st))) = r {
            if st.skipped_degeneracy == 0 {
                let mut surv: Vec<i32> = dt.vertices().map(|(_, v)| v.data.unwrap_or(-1)).collect();
                surv.sort_unstable();
                out.case(&format!("{id}_e2e"), "ded", &format!("D={D} variant=20 eps={}", crate::common::hx(eps)));
                write_in(&vs, out);
                out.obs("out", &surv.iter().map(|x| x.to_string()).collect::<Vec<_>>().join(" "));
                out.end();
            }
        }
    }
}

/// documented contract of the quantiser: grid coordinates in [0, 2^bits) for every supported
/// scalar type (f64 and f32), every bit depth 1..=31 and coordinates on, inside and beyond the bounds;
/// and the index of such a point stays below 2^(D*bits)
fn quant_range(out: &mut Out) {
    use delaunay::core::util::hilbert::{hilbert_index, hilbert_quantize};
    let mut problems: Vec<String> = Vec::new();
    for bits in 1u32..=31 {
        let maxq: u64 = (1u64 << bits) - 1;
        for (lo, hi) in [(0.0f64, 1.0f64), (-3.0, 1.0), (1.0, 1.0e6), (-1.0e-3, 1.0e-3)] {
            for t in [0.0f64, 1.0, 0.5, 1.5, -0.5, 0.999_999_9, 1.0e-9] {
                let x = lo + t * (hi - lo);
                // f64
                let c2 = [x, lo];
                match hilbert_quantize::<f64, 2>(&c2, (lo, hi), bits) {
                    Ok(q) => if q.iter().any(|v| u64::from(*v) > maxq) && problems.len() < 4 { problems.push(format!("f64 bits={bits} bounds=({lo},{hi}) coordinate {x}: quantised to {q:?}, outside [0, 2^{bits})")); },
                    Err(_) => if problems.len() < 4 { problems.push(format!("f64 bits={bits}: quantiser refused a valid bit depth")); },
                }
                if 2 * bits <= 127 {
                    if let Ok(ix) = hilbert_index::<f64, 2>(&c2, (lo, hi), bits) { if ix >> (2 * bits) != 0 && problems.len() < 4 { problems.push(format!("f64 bits={bits}: index {ix} >= 2^(2*bits)")); } }
                }
                // f32
                let (lof, hif, xf) = (lo as f32, hi as f32, x as f32);
                let c3 = [xf, hif, lof];
                match hilbert_quantize::<f32, 3>(&c3, (lof, hif), bits) {
                    Ok(q) => if q.iter().any(|v| u64::from(*v) > maxq) && problems.len() < 4 { problems.push(format!("f32 bits={bits} bounds=({lof},{hif}) coordinates {c3:?}: quantised to {q:?}, outside [0, 2^{bits})")); },
                    Err(_) => if problems.len() < 4 { problems.push(format!("f32 bits={bits}: quantiser refused a valid bit depth")); },
                }
                // the two opposite corners of the box must not share an index
                if 3 * bits <= 127 && hif > lof {
                    let a = hilbert_index::<f32, 3>(&[lof, lof, lof], (lof, hif), bits);
                    let b = hilbert_index::<f32, 3>(&[hif, hif, hif], (lof, hif), bits);
                    if let (Ok(a), Ok(b)) = (a, b) { if a == b && problems.len() < 4 { problems.push(format!("f32 bits={bits} bounds=({lof},{hif}): minimum and maximum corner share Hilbert index {a}")); } }
                }
            }
        }
    }
    out.case("qr0", "chk", "what=hilbert_quantize_range");
    if problems.is_empty() { out.obs("same", "1"); } else { out.obs("fail", &problems.join(" / ")); }
    out.end();
}

pub fn run(cfg: &Cfg, rng: &mut Rng, out: &mut Out) {
    quant_range(out);
    let thorough = cfg.tier == "thorough";
    // exhaustive small grids: every (D, bits) with D*bits <= 12 (quick) / 16 (thorough)
    let cap = if thorough { 16 } else { 12 };
    for bits in 1..=cap { if bits <= cap { hil_grid::<1>(bits as u32, out, &format!("g1_{bits}")); } }
    for bits in 1..=cap / 2 { hil_grid::<2>(bits as u32, out, &format!("g2_{bits}")); }
    for bits in 1..=cap / 3 { hil_grid::<3>(bits as u32, out, &format!("g3_{bits}")); }
    for bits in 1..=cap / 4 { hil_grid::<4>(bits as u32, out, &format!("g4_{bits}")); }
    for bits in 1..=cap / 5 { hil_grid::<5>(bits as u32, out, &format!("g5_{bits}")); }
    // random cells at large bit depths, including the parameter guards
    let cnt = if thorough { 20000 } else { 5000 };
    for (i, bits) in [31u32, 17, 31, 9].into_iter().enumerate() {
        hil_random::<2>(rng, bits, cnt / 8, out, &format!("r2_{i}"));
        hil_random::<3>(rng, bits, cnt / 8, out, &format!("r3_{i}"));
        hil_random::<4>(rng, bits, cnt / 8, out, &format!("r4_{i}"));
    }
    hil_random::<5>(rng, 25, cnt / 8, out, "r5_0");
    hil_random::<5>(rng, 26, 4, out, "r5_guard"); // 130 bits: must be refused
    hil_random::<2>(rng, 0, 4, out, "r2_zero");
    hil_random::<2>(rng, 32, 4, out, "r2_big");
    let no = if thorough { 400 } else { 150 };
    for i in 0..no {
        match 2 + (i % 4) {
            2 => { orders::<2>(&format!("o{i}"), rng, out); dedups::<2>(&format!("e{i}"), rng, out); hsorts::<2>(&format!("hs{i}"), rng, out); }
            3 => { orders::<3>(&format!("o{i}"), rng, out); dedups::<3>(&format!("e{i}"), rng, out); hsorts::<3>(&format!("hs{i}"), rng, out); }
            4 => { orders::<4>(&format!("o{i}"), rng, out); dedups::<4>(&format!("e{i}"), rng, out); hsorts::<4>(&format!("hs{i}"), rng, out); }
            _ => { orders::<5>(&format!("o{i}"), rng, out); dedups::<5>(&format!("e{i}"), rng, out); hsorts::<5>(&format!("hs{i}"), rng, out); }
        }
    }
}
