/-
Driver/CxHandlers.lean — cases that carry an exported complex: the exact oracle (Model/Judge) is
applied to what the implementation returned and compared with the implementation's own verdicts.

Case args: g=<0|1|2> guarantee; expect=certified (a library-produced result that the property says
must be a certified triangulation) | expect=valid123 (L1–L3 only, e.g. after flips) | expect=none
(corrupted input: only verdict comparison); gp=1 (generator guarantees general position).
Observations (each optional): l1, tds_is_valid, tds_validate, tri_is_valid, tri_validate,
dt_is_valid, dt_validate, report, via_flips, violations <n>   — values `ok` or `err <Kind>`.
-/
import DelaunayModel.Model.ProtoCx
import DelaunayModel.Model.Judge
import DelaunayModel.Model.Flip
import DelaunayModel.Model.Cavity
import DelaunayModel.Model.StarRemoval
open DM

structure Res where
  status : String      -- ok | skip | DISAGREE | ORACLE
  detail : String := ""
  stats : List String := []

def obOk (c : Case) (n : String) : Option Bool :=
  match c.ob n with
  | some (v :: _) => if v == "ok" then some true else if v == "err" then some false else none
  | _ => none

def gpLimit (d : Nat) : Nat := if d ≤ 2 then 16 else if d == 3 then 13 else if d == 4 then 10 else 9

def boolTok (b : Bool) : String := if b then "ok" else "err"

/-- documented perturbation: a retried insertion stores `x_i ± 1e-8 · local_scale · (i+1)` where
`local_scale` is a distance between two points of the set (triangulation.rs:2985-3042, :3270), so
per axis the displacement is at most `1e-8 · (i+1) · diam₁(input)` (L1 diameter ≥ any distance). -/
def perturbBound (ins : List DPt) (axis : Nat) : Q :=
  let d := (ins.headD []).length
  let diam := (List.range d).foldl (fun acc j =>
    let col := ins.map (fun p => Q.ofDy (p.getD j Dy.zero))
    let mx := col.foldl (fun a x => if Q.lt a x then x else a) (col.headD (Q.ofInt 0))
    let mn := col.foldl (fun a x => if Q.lt x a then x else a) (col.headD (Q.ofInt 0))
    acc + (mx - mn)) (Q.ofInt 0)
  (⟨1000001, 1000000 * 10 ^ 8⟩ : Q) * Q.ofInt (axis + 1) * diam

/-- vertices of the result vs the `in` records: same id ⇒ same data, and coordinates bit-identical
or displaced by at most the documented perturbation.  Returns (problems, number perturbed). -/
def vertexProvenance (c : Case) (X : CxExtra) : List String × Nat :=
  let ins := (c.recsOf "in").filterMap (fun r => match r with
    | _ :: idS :: rest =>
      let (coords, tail) := splitAt1 rest "d"
      idS.toNat?.map (fun id => (id, coords, " ".intercalate tail))
    | _ => none)
  if ins.isEmpty then ([], 0) else
  let inPts := ins.filterMap (fun (_, coords, _) => parsePt coords)
  X.vbits.foldl (fun (acc : List String × Nat) (id, bits) =>
    match ins.find? (fun (i, _, _) => i == id) with
    | none => (s!"result vertex {id} is not an input vertex (invented UUID)" :: acc.1, acc.2)
    | some (_, coords, data) =>
      if (X.vdata.lookup id).getD "" != data then
        (s!"result vertex {id} data {(X.vdata.lookup id).getD ""} differs from input data {data}" :: acc.1, acc.2)
      else if coords == bits then acc
      else match parsePt coords, parsePt bits with
        | some p, some r =>
          let okAxes := (List.range p.length).all (fun i =>
            Q.le (Q.abs (Q.ofDy (r.getD i Dy.zero) - Q.ofDy (p.getD i Dy.zero))) (perturbBound inPts i))
          if okAxes then (acc.1, acc.2 + 1)
          else (s!"result vertex {id} is displaced from its input by more than the documented perturbation ({bits} vs {coords})" :: acc.1, acc.2)
        | _, _ => (s!"result vertex {id} has non-finite coordinates" :: acc.1, acc.2)) ([], 0)

def runCx (c : Case) : Res :=
  if (c.ob1 "result") == "err" then
    { status := "skip", stats := [s!"cx.result.err.{((c.ob "result").getD []).getD 1 ""}"] }
  else if (c.ob1 "result").startsWith "panic" then
    { status := "ORACLE", detail := s!"constructor panicked: {c.ob "result"}" }
  else
  match parseCx c "" with
  | none => { status := "DISAGREE", detail := "cannot parse exported complex" }
  | some (K, X) =>
    let g := c.argNat "g"
    let expect := c.arg "expect"
    let J := judge K g
    -- local violations (the vertex is the apex of a facet neighbour) first: if any exists it heads
    -- the list, so a message that names a non-local one means there is no local one at all
    let strict := let sv := J.viols.filter (·.strict); sv.filter (·.nbrApex) ++ sv.filter (fun v => !v.nbrApex)
    Id.run do
      let mut bad : List String := []      -- oracle failures (accept/reject differs from exact recomputation)
      let mut dis : List String := []      -- model-only disagreements
      let mut stats : List String := [s!"cx.D{K.D}", s!"cx.expect.{expect}"]
      for (n, v) in c.obs do
        if (v.headD "").startsWith "panic" then bad := s!"{n}=panic:{v}" :: bad
      -- ---------- what the property demands of library-produced results
      -- expect=certified  : valid123 + sphere + convex + gpdt + provenance (C01)
      -- expect=valid123   : L1–L3 at guarantee g (with completion-time links)
      -- expect=state      : bootstrap (no cells, ≤ D vertices) or valid123 (C02/C06)
      -- expect=valid12m   : L1, L2 + combinatorial manifold invariants (after flips, C07)
      -- flags sphere=1 convex=1 gpdt=1 prov=1 add the corresponding demands
      let certified := expect == "certified"
      let flag (k : String) : Bool := certified || c.arg k == "1"
      let comb := (J.l3parts.filter (fun p => p.1 != "geomOrient" && p.1 != "ridgeLinks" && p.1 != "vertexLinksStrict"))
      let combOk := comb.all (·.2)
      let bootstrap := K.cells.isEmpty && K.verts.length ≤ K.D
      if expect == "state" && K.cells.isEmpty && !bootstrap then
        bad := s!"no cells although {K.verts.length} > D vertices are stored (neither bootstrap nor a triangulation)" :: bad
      if certified || expect == "valid123" || (expect == "state" && !bootstrap) then
        if !J.l1 then bad := "result fails Level 1 (element validity) on independent recomputation" :: bad
        if !J.l2 then bad := "result fails Level 2 (structure) on independent recomputation" :: bad
        -- orientations inside the tolerance band are left unjudged (IEEE evaluation is outside the
        -- model) — except when a cell is EXACTLY flat and the library's own Level-3 validator
        -- rejects the state too: then no rounding argument can excuse the committed result
        let flat := (orientIssues K).any (fun (_, o, _) => o == 0)
        let implRejects := obOk c "tri_is_valid" == some false
        if flat && !implRejects && J.l1 && J.l2 then
          stats := "cx.flat.float_invisible" :: stats
          bad := s!"flat-cell: the result contains a cell of exactly zero volume although Triangulation::is_valid accepts the state (degeneracy invisible to the floating-point orientation predicate; D={K.D})" :: bad
        if J.l1 && J.l2 && !J.l3c && (!J.orientBand || (flat && implRejects)) then
          let failing := (J.l3parts.filter (fun p => !p.2)).map (·.1)
          bad := s!"result fails Level 3 (topology, g={g}): {failing} completionLinks={J.l3c}{if flat then " (a cell has exactly zero volume and Triangulation::is_valid rejects the state)" else ""}" :: bad
      if expect == "state" && bootstrap && !J.l1 then
        bad := "bootstrap state fails Level 1 (element validity)" :: bad
      if expect == "valid12" then
        -- C13: a document that was LOADED must describe a structurally consistent complex
        if !J.l1 then bad := s!"loaded document fails Level 1 (element validity): corruption={c.arg "corruption"}" :: bad
        if J.l1 && !J.l2 then
          let parts : List (String × Bool) := [("idsUnique", idsUnique K), ("vertsExist", vertsExist K), ("incidentOk", incidentOk K),
            ("noDupCells", noDupCells K), ("facetLe2", facetLe2 K), ("nbrOk", nbrOk K), ("coherent", coherent K)]
          let failing := (parts.filter (fun p => !p.2)).map (·.1)
          bad := s!"loaded document fails Level 2 (structure) {failing}: corruption={c.arg "corruption"}" :: bad
      if expect == "valid12m" then
        if !J.l1 then bad := "state fails Level 1 (element validity) on independent recomputation" :: bad
        if !J.l2 then bad := "state fails Level 2 (structure) on independent recomputation" :: bad
        if J.l1 && J.l2 && !combOk then
          bad := s!"state violates combinatorial manifold invariants: {(comb.filter (fun p => !p.2)).map (·.1)}" :: bad
      if flag "sphere" then
        for v in strict.take 3 do
          bad := s!"sphere-violation D={K.D} cell={v.cell} vertex={v.vert} nbrApex={v.nbrApex} in a result reported Ok" :: bad
      if flag "convex" then
        for (cid, i, vid) in J.convex.take 3 do
          bad := s!"convexity-violation D={K.D} cell={cid} slot={i} vertex={vid} strictly beyond a boundary facet" :: bad
      if flag "prov" then
        -- provenance of vertices and counts
        let (pv, npert) := vertexProvenance c X
        for m in pv.take 3 do bad := m :: bad
        if npert > 0 then stats := "cx.perturbed" :: stats
      match (c.ob1 "nverts").toNat? with
      | some n => if n != K.verts.length then bad := s!"number_of_vertices()={n} but {K.verts.length} vertices are stored" :: bad
      | none => pure ()
      match c.ob "stats" with
      | some (ins :: rest) =>
        if ins.toNat? != some K.verts.length then bad := s!"statistics report inserted={ins} but {K.verts.length} vertices are present" :: bad
        -- every input vertex is accounted for: present, a duplicate of a present vertex (within the
        -- dedup tolerance of the options or the 1e-10 insertion tolerance), or covered by the
        -- skipped counters; a vertex that vanished otherwise was dropped silently
        let ins2 : List (Nat × DPt) := (c.recsOf "in").filterMap (fun r => match r with
          | _ :: idS :: rest0 =>
            let (coords, _) := splitAt1 rest0 "d"
            match idS.toNat?, parsePt coords with
            | some i, some p => some (i, p)
            | _, _ => none
          | _ => none)
        let dtol : Q := match (parseF64 (c.arg "dedup_tol")).bind F64.dy? with
          | some t => let q := Q.ofDy t; if Q.lt q ⟨1, 10 ^ 10⟩ then ⟨1, 10 ^ 10⟩ else q
          | none => ⟨1, 10 ^ 10⟩
        let tol2 := dtol * dtol * ⟨1000001, 1000000⟩
        let present : List DPt := K.verts.filterMap (·.pt)
        let missing := ins2.filter (fun (i, _) => !(K.verts.any (·.id == i)))
        let d2 (a b : DPt) : Q := (a.zip b).foldl (fun acc (x, y) => let e := Q.ofDy x - Q.ofDy y; acc + e * e) (Q.ofInt 0)
        -- the documented perturbation moves stored points by ~1e-8: compare with the INPUT positions of kept vertices
        let keptIn : List DPt := ins2.filterMap (fun (i, p) => if K.verts.any (·.id == i) then some p else none)
        let unexplained := missing.filter (fun (_, p) => !((present ++ keptIn).any (fun u => Q.le (d2 p u) tol2)))
        -- several missing inputs that are duplicates of EACH OTHER need one skip credit together
        -- (dedup removes all but one, that one may then be skipped as degenerate)
        let reps := unexplained.foldl (fun (acc : List DPt) (x : Nat × DPt) =>
          if acc.any (fun u => Q.le (d2 x.2 u) tol2) then acc else x.2 :: acc) []
        match ins.toNat?, (rest.getD 0 "").toNat?, (rest.getD 1 "").toNat? with
        | some _, some b, some d =>
          if reps.length > b + d then
            bad := s!"{unexplained.length} input vertices (e.g. id {(unexplained.map (·.1)).take 3}) are neither present, nor duplicates of a present vertex, nor covered by the skipped counters (duplicate={b}, degenerate={d})" :: bad
        | _, _, _ => pure ()
      | _ => pure ()
      if flag "gpdt" then
        -- general position: the result must be THE Delaunay triangulation.  (If some exact
        -- violation exists it is reported above when it is strict; inside the band no claim.)
        let vp := vertPts K (minExp (allPts K))
        if J.l1 && J.l2 && J.viols.isEmpty && (convexityViolations K).isEmpty &&
            vp.length ≤ gpLimit K.D && vp.length ≥ K.D + 1 then
          if generalPosition K.D vp then
            stats := "cx.gp.checked" :: stats
            if !sameCellSet K (bruteDT K.D vp) then
              bad := s!"general-position result differs from the brute-force Delaunay cell set (D={K.D}, n={vp.length})" :: bad
      -- ---------- C07 K1: the bistellar-move model applied to the pre-state must give the post-state
      match c.ob "flipR", c.ob "flipI", c.ob "pre" with
      | some [rS], some [iS], some [preS] =>
        let nums (t : String) : List Nat := (t.splitOn ",").filterMap String.toNat?
        let R := nums rS
        let I := nums iS
        let pre := (preS.splitOn ";").map (fun t => sortNat (nums t))
        let post := K.cells.map cellKey
        stats := "cx.flip.modelled" :: stats
        if !flipGuard K.D pre R I then
          bad := s!"flip reported Ok but the move (R={R}, I={I}) is not a legal bistellar move on the previous cell set (model guard false)" :: bad
        else if !insertedFaceNew pre R I then
          bad := s!"flip reported Ok although the inserted face I={I} already existed in a cell outside the removed star (R={R}): afterwards its star is not the set of created cells (non-manifold link)" :: bad
        else
          let want := flipCells pre R I
          if !(want.all post.contains && post.all want.contains && want.length == post.length) then
            bad := s!"cells after the flip differ from the bistellar move R={R} I={I} applied to the previous cells (FlipInfo / edit mismatch)" :: bad
      | _, _, _ => pure ()
      -- ---------- C02 K1: a successful insertion is a cavity / hull step of the model
      -- cav <new vertex id> repair=<0|1> attempts=<n|-> removed=<n|-> <cells before>
      match c.ob "cav" with
      | some [vS, repS, _attS, remS, preS] =>
        let nums (t : String) : List Nat := (t.splitOn ",").filterMap String.toNat?
        match vS.toNat? with
        | some v =>
          let pre := ((preS.splitOn ";").filter (· ≠ "")).map (fun t => sortNat (nums t))
          let post := K.cells.map cellKey
          match cavityStepProblem pre post v with
          | none => stats := "cx.cavity.legal_step" :: stats
          | some why =>
            -- a flip repair after the insertion, or the local facet repair, edits cells beyond the
            -- cavity: no claim there; with repair Never and no cell removed by local repair the
            -- insertion must be exactly one cavity / hull step
            if repS == "repair=1" then stats := "cx.cavity.other_after_flip_repair" :: stats
            else if remS == "removed=0" then
              dis := s!"insertion under repair policy Never, no cells removed by local repair: the cell sets before/after are not a cavity or hull-extension step of the model ({why.take 300})" :: dis
            else stats := "cx.cavity.other_local_repair_or_unknown" :: stats
        | none => pure ()
      | _ => pure ()
      -- ---------- C06 K1: a successful removal is a star removal of the model
      -- rm <vertex id> repair=<0|1> <cells before>
      match c.ob "rm" with
      | some [vS, repS, preS] =>
        let nums (t : String) : List Nat := (t.splitOn ",").filterMap String.toNat?
        match vS.toNat? with
        | some v =>
          let pre := ((preS.splitOn ";").filter (· ≠ "")).map (fun t => sortNat (nums t))
          let post := K.cells.map cellKey
          if !(pre.any (·.contains v)) then stats := "cx.starrm.vertex_without_cells" :: stats
          else
          match starRemovalProblem pre post v with
          | none => stats := "cx.starrm.legal_step" :: stats
          | some why =>
            -- a flip repair after the removal edits cells beyond the star: no claim there
            if repS == "repair=1" then stats := "cx.starrm.other_after_flip_repair" :: stats
            else dis := s!"removal under repair policy Never: the cell sets before/after are not a star removal of the model ({why.take 300})" :: dis
        | none => pure ()
      | _ => pure ()
      -- harness-side observations that must simply be 1 (computed on the Rust side from fingerprints)
      -- C13 "further insertions give the same result": the Delaunay triangulation is only unique
      -- FOR THE FLOATING-POINT PREDICATES where every orientation and in-sphere sign of the final
      -- point set is decidable outside the tolerance band; elsewhere two valid runs may differ
      let suffixDemanded : Bool :=
        if c.arg "op" != "serde_roundtrip" then true else
        let dp : List (Nat × DPt) := K.verts.filterMap (fun v => v.pt.map (fun p => (v.id, p)))
        if dp.length > gpLimit K.D || dp.length < K.D + 2 then false else
        (subsetsK (K.D + 1) (sortNat (dp.map (·.1)))).all (fun S =>
          match S.mapM (fun i => dp.lookup i) with
          | none => false
          | some sp => dp.all (fun (vid, q) => S.contains vid ||
              (let e := predExpect K.D sp q; e.orient.isSome && e.insphere.isSome)))
      if c.arg "op" == "serde_roundtrip" then
        stats := (if suffixDemanded then "cx.suffix.demanded" else "cx.suffix.band") :: stats
      -- Level-4 verdict before/after a serde round trip: counted, not demanded (see harness p13)
      if (c.ob "l4_pair").isSome then stats := s!"cx.serde.l4_pair.{c.ob1 "l4_pair"}" :: stats
      for n in ["unchanged", "vertices_kept", "key_resolves", "one_added", "removed_gone", "same_vertices", "roundtrip_equal"] do
        if n == "key_resolves" && !suffixDemanded then continue
        match c.ob n with
        | some (v :: rest) => if v != "1" then bad := s!"{n}={v} {" ".intercalate rest}" :: bad
        | _ => pure ()
      -- ---------- validators vs independent recomputation (C05)
      match obOk c "l1" with
      | some b => if b != J.l1 then bad := s!"Level-1 element validators say {boolTok b}, recomputation says {boolTok J.l1}" :: bad
      | none => pure ()
      if J.l1 then
        match obOk c "tds_is_valid" with
        | some b => if b != J.l2 then bad := s!"Tds::is_valid says {boolTok b}, recomputation of Level 2 says {boolTok J.l2}" :: bad
        | none => pure ()
      match obOk c "tds_validate" with
      | some b => if b != (J.l1 && J.l2) then bad := s!"Tds::validate says {boolTok b}, L1∧L2 recomputed = {boolTok (J.l1 && J.l2)}" :: bad
      | none => pure ()
      if J.l1 && J.l2 && !J.orientBand then
        match obOk c "tri_is_valid" with
        | some b =>
          if b != J.l3 then
            let failing := (J.l3parts.filter (fun p => !p.2)).map (·.1)
            bad := s!"Triangulation::is_valid says {boolTok b}, recomputation of Level 3 (g={g}) says {boolTok J.l3} {failing}" :: bad
        | none => pure ()
      -- the public PART validators, each against its own model function, on structurally valid
      -- complexes (Levels 1-2) and in the library's own order: a later part is only compared when
      -- the earlier ones hold (the library never evaluates it otherwise)
      let cmp (n : String) (want : Bool) (what : String) : List String :=
        match obOk c n with
        | some b => if b != want then [s!"part validator {what} says {boolTok b}, its model says {boolTok want}"] else []
        | none => []
      -- connectivity is a walk over the STORED cells along neighbour keys: defined for every complex
      -- whose elements are valid, dangling neighbour keys (raw `remove_cell_by_key`) included
      -- (the walk starts at the first stored cell, which the export order need not preserve: the
      -- comparison is made where the answer cannot depend on the start, i.e. where the neighbour
      -- relation among the stored cells is symmetric)
      let listsId (s : Cell) (i : Nat) : Bool := match s.nb with | none => false | some l => l.contains (some i)
      let symmetric : Bool := K.cells.all (fun s => K.cells.all (fun b => listsId s b.id == listsId b s.id))
      if J.l1 && decide (K.cells.map (·.id)).Nodup && symmetric then
        bad := cmp "p_connected" (connected K) "Tds::is_connected" ++ bad
      if J.l1 && J.l2 then
        bad := cmp "p_coherent" (coherent K) "Tds::is_coherently_oriented" ++ bad
        bad := cmp "p_facet_degree" (facetDegOk K) "validate_facet_degree" ++ bad
        if facetDegOk K then
          bad := cmp "p_closed_boundary" (closedBoundary K) "validate_closed_boundary" ++ bad
          if closedBoundary K then
            bad := cmp "p_ridge_links" (ridgeLinksOk K) "validate_ridge_links" ++ bad
      if !J.orientBand || !(J.l1 && J.l2) then
        match obOk c "tri_validate" with
        | some b => if b != (J.l1 && J.l2 && J.l3c) then
            bad := s!"Triangulation::validate says {boolTok b}, L1∧L2∧L3∧completion recomputed = {boolTok (J.l1 && J.l2 && J.l3c)} (l1={J.l1} l2={J.l2} l3={J.l3} l3c={J.l3c})" :: bad
        | none => pure ()
      -- the report is empty exactly when cumulative validation passes (both from the implementation)
      match obOk c "report", obOk c "dt_validate" with
      | some r, some v => if r != v then bad := s!"validation_report empty={r} but validate ok={v}" :: bad
      | _, _ => pure ()
      -- ---------- Delaunay verdicts vs exact empty-sphere (C04)
      let nondegenerate := (orientIssues K).all (fun (_, o, _) => o != 0)
      if J.l1 && J.l2 && combOk && nondegenerate && !J.orientBand then
        stats := (if J.viols.isEmpty then "cx.delaunay.exact" else if strict.isEmpty then "cx.delaunay.band" else "cx.delaunay.violated") :: stats
        for n in ["dt_is_valid", "via_flips", "violations"] do
          match obOk c n with
          | some true =>
            match strict.head? with
            | some v => bad := s!"sphere-violation D={K.D} cell={v.cell} vertex={v.vert} nbrApex={v.nbrApex} accepted by {n}" :: bad
            | none => pure ()
          | some false =>
            if J.viols.isEmpty && c.arg "gp" == "1" then
              bad := s!"{n} rejects a triangulation that is exactly Delaunay (general position, D={K.D})" :: bad
          | none => pure ()
        match obOk c "dt_validate" with
        | some true =>
          match strict.head? with
          | some v => bad := s!"sphere-violation D={K.D} cell={v.cell} vertex={v.vert} nbrApex={v.nbrApex} accepted by dt_validate" :: bad
          | none => if !J.l3c then bad := "DelaunayTriangulation::validate accepts a complex failing Level 3 / completion-time vertex links" :: bad
        | _ => pure ()
      if !bad.isEmpty then
        return { status := "ORACLE", detail := " ; ".intercalate bad.reverse, stats := stats }
      if !dis.isEmpty then
        return { status := "DISAGREE", detail := " ; ".intercalate dis.reverse, stats := stats }
      return { status := "ok", stats := stats }
