/-
Model/ProtoCx.lean — parse an exported complex (`<tag>D`, `<tag>v`, `<tag>c` records) from a case.
  <tag>v <id> <hex>*D i <cell id|-|x> d <data>
  <tag>c <id> <vid|x>*(D+1) n (none | <cid|-|x>*(D+1)) d <data>
`x` marks a dangling reference (key that resolves to nothing) and becomes an id no entity has.
-/
import DelaunayModel.Model.Proto
import DelaunayModel.Model.Cx
namespace DM

def danglingId : Nat := 4000000000

def refTok (s : String) : Option Nat :=
  if s == "x" then some danglingId else s.toNat?

def splitAt1 (l : List String) (sep : String) : List String × List String :=
  (l.takeWhile (· ≠ sep), (l.dropWhile (· ≠ sep)).drop 1)

structure CxExtra where
  vdata : List (Nat × String)
  cdata : List (Nat × String)
  vbits : List (Nat × List String)   -- raw hex per vertex (bit-exact comparisons)
  deriving Inhabited

def parseCx (c : Case) (tag : String) : Option (Cx × CxExtra) := do
  let dRec ← (c.recsOf (tag ++ "D")).head?
  let d ← (dRec.head?).bind String.toNat?
  let mut verts : Array Vtx := #[]
  let mut vdata : Array (Nat × String) := #[]
  let mut vbits : Array (Nat × List String) := #[]
  for r in c.recsOf (tag ++ "v") do
    match r with
    | idS :: rest =>
      let id ← idS.toNat?
      let (coords, tail) := splitAt1 rest "i"
      let (incT, dataT) := splitAt1 tail "d"
      let inc : Option Nat := match incT with
        | [t] => if t == "-" then none else refTok t
        | _ => none
      verts := verts.push { id := id, pt := parsePt coords, inc := inc }
      vdata := vdata.push (id, " ".intercalate dataT)
      vbits := vbits.push (id, coords)
    | [] => none
  let mut cells : Array Cell := #[]
  let mut cdata : Array (Nat × String) := #[]
  for r in c.recsOf (tag ++ "c") do
    match r with
    | idS :: rest =>
      let id ← idS.toNat?
      let (vsT, tail) := splitAt1 rest "n"
      let (nbT, dataT) := splitAt1 tail "d"
      let vs ← vsT.mapM refTok
      let nb : Option (List (Option Nat)) :=
        if nbT == ["none"] then none
        else some (nbT.map (fun t => if t == "-" then none else refTok t))
      cells := cells.push { id := id, vs := vs, nb := nb }
      cdata := cdata.push (id, " ".intercalate dataT)
    | [] => none
  return ({ D := d, verts := verts.toList, cells := cells.toList },
          { vdata := vdata.toList, cdata := cdata.toList, vbits := vbits.toList })

end DM
