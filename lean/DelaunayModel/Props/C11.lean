/-
Props/C11.lean — property theorems for C11 (the hull view is the true hull and never serves
stale data).

 * `gen_monotone`, `gen_stale`: for ANY history of mutating calls on one triangulation object in
   which every call satisfies `stepOk` (counter never decreases; it increases whenever the
   observable structure changed — what the K2 monitor checks on the real code after every call,
   failed and rolled-back ones included): if the counter at query time equals the counter at hull
   creation, no call in between changed the structure.  Hence (`guarded_answer_fresh`) a guarded
   query either reports staleness or answers about the structure the hull was created from.
 * `hullFacets_def`: the model's hull = facets incident to exactly one cell (`boundaryFacets`),
   closedness is C05's `closedBoundary_iff`.
Scope: histories of calls on one triangulation value.  A fresh Tds moved into place (bootstrap at
D+1 vertices, heuristic rebuild `*self = candidate`) used to restart the counter at 0, which breaks
`stepOk` (the counter goes back) and let an old hull answer about a different triangulation
(`restart_witness`; defect F14, fixed: the replacing Tds continues the sequence).  The K2 monitor
checks `stepOk` itself after every call, and a hull created at the start of a history is queried
after every later call.  Deserialisation creates a NEW value (no hull of it can pre-exist).
Not proved (T3): visibility completeness (point outside ⇒ some facet visible) — needs the facet
description of a convex hull; tied by K1 only.
-/
import DelaunayModel.Model.Gen
import DelaunayModel.Model.Certify
namespace DM.C11

open DM.Gen

theorem gen_monotone (g : Nat) (os : List Obs) (hc : chained g os = true)
    (hok : ∀ o ∈ os, stepOk o = true) : g ≤ finalGen g os := by
  induction os generalizing g with
  | nil => simp [finalGen]
  | cons o rest ih =>
    simp only [chained, Bool.and_eq_true, beq_iff_eq] at hc
    obtain ⟨hg, hrest⟩ := hc
    have ho := hok o (by simp)
    simp only [stepOk, Bool.and_eq_true, decide_eq_true_eq] at ho
    have := ih o.g1 hrest (fun x hx => hok x (by simp [hx]))
    simp only [finalGen]
    omega

/-- **no stale answers**: equal generations ⇒ nothing changed in between -/
theorem gen_stale (g : Nat) (os : List Obs) (hc : chained g os = true)
    (hok : ∀ o ∈ os, stepOk o = true) (heq : finalGen g os = g) :
    ∀ o ∈ os, o.changed = false := by
  induction os generalizing g with
  | nil => simp
  | cons o rest ih =>
    simp only [chained, Bool.and_eq_true, beq_iff_eq] at hc
    obtain ⟨hg, hrest⟩ := hc
    have ho := hok o (by simp)
    simp only [stepOk, Bool.and_eq_true, decide_eq_true_eq, Bool.or_eq_true, Bool.not_eq_eq_eq_not,
      Bool.not_true] at ho
    have hmono := gen_monotone o.g1 rest hrest (fun x hx => hok x (by simp [hx]))
    simp only [finalGen] at heq
    have h01 : o.g1 = o.g0 := by omega
    intro x hx
    cases hx with
    | head =>
      rcases ho.2 with h | h
      · exact h
      · omega
    | tail _ hx' =>
      have : finalGen o.g1 rest = o.g1 := by omega
      exact ih o.g1 hrest (fun x hx => hok x (by simp [hx])) this x hx'

/-- a guarded query that answers was asked at the creation generation -/
theorem guarded_answer_fresh {α : Type} (creation now : Nat) (f : Unit → α) (a : α)
    (h : guardedQuery creation now f = .answer a) : creation = now ∧ a = f () := by
  unfold guardedQuery at h
  split at h
  · simp at h
  · rename_i hne
    injection h with h
    simp only [bne_iff_ne, ne_eq, Decidable.not_not] at hne
    exact ⟨hne, h.symm⟩

/-- after a change every guarded query reports staleness -/
theorem guarded_stale_after_change {α : Type} (g : Nat) (os : List Obs) (f : Unit → α)
    (hc : chained g os = true) (hok : ∀ o ∈ os, stepOk o = true)
    (hch : ∃ o ∈ os, o.changed = true) : guardedQuery g (finalGen g os) f = .stale := by
  unfold guardedQuery
  have hne : finalGen g os ≠ g := by
    intro heq
    obtain ⟨o, ho, hcg⟩ := hch
    have := gen_stale g os hc hok heq o ho
    simp [this] at hcg
  have : (g != finalGen g os) = true := by
    simp only [bne_iff_ne, ne_eq]; exact fun h => hne h.symm
  simp [this]

/-- why monotonicity is needed (defect F14): if a call may move the counter BACK, a history that
changes the structure twice can end at the creation generation, and the guard then answers.
Remove (4 → 8), re-bootstrap with a restarted counter (8 → 4). -/
theorem restart_witness :
    let os : List Obs := [⟨true, 4, 8⟩, ⟨true, 8, 4⟩]
    chained 4 os = true ∧ (∃ o ∈ os, o.changed = true) ∧ (∃ o ∈ os, stepOk o = false) ∧
    guardedQuery 4 (finalGen 4 os) (fun _ => ()) = .answer () := by
  refine ⟨by decide, ⟨⟨true, 4, 8⟩, by simp, rfl⟩, ⟨⟨true, 8, 4⟩, by simp, by decide⟩, ?_⟩
  simp [guardedQuery, finalGen]

/-- the hull of the model is, by definition, the set of facets incident to exactly one cell -/
theorem hullFacets_def (K : Cx) (k : List Nat) :
    k ∈ boundaryFacets K ↔ ∃ f ∈ allFacets K, f.1 = k ∧ facetDeg K f.1 = 1 := by
  unfold boundaryFacets
  simp only [List.mem_map, List.mem_filter, beq_iff_eq]
  constructor
  · rintro ⟨f, ⟨hf, hd⟩, rfl⟩; exact ⟨f, hf, rfl, hd⟩
  · rintro ⟨f, hf, rfl, hd⟩; exact ⟨f, ⟨hf, hd⟩, rfl⟩

/-- non-vacuity: a 3-call history (unchanged/rolled back, changed, unchanged) is accepted, the
counter moved, and a hull created before it is stale afterwards -/
example : chained 5 [⟨false, 5, 6⟩, ⟨true, 6, 9⟩, ⟨false, 9, 9⟩] = true ∧
    (∀ o ∈ [(⟨false, 5, 6⟩ : Obs), ⟨true, 6, 9⟩, ⟨false, 9, 9⟩], stepOk o = true) ∧
    finalGen 5 [⟨false, 5, 6⟩, ⟨true, 6, 9⟩, ⟨false, 9, 9⟩] = 9 := by decide

end DM.C11

/-! ### nearest visible facet -/
namespace DM.C11
open DM.Hull

/-- nothing visible ⇔ no answer -/
theorem nearest_none_iff (fs : List (Nat × Int)) : nearest fs = none ↔ fs = [] := by
  cases fs with
  | nil => simp [nearest]
  | cons f rest =>
    simp only [nearest, reduceCtorEq, iff_false]
    cases nearest rest with
    | none => simp
    | some g => by_cases h : f.2 ≤ g.2 <;> simp [h]

/-- the answer is one of the visible facets -/
theorem nearest_mem (fs : List (Nat × Int)) (g : Nat × Int) (h : nearest fs = some g) : g ∈ fs := by
  induction fs generalizing g with
  | nil => simp [nearest] at h
  | cons f rest ih =>
    simp only [nearest] at h
    cases hr : nearest rest with
    | none => rw [hr] at h; simp at h; simp [h]
    | some g' =>
      rw [hr] at h
      by_cases hle : f.2 ≤ g'.2
      · simp [hle] at h; simp [h]
      · simp [hle] at h; subst h; exact List.mem_cons_of_mem _ (ih g' hr)

/-- and no visible facet has a smaller key -/
theorem nearest_minimal (fs : List (Nat × Int)) (g : Nat × Int) (h : nearest fs = some g) :
    ∀ f ∈ fs, g.2 ≤ f.2 := by
  induction fs generalizing g with
  | nil => simp [nearest] at h
  | cons f rest ih =>
    simp only [nearest] at h
    intro x hx
    cases hr : nearest rest with
    | none =>
      rw [hr] at h; simp at h; subst h
      have : rest = [] := (nearest_none_iff rest).1 hr
      subst this
      simp at hx; subst hx; exact Int.le_refl _
    | some g' =>
      rw [hr] at h
      have hmin := ih g' hr
      by_cases hle : f.2 ≤ g'.2
      · simp [hle] at h; subst h
        rcases List.mem_cons.1 hx with rfl | hx'
        · exact Int.le_refl _
        · exact Int.le_trans hle (hmin x hx')
      · simp [hle] at h; subst h
        rcases List.mem_cons.1 hx with rfl | hx'
        · omega
        · exact hmin x hx'

example : nearest [(0, 12797), (1, 12477), (2, 14579), (3, 11358)] = some (3, 11358) := by decide

end DM.C11
