import DelaunayModel.Model.Basic
import DelaunayModel.Model.Det
import DelaunayModel.Model.Proto
import DelaunayModel.Model.Pred
