use delaunay::prelude::*;
fn main() {
    let v2 = [vertex!([0.0, 0.0]), vertex!([1.0, 0.0]), vertex!([0.0, 1.0]), vertex!([1.0, 1.0])];
    let mut dt: DelaunayTriangulation<_, (), (), 2> = DelaunayTriangulation::new(&v2).unwrap();
    let v = *dt.vertices().next().unwrap().1;
    println!("2D before cells={} verts={}", dt.number_of_cells(), dt.number_of_vertices());
    println!("2D remove {:?} -> {:?}; cells={} verts={}", v.point().coords(), dt.remove_vertex(&v), dt.number_of_cells(), dt.number_of_vertices());
    let v3 = [vertex!([0.0, 0.0, 0.0]), vertex!([1.0, 0.0, 0.0]), vertex!([0.0, 1.0, 0.0]), vertex!([0.0, 0.0, 1.0]), vertex!([1.0, 1.0, 1.0])];
    let mut dt: DelaunayTriangulation<_, (), (), 3> = DelaunayTriangulation::new(&v3).unwrap();
    let v = *dt.vertices().next().unwrap().1;
    println!("3D before cells={} verts={}", dt.number_of_cells(), dt.number_of_vertices());
    println!("3D remove {:?} -> {:?}; cells={} verts={}", v.point().coords(), dt.remove_vertex(&v), dt.number_of_cells(), dt.number_of_vertices());
    let v4 = [vertex!([0.0, 0.0, 0.0, 0.0]), vertex!([1.0, 0.0, 0.0, 0.0]), vertex!([0.0, 1.0, 0.0, 0.0]), vertex!([0.0, 0.0, 1.0, 0.0]), vertex!([0.0, 0.0, 0.0, 1.0]), vertex!([1.0, 1.0, 1.0, 1.0])];
    let mut dt: DelaunayTriangulation<_, (), (), 4> = DelaunayTriangulation::new(&v4).unwrap();
    let v = *dt.vertices().next().unwrap().1;
    println!("4D before cells={} verts={}", dt.number_of_cells(), dt.number_of_vertices());
    println!("4D remove {:?} -> {:?}; cells={} verts={}", v.point().coords(), dt.remove_vertex(&v), dt.number_of_cells(), dt.number_of_vertices());
}
