/-
Driver/OrdHandlers.lean — K1 handlers for C17 (Hilbert index, orderings, dedup policies).
-/
import DelaunayModel.Model.Proto
import DelaunayModel.Model.Order
import Driver.CxHandlers
open DM DM.Order

def natsOf (ts : List String) : List Nat := ts.filterMap String.toNat?

/-- Hilbert cells: `hc <index> <coords…>`; model recomputation, and on full grids bijectivity and
adjacency evaluated directly on the implementation's outputs -/
def runHil (c : Case) : Res :=
  let d := c.argNat "D"
  let bits := c.argNat "bits"
  let full := c.arg "full" == "1"
  let recs := (c.recsOf "hc").filterMap (fun r => match r with
    | i :: coords => i.toNat?.map (fun i => (i, natsOf coords))
    | _ => none)
  Id.run do
    let mut bad : List String := []
    let stats := [s!"hil.D{d}.bits{bits}"]
    let ok := Hilbert.paramsOk d bits
    let res := c.ob1 "result"
    if res.startsWith "panic" then bad := s!"hilbert_indices_prequantized panicked" :: bad
    if ok && res != "ok" then bad := s!"valid parameters D={d} bits={bits} refused: {c.ob "result"}" :: bad
    if !ok && res == "ok" then bad := s!"invalid parameters D={d} bits={bits} (D*bits={d*bits}) accepted" :: bad
    if ok && res == "ok" then
      for (i, coords) in recs do
        let m := Hilbert.hilbertIndex bits coords
        if m != i then
          if bad.length < 4 then bad := s!"hilbert index of {coords} (bits={bits}) is {i}, model computes {m}" :: bad
      if full then
        -- bijection onto 0 .. 2^(D·bits)-1 and unit steps between consecutive indices
        let n := 2 ^ (d * bits)
        let sorted := (recs.toArray.qsort (fun a b => a.1 < b.1)).toList
        if sorted.length != n then bad := s!"grid has {sorted.length} cells, expected {n}" :: bad
        if !(sorted.map (·.1) == List.range n) then
          bad := s!"Hilbert indices of the full grid are not a bijection onto 0..{n - 1}" :: bad
        else
          let steps := sorted.zip (sorted.drop 1)
          let nonAdj := steps.filter (fun (a, b) =>
            let diffs := (a.2.zip b.2).map (fun (x, y) => if x ≥ y then x - y else y - x)
            diffs.foldl (· + ·) 0 != 1)
          match nonAdj.head? with
          | some (a, b) => bad := s!"consecutive Hilbert indices {a.1},{b.1} map to non-adjacent cells {a.2} {b.2}" :: bad
          | none => pure ()
    if !bad.isEmpty then return { status := "ORACLE", detail := " ; ".intercalate bad.reverse, stats := stats }
    return { status := "ok", stats := stats }

def parseOVs (c : Case) : Option (List OV) :=
  (c.recsOf "iv").mapM (fun r => match r with
    | i :: coords => match i.toNat?, parsePt coords with
      | some i, some p => some { idx := i, pt := p }
      | _, _ => none
    | _ => none)

def isPermOf (a b : List Nat) : Bool :=
  a.length == b.length && a.all (fun x => a.count x == b.count x)

/-- orderings: permutation always; exact sequence where the quantisation is exact -/
def runOrd (c : Case) : Res :=
  let d := c.argNat "D"
  let strat := c.argNat "strategy"
  match parseOVs c with
  | none => { status := "skip", detail := "non-finite input", stats := ["ord.nonfinite"] }
  | some vs =>
    let outS := (c.ob "out").getD []
    if outS.head? == some "panic" then { status := "ORACLE", detail := s!"ordering strategy {strat} panicked" } else
    -- a typed error (parameter validation of the public sort helpers) is no ordering: nothing to judge
    if outS.head? == some "err" then { status := "skip", stats := [s!"ord.strategy{strat}.err"] } else
    let got := natsOf outS
    Id.run do
      let mut bad : List String := []
      let stats := [s!"ord.strategy{strat}", s!"ord.exactq{c.arg "exactq"}"]
      -- the keys the implementation itself assigns, in output order, must be non-decreasing
      match c.ob "keys" with
      | some ks =>
        let kn := ks.filterMap String.toNat?
        if kn.length != ks.length then bad := s!"ordering strategy {strat}: a sort key could not be computed" :: bad
        else if !(kn.zip (kn.drop 1)).all (fun (a, b) => a ≤ b) then
          bad := s!"ordering strategy {strat}: keys in output order are not non-decreasing: {kn}" :: bad
      | none => pure ()
      if !isPermOf got (vs.map (·.idx)) then
        bad := s!"ordering strategy {strat} output {got} is not a permutation of the input indices" :: bad
      else if strat ≥ 10 then pure ()
      else
        let want := (orderByStrategy d strat vs).map (·.idx)
        -- signed zeros compare equal but hash differently: the hash tie-break is outside the model
        let mixedZero := c.arg "fam" == "signed_zero"
        if (strat ≤ 1 && !mixedZero) || (c.arg "exactq" == "1") then
          if got != want then
            bad := s!"ordering strategy {strat}: implementation order {got}, model order {want}" :: bad
      if !bad.isEmpty then return { status := "ORACLE", detail := " ; ".intercalate bad.reverse, stats := stats }
      return { status := "ok", stats := stats }

/-- dedup: survivors are a subsequence, pairwise separated, every dropped vertex close to an
earlier survivor; the sequence equals the greedy model unless a distance sits on the threshold -/
def runDed (c : Case) : Res :=
  let variant := c.argNat "variant"
  match parseOVs c, (parseF64 (c.arg "eps")).bind F64.dy? with
  | some vs, some epsD =>
    let outS := (c.ob "out").getD []
    if outS.head? == some "panic" then { status := "ORACLE", detail := s!"dedup variant {variant} panicked" } else
    let got := natsOf outS
    -- variant 20: the survivors of DedupPolicy::Epsilon read back from a built triangulation (sorted)
    let exact := variant == 0 || variant == 1 || variant == 10
    let eps2 := Q.ofDy epsD * Q.ofDy epsD
    let near : DPt → DPt → Bool := if exact then sameCoords else withinEps eps2
    let byIdx (i : Nat) : Option OV := vs.find? (·.idx == i)
    Id.run do
      let mut bad : List String := []
      let stats := [s!"ded.variant{variant}"]
      let survivors := got.filterMap byIdx
      if survivors.length != got.length || !decide got.Nodup then
        bad := s!"dedup variant {variant} output {got} contains unknown or repeated vertices" :: bad
      else
        -- threshold collar: a float dist² within 1e-6 relative of eps² is not second-guessed
        let collar := !exact && vs.any (fun a => vs.any (fun b => a.idx < b.idx &&
          (let d2 := dist2Q a.pt b.pt
           Q.lt (eps2 * ⟨999999, 1000000⟩) d2 && Q.lt d2 (eps2 * ⟨1000001, 1000000⟩))))
        if collar then return { status := "skip", stats := "ded.collar" :: stats }
        -- (a) no two survivors are duplicates of each other
        for a in survivors do
          for b in survivors do
            if a.idx < b.idx && near a.pt b.pt then
              if bad.length < 3 then bad := s!"survivors {a.idx} and {b.idx} are within the tolerance of each other" :: bad
        -- (b) every dropped vertex is a duplicate of some survivor
        for v in vs do
          if !got.contains v.idx && !(survivors.any (fun u => near v.pt u.pt)) then
            if bad.length < 3 then bad := s!"dropped vertex {v.idx} is not within the tolerance of any survivor" :: bad
        -- (c) first occurrence wins / exact sequence of the greedy model
        let want := (if variant == 0 then dedupExactSorted vs else dedupGreedy near [] vs).map (·.idx)
        let signedZero := vs.any (fun v => false && v.pt.isEmpty)
        -- variant 1 (exact, hash grid) falls back to the sorted variant when the grid cannot key the
        -- coordinates (|c / cell| ≥ 2^53): either sequence is the documented behaviour
        let alt := if variant == 1 then (dedupExactSorted vs).map (·.idx) else want
        if !signedZero && got != want && got != alt then
          bad := s!"dedup variant {variant}: survivors {got}, greedy first-occurrence model gives {want}" :: bad
      if !bad.isEmpty then return { status := "ORACLE", detail := " ; ".intercalate bad.reverse, stats := stats }
      return { status := "ok", stats := stats }
  | _, _ => { status := "skip", detail := "non-finite input", stats := ["ded.nonfinite"] }
