//! Operation histories against one live triangulation: insertions (all point classes), removals,
//! flips, repairs, policy changes.  After every call the state is exported and the call's outcome
//! recorded, so the Lean side can judge every intermediate state (C02, C06, C07, C08) and the Rust
//! side can compare fingerprints (C03-style "unchanged" observations).
#![allow(dead_code)]

use crate::common::{catch, fingerprint, hxs, Ids, Out, Rng};
use crate::tri::{self, Opts};
use delaunay::core::delaunay_triangulation::{DelaunayCheckPolicy, DelaunayRepairPolicy, DelaunayTriangulation};
use delaunay::core::facet::FacetHandle;
use delaunay::core::operations::InsertionOutcome;
use delaunay::core::triangulation::ValidationPolicy;
use delaunay::core::triangulation_data_structure::VertexKey;
use delaunay::core::vertex::Vertex;
use delaunay::geometry::kernel::FastKernel;
use delaunay::geometry::point::Point;
use delaunay::geometry::traits::coordinate::Coordinate;
use delaunay::triangulation::flips::{BistellarFlips, EdgeKey, RidgeHandle, TriangleHandle};
use std::num::NonZeroUsize;
use uuid::Uuid;

pub type Dt<const D: usize> = DelaunayTriangulation<FastKernel<f64>, tri::VData, tri::CData, D>;

pub struct World<const D: usize> {
    pub dt: Dt<D>,
    pub ids: Ids,
    /// every vertex ever offered: (uuid, coords, data)
    pub offered: Vec<(Uuid, [f64; D], i32)>,
    pub removed: Vec<[f64; D]>,
    pub next_data: i32,
    pub g: usize,
    pub check_on: bool,
    pub repair_on: bool,
    pub had_removal: bool,
    pub had_flip: bool,
    /// cell keys reported as removed by earlier flips (stale handles for adversarial calls)
    pub stale_cells: Vec<delaunay::core::triangulation_data_structure::CellKey>,
}

pub fn start_empty<const D: usize>(g: usize) -> World<D> {
    let dt = Dt::<D>::with_empty_kernel_and_topology_guarantee(FastKernel::new(), tri::guarantee(g));
    World { dt, ids: Ids::default(), offered: vec![], removed: vec![], next_data: 100, g, check_on: false, repair_on: true, had_removal: false, had_flip: false, stale_cells: vec![] }
}

pub fn start_built<const D: usize>(pts: &[Vec<f64>], g: usize, rng: &mut Rng) -> Option<World<D>> {
    start_built_with::<D>(pts, g, &Opts { order: 3, dedup: 0, simplex: 0, retry: 0 }, rng)
}

/// batch construction with explicit options
pub fn start_built_with<const D: usize>(pts: &[Vec<f64>], g: usize, opts: &Opts, rng: &mut Rng) -> Option<World<D>> {
    let vs = tri::make_vertices::<D>(pts, rng);
    match tri::build_fast::<D>(&vs, g, opts) {
        Ok(Ok(dt)) => {
            let mut w = World { dt, ids: Ids::default(), offered: vec![], removed: vec![], next_data: 100 + vs.len() as i32, g, check_on: false, repair_on: true, had_removal: false, had_flip: false, stale_cells: vec![] };
            for v in &vs {
                w.offered.push((v.uuid(), *v.point().coords(), v.data.unwrap_or(0)));
            }
            Some(w)
        }
        _ => None,
    }
}

impl<const D: usize> World<D> {
    pub fn live_coords(&self) -> Vec<[f64; D]> {
        self.dt.vertices().map(|(_, v)| *v.point().coords()).collect()
    }
    /// every cell as the sorted list of its vertices' small ids
    pub fn cell_sets(&mut self) -> Vec<Vec<usize>> {
        let mut out = Vec::new();
        let cells: Vec<Vec<VertexKey>> = self.dt.cells().map(|(_, c)| c.vertices().to_vec()).collect();
        for c in cells {
            let mut v = self.vk_ids(&c);
            v.sort_unstable();
            out.push(v);
        }
        out.sort();
        out
    }
    pub fn vk_ids(&mut self, vks: &[VertexKey]) -> Vec<usize> {
        let us: Vec<Option<Uuid>> = vks.iter().map(|k| self.dt.tds().get_vertex_by_key(*k).map(|v| v.uuid())).collect();
        us.into_iter().map(|u| u.map_or(999_999, |u| self.ids.id(u))).collect()
    }
    /// observation lines describing a successful flip for the model: pre cells + R + I
    pub fn flip_obs(&mut self, pre: &[Vec<usize>], removed_face: &[VertexKey], inserted_face: &[VertexKey], obs: &mut Vec<(String, String)>) {
        let r = self.vk_ids(removed_face);
        let i = self.vk_ids(inserted_face);
        let j = |v: &[usize]| v.iter().map(|x| x.to_string()).collect::<Vec<_>>().join(",");
        obs.push(("flipR".into(), j(&r)));
        obs.push(("flipI".into(), j(&i)));
        obs.push(("pre".into(), pre.iter().map(|c| j(c)).collect::<Vec<_>>().join(";")));
    }
    pub fn live_keys(&self) -> Vec<VertexKey> {
        self.dt.vertices().map(|(k, _)| k).collect()
    }

    /// a query/insert point of a chosen class relative to the current state
    pub fn pick_point(&self, rng: &mut Rng, r: i64) -> ([f64; D], &'static str) {
        let class = rng.below(12);
        self.pick_point_class(rng, r, class)
    }

    /// a point of one given class (see the match below)
    pub fn pick_point_class(&self, rng: &mut Rng, r: i64, class: u64) -> ([f64; D], &'static str) {
        let live = self.live_coords();
        let mut p = [0.0f64; D];
        let rnd = |rng: &mut Rng, p: &mut [f64; D], r: i64| {
            for x in p.iter_mut() {
                *x = rng.range(-r, r) as f64;
            }
        };
        if live.is_empty() || class < 4 {
            rnd(rng, &mut p, r);
            return (p, "grid");
        }
        match class {
            4 => {
                // exterior, far
                rnd(rng, &mut p, r);
                let ax = rng.below(D as u64) as usize;
                p[ax] = (r * 3) as f64 * if rng.chance(1, 2) { 1.0 } else { -1.0 };
                (p, "exterior")
            }
            5 => {
                // midpoint of two vertices: on an edge / facet (dyadic)
                let a = rng.pick(&live);
                let b = rng.pick(&live);
                for i in 0..D {
                    p[i] = (a[i] + b[i]) / 2.0;
                }
                (p, "midpoint")
            }
            6 => {
                // centroid-ish of D vertices scaled by power of two: on a facet plane region
                let mut acc = [0.0f64; D];
                for _ in 0..4 {
                    let a = rng.pick(&live);
                    for i in 0..D {
                        acc[i] += a[i];
                    }
                }
                for i in 0..D {
                    p[i] = acc[i] / 4.0;
                }
                (p, "average4")
            }
            7 => {
                // exact duplicate of a live vertex
                (*rng.pick(&live), "duplicate")
            }
            10 => {
                // on the hyperplane of a hull facet but outside the facet: a_2 + a_3 - a_1 (D >= 3),
                // or beyond the end of a hull edge (D = 2): an exterior point that sees a hull facet
                // edge-on (weak visibility)
                let mut facet: Option<Vec<[f64; D]>> = None;
                let cells: Vec<_> = self.dt.cells().map(|(k, _)| k).collect();
                if !cells.is_empty() {
                    for _ in 0..20 {
                        let ck = *rng.pick(&cells);
                        let Some(c) = self.dt.tds().get_cell(ck) else { continue };
                        let slot = match c.neighbors() {
                            None => Some(rng.below((D + 1) as u64) as usize),
                            Some(nb) => nb.iter().position(|n| n.is_none()),
                        };
                        if let Some(sl) = slot {
                            let pts: Vec<[f64; D]> = c.vertices().iter().enumerate().filter(|(i, _)| *i != sl)
                                .filter_map(|(_, vk)| self.dt.tds().get_vertex_by_key(*vk).map(|v| *v.point().coords())).collect();
                            if pts.len() == D { facet = Some(pts); break; }
                        }
                    }
                }
                match facet {
                    Some(mut f) => {
                        rng.shuffle(&mut f);
                        let k = if D >= 3 { 2 } else { 1 };
                        // a_1 + sum_{j=1..k} (a_{j+1} - a_1) * m : affine combination on the facet plane
                        let m = if rng.chance(1, 2) { 1.0 } else { 2.0 };
                        for i in 0..D {
                            p[i] = f[0][i];
                            for j in 1..=k { p[i] += m * (f[j][i] - f[0][i]); }
                        }
                        (p, "facet_plane_exterior")
                    }
                    None => { rnd(rng, &mut p, r); (p, "grid") }
                }
            }
            11 => {
                // beyond a vertex along the line through two vertices: 2b - a
                let a = rng.pick(&live);
                let b = rng.pick(&live);
                for i in 0..D { p[i] = 2.0 * b[i] - a[i]; }
                (p, "collinear_beyond")
            }
            8 => {
                // near duplicate: within / just outside the 1e-10 tolerance
                let a = *rng.pick(&live);
                let mut q = a;
                q[0] += [5e-11, 2e-10, -5e-11, 1e-9][rng.below(4) as usize];
                (q, "near_duplicate")
            }
            _ => {
                // former vertex position
                if let Some(q) = self.removed.last() {
                    (*q, "former")
                } else {
                    rnd(rng, &mut p, r);
                    (p, "grid")
                }
            }
        }
    }

    pub fn vertex(&mut self, p: [f64; D], rng: &mut Rng) -> Vertex<f64, tri::VData, D> {
        let u = rng.uuid();
        let d = self.next_data;
        self.next_data += 1;
        self.offered.push((u, p, d));
        Vertex::new_with_uuid(Point::new(p), u, Some(d))
    }

    /// write the `in` provenance lines + export + expectation args
    pub fn emit_state(&mut self, id: &str, op: &str, extra_args: &str, obs: &[(String, String)], out: &mut Out, l4: bool) {
        out.case(id, "cx", &format!("D={D} g={} op={op} prov=1 {extra_args}", self.g));
        for (i, (u, c, d)) in self.offered.iter().enumerate() {
            let vid = self.ids.id(*u);
            out.line(&format!("in {i} {vid} {} d {d}", hxs(c)));
        }
        for (k, v) in obs {
            out.obs(k, v);
        }
        tri::export(&self.dt, &mut self.ids, out);
        out.obs("nverts", &self.dt.number_of_vertices().to_string());
        tri::observe_validators(&self.dt, out, l4);
        out.end();
    }

    pub fn expect_args(&self, delaunay_due: bool) -> String {
        // convexity is only demanded while no hull-changing edit happened (removals / flips)
        let mut s = String::from("expect=state");
        if delaunay_due {
            s.push_str(" sphere=1");
            if !self.had_removal && !self.had_flip {
                s.push_str(" convex=1 gpdt=1");
            }
        }
        s
    }

    /// the cells as sorted lists of protocol vertex ids, `a,b,c;d,e,f`
    pub fn cell_id_sets(&mut self) -> String {
        let cells: Vec<Vec<VertexKey>> = self.dt.cells().map(|(_, c)| c.vertices().to_vec()).collect();
        let mut out: Vec<String> = Vec::with_capacity(cells.len());
        for vks in cells {
            let mut ids = self.vk_ids(&vks);
            ids.sort_unstable();
            out.push(ids.iter().map(|x| x.to_string()).collect::<Vec<_>>().join(","));
        }
        out.join(";")
    }

    /// one insertion (plain or statistics variant); returns observations
    pub fn do_insert(&mut self, p: [f64; D], with_stats: bool, rng: &mut Rng) -> (Vec<(String, String)>, bool) {
        let before = fingerprint(self.dt.tds());
        let nb = self.dt.number_of_vertices();
        // the cell sets before the call, for the cavity-step tie (only once cells exist)
        let cav_pre = if self.dt.number_of_cells() > 0 && self.dt.number_of_cells() <= 400 { Some(self.cell_id_sets()) } else { None };
        let mut cav_stats: Option<(usize, usize)> = None;
        let v = self.vertex(p, rng);
        let u = v.uuid();
        let d = v.data;
        let mut obs: Vec<(String, String)> = Vec::new();
        let mut inserted = false;
        let res: Result<Result<Option<VertexKey>, String>, String> = if with_stats {
            let r = catch(|| match self.dt.insert_with_statistics(v) {
                Ok((InsertionOutcome::Inserted { vertex_key, .. }, st)) => Ok((Some(vertex_key), Some((st.attempts, st.cells_removed_during_repair)))),
                Ok((InsertionOutcome::Skipped { error }, _)) => Err(format!("skipped:{}", tri::err_kind(&format!("{error:?}")))),
                Err(e) => Err(format!("err:{}", tri::err_kind(&format!("{e:?}")))),
            });
            match r {
                Ok(Ok((k, st))) => { cav_stats = st; Ok(Ok(k)) }
                Ok(Err(e)) => Ok(Err(e)),
                Err(m) => Err(m),
            }
        } else {
            catch(|| match self.dt.insert(v) {
                Ok(k) => Ok(Some(k)),
                Err(e) => Err(format!("err:{}", tri::err_kind(&format!("{e:?}")))),
            })
        };
        match res {
            Err(m) => obs.push(("outcome".into(), format!("panic:{m}"))),
            Ok(Err(e)) => {
                obs.push(("outcome".into(), e));
                let after = fingerprint(self.dt.tds());
                obs.push(("unchanged".into(), if after == before { "1".into() } else { "0 failed/skipped insertion changed the triangulation".into() }));
            }
            Ok(Ok(Some(k))) => {
                inserted = true;
                obs.push(("outcome".into(), "inserted".into()));
                let ok = self.dt.tds().get_vertex_by_key(k).is_some_and(|x| x.uuid() == u && x.data == d);
                obs.push(("key_resolves".into(), if ok { "1".into() } else { "0 returned key does not resolve to the caller's uuid/data".into() }));
                let na = self.dt.number_of_vertices();
                obs.push(("one_added".into(), if na == nb + 1 { "1".into() } else { format!("0 vertices {nb} -> {na}") }));
                if let Some(pre) = cav_pre {
                    let vid = self.ids.id(u);
                    let (att, rem) = cav_stats.map_or(("-".to_string(), "-".to_string()), |(a, r)| (a.to_string(), r.to_string()));
                    obs.push(("cav".into(), format!("{vid} repair={} attempts={att} removed={rem} {pre}", !matches!(self.dt.delaunay_repair_policy(), delaunay::core::delaunay_triangulation::DelaunayRepairPolicy::Never) as u8)));
                }
            }
            Ok(Ok(None)) => {}
        }
        (obs, inserted)
    }

    pub fn do_remove(&mut self, vk: Option<VertexKey>, rng: &mut Rng) -> Vec<(String, String)> {
        let mut obs = Vec::new();
        let before = fingerprint(self.dt.tds());
        let target: Vertex<f64, tri::VData, D> = match vk.and_then(|k| self.dt.tds().get_vertex_by_key(k).copied()) {
            Some(v) => v,
            None => {
                // unknown vertex
                let mut p = [0.0; D];
                for x in p.iter_mut() {
                    *x = rng.range(-9, 9) as f64 + 0.25;
                }
                Vertex::new_with_uuid(Point::new(p), rng.uuid(), Some(-1))
            }
        };
        let known = vk.is_some();
        // the cell sets before the call and the protocol id of the vertex, for the star-removal tie
        let rm_pre = if known && self.dt.number_of_cells() > 0 && self.dt.number_of_cells() <= 400 {
            let vid = self.ids.id(target.uuid());
            Some((vid, self.cell_id_sets()))
        } else { None };
        let on_hull = vk.is_some_and(|k| {
            self.dt.boundary_facets().any(|f| f.vertices().is_ok_and(|mut it| it.any(|v| v.uuid() == target.uuid()))) && { let _ = k; true }
        });
        obs.push(("ctx_hull".into(), (on_hull as u8).to_string()));
        let mut others: Vec<String> = self.dt.vertices().filter(|(_, v)| v.uuid() != target.uuid())
            .map(|(_, v)| format!("{}:{}:{:?}", v.uuid(), hxs(v.point().coords()), v.data)).collect();
        others.sort();
        let r = catch(|| self.dt.remove_vertex(&target).map_err(|e| {
            if std::env::var_os("VH_DEBUG").is_some() {
                eprintln!("remove_vertex error: {e:?}");
            }
            tri::err_kind(&format!("{e:?}"))
        }));
        match r {
            Err(m) => obs.push(("outcome".into(), format!("panic:{m}"))),
            Ok(Err(e)) => {
                obs.push(("outcome".into(), format!("err:{e}")));
                let after = fingerprint(self.dt.tds());
                if after != before && std::env::var_os("VH_DEBUG").is_some() {
                    eprintln!("CHANGED-ON-ERR target={:?}\nBEFORE {before}\nAFTER  {after}", target.point().coords());
                }
                obs.push(("unchanged".into(), if after == before { "1".into() } else { "0 failed removal changed the triangulation".into() }));
            }
            Ok(Ok(n)) => {
                obs.push(("outcome".into(), format!("removed:{n}")));
                if known {
                    self.had_removal = true;
                    self.removed.push(*target.point().coords());
                    let gone = self.dt.tds().vertex_key_from_uuid(&target.uuid()).is_none();
                    obs.push(("removed_gone".into(), if gone { "1".into() } else { "0 vertex still present after successful removal".into() }));
                    let mut now: Vec<String> = self.dt.vertices().map(|(_, v)| format!("{}:{}:{:?}", v.uuid(), hxs(v.point().coords()), v.data)).collect();
                    now.sort();
                    obs.push(("vertices_kept".into(), if now == others { "1".into() } else { "0 other vertices changed (uuid/coords/data)".into() }));
                    if let Some((vid, pre)) = rm_pre {
                        let rep = !matches!(self.dt.delaunay_repair_policy(), delaunay::core::delaunay_triangulation::DelaunayRepairPolicy::Never);
                        obs.push(("rm".into(), format!("{vid} repair={} {pre}", rep as u8)));
                    }
                } else {
                    let after = fingerprint(self.dt.tds());
                    let ok = n == 0 && after == before;
                    obs.push(("unchanged".into(), if ok { "1".into() } else { format!("0 removing an unknown vertex reported {n} cells and changed={}", after != before) }));
                }
            }
        }
        obs
    }

    pub fn set_policies(&mut self, rng: &mut Rng) -> String {
        let n2 = NonZeroUsize::new(2).unwrap();
        let n1 = NonZeroUsize::new(1).unwrap();
        let n3 = NonZeroUsize::new(3).unwrap();
        let vp = [ValidationPolicy::Never, ValidationPolicy::OnSuspicion, ValidationPolicy::Always, ValidationPolicy::DebugOnly][rng.below(4) as usize];
        let rp = [DelaunayRepairPolicy::Never, DelaunayRepairPolicy::EveryInsertion, DelaunayRepairPolicy::EveryN(n2), DelaunayRepairPolicy::EveryInsertion][rng.below(4) as usize];
        let cp = [DelaunayCheckPolicy::EndOnly, DelaunayCheckPolicy::EveryN(n1), DelaunayCheckPolicy::EveryN(n3), DelaunayCheckPolicy::EveryN(n1)][rng.below(4) as usize];
        // setters may refuse an incompatible combination by panicking/ignoring: observe under catch
        let _ = catch(|| self.dt.set_validation_policy(vp));
        self.dt.set_delaunay_repair_policy(rp);
        self.dt.set_delaunay_check_policy(cp);
        self.check_on = matches!(cp, DelaunayCheckPolicy::EveryN(n) if n.get() == 1);
        self.repair_on = !matches!(rp, DelaunayRepairPolicy::Never);
        format!("{vp:?}/{rp:?}/{cp:?}").replace(' ', "")
    }

    /// one flip attempt through the public Edit API; `mode` selects the handle class:
    /// 0/1 facet (k=2), 2 ridge (k=3), 3 edge (inverse k=2), 4 triangle (inverse k=3),
    /// 5 stale / out-of-range handles.  Returns the observation list.
    pub fn do_flip(&mut self, rng: &mut Rng) -> Vec<(String, String)> {
        let kind = rng.below(6);
        self.do_flip_kind(kind, None, rng)
    }

    pub fn do_flip_kind(&mut self, kind: u64, at: Option<(delaunay::core::triangulation_data_structure::CellKey, u8, u8)>, rng: &mut Rng) -> Vec<(String, String)> {
        let mut obs = Vec::new();
        let cks: Vec<_> = self.dt.cells().map(|(k, _)| k).collect();
        if cks.is_empty() {
            return obs;
        }
        let before = fingerprint(self.dt.tds());
        let pre = self.cell_sets();
        let ncells = self.dt.number_of_cells();
        let (ck, ha, hb) = at.unwrap_or_else(|| {
            let a = rng.below((D + 1) as u64) as u8;
            let b = (a + 1 + rng.below(D as u64) as u8) % (D as u8 + 1);
            (*rng.pick(&cks), a, b)
        });
        let (name, r, delta): (&str, Result<Result<_, String>, String>, i64) = match kind {
            0 | 1 => {
                ("k2", catch(|| self.dt.flip_k2(FacetHandle::new(ck, ha)).map_err(|e| tri::err_kind(&format!("{e:?}")))), D as i64 - 2)
            }
            2 => {
                ("k3", catch(|| self.dt.flip_k3(RidgeHandle::new(ck, ha, hb)).map_err(|e| tri::err_kind(&format!("{e:?}")))), D as i64 - 4)
            }
            3 => {
                let vs: Vec<VertexKey> = self.dt.tds().get_cell(ck).map(|c| c.vertices().to_vec()).unwrap_or_default();
                if vs.len() < 2 { return obs; }
                let a = vs[ha as usize % vs.len()];
                let b = vs[hb as usize % vs.len()];
                ("k2inv", catch(|| self.dt.flip_k2_inverse_from_edge(EdgeKey::new(a, b)).map_err(|e| tri::err_kind(&format!("{e:?}")))), 2 - D as i64)
            }
            4 => {
                let vs: Vec<VertexKey> = self.dt.tds().get_cell(ck).map(|c| c.vertices().to_vec()).unwrap_or_default();
                if vs.len() < 3 { return obs; }
                let mut pick = vs.clone();
                rng.shuffle(&mut pick);
                ("k3inv", catch(|| self.dt.flip_k3_inverse_from_triangle(TriangleHandle::new(pick[0], pick[1], pick[2])).map_err(|e| tri::err_kind(&format!("{e:?}")))), 4 - D as i64)
            }
            _ => {
                // adversarial handles: facet index out of range, or a cell key that no longer exists
                let stale = self.stale_cells.last().copied();
                match (stale, rng.chance(1, 2)) {
                    (Some(sk), true) => ("stale", catch(|| self.dt.flip_k2(FacetHandle::new(sk, ha)).map_err(|e| tri::err_kind(&format!("{e:?}")))), 0),
                    _ => ("range", catch(|| self.dt.flip_k2(FacetHandle::new(ck, (D + 1 + ha as usize) as u8)).map_err(|e| tri::err_kind(&format!("{e:?}")))), 0),
                }
            }
        };
        match r {
            Err(m) => obs.push(("outcome".into(), format!("panic:{m}"))),
            Ok(Err(e)) => {
                obs.push(("outcome".into(), format!("{name}:err:{e}")));
                let after = fingerprint(self.dt.tds());
                obs.push(("unchanged".into(), if after == before { "1".into() } else { format!("0 failed flip {name} changed the triangulation") }));
            }
            Ok(Ok(info)) => {
                self.had_flip = true;
                self.stale_cells.extend(info.removed_cells.iter().copied());
                obs.push(("outcome".into(), format!("{name}:ok")));
                if name == "stale" || name == "range" {
                    obs.push(("unchanged".into(), format!("0 a {name} handle was accepted by flip_k2")));
                }
                let na = self.dt.number_of_cells() as i64;
                let okc = na - ncells as i64 == delta && info.new_cells.len() as i64 - info.removed_cells.len() as i64 == delta;
                obs.push(("one_added".into(), if okc { "1".into() } else { format!("0 flip {name} changed cell count {ncells}->{na}, FlipInfo removed={} new={} (expected delta {delta})", info.removed_cells.len(), info.new_cells.len()) }));
                // FlipInfo describes reality: new cells exist, removed cells are gone
                let desc = info.new_cells.iter().all(|k| self.dt.tds().contains_cell(*k)) && info.removed_cells.iter().all(|k| !self.dt.tds().contains_cell(*k));
                obs.push(("key_resolves".into(), if desc { "1".into() } else { "0 FlipInfo lists cells that do not match the triangulation".into() }));
                // NOTE: removed_face_vertices no longer resolve if the move deleted a vertex (inverse k=1)
                self.flip_obs(&pre, &info.removed_face_vertices, &info.inserted_face_vertices, &mut obs);
            }
        }
        obs
    }
}
