"""Per-property configuration for bin/check."""
HOOK_COMMITS = []
NOT_APPLICABLE = {}

PROPS = {
    "C12": {
        "lean_modules": ["DelaunayModel.Props.C12"],
        "level_text": "Theorems (Lean kernel): the dead-band classifier returns the exact sign whenever the exact determinant is separated from the band by more than the rounding allowance, returns 0 on exact zero when the allowance is inside the band, and two evaluations never disagree there; the exact signs' permutation laws come from the determinant bridge to Mathlib. Correspondence (K1): both kernels and all three in-sphere formulations are run on exhaustive tiny grids and random well-conditioned tuples and compared with the exact integer determinant sign computed by the Lean model.",
        "level_note": "Trusted: Lean kernel, axioms propext/Classical.choice/Quot.sound only, the Lean compiler for the driver, harness + bin/check. Assumed not proved: the LU rounding bound luBound for la-stack; IEEE arithmetic itself is outside the model (cases where the exact determinant is inside tolerance+bound are skipped and counted).",
        "technique": "Lean 4 proof of the sign-classification logic + exact-integer-determinant differential check of the real predicates",
        "required_theorems": ["DM.C12.classify_separated", "DM.C12.classify_zero", "DM.C12.expected_sound",
                              "DM.C12.no_opposite", "DM.C12.expected_is_sign"],
        "trusted": ["assumed, not proved: |fl(det) - det| <= luBound (n^3 2^(n+1) 2^-53 prod ||row||_1) for la-stack's LU"],
        "assumptions": ["IEEE evaluation is outside the kernel's reach: exact model + measured tie (K1)"],
    },
}
