/-
Props/C16.lean — property theorems for C16 (toroidal construction wraps points correctly).

Wrap laws, exact: for a positive period `L` and any `x` (integers — every finite set of f64
coordinates and periods can be scaled to integers by a common power of two; `wrap_int_bridge`
ties the executable rational `wrap` of Model/Wrap to `Int.emod` on such inputs):
  * `wrap_range`      0 ≤ wrap L x < L          (the half-open box; the face x = L maps to 0)
  * `wrap_congruent`  x − wrap L x is an integer multiple of L
  * `wrap_idem`       wrap L (wrap L x) = wrap L x
  * `wrap_unique`     the only point of [0, L) congruent to x is wrap L x
  * `wrap_periodic`   wrap L (x + k·L) = wrap L x
What is NOT proved: the f64 evaluation (`rem_euclid` rounds; the pinned code returned `L` itself
for tiny negative inputs — finding F3, fixed); the tie is K1 with a stated rounding allowance.
The periodic (image-point) mode's closed-surface bookkeeping is checked per run only.
-/
import DelaunayModel.Model.Wrap
namespace DM.C16

open DM DM.Wrap

/-- the exact wrap on integers -/
def wrapInt (L x : Int) : Int := x % L

theorem wrap_range (L x : Int) (hL : 0 < L) : 0 ≤ wrapInt L x ∧ wrapInt L x < L :=
  ⟨Int.emod_nonneg x (by omega), Int.emod_lt_of_pos x hL⟩

theorem wrap_congruent (L x : Int) : ∃ k : Int, x - wrapInt L x = k * L := by
  refine ⟨x / L, ?_⟩
  unfold wrapInt
  have := Int.emod_add_mul_ediv x L
  have h2 : L * (x / L) = x / L * L := Int.mul_comm _ _
  omega

theorem wrap_idem (L x : Int) : wrapInt L (wrapInt L x) = wrapInt L x := by
  unfold wrapInt
  exact Int.emod_emod_of_dvd x (Int.dvd_refl L)

theorem wrap_periodic (L x k : Int) : wrapInt L (x + k * L) = wrapInt L x := by
  unfold wrapInt
  exact Int.add_mul_emod_self_right x k L

/-- uniqueness: a point of the half-open box that differs from `x` by a multiple of `L` is the wrap -/
theorem wrap_unique (L x y k : Int) (h0 : 0 ≤ y) (h1 : y < L) (hk : x - y = k * L) :
    y = wrapInt L x := by
  unfold wrapInt
  have hx : x = y + k * L := by omega
  rw [hx, Int.add_mul_emod_self_right]
  exact (Int.emod_eq_of_lt h0 h1).symm

/-- the face `x = L` (and every multiple of `L`) maps to 0, never to `L` -/
theorem wrap_face (L k : Int) : wrapInt L (k * L) = 0 := by
  unfold wrapInt; exact Int.mul_emod_left k L

/-- bridge: on integer inputs the executable rational wrap of Model/Wrap is `Int.emod` -/
theorem wrap_int_bridge (l n : Int) :
    (wrap ⟨l, 1⟩ ⟨n, 1⟩).num = n - (n / l) * l ∧ (wrap ⟨l, 1⟩ ⟨n, 1⟩).den = 1 := by
  constructor
  · show (Q.sub ⟨n, 1⟩ (Q.mul (Q.ofInt (floorDiv ⟨n, 1⟩ ⟨l, 1⟩)) ⟨l, 1⟩)).num = _
    simp [Q.sub, Q.add, Q.neg, Q.mul, Q.ofInt, floorDiv]
    omega
  · show (Q.sub ⟨n, 1⟩ (Q.mul (Q.ofInt (floorDiv ⟨n, 1⟩ ⟨l, 1⟩)) ⟨l, 1⟩)).den = _
    simp [Q.sub, Q.add, Q.neg, Q.mul, Q.ofInt]

theorem wrap_int_bridge_emod (l n : Int) : (wrap ⟨l, 1⟩ ⟨n, 1⟩).num = wrapInt l n := by
  rw [(wrap_int_bridge l n).1]
  unfold wrapInt
  have := Int.emod_add_mul_ediv n l
  have h2 : l * (n / l) = n / l * l := Int.mul_comm _ _
  omega

/-- canonicalisation rebuilds the vertex with the same UUID and data (model of
`canonicalize_vertices`, builder.rs:708): only the coordinates change -/
structure VRec where
  uuid : Nat
  data : Int
  coords : List Int

def canonicalize (periods : List Int) (v : VRec) : VRec :=
  { v with coords := List.zipWith wrapInt periods v.coords }

theorem canonicalize_keeps_identity (ps : List Int) (v : VRec) :
    (canonicalize ps v).uuid = v.uuid ∧ (canonicalize ps v).data = v.data := ⟨rfl, rfl⟩

theorem canonicalize_idem (ps : List Int) (v : VRec) (hl : ps.length = v.coords.length) :
    canonicalize ps (canonicalize ps v) = canonicalize ps v := by
  unfold canonicalize
  simp only [VRec.mk.injEq, true_and]
  induction ps generalizing v with
  | nil => simp
  | cons p rest ih =>
    cases hc : v.coords with
    | nil => simp
    | cons c cs =>
      simp only [List.zipWith_cons_cons, List.cons.injEq]
      refine ⟨wrap_idem p c, ?_⟩
      have := ih { v with coords := cs } (by simp [hc] at hl; simpa using hl)
      simpa using this

/-- non-vacuity -/
example : wrapInt 8 (-1) = 7 ∧ wrapInt 8 8 = 0 ∧ wrapInt 8 21 = 5 ∧ wrapInt 8 (-16) = 0 := by decide

end DM.C16
