/-
Props/C10.lean — property theorems for C10 (point location: a facet walk with a visited set and a
step budget, falling back to a linear scan).

Model: `Model/Locate.lean`.

 * `firstOutside_none_iff`, `firstOutside_some`: the per-cell facet search;
 * `scan_inside_sound`, `scan_outside_witness`: the linear scan;
 * `walk_inside_sound`, `walk_outside_witness`: the walk, for every fuel / start / visited list,
   i.e. for every way it can end (directly, by the cycle fallback, by the step-limit fallback);
 * `locate_inside_sound`, `locate_outside_witness`, `locate_outside_witness_closed`,
   `locate_none_iff`, `locate_stale_hint`: the same through `locate`, for every hint;
 * `walkSteps`, `walkSteps_le_fuel`, `walkSteps_le_ids`, `walkSteps_le_cells`: the step budget
   and the bound by the number of (distinct) cell ids that the visited list enforces;
 * `outsideFacet_iff`, `outsideFacet_eq`, `vertex_not_outside`, `vertex_inClosedCell`,
   `firstOutside_none_iff_inClosedCell`, `locate_inside_inClosedCell`: what the side test
   computes, and why `inside` means containment;
 * `twoTri_*`: non-vacuity on a concrete two-triangle complex (by `decide`).
-/
import DelaunayModel.Lemmas.LocateAux
namespace DM.C10

open DM DM.LocateAux

/-! ### 1. the facet search of one cell -/

theorem firstOutside_none_iff (K : Cx) (emin : Int) (c : Cell) (q : IPt) :
    firstOutside K emin c q = none ↔
      ∀ i, i < c.vs.length → outsideFacet K emin c i q ≠ some true := by
  unfold firstOutside
  rw [List.find?_eq_none]
  simp [List.mem_range]

theorem firstOutside_some {K : Cx} {emin : Int} {c : Cell} {q : IPt} {i : Nat}
    (h : firstOutside K emin c q = some i) :
    i < c.vs.length ∧ outsideFacet K emin c i q = some true := by
  unfold firstOutside at h
  exact ⟨List.mem_range.1 (List.mem_of_find?_eq_some h), by simpa using List.find?_some h⟩

/-- the facet found is the first one in slot order -/
theorem firstOutside_some_first {K : Cx} {emin : Int} {c : Cell} {q : IPt} {i : Nat}
    (h : firstOutside K emin c q = some i) :
    ∀ j, j < i → outsideFacet K emin c j q ≠ some true := by
  unfold firstOutside at h
  rw [List.find?_eq_some_iff_append] at h
  obtain ⟨_, as, bs, hr, hall⟩ := h
  intro j hj
  have hlen : as.length = i := by
    have h0 : (List.range c.vs.length)[as.length]? = some i := by rw [hr]; simp
    rw [List.getElem?_range (by
      have := congrArg List.length hr
      simp at this; omega)] at h0
    exact Option.some.inj h0
  have hjm : j ∈ as := by
    have h1 : (List.range c.vs.length)[j]? = some j := List.getElem?_range (by
      have := congrArg List.length hr
      simp at this; omega)
    rw [hr, List.getElem?_append_left (by omega)] at h1
    exact List.mem_of_getElem? h1
  simpa using hall j hjm

/-! ### 2. the linear scan -/

theorem scan_inside_sound {K : Cx} {emin : Int} {q : IPt} {k : Nat}
    (h : locateScan K emin q = .inside k) :
    ∃ c ∈ K.cells, c.id = k ∧
      ∀ i, i < c.vs.length → outsideFacet K emin c i q ≠ some true := by
  unfold locateScan at h
  split at h
  · rename_i c hc
    refine ⟨c, List.mem_of_find?_eq_some hc, by injection h, ?_⟩
    have hp := List.find?_some hc
    rw [Option.isNone_iff_eq_none] at hp
    exact (firstOutside_none_iff K emin c q).1 hp
  · cases h

theorem scan_outside_witness {K : Cx} {emin : Int} {q : IPt}
    (h : locateScan K emin q = .outside) :
    ∀ c ∈ K.cells, ∃ i, i < c.vs.length ∧ outsideFacet K emin c i q = some true := by
  unfold locateScan at h
  split at h
  · cases h
  · rename_i hn
    rw [List.find?_eq_none] at hn
    intro c hc
    have := hn c hc
    cases hf : firstOutside K emin c q with
    | none => simp [hf] at this
    | some i => exact ⟨i, firstOutside_some hf⟩

/-- the scan answers `inside` as soon as some cell has no facet with the query strictly outside -/
theorem scan_complete {K : Cx} {emin : Int} {q : IPt} {c : Cell} (hc : c ∈ K.cells)
    (h : ∀ i, i < c.vs.length → outsideFacet K emin c i q ≠ some true) :
    ∃ k, locateScan K emin q = .inside k := by
  cases hs : locateScan K emin q with
  | inside k => exact ⟨k, rfl⟩
  | outside =>
    obtain ⟨i, hi, ho⟩ := scan_outside_witness hs c hc
    exact absurd ho (h i hi)

/-! ### 3–4. the walk -/

theorem walk_inside_sound (K : Cx) (emin : Int) (q : IPt) (fuel cur : Nat) (visited : List Nat)
    {k : Nat} (h : locateWalk K emin q fuel cur visited = .inside k) :
    ∃ c, (K.cellById k = some c ∨ (c ∈ K.cells ∧ c.id = k)) ∧
      ∀ i, i < c.vs.length → outsideFacet K emin c i q ≠ some true := by
  induction fuel generalizing cur visited with
  | zero =>
    rw [locateWalk] at h
    obtain ⟨c, hc, hid, hall⟩ := scan_inside_sound h
    exact ⟨c, Or.inr ⟨hc, hid⟩, hall⟩
  | succ fuel ih =>
    rw [locateWalk] at h
    split at h
    · obtain ⟨c, hc, hid, hall⟩ := scan_inside_sound h
      exact ⟨c, Or.inr ⟨hc, hid⟩, hall⟩
    · split at h
      · cases h
      · rename_i c hc
        split at h
        · rename_i hf
          injection h with hk
          subst hk
          exact ⟨c, Or.inl hc, (firstOutside_none_iff K emin c q).1 hf⟩
        · split at h
          · exact ih _ _ h
          · cases h

/-- in either case the returned id is the id of a stored cell -/
theorem walk_inside_mem (K : Cx) (emin : Int) (q : IPt) (fuel cur : Nat) (visited : List Nat)
    {k : Nat} (h : locateWalk K emin q fuel cur visited = .inside k) :
    ∃ c ∈ K.cells, c.id = k ∧
      ∀ i, i < c.vs.length → outsideFacet K emin c i q ≠ some true := by
  obtain ⟨c, hc, hall⟩ := walk_inside_sound K emin q fuel cur visited h
  rcases hc with hc | hc
  · exact ⟨c, (cellById_some hc).1, (cellById_some hc).2, hall⟩
  · exact ⟨c, hc.1, hc.2, hall⟩

/-- The three ways the walk can answer `outside`:
 1. it stood in a live cell `c` (id `k`) whose first outside facet `i` is a boundary facet
    (no neighbour) with the query strictly beyond it;
 2. it fell back to the scan (cycle / step limit) and every cell has a facet with the query
    strictly beyond it;
 3. it was sent to an id that is not a live cell — the start id `cur` itself, or a dangling
    neighbour pointer `nbSlot c i = some id` of a live cell (the model maps the Rust
    `InvalidCell` error to `.outside`). -/
theorem walk_outside_witness (K : Cx) (emin : Int) (q : IPt) (fuel cur : Nat)
    (visited : List Nat) (h : locateWalk K emin q fuel cur visited = .outside) :
    (∃ k c i, K.cellById k = some c ∧ i < c.vs.length ∧
        outsideFacet K emin c i q = some true ∧ nbSlot c i = none) ∨
    (∀ c ∈ K.cells, ∃ i, i < c.vs.length ∧ outsideFacet K emin c i q = some true) ∨
    (∃ id, K.cellById id = none ∧
        (id = cur ∨ ∃ k c i, K.cellById k = some c ∧ nbSlot c i = some id)) := by
  induction fuel generalizing cur visited with
  | zero =>
    rw [locateWalk] at h
    exact Or.inr (Or.inl (scan_outside_witness h))
  | succ fuel ih =>
    rw [locateWalk] at h
    split at h
    · exact Or.inr (Or.inl (scan_outside_witness h))
    · split at h
      · rename_i hn
        exact Or.inr (Or.inr ⟨cur, hn, Or.inl rfl⟩)
      · rename_i c hc
        split at h
        · cases h
        · rename_i i hf
          obtain ⟨hi, ho⟩ := firstOutside_some hf
          split at h
          · rename_i n hn
            rcases ih _ _ h with h1 | h2 | ⟨id, hid, h3⟩
            · exact Or.inl h1
            · exact Or.inr (Or.inl h2)
            · refine Or.inr (Or.inr ⟨id, hid, Or.inr ?_⟩)
              rcases h3 with rfl | h3
              · exact ⟨cur, c, i, hc, hn⟩
              · exact h3
          · rename_i hn
            exact Or.inl ⟨cur, c, i, hc, hi, ho, hn⟩

/-! ### 5–6. `locate` -/

/-- the id the walk of `locate` starts from -/
def startId (K : Cx) (c0 : Cell) : Option Nat → Nat
  | some h => if (K.cellById h).isSome then h else c0.id
  | none => c0.id

theorem locate_cons {K : Cx} {c0 : Cell} {rest : List Cell} (hK : K.cells = c0 :: rest)
    (emin : Int) (q : IPt) (hint : Option Nat) :
    locate K emin q hint = some (locateWalk K emin q maxSteps (startId K c0 hint) []) := by
  unfold locate
  rw [hK]
  cases hint <;> rfl

/-- the start id is always a live cell -/
theorem startId_live {K : Cx} {c0 : Cell} {rest : List Cell} (hK : K.cells = c0 :: rest)
    (hint : Option Nat) : (K.cellById (startId K c0 hint)).isSome = true := by
  have h0 : (K.cellById c0.id).isSome = true := cellById_isSome_of_mem (by simp [hK])
  cases hint with
  | none => exact h0
  | some h =>
    simp only [startId]
    split
    · assumption
    · exact h0

theorem locate_none_iff (K : Cx) (emin : Int) (q : IPt) (hint : Option Nat) :
    locate K emin q hint = none ↔ K.cells = [] := by
  cases hK : K.cells with
  | nil => simp [locate, hK]
  | cons c0 rest => simp [locate_cons hK]

theorem locate_inside_sound {K : Cx} {emin : Int} {q : IPt} {hint : Option Nat} {k : Nat}
    (h : locate K emin q hint = some (.inside k)) :
    ∃ c ∈ K.cells, c.id = k ∧
      ∀ i, i < c.vs.length → outsideFacet K emin c i q ≠ some true := by
  cases hK : K.cells with
  | nil => rw [(locate_none_iff K emin q hint).2 hK] at h; cases h
  | cons c0 rest =>
    rw [locate_cons hK] at h
    rw [← hK]
    exact walk_inside_mem K emin q _ _ _ (Option.some.inj h)

/-- `locate … = some .outside`: a boundary facet of a live cell with the query strictly beyond it,
or every cell has a facet with the query strictly beyond it, or some live cell has a dangling
neighbour pointer (the start cell is always live, so the `id = cur` case of the walk is gone). -/
theorem locate_outside_witness {K : Cx} {emin : Int} {q : IPt} {hint : Option Nat}
    (h : locate K emin q hint = some .outside) :
    (∃ k c i, K.cellById k = some c ∧ i < c.vs.length ∧
        outsideFacet K emin c i q = some true ∧ nbSlot c i = none) ∨
    (∀ c ∈ K.cells, ∃ i, i < c.vs.length ∧ outsideFacet K emin c i q = some true) ∨
    (∃ id k c i, K.cellById id = none ∧ K.cellById k = some c ∧ nbSlot c i = some id) := by
  cases hK : K.cells with
  | nil => rw [(locate_none_iff K emin q hint).2 hK] at h; cases h
  | cons c0 rest =>
    rw [locate_cons hK] at h
    rcases walk_outside_witness K emin q _ _ _ (Option.some.inj h) with h1 | h2 | ⟨id, hid, h3⟩
    · exact Or.inl h1
    · rw [← hK]; exact Or.inr (Or.inl h2)
    · rcases h3 with rfl | ⟨k, c, i, hc, hn⟩
      · have := startId_live hK hint
        rw [hid] at this
        cases this
      · exact Or.inr (Or.inr ⟨id, k, c, i, hid, hc, hn⟩)

/-- every neighbour pointer of a stored cell names a live cell -/
def NbClosed (K : Cx) : Prop :=
  ∀ c ∈ K.cells, ∀ i n, nbSlot c i = some n → (K.cellById n).isSome = true

/-- executable check of `NbClosed` -/
def nbClosedB (K : Cx) : Bool :=
  K.cells.all (fun c => match c.nb with
    | none => true
    | some l => l.all (fun o => match o with
      | none => true
      | some n => (K.cellById n).isSome))

theorem nbClosed_of_check {K : Cx} (h : nbClosedB K = true) : NbClosed K := by
  intro c hc i n hn
  unfold nbClosedB at h
  rw [List.all_eq_true] at h
  have hc' := h c hc
  unfold nbSlot at hn
  cases hnb : c.nb with
  | none => simp [hnb] at hn
  | some l =>
    simp only [hnb] at hn hc'
    rw [List.all_eq_true] at hc'
    have hmem : some n ∈ l := by
      rw [List.getD_eq_getElem?_getD] at hn
      cases hg : l[i]? with
      | none => simp [hg] at hn
      | some o =>
        simp only [hg, Option.getD_some] at hn
        exact hn ▸ List.mem_of_getElem? hg
    exact hc' _ hmem

/-- with no dangling neighbour pointers only the two meaningful cases remain -/
theorem locate_outside_witness_closed {K : Cx} {emin : Int} {q : IPt} {hint : Option Nat}
    (hcl : NbClosed K) (h : locate K emin q hint = some .outside) :
    (∃ c ∈ K.cells, ∃ i, i < c.vs.length ∧
        outsideFacet K emin c i q = some true ∧ nbSlot c i = none) ∨
    (∀ c ∈ K.cells, ∃ i, i < c.vs.length ∧ outsideFacet K emin c i q = some true) := by
  rcases locate_outside_witness h with ⟨k, c, i, hc, hi, ho, hn⟩ | h2 | ⟨id, k, c, i, hid, hc, hn⟩
  · exact Or.inl ⟨c, (cellById_some hc).1, i, hi, ho, hn⟩
  · exact Or.inr h2
  · have := hcl c (cellById_some hc).1 i id hn
    rw [hid] at this
    cases this

/-- a removed or foreign cell key behaves exactly like no hint -/
theorem locate_stale_hint {K : Cx} {h : Nat} (hh : K.cellById h = none) (emin : Int) (q : IPt) :
    locate K emin q (some h) = locate K emin q none := by
  cases hK : K.cells with
  | nil => rw [(locate_none_iff K emin q _).2 hK, (locate_none_iff K emin q _).2 hK]
  | cons c0 rest =>
    rw [locate_cons hK, locate_cons hK]
    simp [startId, hh]

/-- a live hint is where the walk starts -/
theorem locate_live_hint {K : Cx} {h : Nat} (hh : (K.cellById h).isSome = true) (emin : Int)
    (q : IPt) (hne : K.cells ≠ []) :
    locate K emin q (some h) = some (locateWalk K emin q maxSteps h []) := by
  cases hK : K.cells with
  | nil => exact absurd hK hne
  | cons c0 rest =>
    rw [locate_cons hK]
    simp [startId, hh]

/-! ### 7. the step budget -/

/-- number of cells examined by the walk part (the scan is not counted); same recursion as
`locateWalk` -/
def walkSteps (K : Cx) (emin : Int) (q : IPt) : Nat → Nat → List Nat → Nat
  | 0, _, _ => 0
  | fuel+1, cur, visited =>
    if visited.contains cur then 0
    else match K.cellById cur with
      | none => 1
      | some c =>
        match firstOutside K emin c q with
        | none => 1
        | some i =>
          match nbSlot c i with
          | some n => 1 + walkSteps K emin q fuel n (cur :: visited)
          | none => 1

theorem walkSteps_le_fuel (K : Cx) (emin : Int) (q : IPt) (fuel cur : Nat) (visited : List Nat) :
    walkSteps K emin q fuel cur visited ≤ fuel := by
  induction fuel generalizing cur visited with
  | zero => simp [walkSteps]
  | succ fuel ih =>
    rw [walkSteps]
    split
    · omega
    · split
      · omega
      · split
        · omega
        · split
          · have := ih ‹_› (cur :: visited); omega
          · omega

/-- The visited list grows by one live, fresh id per step, so a duplicate-free visited list of
live ids bounds the remaining steps by the number of ids not yet visited (+1 for the step that
finds a dangling id).  `m` is any list that contains every live id. -/
theorem walkSteps_add_visited_le (K : Cx) (emin : Int) (q : IPt) (m : List Nat)
    (hm : ∀ k c, K.cellById k = some c → k ∈ m) (fuel cur : Nat)
    (visited : List Nat) (hnd : visited.Nodup) (hlive : ∀ v ∈ visited, v ∈ m) :
    walkSteps K emin q fuel cur visited + visited.length ≤ m.length + 1 := by
  have hbase : visited.length ≤ m.length := nodup_length_le visited m hnd hlive
  induction fuel generalizing cur visited with
  | zero => simp [walkSteps]; omega
  | succ fuel ih =>
    rw [walkSteps]
    split
    · omega
    · rename_i hnc
      split
      · omega
      · rename_i c hc
        have hnd' : (cur :: visited).Nodup := by
          rw [List.nodup_cons]
          exact ⟨by simpa using hnc, hnd⟩
        have hlive' : ∀ v ∈ cur :: visited, v ∈ m := by
          intro v hv
          rcases List.mem_cons.1 hv with rfl | hv
          · exact hm _ c hc
          · exact hlive v hv
        have hbase' : (cur :: visited).length ≤ m.length :=
          nodup_length_le (cur :: visited) m hnd' hlive'
        have hb2 := hbase'
        simp only [List.length_cons] at hb2
        split
        · omega
        · split
          · have := ih ‹_› (cur :: visited) hnd' hlive' hbase'
            simp only [List.length_cons] at this
            omega
          · omega

/-- from an empty visited list the walk examines at most `#distinct cell ids + 1` cells, whatever
the fuel: it stops, leaves the complex, or hits the cycle check before that -/
theorem walkSteps_le_ids (K : Cx) (emin : Int) (q : IPt) (fuel cur : Nat) :
    walkSteps K emin q fuel cur [] ≤ (K.cells.map (·.id)).eraseDups.length + 1 := by
  have := walkSteps_add_visited_le K emin q (K.cells.map (·.id)).eraseDups
    (fun k c hc => List.mem_eraseDups.2 (mem_ids_of_cellById hc)) fuel cur [] List.nodup_nil
    (by simp)
  simpa using this

/-- … in particular at most `#cells + 1` -/
theorem walkSteps_le_cells (K : Cx) (emin : Int) (q : IPt) (fuel cur : Nat) :
    walkSteps K emin q fuel cur [] ≤ K.cells.length + 1 := by
  have := walkSteps_add_visited_le K emin q (K.cells.map (·.id))
    (fun k c hc => mem_ids_of_cellById hc) fuel cur [] List.nodup_nil (by simp)
  simpa using this

/-- both bounds together -/
theorem walkSteps_le_min (K : Cx) (emin : Int) (q : IPt) (fuel cur : Nat) :
    walkSteps K emin q fuel cur [] ≤ min fuel (K.cells.length + 1) :=
  Nat.le_min.2 ⟨walkSteps_le_fuel K emin q fuel cur [], walkSteps_le_cells K emin q fuel cur⟩

/-! ### 8. geometry of the side test -/

/-- what `outsideFacet` computes on a resolvable cell: the orientation of the facet with the
opposite vertex and the orientation of the facet with the query have strictly opposite signs -/
theorem outsideFacet_iff {K : Cx} {emin : Int} {c : Cell} {s : List IPt}
    (hs : cellPts K emin c = some s) (hl : s.length = K.D + 1) (i : Nat) (q : IPt) :
    outsideFacet K emin c i q = some true ↔
      orientSign (s.eraseIdx i ++ [s.getD i []]) * orientSign (s.eraseIdx i ++ [q]) < 0 := by
  simp [outsideFacet, hs, hl]

/-- on a resolvable cell the side test always has an answer, and it is the sign comparison -/
theorem outsideFacet_eq {K : Cx} {emin : Int} {c : Cell} {s : List IPt}
    (hs : cellPts K emin c = some s) (hl : s.length = K.D + 1) (i : Nat) (q : IPt) :
    outsideFacet K emin c i q = some (decide
      (orientSign (s.eraseIdx i ++ [s.getD i []]) * orientSign (s.eraseIdx i ++ [q]) < 0)) := by
  simp [outsideFacet, hs, hl]

theorem outsideFacet_false_iff {K : Cx} {emin : Int} {c : Cell} {s : List IPt}
    (hs : cellPts K emin c = some s) (hl : s.length = K.D + 1) (i : Nat) (q : IPt) :
    outsideFacet K emin c i q = some false ↔
      0 ≤ orientSign (s.eraseIdx i ++ [s.getD i []]) * orientSign (s.eraseIdx i ++ [q]) := by
  rw [outsideFacet_eq hs hl]
  simp

/-- on a resolvable cell "no facet has the query strictly outside" is exactly `inClosedCell` -/
theorem firstOutside_none_iff_inClosedCell {K : Cx} {emin : Int} {c : Cell} {s : List IPt}
    (hs : cellPts K emin c = some s) (hl : s.length = K.D + 1) (q : IPt) :
    firstOutside K emin c q = none ↔ inClosedCell K emin c q = true := by
  rw [firstOutside_none_iff]
  unfold inClosedCell
  simp only [List.all_eq_true, List.mem_range, beq_iff_eq]
  constructor
  · intro h i hi
    have := h i hi
    rw [outsideFacet_eq hs hl] at this ⊢
    simpa using this
  · intro h i hi
    rw [h i hi]
    simp

/-- A vertex of the cell is never strictly outside a facet of that cell that contains it: for the
facet opposite slot `i` and the cell's own point in slot `j ≠ i` the query determinant has two
equal rows, so the side test answers `some false`. -/
theorem vertex_not_outside {K : Cx} {emin : Int} {c : Cell} {s : List IPt}
    (hs : cellPts K emin c = some s) (hl : s.length = K.D + 1)
    (hdim : ∀ p ∈ s, p.length = K.D) {i j : Nat} (hi : i < s.length) (hj : j < s.length)
    (hij : j ≠ i) : outsideFacet K emin c i s[j] = some false := by
  rw [outsideFacet_false_iff hs hl]
  have h0 : orientSign (s.eraseIdx i ++ [s[j]]) = 0 := by
    unfold orientSign
    rw [orientDet_eraseIdx_append_getElem hl hdim hi hj hij]
    exact sgn_zero
  rw [h0]
  simp

/-- hence a vertex of a resolvable cell is strictly outside at most the facet opposite to itself;
there the two orientations coincide, so it is not outside that facet either: a cell's own
vertices lie in the closed cell -/
theorem vertex_inClosedCell {K : Cx} {emin : Int} {c : Cell} {s : List IPt}
    (hs : cellPts K emin c = some s) (hl : s.length = K.D + 1)
    (hdim : ∀ p ∈ s, p.length = K.D) {j : Nat}
    (hj : j < s.length) : inClosedCell K emin c s[j] = true := by
  unfold inClosedCell
  simp only [List.all_eq_true, List.mem_range, beq_iff_eq]
  intro i hi
  by_cases hij : j = i
  · subst hij
    rw [outsideFacet_false_iff hs hl]
    rw [show s.getD j [] = s[j] from by simp [List.getD, List.getElem?_eq_getElem hj]]
    exact mul_self_nonneg _
  · have := cellPts_length hs
    exact vertex_not_outside hs hl hdim (by omega) hj hij

/-- every stored cell resolves to `D + 1` points (true under `checkL1` + `vertsExist`) -/
def Resolvable (K : Cx) (emin : Int) : Prop :=
  ∀ c ∈ K.cells, ∃ s, cellPts K emin c = some s ∧ s.length = K.D + 1

/-- on a resolvable complex `inside k` means exact containment in the closed cell `k` -/
theorem locate_inside_inClosedCell {K : Cx} {emin : Int} {q : IPt} {hint : Option Nat} {k : Nat}
    (hres : Resolvable K emin) (h : locate K emin q hint = some (.inside k)) :
    ∃ c ∈ K.cells, c.id = k ∧ inClosedCell K emin c q = true := by
  obtain ⟨c, hc, hid, hall⟩ := locate_inside_sound h
  obtain ⟨s, hs, hl⟩ := hres c hc
  exact ⟨c, hc, hid, (firstOutside_none_iff_inClosedCell hs hl q).1
    ((firstOutside_none_iff K emin c q).2 hall)⟩

/-! ### 9. non-vacuity -/

/-- the point `(x, y)` with integer coordinates as dyadics `x·2⁰, y·2⁰` -/
def ipt (x y : Int) : Option DPt := some [⟨x, 0⟩, ⟨y, 0⟩]

/-- unit square `(0,0) (1,0) (0,1) (1,1)` split along the diagonal `1–2` into the triangles
`c0 = [0,1,2]`, `c1 = [1,3,2]` (same shape as `C05.twoTri`) -/
def twoTri : Cx :=
  { D := 2
    verts := [⟨0, ipt 0 0, some 0⟩, ⟨1, ipt 1 0, some 0⟩, ⟨2, ipt 0 1, some 1⟩,
              ⟨3, ipt 1 1, some 1⟩]
    cells := [⟨0, [0, 1, 2], some [some 1, none, none]⟩,
              ⟨1, [1, 3, 2], some [none, some 0, none]⟩] }

/-- the same complex with the neighbour pointer of `c0` across the diagonal replaced by a dangling
id `7` -/
def twoTriDangling : Cx :=
  { twoTri with
    cells := [⟨0, [0, 1, 2], some [some 7, none, none]⟩,
              ⟨1, [1, 3, 2], some [none, some 0, none]⟩] }

theorem twoTri_closed : NbClosed twoTri := nbClosed_of_check (by decide)

theorem twoTri_resolvable : Resolvable twoTri 0 := by
  intro c hc
  simp only [twoTri, List.mem_cons, List.not_mem_nil, or_false] at hc
  rcases hc with rfl | rfl
  · exact ⟨[[0, 0], [1, 0], [0, 1]], by decide, rfl⟩
  · exact ⟨[[1, 0], [1, 1], [0, 1]], by decide, rfl⟩

/-- `(0,0)` is a vertex of `c0`: found at once, no hint -/
theorem twoTri_origin : locate twoTri 0 [0, 0] none = some (.inside 0) := by decide

/-- `(5,5)` is beyond the edge `(1,1)–(0,1)` of `c1`, a boundary facet -/
theorem twoTri_far : locate twoTri 0 [5, 5] none = some .outside := by decide

/-- `(1,1)` lies in `c1` only: starting from hint `some 0` the walk crosses the diagonal -/
theorem twoTri_walks : locate twoTri 0 [1, 1] (some 0) = some (.inside 1) := by decide

/-- at scale `2⁻²` (coordinates ×4) the point `(3,3)` is strictly inside `c1` -/
theorem twoTri_walks_interior : locate twoTri (-2) [3, 3] (some 0) = some (.inside 1) ∧
    inClosedCell twoTri (-2) ⟨1, [1, 3, 2], some [none, some 0, none]⟩ [3, 3] = true ∧
    inClosedCell twoTri (-2) ⟨0, [0, 1, 2], some [some 1, none, none]⟩ [3, 3] = false := by
  decide

/-- a stale hint behaves like no hint; a live hint is used -/
theorem twoTri_hints : locate twoTri 0 [1, 1] (some 7) = some (.inside 1) ∧
    locate twoTri 0 [1, 1] (some 1) = some (.inside 1) ∧
    locate twoTri 0 [0, 0] (some 1) = some (.inside 0) := by decide

/-- the walk from `c0` to `c1` examines two cells; the direct hit examines one -/
theorem twoTri_steps : walkSteps twoTri 0 [1, 1] maxSteps 0 [] = 2 ∧
    walkSteps twoTri 0 [0, 0] maxSteps 0 [] = 1 := by decide

/-- step-limit fallback: with no fuel the scan still finds the cell -/
theorem twoTri_no_fuel : locateWalk twoTri 0 [1, 1] 0 0 [] = .inside 1 ∧
    locateWalk twoTri 0 [5, 5] 0 0 [] = .outside := by decide

/-- cycle fallback: re-entering a visited cell hands over to the scan -/
theorem twoTri_cycle : locateWalk twoTri 0 [1, 1] 5 0 [0] = .inside 1 := by decide

/-- the third disjunct of `locate_outside_witness` is really needed: a dangling neighbour pointer
makes the model answer `outside` for a point that lies inside `c1` -/
theorem dangling_outside : locate twoTriDangling 0 [1, 1] none = some .outside ∧
    locateScan twoTriDangling 0 [1, 1] = .inside 1 ∧ ¬ NbClosed twoTriDangling := by
  refine ⟨by decide, by decide, fun h => ?_⟩
  have := h ⟨0, [0, 1, 2], some [some 7, none, none]⟩ (by simp [twoTriDangling]) 0 7 (by decide)
  revert this
  decide

end DM.C10
