use delaunay::core::delaunay_triangulation::DelaunayTriangulation;
use delaunay::core::vertex::Vertex;
use delaunay::geometry::kernel::{FastKernel, RobustKernel};
use delaunay::geometry::point::Point;
use delaunay::geometry::traits::coordinate::Coordinate;
fn main() {
    let pts: Vec<[f64; 3]> = vec![[4.,-2.,6.],[8.,-4.,4.],[0.,-1.,6.],[6.,-3.,-5.],[-4.,-5.,-5.],[5.,-4.,8.],[-5.,4.,6.],[3.,3.,5.]];
    let vs: Vec<Vertex<f64, i32, 3>> = pts.iter().enumerate().map(|(i, p)| Vertex::new_with_uuid(Point::new(*p), uuid::Builder::from_random_bytes((1000u128 + i as u128).to_le_bytes()).into_uuid(), Some(i as i32))).collect();
    let sig = |dt: &DelaunayTriangulation<FastKernel<f64>, i32, i32, 3>| { let mut c: Vec<Vec<i32>> = dt.cells().map(|(_, c)| { let mut v: Vec<i32> = c.vertices().iter().map(|k| dt.tds().get_vertex_by_key(*k).unwrap().data.unwrap()).collect(); v.sort(); v }).collect(); c.sort(); c };
    let b = DelaunayTriangulation::<FastKernel<f64>, i32, i32, 3>::with_kernel(&FastKernel::new(), &vs).unwrap();
    println!("batch  : {:?} valid={:?}", sig(&b), b.validate().is_ok());
    let br = DelaunayTriangulation::<RobustKernel<f64>, i32, i32, 3>::with_kernel(&RobustKernel::new(), &vs).unwrap();
    println!("batchR : cells={} valid={:?}", br.number_of_cells(), br.validate().is_ok());
    let mut w = DelaunayTriangulation::<FastKernel<f64>, i32, i32, 3>::with_empty_kernel(FastKernel::new());
    for v in &vs { let r = w.insert_with_statistics(*v); println!("  insert {:?}: {:?} cells={} viol={:?} is_valid={:?}", v.data, r.map(|(o, s)| (format!("{o:?}").chars().take(20).collect::<String>(), s.attempts)), w.number_of_cells(), delaunay::core::util::find_delaunay_violations(w.tds(), None).map(|v| v.len()), w.is_valid().is_ok()); }
    println!("increm : {:?} valid={:?} viol={:?}", sig(&w), w.validate().map_err(|e| format!("{e}").chars().take(120).collect::<String>()), delaunay::core::util::find_delaunay_violations(w.tds(), None).map(|v| v.len()));
    for (_, v) in w.vertices() { println!("   v{:?} {:?}", v.data, v.point().coords()); }
}
