def hello := "world"
