/-
Lemmas/LinkAux.lean — helper lemmas for the ridge-link validator (`graphVerts`, `dedupEdges`,
`graphReach`, `graphConnected`, `linkGraphOk`, `ridgeLinkEdges`, `facesK`, `subsetsK` in
Model/Cx.lean) used by Props/C05.lean §8:
 * the "keep the last occurrence" fold `dedupL` (shared by `graphVerts`, `dedupEdges`, `dedup`):
   same elements, duplicate-free,
 * the declarative graph relations `IsVert`, `Adj`, `GReach` on an edge list,
 * one sweep `gRound` of `graphReach` only prepends, keeps the list duplicate-free, stays inside
   the component, and a sweep that adds nothing means the list is closed under edges,
 * `graphConnected_iff`: the executable test = every two vertices are joined by a path,
 * passing from an edge list to its normalised duplicate-free form changes neither vertices nor
   adjacency,
 * membership in `subsetsK`, `facesK`, `ridgeLinkEdges`.
Core only (no Mathlib).
-/
import DelaunayModel.Lemmas.ReachAux
namespace DM

/-! ### the de-duplicating fold -/

/-- the fold used by `graphVerts`, `dedupEdges` and `dedup` -/
def dedupL {α : Type} [BEq α] (l : List α) : List α :=
  l.foldr (fun x acc => if acc.contains x then acc else x :: acc) []

theorem dedupL_cons {α : Type} [BEq α] (x : α) (l : List α) :
    dedupL (x :: l) = if (dedupL l).contains x then dedupL l else x :: dedupL l := rfl

theorem mem_dedupL {α : Type} [BEq α] [LawfulBEq α] (l : List α) (x : α) :
    x ∈ dedupL l ↔ x ∈ l := by
  induction l with
  | nil => simp [dedupL]
  | cons y ys ih =>
    rw [dedupL_cons]
    by_cases h : (dedupL ys).contains y = true
    · rw [if_pos h, ih, List.mem_cons]
      constructor
      · exact Or.inr
      · rintro (rfl | h')
        · exact ih.1 (List.contains_iff_mem.1 h)
        · exact h'
    · rw [if_neg h, List.mem_cons, List.mem_cons, ih]

theorem nodup_dedupL {α : Type} [BEq α] [LawfulBEq α] (l : List α) : (dedupL l).Nodup := by
  induction l with
  | nil => exact List.nodup_nil
  | cons y ys ih =>
    rw [dedupL_cons]
    by_cases h : (dedupL ys).contains y = true
    · rw [if_pos h]; exact ih
    · rw [if_neg h]
      exact List.nodup_cons.2 ⟨fun hm => h (List.contains_iff_mem.2 hm), ih⟩

theorem graphVerts_eq (es : List (Nat × Nat)) :
    graphVerts es = dedupL (es.flatMap (fun e => [e.1, e.2])) := rfl

theorem dedupEdges_eq (es : List (Nat × Nat)) : dedupEdges es = dedupL (es.map normEdge) := rfl

theorem dedup_eq (l : List (List Nat)) : dedup l = dedupL l := rfl

/-! ### declarative graph relations -/

/-- `v` is an endpoint of some edge -/
def IsVert (es : List (Nat × Nat)) (v : Nat) : Prop := ∃ e ∈ es, v = e.1 ∨ v = e.2

/-- `a` and `b` are joined by an edge (in either orientation) -/
def Adj (es : List (Nat × Nat)) (a b : Nat) : Prop := (a, b) ∈ es ∨ (b, a) ∈ es

/-- `b` can be reached from `a` along edges -/
inductive GReach (es : List (Nat × Nat)) (a : Nat) : Nat → Prop
  | refl : GReach es a a
  | step {b c : Nat} : GReach es a b → Adj es b c → GReach es a c

theorem Adj.symm {es : List (Nat × Nat)} {a b : Nat} (h : Adj es a b) : Adj es b a := Or.symm h

theorem GReach.trans {es : List (Nat × Nat)} {a b c : Nat} (h1 : GReach es a b)
    (h2 : GReach es b c) : GReach es a c := by
  induction h2 with
  | refl => exact h1
  | step _ hadj ih => exact GReach.step ih hadj

theorem GReach.symm {es : List (Nat × Nat)} {a b : Nat} (h : GReach es a b) : GReach es b a := by
  induction h with
  | refl => exact GReach.refl
  | step _ hadj ih => exact (GReach.step GReach.refl hadj.symm).trans ih

theorem GReach.mono {es es' : List (Nat × Nat)} (h : ∀ a b, Adj es a b → Adj es' a b) {a b : Nat}
    (hr : GReach es a b) : GReach es' a b := by
  induction hr with
  | refl => exact GReach.refl
  | step _ hadj ih => exact GReach.step ih (h _ _ hadj)

theorem mem_graphVerts (es : List (Nat × Nat)) (v : Nat) : v ∈ graphVerts es ↔ IsVert es v := by
  rw [graphVerts_eq, mem_dedupL, List.mem_flatMap]
  unfold IsVert
  simp only [List.mem_cons, List.not_mem_nil, or_false]

theorem graphVerts_nodup (es : List (Nat × Nat)) : (graphVerts es).Nodup := by
  rw [graphVerts_eq]; exact nodup_dedupL _

/-! ### normalised duplicate-free edges -/

theorem normEdge_cases (e : Nat × Nat) : normEdge e = e ∨ normEdge e = (e.2, e.1) := by
  unfold normEdge
  split
  · exact Or.inl rfl
  · exact Or.inr rfl

theorem mem_dedupEdges (es : List (Nat × Nat)) (x : Nat × Nat) :
    x ∈ dedupEdges es ↔ ∃ e ∈ es, normEdge e = x := by
  rw [dedupEdges_eq, mem_dedupL, List.mem_map]

theorem dedupEdges_nodup (es : List (Nat × Nat)) : (dedupEdges es).Nodup := by
  rw [dedupEdges_eq]; exact nodup_dedupL _

theorem adj_dedupEdges (es : List (Nat × Nat)) (a b : Nat) :
    Adj (dedupEdges es) a b ↔ Adj es a b := by
  unfold Adj
  simp only [mem_dedupEdges]
  constructor
  · rintro (⟨e, he, h⟩ | ⟨e, he, h⟩)
    · rcases normEdge_cases e with h' | h'
      · rw [h'] at h; subst h; exact Or.inl he
      · rw [h'] at h
        have h1 : e.2 = a := congrArg Prod.fst h
        have h2 : e.1 = b := congrArg Prod.snd h
        subst h1 h2
        exact Or.inr he
    · rcases normEdge_cases e with h' | h'
      · rw [h'] at h; subst h; exact Or.inr he
      · rw [h'] at h
        have h1 : e.2 = b := congrArg Prod.fst h
        have h2 : e.1 = a := congrArg Prod.snd h
        subst h1 h2
        exact Or.inl he
  · rintro (h | h)
    · rcases normEdge_cases (a, b) with h' | h'
      · exact Or.inl ⟨_, h, h'⟩
      · exact Or.inr ⟨_, h, h'⟩
    · rcases normEdge_cases (b, a) with h' | h'
      · exact Or.inr ⟨_, h, h'⟩
      · exact Or.inl ⟨_, h, h'⟩

theorem isVert_iff_adj (es : List (Nat × Nat)) (v : Nat) : IsVert es v ↔ ∃ w, Adj es v w := by
  unfold IsVert Adj
  constructor
  · rintro ⟨e, he, rfl | rfl⟩
    · exact ⟨e.2, Or.inl he⟩
    · exact ⟨e.1, Or.inr he⟩
  · rintro ⟨w, h | h⟩
    · exact ⟨_, h, Or.inl rfl⟩
    · exact ⟨_, h, Or.inr rfl⟩

theorem isVert_dedupEdges (es : List (Nat × Nat)) (v : Nat) :
    IsVert (dedupEdges es) v ↔ IsVert es v := by
  simp only [isVert_iff_adj, adj_dedupEdges]

theorem greach_dedupEdges (es : List (Nat × Nat)) (a b : Nat) :
    GReach (dedupEdges es) a b ↔ GReach es a b :=
  ⟨GReach.mono (fun a b => (adj_dedupEdges es a b).1),
   GReach.mono (fun a b => (adj_dedupEdges es a b).2)⟩

/-- in the normalised duplicate-free edge list the degree of `v` is the number of distinct
undirected edges at `v` -/
theorem degIn_eq_length_filter (es : List (Nat × Nat)) (v : Nat) :
    degIn es v = (es.filter (fun e => e.1 == v || e.2 == v)).length :=
  List.countP_eq_length_filter

/-! ### one sweep of `graphReach` -/

/-- if `a` is in and `b` is not, add `b` -/
def hStep (acc : List Nat) (a b : Nat) : List Nat :=
  if acc.contains a && !acc.contains b then b :: acc else acc

/-- what `graphReach` does with one edge -/
def eStep (acc : List Nat) (e : Nat × Nat) : List Nat := hStep (hStep acc e.1 e.2) e.2 e.1

/-- one sweep over all edges -/
def gRound (es : List (Nat × Nat)) (seen : List Nat) : List Nat := es.foldl eStep seen

theorem graphReach_zero (es : List (Nat × Nat)) (seen : List Nat) : graphReach es 0 seen = seen :=
  rfl

theorem graphReach_succ (es : List (Nat × Nat)) (f : Nat) (seen : List Nat) :
    graphReach es (f + 1) seen =
      if (gRound es seen).length == seen.length then seen else graphReach es f (gRound es seen) :=
  rfl

theorem suffix_sandwich {a b c : List Nat} (h1 : a <:+ b) (h2 : b <:+ c) (h : c = a) : b = a := by
  have l1 := h1.length_le
  have l2 := h2.length_le
  rw [h] at l2
  exact (h1.eq_of_length (by omega)).symm

theorem hStep_suffix (acc : List Nat) (a b : Nat) : acc <:+ hStep acc a b := by
  unfold hStep
  split
  · exact List.suffix_cons _ _
  · exact List.suffix_refl _

theorem hStep_nodup (acc : List Nat) (a b : Nat) (h : acc.Nodup) : (hStep acc a b).Nodup := by
  unfold hStep
  split
  · rename_i hc
    rw [Bool.and_eq_true, Bool.not_eq_true', ← Bool.not_eq_true] at hc
    exact List.nodup_cons.2 ⟨fun hm => hc.2 (List.contains_iff_mem.2 hm), h⟩
  · exact h

theorem hStep_inv (Q : Nat → Prop) (acc : List Nat) (a b : Nat) (h : ∀ x ∈ acc, Q x)
    (hab : Q a → Q b) : ∀ x ∈ hStep acc a b, Q x := by
  unfold hStep
  split
  · rename_i hc
    rw [Bool.and_eq_true, List.contains_iff_mem] at hc
    intro x hx
    rcases List.mem_cons.1 hx with rfl | hx
    · exact hab (h a hc.1)
    · exact h x hx
  · exact h

theorem hStep_fix (acc : List Nat) (a b : Nat) (h : hStep acc a b = acc) (ha : a ∈ acc) :
    b ∈ acc := by
  unfold hStep at h
  split at h
  · have := congrArg List.length h
    simp at this
  · rename_i hc
    rw [Bool.and_eq_true, Bool.not_eq_true', ← Bool.not_eq_true, List.contains_iff_mem,
      List.contains_iff_mem] at hc
    exact Classical.byContradiction (fun hb => hc ⟨ha, hb⟩)

theorem eStep_suffix (acc : List Nat) (e : Nat × Nat) : acc <:+ eStep acc e :=
  (hStep_suffix _ _ _).trans (hStep_suffix _ _ _)

theorem eStep_nodup (acc : List Nat) (e : Nat × Nat) (h : acc.Nodup) : (eStep acc e).Nodup :=
  hStep_nodup _ _ _ (hStep_nodup _ _ _ h)

theorem eStep_inv (Q : Nat → Prop) (acc : List Nat) (e : Nat × Nat) (h : ∀ x ∈ acc, Q x)
    (he : Q e.1 ↔ Q e.2) : ∀ x ∈ eStep acc e, Q x :=
  hStep_inv Q _ _ _ (hStep_inv Q _ _ _ h he.1) he.2

theorem eStep_fix (acc : List Nat) (e : Nat × Nat) (h : eStep acc e = acc) :
    e.1 ∈ acc ↔ e.2 ∈ acc := by
  have h1 : hStep acc e.1 e.2 = acc :=
    suffix_sandwich (hStep_suffix acc e.1 e.2) (hStep_suffix _ e.2 e.1) h
  have h2 : hStep acc e.2 e.1 = acc := by
    have := h
    unfold eStep at this
    rw [h1] at this
    exact this
  exact ⟨hStep_fix _ _ _ h1, hStep_fix _ _ _ h2⟩

theorem foldl_eStep_suffix (l : List (Nat × Nat)) (seen : List Nat) :
    seen <:+ l.foldl eStep seen := by
  induction l generalizing seen with
  | nil => exact List.suffix_refl _
  | cons e l ih => exact (eStep_suffix seen e).trans (ih _)

theorem foldl_eStep_nodup (l : List (Nat × Nat)) (seen : List Nat) (h : seen.Nodup) :
    (l.foldl eStep seen).Nodup := by
  induction l generalizing seen with
  | nil => exact h
  | cons e l ih => exact ih _ (eStep_nodup seen e h)

theorem foldl_eStep_inv (Q : Nat → Prop) (l : List (Nat × Nat)) (seen : List Nat)
    (h : ∀ x ∈ seen, Q x) (hl : ∀ e ∈ l, (Q e.1 ↔ Q e.2)) : ∀ x ∈ l.foldl eStep seen, Q x := by
  induction l generalizing seen with
  | nil => exact h
  | cons e l ih =>
    exact ih _ (eStep_inv Q seen e h (hl e (by simp))) (fun e' he' => hl e' (List.mem_cons_of_mem _ he'))

theorem foldl_eStep_fix (l : List (Nat × Nat)) (seen : List Nat) (h : l.foldl eStep seen = seen) :
    ∀ e ∈ l, (e.1 ∈ seen ↔ e.2 ∈ seen) := by
  induction l with
  | nil => intro e he; cases he
  | cons e l ih =>
    have h1 : eStep seen e = seen :=
      suffix_sandwich (eStep_suffix seen e) (foldl_eStep_suffix l _) h
    have h2 : l.foldl eStep seen = seen := by
      have := h
      rw [List.foldl_cons, h1] at this
      exact this
    intro e' he'
    rcases List.mem_cons.1 he' with rfl | he'
    · exact eStep_fix seen _ h1
    · exact ih h2 e' he'

theorem gRound_suffix (es : List (Nat × Nat)) (seen : List Nat) : seen <:+ gRound es seen :=
  foldl_eStep_suffix es seen

theorem gRound_nodup (es : List (Nat × Nat)) (seen : List Nat) (h : seen.Nodup) :
    (gRound es seen).Nodup := foldl_eStep_nodup es seen h

theorem gRound_eq_of_length (es : List (Nat × Nat)) (seen : List Nat)
    (h : (gRound es seen).length = seen.length) : gRound es seen = seen :=
  ((gRound_suffix es seen).eq_of_length h.symm).symm

/-- a sweep stays inside any edge-closed predicate -/
theorem gRound_inv (Q : Nat → Prop) (es : List (Nat × Nat)) (hQ : ∀ e ∈ es, (Q e.1 ↔ Q e.2))
    (seen : List Nat) (h : ∀ x ∈ seen, Q x) : ∀ x ∈ gRound es seen, Q x :=
  foldl_eStep_inv Q es seen h hQ

/-! ### the fuelled iteration -/

theorem graphReach_induct (es : List (Nat × Nat)) (P : List Nat → Prop)
    (hstep : ∀ s, P s → P (gRound es s)) (f : Nat) (seen : List Nat) (h : P seen) :
    P (graphReach es f seen) := by
  induction f generalizing seen with
  | zero => exact h
  | succ f ih =>
    rw [graphReach_succ]
    split
    · exact h
    · exact ih _ (hstep _ h)

theorem graphReach_suffix (es : List (Nat × Nat)) (f : Nat) (seen : List Nat) :
    seen <:+ graphReach es f seen := by
  induction f generalizing seen with
  | zero => exact List.suffix_refl _
  | succ f ih =>
    rw [graphReach_succ]
    split
    · exact List.suffix_refl _
    · exact (gRound_suffix es seen).trans (ih _)

theorem graphReach_nodup (es : List (Nat × Nat)) (f : Nat) (seen : List Nat) (h : seen.Nodup) :
    (graphReach es f seen).Nodup :=
  graphReach_induct es List.Nodup (gRound_nodup es) f seen h

theorem graphReach_inv (Q : Nat → Prop) (es : List (Nat × Nat)) (hQ : ∀ e ∈ es, (Q e.1 ↔ Q e.2))
    (f : Nat) (seen : List Nat) (h : ∀ x ∈ seen, Q x) : ∀ x ∈ graphReach es f seen, Q x :=
  graphReach_induct es (fun s => ∀ x ∈ s, Q x) (gRound_inv Q es hQ) f seen h

/-- with `bound.length < seen.length + fuel`, where `bound` contains every list of vertices, the
iteration stops at a sweep that adds nothing -/
theorem graphReach_fixpoint (es : List (Nat × Nat)) (f : Nat) (seen : List Nat)
    (hnd : seen.Nodup) (hs : ∀ x ∈ seen, IsVert es x)
    (hf : (graphVerts es).length < seen.length + f) :
    gRound es (graphReach es f seen) = graphReach es f seen := by
  have hQ : ∀ e ∈ es, (IsVert es e.1 ↔ IsVert es e.2) := fun e he =>
    ⟨fun _ => ⟨e, he, Or.inr rfl⟩, fun _ => ⟨e, he, Or.inl rfl⟩⟩
  induction f generalizing seen with
  | zero =>
    have := nodup_subset_length_le (l₂ := graphVerts es) hnd
      (fun x hx => (mem_graphVerts es x).2 (hs x hx))
    omega
  | succ f ih =>
    rw [graphReach_succ]
    split
    · rename_i h
      exact gRound_eq_of_length es seen (by simpa using h)
    · rename_i h
      have hlt : seen.length < (gRound es seen).length := by
        have := (gRound_suffix es seen).length_le
        have hne : (gRound es seen).length ≠ seen.length := by simpa using h
        omega
      exact ih _ (gRound_nodup es seen hnd) (gRound_inv _ es hQ seen hs) (by omega)

/-- a list that a sweep leaves unchanged is closed under `GReach` -/
theorem greach_mem_of_fixpoint (es : List (Nat × Nat)) (R : List Nat) (hfix : gRound es R = R)
    {a d : Nat} (ha : a ∈ R) (hr : GReach es a d) : d ∈ R := by
  have hcl := foldl_eStep_fix es R hfix
  induction hr with
  | refl => exact ha
  | step _ hadj ih =>
    rcases hadj with h | h
    · exact (hcl _ h).1 ih
    · exact (hcl _ h).2 ih

/-- the executable connectivity test = every two vertices are joined by a path -/
theorem graphConnected_iff (es : List (Nat × Nat)) :
    graphConnected es = true ↔ ∀ u v, IsVert es u → IsVert es v → GReach es u v := by
  unfold graphConnected
  cases hgv : graphVerts es with
  | nil =>
    simp only [true_iff]
    intro u v hu _
    have := (mem_graphVerts es u).2 hu
    rw [hgv] at this
    cases this
  | cons v vs =>
    have hv : IsVert es v := (mem_graphVerts es v).1 (by rw [hgv]; simp)
    have hlen : (graphVerts es).length = vs.length + 1 := by rw [hgv]; rfl
    have hQ : ∀ e ∈ es, ((GReach es v e.1 ∧ IsVert es e.1) ↔ (GReach es v e.2 ∧ IsVert es e.2)) :=
      fun e he =>
        ⟨fun h => ⟨GReach.step h.1 (Or.inl he), e, he, Or.inr rfl⟩,
         fun h => ⟨GReach.step h.1 (Or.inr he), e, he, Or.inl rfl⟩⟩
    have hsound : ∀ x ∈ graphReach es (vs.length + 1) [v], GReach es v x ∧ IsVert es x :=
      graphReach_inv _ es hQ _ [v] (fun x hx => by
        rw [List.mem_singleton] at hx
        subst hx
        exact ⟨GReach.refl, hv⟩)
    have hnd : (graphReach es (vs.length + 1) [v]).Nodup := graphReach_nodup es _ [v] (by simp)
    have hsub : ∀ x ∈ graphReach es (vs.length + 1) [v], x ∈ graphVerts es :=
      fun x hx => (mem_graphVerts es x).2 (hsound x hx).2
    have hfix := graphReach_fixpoint es (vs.length + 1) [v] (by simp)
      (fun x hx => by
        rw [List.mem_singleton] at hx
        subst hx
        exact hv)
      (by rw [hlen]; simp)
    have hstart : v ∈ graphReach es (vs.length + 1) [v] :=
      (graphReach_suffix es _ [v]).subset (by simp)
    simp only [beq_iff_eq]
    constructor
    · intro hl u w hu hw
      have hall := subset_of_nodup_subset_length_eq hnd hsub (by rw [hlen, hl]; exact Nat.le_refl _)
      have h1 := (hsound u (hall u ((mem_graphVerts es u).2 hu))).1
      have h2 := (hsound w (hall w ((mem_graphVerts es w).2 hw))).1
      exact h1.symm.trans h2
    · intro hall
      have h1 := nodup_subset_length_le hnd hsub
      have h2 : (graphVerts es).length ≤ (graphReach es (vs.length + 1) [v]).length :=
        nodup_subset_length_le (graphVerts_nodup es) (fun x hx =>
          greach_mem_of_fixpoint es _ hfix hstart (hall v x hv ((mem_graphVerts es x).1 hx)))
      omega

/-! ### faces and ridge links -/

theorem mem_subsetsK (k : Nat) (l r : List Nat) :
    r ∈ subsetsK k l ↔ r.Sublist l ∧ r.length = k := by
  induction l generalizing k r with
  | nil =>
    cases k with
    | zero =>
      simp only [subsetsK, List.mem_singleton, List.sublist_nil]
      constructor
      · rintro rfl; exact ⟨rfl, rfl⟩
      · exact fun h => h.1
    | succ k =>
      simp only [subsetsK, List.not_mem_nil, List.sublist_nil, false_iff]
      rintro ⟨rfl, h⟩
      cases h
  | cons x xs ih =>
    cases k with
    | zero =>
      simp only [subsetsK, List.mem_singleton]
      constructor
      · rintro rfl; exact ⟨List.nil_sublist _, rfl⟩
      · exact fun h => List.length_eq_zero_iff.1 h.2
    | succ k =>
      simp only [subsetsK, List.mem_append, List.mem_map, ih, List.sublist_cons_iff]
      constructor
      · rintro (⟨r', ⟨hs, hl⟩, rfl⟩ | ⟨hs, hl⟩)
        · exact ⟨Or.inr ⟨r', rfl, hs⟩, by simp [hl]⟩
        · exact ⟨Or.inl hs, hl⟩
      · rintro ⟨hs | ⟨r', rfl, hs⟩, hl⟩
        · exact Or.inr ⟨hs, hl⟩
        · exact Or.inl ⟨r', ⟨hs, by simpa using hl⟩, rfl⟩

theorem mem_facesK (K : Cx) (k : Nat) (r : List Nat) :
    r ∈ facesK K k ↔ ∃ c ∈ K.cells, r.Sublist (cellKey c) ∧ r.length = k := by
  unfold facesK
  rw [dedup_eq, mem_dedupL, List.mem_flatMap]
  simp only [mem_subsetsK]

theorem facesK_nodup (K : Cx) (k : Nat) : (facesK K k).Nodup := by
  unfold facesK
  rw [dedup_eq]
  exact nodup_dedupL _

theorem mem_ridgeLinkEdges (K : Cx) (r : List Nat) (a b : Nat) :
    (a, b) ∈ ridgeLinkEdges K r ↔
      ∃ c ∈ K.cells, (∀ v ∈ r, v ∈ c.vs) ∧ c.vs.filter (fun v => !r.contains v) = [a, b] := by
  unfold ridgeLinkEdges
  rw [List.mem_filterMap]
  refine exists_congr fun c => and_congr Iff.rfl ?_
  by_cases hr : r.all c.vs.contains = true
  · rw [if_pos hr]
    have hr' : ∀ v ∈ r, v ∈ c.vs := by
      intro v hv
      exact List.contains_iff_mem.1 (List.all_eq_true.1 hr v hv)
    split
    · rename_i a' b' h
      rw [h]
      constructor
      · intro he
        cases he
        exact ⟨hr', rfl⟩
      · rintro ⟨_, he⟩
        cases he
        rfl
    · rename_i h
      constructor
      · intro he; cases he
      · rintro ⟨_, he⟩
        exact absurd he (h a b)
  · rw [if_neg hr]
    constructor
    · intro he; cases he
    · rintro ⟨h, _⟩
      exact absurd (List.all_eq_true.2 (fun v hv => List.contains_iff_mem.2 (h v hv))) hr

end DM
