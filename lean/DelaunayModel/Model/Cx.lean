/-
Model/Cx.lean — the stored complex as the public API shows it (cells with ordered vertex slots and
neighbour slots, vertices with an incident-cell pointer) and the executable validators that mirror
 * Level 1: `Vertex::is_valid`, `Cell::is_valid`           (src/core/vertex.rs:570, cell.rs:1121)
 * Level 2: `Tds::is_valid`                                (triangulation_data_structure.rs:4190)
 * Level 3: `Triangulation::is_valid` + `validate_at_completion` (triangulation.rs:2407-2541,
            src/topology/manifold.rs, src/topology/characteristics/{euler,validation}.rs)
Facets/ridges are sorted vertex-id lists (the Rust uses a 64-bit hash of the sorted keys; hash
collisions are outside the model).  Invariants are separate theorems (Props/C05), never subtypes.
-/
import DelaunayModel.Model.Det
namespace DM

structure Cell where
  id : Nat
  vs : List Nat                      -- vertex ids in slot order
  nb : Option (List (Option Nat))    -- neighbour cell ids per slot (`none` = no buffer)
  deriving Repr, BEq, DecidableEq, Inhabited

structure Vtx where
  id : Nat
  pt : Option DPt                    -- `none` = some coordinate is not finite
  inc : Option Nat                   -- incident-cell pointer
  deriving Repr, BEq, Inhabited

structure Cx where
  D : Nat
  verts : List Vtx
  cells : List Cell
  deriving Repr, Inhabited

/-- topology guarantee: 0 = Pseudomanifold, 1 = PLManifold, 2 = PLManifoldStrict -/
abbrev Guarantee := Nat

def insertSorted (x : Nat) : List Nat → List Nat
  | [] => [x]
  | y :: ys => if x ≤ y then x :: y :: ys else y :: insertSorted x ys

/-- insertion sort (lists have at most 7 entries; easy to reason about) -/
def sortNat : List Nat → List Nat
  | [] => []
  | x :: xs => insertSorted x (sortNat xs)

namespace Cx

def cellById (K : Cx) (i : Nat) : Option Cell := K.cells.find? (·.id == i)
def vtxById (K : Cx) (i : Nat) : Option Vtx := K.verts.find? (·.id == i)
def hasVertex (K : Cx) (i : Nat) : Bool := K.verts.any (·.id == i)

end Cx

def facetKey (c : Cell) (i : Nat) : List Nat := sortNat (c.vs.eraseIdx i)
def cellKey (c : Cell) : List Nat := sortNat c.vs

/-- all (facet key, cell id, slot) triples -/
def allFacets (K : Cx) : List (List Nat × Nat × Nat) :=
  K.cells.flatMap (fun c => (List.range c.vs.length).map (fun i => (facetKey c i, c.id, i)))

def facetDeg (K : Cx) (key : List Nat) : Nat := (allFacets K).countP (fun f => f.1 == key)

/-- the other (cell, slot) pairs carrying the same facet key -/
def facetOthers (K : Cx) (c : Cell) (i : Nat) : List (Nat × Nat) :=
  ((allFacets K).filter (fun f => f.1 == facetKey c i && !(f.2.1 == c.id && f.2.2 == i))).map (·.2)

def nbSlot (c : Cell) (i : Nat) : Option Nat :=
  match c.nb with
  | none => none
  | some l => (l.getD i none)

/-! ### Level 1 -/

def Cell.okL1 (D : Nat) (c : Cell) : Bool :=
  c.vs.length == D + 1 && decide c.vs.Nodup &&
  (match c.nb with | none => true | some l => l.length == D + 1)

def Vtx.okL1 (D : Nat) (v : Vtx) : Bool :=
  match v.pt with | none => false | some p => p.length == D

def checkL1 (K : Cx) : Bool := K.verts.all (Vtx.okL1 K.D) && K.cells.all (Cell.okL1 K.D)

/-! ### Level 2 -/

def vertsExist (K : Cx) : Bool := K.cells.all (fun c => c.vs.all K.hasVertex)

def incidentOk (K : Cx) : Bool :=
  K.verts.all (fun v => match v.inc with
    | none => true
    | some k => match K.cellById k with
      | none => false
      | some c => c.vs.contains v.id)

def noDupCells (K : Cx) : Bool := decide (K.cells.map cellKey).Nodup

def facetLe2 (K : Cx) : Bool := (allFacets K).all (fun f => facetDeg K f.1 ≤ 2)

/-- neighbour pointers are exactly the facet-sharing relation (both parts of
`validate_neighbors_with_facet_to_cells_map`) -/
def nbrSlotOk (K : Cx) (c : Cell) (i : Nat) : Bool :=
  match facetOthers K c i with
  | [] => nbSlot c i == none
  | [(c', j)] =>
    nbSlot c i == some c' &&
    (match K.cellById c' with
     | none => false
     | some n => nbSlot n j == some c.id)
  | _ => false

def nbrOk (K : Cx) : Bool :=
  K.cells.all (fun c =>
    (match c.nb with | none => true | some l => l.length == K.D + 1) &&
    (List.range c.vs.length).all (fun i => nbrSlotOk K c i))

/-- index in `n` of the unique vertex not in the facet of `c` opposite slot `i` -/
def mirrorIdx (c : Cell) (i : Nat) (n : Cell) : Option Nat :=
  let facet := c.vs.eraseIdx i
  match (List.range n.vs.length).filter (fun j => !(facet.contains (n.vs.getD j 0))) with
  | [j] => some j
  | _ => none

/-- number of inversions of the positions of `src` entries inside `tgt` is odd -/
def inversionsOdd (pos : List Nat) : Bool :=
  let rec go : List Nat → Bool
    | [] => false
    | p :: rest => xor ((rest.countP (fun q => q < p)) % 2 == 1) (go rest)
  go pos

def permOdd (src tgt : List Nat) : Option Bool :=
  if src.length != tgt.length then none else
  match src.mapM (fun v => tgt.idxOf? v) with
  | none => none
  | some pos => if decide pos.Nodup then some (inversionsOdd pos) else none

def coherentSlot (K : Cx) (c : Cell) (i : Nat) : Bool :=
  match nbSlot c i with
  | none => true
  | some k =>
    match K.cellById k with
    | none => false
    | some n =>
      match mirrorIdx c i n with
      | none => false
      | some j =>
        nbSlot n j == some c.id &&
        (match permOdd (c.vs.eraseIdx i) (n.vs.eraseIdx j) with
         | none => false
         | some odd => odd == ((i + j) % 2 == 0))

def coherent (K : Cx) : Bool :=
  K.cells.all (fun c => match c.nb with
    | none => true
    | some _ => (List.range c.vs.length).all (coherentSlot K c))

def idsUnique (K : Cx) : Bool :=
  decide (K.verts.map (·.id)).Nodup && decide (K.cells.map (·.id)).Nodup

def checkL2 (K : Cx) : Bool :=
  idsUnique K && vertsExist K && incidentOk K && noDupCells K && facetLe2 K && nbrOk K && coherent K

/-! ### Level 3 -/

/-- BFS over neighbour pointers with fuel = number of cells (each round adds at least one) -/
def reachStep (K : Cx) (seen : List Nat) : List Nat :=
  K.cells.foldl (fun acc c =>
    if acc.contains c.id then acc else
    -- c joins if some already-seen cell points to it
    if K.cells.any (fun s => seen.contains s.id &&
        (match s.nb with | none => false | some l => l.contains (some c.id))) then c.id :: acc else acc) seen

def reachFuel (K : Cx) : Nat → List Nat → List Nat
  | 0, seen => seen
  | f+1, seen =>
    let s' := reachStep K seen
    if s'.length == seen.length then seen else reachFuel K f s'

def connected (K : Cx) : Bool :=
  match K.cells with
  | [] => true
  | c :: _ => (reachFuel K K.cells.length [c.id]).length == K.cells.length

def facetDegOk (K : Cx) : Bool := (allFacets K).all (fun f => let d := facetDeg K f.1; d == 1 || d == 2)

def boundaryFacets (K : Cx) : List (List Nat) :=
  ((allFacets K).filter (fun f => facetDeg K f.1 == 1)).map (·.1)

def dropEach (l : List Nat) : List (List Nat) := (List.range l.length).map (fun i => l.eraseIdx i)

def closedBoundary (K : Cx) : Bool :=
  if K.D < 2 then true else
  let ridges := (boundaryFacets K).flatMap dropEach
  ridges.all (fun r => ridges.count r == 2)

/-- sorted `k`-subsets of a sorted list -/
def subsetsK : Nat → List Nat → List (List Nat)
  | 0, _ => [[]]
  | _+1, [] => []
  | k+1, x :: xs => (subsetsK k xs).map (x :: ·) ++ subsetsK (k+1) xs

def dedup (l : List (List Nat)) : List (List Nat) := l.foldr (fun x acc => if acc.contains x then acc else x :: acc) []

/-- all distinct faces with `k` vertices -/
def facesK (K : Cx) (k : Nat) : List (List Nat) := dedup (K.cells.flatMap (fun c => subsetsK k (cellKey c)))

/-- undirected simple graph from an edge list: manifold-1 test (single path or single cycle) -/
def graphVerts (es : List (Nat × Nat)) : List Nat :=
  (es.flatMap (fun e => [e.1, e.2])).foldr (fun x acc => if acc.contains x then acc else x :: acc) []

def normEdge (e : Nat × Nat) : Nat × Nat := if e.1 ≤ e.2 then e else (e.2, e.1)

def dedupEdges (es : List (Nat × Nat)) : List (Nat × Nat) :=
  (es.map normEdge).foldr (fun x acc => if acc.contains x then acc else x :: acc) []

def degIn (es : List (Nat × Nat)) (v : Nat) : Nat := es.countP (fun e => e.1 == v || e.2 == v)

def graphReach (es : List (Nat × Nat)) : Nat → List Nat → List Nat
  | 0, seen => seen
  | f+1, seen =>
    let s' := es.foldl (fun acc e =>
      let acc := if acc.contains e.1 && !acc.contains e.2 then e.2 :: acc else acc
      if acc.contains e.2 && !acc.contains e.1 then e.1 :: acc else acc) seen
    if s'.length == seen.length then seen else graphReach es f s'

def graphConnected (es : List (Nat × Nat)) : Bool :=
  match graphVerts es with
  | [] => true
  | v :: vs => (graphReach es (vs.length + 1) [v]).length == vs.length + 1

/-- `validate_ridge_link_graph`: connected, max degree ≤ 2, number of degree-1 vertices ∈ {0,2} -/
def linkGraphOk (es0 : List (Nat × Nat)) (needDeg1 : Option Nat := none) : Bool :=
  let es := dedupEdges es0
  let vs := graphVerts es
  let d1 := vs.countP (fun v => degIn es v == 1)
  graphConnected es && vs.all (fun v => degIn es v ≤ 2) &&
  (match needDeg1 with | none => d1 == 0 || d1 == 2 | some k => d1 == k)

/-- ridges = faces with D-1 vertices; star = cells containing it; link edge = the two other vertices -/
def ridgeLinkEdges (K : Cx) (r : List Nat) : List (Nat × Nat) :=
  K.cells.filterMap (fun c =>
    if r.all c.vs.contains then
      match c.vs.filter (fun v => !r.contains v) with
      | [a, b] => some (a, b)
      | _ => none
    else none)

def ridgeLinksOk (K : Cx) : Bool :=
  if K.D < 2 then true else
  if K.cells.isEmpty then true else
  (facesK K (K.D - 1)).all (fun r => linkGraphOk (ridgeLinkEdges K r))

def boundaryVerts (K : Cx) : List Nat := (boundaryFacets K).flatMap id

/-- link simplices of vertex `v`: each star cell minus `v` (slot order kept) -/
def vertexLink (K : Cx) (v : Nat) : List (List Nat) :=
  K.cells.filterMap (fun c => if c.vs.contains v then some (c.vs.filter (· != v)) else none)

def linkSkeletonConnected (link : List (List Nat)) : Bool :=
  let es := link.flatMap (fun s => (subsetsK 2 (sortNat s)).filterMap (fun e => match e with | [a, b] => some (a, b) | _ => none))
  let vs := (link.flatMap id).foldr (fun x acc => if acc.contains x then acc else x :: acc) []
  match vs with
  | [] => true
  | v :: rest => (graphReach (dedupEdges es) (rest.length + 1) [v]).length == rest.length + 1

/-- `validate_link_facets_and_boundary` -/
def linkFacetsOk (D : Nat) (link : List (List Nat)) (interior : Bool) : Bool :=
  if !(link.all (·.length == D)) then false else
  let facets := link.flatMap (fun s => dropEach (sortNat s))
  let degOk := facets.all (fun f => let d := facets.count f; d == 1 || d == 2)
  let bfacets := dedup (facets.filter (fun f => facets.count f == 1))
  if !degOk then false else
  if interior && !bfacets.isEmpty then false else
  let ridges := bfacets.flatMap dropEach
  ridges.all (fun r => ridges.count r == 2)

def surfaceChi (tris : List (List Nat)) : Int :=
  let ts := tris.filter (·.length == 3)
  let vs := (ts.flatMap id).foldr (fun x acc => if acc.contains x then acc else x :: acc) []
  let es := dedupEdges (ts.flatMap (fun t => match t with | [a, b, c] => [(a, b), (b, c), (c, a)] | _ => []))
  (vs.length : Int) - es.length + ts.length

def surfaceBoundaryComponents (tris : List (List Nat)) : Nat :=
  let ts := tris.filter (·.length == 3)
  let all := (ts.flatMap (fun t => match t with | [a, b, c] => [(a, b), (b, c), (c, a)] | _ => [])).map normEdge
  let bes := dedupEdges (all.filter (fun e => all.count e == 1))
  let vs := graphVerts bes
  -- count components by repeatedly removing the component of the first remaining vertex
  let rec comps (fuel : Nat) (rem : List Nat) : Nat :=
    match fuel, rem with
    | 0, _ => 0
    | _, [] => 0
    | f+1, v :: _ =>
      let comp := graphReach bes (vs.length + 1) [v]
      1 + comps f (rem.filter (fun x => !comp.contains x))
  comps (vs.length + 1) vs

def vertexLinkOk (K : Cx) (v : Nat) : Bool :=
  let interior := !(boundaryVerts K).contains v
  let link := vertexLink K v
  if link.isEmpty then false else
  if K.D == 1 then
    let n := ((link.flatMap id).foldr (fun x acc => if acc.contains x then acc else x :: acc) []).length
    if interior then n == 2 else n == 1
  else if K.D == 2 then
    if !(link.all (·.length == 2)) then false else
    linkGraphOk (link.filterMap (fun e => match e with | [a, b] => some (a, b) | _ => none))
      (some (if interior then 0 else 2))
  else
    linkSkeletonConnected link && linkFacetsOk K.D link interior &&
    (if K.D == 3 then
       (if interior then surfaceChi link == 2 && surfaceBoundaryComponents link == 0
        else surfaceChi link == 1 && surfaceBoundaryComponents link == 1)
     else true)

def vertexLinksOk (K : Cx) : Bool :=
  if K.cells.isEmpty then true else K.verts.all (fun v => vertexLinkOk K v.id)

def noIsolated (K : Cx) : Bool := K.verts.all (fun v => K.cells.any (·.vs.contains v.id))

/-- f-vector as `count_simplices` computes it: f₀ = stored vertices, f_D = stored cells,
f_{D-1} = distinct facet keys, intermediate = distinct faces -/
def fVector (K : Cx) : List Nat :=
  if K.cells.isEmpty then (K.verts.length :: List.replicate K.D 0).take (K.D + 1) |>.set K.D 0
  else (List.range (K.D + 1)).map (fun k =>
    if k == 0 then K.verts.length
    else if k == K.D then K.cells.length
    else (facesK K (k + 1)).length)

def eulerChi (f : List Nat) : Int :=
  (f.zipIdx.map (fun (n, k) => if k % 2 == 0 then (n : Int) else -(n : Int))).foldl (· + ·) 0

/-- expected χ by the classification `validate_triangulation_euler…` uses -/
def expectedChi (K : Cx) : Int :=
  if K.cells.isEmpty then 0
  else if K.cells.length == 1 then 1
  else if !(boundaryFacets K).isEmpty then 1
  else 1 + (if K.D % 2 == 0 then 1 else -1)

def eulerOk (K : Cx) : Bool := eulerChi (fVector K) == expectedChi K

/-- exact integer coordinates of a cell's vertices in slot order (`none` if any is missing/non-finite) -/
def cellPts (K : Cx) (emin : Int) (c : Cell) : Option (List IPt) :=
  c.vs.mapM (fun v => (K.vtxById v).bind (fun x => x.pt.map (·.map (·.scaled emin))))

def allPts (K : Cx) : List DPt := K.verts.filterMap (·.pt)

/-- every cell positively oriented (exact) -/
def geomOrientOk (K : Cx) : Bool :=
  let emin := minExp (allPts K)
  K.cells.all (fun c => match cellPts K emin c with
    | none => false
    | some s => orientSign s == 1)

/-- `Triangulation::is_valid` (+ `validate_at_completion`) at guarantee `g`; `completion` says
whether the completion-time vertex-link check applies (cumulative `validate`). -/
def checkL3 (K : Cx) (g : Guarantee) (completion : Bool) : Bool :=
  connected K && facetDegOk K && closedBoundary K &&
  (if g ≥ 1 then ridgeLinksOk K else true) &&
  (if g ≥ 2 || (g ≥ 1 && completion) then vertexLinksOk K else true) &&
  noIsolated K && eulerOk K && geomOrientOk K

end DM
