/-
Lemmas/DetermAux.lean — helper lemmas for Props/C14 (listing-order independence).

 * normalised dyadics (`DyNorm`: mantissa odd, or the canonical zero `⟨0, 0⟩`) are compared
   faithfully by `cmpQ ∘ Q.ofDy`: comparison-equality is equality (`ofDy_cmp_eq`, `cmpPt_eq_norm`);
   `Dy.norm` with enough fuel produces them (`norm_dyNorm`), hence every finite `F64.ofBits`
   (`ofBits_dyNorm`);
 * value sequence of the insertion sort (`valOf`, `vle`): sorted, so it is determined by the
   value multiset (`sortKeyed_values_eq`);
 * the folds `qMin` / `qMax` pick THE least / greatest element, so they are permutation invariant
   on lists where comparison-equality is equality (`qMin_perm`, `qMax_perm`);
 * `List.lookup` under unique keys is permutation invariant (`lookup_perm`).

Core only.
-/
import DelaunayModel.Lemmas.OrderAux
import DelaunayModel.Lemmas.CxAux
import DelaunayModel.Model.Certify
namespace DM.DetermAux

open DM DM.Order DM.OrderAux

/-! ### normalised dyadics -/

/-- normal form of a dyadic: the canonical zero, or an odd mantissa -/
def DyNorm (d : Dy) : Prop := (d.m = 0 ∧ d.e = 0) ∨ d.m % 2 = 1

/-- all coordinates of a point are in normal form -/
def PtNorm (p : DPt) : Prop := ∀ d ∈ p, DyNorm d

instance (d : Dy) : Decidable (DyNorm d) := by unfold DyNorm; infer_instance
instance (p : DPt) : Decidable (PtNorm p) := by unfold PtNorm; infer_instance

theorem dyNorm_zero : DyNorm Dy.zero := Or.inl ⟨rfl, rfl⟩

theorem two_pow_ne_zero (k : Nat) : (2 : Int) ^ k ≠ 0 := Int.pow_ne_zero (by decide)

/-- odd · 2^j = odd · 2^k forces j = k and equal odd parts -/
theorem odd_pow_eq {x y : Int} (hx : x % 2 = 1) (hy : y % 2 = 1) :
    ∀ (j k : Nat), x * (2 : Int) ^ j = y * (2 : Int) ^ k → j = k ∧ x = y := by
  intro j
  induction j with
  | zero =>
    intro k h
    cases k with
    | zero => exact ⟨rfl, by simpa using h⟩
    | succ k =>
      exfalso
      rw [Int.pow_succ, ← Int.mul_assoc] at h
      generalize y * (2 : Int) ^ k = w at h
      simp only [Int.pow_zero, Int.mul_one] at h
      omega
  | succ j ih =>
    intro k h
    cases k with
    | zero =>
      exfalso
      rw [Int.pow_succ, ← Int.mul_assoc] at h
      generalize x * (2 : Int) ^ j = w at h
      simp only [Int.pow_zero, Int.mul_one] at h
      omega
    | succ k =>
      rw [Int.pow_succ, Int.pow_succ, ← Int.mul_assoc, ← Int.mul_assoc] at h
      have h' : x * (2 : Int) ^ j = y * (2 : Int) ^ k := by
        generalize x * (2 : Int) ^ j = u at h
        generalize y * (2 : Int) ^ k = w at h
        omega
      obtain ⟨e1, e2⟩ := ih k h'
      exact ⟨by omega, e2⟩

/-- both branches of `Q.ofDy` in one formula -/
theorem ofDy_eq (d : Dy) : Q.ofDy d = ⟨d.m * (2 : Int) ^ d.e.toNat, 2 ^ (-d.e).toNat⟩ := by
  unfold Q.ofDy pow2
  split
  · rename_i h
    have : (-d.e).toNat = 0 := by omega
    rw [this]
  · rename_i h
    have : d.e.toNat = 0 := by omega
    rw [this, Int.pow_zero, Int.mul_one]

theorem cmpQ_eq_iff (a b : Q) : cmpQ a b = .eq ↔ a.num * b.den = b.num * a.den := by
  unfold cmpQ Q.lt
  constructor
  · intro h
    split at h
    · cases h
    · split at h
      · cases h
      · rename_i h1 h2
        simp only [decide_eq_true_eq, Int.not_lt] at h1 h2
        exact Int.le_antisymm h2 h1
  · intro h
    rw [h]
    simp

/-- on normalised dyadics the rational comparison is faithful -/
theorem ofDy_cmp_eq {a b : Dy} (ha : DyNorm a) (hb : DyNorm b)
    (h : cmpQ (Q.ofDy a) (Q.ofDy b) = .eq) : a = b := by
  rw [cmpQ_eq_iff, ofDy_eq, ofDy_eq] at h
  simp only [Int.natCast_pow, Int.cast_ofNat_Int] at h
  -- h : a.m * 2^a.e⁺ * 2^b.e⁻ = b.m * 2^b.e⁺ * 2^a.e⁻
  rw [Int.mul_assoc, Int.mul_assoc, ← Int.pow_add, ← Int.pow_add] at h
  obtain ⟨am, ae⟩ := a
  obtain ⟨bm, be⟩ := b
  simp only at h
  rcases ha with ⟨ha1, ha2⟩ | ha
  · simp only at ha1 ha2
    subst ha1 ha2
    rw [Int.zero_mul] at h
    have hbm : bm = 0 := by
      rcases Int.mul_eq_zero.1 h.symm with h0 | h0
      · exact h0
      · exact absurd h0 (two_pow_ne_zero _)
    rcases hb with ⟨_, hb2⟩ | hb
    · simp only at hb2
      subst hbm hb2
      rfl
    · simp only at hb
      omega
  · rcases hb with ⟨hb1, hb2⟩ | hb
    · simp only at hb1 hb2
      subst hb1 hb2
      rw [Int.zero_mul] at h
      have ham : am = 0 := by
        rcases Int.mul_eq_zero.1 h with h0 | h0
        · exact h0
        · exact absurd h0 (two_pow_ne_zero _)
      simp only at ha
      omega
    · simp only at ha hb
      obtain ⟨e1, e2⟩ := odd_pow_eq ha hb _ _ h
      subst e2
      have : ae = be := by omega
      subst this
      rfl

theorem then_eq_eq {o p : Ordering} (h : o.then p = .eq) : o = .eq ∧ p = .eq := by
  revert h; cases o <;> cases p <;> decide

/-- `cmpPt` is faithful on normalised points of one length -/
theorem cmpPt_eq_norm {p q : DPt} (hl : p.length = q.length) (hp : PtNorm p) (hq : PtNorm q)
    (h : cmpPt p q = .eq) : p = q := by
  induction p generalizing q with
  | nil =>
    cases q with
    | nil => rfl
    | cons y ys => simp at hl
  | cons x xs ih =>
    cases q with
    | nil => simp at hl
    | cons y ys =>
      rw [cmpPt_cons] at h
      obtain ⟨h1, h2⟩ := then_eq_eq h
      have exy : x = y :=
        ofDy_cmp_eq (hp x (List.mem_cons_self ..)) (hq y (List.mem_cons_self ..)) h1
      have exs : xs = ys :=
        ih (by simpa using hl) (fun d hd => hp d (List.mem_cons_of_mem _ hd))
          (fun d hd => hq d (List.mem_cons_of_mem _ hd)) h2
      rw [exy, exs]

theorem cmpNat_eq_eq {a b : Nat} (h : cmpNat a b = .eq) : a = b := by
  rcases cmpNat_cases a b with ⟨_, e⟩ | ⟨e, _⟩ | ⟨_, e⟩
  · rw [e] at h; cases h
  · exact e
  · rw [e] at h; cases h

/-! ### `Dy.norm` produces normal forms -/

theorem norm_dyNorm_aux (fuel : Nat) : ∀ (d : Dy), d.m ≠ 0 → d.m.natAbs < 2 ^ fuel →
    (Dy.norm d fuel).m % 2 = 1 := by
  induction fuel with
  | zero =>
    intro d h0 hlt
    exfalso
    simp only [Nat.pow_zero] at hlt
    omega
  | succ f ih =>
    intro d h0 hlt
    unfold Dy.norm
    have hm : (d.m == 0) = false := by simpa using h0
    simp only [hm, Bool.false_eq_true, if_false]
    split
    · rename_i hev
      have hev' : d.m % 2 = 0 := by simpa using hev
      apply ih
      · simp only
        omega
      · simp only
        rw [Nat.pow_succ] at hlt
        omega
    · rename_i hod
      have hod' : ¬ d.m % 2 = 0 := by simpa using hod
      omega

/-- `Dy.norm` with fuel exceeding the bit length of the mantissa gives a normal form -/
theorem norm_dyNorm (d : Dy) (fuel : Nat) (hf : 0 < fuel) (hlt : d.m.natAbs < 2 ^ fuel) :
    DyNorm (Dy.norm d fuel) := by
  by_cases h0 : d.m = 0
  · left
    cases fuel with
    | zero => omega
    | succ f =>
      unfold Dy.norm
      simp [h0]
  · exact Or.inr (norm_dyNorm_aux fuel d h0 hlt)

/-- every finite decoded f64 is a normalised dyadic (`±0.0` both decode to the canonical zero) -/
theorem ofBits_dyNorm (b : Nat) (d : Dy) (h : F64.ofBits b = .fin d) : DyNorm d := by
  unfold F64.ofBits at h
  simp only at h
  split at h
  · split at h <;> cases h
  · injection h with h
    subst h
    apply norm_dyNorm
    · decide
    · have hfr : b % 2 ^ 52 < 2 ^ 52 := Nat.mod_lt _ (by decide)
      generalize b % 2 ^ 52 = fr at hfr
      simp only
      split <;> split <;> omega

/-! ### the value sequence of the insertion sort -/

/-- the value of a keyed vertex: key and coordinates, without the input index -/
def valOf (p : Nat × OV) : Nat × DPt := (p.1, p.2.pt)

/-- three-way comparison of values -/
def vcmp (a b : Nat × DPt) : Ordering := (cmpNat a.1 b.1).then (cmpPt a.2 b.2)

/-- `≤` on values -/
def vle (a b : Nat × DPt) : Prop := vcmp a b ≠ .gt

theorem vle_of_cmpKeyed {a b : Nat × OV} (h : cmpKeyed a b ≠ .gt) : vle (valOf a) (valOf b) := by
  rw [cmpKeyed_eq] at h
  unfold vle vcmp valOf
  revert h
  cases cmpNat a.1 b.1 <;> cases cmpPt a.2.pt b.2.pt <;> cases cmpNat a.2.idx b.2.idx <;> decide

theorem vcmp_swap (a b : Nat × DPt) : vcmp a b = (vcmp b a).swap := by
  unfold vcmp
  rw [swap_then, ← cmpNat_swap, ← cmpPt_swap]

theorem vcmp_eq_of_vle {a b : Nat × DPt} (h1 : vle a b) (h2 : vle b a) : vcmp a b = .eq := by
  unfold vle at h1 h2
  rw [vcmp_swap a b] at h1 ⊢
  revert h1 h2
  cases vcmp b a <;> simp [Ordering.swap]

theorem sortKeyed_values_sorted {n : Nat} (l : List (Nat × OV)) (hl : ∀ p ∈ l, p.2.pt.length = n) :
    ((sortKeyed l).map valOf).Pairwise vle := by
  rw [List.pairwise_map]
  exact (sortKeyed_sorted_uniform' l hl).imp vle_of_cmpKeyed

/-- two keyed lists with the same value multiset have the same sorted value sequence, provided
comparison-equality of values is equality across the lists -/
theorem sortKeyed_values_eq {n : Nat} (l₁ l₂ : List (Nat × OV))
    (hp : (l₁.map valOf).Perm (l₂.map valOf))
    (hn₁ : ∀ p ∈ l₁, p.2.pt.length = n) (hn₂ : ∀ p ∈ l₂, p.2.pt.length = n)
    (hEq : ∀ a ∈ l₁, ∀ b ∈ l₂, cmpNat a.1 b.1 = .eq → cmpPt a.2.pt b.2.pt = .eq →
      valOf a = valOf b) :
    (sortKeyed l₁).map valOf = (sortKeyed l₂).map valOf := by
  refine List.Perm.eq_of_pairwise (le := vle) ?_ (sortKeyed_values_sorted l₁ hn₁)
    (sortKeyed_values_sorted l₂ hn₂) ?_
  · intro a b ha hb h1 h2
    obtain ⟨a', ha', rfl⟩ := List.mem_map.1 ha
    obtain ⟨b', hb', rfl⟩ := List.mem_map.1 hb
    have he := vcmp_eq_of_vle h1 h2
    obtain ⟨e1, e2⟩ := then_eq_eq he
    exact hEq a' ((sortKeyed_perm l₁).mem_iff.1 ha') b' ((sortKeyed_perm l₂).mem_iff.1 hb') e1 e2
  · exact (((sortKeyed_perm l₁).map valOf).trans hp).trans ((sortKeyed_perm l₂).map valOf).symm

/-! ### `qMin` / `qMax` are permutation invariant -/

/-- the selection fold shared by `qMin` (`r = Q.lt`) and `qMax` (`r x a = Q.lt a x`) -/
def sel (r : Q → Q → Bool) (l : List Q) (a : Q) : Q := l.foldl (fun a x => if r x a then x else a) a

theorem sel_spec (r : Q → Q → Bool) (P : Q → Prop)
    (hasym : ∀ a b, r a b = true → r b a = false)
    (htr : ∀ a b c, P b → r a b = false → r b c = false → r a c = false)
    (l : List Q) : ∀ (a : Q), P a → (∀ x ∈ l, P x) →
      (sel r l a = a ∨ sel r l a ∈ l) ∧ r a (sel r l a) = false ∧ ∀ x ∈ l, r x (sel r l a) = false := by
  have hirr : ∀ a, r a a = false := by
    intro a
    cases h : r a a
    · rfl
    · have := hasym a a h
      rw [h] at this
      cases this
  induction l with
  | nil =>
    intro a _ _
    exact ⟨Or.inl rfl, hirr a, fun x hx => by cases hx⟩
  | cons x xs ih =>
    intro a ha hP
    have hx : P x := hP x (List.mem_cons_self ..)
    have hxs : ∀ y ∈ xs, P y := fun y hy => hP y (List.mem_cons_of_mem _ hy)
    have hunf : sel r (x :: xs) a = sel r xs (if r x a then x else a) := rfl
    rw [hunf]
    cases hxa : r x a
    · -- keep `a`
      simp only [Bool.false_eq_true, if_false]
      obtain ⟨i1, i2, i3⟩ := ih a ha hxs
      refine ⟨?_, i2, ?_⟩
      · rcases i1 with h | h
        · exact Or.inl h
        · exact Or.inr (List.mem_cons_of_mem _ h)
      · intro y hy
        rcases List.mem_cons.1 hy with rfl | hy'
        · exact htr _ a _ ha hxa i2
        · exact i3 y hy'
    · -- switch to `x`
      simp only [if_true]
      obtain ⟨i1, i2, i3⟩ := ih x hx hxs
      refine ⟨Or.inr ?_, ?_, ?_⟩
      · rcases i1 with h | h
        · rw [h]; exact List.mem_cons_self ..
        · exact List.mem_cons_of_mem _ h
      · exact htr a x _ hx (hasym x a hxa) i2
      · intro y hy
        rcases List.mem_cons.1 hy with rfl | hy'
        · exact i2
        · exact i3 y hy'

theorem sel_perm (r : Q → Q → Bool) (P : Q → Prop)
    (hasym : ∀ a b, r a b = true → r b a = false)
    (htr : ∀ a b c, P b → r a b = false → r b c = false → r a c = false)
    {l₁ l₂ : List Q} (hp : l₁.Perm l₂) (hP : ∀ x ∈ l₁, P x)
    (hanti : ∀ a ∈ l₁, ∀ b ∈ l₁, r a b = false → r b a = false → a = b) (d : Q) :
    sel r l₁ (l₁.headD d) = sel r l₂ (l₂.headD d) := by
  cases l₁ with
  | nil => rw [hp.symm.eq_nil]
  | cons h₁ t₁ =>
    cases l₂ with
    | nil => exact absurd hp.eq_nil (by simp)
    | cons h₂ t₂ =>
      have hP₂ : ∀ x ∈ h₂ :: t₂, P x := fun x hx => hP x (hp.mem_iff.2 hx)
      simp only [List.headD_cons]
      obtain ⟨a1, _, a3⟩ := sel_spec r P hasym htr (h₁ :: t₁) h₁ (hP h₁ (List.mem_cons_self ..)) hP
      obtain ⟨b1, _, b3⟩ := sel_spec r P hasym htr (h₂ :: t₂) h₂ (hP₂ h₂ (List.mem_cons_self ..)) hP₂
      have m1 : sel r (h₁ :: t₁) h₁ ∈ h₁ :: t₁ := by
        rcases a1 with h | h
        · rw [h]; exact List.mem_cons_self ..
        · exact h
      have m2 : sel r (h₂ :: t₂) h₂ ∈ h₂ :: t₂ := by
        rcases b1 with h | h
        · rw [h]; exact List.mem_cons_self ..
        · exact h
      have m2' := hp.mem_iff.2 m2
      exact hanti _ m1 _ m2' (b3 _ (hp.mem_iff.1 m1)) (a3 _ m2')

theorem qMin_eq_sel (l : List Q) : qMin l = sel Q.lt l (l.headD (Q.ofInt 0)) := rfl
theorem qMax_eq_sel (l : List Q) : qMax l = sel (fun x a => Q.lt a x) l (l.headD (Q.ofInt 0)) := rfl

theorem qlt_asymm' (a b : Q) (h : Q.lt a b = true) : Q.lt b a = false := by
  have := qlt_asymm a b
  rw [h] at this
  simpa using this

theorem qlt_le_trans {a b c : Q} (hb : 0 < b.den) (h1 : Q.lt a b = false) (h2 : Q.lt b c = false) :
    Q.lt a c = false := by
  simp only [Q.lt, decide_eq_false_iff_not, Int.not_lt] at *
  have ha' : (0 : Int) ≤ (a.den : Int) := Int.natCast_nonneg _
  have hc' : (0 : Int) ≤ (c.den : Int) := Int.natCast_nonneg _
  have hb' : (0 : Int) < (b.den : Int) := by exact_mod_cast hb
  have e1 := Int.mul_le_mul_of_nonneg_right h2 ha'
  have e2 := Int.mul_le_mul_of_nonneg_right h1 hc'
  have e3 : c.num * ↑a.den * ↑b.den ≤ a.num * ↑c.den * ↑b.den := by
    have t1 : c.num * ↑a.den * ↑b.den = c.num * ↑b.den * ↑a.den := by ac_rfl
    have t2 : a.num * ↑c.den * ↑b.den = a.num * ↑b.den * ↑c.den := by ac_rfl
    have t3 : b.num * ↑c.den * ↑a.den = b.num * ↑a.den * ↑c.den := by ac_rfl
    rw [t1, t2]
    exact Int.le_trans e1 (t3 ▸ e2)
  exact Int.le_of_mul_le_mul_right e3 hb'

/-- `qMin` does not depend on the listing order, on lists with positive denominators where
comparison-equality is equality -/
theorem qMin_perm {l₁ l₂ : List Q} (hp : l₁.Perm l₂) (hpos : ∀ x ∈ l₁, 0 < x.den)
    (hanti : ∀ a ∈ l₁, ∀ b ∈ l₁, Q.lt a b = false → Q.lt b a = false → a = b) :
    qMin l₁ = qMin l₂ := by
  rw [qMin_eq_sel, qMin_eq_sel]
  exact sel_perm Q.lt (fun q => 0 < q.den) qlt_asymm' (fun a b c hb => qlt_le_trans hb) hp hpos hanti _

theorem qMax_perm {l₁ l₂ : List Q} (hp : l₁.Perm l₂) (hpos : ∀ x ∈ l₁, 0 < x.den)
    (hanti : ∀ a ∈ l₁, ∀ b ∈ l₁, Q.lt a b = false → Q.lt b a = false → a = b) :
    qMax l₁ = qMax l₂ := by
  rw [qMax_eq_sel, qMax_eq_sel]
  exact sel_perm (fun x a => Q.lt a x) (fun q => 0 < q.den) (fun a b h => qlt_asymm' b a h)
    (fun a b c hb h1 h2 => qlt_le_trans hb h2 h1) hp hpos
    (fun a ha b hb h1 h2 => hanti a ha b hb h2 h1) _

/-- the precondition of `qMin_perm` / `qMax_perm` for images of normalised dyadics -/
theorem ofDy_list_ok (ds : List Dy) (hn : ∀ d ∈ ds, DyNorm d) :
    (∀ x ∈ ds.map Q.ofDy, 0 < x.den) ∧
    (∀ a ∈ ds.map Q.ofDy, ∀ b ∈ ds.map Q.ofDy, Q.lt a b = false → Q.lt b a = false → a = b) := by
  constructor
  · intro x hx
    obtain ⟨d, _, rfl⟩ := List.mem_map.1 hx
    exact ofDy_den_pos d
  · intro a ha b hb h1 h2
    obtain ⟨d, hd, rfl⟩ := List.mem_map.1 ha
    obtain ⟨d', hd', rfl⟩ := List.mem_map.1 hb
    have : cmpQ (Q.ofDy d) (Q.ofDy d') = .eq := by
      unfold cmpQ
      rw [h1, h2]
      rfl
    rw [ofDy_cmp_eq (hn d hd) (hn d' hd') this]

/-! ### `List.lookup` under unique keys -/

theorem lookup_eq_none_iff {β : Type} (l : List (Nat × β)) (i : Nat) :
    l.lookup i = none ↔ i ∉ l.map (·.1) := by
  induction l with
  | nil => simp
  | cons x xs ih =>
    obtain ⟨k, b⟩ := x
    rw [List.lookup_cons]
    by_cases h : i = k
    · subst h
      simp
    · have : (i == k) = false := by simpa using h
      rw [this]
      simp only [List.map_cons, List.mem_cons, not_or]
      rw [ih]
      exact ⟨fun h' => ⟨h, h'⟩, fun h' => h'.2⟩

theorem lookup_eq_some_iff {β : Type} (l : List (Nat × β)) (hnd : (l.map (·.1)).Nodup) (i : Nat)
    (b : β) : l.lookup i = some b ↔ (i, b) ∈ l := by
  induction l with
  | nil => simp
  | cons x xs ih =>
    obtain ⟨k, c⟩ := x
    rw [List.map_cons, List.nodup_cons] at hnd
    rw [List.lookup_cons]
    by_cases h : i = k
    · subst h
      simp only [BEq.rfl, List.mem_cons, Prod.mk.injEq, true_and, Option.some.injEq]
      constructor
      · intro e; exact Or.inl e.symm
      · intro e
        rcases e with e | e
        · exact e.symm
        · exact absurd (List.mem_map.2 ⟨(i, b), e, rfl⟩) hnd.1
    · have : (i == k) = false := by simpa using h
      rw [this]
      simp only [List.mem_cons, Prod.mk.injEq]
      rw [ih hnd.2]
      constructor
      · intro e; exact Or.inr e
      · intro e
        rcases e with ⟨e, _⟩ | e
        · exact absurd e h
        · exact e

/-- with unique keys, `lookup` depends only on the set of pairs -/
theorem lookup_perm {β : Type} {l l' : List (Nat × β)} (hp : l.Perm l')
    (hnd : (l.map (·.1)).Nodup) (i : Nat) : l.lookup i = l'.lookup i := by
  have hnd' : (l'.map (·.1)).Nodup := (hp.map (·.1)).nodup_iff.1 hnd
  cases h : l.lookup i with
  | none =>
    symm
    rw [lookup_eq_none_iff] at h ⊢
    intro hm
    exact h ((hp.map (·.1)).mem_iff.2 hm)
  | some b =>
    symm
    rw [lookup_eq_some_iff l hnd] at h
    rw [lookup_eq_some_iff l' hnd']
    exact hp.mem_iff.1 h

end DM.DetermAux
