use delaunay::prelude::*;
fn main() {
    let v2 = [vertex!([0.0, 0.0]), vertex!([1.0, 0.0]), vertex!([0.0, 1.0]), vertex!([1.0, 1.5])];
    let dt: DelaunayTriangulation<_, (), (), 2> = DelaunayTriangulation::new(&v2).unwrap();
    println!("{}", serde_json::to_string_pretty(&dt).unwrap());
}
