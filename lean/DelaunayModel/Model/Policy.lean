/-
Model/Policy.lean — decision tables (pure functions of small enums), mirrored one-to-one from
  src/core/operations.rs                  TopologicalOperation, RepairDecision, SuspicionFlags
  src/core/triangulation.rs:526-700       ValidationPolicy, TopologyGuarantee
  src/core/delaunay_triangulation.rs:5538-5720  DelaunayRepairPolicy, DelaunayCheckPolicy
  src/core/triangulation.rs:3345-3420     validate_after_insertion / validate_required_topology_links
-/
namespace DM.Policy

inductive Guarantee where
  | pseudomanifold | plManifold | plManifoldStrict
  deriving Repr, DecidableEq

inductive VPolicy where
  | never | onSuspicion | always | debugOnly
  deriving Repr, DecidableEq

inductive Operation where
  | insertVertex | deleteVertex | facetFlip | cavityFlip
  deriving Repr, DecidableEq

inductive RepairPolicy where
  | never | everyInsertion | everyN (n : Nat)     -- n ≥ 1 (NonZeroUsize)
  deriving Repr, DecidableEq

inductive CheckPolicy where
  | endOnly | everyN (n : Nat)
  deriving Repr, DecidableEq

def Guarantee.requiresRidgeLinks : Guarantee → Bool
  | .pseudomanifold => false | _ => true
def Guarantee.requiresVertexLinksDuringInsertion : Guarantee → Bool
  | .plManifoldStrict => true | _ => false
def Guarantee.requiresVertexLinksAtCompletion : Guarantee → Bool
  | .pseudomanifold => false | _ => true
/-- `is_compatible_with_policy` -/
def Guarantee.compatibleWith : Guarantee → VPolicy → Bool
  | .pseudomanifold, _ => true
  | _, .never => false
  | _, _ => true

/-- `ValidationPolicy::should_validate` (`debug` = `cfg!(debug_assertions)`) -/
def VPolicy.shouldValidate : VPolicy → (suspicious debug : Bool) → Bool
  | .never, _, _ => false
  | .always, _, _ => true
  | .onSuspicion, s, _ => s
  | .debugOnly, s, d => d || s

def Operation.requiresPL : Operation → Bool
  | .cavityFlip => true | _ => false

/-- `TopologicalOperation::is_admissible_under` -/
def Operation.admissibleUnder (op : Operation) : Guarantee → Bool
  | .pseudomanifold => !op.requiresPL
  | _ => true

def RepairPolicy.shouldRepair : RepairPolicy → Nat → Bool
  | .never, _ => false
  | .everyInsertion, _ => true
  | .everyN n, count => n != 0 && count % n == 0

def CheckPolicy.shouldCheck : CheckPolicy → Nat → Bool
  | .endOnly, _ => false
  | .everyN n, count => n != 0 && count % n == 0

inductive Decision where
  | proceed | skipPolicyDisabled | skipInadmissible
  deriving Repr, DecidableEq

/-- `DelaunayRepairPolicy::decide` -/
def RepairPolicy.decide (p : RepairPolicy) (count : Nat) (g : Guarantee) (op : Operation) : Decision :=
  if !p.shouldRepair count then .skipPolicyDisabled
  else if !op.admissibleUnder g then .skipInadmissible
  else .proceed

/-- `should_run_delaunay_repair_for` -/
def shouldRunRepair (D : Nat) (hasCells : Bool) (p : RepairPolicy) (count : Nat) (g : Guarantee) : Bool :=
  if D < 2 then false else if !hasCells then false else
  if p == .never then false else p.decide count g .facetFlip == .proceed

/-- what `validate_after_insertion` runs after one insertion attempt -/
inductive Check where
  | none          -- nothing
  | links         -- facet degree + closed boundary + ridge links + geometric orientation
  | linksStrict   -- … + vertex links
  | full          -- `Triangulation::is_valid` (Level 3 at the configured guarantee)
  deriving Repr, DecidableEq

def selectCheck (p : VPolicy) (g : Guarantee) (suspicious debug hasCells : Bool) : Check :=
  if !hasCells then .none
  else if p.shouldValidate suspicious debug then .full
  else if g.requiresVertexLinksDuringInsertion then .linksStrict
  else if g.requiresRidgeLinks then .links
  else .none

end DM.Policy
