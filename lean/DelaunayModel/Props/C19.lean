/-
Props/C19.lean — property theorems for C19 (no panic and guaranteed termination on any finite
input).  This is the property least suited to proof: panics, stack depth and allocation are not
expressible in the model.  What IS proved is the bookkeeping of every budget:
 * `loop_flips_bounded`, `loop_done_within_budget`: a repair attempt applies at most
   `maxFlips + 1` flips, and a converged attempt at most `maxFlips`;
 * `loop_never_out_of_fuel`, `loop_iters_bounded`: it terminates — the number of loop iterations is
   at most `queue₀ + (maxFlips + 1)·(E + 1)` for ANY behaviour of the predicates;
 * `defaultMaxFlips_mono`, `defaultMaxFlips_linear`: the default budget is monotone and linear in
   the number of cells;
 * point location, construction retries, heuristic rebuild: re-exported from C10 / C08;
 * `insertAttempts_le`: an insertion makes at most `maxPerturb + 1` attempts;
 * `nonfinite_refused`: the element validator rejects a vertex with a non-finite coordinate (C05).
That the Rust loops actually consult these budgets is observed by the K2 tie (counters reported
by the public statistics), not proved; no-panic is exploration under catch_unwind.
-/
import DelaunayModel.Model.Budget
import DelaunayModel.Props.C10
import DelaunayModel.Props.C08
import DelaunayModel.Props.C05
namespace DM.C19

open DM.Budget

theorem defaultMaxFlips_mono (D c₁ c₂ : Nat) (debug : Bool) (h : c₁ ≤ c₂) :
    defaultMaxFlips D c₁ debug ≤ defaultMaxFlips D c₂ debug := by
  unfold defaultMaxFlips
  split
  · have := Nat.mul_le_mul_right ((D + 1) * 4) h
    simp only [← Nat.mul_assoc] at this
    omega
  · simp only
    split
    · have := Nat.mul_le_mul_right ((D + 1) * 8) h
      simp only [← Nat.mul_assoc] at this
      omega
    · have := Nat.mul_le_mul_right ((D + 1) * 4) h
      simp only [← Nat.mul_assoc] at this
      omega

theorem defaultMaxFlips_linear (D cells : Nat) (debug : Bool) :
    defaultMaxFlips D cells debug ≤ cells * (D + 1) * 8 + 4096 := by
  unfold defaultMaxFlips
  split
  · have : cells * (D + 1) * 4 ≤ cells * (D + 1) * 8 := Nat.mul_le_mul_left _ (by omega)
    omega
  · simp only
    split
    · omega
    · have : cells * (D + 1) * 4 ≤ cells * (D + 1) * 8 := Nat.mul_le_mul_left _ (by omega)
      omega

def finalSt : Outcome → LoopSt
  | .done s => s
  | .nonConvergent s => s
  | .outOfFuel s => s

/-- invariant of the loop: flips ≤ maxFlips + 1 at every reachable state -/
theorem loop_flips_bounded (maxFlips E : Nat) (choice : Nat → Option Nat) (fuel : Nat) (s : LoopSt)
    (hs : s.flips ≤ maxFlips) : (finalSt (loop maxFlips E choice fuel s)).flips ≤ maxFlips + 1 := by
  induction fuel generalizing s with
  | zero => simp [loop, finalSt]; omega
  | succ f ih =>
    unfold loop
    split
    · simp [finalSt]; omega
    · split
      · exact ih _ (by simpa using hs)
      · simp only
        split
        · simp [finalSt]; omega
        · rename_i hle
          exact ih _ (by simp only at hle ⊢; omega)

theorem loop_done_within_budget (maxFlips E : Nat) (choice : Nat → Option Nat) (fuel : Nat)
    (s s' : LoopSt) (hs : s.flips ≤ maxFlips) (h : loop maxFlips E choice fuel s = .done s') :
    s'.flips ≤ maxFlips := by
  induction fuel generalizing s with
  | zero => simp [loop] at h
  | succ f ih =>
    unfold loop at h
    split at h
    · injection h with h; subst h; exact hs
    · split at h
      · exact ih _ (by simpa using hs) h
      · simp only at h
        split at h
        · simp at h
        · rename_i hle
          exact ih _ (by simp only at hle ⊢; omega) h

/-- with `fuelFor` fuel the loop never runs out: it terminates for every predicate behaviour -/
theorem loop_never_out_of_fuel (maxFlips E : Nat) (choice : Nat → Option Nat) (fuel : Nat) (s : LoopSt)
    (hs : s.flips ≤ maxFlips) (hf : fuelFor maxFlips E s ≤ fuel) :
    ∀ t, loop maxFlips E choice fuel s ≠ .outOfFuel t := by
  induction fuel generalizing s with
  | zero => unfold fuelFor at hf; omega
  | succ f ih =>
    intro t
    unfold loop
    split
    · simp
    · rename_i hq
      have hq' : s.queue ≠ 0 := by simpa using hq
      split
      · apply ih
        · simpa using hs
        · unfold fuelFor at hf ⊢; simp only; omega
      · rename_i e _
        simp only
        split
        · simp
        · rename_i hle
          apply ih
          · simp only at hle ⊢; omega
          · unfold fuelFor at hf ⊢
            simp only at hle ⊢
            have hmin : min e E ≤ E := Nat.min_le_right e E
            have h1 : maxFlips + 1 - (s.flips + 1) + 1 = maxFlips + 1 - s.flips := by omega
            have h2 : (maxFlips + 1 - s.flips) * (E + 1) = (maxFlips + 1 - (s.flips + 1)) * (E + 1) + (E + 1) := by
              rw [← h1, Nat.add_mul, Nat.one_mul]
            omega

/-- iterations are bounded by the fuel consumed -/
theorem loop_iters_bounded (maxFlips E : Nat) (choice : Nat → Option Nat) (fuel : Nat) (s : LoopSt) :
    (finalSt (loop maxFlips E choice fuel s)).iters ≤ s.iters + fuel := by
  induction fuel generalizing s with
  | zero => simp [loop, finalSt]
  | succ f ih =>
    unfold loop
    split
    · simp [finalSt]
    · split
      · have := ih { queue := s.queue - 1, flips := s.flips, iters := s.iters + 1 }
        simp only at this; omega
      · simp only
        split
        · simp [finalSt]
        · rename_i e _ _
          have := ih { queue := s.queue - 1 + min e E, flips := s.flips + 1, iters := s.iters + 1 }
          simp only at this; omega

theorem insertAttempts_le (maxPerturb : Nat) (failsAt : Nat → Bool) (fuel used : Nat) :
    insertAttempts maxPerturb failsAt fuel used ≤ used + fuel := by
  induction fuel generalizing used with
  | zero => simp [insertAttempts]
  | succ f ih =>
    unfold insertAttempts
    split
    · have := ih (used + 1); omega
    · omega

/-- budgets proved elsewhere, collected -/
theorem locate_budget (K : Cx) (emin : Int) (q : IPt) (fuel cur : Nat) :
    DM.C10.walkSteps K emin q fuel cur [] ≤ min fuel (K.cells.length + 1) :=
  DM.C10.walkSteps_le_min K emin q fuel cur

theorem nonfinite_refused (K : Cx) (h : ∃ v ∈ K.verts, v.pt = none) : checkL1 K = false :=
  DM.C05.reject_nonfinite_coordinate K h

/-- non-vacuity: a run that flips at every iteration exceeds the budget after maxFlips+1 flips -/
example : loop 3 2 (fun _ => some 2) 100 ⟨1, 0, 0⟩ = .nonConvergent ⟨5, 4, 4⟩ := by decide
example : loop 3 2 (fun i => if i < 2 then some 1 else none) 100 ⟨2, 0, 0⟩ = .done ⟨0, 2, 4⟩ := by decide

/-! ### The work bound of the correspondence check really is implied by the budgets -/

/-- iterations of one whole attempt started on a queue of `q0` items with `fuelFor` fuel (which is
enough: `loop_never_out_of_fuel`) are bounded linearly in `q0` and `maxFlips`, whatever the
predicates (`choice`) do.  Direct corollary of `loop_iters_bounded`; the trailing `+ 1` is the
spare unit of `fuelFor`, removed in `attempt_iters_le_sharp`. -/
theorem attempt_iters_le (maxFlips E q0 : Nat) (choice : Nat → Option Nat) :
    (finalSt (loop maxFlips E choice (fuelFor maxFlips E ⟨q0, 0, 0⟩) ⟨q0, 0, 0⟩)).iters
      ≤ q0 + (maxFlips + 1) * (E + 1) + 1 := by
  have h := loop_iters_bounded maxFlips E choice (fuelFor maxFlips E ⟨q0, 0, 0⟩) ⟨q0, 0, 0⟩
  simp only [fuelFor, Nat.sub_zero, Nat.zero_add] at h ⊢
  exact h

/-- the potential `iters + queue` grows by at most `E` per flip and not at all otherwise: at every
final state `iters + queue ≤ iters₀ + queue₀ + (flips − flips₀)·E` (written without subtraction),
for ANY fuel -/
theorem loop_iters_queue_potential (maxFlips E : Nat) (choice : Nat → Option Nat) (fuel : Nat)
    (s : LoopSt) :
    (finalSt (loop maxFlips E choice fuel s)).iters + (finalSt (loop maxFlips E choice fuel s)).queue
        + s.flips * E
      ≤ s.iters + s.queue + (finalSt (loop maxFlips E choice fuel s)).flips * E := by
  induction fuel generalizing s with
  | zero => simp [loop, finalSt]
  | succ f ih =>
    unfold loop
    split
    · simp [finalSt]
    · rename_i hq
      have hq' : s.queue ≠ 0 := by simpa using hq
      split
      · have := ih { queue := s.queue - 1, flips := s.flips, iters := s.iters + 1 }
        simp only at this; omega
      · rename_i e _
        have hmin : min e E ≤ E := Nat.min_le_right e E
        have hmul : (s.flips + 1) * E = s.flips * E + E := by rw [Nat.add_mul, Nat.one_mul]
        simp only
        split
        · simp only [finalSt]; omega
        · have := ih { queue := s.queue - 1 + min e E, flips := s.flips + 1, iters := s.iters + 1 }
          simp only at this; omega

/-- sharp form: every iteration consumes one queue item and only a flip adds items (at most `E`),
and there are at most `maxFlips + 1` flips (`loop_flips_bounded`), so an attempt makes at most
`q0 + (maxFlips + 1)·E` iterations — for ANY fuel and ANY predicate behaviour -/
theorem attempt_iters_le_sharp (maxFlips E q0 : Nat) (choice : Nat → Option Nat) (fuel : Nat) :
    (finalSt (loop maxFlips E choice fuel ⟨q0, 0, 0⟩)).iters ≤ q0 + (maxFlips + 1) * E := by
  have hp := loop_iters_queue_potential maxFlips E choice fuel ⟨q0, 0, 0⟩
  have hf := loop_flips_bounded maxFlips E choice fuel ⟨q0, 0, 0⟩ (Nat.zero_le _)
  have hm := Nat.mul_le_mul_right E hf
  simp only [Nat.zero_mul, Nat.add_zero, Nat.zero_add] at hp
  omega

/-- the form used by `workBound`: at most `q0 + (maxFlips + 1)·(E + 1)` iterations (no `+ 1`) -/
theorem attempt_iters_le' (maxFlips E q0 : Nat) (choice : Nat → Option Nat) (fuel : Nat) :
    (finalSt (loop maxFlips E choice fuel ⟨q0, 0, 0⟩)).iters ≤ q0 + (maxFlips + 1) * (E + 1) := by
  have h := attempt_iters_le_sharp maxFlips E q0 choice fuel
  have : (maxFlips + 1) * E ≤ (maxFlips + 1) * (E + 1) := Nat.mul_le_mul_left _ (Nat.le_succ E)
  omega

/-- `workBound` is, by definition, six attempts of `q0 + (b + 1)(e + 1)` iterations at
`evalsPerItem` evaluations each, plus six postcondition sweeps of `2(D + 1)` evaluations per cell -/
theorem workBound_covers_attempts (D cells : Nat) (debug : Bool) :
    6 * evalsPerItem D *
        (cells * itemsPerCell D
          + (defaultMaxFlips D cells debug + 1) * ((if D ≤ 2 then 2 else D + 2) * itemsPerCell D + 1))
      + 6 * 2 * (D + 1) * cells
      = workBound D cells debug := rfl

/-- iterations of one whole repair attempt of the library on a `D`-dimensional complex of `cells`
cells: flip budget `defaultMaxFlips D cells debug`, per-flip enqueue cap
`(new cells of a flip) × itemsPerCell D`, initial queue `q0`, run with `fuelFor` fuel -/
def attemptIters (D cells : Nat) (debug : Bool) (q0 : Nat) (choice : Nat → Option Nat) : Nat :=
  let b := defaultMaxFlips D cells debug
  let e := (if D ≤ 2 then 2 else D + 2) * itemsPerCell D
  (finalSt (loop b e choice (fuelFor b e ⟨q0, 0, 0⟩) ⟨q0, 0, 0⟩)).iters

/-- one attempt whose initial queue holds at most every item of every cell costs at most a sixth
of the attempt part of `workBound` -/
theorem attempt_work_le (D cells : Nat) (debug : Bool) (q0 : Nat) (choice : Nat → Option Nat)
    (hq : q0 ≤ cells * itemsPerCell D) :
    evalsPerItem D * attemptIters D cells debug q0 choice
      ≤ evalsPerItem D *
          (cells * itemsPerCell D
            + (defaultMaxFlips D cells debug + 1)
                * ((if D ≤ 2 then 2 else D + 2) * itemsPerCell D + 1)) := by
  apply Nat.mul_le_mul_left
  unfold attemptIters
  have h := attempt_iters_le' (defaultMaxFlips D cells debug)
    ((if D ≤ 2 then 2 else D + 2) * itemsPerCell D) q0 choice
    (fuelFor (defaultMaxFlips D cells debug) ((if D ≤ 2 then 2 else D + 2) * itemsPerCell D) ⟨q0, 0, 0⟩)
  simp only at h ⊢
  omega

/-- a list of naturals each at most `B` sums to at most `length · B` -/
theorem list_sum_le_length_mul (l : List Nat) (B : Nat) (h : ∀ x ∈ l, x ≤ B) :
    l.sum ≤ l.length * B := by
  induction l with
  | nil => simp
  | cons a t ih =>
    have ha : a ≤ B := h a (List.mem_cons_self ..)
    have ht := ih (fun x hx => h x (List.mem_cons_of_mem _ hx))
    simp only [List.sum_cons, List.length_cons, Nat.add_mul, Nat.one_mul]
    omega

/-- THE WORK BOUND.  One public repair call makes at most six attempts.  Model each attempt by its
initial queue length `a.1` (at most every item of every cell) and the behaviour of the predicates
during it `a.2` (ANY function).  Then the in-sphere evaluations of all attempts together — each
iteration costing at most `evalsPerItem D` — plus the six postcondition sweeps (`2(D + 1)`
evaluations per cell each) are at most `workBound D cells debug`.  The sum over the attempts is a
`List.sum` over a list of length ≤ 6 (core Lean has no `Finset` sum); `work_bounded_six` below is
the same statement for a `Fin 6`-indexed family. -/
theorem work_bounded (D cells : Nat) (debug : Bool) (attempts : List (Nat × (Nat → Option Nat)))
    (hlen : attempts.length ≤ 6) (hq : ∀ a ∈ attempts, a.1 ≤ cells * itemsPerCell D) :
    (attempts.map (fun a => evalsPerItem D * attemptIters D cells debug a.1 a.2)).sum
        + 6 * 2 * (D + 1) * cells
      ≤ workBound D cells debug := by
  rw [← workBound_covers_attempts]
  apply Nat.add_le_add_right
  have hs := list_sum_le_length_mul
    (attempts.map (fun a => evalsPerItem D * attemptIters D cells debug a.1 a.2))
    (evalsPerItem D *
      (cells * itemsPerCell D
        + (defaultMaxFlips D cells debug + 1)
            * ((if D ≤ 2 then 2 else D + 2) * itemsPerCell D + 1)))
    (by
      intro x hx
      rcases List.mem_map.mp hx with ⟨a, ha, rfl⟩
      exact attempt_work_le D cells debug a.1 a.2 (hq a ha))
  rw [List.length_map] at hs
  rw [Nat.mul_assoc]
  exact Nat.le_trans hs (Nat.mul_le_mul_right _ hlen)

/-- `work_bounded` for exactly six attempts, all started on the full queue, indexed by `Fin 6` -/
theorem work_bounded_six (D cells : Nat) (debug : Bool) (choices : Fin 6 → Nat → Option Nat) :
    evalsPerItem D * attemptIters D cells debug (cells * itemsPerCell D) (choices 0)
      + evalsPerItem D * attemptIters D cells debug (cells * itemsPerCell D) (choices 1)
      + evalsPerItem D * attemptIters D cells debug (cells * itemsPerCell D) (choices 2)
      + evalsPerItem D * attemptIters D cells debug (cells * itemsPerCell D) (choices 3)
      + evalsPerItem D * attemptIters D cells debug (cells * itemsPerCell D) (choices 4)
      + evalsPerItem D * attemptIters D cells debug (cells * itemsPerCell D) (choices 5)
      + 6 * 2 * (D + 1) * cells
      ≤ workBound D cells debug := by
  have h := work_bounded D cells debug
    [(cells * itemsPerCell D, choices 0), (cells * itemsPerCell D, choices 1),
     (cells * itemsPerCell D, choices 2), (cells * itemsPerCell D, choices 3),
     (cells * itemsPerCell D, choices 4), (cells * itemsPerCell D, choices 5)]
    (by simp) (by intro a ha; simp at ha; rcases ha with h | h | h | h | h | h <;> simp [h])
  simp only [List.map_cons, List.map_nil, List.sum_cons, List.sum_nil] at h
  omega

/-- the work bound is monotone in the number of cells -/
theorem workBound_mono (D cells cells' : Nat) (debug : Bool) (h : cells ≤ cells') :
    workBound D cells debug ≤ workBound D cells' debug := by
  have hb := defaultMaxFlips_mono D cells cells' debug h
  unfold workBound
  simp only
  apply Nat.add_le_add
  · apply Nat.mul_le_mul_left
    apply Nat.add_le_add
    · exact Nat.mul_le_mul_right _ h
    · exact Nat.mul_le_mul_right _ (Nat.add_le_add_right hb 1)
  · exact Nat.mul_le_mul_left _ h

/-- non-vacuity: the concrete bounds the correspondence check uses -/
example : workBound 2 69 true = 74604 := by decide
example : workBound 3 30 true = 4120500 := by decide
example : attemptIters 2 1 false 3 (fun _ => none) = 3 := by decide

end DM.C19
