/-
Lemmas/DupAux.lean — helper lemmas for Props/C09 (duplicate-coordinate cache).
Core-only (no Mathlib).
-/
import DelaunayModel.Model.DupCache
namespace DM.DupAux

open DM.DupCache

/-! ### integer arithmetic -/

/-- a square below `c²` has a root strictly between `-c` and `c` -/
theorem abs_lt_of_sq_lt {d c : Int} (hc : 0 < c) (h : d * d < c * c) : -c < d ∧ d < c := by
  refine ⟨?_, ?_⟩
  · apply Int.lt_of_not_ge
    intro hle
    have h1 : c ≤ -d := by omega
    have h2 : c * c ≤ (-d) * (-d) := Int.mul_le_mul h1 h1 (by omega) (by omega)
    rw [Int.neg_mul_neg] at h2
    omega
  · apply Int.lt_of_not_ge
    intro hle
    have h2 : c * c ≤ d * d := Int.mul_le_mul hle hle (by omega) (by omega)
    omega

theorem ediv_le_succ_of_lt_add {x y c : Int} (hc : 0 < c) (h : x < y + c) : x / c - y / c ≤ 1 := by
  have h1 : x / c ≤ (y + 1 * c) / c := Int.ediv_le_ediv hc (by omega)
  rw [Int.add_mul_ediv_right _ _ (by omega : c ≠ 0)] at h1
  omega

/-- 1-D: two coordinates closer than the cell size lie in the same or in adjacent cells -/
theorem floor_close {x y c : Int} (hc : 0 < c) (h : (x - y) * (x - y) < c * c) :
    x / c - y / c ≤ 1 ∧ y / c - x / c ≤ 1 := by
  have ⟨h1, h2⟩ := abs_lt_of_sq_lt hc h
  exact ⟨ediv_le_succ_of_lt_add hc (by omega), ediv_le_succ_of_lt_add hc (by omega)⟩

theorem sq_nonneg (a : Int) : 0 ≤ a * a := by
  rcases Int.le_total 0 a with h | h
  · exact Int.mul_nonneg h h
  · have := Int.mul_nonneg (by omega : 0 ≤ -a) (by omega : 0 ≤ -a)
    rwa [Int.neg_mul_neg] at this

theorem sq_sub_comm (a b : Int) : (a - b) * (a - b) = (b - a) * (b - a) := by
  have : b - a = -(a - b) := by omega
  rw [this, Int.neg_mul_neg]

/-! ### sums of non-negative terms -/

theorem foldl_add_bounds (l : List Int) (hl : ∀ x ∈ l, 0 ≤ x) (a : Int) :
    a ≤ l.foldl (· + ·) a ∧ ∀ x ∈ l, a + x ≤ l.foldl (· + ·) a := by
  induction l generalizing a with
  | nil => simp
  | cons y ys ih =>
    have hy : 0 ≤ y := hl y (by simp)
    have ih' := ih (fun x hx => hl x (by simp [hx])) (a + y)
    simp only [List.foldl_cons]
    refine ⟨by omega, ?_⟩
    intro x hx
    rcases List.mem_cons.1 hx with rfl | hx
    · exact ih'.1
    · have := ih'.2 x hx
      omega

theorem term_le_foldl_add (l : List Int) (hl : ∀ x ∈ l, 0 ≤ x) :
    ∀ x ∈ l, x ≤ l.foldl (· + ·) 0 := by
  intro x hx
  have := (foldl_add_bounds l hl 0).2 x hx
  omega

/-! ### `dist2` -/

theorem dist2_terms_nonneg (p q : Pt) :
    ∀ t ∈ List.zipWith (fun a b : Int => (a - b) * (a - b)) p q, 0 ≤ t := by
  intro t ht
  induction p generalizing q with
  | nil => simp at ht
  | cons a p ih =>
    cases q with
    | nil => simp at ht
    | cons b q =>
      simp only [List.zipWith_cons_cons, List.mem_cons] at ht
      rcases ht with rfl | ht
      · exact sq_nonneg _
      · exact ih q ht

theorem dist2_term_le (p q : Pt) :
    ∀ t ∈ List.zipWith (fun a b : Int => (a - b) * (a - b)) p q, t ≤ dist2 p q :=
  term_le_foldl_add _ (dist2_terms_nonneg p q)

theorem dist2_comm (p q : Pt) : dist2 p q = dist2 q p := by
  unfold dist2
  congr 1
  induction p generalizing q with
  | nil => cases q <;> simp
  | cons a p ih =>
    cases q with
    | nil => simp
    | cons b q => simp only [List.zipWith_cons_cons, ih q, sq_sub_comm a b]

/-! ### grid neighbourhood -/

theorem nearBucket_of_terms {c : Int} (hc : 0 < c) (p q : Pt) (hlen : p.length = q.length)
    (h : ∀ t ∈ List.zipWith (fun a b : Int => (a - b) * (a - b)) p q, t < c * c) :
    nearBucket (bucket c q) (bucket c p) = true := by
  induction p generalizing q with
  | nil =>
    cases q with
    | nil => simp [nearBucket, bucket]
    | cons b q => simp at hlen
  | cons a p ih =>
    cases q with
    | nil => simp at hlen
    | cons b q =>
      have hlen' : p.length = q.length := by simpa using hlen
      have h0 : (a - b) * (a - b) < c * c := h _ (by simp)
      have ih' := ih q hlen' (fun t ht => h t (by simp [ht]))
      have ⟨f1, f2⟩ := floor_close hc h0
      simp only [nearBucket, bucket, List.length_map, Bool.and_eq_true, beq_iff_eq,
        List.all_eq_true] at ih' ⊢
      refine ⟨by simp [hlen'], ?_⟩
      intro x hx
      simp only [List.map_cons, List.zipWith_cons_cons, List.mem_cons] at hx
      rcases hx with rfl | hx
      · simp [f1, f2]
      · exact ih'.2 x hx

theorem grid_complete {c : Int} (hc : 0 < c) (p q : Pt) (hlen : p.length = q.length)
    (h : dist2 p q < c * c) : nearBucket (bucket c q) (bucket c p) = true :=
  nearBucket_of_terms hc p q hlen (fun t ht => Int.lt_of_le_of_lt (dist2_term_le p q t ht) h)

/-! ### association lists -/

theorem mem_of_lookup_eq_some {l : List (Nat × Pt)} {k : Nat} {p : Pt}
    (h : l.lookup k = some p) : (k, p) ∈ l := by
  induction l with
  | nil => simp at h
  | cons v vs ih =>
    obtain ⟨k', p'⟩ := v
    simp only [List.lookup_cons] at h
    split at h
    · rename_i heq
      have : k = k' := by simpa using heq
      simp only [Option.some.injEq] at h
      subst this; subst h; simp
    · exact List.mem_cons_of_mem _ (ih h)

theorem lookup_eq_some_of_mem {l : List (Nat × Pt)} (hnd : (l.map (·.1)).Nodup) {k : Nat} {p : Pt}
    (h : (k, p) ∈ l) : l.lookup k = some p := by
  induction l with
  | nil => simp at h
  | cons v vs ih =>
    obtain ⟨k', p'⟩ := v
    simp only [List.map_cons, List.nodup_cons] at hnd
    rcases List.mem_cons.1 h with heq | hmem
    · simp only [Prod.mk.injEq] at heq
      obtain ⟨rfl, rfl⟩ := heq
      simp
    · have hne : k ≠ k' := by
        rintro rfl
        exact hnd.1 (List.mem_map.2 ⟨(k, p), hmem, rfl⟩)
      simp only [List.lookup_cons]
      have : (k == k') = false := by simpa using hne
      rw [this]
      exact ih hnd.2 hmem

/-! ### `rekey` (the renumbering done by `Op.rebuild`) -/

theorem rekey_nil (b : Nat) : rekey b [] = [] := rfl

theorem rekey_shift (b : Nat) (vs : List (Nat × Pt)) (n : Nat) :
    (vs.zipIdx (n + 1)).map (fun (v, i) => (b + i, v.2))
      = (vs.zipIdx n).map (fun (v, i) => (b + 1 + i, v.2)) := by
  induction vs generalizing n with
  | nil => rfl
  | cons v vs ih =>
    simp only [List.zipIdx_cons, List.map_cons, ih (n + 1)]
    congr 2
    omega

theorem rekey_cons (b : Nat) (v : Nat × Pt) (vs : List (Nat × Pt)) :
    rekey b (v :: vs) = (b, v.2) :: rekey (b + 1) vs := by
  simp only [rekey, List.zipIdx_cons, List.map_cons, Nat.add_zero, Nat.zero_add]
  rw [rekey_shift b vs 0]

theorem rekey_length (b : Nat) (vs : List (Nat × Pt)) : (rekey b vs).length = vs.length := by
  simp [rekey]

/-- renumbering keeps the coordinates (in storage order) -/
theorem rekey_map_snd (b : Nat) (vs : List (Nat × Pt)) :
    (rekey b vs).map (·.2) = vs.map (·.2) := by
  induction vs generalizing b with
  | nil => rfl
  | cons v vs ih => simp only [rekey_cons, List.map_cons, ih]

/-- the new keys are `b, b+1, …` -/
theorem rekey_map_fst (b : Nat) (vs : List (Nat × Pt)) :
    (rekey b vs).map (·.1) = List.range' b vs.length := by
  induction vs generalizing b with
  | nil => rfl
  | cons v vs ih => simp only [rekey_cons, List.map_cons, ih, List.length_cons, List.range'_succ]

/-- the new keys are pairwise distinct -/
theorem rekey_keys_nodup (b : Nat) (vs : List (Nat × Pt)) : ((rekey b vs).map (·.1)).Nodup := by
  rw [rekey_map_fst]
  exact List.nodup_range'

/-- every renumbered vertex carries the coordinates of an old one -/
theorem exists_of_mem_rekey {b : Nat} {vs : List (Nat × Pt)} {v : Nat × Pt} (h : v ∈ rekey b vs) :
    ∃ w ∈ vs, w.2 = v.2 := by
  have : v.2 ∈ (rekey b vs).map (·.2) := List.mem_map.2 ⟨v, h, rfl⟩
  rw [rekey_map_snd] at this
  obtain ⟨w, hw, hw'⟩ := List.mem_map.1 this
  exact ⟨w, hw, hw'⟩

/-- every old vertex survives the renumbering under some key -/
theorem exists_mem_rekey_of_mem (b : Nat) {vs : List (Nat × Pt)} {w : Nat × Pt} (h : w ∈ vs) :
    ∃ v ∈ rekey b vs, v.2 = w.2 := by
  have : w.2 ∈ vs.map (·.2) := List.mem_map.2 ⟨w, h, rfl⟩
  rw [← rekey_map_snd b] at this
  obtain ⟨v, hv, hv'⟩ := List.mem_map.1 this
  exact ⟨v, hv, hv'⟩

/-! ### pairwise relations on keyed lists -/

/-- with distinct keys, "every two different entries are related" gives `Pairwise` -/
theorem pairwise_of_forall_ne {R : Pt → Pt → Prop} {l : List (Nat × Pt)}
    (hnd : (l.map (·.1)).Nodup) (h : ∀ a ∈ l, ∀ b ∈ l, a ≠ b → R a.2 b.2) :
    (l.map (·.2)).Pairwise R := by
  induction l with
  | nil => simp
  | cons v vs ih =>
    simp only [List.map_cons, List.nodup_cons] at hnd
    simp only [List.map_cons, List.pairwise_cons]
    refine ⟨?_, ih hnd.2 (fun a ha b hb => h a (by simp [ha]) b (by simp [hb]))⟩
    intro q hq
    obtain ⟨w, hw, rfl⟩ := List.mem_map.1 hq
    apply h v (by simp) w (by simp [hw])
    rintro rfl
    exact hnd.1 (List.mem_map.2 ⟨v, hw, rfl⟩)

/-- a symmetric `Pairwise` relation holds between every two different entries -/
theorem forall_ne_of_pairwise {R : Pt → Pt → Prop} (hsymm : ∀ p q, R p q → R q p)
    {l : List (Nat × Pt)} (h : (l.map (·.2)).Pairwise R) :
    ∀ a ∈ l, ∀ b ∈ l, a ≠ b → R a.2 b.2 := by
  induction l with
  | nil => simp
  | cons v vs ih =>
    simp only [List.map_cons, List.pairwise_cons] at h
    intro a ha b hb hab
    rcases List.mem_cons.1 ha with hav | ha' <;> rcases List.mem_cons.1 hb with hbv | hb'
    · exact absurd (hav.trans hbv.symm) hab
    · rw [hav]; exact h.1 _ (List.mem_map.2 ⟨b, hb', rfl⟩)
    · rw [hbv]; exact hsymm _ _ (h.1 _ (List.mem_map.2 ⟨a, ha', rfl⟩))
    · exact ih h.2 a ha' b hb' hab

end DM.DupAux
