/-
Model/StarRemoval.lean — the cell-set edit of vertex REMOVAL on the abstract complex, the dual of the
cavity insertion of Model/Cavity.lean: remove the star of `v` (all cells containing `v`) and fill the
hole with cells on the link vertices only.

Mirrors the cell-set edit of `Triangulation::remove_vertex` (src/core/triangulation.rs): the "fan"
retriangulation of the hole (new cells use link vertices only), or the inverse k=1 move when the star
has exactly D+1 cells (one new cell: the link vertices).  As in Model/Flip.lean a cell is the SET of
its vertex ids, a sorted duplicate-free `List Nat`, and a complex is a list of cells.
`starRemovalProblem` reconstructs the star and the fill from an observed (before, after) pair of cell
sets and says whether the step was a legal star removal.  The geometry (which fill is Delaunay /
convex) stays outside: for a hull vertex ANY fill that keeps every facet at degree ≤ 2 is accepted,
the empty one included.
Theorems: Props/C06.lean (§ star removal), helpers in Lemmas/StarRemovalAux.lean.
-/
import DelaunayModel.Model.Cavity
namespace DM

/-- the cells that survive the removal of `v`: those not containing `v` -/
def starKept (cells : List (List Nat)) (v : Nat) : List (List Nat) :=
  cells.filter (fun c => !c.contains v)

/-- star removal: drop the star of `v`, add the fill cells -/
def starFill (cells : List (List Nat)) (v : Nat) (fill : List (List Nat)) : List (List Nat) :=
  cells.filter (fun c => !c.contains v) ++ fill

/-- the link facets of `v`, computed as the boundary facets of the star of `v` that avoid `v`
(for sorted duplicate-free cells these are exactly the facets `linkOf cells v`, each being the facet
of a star cell opposite `v`: `mem_starLinkFacets_iff_link`) -/
def starLinkFacets (cells : List (List Nat)) (v : Nat) : List (List Nat) :=
  (cavityBoundary (starOf cells v)).filter (fun f => !f.contains v)

/-- `v` is a hull vertex: some facet THROUGH `v` of a star cell has degree 1 (every cell on a facet
through `v` is a star cell, so the degree in the star is the degree in the complex) -/
def starOnHull (cells : List (List Nat)) (v : Nat) : Bool :=
  (cavityBoundary (starOf cells v)).any (·.contains v)

/-- the vertices of the star of `v` (with multiplicity, `v` included) -/
def starVerts (cells : List (List Nat)) (v : Nat) : List Nat := (starOf cells v).flatMap id

/-- executable reconstruction from an observed step, for the differential driver: cell sets
before/after one successful removal of vertex id `v`; `none` if it is a legal star removal,
`some reason` otherwise.  With `S := starOf pre v`, `R := pre \ post`, `N := post \ pre`,
`B := starLinkFacets pre v` (the link facets), `∂N := cavityBoundary N`:
 (1) `S` is not empty (`v` had cells) and no cell of `post` contains `v`;
 (2) `R = S` as sets (exactly the star was removed, no other cell disappeared);
 (3) every vertex of every cell of `N` is a vertex of some cell of `S`, other than `v`
     (the fill uses link vertices only — no foreign vertex);
 (4) `N` is duplicate-free (it is disjoint from the kept cells by definition);
 (5) boundary matching:
     (5c) every facet of `N` has degree 1 in `N`, or degree 2 in `N` and is a facet of no cell of
          `pre` (interior facets of the fill are new);
     (5a) every facet of `∂N` is a link facet, or — only if `v` is a hull vertex — a facet of no cell
          of `pre` (a new hull facet);
     (5b) every link facet is in `∂N`, or — only if `v` is a hull vertex — a facet of no cell of `N`
          (it is left uncovered: a facet that becomes a hull facet, or a hull facet that disappears);
     for an interior vertex (5a)+(5b) say `∂N = link(v)` as sets;
 (6) `post` and `starFill pre v N` have the same cells. -/
def starRemovalProblem (pre post : List (List Nat)) (v : Nat) : Option String :=
  let S := starOf pre v
  let R := stepRemoved pre post
  let N := stepCreated pre post
  let sV := starVerts pre v
  let B := starLinkFacets pre v
  let onHull := starOnHull pre v
  let nF := cellFacets N       -- computed once; `nF.count f` is `facetCount N f`
  let bN := cavityBoundary N
  let preF := cellFacets pre   -- computed once; `preF.count f` is `facetCount pre f`
  let res := starFill pre v N
  if S.isEmpty then
    some s!"vertex {v} is in no cell before the removal"
  else if post.any (·.contains v) then
    some s!"a cell after the removal still contains the removed vertex {v}: {post.filter (·.contains v)}"
  else if !R.all S.contains then
    some s!"a cell not containing the removed vertex {v} disappeared: {R.filter (fun c => !S.contains c)}"
  else if !S.all R.contains then
    some s!"a cell of the star of {v} was not removed: {S.filter (fun c => !R.contains c)}"
  else if !N.all (fun c => c.all (fun u => u != v && sV.contains u)) then
    some s!"a fill cell uses a vertex that is not a link vertex of {v}: {N.filter (fun c => !c.all (fun u => u != v && sV.contains u))}"
  else if !nodupB N then
    some s!"created cells not distinct: {N}"
  else if !nF.all (fun f => nF.count f == 1 || (nF.count f == 2 && preF.count f == 0)) then
    some s!"facet of the fill in more than two fill cells, or interior facet of the fill already present before: {nF.filter (fun f => !(nF.count f == 1 || (nF.count f == 2 && preF.count f == 0)))}"
  else if !bN.all (fun f => B.contains f || (onHull && preF.count f == 0)) then
    some s!"boundary facet of the fill is neither a link facet of {v} nor a new hull facet: {bN.filter (fun f => !(B.contains f || (onHull && preF.count f == 0)))}"
  else if !B.all (fun f => bN.contains f || (onHull && nF.count f == 0)) then
    some s!"link facet of {v} not matched by the boundary of the fill: {B.filter (fun f => !(bN.contains f || (onHull && nF.count f == 0)))}"
  else if !(post.all res.contains && res.all post.contains) then
    some s!"cells after the removal differ from the star removal of {v} (removed {S}, fill {N})"
  else none

end DM
