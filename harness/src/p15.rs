//! C15 — topology / adjacency queries vs brute-force face enumeration, in every reachable state (K1).
use crate::common::{catch, Ids, Out, Rng};
use crate::gens;
use crate::hist::{self, World};
use crate::tri;
use crate::Cfg;
use delaunay::core::triangulation_data_structure::{CellKey, VertexKey};
use delaunay::topology::characteristics::euler::{classify_triangulation, count_simplices, euler_characteristic};

fn emit<const D: usize>(id: &str, w: &mut World<D>, op: &str, out: &mut Out, stale_v: Option<VertexKey>, stale_c: Option<CellKey>) {
    out.case(id, "qry", &format!("D={D} euclid=1 after={op}"));
    let mut ids: Ids = std::mem::take(&mut w.ids);
    tri::export(&w.dt, &mut ids, out);
    w.ids = ids;
    let mut lines: Vec<String> = Vec::new();
    {
        let tri = w.dt.as_triangulation();
        let tds = w.dt.tds();
        let vid = |k: VertexKey, ids: &mut Ids| tds.get_vertex_by_key(k).map_or(999_999, |v| ids.id(v.uuid()));
        let cid = |k: CellKey, ids: &mut Ids| tds.get_cell(k).map_or(999_999, |c| ids.id(c.uuid()));
        let mut idm = std::mem::take(&mut w.ids);
        let etok = |e: delaunay::core::edge::EdgeKey, ids: &mut Ids| { let (a, b) = e.endpoints(); let (x, y) = (vid(a, ids), vid(b, ids)); if x <= y { format!("{x}-{y}") } else { format!("{y}-{x}") } };
        let edges: Vec<String> = tri.edges().map(|e| etok(e, &mut idm)).collect();
        out.obs("edges", &edges.join(" "));
        out.obs("nedges", &tri.number_of_edges().to_string());
        out.obs("nfacets", &tri.facets().count().to_string());
        let bf: Vec<String> = tri.boundary_facets().map(|f| {
            let vs: Vec<String> = f.vertices().map(|it| it.map(|v| idm.id(v.uuid()).to_string()).collect()).unwrap_or_default();
            vs.join(",")
        }).collect();
        out.obs("bfacets", &bf.join(" "));
        match catch(|| count_simplices(tds)) {
            Ok(Ok(fv)) => {
                out.obs("fvec", &fv.by_dim.iter().map(|x| x.to_string()).collect::<Vec<_>>().join(" "));
                out.obs("chi", &euler_characteristic(&fv).to_string());
            }
            _ => out.obs("fvec", "err"),
        }
        if let Ok(Ok(k)) = catch(|| classify_triangulation(tds)) { out.obs("class", &format!("{k:?}").replace(' ', "")); }
        // the same numbers through the validation entry point (f-vector, chi, verdict)
        if let Ok(Ok(r)) = catch(|| delaunay::topology::characteristics::validation::validate_triangulation_euler(tds)) {
            out.obs("fvec2", &r.counts.by_dim.iter().map(|x| x.to_string()).collect::<Vec<_>>().join(" "));
            out.obs("chi2", &r.chi.to_string());
            out.obs("euler_valid", if r.is_valid() { "1" } else { "0" });
        }
        // adjacency index variants must agree with the direct ones
        let mut idx_same = String::from("1");
        let index = catch(|| tri.build_adjacency_index());
        for (vk, _) in tds.vertices() {
            let v = vid(vk, &mut idm);
            let ie: Vec<String> = tri.incident_edges(vk).map(|e| etok(e, &mut idm)).collect();
            let ac: Vec<String> = tri.adjacent_cells(vk).map(|c| cid(c, &mut idm).to_string()).collect();
            lines.push(format!("ie {v} {}", ie.join(" ")));
            lines.push(format!("ac {v} {}", ac.join(" ")));
            if tri.number_of_incident_edges(vk) != ie.len() { idx_same = format!("0 number_of_incident_edges({v}) != incident_edges().count()"); }
            if let Ok(Ok(ix)) = &index {
                let mut a: Vec<String> = tri.incident_edges_with_index(ix, vk).map(|e| etok(e, &mut idm)).collect();
                let mut b = ie.clone(); a.sort(); b.sort();
                if a != b { idx_same = format!("0 incident_edges_with_index({v}) differs from incident_edges"); }
                let mut a: Vec<String> = tri.adjacent_cells_with_index(ix, vk).map(|c| cid(c, &mut idm).to_string()).collect();
                let mut b = ac.clone(); a.sort(); b.sort();
                if a != b { idx_same = format!("0 adjacent_cells_with_index({v}) differs from adjacent_cells"); }
                if tri.number_of_adjacent_cells_with_index(ix, vk) != ac.len() { idx_same = format!("0 number_of_adjacent_cells_with_index({v})"); }
                if tri.number_of_incident_edges_with_index(ix, vk) != ie.len() { idx_same = format!("0 number_of_incident_edges_with_index({v})"); }
            }
        }
        for (ck, _) in tds.cells() {
            let c = cid(ck, &mut idm);
            let cn: Vec<String> = tri.cell_neighbors(ck).map(|n| cid(n, &mut idm).to_string()).collect();
            lines.push(format!("cn {c} {}", cn.join(" ")));
            if let Ok(Ok(ix)) = &index {
                let mut a: Vec<String> = tri.cell_neighbors_with_index(ix, ck).map(|n| cid(n, &mut idm).to_string()).collect();
                let mut b = cn.clone(); a.sort(); b.sort();
                if a != b { idx_same = format!("0 cell_neighbors_with_index({c}) differs from cell_neighbors"); }
                if tri.number_of_cell_neighbors_with_index(ix, ck) != cn.len() { idx_same = format!("0 number_of_cell_neighbors_with_index({c})"); }
            }
        }
        if let Ok(Ok(ix)) = &index {
            let mut a: Vec<String> = tri.edges_with_index(ix).map(|e| etok(e, &mut idm)).collect();
            let mut b = edges.clone(); a.sort(); b.sort();
            if a != b { idx_same = "0 edges_with_index differs from edges".into(); }
            if tri.number_of_edges_with_index(ix) != edges.len() { idx_same = "0 number_of_edges_with_index".into(); }
        } else if tds.number_of_cells() > 0 {
            idx_same = "0 build_adjacency_index failed on a valid triangulation".into();
        }
        out.obs("idx_same", &idx_same);
        // missing keys give empty answers
        let mut miss = String::from("1");
        if let Some(sv) = stale_v { if !tds.contains_vertex_key(sv) {
            if tri.incident_edges(sv).count() != 0 || tri.adjacent_cells(sv).count() != 0 { miss = "0 queries on a removed vertex key are not empty".into(); }
        } }
        if let Some(sc) = stale_c { if !tds.contains_cell(sc) {
            if tri.cell_neighbors(sc).count() != 0 || tri.cell_vertices(sc).is_some() { miss = "0 queries on a removed cell key are not empty".into(); }
        } }
        out.obs("missing_keys_empty", &miss);
        w.ids = idm;
    }
    for l in lines { out.line(&l); }
    out.end();
}

fn history<const D: usize>(hid: usize, rng: &mut Rng, out: &mut Out, steps: usize) {
    let np = D + 2 + rng.below(match D { 2 => 9, 3 => 7, 4 => 4, _ => 3 }) as usize;
    let ps = gens::point_set(rng, D, np);
    let Some(mut w): Option<World<D>> = hist::start_built::<D>(&ps.pts, 1, rng) else { return };
    let mut stale_v = None;
    let mut stale_c = None;
    emit(&format!("y{D}_{hid}_0"), &mut w, "build", out, stale_v, stale_c);
    for s in 1..=steps {
        let cells_before: Vec<CellKey> = w.dt.cells().map(|(k, _)| k).collect();
        let op = match rng.below(8) {
            6 => {
                // Edit-API vertex insertion (k = 1 flip) at a dyadic interior point of a random cell
                use delaunay::triangulation::flips::BistellarFlips;
                let cks: Vec<CellKey> = w.dt.cells().map(|(k, _)| k).collect();
                let ck = *rng.pick(&cks);
                let vks = w.dt.tds().get_cell(ck).map(|c| c.vertices().to_vec()).unwrap_or_default();
                let mut p = [0.0f64; D];
                let denom = if D % 2 == 0 { 16.0 } else { 8.0 };
                let wts = [1.0, 2.0, 1.0, 4.0, 2.0, 1.0, 1.0];
                let mut wsum = 0.0;
                for (j, vk) in vks.iter().enumerate() {
                    if let Some(v) = w.dt.tds().get_vertex_by_key(*vk) { for i in 0..D { p[i] += wts[j % 7] * v.point().coords()[i] / denom; } }
                    wsum += wts[j % 7];
                }
                // remaining weight goes to the first vertex so that the weights sum to 1
                if let Some(v0) = vks.first().and_then(|k| w.dt.tds().get_vertex_by_key(*k)) { for i in 0..D { p[i] += (denom - wsum) * v0.point().coords()[i] / denom; } }
                let v = w.vertex(p, rng);
                let _ = crate::common::catch(|| w.dt.flip_k1_insert(ck, v).is_ok());
                "flip_k1_insert"
            }
            7 => {
                use delaunay::triangulation::flips::BistellarFlips;
                let keys = w.live_keys();
                if keys.len() > D + 2 { let vk = *rng.pick(&keys); let _ = crate::common::catch(|| w.dt.flip_k1_remove(vk).is_ok()); if !w.dt.tds().contains_vertex_key(vk) { stale_v = Some(vk); } }
                "flip_k1_remove"
            }
            0 | 1 => { let (p, _) = w.pick_point(rng, 8); let _ = w.do_insert(p, false, rng); "insert" }
            2 => { let keys = w.live_keys(); if keys.len() > D + 2 { let vk = *rng.pick(&keys); let _ = w.do_remove(Some(vk), rng); if !w.dt.tds().contains_vertex_key(vk) { stale_v = Some(vk); } } "remove" }
            3 | 4 => { let _ = w.do_flip(rng); "flip" }
            _ => { let _ = crate::common::catch(|| w.dt.repair_delaunay_with_flips().is_ok()); "repair" }
        };
        if let Some(k) = cells_before.into_iter().find(|k| !w.dt.tds().contains_cell(*k)) { stale_c = Some(k); }
        if w.dt.number_of_cells() > 0 && w.dt.as_triangulation().is_valid().is_err() && !op.starts_with("flip") { break; }
        if w.dt.number_of_cells() == 0 { break; }
        emit(&format!("y{D}_{hid}_{s}"), &mut w, op, out, stale_v, stale_c);
    }
}

pub fn run(cfg: &Cfg, rng: &mut Rng, out: &mut Out) {
    let thorough = cfg.tier == "thorough";
    let nh = if thorough { 40 } else { 16 };
    for h in 0..nh {
        history::<2>(h, rng, out, if thorough { 12 } else { 6 });
        history::<3>(h, rng, out, if thorough { 10 } else { 5 });
        history::<4>(h, rng, out, if thorough { 8 } else { 4 });
        history::<5>(h, rng, out, if thorough { 6 } else { 3 });
    }
}
