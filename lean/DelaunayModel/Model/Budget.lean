/-
Model/Budget.lean — the budgets that bound every loop of the library:
  * flip repair: `default_max_flips` (flips.rs:3647) and the `flips_performed > max_flips ⇒
    NonConvergent` check after every applied flip (flips.rs:2526, :4060); a work queue from which
    one item is popped per iteration and to which a flip adds at most `E` items;
  * point location: `MAX_STEPS = 10000` then one scan (Model/Locate, Props/C10);
  * perturbation retries: `insert_transactional` runs attempts `0..=1`;
  * shuffled construction retries: `attempts + 1` (Props/C01), heuristic rebuild: at most
    `HEURISTIC_REBUILD_ATTEMPTS`, never nested (Props/C08);
  * local facet / neighbour repair: `MAX_REPAIR_ITERATIONS = 10`.
-/
namespace DM.Budget

/-- `default_max_flips::<D>(cells)` (saturating arithmetic ignored: cell counts are far below 2^64) -/
def defaultMaxFlips (D cells : Nat) (debug : Bool) : Nat :=
  if debug && D ≥ 4 then max (cells * (D + 1) * 4) 4096
  else
    let m := if debug && D == 3 then 8 else 4
    max (cells * (D + 1) * m) 512

structure LoopSt where
  queue : Nat        -- items waiting
  flips : Nat        -- flips applied so far
  iters : Nat        -- loop iterations so far
  deriving Repr, DecidableEq

inductive Outcome where
  | done (s : LoopSt)            -- queue drained
  | nonConvergent (s : LoopSt)   -- budget exceeded
  | outOfFuel (s : LoopSt)       -- (never happens: `loop_never_out_of_fuel`)
  deriving Repr, DecidableEq

/-- one repair attempt: `choice i` says what iteration `i` does with the popped item:
`none` = no flip (not a violation / not flippable), `some e` = flip applied, `e` new items (capped at `E`) -/
def loop (maxFlips E : Nat) (choice : Nat → Option Nat) : Nat → LoopSt → Outcome
  | 0, s => .outOfFuel s
  | fuel+1, s =>
    if s.queue == 0 then .done s else
    match choice s.iters with
    | none => loop maxFlips E choice fuel { queue := s.queue - 1, flips := s.flips, iters := s.iters + 1 }
    | some e =>
      let s' : LoopSt := { queue := s.queue - 1 + min e E, flips := s.flips + 1, iters := s.iters + 1 }
      if s'.flips > maxFlips then .nonConvergent s' else loop maxFlips E choice fuel s'

/-- enough fuel for every run from `s` -/
def fuelFor (maxFlips E : Nat) (s : LoopSt) : Nat := s.queue + (maxFlips + 1 - s.flips) * (E + 1) + 1

/-- queue items one cell can contribute: its facets, its ridges/edges and its triangles -/
def itemsPerCell (D : Nat) : Nat :=
  if D ≤ 2 then D + 1 else (D + 1) + (D + 1) * D / 2 + (D + 1) * D * (D - 1) / 6

/-- in-sphere evaluations per examined item: a facet (k = 2) compares the two opposite vertices
(2 evaluations); ridge / edge / triangle items look at up to D+2 cells -/
def evalsPerItem (D : Nat) : Nat := if D ≤ 2 then 2 else 2 * (D + 2)

/-- budget-implied bound on the in-sphere evaluations of ONE public repair call, for any predicate
behaviour: at most 6 attempts (3 of the plain entry point, the robust retry and the final repair of
the heuristic rebuild on top), each at most `queue0 + (maxFlips+1)(E+1)` iterations
(`loop_iters_bounded`) of at most `2(D+2)` evaluations, plus the postcondition sweeps. -/
def workBound (D cells : Nat) (debug : Bool) : Nat :=
  let b := defaultMaxFlips D cells debug
  let queue0 := cells * itemsPerCell D
  let e := (if D ≤ 2 then 2 else D + 2) * itemsPerCell D      -- new cells of one flip × their items
  let iters := queue0 + (b + 1) * (e + 1)
  6 * evalsPerItem D * iters + 6 * 2 * (D + 1) * cells

/-- perturbation attempts of one insertion: `0 ..= maxPerturb` -/
def insertAttempts (maxPerturb : Nat) (failsAt : Nat → Bool) : Nat → Nat → Nat
  | 0, used => used
  | fuel+1, used => if failsAt used then insertAttempts maxPerturb failsAt fuel (used + 1) else used + 1

end DM.Budget
