/-
Props/C06.lean — property theorems for C06 (vertex removal yields a valid triangulation minus
that vertex, or no change).

 * `remove_unknown_noop`: unknown UUID ⇒ `Ok(0)` and the state is untouched.
 * `remove_err_unchanged`: any `Err` leaves the state untouched (transactional guard).
 * `remove_ok_valid_or_empty`: on `Ok` with a known UUID the new state has no cells or passed
   Level 3 — for EVERY behaviour of the fan retriangulation / flip repair (a parameter).
 * `removeUuid_*`: bookkeeping — exactly the entries with that UUID disappear, all others keep
   uuid, coordinate bits and data, order preserved.
Known findings kept outside the theorem (see known_findings.json): the `no cells` branch can be
reached with more than D vertices left (F8a), and a hull-vertex removal can return a Level-3-valid
but non-convex, non-Delaunay complex (F8b).  Both are states the model's `unguarded` parameter is
free to produce; the K3 tie reports them.
 * star-removal section (end of file, Model/StarRemoval.lean): the CELL-SET edit of the removal
   (drop the star of `v`, add fill cells on the link vertices — fan retriangulation or the inverse
   k=1 move), the dual of the cavity section of Props/C02.lean — membership, count, which vertices
   survive (`starFill_link_vertex_lost`), facet degrees, the inverse relation with cavity insertion,
   and the executable step check `starRemovalProblem` (sound and complete).  Which fill is chosen
   (geometry) stays a parameter.
-/
import DelaunayModel.Model.Remove
import DelaunayModel.Lemmas.StarRemovalAux
namespace DM.C06

open DM.Remove

variable {S : Type}

theorem remove_unknown_noop (env : Env S) (s : S) (u : Nat)
    (h : ∀ v ∈ env.verts s, v.1 ≠ u) : removeVertex env s u = (.ok 0, s) := by
  unfold removeVertex
  have : (env.verts s).any (fun v => v.1 == u) = false := by
    simp only [List.any_eq_false, beq_iff_eq]
    intro v hv; exact h v hv
  simp [this]

theorem remove_err_unchanged (env : Env S) (s : S) (u : Nat) (e : String) (s' : S)
    (h : removeVertex env s u = (.error e, s')) : s' = s := by
  unfold removeVertex at h
  split at h
  · simp at h
  · split at h
    · injection h with _ h2; exact h2.symm
    · split at h
      · simp at h
      · injection h with _ h2; exact h2.symm

theorem remove_ok_valid_or_empty (env : Env S) (s : S) (u : Nat) (n : Nat) (s' : S)
    (hk : ∃ v ∈ env.verts s, v.1 = u)
    (h : removeVertex env s u = (.ok n, s')) :
    ∃ m, env.unguarded s u = .ok (s', m) ∧ m = n ∧ (env.hasCells s' = false ∨ env.level3 s' = true) := by
  unfold removeVertex at h
  have hany : (env.verts s).any (fun v => v.1 == u) = true := by
    obtain ⟨v, hv, hu⟩ := hk
    simp only [List.any_eq_true, beq_iff_eq]
    exact ⟨v, hv, hu⟩
  simp only [hany, Bool.not_true, Bool.false_eq_true, ↓reduceIte] at h
  split at h
  · simp at h
  · rename_i s1 m heq
    split at h
    · rename_i hc
      injection h with h1 h2
      injection h1 with h1
      subst h1; subst h2
      refine ⟨m, heq, rfl, ?_⟩
      simp only [Bool.or_eq_true, Bool.not_eq_eq_eq_not, Bool.not_true] at hc
      exact hc
    · simp at h

/-- bookkeeping: exactly the entries with that UUID disappear -/
theorem removeUuid_mem (V : List VRec) (u : Nat) (v : VRec) :
    v ∈ removeUuid V u ↔ v ∈ V ∧ v.1 ≠ u := by
  simp [removeUuid]

theorem removeUuid_gone (V : List VRec) (u : Nat) : ∀ v ∈ removeUuid V u, v.1 ≠ u := by
  intro v hv; exact ((removeUuid_mem V u v).1 hv).2

/-- all other entries are kept bit-for-bit, in order -/
theorem removeUuid_sublist (V : List VRec) (u : Nat) : (removeUuid V u).Sublist V := by
  unfold removeUuid; exact List.filter_sublist

theorem removeUuid_unknown (V : List VRec) (u : Nat) (h : ∀ v ∈ V, v.1 ≠ u) : removeUuid V u = V := by
  unfold removeUuid
  rw [List.filter_eq_self]
  intro v hv; simpa using h v hv

/-- with unique UUIDs exactly one entry disappears -/
theorem removeUuid_length (V : List VRec) (u : Nat) (hnd : (V.map (·.1)).Nodup)
    (hk : ∃ v ∈ V, v.1 = u) : (removeUuid V u).length + 1 = V.length := by
  induction V with
  | nil => obtain ⟨v, hv, _⟩ := hk; cases hv
  | cons x xs ih =>
    simp only [List.map_cons, List.nodup_cons, List.mem_map, not_exists, not_and] at hnd
    by_cases hx : x.1 = u
    · have : removeUuid (x :: xs) u = xs := by
        have hxs : ∀ v ∈ xs, v.1 ≠ u := by
          intro v hv heq; exact hnd.1 v hv (by rw [heq, hx])
        simp only [removeUuid, List.filter_cons, hx, bne_self_eq_false, Bool.false_eq_true,
          ↓reduceIte]
        exact removeUuid_unknown xs u hxs
      rw [this]; simp
    · have hk' : ∃ v ∈ xs, v.1 = u := by
        obtain ⟨v, hv, hu⟩ := hk
        cases hv with
        | head => exact absurd hu hx
        | tail _ hv => exact ⟨v, hv, hu⟩
      have := ih hnd.2 hk'
      simp only [removeUuid, List.filter_cons, bne_iff_ne, ne_eq, hx, not_false_eq_true,
        ↓reduceIte, List.length_cons] at this ⊢
      omega

/-- non-vacuity: a removal whose unguarded step yields a Level-3-valid state commits it; one that
yields an invalid state is rolled back -/
example : removeVertex (S := Nat)
    { verts := fun _ => [(7, [], 0)], unguarded := fun s _ => .ok (s + 1, 3),
      hasCells := fun _ => true, level3 := fun s => s == 1 } 0 7 = (.ok 3, 1) := by rfl
example : (removeVertex (S := Nat)
    { verts := fun _ => [(7, [], 0)], unguarded := fun s _ => .ok (s + 1, 3),
      hasCells := fun _ => true, level3 := fun _ => false } 0 7).2 = 0 := by rfl

end DM.C06

/-! ## The star removal (`Triangulation::remove_vertex`: fan fill / inverse k=1) on the abstract complex

Model: Model/StarRemoval.lean — drop the cells containing `v` (`starOf cells v`), add the cells
`fill` (`starFill`).  The dual of the cavity step of Props/C02.lean.  All theorems hold for every cell
list (no bound on size or dimension).  Hypotheses are stated where they are used: cells are sorted
duplicate-free lists (`Pairwise (· < ·)`), `cells.Nodup`, the fill cells do not contain `v` and are
not kept cells.

 * §s1 `starFill_mem`, `starFill_vertex_gone`, `starFill_other_cells_kept`
 * §s2 `starFill_length(_add)`, `starFill_nodup`, `starFill_count`
 * §s3 `starFill_vertex_kept_iff`, `starFill_link_vertex_lost` (the isolated-vertex hazard)
 * §s4 facet degrees: `starFill_facet_degree(_add,_link)`, `starFill_facet_degree_le_two(_link)`
 * §s5 inverse of the cavity insertion: `starFill_cavity_inverse`, `cavity_starFill_inverse`
 * §s6 the executable step check: `starRemovalProblem_none_iff`, `_none_spec`, `_none_sound`,
       `_complete`, `_complete_interior`, `starRemoval_facet_degree_le_two`
 * §s7 non-vacuity by `decide`
Helper lemmas: Lemmas/StarRemovalAux.lean.  Core only.
-/
namespace DM.C06
open DM

/-! ### §s1 membership -/

theorem starFill_mem (cells fill : List (List Nat)) (v : Nat) (x : List Nat) :
    x ∈ starFill cells v fill ↔ (x ∈ cells ∧ v ∉ x) ∨ x ∈ fill := by
  rw [starFill_eq, List.mem_append, mem_starKept]

/-- the removed vertex is in no cell afterwards (if the fill does not bring it back) -/
theorem starFill_vertex_gone (cells : List (List Nat)) {fill : List (List Nat)} {v : Nat}
    (hvF : ∀ c ∈ fill, v ∉ c) : ∀ x ∈ starFill cells v fill, v ∉ x := by
  intro x hx
  rcases (starFill_mem cells fill v x).1 hx with h | h
  · exact h.2
  · exact hvF x h

theorem starFill_vertex_not_in_vertexSet (cells : List (List Nat)) {fill : List (List Nat)} {v : Nat}
    (hvF : ∀ c ∈ fill, v ∉ c) : v ∉ vertexSet (starFill cells v fill) := by
  intro h
  obtain ⟨x, hx, hv⟩ := mem_vertexSet.1 h
  exact starFill_vertex_gone cells hvF x hx hv

/-- every cell not containing `v` is still there -/
theorem starFill_other_cells_kept (cells fill : List (List Nat)) {v : Nat} {c : List Nat}
    (hc : c ∈ cells) (hv : v ∉ c) : c ∈ starFill cells v fill :=
  (starFill_mem cells fill v c).2 (Or.inl ⟨hc, hv⟩)

/-- the cells that disappear are star cells -/
theorem starFill_removed_in_star (cells fill : List (List Nat)) {v : Nat} {c : List Nat}
    (hc : c ∈ cells) (hgone : c ∉ starFill cells v fill) : c ∈ starOf cells v := by
  refine mem_starOf.2 ⟨hc, ?_⟩
  apply Classical.byContradiction
  intro hv
  exact hgone (starFill_other_cells_kept cells fill hc hv)

/-! ### §s2 cell count -/

/-- additive form (no truncated subtraction); no hypothesis needed -/
theorem starFill_length_add (cells fill : List (List Nat)) (v : Nat) :
    (starFill cells v fill).length + (starOf cells v).length = cells.length + fill.length := by
  rw [starFill_eq, List.length_append, length_star_split cells v]
  omega

theorem starFill_length (cells fill : List (List Nat)) (v : Nat) :
    (starFill cells v fill).length = cells.length - (starOf cells v).length + fill.length := by
  have h1 := starFill_length_add cells fill v
  have h2 := length_star_split cells v
  omega

theorem starFill_nodup {cells fill : List (List Nat)} {v : Nat} (hnd : cells.Nodup)
    (hF : fill.Nodup) (hdis : ∀ c ∈ fill, c ∈ cells → v ∈ c) : (starFill cells v fill).Nodup := by
  rw [starFill_eq]
  refine List.nodup_append.2 ⟨starKept_nodup hnd v, hF, ?_⟩
  rintro a ha b hb rfl
  exact (mem_starKept.1 ha).2 (hdis a hb (mem_starKept.1 ha).1)

/-- the cell count changes by exactly `|fill| - |star|`, and no cell is duplicated if the fill is
duplicate-free and disjoint from the kept cells -/
theorem starFill_count {cells fill : List (List Nat)} {v : Nat} (hnd : cells.Nodup)
    (hF : fill.Nodup) (hdis : ∀ c ∈ fill, c ∈ cells → v ∈ c) :
    (starFill cells v fill).length = cells.length - (starOf cells v).length + fill.length ∧
    (starFill cells v fill).Nodup :=
  ⟨starFill_length cells fill v, starFill_nodup hnd hF hdis⟩

/-! ### §s3 which vertices survive -/

theorem starFill_vertex_kept_iff (cells fill : List (List Nat)) (u v : Nat) :
    (∃ x ∈ starFill cells v fill, u ∈ x) ↔
      (∃ c ∈ cells, v ∉ c ∧ u ∈ c) ∨ (∃ c ∈ fill, u ∈ c) := by
  constructor
  · rintro ⟨x, hx, hu⟩
    rcases (starFill_mem cells fill v x).1 hx with ⟨h1, h2⟩ | h
    · exact Or.inl ⟨x, h1, h2, hu⟩
    · exact Or.inr ⟨x, h, hu⟩
  · rintro (⟨c, h1, h2, hu⟩ | ⟨c, h, hu⟩)
    · exact ⟨c, starFill_other_cells_kept cells fill h1 h2, hu⟩
    · exact ⟨c, (starFill_mem cells fill v c).2 (Or.inr h), hu⟩

/-- **isolated vertex after removal** (the hazard of a bad fan): a vertex `u` all of whose cells are
star cells of `v` and that is in no fill cell is in NO cell afterwards -/
theorem starFill_link_vertex_lost (cells fill : List (List Nat)) {u v : Nat}
    (hstar : ∀ c ∈ cells, u ∈ c → v ∈ c) (hF : ∀ c ∈ fill, u ∉ c) :
    ∀ x ∈ starFill cells v fill, u ∉ x := by
  intro x hx hu
  rcases (starFill_vertex_kept_iff cells fill u v).1 ⟨x, hx, hu⟩ with ⟨c, h1, h2, h3⟩ | ⟨c, h, h3⟩
  · exact h2 (hstar c h1 h3)
  · exact hF c h h3

/-- the same, through `vertexSet` -/
theorem starFill_link_vertex_not_in_vertexSet (cells fill : List (List Nat)) {u v : Nat}
    (hstar : ∀ c ∈ cells, u ∈ c → v ∈ c) (hF : ∀ c ∈ fill, u ∉ c) :
    u ∉ vertexSet (starFill cells v fill) := by
  intro h
  obtain ⟨x, hx, hu⟩ := mem_vertexSet.1 h
  exact starFill_link_vertex_lost cells fill hstar hF x hx hu

/-- conversely a vertex with a cell outside the star stays -/
theorem starFill_vertex_survives (cells fill : List (List Nat)) {u v : Nat} {c : List Nat}
    (hc : c ∈ cells) (hv : v ∉ c) (hu : u ∈ c) : u ∈ vertexSet (starFill cells v fill) :=
  mem_vertexSet.2 ⟨c, starFill_other_cells_kept cells fill hc hv, hu⟩

/-! ### §s4 facet degrees -/

/-- additive form, every facet, no hypothesis: the degree drops by the degree inside the star and
rises by the degree inside the fill -/
theorem starFill_facet_degree_add (cells fill : List (List Nat)) (v : Nat) (f : List Nat) :
    facetCount (starFill cells v fill) f + facetCount (starOf cells v) f =
      facetCount cells f + facetCount fill f := by
  rw [starFill_eq, facetCount_append, facetCount_star_split cells v f]
  omega

theorem starFill_facet_degree (cells fill : List (List Nat)) (v : Nat) (f : List Nat) :
    facetCount (starFill cells v fill) f =
      facetCount cells f - facetCount (starOf cells v) f + facetCount fill f := by
  have h1 := starFill_facet_degree_add cells fill v f
  have h2 := facetCount_star_le cells v f
  omega

/-- facets not containing `v`, sorted duplicate-free cells: the degree drops by one iff the facet is a
link facet (dual of `cavity_facet_degree_with`) -/
theorem starFill_facet_degree_link {cells : List (List Nat)} (fill : List (List Nat)) {v : Nat}
    (hnd : cells.Nodup) (hs : ∀ c ∈ cells, c.Pairwise (· < ·)) {f : List Nat} (hvf : v ∉ f) :
    facetCount (starFill cells v fill) f =
      facetCount cells f - (if f ∈ linkOf cells v then 1 else 0) + facetCount fill f := by
  rw [starFill_facet_degree, facetCount_star_link hnd hs hvf]

/-- a facet containing `v` is a facet of no cell afterwards -/
theorem starFill_facet_through_v {cells fill : List (List Nat)} {v : Nat}
    (hvF : ∀ c ∈ fill, v ∉ c) {f : List Nat} (hvf : v ∈ f) :
    facetCount (starFill cells v fill) f = 0 :=
  facetCount_eq_zero_of_fresh (starFill_vertex_gone cells hvF) hvf

/-- **degree ≤ 2 is preserved** under the boundary-matching condition on the fill:
every facet of a fill cell has degree 1 in the fill, or degree 2 in the fill and is a facet of no kept
cell (`hint`); every boundary (degree 1) facet of the fill is a facet of a star cell or a facet of no
kept cell (`hbd`).  Every facet, no sortedness / `Nodup` hypothesis. -/
theorem starFill_facet_degree_le_two {cells fill : List (List Nat)} {v : Nat}
    (h2 : ∀ f, facetCount cells f ≤ 2)
    (hint : ∀ f ∈ cellFacets fill, facetCount fill f = 1 ∨
      (facetCount fill f = 2 ∧ facetCount (starKept cells v) f = 0))
    (hbd : ∀ f ∈ cavityBoundary fill, 1 ≤ facetCount (starOf cells v) f ∨
      facetCount (starKept cells v) f = 0) (f : List Nat) :
    facetCount (starFill cells v fill) f ≤ 2 := by
  have hadd := starFill_facet_degree_add cells fill v f
  have hsplit := facetCount_star_split cells v f
  have hc := h2 f
  by_cases hm : f ∈ cellFacets fill
  · rcases hint f hm with h1 | ⟨h1, h0⟩
    · rcases hbd f (mem_cavityBoundary.2 h1) with hb | hb
      · omega
      · omega
    · omega
  · have : facetCount fill f = 0 := by
      have h0 : ¬ 0 < facetCount fill f := fun h => hm (facetCount_pos_iff.1 h)
      omega
    omega

/-- the same with the conditions as `starRemovalProblem` checks them: interior facets of the fill are
facets of no cell before, boundary facets of the fill are link facets or facets of no cell before -/
theorem starFill_facet_degree_le_two_link {cells fill : List (List Nat)} {v : Nat}
    (h2 : ∀ f, facetCount cells f ≤ 2)
    (hint : ∀ f ∈ cellFacets fill, facetCount fill f = 1 ∨
      (facetCount fill f = 2 ∧ facetCount cells f = 0))
    (hbd : ∀ f ∈ cavityBoundary fill, f ∈ starLinkFacets cells v ∨ facetCount cells f = 0)
    (f : List Nat) : facetCount (starFill cells v fill) f ≤ 2 := by
  refine starFill_facet_degree_le_two h2 ?_ ?_ f
  · intro g hg
    rcases hint g hg with h | ⟨h, h0⟩
    · exact Or.inl h
    · have := facetCount_kept_le cells v g
      exact Or.inr ⟨h, by omega⟩
  · intro g hg
    rcases hbd g hg with h | h0
    · have := (mem_starLinkFacets.1 h).1
      exact Or.inl (by omega)
    · have := facetCount_kept_le cells v g
      exact Or.inr (by omega)

/-! ### §s5 inverse of the cavity insertion -/

/-- removing the freshly inserted vertex with the old cavity cells as fill restores the cell LIST up
to the position of the cavity cells -/
theorem starFill_cavityInsertWith_eq {cells : List (List Nat)} (C F : List (List Nat)) {v : Nat}
    (hfresh : ∀ c ∈ cells, v ∉ c) :
    starFill (cavityInsertWith cells C F v) v C = cells.filter (fun c => !C.contains c) ++ C := by
  unfold starFill cavityInsertWith
  rw [List.filter_append]
  have e1 : (cells.filter (fun c => !C.contains c)).filter (fun c => !c.contains v) =
      cells.filter (fun c => !C.contains c) := by
    rw [List.filter_eq_self]
    intro a ha
    simpa using hfresh a (List.mem_filter.1 ha).1
  have e2 : (F.map (coneCell v)).filter (fun c => !c.contains v) = [] := by
    rw [List.filter_eq_nil_iff]
    intro a ha
    obtain ⟨f, _, rfl⟩ := List.mem_map.1 ha
    simpa using self_mem_coneCell v f
  rw [e1, e2, List.append_nil]

/-- **removal undoes insertion** (any coned facets `F`, in particular the hull extension): as sets -/
theorem starFill_cavityInsertWith_inverse {cells C : List (List Nat)} (F : List (List Nat)) {v : Nat}
    (hsub : ∀ c ∈ C, c ∈ cells) (hfresh : ∀ c ∈ cells, v ∉ c) (x : List Nat) :
    x ∈ starFill (cavityInsertWith cells C F v) v C ↔ x ∈ cells := by
  rw [starFill_cavityInsertWith_eq C F hfresh, List.mem_append, List.mem_filter]
  constructor
  · rintro (h | h)
    · exact h.1
    · exact hsub x h
  · intro h
    by_cases hm : x ∈ C
    · exact Or.inr hm
    · exact Or.inl ⟨h, by simpa using hm⟩

/-- interior instance -/
theorem starFill_cavity_inverse {cells C : List (List Nat)} {v : Nat}
    (hsub : ∀ c ∈ C, c ∈ cells) (hfresh : ∀ c ∈ cells, v ∉ c) (x : List Nat) :
    x ∈ starFill (cavityInsert cells C v) v C ↔ x ∈ cells :=
  starFill_cavityInsertWith_inverse (cavityBoundary C) hsub hfresh x

/-- with duplicate-free lists: as a permutation (so every count — cells, facets — is restored) -/
theorem starFill_cavity_inverse_perm {cells C : List (List Nat)} (F : List (List Nat)) {v : Nat}
    (hnd : cells.Nodup) (hC : C.Nodup) (hsub : ∀ c ∈ C, c ∈ cells) (hfresh : ∀ c ∈ cells, v ∉ c) :
    (starFill (cavityInsertWith cells C F v) v C).Perm cells := by
  rw [starFill_cavityInsertWith_eq C F hfresh]
  exact filter_not_contains_append_perm hnd hC hsub

/-- **insertion undoes removal**: re-inserting `v` with the fill as conflict region and the old link
as coned facets gives the old cells back, as sets (the fill cells must not be cells before) -/
theorem cavity_starFill_inverse {cells fill : List (List Nat)} {v : Nat}
    (hs : ∀ c ∈ cells, c.Pairwise (· < ·)) (hdis : ∀ c ∈ fill, c ∉ cells) (x : List Nat) :
    x ∈ cavityInsertWith (starFill cells v fill) fill (linkOf cells v) v ↔ x ∈ cells := by
  unfold cavityInsertWith
  rw [List.mem_append, List.mem_filter, List.mem_map, starFill_mem]
  constructor
  · rintro (⟨h1 | h1, h2⟩ | ⟨f, hf, rfl⟩)
    · exact h1.1
    · simp [h1] at h2
    · obtain ⟨c, hc, hv, rfl⟩ := mem_linkOf.1 hf
      rw [coneCell_without (hs c hc) hv]
      exact hc
  · intro hx
    by_cases hv : v ∈ x
    · exact Or.inr ⟨without x v, mem_linkOf.2 ⟨x, hx, hv, rfl⟩, coneCell_without (hs x hx) hv⟩
    · have hn : x ∉ fill := fun h => hdis x h hx
      exact Or.inl ⟨Or.inl ⟨hx, hv⟩, by simpa using hn⟩

/-- interior instance: if the boundary of the fill is the link of `v` (as sets), the interior cavity
insertion of `v` with the fill as conflict region gives the old cells back -/
theorem cavity_starFill_inverse_interior {cells fill : List (List Nat)} {v : Nat}
    (hs : ∀ c ∈ cells, c.Pairwise (· < ·)) (hdis : ∀ c ∈ fill, c ∉ cells)
    (hB : ∀ f, f ∈ cavityBoundary fill ↔ f ∈ linkOf cells v) (x : List Nat) :
    x ∈ cavityInsert (starFill cells v fill) fill v ↔ x ∈ cells := by
  rw [← cavity_starFill_inverse hs hdis x]
  unfold cavityInsert cavityInsertWith
  simp only [List.mem_append, List.mem_map]
  constructor
  · rintro (h | ⟨f, hf, rfl⟩)
    · exact Or.inl h
    · exact Or.inr ⟨f, (hB f).1 hf, rfl⟩
  · rintro (h | ⟨f, hf, rfl⟩)
    · exact Or.inl h
    · exact Or.inr ⟨f, (hB f).2 hf, rfl⟩

/-! ### §s6 the executable step check -/

/-- what `starRemovalProblem pre post v = none` checks, in `Prop` form; `R = stepRemoved pre post`
(`pre \ post`), `N = stepCreated pre post` (`post \ pre`) -/
structure StarRemovalChecks (pre post : List (List Nat)) (v : Nat) : Prop where
  star_ne : starOf pre v ≠ []
  gone : ∀ c ∈ post, v ∉ c
  removed_star : ∀ c ∈ stepRemoved pre post, c ∈ starOf pre v
  star_removed : ∀ c ∈ starOf pre v, c ∈ stepRemoved pre post
  link_verts : ∀ c ∈ stepCreated pre post, ∀ u ∈ c, u ≠ v ∧ u ∈ starVerts pre v
  fill_nodup : (stepCreated pre post).Nodup
  fill_facets : ∀ f ∈ cellFacets (stepCreated pre post),
    facetCount (stepCreated pre post) f = 1 ∨
      (facetCount (stepCreated pre post) f = 2 ∧ facetCount pre f = 0)
  fill_boundary : ∀ f ∈ cavityBoundary (stepCreated pre post),
    f ∈ starLinkFacets pre v ∨ (starOnHull pre v = true ∧ facetCount pre f = 0)
  link_covered : ∀ f ∈ starLinkFacets pre v, f ∈ cavityBoundary (stepCreated pre post) ∨
    (starOnHull pre v = true ∧ facetCount (stepCreated pre post) f = 0)
  post_sub : ∀ x ∈ post, x ∈ starFill pre v (stepCreated pre post)
  sub_post : ∀ x ∈ starFill pre v (stepCreated pre post), x ∈ post

theorem not_bnot_true {b : Bool} (h : ¬ ((!b) = true)) : b = true := by
  cases b <;> simp_all

/-- one link of the `if … then some reason else …` chain (`split` is too slow on ten links) -/
theorem ite_some_eq_none {c : Prop} [Decidable c] {s : String} {r : Option String} :
    (if c then some s else r) = none ↔ ¬ c ∧ r = none := by
  by_cases h : c <;> simp [h]

theorem starRemovalProblem_none_iff (pre post : List (List Nat)) (v : Nat) :
    starRemovalProblem pre post v = none ↔ StarRemovalChecks pre post v := by
  unfold starRemovalProblem
  dsimp only
  constructor
  · intro h
    rw [ite_some_eq_none] at h
    obtain ⟨h1, h⟩ := h
    rw [ite_some_eq_none] at h
    obtain ⟨h2, h⟩ := h
    rw [ite_some_eq_none] at h
    obtain ⟨h3, h⟩ := h
    rw [ite_some_eq_none] at h
    obtain ⟨h4, h⟩ := h
    rw [ite_some_eq_none] at h
    obtain ⟨h5, h⟩ := h
    rw [ite_some_eq_none] at h
    obtain ⟨h6, h⟩ := h
    rw [ite_some_eq_none] at h
    obtain ⟨h7, h⟩ := h
    rw [ite_some_eq_none] at h
    obtain ⟨h8, h⟩ := h
    rw [ite_some_eq_none] at h
    obtain ⟨h9, h⟩ := h
    rw [ite_some_eq_none] at h
    obtain ⟨h10, h⟩ := h
    have h3 := List.all_eq_true.1 (not_bnot_true h3)
    have h4 := List.all_eq_true.1 (not_bnot_true h4)
    have h5 := List.all_eq_true.1 (not_bnot_true h5)
    have h6 := (nodupB_iff _).1 (not_bnot_true h6)
    have h7 := List.all_eq_true.1 (not_bnot_true h7)
    have h8 := List.all_eq_true.1 (not_bnot_true h8)
    have h9 := List.all_eq_true.1 (not_bnot_true h9)
    have h10 := Bool.and_eq_true_iff.1 (not_bnot_true h10)
    have h10a := List.all_eq_true.1 h10.1
    have h10b := List.all_eq_true.1 h10.2
    refine ⟨by simpa using h1, by simpa using h2,
      fun c hc => List.contains_iff_mem.1 (h3 c hc), fun c hc => List.contains_iff_mem.1 (h4 c hc),
      ?_, h6, ?_, ?_, ?_, fun x hx => List.contains_iff_mem.1 (h10a x hx),
      fun x hx => List.contains_iff_mem.1 (h10b x hx)⟩
    · intro c hc u hu
      have := List.all_eq_true.1 (h5 c hc) u hu
      simpa using this
    · intro f hf
      have := h7 f hf
      unfold facetCount
      simpa using this
    · intro f hf
      have := h8 f hf
      unfold facetCount
      simpa using this
    · intro f hf
      have := h9 f hf
      unfold facetCount
      simpa using this
  · intro k
    have b3 : (stepRemoved pre post).all (starOf pre v).contains = true :=
      List.all_eq_true.2 (fun c hc => List.contains_iff_mem.2 (k.removed_star c hc))
    have b4 : (starOf pre v).all (stepRemoved pre post).contains = true :=
      List.all_eq_true.2 (fun c hc => List.contains_iff_mem.2 (k.star_removed c hc))
    have b5 : (stepCreated pre post).all
        (fun c => c.all (fun u => u != v && (starVerts pre v).contains u)) = true :=
      List.all_eq_true.2 (fun c hc => List.all_eq_true.2 (fun u hu => by
        simpa using k.link_verts c hc u hu))
    have b6 : nodupB (stepCreated pre post) = true := (nodupB_iff _).2 k.fill_nodup
    have b7 : (cellFacets (stepCreated pre post)).all
        (fun f => (cellFacets (stepCreated pre post)).count f == 1 ||
          ((cellFacets (stepCreated pre post)).count f == 2 && (cellFacets pre).count f == 0))
        = true :=
      List.all_eq_true.2 (fun f hf => by simpa [facetCount] using k.fill_facets f hf)
    have b8 : (cavityBoundary (stepCreated pre post)).all
        (fun f => (starLinkFacets pre v).contains f ||
          (starOnHull pre v && (cellFacets pre).count f == 0)) = true :=
      List.all_eq_true.2 (fun f hf => by simpa [facetCount] using k.fill_boundary f hf)
    have b9 : (starLinkFacets pre v).all
        (fun f => (cavityBoundary (stepCreated pre post)).contains f ||
          (starOnHull pre v && (cellFacets (stepCreated pre post)).count f == 0)) = true :=
      List.all_eq_true.2 (fun f hf => by simpa [facetCount] using k.link_covered f hf)
    have b10a : post.all (starFill pre v (stepCreated pre post)).contains = true :=
      List.all_eq_true.2 (fun x hx => List.contains_iff_mem.2 (k.post_sub x hx))
    have b10b : (starFill pre v (stepCreated pre post)).all post.contains = true :=
      List.all_eq_true.2 (fun x hx => List.contains_iff_mem.2 (k.sub_post x hx))
    rw [if_neg (by simpa using k.star_ne), if_neg (by simpa using k.gone), b3, b4, b5, b6, b7, b8,
      b9, b10a, b10b]
    rfl

/-- what a legal star removal from `pre` to `post` with fill `fill` is -/
structure StarRemovalSpec (pre post : List (List Nat)) (v : Nat) (fill : List (List Nat)) :
    Prop where
  star_ne : starOf pre v ≠ []
  fill_avoids : ∀ c ∈ fill, v ∉ c
  fill_new : ∀ c ∈ fill, c ∉ pre
  fill_nodup : fill.Nodup
  same_cells : ∀ x, x ∈ post ↔ x ∈ starFill pre v fill
  gone : ∀ c ∈ post, v ∉ c
  removed_star : ∀ c ∈ pre, c ∉ post → v ∈ c
  link_verts : ∀ c ∈ fill, ∀ u ∈ c, u ≠ v ∧ ∃ s ∈ starOf pre v, u ∈ s
  fill_facets : ∀ f ∈ cellFacets fill,
    facetCount fill f = 1 ∨ (facetCount fill f = 2 ∧ facetCount pre f = 0)
  fill_boundary : ∀ f ∈ cavityBoundary fill,
    f ∈ starLinkFacets pre v ∨ (starOnHull pre v = true ∧ facetCount pre f = 0)
  link_covered : ∀ f ∈ starLinkFacets pre v,
    f ∈ cavityBoundary fill ∨ (starOnHull pre v = true ∧ facetCount fill f = 0)

/-- **soundness of the executable check**, with the reconstructed fill `post \ pre` -/
theorem starRemovalProblem_none_spec {pre post : List (List Nat)} {v : Nat}
    (h : starRemovalProblem pre post v = none) :
    StarRemovalSpec pre post v (stepCreated pre post) := by
  have k := (starRemovalProblem_none_iff pre post v).1 h
  refine ⟨k.star_ne, fun c hc => k.gone c (mem_stepCreated_iff.1 hc).1,
    fun c hc => (mem_stepCreated_iff.1 hc).2, k.fill_nodup, fun x => ⟨k.post_sub x, k.sub_post x⟩,
    k.gone, ?_, ?_, k.fill_facets, k.fill_boundary, k.link_covered⟩
  · intro c hc hn
    exact (mem_starOf.1 (k.removed_star c (mem_stepRemoved_iff.2 ⟨hc, hn⟩))).2
  · intro c hc u hu
    exact ⟨(k.link_verts c hc u hu).1, mem_starVerts.1 (k.link_verts c hc u hu).2⟩

/-- **soundness of the executable check**: a step that passes is a star removal — there is a `fill`
such that `post` is, as a set of cells, `starFill pre v fill`; no fill cell contains `v`, every
removed cell contained `v`, the fill uses link vertices only, and the boundary of the fill matches
the link (exactly, if `v` is not a hull vertex) -/
theorem starRemovalProblem_none_sound {pre post : List (List Nat)} {v : Nat}
    (h : starRemovalProblem pre post v = none) :
    ∃ fill, (∀ c ∈ fill, v ∉ c) ∧ (∀ x, x ∈ post ↔ x ∈ starFill pre v fill) ∧
      (∀ c ∈ pre, c ∉ post → v ∈ c) ∧ (∀ c ∈ post, v ∉ c) ∧ starOf pre v ≠ [] ∧
      (∀ c ∈ fill, ∀ u ∈ c, u ≠ v ∧ ∃ s ∈ starOf pre v, u ∈ s) ∧ fill.Nodup ∧
      (∀ c ∈ fill, c ∉ pre) ∧
      (∀ f ∈ cellFacets fill,
        facetCount fill f = 1 ∨ (facetCount fill f = 2 ∧ facetCount pre f = 0)) ∧
      (∀ f ∈ cavityBoundary fill,
        f ∈ starLinkFacets pre v ∨ (starOnHull pre v = true ∧ facetCount pre f = 0)) ∧
      (∀ f ∈ starLinkFacets pre v,
        f ∈ cavityBoundary fill ∨ (starOnHull pre v = true ∧ facetCount fill f = 0)) := by
  have k := starRemovalProblem_none_spec h
  exact ⟨_, k.fill_avoids, k.same_cells, k.removed_star, k.gone, k.star_ne, k.link_verts,
    k.fill_nodup, k.fill_new, k.fill_facets, k.fill_boundary, k.link_covered⟩

/-- for an interior vertex (no facet through `v` on the hull) a step that passes has
`∂(fill) = link(v)` as sets -/
theorem starRemovalProblem_none_interior {pre post : List (List Nat)} {v : Nat}
    (h : starRemovalProblem pre post v = none) (hint : starOnHull pre v = false) (f : List Nat) :
    f ∈ cavityBoundary (stepCreated pre post) ↔ f ∈ starLinkFacets pre v := by
  have k := starRemovalProblem_none_spec h
  constructor
  · intro hf
    rcases k.fill_boundary f hf with h1 | ⟨h1, _⟩
    · exact h1
    · rw [hint] at h1
      cases h1
  · intro hf
    rcases k.link_covered f hf with h1 | ⟨h1, _⟩
    · exact h1
    · rw [hint] at h1
      cases h1

/-- end to end: a step that passes the check keeps every facet at degree ≤ 2 -/
theorem starRemoval_facet_degree_le_two {pre post : List (List Nat)} {v : Nat}
    (h : starRemovalProblem pre post v = none) (hpre : pre.Nodup) (hpost : post.Nodup)
    (h2 : ∀ f, facetCount pre f ≤ 2) (f : List Nat) : facetCount post f ≤ 2 := by
  have k := starRemovalProblem_none_spec h
  have hnd : (starFill pre v (stepCreated pre post)).Nodup :=
    starFill_nodup hpre k.fill_nodup (fun c hc hp => absurd hp (k.fill_new c hc))
  have hperm : post.Perm (starFill pre v (stepCreated pre post)) :=
    (List.perm_ext_iff_of_nodup hpost hnd).2 k.same_cells
  rw [facetCount_perm hperm f]
  refine starFill_facet_degree_le_two_link h2 k.fill_facets ?_ f
  intro g hg
  rcases k.fill_boundary g hg with h1 | ⟨_, h0⟩
  · exact Or.inl h1
  · exact Or.inr h0

/-- **completeness of the executable check**: every star removal whose fill avoids `v`, is new,
duplicate-free, uses star vertices only and satisfies the boundary-matching conditions passes the
check.  Together with `starRemovalProblem_none_spec` the check accepts exactly the legal steps. -/
theorem starRemovalProblem_complete {pre fill : List (List Nat)} {v : Nat}
    (hne : starOf pre v ≠ []) (hvF : ∀ c ∈ fill, v ∉ c) (hdis : ∀ c ∈ fill, c ∉ pre)
    (hF : fill.Nodup) (hverts : ∀ c ∈ fill, ∀ u ∈ c, ∃ s ∈ starOf pre v, u ∈ s)
    (hfac : ∀ f ∈ cellFacets fill,
      facetCount fill f = 1 ∨ (facetCount fill f = 2 ∧ facetCount pre f = 0))
    (hbd : ∀ f ∈ cavityBoundary fill,
      f ∈ starLinkFacets pre v ∨ (starOnHull pre v = true ∧ facetCount pre f = 0))
    (hcov : ∀ f ∈ starLinkFacets pre v,
      f ∈ cavityBoundary fill ∨ (starOnHull pre v = true ∧ facetCount fill f = 0)) :
    starRemovalProblem pre (starFill pre v fill) v = none := by
  have e1 := stepRemoved_starFill (pre := pre) hvF
  have e2 := stepCreated_starFill (pre := pre) v hdis
  rw [starRemovalProblem_none_iff]
  refine ⟨hne, starFill_vertex_gone pre hvF, ?_, ?_, ?_, ?_, ?_, ?_, ?_, ?_, ?_⟩
  · rw [e1]
    exact fun c hc => hc
  · rw [e1]
    exact fun c hc => hc
  · rw [e2]
    intro c hc u hu
    exact ⟨fun e => hvF c hc (e ▸ hu), mem_starVerts.2 (hverts c hc u hu)⟩
  · rw [e2]
    exact hF
  · rw [e2]
    exact hfac
  · rw [e2]
    exact hbd
  · rw [e2]
    exact hcov
  · rw [e2]
    exact fun x hx => hx
  · rw [e2]
    exact fun x hx => hx

/-- interior instance, with the link given as `linkOf pre v`: every removal of a vertex of a sorted
duplicate-free complex whose fill is new, on link vertices, with every facet in at most two fill
cells, interior fill facets new, and `∂(fill) = link(v)` passes the check -/
theorem starRemovalProblem_complete_interior {pre fill : List (List Nat)} {v : Nat}
    (hnd : pre.Nodup) (hs : ∀ c ∈ pre, c.Pairwise (· < ·))
    (hne : starOf pre v ≠ []) (hvF : ∀ c ∈ fill, v ∉ c) (hdis : ∀ c ∈ fill, c ∉ pre)
    (hF : fill.Nodup) (hverts : ∀ c ∈ fill, ∀ u ∈ c, ∃ s ∈ starOf pre v, u ∈ s)
    (hfac : ∀ f ∈ cellFacets fill,
      facetCount fill f = 1 ∨ (facetCount fill f = 2 ∧ facetCount pre f = 0))
    (hB : ∀ f, f ∈ cavityBoundary fill ↔ f ∈ linkOf pre v) :
    starRemovalProblem pre (starFill pre v fill) v = none :=
  starRemovalProblem_complete hne hvF hdis hF hverts hfac
    (fun f hf => Or.inl ((mem_starLinkFacets_iff_link hnd hs).2 ((hB f).1 hf)))
    (fun f hf => Or.inl ((hB f).2 ((mem_starLinkFacets_iff_link hnd hs).1 hf)))

/-! ### §s7 non-vacuity -/

/-- 2-D, inverse k=1 move: the interior vertex `9` with the star of three triangles inside
`[0,1,2]`; the fill is the single triangle; link = boundary of the fill; not a hull vertex -/
theorem ex_star_k1 :
    starFill [[0, 1, 9], [1, 2, 9], [0, 2, 9]] 9 [[0, 1, 2]] = [[0, 1, 2]] ∧
    starRemovalProblem [[0, 1, 9], [1, 2, 9], [0, 2, 9]] [[0, 1, 2]] 9 = none ∧
    starLinkFacets [[0, 1, 9], [1, 2, 9], [0, 2, 9]] 9 = [[0, 1], [1, 2], [0, 2]] ∧
    linkOf [[0, 1, 9], [1, 2, 9], [0, 2, 9]] 9 = [[0, 1], [1, 2], [0, 2]] ∧
    starOnHull [[0, 1, 9], [1, 2, 9], [0, 2, 9]] 9 = false := by
  decide

/-- 2-D, interior vertex of degree 4 with two kept neighbours: fan of two triangles from `0` -/
theorem ex_star_deg4 :
    starRemovalProblem [[0, 1, 9], [1, 2, 9], [2, 3, 9], [0, 3, 9]] [[0, 1, 2], [0, 2, 3]] 9 = none ∧
    starRemovalProblem [[0, 1, 9], [1, 2, 9], [2, 3, 9], [0, 3, 9], [0, 1, 5], [1, 2, 6]]
      [[0, 1, 5], [0, 1, 2], [1, 2, 6], [0, 2, 3]] 9 = none ∧
    starFill [[0, 1, 9], [1, 2, 9], [2, 3, 9], [0, 3, 9], [0, 1, 5], [1, 2, 6]] 9
      [[0, 1, 2], [0, 2, 3]] = [[0, 1, 5], [1, 2, 6], [0, 1, 2], [0, 2, 3]] := by
  decide

/-- hull vertex: `3` removed from `[[0,1,2],[1,2,3]]`, empty fill, the link edge `[1,2]` becomes a
hull edge; a hull vertex with a reflex link vertex `1`: the fill `[0,1,2]` has the NEW hull edge
`[0,2]` (accepted), and the empty fill is accepted too (legal complex, not convex: geometry is outside
the model); the last cell removed -/
theorem ex_star_hull :
    starFill [[0, 1, 2], [1, 2, 3]] 3 [] = [[0, 1, 2]] ∧
    starRemovalProblem [[0, 1, 2], [1, 2, 3]] [[0, 1, 2]] 3 = none ∧
    starOnHull [[0, 1, 2], [1, 2, 3]] 3 = true ∧
    starRemovalProblem [[0, 1, 9], [1, 2, 9], [0, 1, 3], [1, 2, 3]] [[0, 1, 3], [1, 2, 3], [0, 1, 2]] 9
      = none ∧
    starRemovalProblem [[0, 1, 9], [1, 2, 9], [0, 1, 3], [1, 2, 3]] [[0, 1, 3], [1, 2, 3]] 9 = none ∧
    starRemovalProblem [[0, 1, 2]] [] 2 = none := by
  decide

/-- 3-D inverse k=1 move: `9` inside the tetrahedron `[0,1,2,3]` -/
theorem ex_star_3d :
    starRemovalProblem [[0, 1, 2, 9], [0, 1, 3, 9], [0, 2, 3, 9], [1, 2, 3, 9], [0, 1, 2, 4]]
      [[0, 1, 2, 4], [0, 1, 2, 3]] 9 = none := by
  decide

/-- negative: a fill on a foreign vertex (`7` is not a link vertex of `9`); a fill that leaves link
facets of an interior vertex uncovered (nothing filled — with and without a kept neighbour; one
triangle of the two of the fan: its edge `[0,2]` is not a link facet and `[2,3]`, `[0,3]` stay
uncovered) -/
theorem ex_star_bad_fill :
    (starRemovalProblem [[0, 1, 9], [1, 2, 9], [0, 2, 9]] [[0, 1, 7], [1, 2, 7], [0, 2, 7]] 9).isSome
      = true ∧
    (starRemovalProblem [[0, 1, 9], [1, 2, 9], [0, 2, 9]] [] 9).isSome = true ∧
    (starRemovalProblem [[0, 1, 9], [1, 2, 9], [2, 3, 9], [0, 3, 9]] [[0, 1, 2]] 9).isSome = true ∧
    (starRemovalProblem [[0, 1, 9], [1, 2, 9], [0, 2, 9], [0, 1, 5]] [[0, 1, 5]] 9).isSome = true := by
  decide

/-- negative: `post` still contains `v`; a non-star cell (`[0,1,5]`) disappears; `v` was in no cell;
the hull vertex `9` with link path `0-1-2-3`: two fill cells on the link edge `[0,1]` (it would get
degree 3 with a kept cell, and has degree 2 in the fill without being new); a fill cell `[0,1,2]`
glued onto the interior edge `[0,2]` of the kept cells `[0,2,5]`, `[0,2,6]` (degree 3) -/
theorem ex_star_bad_other :
    (starRemovalProblem [[0, 1, 9], [1, 2, 9], [0, 2, 9]] [[0, 1, 2], [0, 2, 9]] 9).isSome = true ∧
    (starRemovalProblem [[0, 1, 9], [1, 2, 9], [0, 2, 9], [0, 1, 5]] [[0, 1, 2]] 9).isSome = true ∧
    (starRemovalProblem [[0, 1, 2]] [[0, 1, 2]] 9).isSome = true ∧
    (starRemovalProblem [[0, 1, 9], [1, 2, 9], [2, 3, 9]] [[0, 1, 2], [0, 1, 3]] 9).isSome = true ∧
    (starRemovalProblem [[0, 1, 9], [1, 2, 9], [0, 2, 5], [0, 2, 6]]
      [[0, 2, 5], [0, 2, 6], [0, 1, 2]] 9).isSome = true := by
  decide

/-- the isolated-vertex hazard, obtained from the general theorem: a (bad) fill that forgets the link
vertex `3` of `9`, whose only cells are star cells -/
example : ∀ x ∈ starFill [[0, 1, 9], [1, 2, 9], [2, 3, 9], [0, 3, 9]] 9 [[0, 1, 2]], 3 ∉ x :=
  starFill_link_vertex_lost _ _ (by decide) (by decide)

/-- removal undoes insertion on the example of Props/C02 (`ex_cavity_2d`) -/
example : starFill (cavityInsert [[0, 1, 2], [1, 2, 3]] [[0, 1, 2], [1, 2, 3]] 4) 4
    [[0, 1, 2], [1, 2, 3]] = [[0, 1, 2], [1, 2, 3]] ∧
    cavityInsert (starFill [[0, 2, 4], [0, 1, 4], [2, 3, 4], [1, 3, 4]] 4 [[0, 1, 2], [1, 2, 3]])
      [[0, 1, 2], [1, 2, 3]] 4 = [[0, 2, 4], [0, 1, 4], [2, 3, 4], [1, 3, 4]] := by
  decide

/-- the degree formula on an example: the link edge `[0,1]` keeps degree 2 (one star cell out, one
fill cell in), the new interior edge `[0,2]` of the fan gets degree 2 -/
example : facetCount (starFill [[0, 1, 9], [1, 2, 9], [2, 3, 9], [0, 3, 9], [0, 1, 5]] 9
      [[0, 1, 2], [0, 2, 3]]) [0, 1] = 2 ∧
    facetCount (starFill [[0, 1, 9], [1, 2, 9], [2, 3, 9], [0, 3, 9], [0, 1, 5]] 9
      [[0, 1, 2], [0, 2, 3]]) [0, 2] = 2 := by
  decide

end DM.C06
