/-
Lemmas/CavityAux.lean — helper lemmas about the cavity-insertion model (Model/Cavity.lean) used by
the cavity section of Props/C02.lean: sorted lists are determined by their elements, the cone cell
`coneCell v f` (`f ∪ {v}`) and its facets (`without (coneCell v f) v = f`,
`without (coneCell v f) x = coneCell v (without f x)`), `cavityBoundary` is duplicate-free and is
exactly the set of facets of degree 1 in `C`, splitting `facetCount` along `cells = (cells \ C) ∪ C`,
facet counts of a cone.  Core only (no Mathlib).
-/
import DelaunayModel.Model.Cavity
import DelaunayModel.Lemmas.FlipAux
namespace DM

/-! ### sorted lists -/

theorem sorted_perm_eq {a b : List Nat} (ha : a.Pairwise (· ≤ ·)) (hb : b.Pairwise (· ≤ ·))
    (h : a.Perm b) : a = b :=
  List.Perm.eq_of_pairwise (le := (· ≤ ·)) (fun _ _ _ _ h1 h2 => Nat.le_antisymm h1 h2) ha hb h

theorem lt_sorted_le {l : List Nat} (h : l.Pairwise (· < ·)) : l.Pairwise (· ≤ ·) :=
  h.imp (fun hab => Nat.le_of_lt hab)

theorem lt_sorted_nodup {l : List Nat} (h : l.Pairwise (· < ·)) : l.Nodup :=
  h.imp (fun hab => Nat.ne_of_lt hab)

theorem le_sorted_nodup_lt {l : List Nat} (h : l.Pairwise (· ≤ ·)) (hn : l.Nodup) :
    l.Pairwise (· < ·) := by
  induction l with
  | nil => exact List.Pairwise.nil
  | cons a l ih =>
    rw [List.pairwise_cons] at h ⊢
    rw [List.nodup_cons] at hn
    refine ⟨fun b hb => ?_, ih h.2 hn.2⟩
    have h1 := h.1 b hb
    have h2 : a ≠ b := fun e => hn.1 (e ▸ hb)
    omega

theorem without_lt_sorted {c : List Nat} (h : c.Pairwise (· < ·)) (x : Nat) :
    (without c x).Pairwise (· < ·) :=
  h.sublist List.filter_sublist

theorem without_le_sorted {c : List Nat} (h : c.Pairwise (· ≤ ·)) (x : Nat) :
    (without c x).Pairwise (· ≤ ·) :=
  h.sublist List.filter_sublist

theorem without_eq_self {c : List Nat} {x : Nat} (h : x ∉ c) : without c x = c := by
  unfold without
  rw [List.filter_eq_self]
  intro a ha
  have : a ≠ x := fun e => h (e ▸ ha)
  simpa using this

/-! ### the cone cell -/

theorem mem_coneCell {v x : Nat} {f : List Nat} : x ∈ coneCell v f ↔ x = v ∨ x ∈ f := by
  simp [coneCell, mem_sortNat]

theorem self_mem_coneCell (v : Nat) (f : List Nat) : v ∈ coneCell v f :=
  mem_coneCell.2 (Or.inl rfl)

theorem coneCell_perm (v : Nat) (f : List Nat) : (coneCell v f).Perm (v :: f) := sortNat_perm _

theorem coneCell_length (v : Nat) (f : List Nat) : (coneCell v f).length = f.length + 1 := by
  simp [coneCell, sortNat_length]

theorem coneCell_le_sorted (v : Nat) (f : List Nat) : (coneCell v f).Pairwise (· ≤ ·) :=
  sortNat_sorted _

theorem coneCell_nodup {v : Nat} {f : List Nat} (hv : v ∉ f) (hf : f.Nodup) :
    (coneCell v f).Nodup :=
  (coneCell_perm v f).nodup_iff.2 (List.nodup_cons.2 ⟨hv, hf⟩)

theorem coneCell_lt_sorted {v : Nat} {f : List Nat} (hv : v ∉ f) (hf : f.Pairwise (· < ·)) :
    (coneCell v f).Pairwise (· < ·) :=
  le_sorted_nodup_lt (coneCell_le_sorted v f) (coneCell_nodup hv (lt_sorted_nodup hf))

/-- removing the apex gives the base back -/
theorem without_coneCell_self {v : Nat} {f : List Nat} (hf : f.Pairwise (· ≤ ·)) (hv : v ∉ f) :
    without (coneCell v f) v = f := by
  apply sorted_perm_eq (without_le_sorted (coneCell_le_sorted v f) v) hf
  have h1 : (without (coneCell v f) v).Perm ((v :: f).filter (· != v)) :=
    (coneCell_perm v f).filter _
  have h2 : (v :: f).filter (· != v) = f := by
    rw [List.filter_cons_of_neg (by simp)]
    exact without_eq_self hv
  rw [h2] at h1
  exact h1

/-- removing a base vertex commutes with coning -/
theorem without_coneCell_ne {v x : Nat} (f : List Nat) (hx : x ≠ v) :
    without (coneCell v f) x = coneCell v (without f x) := by
  apply sorted_perm_eq (without_le_sorted (coneCell_le_sorted v f) x) (coneCell_le_sorted _ _)
  have h1 : (without (coneCell v f) x).Perm ((v :: f).filter (· != x)) :=
    (coneCell_perm v f).filter _
  have h2 : (v :: f).filter (· != x) = v :: without f x := by
    rw [List.filter_cons_of_pos (by simpa using hx.symm)]
    rfl
  rw [h2] at h1
  exact h1.trans (coneCell_perm v _).symm

theorem coneCell_inj {v : Nat} {a b : List Nat} (ha : a.Pairwise (· ≤ ·))
    (hb : b.Pairwise (· ≤ ·)) (h : coneCell v a = coneCell v b) : a = b := by
  apply sorted_perm_eq ha hb
  have : (v :: a).Perm (v :: b) := (sortNat_eq_iff_perm _ _).1 h
  exact List.Perm.cons_inv this

/-- a sorted duplicate-free cell containing `v` is the cone over its facet opposite `v` -/
theorem coneCell_without {v : Nat} {c : List Nat} (hc : c.Pairwise (· < ·)) (hv : v ∈ c) :
    coneCell v (without c v) = c := by
  apply sorted_perm_eq (coneCell_le_sorted _ _) (lt_sorted_le hc)
  refine (coneCell_perm _ _).trans ?_
  refine (List.perm_ext_iff_of_nodup ?_ (lt_sorted_nodup hc)).2 ?_
  · exact List.nodup_cons.2 ⟨not_mem_without_self c v, without_nodup (lt_sorted_nodup hc) v⟩
  · intro a
    rw [List.mem_cons, mem_without]
    constructor
    · rintro (rfl | h)
      · exact hv
      · exact h.1
    · intro h
      by_cases e : a = v
      · exact Or.inl e
      · exact Or.inr ⟨h, e⟩

theorem map_coneCell_nodup {v : Nat} {F : List (List Nat)} (hF : F.Nodup)
    (hs : ∀ f ∈ F, f.Pairwise (· ≤ ·)) : (F.map (coneCell v)).Nodup := by
  induction F with
  | nil => simp
  | cons a F ih =>
    rw [List.nodup_cons] at hF
    rw [List.map_cons, List.nodup_cons]
    refine ⟨?_, ih hF.2 (fun f hf => hs f (List.mem_cons_of_mem _ hf))⟩
    intro hmem
    obtain ⟨b, hb, hab⟩ := List.mem_map.1 hmem
    have := coneCell_inj (hs b (List.mem_cons_of_mem _ hb)) (hs a List.mem_cons_self) hab
    exact hF.1 (this ▸ hb)

/-! ### the boundary of the removed region -/

theorem filter_count_one_nodup {α : Type} [BEq α] [LawfulBEq α] (l : List α) :
    (l.filter (fun a => l.count a == 1)).Nodup := by
  rw [List.nodup_iff_count]
  intro a
  by_cases h : l.count a = 1
  · rw [List.count_filter (by simpa using h)]
    omega
  · have : a ∉ l.filter (fun a => l.count a == 1) := by
      intro hm
      have := (List.mem_filter.1 hm).2
      exact h (by simpa using this)
    rw [List.count_eq_zero.2 this]
    omega

theorem cavityBoundary_nodup (C : List (List Nat)) : (cavityBoundary C).Nodup :=
  filter_count_one_nodup (cellFacets C)

/-- the boundary of `C` is exactly the set of facets of degree 1 in `C` -/
theorem mem_cavityBoundary {C : List (List Nat)} {f : List Nat} :
    f ∈ cavityBoundary C ↔ facetCount C f = 1 := by
  unfold cavityBoundary facetCount
  rw [List.mem_filter]
  constructor
  · intro h
    simpa using h.2
  · intro h
    refine ⟨?_, by simpa using h⟩
    exact List.count_pos_iff.1 (by omega)

theorem cavityBoundary_facet_of {C : List (List Nat)} {f : List Nat} (h : f ∈ cavityBoundary C) :
    ∃ c ∈ C, ∃ x ∈ c, without c x = f :=
  mem_cellFacets.1 (List.mem_filter.1 h).1

theorem cavityBoundary_lt_sorted {C : List (List Nat)} (hC : ∀ c ∈ C, c.Pairwise (· < ·)) :
    ∀ f ∈ cavityBoundary C, f.Pairwise (· < ·) := by
  intro f hf
  obtain ⟨c, hc, x, _, rfl⟩ := cavityBoundary_facet_of hf
  exact without_lt_sorted (hC c hc) x

theorem cavityBoundary_fresh {C : List (List Nat)} {v : Nat} (hv : ∀ c ∈ C, v ∉ c) :
    ∀ f ∈ cavityBoundary C, v ∉ f := by
  intro f hf hm
  obtain ⟨c, hc, x, _, rfl⟩ := cavityBoundary_facet_of hf
  exact hv c hc (without_subset c x v hm)

theorem nodupB_iff (l : List (List Nat)) : nodupB l = true ↔ l.Nodup := by
  induction l with
  | nil => simp [nodupB]
  | cons x xs ih =>
    rw [nodupB, Bool.and_eq_true, ih, List.nodup_cons]
    simp

/-! ### facet counting -/

/-- `cells = (cells \ C) ∪ C` for the facet count -/
theorem facetCount_filter_split {cells C : List (List Nat)} (hnd : cells.Nodup) (hC : C.Nodup)
    (hsub : ∀ c ∈ C, c ∈ cells) (f : List Nat) :
    facetCount cells f = facetCount (cells.filter (fun c => !C.contains c)) f + facetCount C f := by
  rw [← facetCount_append]
  exact (facetCount_perm (filter_not_contains_append_perm hnd hC hsub) f).symm

/-- a facet containing `v` is a facet of no cell without `v` -/
theorem facetCount_eq_zero_of_fresh {cells : List (List Nat)} {v : Nat} {f : List Nat}
    (hv : ∀ c ∈ cells, v ∉ c) (hf : v ∈ f) : facetCount cells f = 0 := by
  rw [facetCount_eq_zero]
  rintro c hc x _ rfl
  exact hv c hc (without_subset c x v hf)

theorem facets_nodup {c : List Nat} (hc : c.Nodup) : (c.map (without c)).Nodup :=
  map_without_nodup hc (fun _ h => h)

/-- the only facet of the cone over `g` that avoids the apex is `g` -/
theorem cone_facet_count_base {v : Nat} {g f : List Nat} (hg : g.Pairwise (· < ·)) (hvg : v ∉ g)
    (hvf : v ∉ f) :
    ((coneCell v g).map (without (coneCell v g))).count f = if g = f then 1 else 0 := by
  rw [(facets_nodup (coneCell_nodup hvg (lt_sorted_nodup hg))).count]
  by_cases e : g = f
  · subst e
    rw [if_pos, if_pos rfl]
    exact List.mem_map.2 ⟨v, self_mem_coneCell v g, without_coneCell_self (lt_sorted_le hg) hvg⟩
  · rw [if_neg, if_neg e]
    intro hm
    obtain ⟨x, hx, hxe⟩ := List.mem_map.1 hm
    by_cases hxv : x = v
    · subst hxv
      rw [without_coneCell_self (lt_sorted_le hg) hvg] at hxe
      exact e hxe
    · apply hvf
      rw [← hxe, mem_without]
      exact ⟨self_mem_coneCell v g, fun h => hxv h.symm⟩

/-- facets avoiding the apex: the cone over `F` contributes exactly the facets of `F` -/
theorem facetCount_cone_base {v : Nat} {F : List (List Nat)} {f : List Nat}
    (hs : ∀ g ∈ F, g.Pairwise (· < ·)) (hvF : ∀ g ∈ F, v ∉ g) (hvf : v ∉ f) :
    facetCount (F.map (coneCell v)) f = F.count f := by
  induction F with
  | nil => simp [facetCount_nil]
  | cons g F ih =>
    rw [List.map_cons, facetCount_cons, ih (fun a ha => hs a (List.mem_cons_of_mem _ ha))
      (fun a ha => hvF a (List.mem_cons_of_mem _ ha)),
      cone_facet_count_base (hs g List.mem_cons_self) (hvF g List.mem_cons_self) hvf,
      List.count_cons]
    have e : (if g = f then 1 else 0) = (if (g == f) = true then 1 else 0) := by simp
    rw [e]
    omega

/-- the facets of the cone over `g` through the apex are the cones over the facets of `g` -/
theorem cone_facet_count_ridge {v : Nat} {g r : List Nat} (hg : g.Pairwise (· < ·)) (hvg : v ∉ g)
    (hr : r.Pairwise (· ≤ ·)) :
    ((coneCell v g).map (without (coneCell v g))).count (coneCell v r) =
      (g.map (without g)).count r := by
  rw [(facets_nodup (coneCell_nodup hvg (lt_sorted_nodup hg))).count,
    (facets_nodup (lt_sorted_nodup hg)).count]
  have hiff : coneCell v r ∈ (coneCell v g).map (without (coneCell v g)) ↔
      r ∈ g.map (without g) := by
    constructor
    · intro hm
      obtain ⟨x, hx, hxe⟩ := List.mem_map.1 hm
      have hxv : x ≠ v := by
        intro e
        subst e
        have : x ∈ without (coneCell x g) x := hxe ▸ self_mem_coneCell x r
        exact not_mem_without_self _ _ this
      rw [without_coneCell_ne g hxv] at hxe
      have hxg : x ∈ g := by
        rcases mem_coneCell.1 hx with h | h
        · exact absurd h hxv
        · exact h
      exact List.mem_map.2 ⟨x, hxg,
        coneCell_inj (without_le_sorted (lt_sorted_le hg) x) hr hxe⟩
    · intro hm
      obtain ⟨x, hx, hxe⟩ := List.mem_map.1 hm
      have hxv : x ≠ v := fun e => hvg (e ▸ hx)
      refine List.mem_map.2 ⟨x, mem_coneCell.2 (Or.inr hx), ?_⟩
      rw [without_coneCell_ne g hxv, hxe]
  by_cases h : r ∈ g.map (without g)
  · rw [if_pos (hiff.2 h), if_pos h]
  · rw [if_neg (fun h' => h (hiff.1 h')), if_neg h]

/-- facets through the apex: the degree of the ridge-cone `r ∪ {v}` in the cone over `F` is the
degree of the ridge `r` in `F` -/
theorem facetCount_cone_ridge {v : Nat} {F : List (List Nat)} {r : List Nat}
    (hs : ∀ g ∈ F, g.Pairwise (· < ·)) (hvF : ∀ g ∈ F, v ∉ g) (hr : r.Pairwise (· ≤ ·)) :
    facetCount (F.map (coneCell v)) (coneCell v r) = facetCount F r := by
  induction F with
  | nil => simp [facetCount_nil]
  | cons g F ih =>
    rw [List.map_cons, facetCount_cons, facetCount_cons,
      ih (fun a ha => hs a (List.mem_cons_of_mem _ ha))
        (fun a ha => hvF a (List.mem_cons_of_mem _ ha)),
      cone_facet_count_ridge (hs g List.mem_cons_self) (hvF g List.mem_cons_self) hr]

end DM
